/- C01 — Evaluation agrees with the Jsonnet language semantics (partial).
   Property theorems about argument binding (`parse_function_call`, the mechanism that makes
   "whether arguments are passed positionally or by name" irrelevant) and about the definitional
   interpreter `Eval` that the correspondence run compares the real evaluator with. -/
import JrsVerif.Proofs.Bind
import JrsVerif.Proofs.BindPrepared
import JrsVerif.Model.Eval
import JrsVerif.Proofs.EvalBind
import JrsVerif.Proofs.EvalMono
import JrsVerif.Proofs.EvalSugar

namespace JrsVerif.Bind

/-- C01/C04: the `unreachable!()` in `parse_function_call` is unreachable — whenever the filled
    counters do not add up to the number of parameters, the search finds an unbound parameter. -/
theorem parseCall_never_unreachable (ps : List Param) (hnd : (names ps).Nodup) (npos : Nat)
    (named : List String) : parseCall ps npos named ≠ .unreachable := by
  simp only [parseCall]
  split
  · simp
  · rename_i hle
    have hle : npos ≤ ps.length := by omega
    cases hb : bindNamed ps (bindPos ps npos 0) named 0 with
    | error e => simp
    | ok passed =>
      simp only
      obtain ⟨w, hpassed⟩ := (named_wf_iff ps npos named passed).mp hb
      split
      · split
        · rename_i hcount
          cases hf : firstUnbound named (ps.drop npos) with
          | some n => simp
          | none =>
            exfalso
            have hall := (firstUnbound_none_iff named _).mp hf
            have hc : ∀ n ∈ (names ps).drop npos, n ∈ named := by
              intro n hn
              simp only [names, ← List.map_drop, List.mem_map] at hn
              obtain ⟨p, hp, rfl⟩ := hn
              exact hall p hp
            have hlen := named_length_of_covers w hnd hle hc
            -- every parameter is passed, so no default is added
            have hd : bindDefaults passed ps = [] := by
              have : ∀ (qs : List Param), (∀ q ∈ qs, has passed q.1 = true) → bindDefaults passed qs = [] := by
                intro qs
                induction qs with
                | nil => intro _; rfl
                | cons q r ih =>
                  intro h
                  have hq := h q (by simp)
                  simp only [bindDefaults, hq, Bool.not_true, Bool.and_false, Bool.false_eq_true, ↓reduceIte]
                  exact ih (fun x hx => h x (List.mem_cons_of_mem _ hx))
              apply this
              intro q hq
              rw [has_iff, hpassed, List.map_append, bindPos_names, namedEnv_names]
              have hq' : q.1 ∈ names ps := List.mem_map_of_mem (f := (·.1)) hq
              rw [← List.take_append_drop npos (names ps)] at hq'
              rcases List.mem_append.mp hq' with h | h
              · exact List.mem_append_left _ h
              · exact List.mem_append_right _ (hc _ h)
            rw [hd] at hcount
            simp at hcount
            omega
        · simp
      · simp

/-- the language's binding rule, for a call that `parse_function_call` accepts: every parameter
    gets exactly the source the rule prescribes (positional prefix, else the named argument of that
    name, else its default), and every parameter gets one. -/
theorem parseCall_assignment (ps : List Param) (hnd : (names ps).Nodup) (npos : Nat)
    (named : List String) (env : List (String × Src)) (h : parseCall ps npos named = .ok env)
    (i : Nat) (p : Param) (hp : ps[i]? = some p) :
    lookup env p.1 = specSrc npos named i p ∧ (specSrc npos named i p).isSome = true := by
  simp only [parseCall] at h
  split at h
  · cases h
  · rename_i hle
    have hle : npos ≤ ps.length := by omega
    cases hb : bindNamed ps (bindPos ps npos 0) named 0 with
    | error e => rw [hb] at h; cases h
    | ok passed =>
      rw [hb] at h
      simp only at h
      obtain ⟨w, hpassed⟩ := (named_wf_iff ps npos named passed).mp hb
      have hmem : p ∈ ps := List.mem_of_getElem? hp
      -- the lookup in `passed ++ rest`
      have look : ∀ rest, lookup (passed ++ rest) p.1 =
          if i < npos then some (.pos i) else
            match indexOf? named p.1 with
            | some j => some (.named j)
            | none => lookup rest p.1 := by
        intro rest
        rw [hpassed, List.append_assoc]
        by_cases hi : i < npos
        · simp only [hi, ↓reduceIte]
          have := lookup_bindPos ps hnd npos 0 i p hp hi (namedEnv named 0 ++ rest)
          simpa using this
        · simp only [hi, ↓reduceIte]
          have hnot : has (bindPos ps npos 0) p.1 = false := by
            have := not_mem_take_of_ge ps hnd npos i p hp (by omega)
            rw [← bindPos_names ps npos 0, ← has_iff] at this
            simpa using this
          rw [lookup_append_of_not_has _ _ _ hnot, lookup_namedEnv]
          cases indexOf? named p.1 <;> simp
      have hasPassed : has passed p.1 = (decide (i < npos) || (indexOf? named p.1).isSome) := by
        rw [indexOf?_isSome]
        apply Bool.eq_iff_iff.mpr
        rw [has_iff, hpassed, List.map_append, bindPos_names, namedEnv_names]
        simp only [List.mem_append, Bool.or_eq_true, decide_eq_true_eq, List.contains_iff_mem]
        constructor
        · rintro (h1 | h1)
          · by_cases hi : i < npos
            · exact Or.inl hi
            · exact absurd h1 (not_mem_take_of_ge ps hnd npos i p hp (by omega))
          · exact Or.inr h1
        · rintro (h1 | h1)
          · exact Or.inl (mem_take_names_of_lt ps npos i p hp h1)
          · exact Or.inr h1
      split at h
      · -- defaults branch
        split at h
        · split at h <;> cases h
        · rename_i hcount
          cases h
          have hcount : named.length + (bindDefaults passed ps).length + npos = ps.length := by
            simpa using hcount
          rw [look, lookup_bindDefaults passed ps p hmem hnd, hasPassed]
          unfold specSrc
          by_cases hi : i < npos
          · simp [hi]
          · simp only [hi, ↓reduceIte, decide_false, Bool.false_or]
            cases hidx : indexOf? named p.1 with
            | some j => simp
            | none =>
              simp only [Option.isSome_none, Bool.not_false, Bool.and_true]
              by_cases hd : p.2 = true
              · simp [hd]
              · exfalso
                -- p is not passed and has no default: then the counters cannot add up
                have hd' : p.2 = false := by simpa using hd
                have hnotnamed : p.1 ∉ named := by
                  have := indexOf?_isSome named p.1
                  rw [hidx] at this
                  simpa using this.symm
                -- defaults ⊆ params beyond npos that are not named and not p
                let D := (names ps).drop npos
                have hpD : p.1 ∈ D := mem_drop_names_of_ge ps npos i p hp (by omega)
                have dn : ((bindDefaults passed ps).map (·.1)).Nodup := by
                  have : ∀ qs : List Param, (names qs).Nodup → ((bindDefaults passed qs).map (·.1)).Nodup := by
                    intro qs
                    induction qs with
                    | nil => intro _; exact List.nodup_nil
                    | cons q r ih =>
                      intro hq
                      have hc : names (q :: r) = q.1 :: names r := rfl
                      rw [hc] at hq
                      have hq' := List.nodup_cons.mp hq
                      simp only [bindDefaults]
                      split
                      · simp only [List.map_cons]
                        refine List.nodup_cons.mpr ⟨?_, ih hq'.2⟩
                        intro hm
                        rw [← has_iff, has_bindDefaults] at hm
                        obtain ⟨x, hx, hxe⟩ := List.any_eq_true.mp hm
                        simp only [Bool.and_eq_true, beq_iff_eq] at hxe
                        exact hq'.1 (hxe.1 ▸ List.mem_map_of_mem (f := (·.1)) hx)
                      · exact ih hq'.2
                  exact this ps hnd
                -- the list named ++ defaults-names is nodup, ⊆ D and misses p.1
                have sub : ∀ n ∈ named ++ (bindDefaults passed ps).map (·.1), n ∈ D ∧ n ≠ p.1 := by
                  intro n hn
                  rcases List.mem_append.mp hn with h1 | h1
                  · exact ⟨named_subset_drop w h1, fun e => hnotnamed (e ▸ h1)⟩
                  · rw [← has_iff, has_bindDefaults] at h1
                    obtain ⟨x, hx, hxe⟩ := List.any_eq_true.mp h1
                    simp only [Bool.and_eq_true, beq_iff_eq, Bool.not_eq_true'] at hxe
                    obtain ⟨hx1, hx2, hx3⟩ := hxe
                    subst hx1
                    refine ⟨?_, ?_⟩
                    · have hx' : x.1 ∈ names ps := List.mem_map_of_mem (f := (·.1)) hx
                      rw [← List.take_append_drop npos (names ps)] at hx'
                      rcases List.mem_append.mp hx' with h2 | h2
                      · exfalso
                        have : has passed x.1 = true := by
                          rw [has_iff, hpassed, List.map_append, bindPos_names]
                          exact List.mem_append_left _ h2
                        rw [this] at hx3; cases hx3
                      · exact h2
                    · intro e
                      -- x has a default, p has none, same name ⇒ same param (nodup) ⇒ contradiction
                      have : x = p := by
                        have inj : ∀ (qs : List Param), (names qs).Nodup → ∀ a ∈ qs, ∀ b ∈ qs, a.1 = b.1 → a = b := by
                          intro qs
                          induction qs with
                          | nil => intro _ a ha; cases ha
                          | cons q r ih =>
                            intro hq a ha b hb hab
                            have hc : names (q :: r) = q.1 :: names r := rfl
                            rw [hc] at hq
                            have hq' := List.nodup_cons.mp hq
                            rcases List.mem_cons.mp ha with ea | ha' <;> rcases List.mem_cons.mp hb with eb | hb'
                            · rw [ea, eb]
                            · exfalso; exact hq'.1 (by rw [← ea, hab]; exact List.mem_map_of_mem (f := (·.1)) hb')
                            · exfalso; exact hq'.1 (by rw [← eb, ← hab]; exact List.mem_map_of_mem (f := (·.1)) ha')
                            · exact ih hq'.2 a ha' b hb' hab
                        exact inj ps hnd x hx p hmem e
                      rw [this, hd'] at hx2; cases hx2
                have ndAll : (named ++ (bindDefaults passed ps).map (·.1)).Nodup := by
                  refine List.nodup_append.mpr ⟨w.nd, dn, ?_⟩
                  intro a ha b hb hab
                  subst hab
                  rw [← has_iff, has_bindDefaults] at hb
                  obtain ⟨x, hx, hxe⟩ := List.any_eq_true.mp hb
                  simp only [Bool.and_eq_true, beq_iff_eq, Bool.not_eq_true'] at hxe
                  have : has passed x.1 = true := by
                    rw [has_iff, hpassed, List.map_append, namedEnv_names]
                    exact List.mem_append_right _ (hxe.1 ▸ ha)
                  rw [this] at hxe; cases hxe.2.2
                have sub' : (p.1 :: (named ++ (bindDefaults passed ps).map (·.1))) ⊆ D := by
                  intro n hn
                  rcases List.mem_cons.mp hn with e | h1
                  · rw [e]; exact hpD
                  · exact (sub n h1).1
                have nd' : (p.1 :: (named ++ (bindDefaults passed ps).map (·.1))).Nodup :=
                  List.nodup_cons.mpr ⟨fun hm => (sub _ hm).2 rfl, ndAll⟩
                have := (List.subperm_of_subset nd' sub').length_le
                simp [D, names] at this
                omega
      · -- every parameter is passed
        rename_i hfull
        cases h
        have hfull : ps.length ≤ named.length + npos := by omega
        have hcov := named_covers_of_length w hle hfull
        have := look []
        rw [List.append_nil] at this
        rw [this]
        unfold specSrc
        by_cases hi : i < npos
        · simp [hi]
        · simp only [hi, ↓reduceIte]
          have hin : p.1 ∈ named := hcov _ (mem_drop_names_of_ge ps npos i p hp (by omega))
          have := indexOf?_isSome named p.1
          have hc : named.contains p.1 = true := by simpa using hin
          rw [hc] at this
          cases hidx : indexOf? named p.1 with
          | none => rw [hidx] at this; cases this
          | some j => simp


/-- `parse_function_call` accepts a call exactly when the language rule does (so it fails with an
    error exactly on: too many arguments, unknown name, parameter bound twice, unbound parameter) -/
theorem parseCall_ok_iff (ps : List Param) (hnd : (names ps).Nodup) (npos : Nat) (named : List String) :
    (∃ env, parseCall ps npos named = .ok env) ↔ SpecOk ps npos named := by
  constructor
  · rintro ⟨env, h⟩
    have hsrc := fun i p hp => (parseCall_assignment ps hnd npos named env h i p hp).2
    simp only [parseCall] at h
    split at h
    · cases h
    · rename_i hle
      cases hb : bindNamed ps (bindPos ps npos 0) named 0 with
      | error e => rw [hb] at h; cases h
      | ok passed =>
        exact ⟨by omega, ((named_wf_iff ps npos named passed).mp hb).1, hsrc⟩
  · rintro ⟨hle, w, hsrc⟩
    have hb := (named_wf_iff ps npos named _).mpr ⟨w, rfl⟩
    simp only [parseCall]
    have : ¬ npos > ps.length := by omega
    simp only [this, ↓reduceIte, hb]
    split
    · have hall : ∀ i p, ps[i]? = some p → npos ≤ i → p.1 ∈ named ∨ p.2 = true := by
        intro i p hp hi
        have h1 := hsrc i p hp
        unfold specSrc at h1
        have hni : ¬ i < npos := by omega
        simp only [hni, ↓reduceIte] at h1
        cases hidx : indexOf? named p.1 with
        | some j =>
          left
          have := indexOf?_isSome named p.1
          rw [hidx] at this
          simpa using this.symm
        | none =>
          right
          rw [hidx] at h1
          cases hd : p.2 with
          | true => rfl
          | false => rw [hd] at h1; simp at h1
      have hc := count_full w hnd hle _ rfl hall
      simp [hc]
    · exact ⟨_, rfl⟩

/-- non-vacuity: `function(a, b=…, c)` called as `f(1, c=…)` -/
example : SpecOk [("a", false), ("b", true), ("c", false)] 1 ["c"]
    ∧ parseCall [("a", false), ("b", true), ("c", false)] 1 ["c"]
        = .ok [("a", .pos 0), ("c", .named 0), ("b", .dflt)] := by
  refine ⟨⟨by decide, ⟨by decide, by decide, by decide⟩, ?_⟩, by decide⟩
  intro i p hp
  match i, hp with
  | 0, hp => cases hp; decide
  | 1, hp => cases hp; decide
  | 2, hp => cases hp; decide
  | (k + 3), hp => simp at hp

/-! ### call style does not matter -/

/-- C01 "whether arguments are passed positionally or by name": take a call that passes the
    values `vs` positionally.  Passing only the first `k` positionally and the rest by name, in
    ANY order (`named` is any permutation of the (parameter name, value) pairs of the rest), binds
    every parameter to the same value, and leaves the same parameters to their defaults. -/
theorem call_style_invariant {V : Type} (ps : List Param) (hnd : (names ps).Nodup) (vs : List V)
    (hlen : vs.length ≤ ps.length) (k : Nat) (hk : k ≤ vs.length)
    (named : List (String × V)) (hperm : named.Perm (((names ps).zip vs).drop k))
    (i : Nat) (p : Param) (hp : ps[i]? = some p) :
    (specSrc k (named.map (·.1)) i p).bind (valueOf (vs.take k) named)
      = (specSrc vs.length [] i p).bind (valueOf vs []) ∧
    ((specSrc k (named.map (·.1)) i p) = some .dflt ↔ (specSrc vs.length [] i p) = some .dflt) ∧
    ((specSrc k (named.map (·.1)) i p).isSome = (specSrc vs.length [] i p).isSome) := by
  have hname : (names ps)[i]? = some p.1 := by simp [names, hp]
  have zipnd : ((((names ps).zip vs).drop k).map (·.1)).Nodup := by
    have h1 : (((names ps).zip vs).map (·.1)).Nodup := (map_fst_zip_sublist _ _).nodup hnd
    rw [List.map_drop]
    exact (List.drop_sublist k _).nodup h1
  have nnd : (named.map (·.1)).Nodup := (hperm.map (·.1)).nodup_iff.mpr zipnd
  by_cases hi : i < vs.length
  · -- parameter receives vs[i] in both calls
    have hv : ∃ v, vs[i]? = some v := ⟨vs[i], by simp [hi]⟩
    obtain ⟨v, hv⟩ := hv
    have rhs : specSrc vs.length [] i p = some (.pos i) := by simp [specSrc, hi]
    by_cases hik : i < k
    · have lhs : specSrc k (named.map (·.1)) i p = some (.pos i) := by simp [specSrc, hik]
      rw [lhs, rhs]
      refine ⟨?_, by simp, by simp⟩
      simp [valueOf, List.getElem?_take, hik]
    · -- passed by name
      have hz : ((names ps).zip vs)[i]? = some (p.1, v) := by
        rw [List.getElem?_zip_eq_some]; exact ⟨hname, hv⟩
      have hmem : (p.1, v) ∈ ((names ps).zip vs).drop k := by
        apply List.mem_of_getElem? (i := i - k)
        rw [List.getElem?_drop]
        have : k + (i - k) = i := by omega
        rw [this]; exact hz
      have hmem' : (p.1, v) ∈ named := hperm.mem_iff.mpr hmem
      obtain ⟨j, hj1, hj2⟩ := indexOf?_spec named nnd p.1 v hmem'
      have lhs : specSrc k (named.map (·.1)) i p = some (.named j) := by simp [specSrc, hik, hj1]
      rw [lhs, rhs]
      refine ⟨?_, by simp, by simp⟩
      simp [valueOf, hj2, hv]
  · -- beyond the passed values: default or unbound in both calls
    have hik : ¬ i < k := by omega
    have hnot : indexOf? (named.map (·.1)) p.1 = none := by
      have := indexOf?_isSome (named.map (·.1)) p.1
      cases hidx : indexOf? (named.map (·.1)) p.1 with
      | none => rfl
      | some j =>
        exfalso
        rw [hidx] at this
        have hin : p.1 ∈ named.map (·.1) := by simpa using this.symm
        have hin' : p.1 ∈ (((names ps).zip vs).drop k).map (·.1) := (hperm.map (·.1)).mem_iff.mp hin
        obtain ⟨⟨n, v⟩, hm, hn⟩ := List.mem_map.mp hin'
        have hn : n = p.1 := hn
        have hm' : (n, v) ∈ (names ps).zip vs := (List.drop_sublist k _).mem hm
        obtain ⟨m, hmm⟩ := List.getElem?_of_mem hm'
        rw [List.getElem?_zip_eq_some] at hmm
        -- names nodup: index m = i, but m < vs.length ≤ i
        have hm_lt : m < vs.length := by
          have := hmm.2
          exact (List.getElem?_eq_some_iff.mp this).1
        have : m = i := by
          have h1 := hmm.1
          have hm1 : m < (names ps).length := (List.getElem?_eq_some_iff.mp h1).1
          have hi1 : i < (names ps).length := (List.getElem?_eq_some_iff.mp hname).1
          have e1 : (names ps)[m] = n := (List.getElem?_eq_some_iff.mp h1).2
          have e2 : (names ps)[i] = n := hn ▸ (List.getElem?_eq_some_iff.mp hname).2
          exact (List.getElem_inj hnd).mp (e1.trans e2.symm)
        omega
    have lhs : specSrc k (named.map (·.1)) i p = (if p.2 then some .dflt else none) := by
      simp [specSrc, hik, hnot]
    have rhs : specSrc vs.length [] i p = (if p.2 then some .dflt else none) := by
      simp [specSrc, hi, indexOf?]
    rw [lhs, rhs]
    cases p.2 <;> simp [valueOf]

end JrsVerif.Bind

/-! ### The prepared call path (top-level arguments, callbacks from builtins) -/
namespace JrsVerif.BindPrepared
open JrsVerif.Bind

/-- C01 "whichever way the function is reached": `prepare_call` (function/prepared.rs — the binder
    behind top-level-argument calls and every callback a builtin makes: `std.map`, `keyF`, native
    wrappers; model shared with C04 and tied there) gives, read through parameter names, exactly
    the answer of `parse_function_call` for every parameter list with pairwise different names and
    every call — same acceptance, same error, same source for every parameter. -/
theorem prepared_binder_refines (ps : List Param) (hnd : (names ps).Nodup) (npos : Nat)
    (named : List String) (hfit : npos + named.length < Total.USIZE) :
    absR ps npos (Total.prepareCall (toT ps) npos named) = parseCall ps npos named :=
  prepareCall_refines_parseCall ps hnd npos named hfit

/-- hence the prepared binder accepts exactly the calls the language accepts … -/
theorem prepared_binding_ok_iff (ps : List Param) (hnd : (names ps).Nodup) (npos : Nat)
    (named : List String) (hfit : npos + named.length < Total.USIZE) :
    (∃ ops dfl, Total.prepareCall (toT ps) npos named = .ok ops dfl) ↔ SpecOk ps npos named := by
  rw [← parseCall_ok_iff ps hnd npos named, ← prepared_binder_refines ps hnd npos named hfit]
  constructor
  · rintro ⟨ops, dfl, h⟩; exact ⟨_, by rw [h]; rfl⟩
  · rintro ⟨env, h⟩
    cases hp : Total.prepareCall (toT ps) npos named with
    | ok ops dfl => exact ⟨ops, dfl, rfl⟩
    | err e => rw [hp] at h; simp [absR] at h
    | panic w => rw [hp] at h; simp [absR] at h

/-- … and gives every parameter the source the language prescribes (positional, the named
    argument of that name, or its own default). -/
theorem prepared_binding_assignment (ps : List Param) (hnd : (names ps).Nodup) (npos : Nat)
    (named : List String) (hfit : npos + named.length < Total.USIZE) (ops : List (Nat × Nat))
    (dfl : List Nat) (h : Total.prepareCall (toT ps) npos named = .ok ops dfl)
    (i : Nat) (p : Param) (hp : ps[i]? = some p) :
    lookup (envOf ps npos ops dfl) p.1 = specSrc npos named i p := by
  have hr := prepared_binder_refines ps hnd npos named hfit
  rw [h] at hr
  exact (parseCall_assignment ps hnd npos named _ hr.symm i p hp).1

/-- and never reaches its `unreachable!()` -/
theorem prepared_never_unreachable (ps : List Param) (hnd : (names ps).Nodup) (npos : Nat)
    (named : List String) (hfit : npos + named.length < Total.USIZE) (w : String) :
    Total.prepareCall (toT ps) npos named ≠ .panic w := by
  intro h
  have hr := prepared_binder_refines ps hnd npos named hfit
  rw [h] at hr
  exact parseCall_never_unreachable ps hnd npos named hr.symm

/-- non-vacuity: a call mixing one positional, one named and one defaulted parameter -/
example : Total.prepareCall (toT [("a", false), ("b", true), ("c", false)]) 1 ["c"] = .ok [(2, 0)] [1] ∧
    envOf [("a", false), ("b", true), ("c", false)] 1 [(2, 0)] [1]
      = [("a", .pos 0), ("c", .named 0), ("b", .dflt)] := by
  constructor <;> decide

end JrsVerif.BindPrepared

/-! ### the interpreter (spec side of the correspondence) binds arguments by the same rule -/
namespace JrsVerif.EvalBind
open JrsVerif.Eval

/-- the definitional interpreter accepts a call exactly when the language rule does — the same
    `SpecOk` that `parse_function_call` was proved equivalent to (`Bind.parseCall_ok_iff`) -/
theorem interpreter_binding_ok_iff (ps : List Param) (hnd : (ps.map paramName).Nodup) (pos : List Ref)
    (named : List (String × Ref)) :
    (∃ bs, bindArgs ps pos named = .ok bs) ↔
      Bind.SpecOk (absParams ps) pos.length (named.map (·.1)) :=
  evalBind_ok_iff ps hnd pos named

/-- … and gives every parameter the positional argument, named argument or default expression that
    the rule's source (`Bind.specSrc`) names -/
theorem interpreter_binding_assignment (ps : List Param) (hnd : (ps.map paramName).Nodup)
    (pos : List Ref) (named : List (String × Ref)) (bs : List (String × Src))
    (h : bindArgs ps pos named = .ok bs) (i : Nat) (p : Param) (hp : ps[i]? = some p) :
    lookupE bs (paramName p) =
      (Bind.specSrc pos.length (named.map (·.1)) i (paramName p, (paramDflt p).isSome)).bind
        (srcOf pos named p) :=
  evalBind_assignment ps hnd pos named bs h i p hp

end JrsVerif.EvalBind


/-! ### the interpreter assigns at most one outcome to a program (☆ `eval_fuel_mono`) and obeys the
    documented desugarings.  `Decided r`: `r` is a value or an error, not "undecided" (out of fuel /
    outside the modelled fragment).  Proved for the WHOLE interpreter `Eval.run` (every `Task`, every
    construct and builtin), by induction on the fuel (Proofs/EvalMono.lean). -/
namespace JrsVerif.Eval

/-- ☆ one more unit of fuel changes nothing once the interpreter has an answer: same result (value
    or error), same store (thunk cells, object cache, trace) -/
theorem eval_fuel_mono (n : Nat) (t : Task) (s : St) (h : Decided (run n t s)) :
    run (n + 1) t s = run n t s :=
  (run_mono n (n + 1) (Nat.le_succ n) t).le s h

/-- … nor does any larger fuel -/
theorem eval_fuel_mono_le (n m : Nat) (hnm : n ≤ m) (t : Task) (s : St) (h : Decided (run n t s)) :
    run m t s = run n t s :=
  (run_mono n m hnm t).le s h

/-- the semantics is a partial FUNCTION: two fuels at which a task is decided give the same result
    and the same store -/
theorem eval_deterministic (n m : Nat) (t : Task) (s : St) (hn : Decided (run n t s))
    (hm : Decided (run m t s)) : run n t s = run m t s := by
  rcases Nat.le_total n m with h | h
  · exact (eval_fuel_mono_le n m h t s hn).symm
  · exact eval_fuel_mono_le m n h t s hm

/-- whole programs: once `evalProgram` returns a JSON value or an error (with its trace), every
    larger fuel returns the same — the driver's fuel is irrelevant once an answer exists -/
theorem evalProgram_fuel_mono (n m : Nat) (hnm : n ≤ m) (e : Expr)
    (h : ∀ w, evalProgram n e ≠ .undecided w) : evalProgram m e = evalProgram n e := by
  rw [evalProgram_eq, evalProgram_eq] at *
  rw [(progM_mono n m hnm e).le {} (outcomeOf_decided _ h)]

/-- a program has at most one decided outcome -/
theorem evalProgram_deterministic (n m : Nat) (e : Expr) (hn : ∀ w, evalProgram n e ≠ .undecided w)
    (hm : ∀ w, evalProgram m e ≠ .undecided w) : evalProgram n e = evalProgram m e := by
  rcases Nat.le_total n m with h | h
  · exact (evalProgram_fuel_mono n m h e hn).symm
  · exact evalProgram_fuel_mono m n h e hm

/-- the hypothesis is met by a real evaluation -/
example : Decided (run 2 (.eval ⟨[], none, none⟩ (.ifE .tru (.str "a") none)) {}) := by
  intro w h
  simp only [run, pure_bind, expectVal] at h
  cases h

/-- `e1 != e2` ≡ `!(e1 == e2)`: the same computation (result, store, trace); the desugared form has
    one more node and needs one more unit of fuel -/
theorem ne_desugar (n : Nat) (c : Ctx) (a b : Expr) :
    run (n + 2) (.eval c (.unary .not (.binary .eq a b))) = run (n + 1) (.eval c (.binary .ne a b)) :=
  run_ne_desugar n c a b

/-- … hence, independent of fuel: both forms have the same decided outcomes from every store -/
theorem ne_desugar_outcome (c : Ctx) (a b : Expr) (s : St) (r : Except Stop Out × St) (hr : Decided r) :
    (∃ n, run n (.eval c (.binary .ne a b)) s = r) ↔
      (∃ n, run n (.eval c (.unary .not (.binary .eq a b))) s = r) := by
  constructor
  · rintro ⟨n, h⟩
    cases n with
    | zero => subst h; exact absurd hr (by rw [run_zero]; exact not_decided_undecided _ _)
    | succ k => exact ⟨k + 2, by rw [ne_desugar]; exact h⟩
  · rintro ⟨n, h⟩
    refine ⟨n + 1, ?_⟩
    have hd : Decided (run n (.eval c (.unary .not (.binary .eq a b))) s) := by rw [h]; exact hr
    rw [← ne_desugar, eval_fuel_mono_le n (n + 2) (by omega) _ s hd, h]

/-- `a[i:j:k]` ≡ `std.slice(a, i, j, k)` (tailstrict call, absent parts `null`, `std` not
    shadowed): the same computation for every fuel ≥ 2, context and store -/
theorem slice_desugar (k : Nat) (hk : 1 ≤ k) (c : Ctx) (x : Expr) (a b st : Option Expr)
    (hstd : lookupEnv c.env "std" = none) :
    run (k + 1) (.eval c (sliceCall x a b st)) = run (k + 1) (.eval c (.slice x a b st)) :=
  run_slice_desugar k hk c x a b st hstd

/-- object members `f(ps): e` ≡ `f: function(ps) e`: the same computation for every fuel, context
    and store (`local f(ps) = e` ≡ `local f = function(ps) e` is `Props.C19.eval_local_sugar`) -/
theorem method_desugar (fuel : Nat) (c : Ctx) (ls : List Bind) (as : List (Expr × Option Expr))
    (fs : List Field) :
    run fuel (.eval c (.obj (.members ls as (fs.map unsugarField))))
      = run fuel (.eval c (.obj (.members ls as fs))) :=
  run_obj_method_desugar fuel c ls as fs

end JrsVerif.Eval
