/- C06 — The bundled parsers accept the same language and build the same tree.
   Property theorems only (helpers: Proofs/Pratt.lean, Proofs/Unescape.lean). -/
import JrsVerif.Proofs.Pratt
import JrsVerif.Proofs.Unescape
import JrsVerif.Proofs.PrattLit
import JrsVerif.Model.PrattTrivia
import JrsVerif.Proofs.PrattSuffix

namespace JrsVerif.C06
open JrsVerif.Generated JrsVerif.Pratt

/-- C06.1a  the BINARY part of the table extracted from crates/jrsonnet-ir-parser/src/lib.rs denotes
    the Jsonnet grammar: precedence classes exactly as the grammar's levels, all left-associative -/
theorem table_wfbin_ir : WFbin irTable := by
  refine ⟨?_, ?_⟩
  · intro o₁ o₂; cases o₁ <;> cases o₂ <;> decide
  · intro o; cases o <;> rfl

/-- every prefix operator of the lexer has a row in the IR table -/
theorem ir_prefix_total : ∀ u, (irTable.pref u).isSome := by intro u; cases u <;> rfl

/-- FULL statement: the IR table denotes the grammar, including "unary binds tighter than every
    binary operator".  False of the current code: prefix power 20 = left power of `* / %` —
    known finding `c06_unary_looser_than_mul` (the repair breaks a pinned snapshot test). -/
def tableWfIrStmt : Prop := WF irTable

theorem tableWfIr_counterexample : ¬ tableWfIrStmt := by
  intro h
  exact absurd (h.prefixTight .BitNot 20 rfl .Mul) (by decide)

/-- the defect is confined to the multiplicative operators: against every other binary operator
    every prefix operator is tighter (exactly the negation of the classifier) -/
theorem tableWfIr_partial :
    WFbin irTable ∧ ∀ u p, irTable.pref u = some p → ∀ o, o ≠ .Mul → o ≠ .Div → o ≠ .Mod → (irTable.inf o).1 < p := by
  refine ⟨table_wfbin_ir, ?_⟩
  intro u p h o h1 h2 h3
  cases u <;> cases o <;> first | exact absurd rfl h1 | exact absurd rfl h2 | exact absurd rfl h3 | (cases h; decide)

/-- the concrete witness replayed by the harness: `~ a * b` becomes `~(a * b)` -/
theorem ir_unary_mul_counterexample :
    parse irTable (JrsVerif.Spec.print (.bin .Mul (.un .BitNot (.atom 0)) (.atom 1)))
      = some (.un .BitNot (.bin .Mul (.atom 0) (.atom 1))) := by decide

/-- C06.1b  the same for the table extracted from crates/jrsonnet-rowan-parser/src/precedence.rs -/
theorem table_wfbin_rowan : WFbin rowanTable := by
  refine ⟨?_, ?_⟩
  · intro o₁ o₂; cases o₁ <;> cases o₂ <;> decide
  · intro o; cases o <;> rfl

def tableWfRowanStmt : Prop := WF rowanTable

theorem tableWfRowan_counterexample : ¬ tableWfRowanStmt := by
  intro h
  exact absurd (h.prefixTight .BitNot 20 rfl .Mul) (by decide)

theorem tableWfRowan_partial :
    WFbin rowanTable ∧ ∀ u p, rowanTable.pref u = some p → ∀ o, o ≠ .Mul → o ≠ .Div → o ≠ .Mod → (rowanTable.inf o).1 < p := by
  refine ⟨table_wfbin_rowan, ?_⟩
  intro u p h o h1 h2 h3
  cases u <;> cases o <;> first | exact absurd rfl h1 | exact absurd rfl h2 | exact absurd rfl h3 | (cases h; decide) | (simp [rowanTable, rowanPrefixBP] at h)

/-- C06.1c  the levels of the PEG `precedence!` block denote the same grammar: every binary rule
    is `a:(@) op b:@` (left-associative) and the prefix level lies above every binary level -/
theorem table_wf_peg : WF pegTable := by
  refine ⟨⟨?_, ?_⟩, ?_⟩
  · intro o₁ o₂; cases o₁ <;> cases o₂ <;> decide
  · intro o; cases o <;> rfl
  · intro u p h o; cases u <;> cases o <;> (cases h; decide)

theorem peg_prefix_total : ∀ u, (pegTable.pref u).isSome := by intro u; cases u <;> rfl

/-- postfix forms (index, slice, call, object extension) bind tighter than prefix operators and
    atoms tighter still in the PEG grammar; object application in the rowan table binds at least
    as tight as every prefix operator -/
theorem peg_postfix_above_prefix :
    (∀ u l, pegPrefix u = some l → l < pegPostfixLevel) ∧ pegPostfixLevel < pegAtomLevel := by
  refine ⟨?_, by decide⟩
  intro u l h; cases u <;> (cases h; decide)

theorem rowan_objapply_above_prefix : ∀ u p, rowanPrefixBP u = some p → p ≤ rowanObjApplyBP.1 := by
  intro u p h; cases u <;> first | (cases h; decide) | (simp [rowanTable, rowanPrefixBP] at h)

/-- C06.1d  the two Pratt parsers use the same binary table, and the same prefix powers wherever
    the rowan parser has the operator at all -/
theorem tables_agree :
    (∀ o, irInfixBP o = rowanInfixBP o) ∧ (∀ u p, rowanPrefixBP u = some p → irPrefixBP u = some p) := by
  refine ⟨?_, ?_⟩
  · intro o; cases o <;> rfl
  · intro u p h; cases u <;> first | (cases h; rfl) | (simp [rowanTable, rowanPrefixBP] at h)

/-- the PEG levels induce the same precedence order as the IR binding powers -/
theorem peg_agrees_ir : ∀ o₁ o₂, (pegInfixBP o₁).1 < (pegInfixBP o₂).1 ↔ (irInfixBP o₁).1 < (irInfixBP o₂).1 := by
  intro o₁ o₂; cases o₁ <;> cases o₂ <;> decide

/-- FULL statement for the rowan parser: it knows every prefix operator of the language.
    False of the current code (no unary `+` kind) — known finding `c06_rowan_no_unary_plus`. -/
def rowanPrefixTotalStmt : Prop := ∀ u, (rowanTable.pref u).isSome

theorem rowanPrefixTotal_counterexample : ¬ rowanPrefixTotalStmt := by
  intro h; exact absurd (h .Plus) (by decide)

/-- … and it holds for every prefix operator other than `+` (exactly the classifier's negation) -/
theorem rowanPrefixTotal_partial : ∀ u, u ≠ .Plus → (rowanTable.pref u).isSome := by
  intro u hu; cases u <;> first | rfl | exact absurd rfl hu

/-! ### from tables to trees -/

/-- C06.2 (generic, table-independent)  For EVERY binding-power table whose binary part denotes the
    Jsonnet grammar, the Pratt loop `expr_bp` parses the minimal-parenthesis rendering of every
    expression tree — every operator in every associativity position, any depth — back to exactly
    that tree, provided the prefix operators used in the tree are tight in the table. -/
theorem pratt_generic (T : Table) (hT : WFbin T) (e : Ast) (ht : Tight T e) :
    parse T (JrsVerif.Spec.print e) = some e := parse_print T hT e ht

/-- corollary for the PEG levels: every tree, no side condition -/
theorem parse_print_peg (e : Ast) : parse pegTable (JrsVerif.Spec.print e) = some e :=
  parse_print pegTable table_wf_peg.toWFbin e (tight_of_wf table_wf_peg peg_prefix_total e)

/-- the reference table used by the driver is itself well-formed, so the driver's "spec" answer
    is the grammar's tree -/
theorem table_wf_spec : WF JrsVerif.Spec.table := by
  refine ⟨⟨?_, ?_⟩, ?_⟩
  · intro o₁ o₂; cases o₁ <;> cases o₂ <;> decide
  · intro o; rfl
  · intro u p h o; cases h; cases o <;> decide

theorem parse_print_spec (e : Ast) : parse JrsVerif.Spec.table (JrsVerif.Spec.print e) = some e :=
  parse_print _ table_wf_spec.toWFbin e (tight_of_wf table_wf_spec (fun _ => rfl) e)

/-- FULL statement for the default parser's table.  False of the current code (finding
    `c06_unary_looser_than_mul`). -/
def parsePrintIrStmt : Prop := ∀ e, parse irTable (JrsVerif.Spec.print e) = some e

theorem parsePrintIr_counterexample : ¬ parsePrintIrStmt := by
  intro h
  have := h (.bin .Mul (.un .BitNot (.atom 0)) (.atom 1))
  rw [ir_unary_mul_counterexample] at this
  exact absurd this (by decide)

/-- … it holds for every tree without prefix operators (all 19 binary operators in every
    associativity position), for the IR table and for the rowan table -/
theorem parsePrintIr_partial (e : Ast) (h : NoUnary e) : parse irTable (JrsVerif.Spec.print e) = some e :=
  parse_print irTable table_wfbin_ir e (tight_of_noUnary irTable e h)

theorem parsePrintRowan_partial (e : Ast) (h : NoUnary e) :
    parse rowanTable (JrsVerif.Spec.print e) = some e :=
  parse_print rowanTable table_wfbin_rowan e (tight_of_noUnary rowanTable e h)

/-- non-vacuity: `(a - (b - c)) * -d ^ e` has a parenthesised right operand, a looser left operand
    and a prefix operator; it is Tight in the PEG table and round-trips -/
example :
    let e : Ast := .bin .BitXor (.bin .Mul (.bin .Sub (.atom 0) (.bin .Sub (.atom 1) (.atom 2))) (.un .Minus (.atom 3))) (.atom 4)
    Tight pegTable e ∧ JrsVerif.Spec.print e =
      [.lpar, .atom 0, .bin .Sub, .lpar, .atom 1, .bin .Sub, .atom 2, .rpar, .rpar, .bin .Mul, .bin .Sub, .atom 3,
       .bin .BitXor, .atom 4] ∧ parse pegTable (JrsVerif.Spec.print e) = some e := by
  refine ⟨tight_of_wf table_wf_peg peg_prefix_total _, by decide, by decide⟩

example : NoUnary (.bin .Sub (.atom 0) (.bin .Sub (.atom 1) (.atom 2))) := ⟨trivial, trivial, trivial⟩

/-! ### literal decoding -/

/-- C06.3  For EVERY string (list of code points) the decoder of crates/jrsonnet-ir/src/unescape.rs —
    with the shift amounts, self-escapes and letter escapes extracted from the source — returns
    exactly what the Jsonnet escape definition prescribes: same accept/reject, same code points;
    `\uXXXX` by positional hex value, surrogate pairs combined by the UTF-16 formula, lone or
    mismatched surrogates rejected, `\xHH` = code point 0xHH, `\/` accepted. -/
theorem unescape_spec (s : List Nat) : JrsVerif.Unescape.unescape s = JrsVerif.Spec.decode s :=
  JrsVerif.Unescape.unescape_eq_decode s

/-- non-vacuity: `a\x41\uD83D\uDE00\/` decodes to `aA😀/`; a lone low surrogate is rejected -/
example : JrsVerif.Spec.decode [97, 92, 120, 52, 49, 92, 117, 68, 56, 51, 68, 92, 117, 68, 69, 48, 48, 92, 47]
    = some [97, 65, 0x1F600, 47] := by
  simp [JrsVerif.Spec.decode, JrsVerif.Spec.escape, JrsVerif.Spec.hexNum, JrsVerif.Unescape.hexVal,
    JrsVerif.Unescape.lookup, JrsVerif.Spec.simpleEscapes, JrsVerif.Unescape.push]
example : JrsVerif.Spec.decode [92, 117, 68, 67, 48, 48] = none := by
  simp [JrsVerif.Spec.decode, JrsVerif.Spec.escape, JrsVerif.Spec.hexNum, JrsVerif.Unescape.hexVal,
    JrsVerif.Unescape.lookup, JrsVerif.Spec.simpleEscapes, JrsVerif.Unescape.push]

/-! ### number literals -/
open JrsVerif.Lit JrsVerif.Spec in
/-- C06.5a  For EVERY well-formed number literal of the grammar (digit groups separated by single
    `_`, JSON's rule for the integer part, optional fraction, optional exponent with optional sign)
    followed by any text that does not continue it, the four number regexes of the lexer under
    "longest match wins" yield exactly one FLOAT lexeme covering the literal. -/
theorem number_lex_spec (n : NumLit) (hn : n.WF) (rest : List Nat) (hr : NumStop rest) :
    lexNum (n.render ++ rest) = some (.float, n.render.length) := lexNum_render n hn rest hr

open JrsVerif.Lit JrsVerif.Spec in
/-- C06.5b  `parse_number` (`replace('_', "")` + the grammar of `f64::from_str`) never reports
    "invalid number literal" on such a lexeme and yields exactly the value the grammar assigns:
    all integer and fraction digits as the mantissa, exponent minus the number of fraction digits. -/
theorem number_decode_spec (n : NumLit) (hn : n.WF) :
    irNumber n.render = some (.dec false n.mantissa n.exponent) := irNumber_render n hn

open JrsVerif.Lit JrsVerif.Spec in
/-- the IR parser on a text that is exactly one number literal -/
theorem number_whole_spec (n : NumLit) (hn : n.WF) :
    irWhole n.render = some (.dec false n.mantissa n.exponent) := irWhole_render n hn

open JrsVerif.Lit in
/-- C06.5c  For EVERY text: the PEG rule `number` (after the two repairs: `int_str`, junk look-aheads)
    matches exactly the prefix the lexer takes as a FLOAT lexeme and fails exactly where the lexer
    yields an ERROR_FLOAT_JUNK_* lexeme or no number — the two evaluator parsers accept the same
    number tokens (`01`, `1.a`, `1else`, `1__0`, `1_`, `1e+` included). -/
theorem number_peg_lexer_same (s : List Nat) : pegNumLen s = floatOnly (lexNum s) := peg_lexer_same s

open JrsVerif.Lit in
/-- … and decode them with the same function -/
theorem number_peg_value_same (s r : List Nat) (v : F64Lit) (h : pegNumber s = some (v, r)) :
    irNumber (s.take (s.length - r.length)) = some v := pegNumber_value s r v h

/-- non-vacuity: `1_000.000_1e-1_0` is a well-formed literal; its value is 10000001 · 10^(-14) and
    the IR parser reads it as exactly that -/
def numEx : JrsVerif.Spec.NumLit :=
  ⟨⟨[49], [[48, 48, 48]]⟩, some ⟨[48, 48, 48], [[49]]⟩, some (101, some 45, ⟨[49], [[48]]⟩)⟩
open JrsVerif.Lit JrsVerif.Spec in
example : numEx.WF ∧ numEx.render = "1_000.000_1e-1_0".toList.map Char.toNat ∧
    irWhole numEx.render = some (.dec false 10000001 (-14)) := by
  have hwf : numEx.WF := by
    refine ⟨?_, ?_, ?_, ?_⟩
    · simp [numEx, Groups.WF, allDigits, isDigit]
    · right; exact ⟨49, [], rfl, by decide⟩
    · intro f hf; simp [numEx] at hf; subst hf; simp [Groups.WF, allDigits, isDigit]
    · intro l s g h; simp [numEx] at h; obtain ⟨h1, h2, h3⟩ := h; subst h1; subst h2; subst h3
      simp [Groups.WF, allDigits, isDigit]
  refine ⟨hwf, by decide, ?_⟩
  have := number_whole_spec numEx hwf
  have hm : numEx.mantissa = 10000001 := by decide
  have he : numEx.exponent = -14 := by decide
  rw [hm, he] at this
  exact this

/-! ### verbatim strings -/
open JrsVerif.Lit JrsVerif.Spec in
/-- C06.6a  For EVERY content and either quote: the lexer takes `@q`, the content with every `q`
    doubled, `q` as one terminated verbatim lexeme (when no further `q` follows), and
    `parse_string_content` (`&text[2..len-1]`, `replace("qq", "q")`) returns exactly the content. -/
theorem verbatim_decode_spec (q : Nat) (c rest : List Nat) (hr : ∀ x, rest.head? = some x → x ≠ q) :
    irVerbatim q (verbRender q c ++ rest) = some (c, rest) := irVerbatim_render q c rest hr

open JrsVerif.Lit in
/-- C06.6b  For EVERY text the PEG alternative for verbatim strings and the lexer + decoder of the
    IR parser agree: same accept/reject (unterminated included), same content, same rest. -/
theorem verbatim_peg_ir_same (q : Nat) (s : List Nat) : pegVerbatim q s = irVerbatim q s :=
  peg_ir_verbatim_all q s

example : JrsVerif.Lit.irVerbatim 34 (JrsVerif.Spec.verbRender 34 [97, 34, 98] ++ [32, 43]) = some ([97, 34, 98], [32, 43]) :=
  verbatim_decode_spec 34 [97, 34, 98] [32, 43] (by intro x hx; simp at hx; subst hx; decide)

/-! ### trivia -/
open JrsVerif.Trivia in
/-- C06.4  The IR parser is a function of the stripped lexeme vector only (`Parser::new`). -/
theorem trivia_irrelevant {α : Type} (f : List Lexeme → α) (ls ls' : List Lexeme)
    (h : strip ls = strip ls') : irParse f ls = irParse f ls' := by
  unfold irParse; rw [h]

open JrsVerif.Trivia in
/-- inserting lexemes of the EXTRACTED trivia kinds anywhere does not change the stripped vector … -/
theorem strip_ext (a b : List Lexeme) (h : Ext a b) : strip b = strip a := by
  induction h with
  | nil => rfl
  | keep l _ ih => simp only [strip, List.filter_cons] at ih ⊢; split <;> simp [ih]
  | ins t ht _ ih => simp only [strip, List.filter_cons, ht] at ih ⊢; simpa using ih

open JrsVerif.Trivia in
/-- … hence not the parse, for any parser over the vector and in particular the Pratt loop -/
theorem trivia_insertion_irrelevant (T : Table) (tok : Lexeme → Tok) (a b : List Lexeme) (h : Ext a b) :
    parseLexemes T tok b = parseLexemes T tok a :=
  trivia_irrelevant _ b a (strip_ext a b h)

open JrsVerif.Trivia in
example : Ext [⟨"IDENT", "a"⟩, ⟨"PLUS", "+"⟩] [⟨"WHITESPACE", " "⟩, ⟨"IDENT", "a"⟩, ⟨"MULTI_LINE_COMMENT", "/**/"⟩, ⟨"PLUS", "+"⟩] :=
  .ins _ (by decide) (.keep _ (.ins _ (by decide) (.keep _ .nil)))

/-! ### the suffix loop -/
open JrsVerif.Suffix JrsVerif.Spec in
/-- C06.7  For EVERY operand and EVERY chain of suffixes, the accumulate-and-flush loop of
    `expr_suffix` (pending `.field`/`[expr]` parts, flushed before a slice, a call, an object
    extension and at the end) builds exactly the postfix-chain tree: each maximal run of index
    suffixes is one index node over everything to its left, and slice / call / extension apply to
    everything to their left — in particular `a.b[:2]` is `(a.b)[:2]`, never `(a[:2]).b`. -/
theorem suffix_flush_spec (e : Tree) (items : List Item) : exprSuffix e items = applyChain e items := by
  have := suffixLoop_eq items e []
  simpa [exprSuffix] using this

open JrsVerif.Suffix JrsVerif.Spec in
example : exprSuffix (.base "a") [.part "\"b\"", .slice "_ 2 _"] = .slice (.index (.base "a") ["\"b\""]) "_ 2 _" := by
  simp [exprSuffix, suffixLoop, flush]

end JrsVerif.C06
