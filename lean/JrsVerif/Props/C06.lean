/- C06: property theorems (not yet built). -/
