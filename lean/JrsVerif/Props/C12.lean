/- C12 — std.format and the % operator implement printf-style formatting.
   Property theorems only (helper lemmas live in Proofs/Format.lean).
   Model = `JrsVerif.Format` (format.rs as coded, after the `fix:` commits), reference =
   `JrsVerif.FormatSpec` (Python/Jsonnet %-formatting). -/
import JrsVerif.Proofs.Format
import JrsVerif.Proofs.FormatParse
import JrsVerif.Proofs.FormatFloat
import JrsVerif.Proofs.FormatRound

set_option linter.unusedSimpArgs false

namespace JrsVerif.Format
open JrsVerif.Generated

/-! ### tables re-extracted from format.rs agree with the reference tables -/

/-- the conversion characters of `parse_conversion_type` are exactly d i u o x X e E f F g G c s %
    with the reference meaning (a changed, dropped or added arm breaks this) -/
theorem conv_table_spec :
    FMT_CONV_TABLE.map (fun (c, n, k) => (c, convOfName n, k))
      = FormatSpec.convTable.map (fun (c, v, k) => (c, some v, k)) := by decide

/-- the flag characters are `# 0 - space +` in the reference meaning, the length modifiers `h l L`,
    the digit alphabet, default precisions 6/0, `%g` switches to exponent form below 1e-4, and the
    exponent has at least two digits -/
theorem flag_table_spec :
    FMT_FLAG_TABLE = [('#', 0), ('0', 1), ('-', 2), (' ', 3), ('+', 4)] ∧ FMT_LENMOD = ['h', 'l', 'L']
      ∧ FMT_NUMBERS.toList.take 16 = "0123456789abcdef".toList
      ∧ FMT_DEFAULT_FPPREC = 6 ∧ FMT_DEFAULT_IPREC = 0 ∧ FMT_G_LOW_EXP = 4 ∧ FMT_EXP_PADDING = 3 := by
  decide

/-! ### integer conversions -/

/-- C12 `int_conv_spec`: for every flag subset, width, precision (given, absent, or taken from `*`),
    conversion d/i/u/o/x/X and every finite double (integer part below 2^1024 — no `i64` bound any
    more: `integer_digits` expands the number exactly), `format_code` never panics and produces
    exactly the reference text (sign, `#` prefix, precision zeros, `0`/`-`/space filling to `width`
    characters). -/
theorem int_conv_spec (n : Num) (d : List Char) (c : Code) (w : Nat) (p : Option Nat)
    (hc : c.conv = .dec ∨ c.conv = .oct ∨ c.conv = .hex) (hn : n.whole < DBL_BOUND) :
    formatCode (.num n d) c w p =
      .ok (FormatSpec.intConv c.flags w p c.conv c.caps (FormatSpec.truncInt n)) :=
  formatCode_int n d c w p hc hn

/-- non-vacuity: `"%+08.3x" % -255.5` -/
example :
    formatCode (.num { neg := true, whole := 255, fracNZ := true } [])
      { mkey := [], flags := { zero := true, sign := true }, width := .fixed 8, prec := some (.fixed 3),
        conv := .hex, caps := false } 8 (some 3) = .ok "-00000ff".toList := by
  rw [int_conv_spec _ _ _ _ _ (Or.inr (Or.inr rfl)) (by unfold DBL_BOUND; exact Nat.lt_of_lt_of_le (by decide : 255 < 2 ^ 8) (Nat.pow_le_pow_right (by decide) (by decide)))]
  exact congrArg Except.ok (by decide)

/-- the full statement: every finite double, no bound at the `i64` range -/
def IntConvStmt : Prop :=
  ∀ (n : Num) (d : List Char) (c : Code) (w : Nat) (p : Option Nat),
    (c.conv = .dec ∨ c.conv = .oct ∨ c.conv = .hex) → n.whole < 2 ^ 1024 →
    formatCode (.num n d) c w p =
      .ok (FormatSpec.intConv c.flags w p c.conv c.caps (FormatSpec.truncInt n))

/-- formerly the finding `c12_render_integer_saturates_at_i64` (kept as a counterexample while
    `render_integer` did `iv.floor() as i64`); repaired, the full statement is a theorem -/
theorem int_conv_full : IntConvStmt :=
  fun n d c w p hc hn => formatCode_int n d c w p hc hn

/-- the former witness: `"%d" % 9223372036854775808` prints all its digits -/
example :
    formatCode (.num { neg := false, whole := 9223372036854775808 } [])
      { mkey := [], flags := {}, width := .fixed 0, prec := none, conv := .dec, caps := false } 0 none
      = .ok "9223372036854775808".toList := by
  rw [int_conv_full _ _ _ _ _ (Or.inl rfl)
    (Nat.lt_of_lt_of_le (by decide : 9223372036854775808 < 2 ^ 64) (Nat.pow_le_pow_right (by decide) (by decide)))]
  exact congrArg Except.ok (by decide)

/-- the statement that was provable before the repair (`|v| < 2^63`) -/
theorem int_conv_partial (n : Num) (d : List Char) (c : Code) (w : Nat) (p : Option Nat)
    (hc : c.conv = .dec ∨ c.conv = .oct ∨ c.conv = .hex) (hn : ¬ n.whole ≥ 2 ^ 63) :
    formatCode (.num n d) c w p =
      .ok (FormatSpec.intConv c.flags w p c.conv c.caps (FormatSpec.truncInt n)) :=
  formatCode_int n d c w p hc
    (Nat.lt_of_lt_of_le (by omega : n.whole < 2 ^ 63) (Nat.pow_le_pow_right (by decide) (by decide)))

/-! ### padding of text conversions -/

/-- C12 `pad_spec`: `%s` pads the value's text to `width` *characters* (code points), on the right
    for `-`, else on the left; never truncates; the `0` flag and the precision do not apply. -/
theorem pad_spec (v : Val) (c : Code) (w : Nat) (p : Option Nat) (hc : c.conv = .str) :
    formatCode v c w p = .ok (FormatSpec.padText c.flags w v.disp) := by
  unfold formatCode formatBody FormatSpec.padText FormatSpec.spaces
  simp only [hc, bind, Except.bind, pure, Except.pure, reduceCtorEq, decide_false, Bool.or_self,
    Bool.and_false, Bool.false_eq_true, if_false]

/-- the width is measured in characters: "é" is one character -/
example :
    formatCode (.str [Char.ofNat 233])
      ({ mkey := [], flags := {}, width := .fixed 5, prec := none, conv := .str, caps := false } : Code)
      5 none = .ok [' ', ' ', ' ', ' ', Char.ofNat 233] := by
  rw [pad_spec _ _ _ _ rfl]; exact congrArg Except.ok (by decide)

/-- `%%` renders a percent sign (padded like text), whatever value it is handed -/
theorem percent_text (v : Val) (c : Code) (w : Nat) (p : Option Nat) (hc : c.conv = .pct) :
    formatCode v c w p = .ok (FormatSpec.padText c.flags w ['%']) := by
  unfold formatCode formatBody FormatSpec.padText FormatSpec.spaces
  simp only [hc, bind, Except.bind, pure, Except.pure, reduceCtorEq, decide_false, Bool.or_self,
    Bool.and_false, Bool.false_eq_true, if_false]

/-! ### `%c` -/

/-- the full statement for `%c` -/
def CharConvStmt : Prop :=
  ∀ (v : Val) (c : Code) (w : Nat) (p : Option Nat), c.conv = .chr →
    formatCode v c w p = FormatSpec.conv c w p v

/-- C12 `c_conv_spec`: `%c` is the reference for every value: the character with that code point
    (fractions truncated), a one-character string as is, padded to `width` characters; negative
    numbers, surrogates, code points above 0x10FFFF are invalid-code-point errors, longer strings
    and other types are type errors.  (Formerly the finding `c12_char_of_negative_number_is_nul`:
    `"%c" % -3` was "\u0000"; repaired.) -/
theorem char_conv_spec : CharConvStmt := by
  intro v c w p hc
  unfold formatCode formatBody FormatSpec.conv FormatSpec.padText FormatSpec.spaces
  simp only [hc, reduceCtorEq, decide_false, Bool.or_self, Bool.and_false, Bool.false_eq_true, if_false]
  cases v with
  | num n d =>
    simp only []
    by_cases hv : (n.neg && decide (n.whole ≥ 1)) = true
    · have htr : (FormatSpec.truncInt n < 0) := by
        have := truncInt_neg n; rw [hv] at this; simpa using this
      simp only [hv, htr, if_true]
      rfl
    · simp only [Bool.not_eq_true] at hv
      have htr : (FormatSpec.truncInt n < 0) = False := by
        have := truncInt_neg n; rw [hv] at this; simpa using this
      simp only [hv, htr, if_false, Bool.false_eq_true]
      by_cases hneg : n.neg = true
      · have hw : n.whole = 0 := by
          simp only [hneg, Bool.true_and, decide_eq_false_iff_not] at hv; omega
        simp only [hneg, if_true, hw]
        rfl
      · simp only [hneg, Bool.false_eq_true, if_false]
        by_cases hbig : n.whole ≤ 4294967295
        · rw [Nat.min_eq_left hbig]
          have hvs : validScalar n.whole = FormatSpec.isScalar n.whole := rfl
          rw [hvs]; cases FormatSpec.isScalar n.whole <;> rfl
        · have h1 : min n.whole 4294967295 = 4294967295 := Nat.min_eq_right (by omega)
          have h2 : FormatSpec.isScalar n.whole = false := by
            unfold FormatSpec.isScalar
            simp only [Bool.or_eq_false_iff, decide_eq_false_iff_not, Bool.and_eq_false_imp, decide_eq_true_eq]
            omega
          rw [h1, h2]; rfl
  | str s => by_cases h : s.length = 1 <;> simp [h, bind, Except.bind, pure, Except.pure]
  | obj fs d => rfl
  | other d => rfl

/-- the former witness: `"%c" % -3` is an invalid-code-point error -/
example :
    formatCode (.num { neg := true, whole := 3 } [])
      { mkey := [], flags := {}, width := .fixed 0, prec := none, conv := .chr, caps := false } 0 none
      = .error .codepoint := by
  rw [char_conv_spec _ _ _ _ rfl]; rfl

def negativeNumber : Val → Bool
  | .num n _ => n.neg && decide (n.whole ≥ 1)
  | _ => false

/-- the statement that was provable before the repair (value not a number ≤ -1) -/
theorem char_conv_partial (v : Val) (c : Code) (w : Nat) (p : Option Nat) (hc : c.conv = .chr)
    (hv : negativeNumber v = false) : formatCode v c w p = FormatSpec.conv c w p v :=
  char_conv_spec v c w p hc

/-! ### float conversions -/

/-- C12 `float_conv_spec`: for every flag subset, width, precision and conversion e/E/f/F/g/G,
    everything `format_code` does AFTER digit generation — sign, `#` (forced point, kept zeros),
    zero padding computed inside `render_float` (e/f) or applied afterwards (`%g`), width, trailing
    zero stripping of `%g`, the two-digit signed exponent, the choice between fixed and exponent
    form with the extracted threshold 1e-4 — equals the reference text, for ALL digit data the
    pipeline can hand over (`OracleOK`: the parts are doubles, the fraction is a remainder modulo
    10^precision).  It never panics; a precision above 308 is `tooLarge`; a missing oracle entry is
    reported as such on both sides. -/
theorem float_conv_spec (n : Num) (disp : List Char) (c : Code) (w : Nat) (p : Option Nat)
    (hc : c.conv = .sci ∨ c.conv = .flt ∨ c.conv = .shorter) (ho : OracleOK n) :
    formatCode (.num n disp) c w p = FormatSpec.conv c w p (.num n disp) :=
  formatCode_float n disp c w p hc ho

/-- non-vacuity: `"%+09.2f" % -3.14159` with the digit data (3, 14) -/
example :
    formatCode (.num { neg := true, whole := 3, fracNZ := true, fix := [(2, { whole := 3, frac := 14 })] } [])
      { mkey := [], flags := { zero := true, sign := true }, width := .fixed 9, prec := some (.fixed 2),
        conv := .flt, caps := false } 9 (some 2) = .ok "-00003.14".toList := by
  rw [float_conv_spec _ _ _ _ _ (Or.inr (Or.inl rfl))]
  · exact congrArg Except.ok (by decide)
  · refine ⟨?_, ?_, ?_⟩
    · intro q d h
      have hq : q = 2 ∧ d = { whole := 3, frac := 14 } := by
        simp only [List.lookup] at h
        split at h
        · rename_i hb; simp at h; exact ⟨by simpa using hb, h.symm⟩
        · cases h
      obtain ⟨rfl, rfl⟩ := hq
      refine ⟨?_, ?_, by decide⟩ <;>
        exact Nat.lt_of_lt_of_le (by decide : _ < 2 ^ 8) (Nat.pow_le_pow_right (by decide) (by decide))
    · intro q d h; cases h
    · exact Nat.lt_of_lt_of_le (by decide : _ < 2 ^ 8) (Nat.pow_le_pow_right (by decide) (by decide))

/-- formerly the finding `c12_float_precision_65535_overflows_u16` (`"%.*f" % [65535, 3]`
    panicked in `dot_size + precision`): a float conversion with a precision above 308 is the
    error "field width or precision is too large" for every value, flag set and width -/
theorem float_precision_limit (v : Val) (c : Code) (w q : Nat)
    (hc : c.conv = .sci ∨ c.conv = .flt ∨ c.conv = .shorter) (hq : q > 308) :
    formatCode v c w (some q) = .error .tooLarge ∧ FormatSpec.conv c w (some q) v = .error .tooLarge := by
  have hq' : (decide (q > 308)) = true := by simpa using hq
  constructor
  · unfold formatCode formatBody
    delta FMT_MAX_FPPREC
    rcases hc with h | h | h <;> simp [h, hq', bind, Except.bind]
  · unfold FormatSpec.conv
    delta FormatSpec.maxFloatPrec
    rcases hc with h | h | h <;>
      simp [h, hq, bind, Except.bind, throw, throwThe, MonadExceptOf.throw]

/-! ### value consumption -/

/-- number of values the elements consume: one per `*`, one per conversion except `%%` -/
def totalNeed : List Elem → Nat
  | [] => 0
  | .lit _ :: es => totalNeed es
  | .code c :: es => FormatSpec.need c + totalNeed es

/-- C12 `consumes_left_to_right`: the first code reads exactly the first `need c` values (its `*`
    width, then its `*` precision, then its value), its text depends on those values only, and the
    remaining codes are formatted from the remaining values. -/
theorem consumes_left_to_right (c : Code) (es : List Elem) (vals : List Val) (out : List Char)
    (h : formatElemsArr (.code c :: es) vals = .ok out) :
    ∃ s r, out = s ++ r ∧ stepArr c (vals.take (FormatSpec.need c)) = .ok (s, []) ∧
      formatElemsArr es (vals.drop (FormatSpec.need c)) = .ok r := by
  simp only [formatElemsArr, bind, Except.bind] at h
  cases hs : stepArr c vals with
  | error e => simp [hs] at h
  | ok x =>
    obtain ⟨s, rest⟩ := x
    simp only [hs] at h
    cases hr : formatElemsArr es rest with
    | error e => simp [hr] at h
    | ok r =>
      simp only [hr, pure, Except.pure, Except.ok.injEq] at h
      obtain ⟨u, e1, l1, f1⟩ := stepArr_frames c vals s rest hs
      refine ⟨s, r, h.symm, ?_, ?_⟩
      · have := f1 []
        rw [e1, ← l1]; simpa using this
      · rw [e1, ← l1]; simpa using hr

/-- a literal element is copied and consumes nothing -/
theorem literal_elem_copied (s : List Char) (es : List Elem) (vals : List Val) :
    formatElemsArr (.lit s :: es) vals = (formatElemsArr es vals).map (s ++ ·) := by
  simp only [formatElemsArr, bind, Except.bind, pure, Except.pure, Except.map]

/-- success means the number of values is exactly the number the codes consume -/
theorem value_count_exact (es : List Elem) (vals : List Val) (out : List Char)
    (h : formatElemsArr es vals = .ok out) : vals.length = totalNeed es := by
  induction es generalizing vals out with
  | nil => cases vals <;> simp [formatElemsArr, totalNeed] at h ⊢
  | cons e es ih =>
    cases e with
    | lit s =>
      rw [literal_elem_copied] at h
      cases hr : formatElemsArr es vals with
      | error e => simp [hr, Except.map] at h
      | ok r => simpa [totalNeed] using ih vals r hr
    | code c =>
      obtain ⟨s, r, _, _, h3⟩ := consumes_left_to_right c es vals out h
      have := ih _ r h3
      simp only [formatElemsArr, bind, Except.bind] at h
      cases hs : stepArr c vals with
      | error e => simp [hs] at h
      | ok x =>
        obtain ⟨u, e1, l1, _⟩ := stepArr_frames c vals x.1 x.2 hs
        simp only [List.length_drop] at this
        simp only [totalNeed]
        have hl : vals.length = u.length + x.2.length := by rw [e1]; simp
        omega

/-- C12 `too_few_is_error` -/
theorem too_few_is_error (es : List Elem) (vals : List Val) (h : vals.length < totalNeed es) :
    ∃ e, formatElemsArr es vals = .error e := by
  cases hr : formatElemsArr es vals with
  | error e => exact ⟨e, rfl⟩
  | ok out => have := value_count_exact es vals out hr; omega

/-- C12 `too_many_is_error` -/
theorem too_many_is_error (es : List Elem) (vals : List Val) (h : totalNeed es < vals.length) :
    ∃ e, formatElemsArr es vals = .error e := by
  cases hr : formatElemsArr es vals with
  | error e => exact ⟨e, rfl⟩
  | ok out => have := value_count_exact es vals out hr; omega

/-- non-vacuity: "%*d" needs two values -/
example : totalNeed [.code { mkey := [], flags := {}, width := .star, prec := none, conv := .dec, caps := false }] = 2 := by
  decide

/-- C12 `percent_no_consume`: `%%` (also with flags and a width) takes no value and yields `%` -/
theorem percent_no_consume (c : Code) (w : Nat) (vals : List Val) (hc : c.conv = .pct)
    (hw : c.width = .fixed w) (hp : c.prec ≠ some .star) :
    stepArr c vals = .ok (FormatSpec.padText c.flags w ['%'], vals) := by
  unfold stepArr
  rw [hw]
  simp only [takeWidth]
  have : ∃ p', takePrec c.prec vals = .ok (p', vals) := by
    match hcp : c.prec with
    | none => exact ⟨none, rfl⟩
    | some (.fixed n) => exact ⟨some n, rfl⟩
    | some .star => exact absurd hcp hp
  obtain ⟨p', h1⟩ := this
  simp only [h1, hc, decide_true, takeValue, if_true, percent_text _ c w p' hc]

/-! ### literal text -/

/-- C12 `literal_copied`: a format string without `%` is copied unchanged (and accepts no values) -/
theorem literal_copied (s : List Char) (h : '%' ∉ s) :
    formatArr s [] = .ok s ∧ ∀ v vs, formatArr s (v :: vs) = .error .tooMany := by
  have hp : parseCodes s = .ok (if s.isEmpty then [] else [Elem.lit s]) := by
    simp [parseCodes, parseCodesF, spanLit_no_percent s h]
  constructor
  · simp only [formatArr, hp, bind, Except.bind]
    cases s <;> simp [formatElemsArr, bind, Except.bind, pure, Except.pure]
  · intro v vs
    simp only [formatArr, hp, bind, Except.bind]
    cases s <;> simp [formatElemsArr, bind, Except.bind, pure, Except.pure]

/-! ### object mode -/

/-- C12 `obj_mode_spec`: with an object argument every specifier is resolved by its `%(key)`:
    `*` is rejected, a specifier other than `%%` without a key is rejected, the key names a field
    (or a dotted path through nested objects), a missing field is an error, `%%` looks nothing up;
    the result is the concatenation of literal text and converted fields in order. -/
theorem obj_mode_spec (fields : List (List Char × Val)) (disp : List Char) (es : List Elem) :
    formatElemsObj fields disp es
      = FormatSpec.elemsObjWith (fun c w p v => formatCode v c w p) fields disp es := by
  induction es with
  | nil => rfl
  | cons e es ih =>
    cases e with
    | lit s =>
      simp only [formatElemsObj, FormatSpec.elemsObjWith, FormatSpec.elemTextWith, bind, Except.bind, ih,
        pure, Except.pure]
      cases FormatSpec.elemsObjWith (fun c w p v => formatCode v c w p) fields disp es <;> rfl
    | code c =>
      have hstep : stepObj fields disp c
          = FormatSpec.convObjWith (fun c w p v => formatCode v c w p) fields disp c := by
        unfold stepObj FormatSpec.convObjWith FormatSpec.lookupKey
        cases hw : c.width with
        | star => rfl
        | fixed w =>
          match hp : c.prec with
          | some .star => rfl
          | none =>
            simp only [bind, Except.bind, pure, Except.pure]
            by_cases h1 : c.conv = .pct
            · simp [h1]
            · by_cases h2 : c.mkey = []
              · simp [h1, h2]
              · simp only [h1, h2, if_false, List.isEmpty_iff]
                cases fields.lookup c.mkey with
                | some v => rfl
                | none => simp only [dotted_eq_walk, splitDots_eq_path]; cases FormatSpec.walk _ _ <;> rfl
          | some (.fixed n) =>
            simp only [bind, Except.bind, pure, Except.pure]
            by_cases h1 : c.conv = .pct
            · simp [h1]
            · by_cases h2 : c.mkey = []
              · simp [h1, h2]
              · simp only [h1, h2, if_false, List.isEmpty_iff]
                cases fields.lookup c.mkey with
                | some v => rfl
                | none => simp only [dotted_eq_walk, splitDots_eq_path]; cases FormatSpec.walk _ _ <;> rfl
      simp only [formatElemsObj, FormatSpec.elemsObjWith, FormatSpec.elemTextWith, bind, Except.bind, ih,
        pure, Except.pure, hstep]
      cases FormatSpec.convObjWith (fun c w p v => formatCode v c w p) fields disp c with
      | error e => rfl
      | ok s => cases FormatSpec.elemsObjWith (fun c w p v => formatCode v c w p) fields disp es <;> rfl

/-- non-vacuity: `"%(a.b)s" % {a: {b: "x"}}` reaches the nested field -/
example :
    (FormatSpec.lookupKey [("a".toList, .obj [("b".toList, .str ['x'])] [])] [] "a.b".toList).toOption.map Val.disp
      = some ['x'] := by decide

/-! ### parser -/

/-- the conversion character decides: a known one (`d i u o x X e E f F g G c s %`, reference table)
    ends the code with that conversion, any other character is `unknownConv`, end of text is
    `truncated` -/
theorem conversion_char_spec (s : List Char) :
    parseConv s = match s with
      | [] => .error .truncated
      | c :: r => match FormatSpec.convTable.lookup c with
        | some v => .ok (v, r)
        | none => .error .unknownConv :=
  parseConv_spec s

/-- C12 `parse_spec`: the model of `parse_codes` (loops with explicit end-of-input tests, checked
    `u16` accumulation, table lookups) computes, for EVERY format string, exactly what the
    reference grammar computes — the same elements on success and the same error (truncated code,
    unrecognised conversion, width/precision above 65535) otherwise. -/
theorem parse_spec (s : List Char) : parseCodes s = FormatSpec.parseFmt s :=
  parseCodesF_eq _ s

/-- one conversion specifier: `parse_code` = the reference's specifier grammar on every text -/
theorem parse_code_spec (s : List Char) : parseCode s = FormatSpec.parseSpec s :=
  parseCode_eq s

/-- C12 `parse_roundtrip`: rendering a list of elements (literal runs without `%`, never empty,
    never adjacent; codes whose key has no `)`, whose numbers fit `u16` and whose `caps` bit goes
    with a conversion that has an upper-case letter) as a format string and parsing that string
    with the model of `parse_codes` gives exactly the elements back: every field of every code —
    mapping key, each flag, width, precision, `*`, conversion, caps — survives. -/
theorem parse_roundtrip (es : List Elem) (h : ElemsWF es) : parseCodes (render es) = .ok es :=
  parseCodes_render es h

/-- one specifier, whatever text follows it -/
theorem parse_code_roundtrip (c : Code) (h : CodeWF c) (rest : List Char) :
    parseCode (renderCode c ++ rest) = .ok (c, rest) := by
  rw [parseCode_eq]; exact parseSpec_render c h rest

/-- non-vacuity: `a=%(k)#05.3X|` is the rendering of a well-formed element list -/
example :
    let c : Code := { mkey := ['k'], flags := { alt := true, zero := true }, width := .fixed 5,
                      prec := some (.fixed 3), conv := .hex, caps := true }
    render [.lit "a=".toList, .code c, .lit ['|']] = "a=%(k)#05.3X|".toList ∧
      ElemsWF [.lit "a=".toList, .code c, .lit ['|']] := by
  refine ⟨by decide, ⟨by decide, by decide, trivial, ⟨⟨by decide, ?_, ?_, fun _ => Or.inl rfl⟩,
    ⟨by decide, by decide, trivial, trivial⟩⟩⟩⟩
  · intro n h; injection h with h; omega
  · intro n h; injection h with h; injection h with h; omega

/-- C12 (errors rather than crashes): parsing any format string either succeeds or reports one of
    the three format errors — truncated code, unrecognised conversion, width/precision above
    65535; in particular the `u16` width arithmetic never panics. -/
theorem parse_errors_only (s : List Char) (e : Err) (h : parseCodes s = .error e) :
    e = .truncated ∨ e = .unknownConv ∨ e = .tooLarge :=
  parseCodesF_err _ s e h

/-- a `%` at the very end, and a code cut off after its flags/width/precision, are `truncated` -/
example : parseCodes "100%".toList = .error .truncated ∧ parseCodes "%-05.3".toList = .error .truncated
    ∧ parseCodes "%(key".toList = .error .truncated ∧ parseCodes "%5q".toList = .error .unknownConv
    ∧ parseCodes "%99999d".toList = .error .tooLarge := ⟨rfl, rfl, rfl, rfl, rfl⟩

end JrsVerif.Format
