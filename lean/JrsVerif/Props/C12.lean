/- C12 — std.format and the % operator implement printf-style formatting.
   Property theorems only (helper lemmas live in Proofs/Format.lean).
   Model = `JrsVerif.Format` (format.rs as coded, after the `fix:` commits), reference =
   `JrsVerif.FormatSpec` (Python/Jsonnet %-formatting). -/
import JrsVerif.Proofs.Format
import JrsVerif.Proofs.FormatParse
import JrsVerif.Proofs.FormatFloat
import JrsVerif.Proofs.FormatRound
import JrsVerif.Proofs.FormatExact

set_option linter.unusedSimpArgs false
set_option exponentiation.threshold 4000

namespace JrsVerif.Format
open JrsVerif.Generated

/-! ### tables re-extracted from format.rs agree with the reference tables -/

/-- the conversion characters of `parse_conversion_type` are exactly d i u o x X e E f F g G c s %
    with the reference meaning (a changed, dropped or added arm breaks this) -/
theorem conv_table_spec :
    FMT_CONV_TABLE.map (fun (c, n, k) => (c, convOfName n, k))
      = FormatSpec.convTable.map (fun (c, v, k) => (c, some v, k)) := by decide

/-- the flag characters are `# 0 - space +` in the reference meaning, the length modifiers `h l L`,
    the digit alphabet, default precisions 6/0, `%g` switches to exponent form below 1e-4, and the
    exponent has at least two digits -/
theorem flag_table_spec :
    FMT_FLAG_TABLE = [('#', 0), ('0', 1), ('-', 2), (' ', 3), ('+', 4)] ∧ FMT_LENMOD = ['h', 'l', 'L']
      ∧ FMT_NUMBERS.toList.take 16 = "0123456789abcdef".toList
      ∧ FMT_DEFAULT_FPPREC = 6 ∧ FMT_DEFAULT_IPREC = 0 ∧ FMT_G_LOW_EXP = 4 ∧ FMT_EXP_PADDING = 3 := by
  decide

/-- digit generation of e/E/f/F/g/G is delegated to exactly these two calls into Rust's float
    formatting (`float_digits`, `float_sci_digits`; the extractor rejects any other body) — the
    calls whose answers are the parameters `Num.rfix` / `Num.rsci` of the model and which the
    harness replays -/
theorem rust_float_calls_spec : FMT_RUST_FIXED = "{:.*}" ∧ FMT_RUST_SCI = "{:.*e}" := by decide

/-! ### integer conversions -/

/-- C12 `int_conv_spec`: for every flag subset, width, precision (given, absent, or taken from `*`),
    conversion d/i/u/o/x/X and every finite double (integer part below 2^1024 — no `i64` bound any
    more: `integer_digits` expands the number exactly), `format_code` never panics and produces
    exactly the reference text (sign, `#` prefix, precision zeros, `0`/`-`/space filling to `width`
    characters). -/
theorem int_conv_spec (n : Num) (d : List Char) (c : Code) (w : Nat) (p : Option Nat)
    (hc : c.conv = .dec ∨ c.conv = .oct ∨ c.conv = .hex) (hn : n.whole < DBL_BOUND) :
    formatCode (.num n d) c w p =
      .ok (FormatSpec.intConv c.flags w p c.conv c.caps (FormatSpec.truncInt n)) :=
  formatCode_int n d c w p hc hn

/-- non-vacuity: `"%+08.3x" % -255.5` -/
example :
    formatCode (.num { neg := true, mag := 511 * 2 ^ 1073 } [])
      { mkey := [], flags := { zero := true, sign := true }, width := .fixed 8, prec := some (.fixed 3),
        conv := .hex, caps := false } 8 (some 3) = .ok "-00000ff".toList := by
  rw [int_conv_spec _ _ _ _ _ (Or.inr (Or.inr rfl)) (by decide +kernel)]
  exact congrArg Except.ok (by decide +kernel)

/-- the full statement: every finite double, no bound at the `i64` range -/
def IntConvStmt : Prop :=
  ∀ (n : Num) (d : List Char) (c : Code) (w : Nat) (p : Option Nat),
    (c.conv = .dec ∨ c.conv = .oct ∨ c.conv = .hex) → n.whole < 2 ^ 1024 →
    formatCode (.num n d) c w p =
      .ok (FormatSpec.intConv c.flags w p c.conv c.caps (FormatSpec.truncInt n))

/-- formerly the finding `c12_render_integer_saturates_at_i64` (kept as a counterexample while
    `render_integer` did `iv.floor() as i64`); repaired, the full statement is a theorem -/
theorem int_conv_full : IntConvStmt :=
  fun n d c w p hc hn => formatCode_int n d c w p hc hn

/-- the former witness: `"%d" % 9223372036854775808` prints all its digits -/
example :
    formatCode (.num { neg := false, mag := 2 ^ 63 * 2 ^ 1074 } [])
      { mkey := [], flags := {}, width := .fixed 0, prec := none, conv := .dec, caps := false } 0 none
      = .ok "9223372036854775808".toList := by
  rw [int_conv_full _ _ _ _ _ (Or.inl rfl) (by decide +kernel)]
  exact congrArg Except.ok (by decide +kernel)

/-- the statement that was provable before the repair (`|v| < 2^63`) -/
theorem int_conv_partial (n : Num) (d : List Char) (c : Code) (w : Nat) (p : Option Nat)
    (hc : c.conv = .dec ∨ c.conv = .oct ∨ c.conv = .hex) (hn : ¬ n.whole ≥ 2 ^ 63) :
    formatCode (.num n d) c w p =
      .ok (FormatSpec.intConv c.flags w p c.conv c.caps (FormatSpec.truncInt n)) :=
  formatCode_int n d c w p hc
    (Nat.lt_of_lt_of_le (by omega : n.whole < 2 ^ 63) (Nat.pow_le_pow_right (by decide) (by decide)))

/-! ### padding of text conversions -/

/-- C12 `pad_spec`: `%s` pads the value's text to `width` *characters* (code points), on the right
    for `-`, else on the left; never truncates; the `0` flag and the precision do not apply. -/
theorem pad_spec (v : Val) (c : Code) (w : Nat) (p : Option Nat) (hc : c.conv = .str) :
    formatCode v c w p = .ok (FormatSpec.padText c.flags w v.disp) := by
  unfold formatCode formatBody FormatSpec.padText FormatSpec.spaces
  simp only [hc, bind, Except.bind, pure, Except.pure, reduceCtorEq, decide_false, Bool.or_self,
    Bool.and_false, Bool.false_eq_true, if_false]

/-- the width is measured in characters: "é" is one character -/
example :
    formatCode (.str [Char.ofNat 233])
      ({ mkey := [], flags := {}, width := .fixed 5, prec := none, conv := .str, caps := false } : Code)
      5 none = .ok [' ', ' ', ' ', ' ', Char.ofNat 233] := by
  rw [pad_spec _ _ _ _ rfl]; exact congrArg Except.ok (by decide)

/-- `%%` renders a percent sign (padded like text), whatever value it is handed -/
theorem percent_text (v : Val) (c : Code) (w : Nat) (p : Option Nat) (hc : c.conv = .pct) :
    formatCode v c w p = .ok (FormatSpec.padText c.flags w ['%']) := by
  unfold formatCode formatBody FormatSpec.padText FormatSpec.spaces
  simp only [hc, bind, Except.bind, pure, Except.pure, reduceCtorEq, decide_false, Bool.or_self,
    Bool.and_false, Bool.false_eq_true, if_false]

/-! ### `%c` -/

/-- the full statement for `%c` -/
def CharConvStmt : Prop :=
  ∀ (v : Val) (c : Code) (w : Nat) (p : Option Nat), c.conv = .chr →
    formatCode v c w p = FormatSpec.conv c w p v

/-- C12 `c_conv_spec`: `%c` is the reference for every value: the character with that code point
    (fractions truncated), a one-character string as is, padded to `width` characters; negative
    numbers, surrogates, code points above 0x10FFFF are invalid-code-point errors, longer strings
    and other types are type errors.  (Formerly the finding `c12_char_of_negative_number_is_nul`:
    `"%c" % -3` was "\u0000"; repaired.) -/
theorem char_conv_spec : CharConvStmt := by
  intro v c w p hc
  unfold formatCode formatBody FormatSpec.conv FormatSpec.padText FormatSpec.spaces
  simp only [hc, reduceCtorEq, decide_false, Bool.or_self, Bool.and_false, Bool.false_eq_true, if_false]
  cases v with
  | num n d =>
    simp only []
    by_cases hv : (n.neg && decide (n.whole ≥ 1)) = true
    · have htr : (FormatSpec.truncInt n < 0) := by
        have := truncInt_neg n; rw [hv] at this; simpa using this
      simp only [hv, htr, if_true]
      rfl
    · simp only [Bool.not_eq_true] at hv
      have htr : (FormatSpec.truncInt n < 0) = False := by
        have := truncInt_neg n; rw [hv] at this; simpa using this
      simp only [hv, htr, if_false, Bool.false_eq_true]
      by_cases hneg : n.neg = true
      · have hw : n.whole = 0 := by
          simp only [hneg, Bool.true_and, decide_eq_false_iff_not] at hv; omega
        simp only [hneg, if_true, hw]
        rfl
      · simp only [hneg, Bool.false_eq_true, if_false]
        by_cases hbig : n.whole ≤ 4294967295
        · rw [Nat.min_eq_left hbig]
          have hvs : validScalar n.whole = FormatSpec.isScalar n.whole := rfl
          rw [hvs]; cases FormatSpec.isScalar n.whole <;> rfl
        · have h1 : min n.whole 4294967295 = 4294967295 := Nat.min_eq_right (by omega)
          have h2 : FormatSpec.isScalar n.whole = false := by
            unfold FormatSpec.isScalar
            simp only [Bool.or_eq_false_iff, decide_eq_false_iff_not, Bool.and_eq_false_imp, decide_eq_true_eq]
            omega
          rw [h1, h2]; rfl
  | str s => by_cases h : s.length = 1 <;> simp [h, bind, Except.bind, pure, Except.pure]
  | obj fs d => rfl
  | other d => rfl

/-- the former witness: `"%c" % -3` is an invalid-code-point error -/
example :
    formatCode (.num { neg := true, mag := 3 * 2 ^ 1074 } [])
      { mkey := [], flags := {}, width := .fixed 0, prec := none, conv := .chr, caps := false } 0 none
      = .error .codepoint := by
  rw [char_conv_spec _ _ _ _ rfl]; rfl

def negativeNumber : Val → Bool
  | .num n _ => n.neg && decide (n.whole ≥ 1)
  | _ => false

/-- the statement that was provable before the repair (value not a number ≤ -1) -/
theorem char_conv_partial (v : Val) (c : Code) (w : Nat) (p : Option Nat) (hc : c.conv = .chr)
    (hv : negativeNumber v = false) : formatCode v c w p = FormatSpec.conv c w p v :=
  char_conv_spec v c w p hc

/-! ### float conversions -/

/-- the full statement for e/E/f/F/g/G: the text is the reference text built from the EXACT
    decimal expansion of the double — `FormatSpec.fixDigits` / `sciDigits`, round half even on the
    exact value, in integer arithmetic on |v| · 2^1074 — for every finite double, flag subset,
    width and precision -/
def FloatConvStmt : Prop :=
  ∀ (n : Num) (disp : List Char) (c : Code) (w : Nat) (p : Option Nat),
    (c.conv = .sci ∨ c.conv = .flt ∨ c.conv = .shorter) → n.mag < 2 ^ 2098 → RustFmtExact n →
    formatCode (.num n disp) c w p = FormatSpec.conv c w p (.num n disp)

/-- C12 `float_conv_spec`: for every flag subset, width, precision, conversion e/E/f/F/g/G and
    EVERY finite double, `format_code` never panics and produces exactly the reference text:
    the exact decimal expansion of the double correctly rounded (half even) to the precision,
    exponent of the rounded value (two digits at least, signed), `%g` form chosen by that exponent
    with the extracted threshold, sign, `#` (forced point, kept zeros), zero padding computed
    inside `render_float_digits` (e/f) or applied afterwards (`%g`), trailing-zero stripping,
    width; a precision above 308 is `tooLarge`.  ASSUMPTION (`OracleOK` = finite double ∧
    `RustFmtExact`): Rust's float formatting, to which the code delegates digit generation,
    returns the exact correctly rounded expansion.  (Formerly restricted to "everything after
    digit generation, for digit data handed over by an unmodelled double-arithmetic pipeline",
    with the finding `c12_float_digits_inexact_beyond_2_53`: `"%f" % 1e21` ended in `.555072`;
    repaired.) -/
theorem float_conv_spec (n : Num) (disp : List Char) (c : Code) (w : Nat) (p : Option Nat)
    (hc : c.conv = .sci ∨ c.conv = .flt ∨ c.conv = .shorter) (ho : OracleOK n) :
    formatCode (.num n disp) c w p = FormatSpec.conv c w p (.num n disp) :=
  formatCode_float n disp c w p hc ho

/-- the full statement is a theorem -/
theorem float_conv_full : FloatConvStmt :=
  fun n disp c w p hc hm hr => formatCode_float n disp c w p hc ⟨hm, hr⟩

/-- decidable form of `r = .ok s` (for the examples) -/
def isOkText (r : R (List Char)) (s : List Char) : Bool :=
  match r with
  | .ok t => t == s
  | .error _ => false

theorem eq_of_isOkText (r : R (List Char)) (s : List Char) (h : isOkText r s = true) : r = .ok s := by
  cases r with
  | error e => cases h
  | ok t => simp only [isOkText, beq_iff_eq] at h; rw [h]

/-- the reference rounds to a NEAREST integer (at most half a unit of the last place away from
    the exact value, on either side) and an exact tie goes to the even neighbour -/
theorem round_half_even_nearest (n d : Nat) (hd : 0 < d) :
    2 * (FormatSpec.roundHalfEven n d * d - n) ≤ d ∧ 2 * (n - FormatSpec.roundHalfEven n d * d) ≤ d ∧
      (2 * (n % d) = d → FormatSpec.roundHalfEven n d % 2 = 0) :=
  roundHalfEven_nearest n d hd

/-- `%f` digit data recompose to |v| · 10^p rounded half even, the fraction has `p` digits -/
theorem fix_digits_recompose (mag p : Nat) :
    (FormatSpec.fixDigits mag p).whole * 10 ^ p + (FormatSpec.fixDigits mag p).frac
        = FormatSpec.roundHalfEven (mag * 10 ^ p) (2 ^ 1074)
      ∧ (FormatSpec.fixDigits mag p).frac < 10 ^ p := by
  refine ⟨?_, Nat.mod_lt _ (Nat.pow_pos (by omega))⟩
  show FormatSpec.fixedUnits mag p / 10 ^ p * 10 ^ p + FormatSpec.fixedUnits mag p % 10 ^ p = _
  rw [Nat.mul_comm, Nat.div_add_mod]
  rfl

/-- the reference's scientific notation is normalised for every non-zero finite double: exactly one
    leading digit, 1..9 — i.e. the reference's decimal exponent (`exp10`, then the carry step) is the
    exponent of the rounded value — and its mantissa units lie in [10^p, 10^(p+1)] before the
    carry step -/
theorem sci_digits_normalised (mag p : Nat) (h0 : 0 < mag) (h : mag < 2 ^ 2098) :
    1 ≤ (FormatSpec.sciDigits mag p).2.whole ∧ (FormatSpec.sciDigits mag p).2.whole ≤ 9
      ∧ (FormatSpec.sciDigits mag p).2.frac < 10 ^ p
      ∧ 10 ^ p ≤ FormatSpec.sciUnits mag p (FormatSpec.exp10 mag)
      ∧ FormatSpec.sciUnits mag p (FormatSpec.exp10 mag) ≤ 10 ^ (p + 1) :=
  ⟨(sciDigits_leading mag p h0 h).1, (sciDigits_leading mag p h0 h).2, (sciDigits_ok mag p).2,
    (sciUnits_bracket mag p h0 h).1, (sciUnits_bracket mag p h0 h).2⟩

/-- non-vacuity: 9.5 at precision 0 — units 10 at exponent 0, so the carry step gives 1e1 -/
example : FormatSpec.sciUnits (19 * 2 ^ 1073) 0 (FormatSpec.exp10 (19 * 2 ^ 1073)) = 10
    ∧ FormatSpec.sciDigits (19 * 2 ^ 1073) 0 = (1, { whole := 1, frac := 0 }) := by decide +kernel

/-- a number whose formatter answers are the exact ones meets the assumption -/
def exactNum (neg : Bool) (mag : Nat) : Num :=
  { neg := neg, mag := mag, rfix := FormatSpec.rustFixed mag, rsci := FormatSpec.rustSci mag }

theorem exactNum_ok (neg : Bool) (mag : Nat) (h : mag < 2 ^ 2098) : OracleOK (exactNum neg mag) :=
  ⟨h, fun _ _ => ⟨rfl, rfl⟩⟩

/-- every finite bit pattern denotes a number within the bound of the theorems -/
theorem ofBits_finite (bits : Nat) (h : (bits / 2 ^ 52) % 2048 ≠ 2047) : (Num.ofBits bits).mag < 2 ^ 2098 := by
  unfold Num.ofBits
  simp only []
  have hf : bits % 2 ^ 52 < 2 ^ 52 := Nat.mod_lt _ (Nat.pow_pos (by omega))
  split
  · exact Nat.lt_of_lt_of_le hf (Nat.pow_le_pow_right (by omega) (by omega))
  · have hb : bits / 2 ^ 52 % 2048 - 1 ≤ 2045 := by omega
    have h1 : bits % 2 ^ 52 + 2 ^ 52 < 2 ^ 53 := by
      have : (2 : Nat) ^ 53 = 2 ^ 52 + 2 ^ 52 := by decide
      omega
    calc (bits % 2 ^ 52 + 2 ^ 52) * 2 ^ (bits / 2 ^ 52 % 2048 - 1)
        < 2 ^ 53 * 2 ^ (bits / 2 ^ 52 % 2048 - 1) := Nat.mul_lt_mul_of_pos_right h1 (Nat.pow_pos (by omega))
      _ ≤ 2 ^ 53 * 2 ^ 2045 := Nat.mul_le_mul_left _ (Nat.pow_le_pow_right (by omega) hb)
      _ = 2 ^ 2098 := by rw [← Nat.pow_add]

/-- non-vacuity: `"%+09.2f" % -3.14159` (the double 3537115888337719 · 2^-50) -/
example :
    formatCode (.num (exactNum true (3537115888337719 * 2 ^ 1024)) [])
      { mkey := [], flags := { zero := true, sign := true }, width := .fixed 9, prec := some (.fixed 2),
        conv := .flt, caps := false } 9 (some 2) = .ok "-00003.14".toList := by
  rw [float_conv_spec _ _ _ _ _ (Or.inr (Or.inl rfl)) (exactNum_ok _ _ (by decide +kernel))]
  exact eq_of_isOkText _ _ (by decide +kernel)

/-- the former witness of the finding: `"%f" % 1e21` (= 476837158203125 · 2^21) prints zeros
    after the point -/
example :
    formatCode (.num (exactNum false (476837158203125 * 2 ^ 1095)) [])
      { mkey := [], flags := {}, width := .fixed 0, prec := none, conv := .flt, caps := false } 0 none
      = .ok "1000000000000000000000.000000".toList := by
  rw [float_conv_spec _ _ _ _ _ (Or.inr (Or.inl rfl)) (exactNum_ok _ _ (by decide +kernel))]
  exact eq_of_isOkText _ _ (by decide +kernel)

/-- double rounding is gone: `"%.0f" % 0.49999999999999994` is 0; ties go to even: `"%.0f" % 2.5`
    is 2; the exponent is the one of the rounded value: `"%.0e" % 9.5` is `1e+01`, and
    `"%g" % 999999.5` is `1e+06` -/
example :
    formatCode (.num (exactNum false (9007199254740991 * 2 ^ 1020)) [])
        { mkey := [], flags := {}, width := .fixed 0, prec := some (.fixed 0), conv := .flt, caps := false } 0 (some 0)
        = .ok "0".toList
    ∧ formatCode (.num (exactNum false (5 * 2 ^ 1073)) [])
        { mkey := [], flags := {}, width := .fixed 0, prec := some (.fixed 0), conv := .flt, caps := false } 0 (some 0)
        = .ok "2".toList
    ∧ formatCode (.num (exactNum false (19 * 2 ^ 1073)) [])
        { mkey := [], flags := {}, width := .fixed 0, prec := some (.fixed 0), conv := .sci, caps := false } 0 (some 0)
        = .ok "1e+01".toList
    ∧ formatCode (.num (exactNum false (1999999 * 2 ^ 1073)) [])
        { mkey := [], flags := {}, width := .fixed 0, prec := none, conv := .shorter, caps := false } 0 none
        = .ok "1e+06".toList := by
  refine ⟨?_, ?_, ?_, ?_⟩
  · rw [float_conv_spec _ _ _ _ _ (Or.inr (Or.inl rfl)) (exactNum_ok _ _ (by decide +kernel))]; exact eq_of_isOkText _ _ (by decide +kernel)
  · rw [float_conv_spec _ _ _ _ _ (Or.inr (Or.inl rfl)) (exactNum_ok _ _ (by decide +kernel))]; exact eq_of_isOkText _ _ (by decide +kernel)
  · rw [float_conv_spec _ _ _ _ _ (Or.inl rfl) (exactNum_ok _ _ (by decide +kernel))]; exact eq_of_isOkText _ _ (by decide +kernel)
  · rw [float_conv_spec _ _ _ _ _ (Or.inr (Or.inr rfl)) (exactNum_ok _ _ (by decide +kernel))]; exact eq_of_isOkText _ _ (by decide +kernel)

/-- what `format_code` does with the text Rust's formatter returned is right for ALL digit data,
    whether or not they are the digits of the number (`%f`/`%F`): split at the point, sign, `#`,
    zero padding, width -/
theorem float_layout_fixed (n : Num) (disp : List Char) (c : Code) (w : Nat) (p : Option Nat) (d : FDig)
    (hc : c.conv = .flt) (hp : p.getD 6 ≤ 308) (hd : DigOK (p.getD 6) d)
    (ht : n.rfix (p.getD 6) = FormatSpec.plainText (p.getD 6) d) :
    formatCode (.num n disp) c w p =
      .ok (FormatSpec.floatConv c.flags w n.neg (FormatSpec.fixedText d (p.getD 6) c.flags.alt true) []) := by
  rw [formatCode_unfold]
  unfold formatBody
  delta FMT_DEFAULT_FPPREC FMT_MAX_FPPREC
  have hbig : ¬ (p.getD 6 > 308) := by omega
  simp only [hc, hbig, Val.asNum, decide_false, Bool.false_and, Bool.false_eq_true, if_false, bind,
    Except.bind, renderFloat, ht]
  exact float_core_fixed c.flags w n.neg d _ c.flags.alt hp hd

/-- the same for `%e`/`%E`: any digit data and any exponent within `i32` that Rust's text spells -/
theorem float_layout_sci (n : Num) (disp : List Char) (c : Code) (w : Nat) (p : Option Nat) (d : FDig) (x : Int)
    (hc : c.conv = .sci) (hp : p.getD 6 ≤ 308) (hd : DigOK (p.getD 6) d) (hx : -100000 ≤ x ∧ x ≤ 100000)
    (ht : n.rsci (p.getD 6) = FormatSpec.plainText (p.getD 6) d ++ 'e' :: FormatSpec.intText x) :
    formatCode (.num n disp) c w p =
      .ok (FormatSpec.floatConv c.flags w n.neg (FormatSpec.fixedText d (p.getD 6) c.flags.alt true)
        (FormatSpec.expText c.caps x)) := by
  rw [formatCode_unfold]
  unfold formatBody
  delta FMT_DEFAULT_FPPREC FMT_MAX_FPPREC
  have hbig : ¬ (p.getD 6 > 308) := by omega
  have hs : floatSciDigits n (p.getD 6) = (FormatSpec.plainText (p.getD 6) d, x) := by
    unfold floatSciDigits
    simp only [ht]
    rw [splitOnce_append _ _ _ (plainText_no_e _ _)]
    simp only [Option.getD_some]
    rw [parseI32_intText _ (by omega) (by omega)]
  simp only [hc, hbig, Val.asNum, decide_false, Bool.false_and, Bool.false_eq_true, if_false, bind,
    Except.bind, renderFloatSci, hs]
  have hxb : x.natAbs < DBL_BOUND :=
    Nat.lt_of_lt_of_le (by omega : x.natAbs < 2 ^ 17) (Nat.pow_le_pow_right (by omega) (by omega))
  exact float_core_sci c.flags w n.neg x d _ c.flags.alt c.caps hp hd hxb

/-- non-vacuity of the layout theorems: the digit data (3, 14) at precision 2 -/
example : DigOK 2 { whole := 3, frac := 14 } ∧ FormatSpec.plainText 2 { whole := 3, frac := 14 } = "3.14".toList :=
  ⟨⟨Nat.lt_of_lt_of_le (by decide : 3 < 2 ^ 2) (Nat.pow_le_pow_right (by decide) (by decide)), by decide⟩, by decide⟩

/-- formerly the finding `c12_float_precision_65535_overflows_u16` (`"%.*f" % [65535, 3]`
    panicked in `dot_size + precision`): a float conversion with a precision above 308 is the
    error "field width or precision is too large" for every value, flag set and width -/
theorem float_precision_limit (v : Val) (c : Code) (w q : Nat)
    (hc : c.conv = .sci ∨ c.conv = .flt ∨ c.conv = .shorter) (hq : q > 308) :
    formatCode v c w (some q) = .error .tooLarge ∧ FormatSpec.conv c w (some q) v = .error .tooLarge := by
  have hq' : (decide (q > 308)) = true := by simpa using hq
  constructor
  · unfold formatCode formatBody
    delta FMT_MAX_FPPREC
    rcases hc with h | h | h <;> simp [h, hq', bind, Except.bind]
  · unfold FormatSpec.conv
    delta FormatSpec.maxFloatPrec
    rcases hc with h | h | h <;>
      simp [h, hq, bind, Except.bind, throw, throwThe, MonadExceptOf.throw]

/-! ### value consumption -/

/-- number of values the elements consume: one per `*`, one per conversion except `%%` -/
def totalNeed : List Elem → Nat
  | [] => 0
  | .lit _ :: es => totalNeed es
  | .code c :: es => FormatSpec.need c + totalNeed es

/-- C12 `consumes_left_to_right`: the first code reads exactly the first `need c` values (its `*`
    width, then its `*` precision, then its value), its text depends on those values only, and the
    remaining codes are formatted from the remaining values. -/
theorem consumes_left_to_right (c : Code) (es : List Elem) (vals : List Val) (out : List Char)
    (h : formatElemsArr (.code c :: es) vals = .ok out) :
    ∃ s r, out = s ++ r ∧ stepArr c (vals.take (FormatSpec.need c)) = .ok (s, []) ∧
      formatElemsArr es (vals.drop (FormatSpec.need c)) = .ok r := by
  simp only [formatElemsArr, bind, Except.bind] at h
  cases hs : stepArr c vals with
  | error e => simp [hs] at h
  | ok x =>
    obtain ⟨s, rest⟩ := x
    simp only [hs] at h
    cases hr : formatElemsArr es rest with
    | error e => simp [hr] at h
    | ok r =>
      simp only [hr, pure, Except.pure, Except.ok.injEq] at h
      obtain ⟨u, e1, l1, f1⟩ := stepArr_frames c vals s rest hs
      refine ⟨s, r, h.symm, ?_, ?_⟩
      · have := f1 []
        rw [e1, ← l1]; simpa using this
      · rw [e1, ← l1]; simpa using hr

/-- a literal element is copied and consumes nothing -/
theorem literal_elem_copied (s : List Char) (es : List Elem) (vals : List Val) :
    formatElemsArr (.lit s :: es) vals = (formatElemsArr es vals).map (s ++ ·) := by
  simp only [formatElemsArr, bind, Except.bind, pure, Except.pure, Except.map]

/-- success means the number of values is exactly the number the codes consume -/
theorem value_count_exact (es : List Elem) (vals : List Val) (out : List Char)
    (h : formatElemsArr es vals = .ok out) : vals.length = totalNeed es := by
  induction es generalizing vals out with
  | nil => cases vals <;> simp [formatElemsArr, totalNeed] at h ⊢
  | cons e es ih =>
    cases e with
    | lit s =>
      rw [literal_elem_copied] at h
      cases hr : formatElemsArr es vals with
      | error e => simp [hr, Except.map] at h
      | ok r => simpa [totalNeed] using ih vals r hr
    | code c =>
      obtain ⟨s, r, _, _, h3⟩ := consumes_left_to_right c es vals out h
      have := ih _ r h3
      simp only [formatElemsArr, bind, Except.bind] at h
      cases hs : stepArr c vals with
      | error e => simp [hs] at h
      | ok x =>
        obtain ⟨u, e1, l1, _⟩ := stepArr_frames c vals x.1 x.2 hs
        simp only [List.length_drop] at this
        simp only [totalNeed]
        have hl : vals.length = u.length + x.2.length := by rw [e1]; simp
        omega

/-- C12 `too_few_is_error` -/
theorem too_few_is_error (es : List Elem) (vals : List Val) (h : vals.length < totalNeed es) :
    ∃ e, formatElemsArr es vals = .error e := by
  cases hr : formatElemsArr es vals with
  | error e => exact ⟨e, rfl⟩
  | ok out => have := value_count_exact es vals out hr; omega

/-- C12 `too_many_is_error` -/
theorem too_many_is_error (es : List Elem) (vals : List Val) (h : totalNeed es < vals.length) :
    ∃ e, formatElemsArr es vals = .error e := by
  cases hr : formatElemsArr es vals with
  | error e => exact ⟨e, rfl⟩
  | ok out => have := value_count_exact es vals out hr; omega

/-- non-vacuity: "%*d" needs two values -/
example : totalNeed [.code { mkey := [], flags := {}, width := .star, prec := none, conv := .dec, caps := false }] = 2 := by
  decide

/-- C12 `percent_no_consume`: `%%` (also with flags and a width) takes no value and yields `%` -/
theorem percent_no_consume (c : Code) (w : Nat) (vals : List Val) (hc : c.conv = .pct)
    (hw : c.width = .fixed w) (hp : c.prec ≠ some .star) :
    stepArr c vals = .ok (FormatSpec.padText c.flags w ['%'], vals) := by
  unfold stepArr
  rw [hw]
  simp only [takeWidth]
  have : ∃ p', takePrec c.prec vals = .ok (p', vals) := by
    match hcp : c.prec with
    | none => exact ⟨none, rfl⟩
    | some (.fixed n) => exact ⟨some n, rfl⟩
    | some .star => exact absurd hcp hp
  obtain ⟨p', h1⟩ := this
  simp only [h1, hc, decide_true, takeValue, if_true, percent_text _ c w p' hc]

/-! ### literal text -/

/-- C12 `literal_copied`: a format string without `%` is copied unchanged (and accepts no values) -/
theorem literal_copied (s : List Char) (h : '%' ∉ s) :
    formatArr s [] = .ok s ∧ ∀ v vs, formatArr s (v :: vs) = .error .tooMany := by
  have hp : parseCodes s = .ok (if s.isEmpty then [] else [Elem.lit s]) := by
    simp [parseCodes, parseCodesF, spanLit_no_percent s h]
  constructor
  · simp only [formatArr, hp, bind, Except.bind]
    cases s <;> simp [formatElemsArr, bind, Except.bind, pure, Except.pure]
  · intro v vs
    simp only [formatArr, hp, bind, Except.bind]
    cases s <;> simp [formatElemsArr, bind, Except.bind, pure, Except.pure]

/-! ### object mode -/

/-- C12 `obj_mode_spec`: with an object argument every specifier is resolved by its `%(key)`:
    `*` is rejected, a specifier other than `%%` without a key is rejected, the key names a field
    (or a dotted path through nested objects), a missing field is an error, `%%` looks nothing up;
    the result is the concatenation of literal text and converted fields in order. -/
theorem obj_mode_spec (fields : List (List Char × Val)) (disp : List Char) (es : List Elem) :
    formatElemsObj fields disp es
      = FormatSpec.elemsObjWith (fun c w p v => formatCode v c w p) fields disp es := by
  induction es with
  | nil => rfl
  | cons e es ih =>
    cases e with
    | lit s =>
      simp only [formatElemsObj, FormatSpec.elemsObjWith, FormatSpec.elemTextWith, bind, Except.bind, ih,
        pure, Except.pure]
      cases FormatSpec.elemsObjWith (fun c w p v => formatCode v c w p) fields disp es <;> rfl
    | code c =>
      have hstep : stepObj fields disp c
          = FormatSpec.convObjWith (fun c w p v => formatCode v c w p) fields disp c := by
        unfold stepObj FormatSpec.convObjWith FormatSpec.lookupKey
        cases hw : c.width with
        | star => rfl
        | fixed w =>
          match hp : c.prec with
          | some .star => rfl
          | none =>
            simp only [bind, Except.bind, pure, Except.pure]
            by_cases h1 : c.conv = .pct
            · simp [h1]
            · by_cases h2 : c.mkey = []
              · simp [h1, h2]
              · simp only [h1, h2, if_false, List.isEmpty_iff]
                cases fields.lookup c.mkey with
                | some v => rfl
                | none => simp only [dotted_eq_walk, splitDots_eq_path]; cases FormatSpec.walk _ _ <;> rfl
          | some (.fixed n) =>
            simp only [bind, Except.bind, pure, Except.pure]
            by_cases h1 : c.conv = .pct
            · simp [h1]
            · by_cases h2 : c.mkey = []
              · simp [h1, h2]
              · simp only [h1, h2, if_false, List.isEmpty_iff]
                cases fields.lookup c.mkey with
                | some v => rfl
                | none => simp only [dotted_eq_walk, splitDots_eq_path]; cases FormatSpec.walk _ _ <;> rfl
      simp only [formatElemsObj, FormatSpec.elemsObjWith, FormatSpec.elemTextWith, bind, Except.bind, ih,
        pure, Except.pure, hstep]
      cases FormatSpec.convObjWith (fun c w p v => formatCode v c w p) fields disp c with
      | error e => rfl
      | ok s => cases FormatSpec.elemsObjWith (fun c w p v => formatCode v c w p) fields disp es <;> rfl

/-- non-vacuity: `"%(a.b)s" % {a: {b: "x"}}` reaches the nested field -/
example :
    (FormatSpec.lookupKey [("a".toList, .obj [("b".toList, .str ['x'])] [])] [] "a.b".toList).toOption.map Val.disp
      = some ['x'] := by decide

/-! ### parser -/

/-- the conversion character decides: a known one (`d i u o x X e E f F g G c s %`, reference table)
    ends the code with that conversion, any other character is `unknownConv`, end of text is
    `truncated` -/
theorem conversion_char_spec (s : List Char) :
    parseConv s = match s with
      | [] => .error .truncated
      | c :: r => match FormatSpec.convTable.lookup c with
        | some v => .ok (v, r)
        | none => .error .unknownConv :=
  parseConv_spec s

/-- C12 `parse_spec`: the model of `parse_codes` (loops with explicit end-of-input tests, checked
    `u16` accumulation, table lookups) computes, for EVERY format string, exactly what the
    reference grammar computes — the same elements on success and the same error (truncated code,
    unrecognised conversion, width/precision above 65535) otherwise. -/
theorem parse_spec (s : List Char) : parseCodes s = FormatSpec.parseFmt s :=
  parseCodesF_eq _ s

/-- one conversion specifier: `parse_code` = the reference's specifier grammar on every text -/
theorem parse_code_spec (s : List Char) : parseCode s = FormatSpec.parseSpec s :=
  parseCode_eq s

/-- C12 `parse_roundtrip`: rendering a list of elements (literal runs without `%`, never empty,
    never adjacent; codes whose key has no `)`, whose numbers fit `u16` and whose `caps` bit goes
    with a conversion that has an upper-case letter) as a format string and parsing that string
    with the model of `parse_codes` gives exactly the elements back: every field of every code —
    mapping key, each flag, width, precision, `*`, conversion, caps — survives. -/
theorem parse_roundtrip (es : List Elem) (h : ElemsWF es) : parseCodes (render es) = .ok es :=
  parseCodes_render es h

/-- one specifier, whatever text follows it -/
theorem parse_code_roundtrip (c : Code) (h : CodeWF c) (rest : List Char) :
    parseCode (renderCode c ++ rest) = .ok (c, rest) := by
  rw [parseCode_eq]; exact parseSpec_render c h rest

/-- non-vacuity: `a=%(k)#05.3X|` is the rendering of a well-formed element list -/
example :
    let c : Code := { mkey := ['k'], flags := { alt := true, zero := true }, width := .fixed 5,
                      prec := some (.fixed 3), conv := .hex, caps := true }
    render [.lit "a=".toList, .code c, .lit ['|']] = "a=%(k)#05.3X|".toList ∧
      ElemsWF [.lit "a=".toList, .code c, .lit ['|']] := by
  refine ⟨by decide, ⟨by decide, by decide, trivial, ⟨⟨by decide, ?_, ?_, fun _ => Or.inl rfl⟩,
    ⟨by decide, by decide, trivial, trivial⟩⟩⟩⟩
  · intro n h; injection h with h; omega
  · intro n h; injection h with h; injection h with h; omega

/-- C12 (errors rather than crashes): parsing any format string either succeeds or reports one of
    the three format errors — truncated code, unrecognised conversion, width/precision above
    65535; in particular the `u16` width arithmetic never panics. -/
theorem parse_errors_only (s : List Char) (e : Err) (h : parseCodes s = .error e) :
    e = .truncated ∨ e = .unknownConv ∨ e = .tooLarge :=
  parseCodesF_err _ s e h

/-- a `%` at the very end, and a code cut off after its flags/width/precision, are `truncated` -/
example : parseCodes "100%".toList = .error .truncated ∧ parseCodes "%-05.3".toList = .error .truncated
    ∧ parseCodes "%(key".toList = .error .truncated ∧ parseCodes "%5q".toList = .error .unknownConv
    ∧ parseCodes "%99999d".toList = .error .tooLarge := ⟨rfl, rfl, rfl, rfl, rfl⟩

end JrsVerif.Format
