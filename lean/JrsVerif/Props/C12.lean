/- C12 — std.format and the % operator implement printf-style formatting.
   Property theorems only (helper lemmas live in Proofs/Format.lean).
   Model = `JrsVerif.Format` (format.rs as coded, after the `fix:` commits), reference =
   `JrsVerif.FormatSpec` (Python/Jsonnet %-formatting). -/
import JrsVerif.Proofs.Format

set_option linter.unusedSimpArgs false

namespace JrsVerif.Format
open JrsVerif.Generated

/-! ### tables re-extracted from format.rs agree with the reference tables -/

/-- the conversion characters of `parse_conversion_type` are exactly d i u o x X e E f F g G c s %
    with the reference meaning (a changed, dropped or added arm breaks this) -/
theorem conv_table_spec :
    FMT_CONV_TABLE.map (fun (c, n, k) => (c, convOfName n, k))
      = FormatSpec.convTable.map (fun (c, v, k) => (c, some v, k)) := by decide

/-- the flag characters are `# 0 - space +` in the reference meaning, the length modifiers `h l L`,
    the digit alphabet, default precisions 6/0, `%g` switches to exponent form below 1e-4, and the
    exponent has at least two digits -/
theorem flag_table_spec :
    FMT_FLAG_TABLE = [('#', 0), ('0', 1), ('-', 2), (' ', 3), ('+', 4)] ∧ FMT_LENMOD = ['h', 'l', 'L']
      ∧ FMT_NUMBERS.toList.take 16 = "0123456789abcdef".toList
      ∧ FMT_DEFAULT_FPPREC = 6 ∧ FMT_DEFAULT_IPREC = 0 ∧ FMT_G_LOW_EXP = 4 ∧ FMT_EXP_PADDING = 3 := by
  decide

/-! ### integer conversions -/

/-- C12 `int_conv_spec`: for every flag subset, width, precision (given, absent, or taken from `*`),
    conversion d/i/u/o/x/X and every number whose integer part is below 2^63, `format_code` never
    panics and produces exactly the reference text (sign, `#` prefix, precision zeros, `0`/`-`/space
    filling to `width` characters). -/
theorem int_conv_spec (n : Num) (d : List Char) (c : Code) (w : Nat) (p : Option Nat)
    (hc : c.conv = .dec ∨ c.conv = .oct ∨ c.conv = .hex) (hn : n.whole ≤ I64_MAX) :
    formatCode (.num n d) c w p =
      .ok (FormatSpec.intConv c.flags w p c.conv c.caps (FormatSpec.truncInt n)) :=
  formatCode_int n d c w p hc hn

/-- non-vacuity: `"%+08.3x" % -255.5` -/
example :
    formatCode (.num { neg := true, whole := 255, fracNZ := true } [])
      { mkey := [], flags := { zero := true, sign := true }, width := .fixed 8, prec := some (.fixed 3),
        conv := .hex, caps := false } 8 (some 3) = .ok "-00000ff".toList := by
  rw [int_conv_spec _ _ _ _ _ (Or.inr (Or.inr rfl)) (by decide)]
  exact congrArg Except.ok (by decide)

/-- the full statement without the `i64` bound -/
def IntConvStmt : Prop :=
  ∀ (n : Num) (d : List Char) (c : Code) (w : Nat) (p : Option Nat),
    (c.conv = .dec ∨ c.conv = .oct ∨ c.conv = .hex) →
    formatCode (.num n d) c w p =
      .ok (FormatSpec.intConv c.flags w p c.conv c.caps (FormatSpec.truncInt n))

/-- KNOWN FINDING (c12_render_integer_saturates_at_i64): `"%d" % 9223372036854775808` prints
    9223372036854775807 — `iv.floor() as i64` saturates. -/
theorem int_conv_counterexample : ¬ IntConvStmt := by
  intro h
  have := h { neg := false, whole := 9223372036854775808 } []
    { mkey := [], flags := {}, width := .fixed 0, prec := none, conv := .dec, caps := false } 0 none
    (Or.inl rfl)
  have h2 := congrArg (fun r => match r with | Except.ok s => s.getLast? | _ => none) this
  revert h2
  decide

/-- the statement holds exactly outside the classifier (`|v| < 2^63`) -/
theorem int_conv_partial (n : Num) (d : List Char) (c : Code) (w : Nat) (p : Option Nat)
    (hc : c.conv = .dec ∨ c.conv = .oct ∨ c.conv = .hex) (hn : ¬ n.whole ≥ 2 ^ 63) :
    formatCode (.num n d) c w p =
      .ok (FormatSpec.intConv c.flags w p c.conv c.caps (FormatSpec.truncInt n)) :=
  formatCode_int n d c w p hc (by unfold I64_MAX; omega)

/-! ### padding of text conversions -/

/-- C12 `pad_spec`: `%s` pads the value's text to `width` *characters* (code points), on the right
    for `-`, else on the left; never truncates; the `0` flag and the precision do not apply. -/
theorem pad_spec (v : Val) (c : Code) (w : Nat) (p : Option Nat) (hc : c.conv = .str) :
    formatCode v c w p = .ok (FormatSpec.padText c.flags w v.disp) := by
  unfold formatCode formatBody FormatSpec.padText FormatSpec.spaces
  simp only [hc, bind, Except.bind, pure, Except.pure]

/-- the width is measured in characters: "é" is one character -/
example :
    formatCode (.str [Char.ofNat 233])
      ({ mkey := [], flags := {}, width := .fixed 5, prec := none, conv := .str, caps := false } : Code)
      5 none = .ok [' ', ' ', ' ', ' ', Char.ofNat 233] := by
  rw [pad_spec _ _ _ _ rfl]; exact congrArg Except.ok (by decide)

/-- `%%` renders a percent sign (padded like text), whatever value it is handed -/
theorem percent_text (v : Val) (c : Code) (w : Nat) (p : Option Nat) (hc : c.conv = .pct) :
    formatCode v c w p = .ok (FormatSpec.padText c.flags w ['%']) := by
  unfold formatCode formatBody FormatSpec.padText FormatSpec.spaces
  simp only [hc, bind, Except.bind, pure, Except.pure]

/-! ### `%c` -/

/-- the full statement for `%c` -/
def CharConvStmt : Prop :=
  ∀ (v : Val) (c : Code) (w : Nat) (p : Option Nat), c.conv = .chr →
    formatCode v c w p = FormatSpec.conv c w p v

/-- KNOWN FINDING (c12_char_of_negative_number_is_nul): `"%c" % -3` is "\u0000", not an error -/
theorem char_conv_counterexample : ¬ CharConvStmt := by
  intro h
  have := h (.num { neg := true, whole := 3 } [])
    { mkey := [], flags := {}, width := .fixed 0, prec := none, conv := .chr, caps := false } 0 none rfl
  have h2 := congrArg (fun r => match r with | Except.ok _ => true | _ => false) this
  revert h2
  decide

def negativeNumber : Val → Bool
  | .num n _ => n.neg && decide (n.whole ≥ 1)
  | _ => false

/-- C12 `c_conv_spec`: outside the classifier (a number ≤ -1), `%c` is the reference: the character
    with that code point (fractions truncated), a one-character string as is, padded to `width`
    characters; surrogates, code points above 0x10FFFF, longer strings and other types are errors -/
theorem char_conv_partial (v : Val) (c : Code) (w : Nat) (p : Option Nat) (hc : c.conv = .chr)
    (hv : negativeNumber v = false) : formatCode v c w p = FormatSpec.conv c w p v := by
  unfold formatCode formatBody FormatSpec.conv FormatSpec.padText FormatSpec.spaces
  simp only [hc]
  cases v with
  | num n d =>
    simp only [negativeNumber] at hv
    have htr : (FormatSpec.truncInt n < 0) = False := by
      have := truncInt_neg n; rw [hv] at this; simpa using this
    simp only [htr, if_false]
    by_cases hneg : n.neg = true
    · have hw : n.whole = 0 := by
        simp only [hneg, Bool.true_and, decide_eq_false_iff_not] at hv; omega
      simp only [hneg, if_true, hw]
      rfl
    · simp only [hneg, Bool.false_eq_true, if_false]
      by_cases hbig : n.whole ≤ 4294967295
      · rw [Nat.min_eq_left hbig]
        have hvs : validScalar n.whole = FormatSpec.isScalar n.whole := rfl
        rw [hvs]; cases FormatSpec.isScalar n.whole <;> rfl
      · have h1 : min n.whole 4294967295 = 4294967295 := Nat.min_eq_right (by omega)
        have h2 : FormatSpec.isScalar n.whole = false := by
          unfold FormatSpec.isScalar
          simp only [Bool.or_eq_false_iff, decide_eq_false_iff_not, Bool.and_eq_false_imp, decide_eq_true_eq]
          omega
        rw [h1, h2]; rfl
  | str s => by_cases h : s.length = 1 <;> simp [h, bind, Except.bind, pure, Except.pure]
  | obj fs d => rfl
  | other d => rfl

/-! ### value consumption -/

/-- number of values the elements consume: one per `*`, one per conversion except `%%` -/
def totalNeed : List Elem → Nat
  | [] => 0
  | .lit _ :: es => totalNeed es
  | .code c :: es => FormatSpec.need c + totalNeed es

/-- C12 `consumes_left_to_right`: the first code reads exactly the first `need c` values (its `*`
    width, then its `*` precision, then its value), its text depends on those values only, and the
    remaining codes are formatted from the remaining values. -/
theorem consumes_left_to_right (c : Code) (es : List Elem) (vals : List Val) (out : List Char)
    (h : formatElemsArr (.code c :: es) vals = .ok out) :
    ∃ s r, out = s ++ r ∧ stepArr c (vals.take (FormatSpec.need c)) = .ok (s, []) ∧
      formatElemsArr es (vals.drop (FormatSpec.need c)) = .ok r := by
  simp only [formatElemsArr, bind, Except.bind] at h
  cases hs : stepArr c vals with
  | error e => simp [hs] at h
  | ok x =>
    obtain ⟨s, rest⟩ := x
    simp only [hs] at h
    cases hr : formatElemsArr es rest with
    | error e => simp [hr] at h
    | ok r =>
      simp only [hr, pure, Except.pure, Except.ok.injEq] at h
      obtain ⟨u, e1, l1, f1⟩ := stepArr_frames c vals s rest hs
      refine ⟨s, r, h.symm, ?_, ?_⟩
      · have := f1 []
        rw [e1, ← l1]; simpa using this
      · rw [e1, ← l1]; simpa using hr

/-- a literal element is copied and consumes nothing -/
theorem literal_elem_copied (s : List Char) (es : List Elem) (vals : List Val) :
    formatElemsArr (.lit s :: es) vals = (formatElemsArr es vals).map (s ++ ·) := by
  simp only [formatElemsArr, bind, Except.bind, pure, Except.pure, Except.map]

/-- success means the number of values is exactly the number the codes consume -/
theorem value_count_exact (es : List Elem) (vals : List Val) (out : List Char)
    (h : formatElemsArr es vals = .ok out) : vals.length = totalNeed es := by
  induction es generalizing vals out with
  | nil => cases vals <;> simp [formatElemsArr, totalNeed] at h ⊢
  | cons e es ih =>
    cases e with
    | lit s =>
      rw [literal_elem_copied] at h
      cases hr : formatElemsArr es vals with
      | error e => simp [hr, Except.map] at h
      | ok r => simpa [totalNeed] using ih vals r hr
    | code c =>
      obtain ⟨s, r, _, _, h3⟩ := consumes_left_to_right c es vals out h
      have := ih _ r h3
      simp only [formatElemsArr, bind, Except.bind] at h
      cases hs : stepArr c vals with
      | error e => simp [hs] at h
      | ok x =>
        obtain ⟨u, e1, l1, _⟩ := stepArr_frames c vals x.1 x.2 hs
        simp only [List.length_drop] at this
        simp only [totalNeed]
        have hl : vals.length = u.length + x.2.length := by rw [e1]; simp
        omega

/-- C12 `too_few_is_error` -/
theorem too_few_is_error (es : List Elem) (vals : List Val) (h : vals.length < totalNeed es) :
    ∃ e, formatElemsArr es vals = .error e := by
  cases hr : formatElemsArr es vals with
  | error e => exact ⟨e, rfl⟩
  | ok out => have := value_count_exact es vals out hr; omega

/-- C12 `too_many_is_error` -/
theorem too_many_is_error (es : List Elem) (vals : List Val) (h : totalNeed es < vals.length) :
    ∃ e, formatElemsArr es vals = .error e := by
  cases hr : formatElemsArr es vals with
  | error e => exact ⟨e, rfl⟩
  | ok out => have := value_count_exact es vals out hr; omega

/-- non-vacuity: "%*d" needs two values -/
example : totalNeed [.code { mkey := [], flags := {}, width := .star, prec := none, conv := .dec, caps := false }] = 2 := by
  decide

/-- C12 `percent_no_consume`: `%%` (also with flags and a width) takes no value and yields `%` -/
theorem percent_no_consume (c : Code) (w : Nat) (vals : List Val) (hc : c.conv = .pct)
    (hw : c.width = .fixed w) (hp : c.prec ≠ some .star) :
    stepArr c vals = .ok (FormatSpec.padText c.flags w ['%'], vals) := by
  unfold stepArr
  rw [hw]
  simp only [takeWidth]
  have : ∃ p', takePrec c.prec vals = .ok (p', vals) := by
    match hcp : c.prec with
    | none => exact ⟨none, rfl⟩
    | some (.fixed n) => exact ⟨some n, rfl⟩
    | some .star => exact absurd hcp hp
  obtain ⟨p', h1⟩ := this
  simp only [h1, hc, decide_true, takeValue, if_true, percent_text _ c w p' hc]

/-! ### literal text -/

/-- C12 `literal_copied`: a format string without `%` is copied unchanged (and accepts no values) -/
theorem literal_copied (s : List Char) (h : '%' ∉ s) :
    formatArr s [] = .ok s ∧ ∀ v vs, formatArr s (v :: vs) = .error .tooMany := by
  have hp : parseCodes s = .ok (if s.isEmpty then [] else [Elem.lit s]) := by
    simp [parseCodes, parseCodesF, spanLit_no_percent s h]
  constructor
  · simp only [formatArr, hp, bind, Except.bind]
    cases s <;> simp [formatElemsArr, bind, Except.bind, pure, Except.pure]
  · intro v vs
    simp only [formatArr, hp, bind, Except.bind]
    cases s <;> simp [formatElemsArr, bind, Except.bind, pure, Except.pure]

/-! ### object mode -/

/-- C12 `obj_mode_spec`: with an object argument every specifier is resolved by its `%(key)`:
    `*` is rejected, a specifier other than `%%` without a key is rejected, the key names a field
    (or a dotted path through nested objects), a missing field is an error, `%%` looks nothing up;
    the result is the concatenation of literal text and converted fields in order. -/
theorem obj_mode_spec (fields : List (List Char × Val)) (disp : List Char) (es : List Elem) :
    formatElemsObj fields disp es
      = FormatSpec.elemsObjWith (fun c w p v => formatCode v c w p) fields disp es := by
  induction es with
  | nil => rfl
  | cons e es ih =>
    cases e with
    | lit s =>
      simp only [formatElemsObj, FormatSpec.elemsObjWith, FormatSpec.elemTextWith, bind, Except.bind, ih,
        pure, Except.pure]
      cases FormatSpec.elemsObjWith (fun c w p v => formatCode v c w p) fields disp es <;> rfl
    | code c =>
      have hstep : stepObj fields disp c
          = FormatSpec.convObjWith (fun c w p v => formatCode v c w p) fields disp c := by
        unfold stepObj FormatSpec.convObjWith FormatSpec.lookupKey
        cases hw : c.width with
        | star => rfl
        | fixed w =>
          match hp : c.prec with
          | some .star => rfl
          | none =>
            simp only [bind, Except.bind, pure, Except.pure]
            by_cases h1 : c.conv = .pct
            · simp [h1]
            · by_cases h2 : c.mkey = []
              · simp [h1, h2]
              · simp only [h1, h2, if_false, List.isEmpty_iff]
                cases fields.lookup c.mkey with
                | some v => rfl
                | none => simp only [dotted_eq_walk, splitDots_eq_path]; cases FormatSpec.walk _ _ <;> rfl
          | some (.fixed n) =>
            simp only [bind, Except.bind, pure, Except.pure]
            by_cases h1 : c.conv = .pct
            · simp [h1]
            · by_cases h2 : c.mkey = []
              · simp [h1, h2]
              · simp only [h1, h2, if_false, List.isEmpty_iff]
                cases fields.lookup c.mkey with
                | some v => rfl
                | none => simp only [dotted_eq_walk, splitDots_eq_path]; cases FormatSpec.walk _ _ <;> rfl
      simp only [formatElemsObj, FormatSpec.elemsObjWith, FormatSpec.elemTextWith, bind, Except.bind, ih,
        pure, Except.pure, hstep]
      cases FormatSpec.convObjWith (fun c w p v => formatCode v c w p) fields disp c with
      | error e => rfl
      | ok s => cases FormatSpec.elemsObjWith (fun c w p v => formatCode v c w p) fields disp es <;> rfl

/-- non-vacuity: `"%(a.b)s" % {a: {b: "x"}}` reaches the nested field -/
example :
    (FormatSpec.lookupKey [("a".toList, .obj [("b".toList, .str ['x'])] [])] [] "a.b".toList).toOption.map Val.disp
      = some ['x'] := by decide

/-! ### parser -/

/-- the conversion character decides: a known one (`d i u o x X e E f F g G c s %`, reference table)
    ends the code with that conversion, any other character is `unknownConv`, end of text is
    `truncated` -/
theorem conversion_char_spec (s : List Char) :
    parseConv s = match s with
      | [] => .error .truncated
      | c :: r => match FormatSpec.convTable.lookup c with
        | some v => .ok (v, r)
        | none => .error .unknownConv :=
  parseConv_spec s

/-- C12 (errors rather than crashes): parsing any format string either succeeds or reports one of
    the three format errors — truncated code, unrecognised conversion, width/precision above
    65535; in particular the `u16` width arithmetic never panics. -/
theorem parse_errors_only (s : List Char) (e : Err) (h : parseCodes s = .error e) :
    e = .truncated ∨ e = .unknownConv ∨ e = .tooLarge :=
  parseCodesF_err _ s e h

/-- a `%` at the very end, and a code cut off after its flags/width/precision, are `truncated` -/
example : parseCodes "100%".toList = .error .truncated ∧ parseCodes "%-05.3".toList = .error .truncated
    ∧ parseCodes "%(key".toList = .error .truncated ∧ parseCodes "%5q".toList = .error .unknownConv
    ∧ parseCodes "%99999d".toList = .error .tooLarge := ⟨rfl, rfl, rfl, rfl, rfl⟩

end JrsVerif.Format
