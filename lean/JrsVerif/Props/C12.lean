/- C12: property theorems (not yet built). -/
