/- C05 — JSON manifestation is well-formed and faithful.
   Property theorems only (helper lemmas: Proofs/Escape.lean, Proofs/Json.lean, Proofs/JsonCanon.lean).

   Model: `Escape.escape` (the table-driven loop of `escape_string_json_buf`), `Json.canon`
   (`obj.iter()`: visible fields, ascending keys; `Val::Func` arm), `Json.wVal`
   (`manifest_json_ex_buf`, four modes, caller-supplied padding/newline/key_val_sep).
   Spec: `Json.read` — an RFC 8259 reader written independently (Model/JsonR.lean).
   Numbers: the writer prints a double with Rust's `Display for f64`; that printer is the
   parameter `fmt`, and `NumOK fmt d` ("the token for `d` is a JSON number that the reference
   reader rounds back to `d`") is a hypothesis, validated per case by the correspondence run. -/
import JrsVerif.Proofs.JsonCanon

namespace JrsVerif.Json
open JrsVerif.Escape JrsVerif.Generated.Escape

set_option linter.unusedSimpArgs false

/-! ## strings -/

/-- C05.1  the extracted 256-row table is exactly the RFC 8259 table: `u` for the control bytes
    without a short form, the letters for `\b \t \n \f \r " \`, 0 (= copy) for everything else -/
theorem escape_table_ok (b : UInt8) : row b = specRow b := row_spec b

/-- the table has one row per byte (the Rust index `ESCAPE[byte as usize]` cannot go out of range) -/
theorem escape_table_size : ESCAPE.size = 256 := table_size

/-- C05.2a the loop (run copying with `start`/`i`, in-place append to the caller's buffer) never
    reaches `unreachable!()` and produces quote · per-byte escapes · quote after the old buffer -/
theorem escape_total (value buf : List UInt8) :
    escapeBuf value buf = some (buf ++ 0x22 :: (value.flatMap specEsc ++ [0x22])) :=
  escapeBuf_spec value buf

/-- C05.2b round trip for every byte string (in particular every UTF-8 string): an independent
    string-token decoder reads the escaped text back as the same bytes — hence the same code
    points — and the token ends exactly where the writer stopped (`rest` is untouched) -/
theorem decode_escape (s rest t : List UInt8) (h : escape s = some t) :
    pString (t ++ rest) = some (s, rest) := by
  have : t = escapeD s := by simp [escapeD, h]
  rw [this]; exact pString_escapeD s rest

/-- C05.2c well-formedness of the token: quotes at both ends, no raw control byte inside, and
    every byte the escaper adds is ASCII while bytes ≥ 0x80 are copied unchanged (so the unsafe
    byte-level write keeps the buffer valid UTF-8) -/
theorem escape_wellformed (s t : List UInt8) (h : escape s = some t) :
    ∃ body, t = 0x22 :: (body ++ [0x22]) ∧ (∀ x ∈ body, 0x20 ≤ x) ∧
      body = s.flatMap specEsc ∧
      (∀ b ∈ s, 0x80 ≤ b → specEsc b = [b]) ∧ (∀ b ∈ s, b < 0x80 → ∀ x ∈ specEsc b, x < 0x80) := by
  refine ⟨s.flatMap specEsc, ?_, ?_, rfl, fun b _ => specEsc_high b, fun b _ => specEsc_ascii b⟩
  · have := escape_spec s; rw [h] at this; exact Option.some.inj this
  · intro x hx
    obtain ⟨b, _, hb⟩ := List.mem_flatMap.mp hx
    exact specEsc_safe b x hb

/-- C05.2d the same at the level of Unicode scalar values: escaping the UTF-8 encoding of a string
    acts character by character — an ASCII character becomes its escape, every other character
    keeps its own UTF-8 bytes — so the emitted token is valid UTF-8 and denotes the same code points -/
theorem escape_utf8 (cs : List Nat) (h : ∀ c ∈ cs, c < 0x110000) :
    escape (utf8s cs) = some (0x22 :: (cs.flatMap (fun c => if c < 0x80 then specEsc (UInt8.ofNat c) else utf8 c) ++ [0x22])) := by
  rw [escape_spec]
  congr 2
  congr 1
  induction cs with
  | nil => rfl
  | cons c tl ih =>
    have ih' := ih (fun x hx => h x (by simp [hx]))
    simp only [utf8s, List.flatMap_cons, List.flatMap_append] at ih' ⊢
    rw [ih']
    congr 1
    by_cases hc : c < 0x80
    · simp [hc, utf8]
    · simp only [hc, if_false]
      exact flatMap_id_of_high _ (utf8_high c (by omega) (h c (by simp)))

/-! ## structure -/

/-- C05.3  for every formatting mode whose padding/newline are whitespace and whose separator is
    `ws* : ws*`, every value and every starting indentation: the reference reader returns exactly
    the value that was written (same nesting, same member order, strings byte for byte, numbers
    bit for bit), under the numeric-token hypothesis for the numbers that occur in it. -/
theorem read_write (o : Opts) (ho : WsOpts o) (fmt : Nat → List UInt8) (j : J) (hn : NumsOK fmt j) :
    read (wVal o fmt [] j) = some j := by
  obtain ⟨b, r, hb, hs⟩ := wVal_head o fmt [] j hn
  have hws : isWs b = false := by
    simp only [startOK, Bool.and_eq_true, Bool.not_eq_true'] at hs; exact hs.1
  have hsz := size_le o fmt j hn []
  have := pVal_wVal o ho fmt j hn ((wVal o fmt [] j).length + 1) (by omega) [] allWs_nil [] rfl
  simp only [List.append_nil] at this
  unfold read
  rw [hb, skipWs_cons b r hws, ← hb, this]
  rfl

/-- the same inside any context: a written value followed by anything that does not continue a
    number token is read back and the rest is left in place (used for embedding in YAML streams) -/
theorem read_write_prefix (o : Opts) (ho : WsOpts o) (fmt : Nat → List UInt8) (j : J)
    (hn : NumsOK fmt j) (cur rest : List UInt8) (hc : AllWs cur) (hr : noNumHead rest = true) :
    pVal (size j) (wVal o fmt cur j ++ rest) = some (j, rest) :=
  pVal_wVal o ho fmt j hn (size j) (Nat.le_refl _) cur hc rest hr

/-- the built-in modes meet the whitespace hypothesis: minified, default (4 spaces), CLI with any
    padding count, `std.toString`/`"" + v` -/
theorem wsOpts_minify : WsOpts minifyOpts :=
  ⟨allWs_of_all _ (by decide), allWs_of_all _ (by decide), ⟨[], [], allWs_nil, allWs_nil, rfl⟩⟩

theorem wsOpts_default : WsOpts defaultOpts :=
  ⟨allWs_of_all _ (by decide), allWs_of_all _ (by decide), ⟨[], [0x20], allWs_nil, allWs_sp, rfl⟩⟩

theorem wsOpts_toString : WsOpts toStringOpts :=
  ⟨allWs_of_all _ (by decide), allWs_of_all _ (by decide), ⟨[], [0x20], allWs_nil, allWs_sp, rfl⟩⟩

theorem wsOpts_cli (n : Nat) : WsOpts (cliOpts n) := by
  unfold cliOpts
  split
  · exact wsOpts_minify
  · refine ⟨?_, allWs_of_all cliNewline (by decide), ⟨[], [0x20], allWs_nil, allWs_sp, rfl⟩⟩
    intro x hx
    have : x = 0x20 := by simpa using (List.mem_replicate.mp hx).2
    subst this; decide

/-- `std.manifestJsonEx(v, indent, newline, key_val_sep)` with whitespace `indent`/`newline` and a
    separator of the form `ws* : ws*` (the defaults `"\n"`, `": "` included) -/
theorem wsOpts_std (indent newline a b : List UInt8) (hi : AllWs indent) (hn : AllWs newline)
    (ha : AllWs a) (hb : AllWs b) : WsOpts (stdOpts indent newline (a ++ 0x3A :: b)) :=
  ⟨hi, hn, ⟨a, b, ha, hb, rfl⟩⟩

/-- C05.3 for `manifest`: what is emitted for a jsonnet value reads back as its canonical JSON
    value (visible fields only, ascending keys) -/
theorem manifest_read (o : Opts) (ho : WsOpts o) (fmt : Nat → List UInt8) (v : MV) (j : J)
    (hc : canon v = some j) (hn : NumsOK fmt j) :
    ∃ t, manifest o fmt v = some t ∧ read t = some j :=
  ⟨wVal o fmt [] j, by simp [manifest, hc], read_write o ho fmt j hn⟩

/-- `std.toString` / string concatenation: a top-level string is passed through unchanged … -/
theorem toString_str (fmt : Nat → List UInt8) (s : List UInt8) :
    toStringManifest fmt (.str s) = some s := rfl

/-- … and every other value is JSON in the ToString mode and reads back -/
theorem toString_read (fmt : Nat → List UInt8) (v : MV) (j : J) (hs : ∀ s, v ≠ .str s)
    (hc : canon v = some j) (hn : NumsOK fmt j) :
    ∃ t, toStringManifest fmt v = some t ∧ read t = some j := by
  have : toStringManifest fmt v = manifest toStringOpts fmt v := by
    cases v <;> first | rfl | exact absurd rfl (hs _)
  rw [this]
  exact manifest_read toStringOpts wsOpts_toString fmt v j hc hn

/-! ## objects: key order, hidden fields; functions -/

/-- C05.3 (key order) at every depth the members of a manifested object are in ascending
    byte-lexicographic (= code point) key order -/
theorem canon_sorted (v : MV) (j : J) (h : canon v = some j) : Sorted j := canon_sorted_aux v j h

/-- with distinct visible field names (always the case for a jsonnet object) the manifested
    members are in strictly ascending key order and are a permutation of the visible names -/
theorem canon_keys_strict (fs : List (List UInt8 × Bool × MV)) (kvs : List (List UInt8 × J))
    (h : canon (.obj fs) = some (.obj kvs))
    (hd : ((fs.filter (fun f => !f.2.1)).map (·.1)).Nodup) :
    KeysStrict kvs ∧ (kvs.map (·.1)).Perm ((fs.filter (fun f => !f.2.1)).map (·.1)) := by
  simp only [canon, Option.map_eq_some_iff, J.obj.injEq] at h
  obtain ⟨raw, hraw, rfl⟩ := h
  have hk := keys_canonF fs raw hraw
  have hp := keys_sortKV raw
  rw [hk] at hp
  exact ⟨strict_of_asc_nodup _ (sortKV_asc raw) (hp.nodup_iff.mpr hd), hp⟩

/-- C05.3 (hidden fields) the members of a manifested object are exactly the visible fields:
    same number, and a key is present iff the source has a visible field of that name -/
theorem canon_hidden_omitted (fs : List (List UInt8 × Bool × MV)) (kvs : List (List UInt8 × J))
    (h : canon (.obj fs) = some (.obj kvs)) :
    kvs.length = (fs.filter (fun f => !f.2.1)).length ∧
    ∀ k, (∃ j, (k, j) ∈ kvs) ↔ (∃ v, (k, false, v) ∈ fs) := by
  simp only [canon, Option.map_eq_some_iff, J.obj.injEq] at h
  obtain ⟨raw, hraw, rfl⟩ := h
  have key : ∀ (fs : List (List UInt8 × Bool × MV)) (raw : List (List UInt8 × J)),
      canonF fs = some raw →
      raw.length = (fs.filter (fun f => !f.2.1)).length ∧
      ∀ k, (∃ j, (k, j) ∈ raw) ↔ (∃ v, (k, false, v) ∈ fs) := by
    intro fs
    induction fs with
    | nil => intro raw h; simp [canonF] at h; subst h; simp
    | cons hd tl ih =>
      obtain ⟨k0, hidden, v0⟩ := hd
      intro raw h
      simp only [canonF] at h
      cases hidden with
      | true =>
        simp at h
        obtain ⟨h1, h2⟩ := ih raw h
        refine ⟨by simpa using h1, fun k => ?_⟩
        rw [h2 k]; simp
      | false =>
        simp only [Bool.false_eq_true, if_false] at h
        cases hx : canon v0 with
        | none => simp [hx] at h
        | some j0 =>
          cases ht : canonF tl with
          | none => simp [hx, ht] at h
          | some raw' =>
            simp [hx, ht] at h; subst h
            obtain ⟨h1, h2⟩ := ih raw' ht
            refine ⟨by simp [h1], fun k => ?_⟩
            constructor
            · rintro ⟨j, hj⟩
              rcases List.mem_cons.mp hj with hj | hj
              · obtain ⟨rfl, rfl⟩ := Prod.mk.inj hj
                exact ⟨v0, by simp⟩
              · obtain ⟨v, hv⟩ := (h2 k).mp ⟨j, hj⟩
                exact ⟨v, by simp [hv]⟩
            · rintro ⟨v, hv⟩
              rcases List.mem_cons.mp hv with hv | hv
              · obtain ⟨rfl, _, rfl⟩ : k = k0 ∧ True ∧ v = v0 := by
                  have := Prod.mk.inj hv; exact ⟨this.1, trivial, (Prod.mk.inj this.2).2⟩
                exact ⟨j0, by simp⟩
              · obtain ⟨j, hj⟩ := (h2 k).mpr ⟨v, hv⟩
                exact ⟨j, by simp [hj]⟩
  obtain ⟨h1, h2⟩ := key fs raw hraw
  refine ⟨by rw [length_sortKV, h1], fun k => ?_⟩
  rw [← h2 k]
  constructor
  · rintro ⟨j, hj⟩; exact ⟨j, (mem_sortKV raw _).mp hj⟩
  · rintro ⟨j, hj⟩; exact ⟨j, (mem_sortKV raw _).mpr hj⟩

/-- C05.4  a value is rejected ("tried to manifest function") exactly when a function sits in a
    visited position; in that case nothing is emitted, in every mode -/
theorem function_rejected (o : Opts) (fmt : Nat → List UInt8) (v : MV) :
    manifest o fmt v = none ↔ HasFunc v := by
  simp [manifest, func_aux v]

/-! ## non-vacuity -/

/-- a number printer for the example: `-0`, `1.5`, `9007199254740993` is not a double so
    2^53 + 2, and the largest double in positional notation is left to the correspondence run -/
def exFmt (d : Nat) : List UInt8 :=
  if d = 0x8000000000000000 then [0x2D, 0x30]                  -- -0
  else if d = 0x3FF8000000000000 then [0x31, 0x2E, 0x35]       -- 1.5
  else if d = 0x4340000000000001 then                          -- 2^53 + 2
    [0x39, 0x30, 0x30, 0x37, 0x31, 0x39, 0x39, 0x32, 0x35, 0x34, 0x37, 0x34, 0x30, 0x39, 0x39, 0x34]
  else if d = 0x0000000000000001 then                          -- 5e-324 written with an exponent
    [0x35, 0x65, 0x2D, 0x33, 0x32, 0x34]
  else [0x30]

/-- U+0000, `"`, `\`, U+007F, U+2028 (E2 80 A8), U+1F600 (F0 9F 98 80) -/
def exStr : List UInt8 := [0x00, 0x22, 0x5C, 0x7F, 0xE2, 0x80, 0xA8, 0xF0, 0x9F, 0x98, 0x80]

def exVal : J :=
  .obj [([0x61], .arr [.num 0x8000000000000000, .num 0x3FF8000000000000, .num 0x4340000000000001,
                       .num 0x0000000000000001, .num 0]),
        (exStr, .obj []), ([0x7A], .arr [.arr [], .str exStr, .null, .bool true])]

theorem exFmt_ok : NumsOK exFmt exVal := by
  have h : ∀ d ∈ [0x8000000000000000, 0x3FF8000000000000, 0x4340000000000001, 1, 0], NumOK exFmt d := by
    intro d hd
    simp only [List.mem_cons, List.not_mem_nil, or_false] at hd
    rcases hd with rfl | rfl | rfl | rfl | rfl
    all_goals exact ⟨⟨_, _, rfl, by decide⟩, by decide, by decide +kernel⟩
  simp only [exVal, NumsOK, NumsOKO, NumsOKL, and_true, true_and]
  exact ⟨h _ (by simp), h _ (by simp), h _ (by simp), h _ (by simp), h _ (by simp)⟩

/-- the hypotheses of `read_write` are met by a value with control/quote/backslash/DEL/U+2028/
    astral characters (also as a key), `-0`, an integer beyond 2^53, the smallest subnormal and
    nested empty containers, in the default and the minified mode -/
example : read (wVal defaultOpts exFmt [] exVal) = some exVal ∧
          read (wVal minifyOpts exFmt [] exVal) = some exVal :=
  ⟨read_write _ wsOpts_default _ _ exFmt_ok, read_write _ wsOpts_minify _ _ exFmt_ok⟩

/-- the distinct-names hypothesis of `canon_keys_strict` on an object with a hidden field -/
example : (([([0x62], false, MV.num 0), ([0x61], true, MV.func), ([0x41], false, MV.null)].filter
    (fun f => !f.2.1)).map (·.1)).Nodup := by decide

/-- a hidden field holding a function does not prevent manifestation; a visible one does -/
example : canon (.obj [([0x62], false, .num 0), ([0x61], true, .func)]) = some (.obj [([0x62], .num 0)]) ∧
          HasFunc (.obj [([0x62], false, .arr [.func])]) := by
  constructor
  · simp [canon, canonF, sortKV, insertKV]
  · simp [HasFunc, HasFuncF, HasFuncL]

end JrsVerif.Json
