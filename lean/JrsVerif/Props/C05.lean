/- C05: property theorems (not yet built). -/
