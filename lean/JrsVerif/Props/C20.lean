/- C20 — Formatting is idempotent and never crashes.   (weak partial: see checks/props/C20.py)

   Proved here, for all inputs:
   * the diagnostic branch of `format` (error-range arithmetic translated from the source +
     hi-doc's bound assertion) never panics and always yields the diagnostic;
   * `jrsonnet-fmt`'s convergence loop makes at most `conv_limit + 1` format calls, with
     `--conv-limit > 0` it can only finish on a fixed point, and `--test` accepts exactly the
     texts that one pass reproduces — in particular whatever `jrsonnet-fmt` printed, PROVIDED the
     layout engine is stable on it (`ft (z ++ "\n") = some z`).  That hypothesis — the layout fixed
     point itself — is NOT proved anywhere; it is only observed by the harness. -/
import JrsVerif.Model.FmtDiag
import JrsVerif.Proofs.FmtDiagSink

namespace JrsVerif.FmtDiag
open JrsVerif.Generated.FmtRange

/-- C20.1 the range arithmetic itself never fails, for ANY start/end/len -/
theorem errorRange_never_panics (s e len : Nat) : errorAnnotationRange s e len ≠ .panic := by
  unfold errorAnnotationRange checkedSub
  split <;> simp

/-- C20.1 (DESIGN `errorRange_total`): on a non-empty input every error gets an inclusive range
    `a ..= b` that is ordered and inside the text — the bound hi-doc asserts. -/
theorem errorRange_total (s e len : Nat) (hl : 0 < len) :
    ∃ a b, errorAnnotationRange s e len = .ok (some (a, b)) ∧ a ≤ b ∧ b < len := by
  unfold errorAnnotationRange checkedSub satSub
  have h1 : 1 ≤ len := hl
  simp only [h1, if_true]
  refine ⟨_, _, rfl, ?_, ?_⟩
  · exact Nat.min_le_right _ _
  · exact Nat.lt_of_le_of_lt (Nat.min_le_right _ _) (by omega)

/-- a non-empty error extent `s .. e` is annotated exactly (`s ..= e-1`) -/
theorem errorRange_covers (s e len : Nat) (h : s < e) (h2 : e ≤ len) :
    errorAnnotationRange s e len = .ok (some (s, e - 1)) := by
  unfold errorAnnotationRange checkedSub satSub
  have h1 : 1 ≤ len := by omega
  simp only [h1, if_true]
  have a : Nat.max (e - 1) s = e - 1 := Nat.max_eq_left (by omega)
  have b : Nat.min (e - 1) (len - 1) = e - 1 := Nat.min_eq_left (by omega)
  have c : Nat.min s (e - 1) = s := Nat.min_eq_left (by omega)
  rw [a, b, c]

/-- a zero-width error (missing token) inside the text points at the byte it stands before -/
theorem errorRange_point (s len : Nat) (h : s < len) :
    errorAnnotationRange s s len = .ok (some (s, s)) := by
  unfold errorAnnotationRange checkedSub satSub
  have h1 : 1 ≤ len := by omega
  simp only [h1, if_true]
  have a : Nat.max (s - 1) s = s := Nat.max_eq_right (by omega)
  have b : Nat.min s (len - 1) = s := Nat.min_eq_left (by omega)
  have c : Nat.min s s = s := Nat.min_eq_left (Nat.le_refl s)
  rw [a, b, c]

/-- a zero-width error at the end of input (every truncated program) is attached to the last byte
    (before the repair this range was `len ..= len` and hi-doc panicked) -/
theorem errorRange_at_end (len : Nat) (h : 0 < len) :
    errorAnnotationRange len len len = .ok (some (len - 1, len - 1)) := by
  unfold errorAnnotationRange checkedSub satSub
  have h1 : 1 ≤ len := h
  simp only [h1, if_true]
  have a : Nat.max (len - 1) len = len := Nat.max_eq_right (by omega)
  have b : Nat.min len (len - 1) = len - 1 := Nat.min_eq_right (by omega)
  rw [a, b, b]

/-- the empty input (`jrsonnet-fmt -e ''`, formerly `0 - 1` underflow) has no range to annotate -/
theorem errorRange_empty_input (s e : Nat) : errorAnnotationRange s e 0 = .ok none := by
  unfold errorAnnotationRange checkedSub; simp

theorem annotate_never_panics (len : Nat) (err : Nat × Nat) : annotate len err ≠ .panic := by
  unfold annotate
  cases hl : len with
  | zero => rw [errorRange_empty_input]; simp
  | succ n =>
    obtain ⟨a, b, h, _, hb⟩ := errorRange_total err.1 err.2 (n + 1) (by omega)
    rw [h]; simp [hiDocAccepts, hb]

/-- C20.1 the error branch of `format` reports a diagnostic for every error list and input
    length: none of `usize - 1`, `RangeInclusive`, hi-doc's `out of bounds annotation` is reached -/
theorem format_meets_spec (len : Nat) (errs : List (Nat × Nat)) :
    format len errs = formatSpec errs := by
  unfold format formatSpec
  split
  · rfl
  · induction errs with
    | nil => rfl
    | cons e es ih =>
      unfold annotateAll
      have h := annotate_never_panics len e
      have ih' : annotateAll len es = .diag := by
        cases es with
        | nil => rfl
        | cons e' es' => exact ih (by simp)
      cases ha : annotate len e <;> simp_all

theorem format_never_panics (len : Nat) (errs : List (Nat × Nat)) : format len errs ≠ .panic := by
  rw [format_meets_spec]; unfold formatSpec; split <;> simp

/-- non-vacuity: the three inputs that crashed before the repair -/
example : format 0 [(0, 0)] = .diag ∧ format 2 [(0, 0), (1, 2)] = .diag ∧ format 5 [(5, 5)] = .diag := by
  decide

end JrsVerif.FmtDiag

namespace JrsVerif.FmtMain

theorem loop_calls_le (ft : Text → Option Text) (limit : Nat) (x : Text) (it : Nat) :
    (loop ft limit x it).2 ≤ limit - it + 1 := by
  fun_induction loop ft limit x it with
  | case1 => omega
  | case2 => omega
  | case3 => omega
  | case4 => omega
  | case5 formatted iteration tmp _ _ _ hlt r ih =>
    have : ¬ limit < iteration + 1 := hlt
    show (loop ft limit tmp (iteration + 1)).2 + 1 ≤ limit - iteration + 1
    omega

/-- C20.3 `run_limit_terminates`: `main_result`'s loop is a total function (structural in
    `conv_limit - iteration`) and calls `format` at most `conv_limit + 1` times -/
theorem run_limit_terminates (ft : Text → Option Text) (limit : Nat) (x : Text) :
    (loop ft limit x 0).2 ≤ limit + 1 := by
  have := loop_calls_le ft limit x 0; omega

/-- without `--conv-limit` exactly one pass is made and its (trimmed) result is the output -/
theorem limit0_single_pass (ft : Text → Option Text) (x : Text) :
    loop ft 0 x 0 = (match ft x with | none => .parseError | some t => .done t, 1) := by
  unfold loop
  cases h : ft x with
  | none => rfl
  | some t =>
    simp only []
    by_cases hx : (x == t) = true
    · have : x = t := by simpa using hx
      subst this; simp
    · simp [hx]

/-- with `--conv-limit n`, n > 0, the loop only finishes on a fixed point of format∘trim
    (otherwise it ends in the `formatting not converged` assertion or a parse error) -/
theorem loop_done_fixpoint (ft : Text → Option Text) (limit : Nat) (hl : 0 < limit) (x : Text)
    (it : Nat) (f : Text) (h : (loop ft limit x it).1 = .done f) : ft f = some f := by
  fun_induction loop ft limit x it with
  | case1 => simp at h
  | case2 formatted iteration tmp hft heq =>
    have e : formatted = tmp := by simpa using heq
    simp only [Outcome.done.injEq] at h
    subst h; rw [hft, e]
  | case3 formatted iteration tmp hft hne hz =>
    have : limit = 0 := by simpa using hz
    omega
  | case4 => simp at h
  | case5 formatted iteration tmp hft hne hz hlt r ih => exact ih h

theorem snoc_ne (z : Text) : (z ++ ['\n'] == z) = false := by
  have : z ++ ['\n'] ≠ z := by
    intro h
    have := congrArg List.length h
    simp at this
  simpa using this

/-- C20.3 `test_accepts_fixpoint`: if one more pass over the produced file `z ++ "\n"` gives `z`
    again (layout stable; with `--conv-limit > 0` also on `z` itself), `--test` accepts it,
    exit code 0, whatever the conv-limit.  The hypothesis is the layout fixed point — observed by
    the harness, not proved. -/
theorem test_accepts_fixpoint (ft : Text → Option Text) (limit : Nat) (z : Text)
    (h1 : ft (z ++ ['\n']) = some z) (h2 : limit = 0 ∨ ft z = some z) :
    main ft limit true (z ++ ['\n']) = ⟨0, z ++ ['\n']⟩ := by
  have hl : (loop ft limit (z ++ ['\n']) 0).1 = .done z := by
    unfold loop
    simp only [h1, snoc_ne]
    by_cases hz : limit = 0
    · simp [hz]
    · have hf : ft z = some z := by cases h2 with | inl h => exact absurd h hz | inr h => exact h
      have hlt : ¬ limit < 0 + 1 := by omega
      have hz' : (limit == 0) = false := by simpa using hz
      simp only [hz', hlt]
      unfold loop
      simp [hf]
  unfold main
  rw [hl]
  simp

/-- what plain `jrsonnet-fmt` prints always ends in exactly one appended newline -/
theorem main_output_shape (ft : Text → Option Text) (limit : Nat) (test : Bool) (x y : Text)
    (h : main ft limit test x = ⟨0, y⟩) : ∃ z, (loop ft limit x 0).1 = .done z ∧ y = z ++ ['\n'] := by
  unfold main at h
  cases hl : (loop ft limit x 0).1 with
  | parseError => rw [hl] at h; simp at h
  | notConverged => rw [hl] at h; simp at h
  | done z =>
    rw [hl] at h
    refine ⟨z, rfl, ?_⟩
    simp only [] at h
    split at h
    · simp at h
    · simpa using h.symm

/-- C20 statement, last clause: "`jrsonnet-fmt --test` accepts what `jrsonnet-fmt` produced" —
    reduced to the stability of the layout on the produced text. -/
theorem produce_then_test_accepts (ft : Text → Option Text) (l l' : Nat) (x y : Text)
    (h : main ft l false x = ⟨0, y⟩)
    (stable : ∀ z, y = z ++ ['\n'] → ft y = some z ∧ (l' = 0 ∨ ft z = some z)) :
    main ft l' true y = ⟨0, y⟩ := by
  obtain ⟨z, _, hy⟩ := main_output_shape ft l false x y h
  obtain ⟨s1, s2⟩ := stable z hy
  subst hy
  exact test_accepts_fixpoint ft l' z s1 s2

/-- exact characterisation of `--test` without conv-limit: accepted iff one pass over the input
    returns the input minus its final newline (so a formatted file lacking the trailing newline is
    rejected, and so is any text the layout changes) -/
theorem test_accepts_iff (ft : Text → Option Text) (i : Text) :
    (main ft 0 true i).code = 0 ↔ ∃ z, ft i = some z ∧ z ++ ['\n'] = i := by
  unfold main
  rw [limit0_single_pass]
  cases h : ft i with
  | none => simp
  | some t =>
    simp only [Option.some.injEq, exists_eq_left']
    by_cases e : t ++ ['\n'] = i
    · simp [e]
    · simp [e]

/-- a parse error is exit code 1 with nothing printed, in every mode -/
theorem parse_error_exit (ft : Text → Option Text) (limit : Nat) (test : Bool) (x : Text)
    (h : ft x = none) : main ft limit test x = ⟨1, []⟩ := by
  unfold main loop; simp [h]

/-- non-vacuity for `test_accepts_fixpoint` / `produce_then_test_accepts`: a formatter that strips
    blanks is stable, its output is accepted; an unstable one (appends a char each pass) hits the
    conv-limit assertion -/
example :
    let ft : Text → Option Text := fun t => some (t.filter (fun c => c != ' ' && c != '\n'))
    main ft 0 false ['a', ' ', 'b', '\n'] = ⟨0, ['a', 'b', '\n']⟩ ∧
    main ft 3 true ['a', 'b', '\n'] = ⟨0, ['a', 'b', '\n']⟩ ∧
    main ft 0 true ['a', ' ', 'b', '\n'] = ⟨1, []⟩ ∧
    main (fun t => some (t ++ ['x'])) 2 false [] = ⟨101, []⟩ := by
  refine ⟨?_, ?_, ?_, ?_⟩ <;> simp [main, loop]

end JrsVerif.FmtMain

/-! ## The rowan parser's event protocol and tree builder (`event.rs: Sink::finish`, rowan's
    `GreenNodeBuilder`), the two trivia sites, and what "same tokens" means for the classifiers.
    Model: `Model/FmtDiagSink.lean`; tie: the REAL event list and lexemes of every generated input
    (cfg(jrsonnet_verif) hook) are run through `FmtSink.finish` and compared with the real tree. -/
namespace JrsVerif.FmtSink
open JrsVerif.Generated.FmtTrivia

/-- C20.2 the two places that decide what is trivia — `parse()`'s filter (lib.rs) and
    `Sink::skip_whitespace` (event.rs) — are extracted separately and name the same kinds.
    (`sink_code_complete` below needs exactly this.) -/
theorem trivia_sites_agree : ∀ k, sinkTriv k = parseTriv k := by
  have h : sinkSiteTrivia = parseSiteTrivia := by decide
  intro k; unfold sinkTriv parseTriv; rw [h]

/-- C20.2 `text_offset`'s `panic!("hard oob")` is dead code: for EVERY event list and lexeme list,
    whatever else happens, that site is not reached (`offset` never passes `lexemes.len()`). -/
theorem sink_never_hard_oob (triv : Nat → Bool) (evs : List Event) (lex : List Lexeme) :
    finish triv evs lex ≠ .error .hardOob := by
  unfold finish
  have h := go_post triv lex evs.length evs 0 {} ⟨Nat.zero_le _, rfl⟩
  cases hg : go triv lex evs.length evs 0 {} with
  | error p => rw [hg] at h; simp only []; intro hc; cases hc; exact h rfl
  | ok s =>
    simp only []
    cases hb : build s.ops.reverse [] [] with
    | error p =>
      simp only []
      intro hc; cases hc
      -- the builder has no such site
      have : ∀ ops st cur, build ops st cur ≠ .error .hardOob := by
        intro ops
        induction ops with
        | nil => intro st cur; unfold build; split <;> simp
        | cons o ops ih =>
          intro st cur
          cases o with
          | opn k => simpa [build] using ih _ _
          | tok k i => simpa [build] using ih _ _
          | cls =>
            unfold build
            cases st with
            | nil => simp
            | cons f st => simpa using ih _ _
      exact this _ _ _ hb
    | ok t => simp

/-- C20.2 `sink_yield`: whenever `Sink::finish` returns, the leaves of the tree it built are the
    lexemes `0, 1, .., off-1` — each given to the builder exactly once, in input order, none
    duplicated, none skipped, whatever the event list was (error recovery included).  So the text of
    the tree is a prefix of the input, byte for byte. -/
theorem sink_yield (triv : Nat → Bool) (evs : List Event) (lex : List Lexeme) (r : Parse)
    (h : finish triv evs lex = .ok r) : r.tree.leaves = List.range r.off ∧ r.off ≤ lex.length := by
  unfold finish at h
  have hp := go_post triv lex evs.length evs 0 {} ⟨Nat.zero_le _, rfl⟩
  cases hg : go triv lex evs.length evs 0 {} with
  | error p => rw [hg] at h; cases h
  | ok s =>
    rw [hg] at h hp
    simp only [] at h
    cases hb : build s.ops.reverse [] [] with
    | error p => rw [hb] at h; cases h
    | ok t =>
      rw [hb] at h; cases h
      have hl := build_leaves _ _ _ _ hb
      simp only [stackLeaves, Tree.leavesL, List.reverse_nil, List.nil_append] at hl
      refine ⟨?_, hp.1⟩
      show t.leaves = List.range s.off
      rw [hl, opToks_reverse, hp.2, List.reverse_reverse]

theorem tokenKinds_length (evs : List Event) : (tokenKinds evs).length = tkFrom evs 0 := by
  unfold tokenKinds tkFrom
  simp only [List.drop_zero]
  induction evs with
  | nil => rfl
  | cons e es ih => cases e <;> simp [List.filterMap_cons, List.countP_cons, Event.isToken, ih]

theorem parserKinds_length (triv : Nat → Bool) (lex : List Lexeme) :
    (parserKinds triv lex).length = nt triv lex lex.length := by
  unfold parserKinds nt
  rw [List.take_of_length_le (Nat.le_refl _), List.filter_map, List.length_map]
  rfl

theorem rest_is_trivia (triv : Nat → Bool) (lex : List Lexeme) (off : Nat)
    (h : nt triv lex off = nt triv lex lex.length) : ∀ l ∈ lex.drop off, triv l.kind = true := by
  unfold nt at h
  rw [List.take_of_length_le (Nat.le_refl _)] at h
  have hs : lex = lex.take off ++ lex.drop off := (List.take_append_drop off lex).symm
  rw [hs, List.filter_append, List.length_append] at h
  rw [← hs] at h
  have h0 : ((lex.drop off).filter (fun l => !triv l.kind)).length = 0 := by omega
  have := List.filter_eq_nil_iff.mp (List.eq_nil_of_length_eq_zero h0)
  intro l hl
  simpa using this l hl

/-- C20.2 `sink_code_complete` — the theorem that NEEDS the two trivia sites to agree.
    `ptriv` = what `parse()` filtered out before parsing, `triv` = what `skip_whitespace` re-attaches.
    If they agree, the parser's first event is the root `Start` (`Parser::parse` opens `m` first) and
    the parser emitted one `Token` per kind it was given (`tokenKinds evs` has the length of
    `parserKinds`), then everything the tree does not contain is trivia: no code lexeme is lost. -/
theorem sink_code_complete (triv ptriv : Nat → Bool) (agree : ∀ k, triv k = ptriv k)
    (evs : List Event) (lex : List Lexeme) (r : Parse)
    (hfirst : ∃ k fp, evs[0]? = some (.start k fp))
    (hcount : (tokenKinds evs).length = (parserKinds ptriv lex).length)
    (h : finish triv evs lex = .ok r) : ∀ l ∈ lex.drop r.off, triv l.kind = true := by
  have hfun : triv = ptriv := funext agree
  subst hfun
  unfold finish at h
  have hjk := go_jk triv lex evs.length (tkFrom evs 0) evs 0 {}
    ⟨rfl, fun _ => .inr hfirst, by simp [nt]⟩
  cases hg : go triv lex evs.length evs 0 {} with
  | error p => rw [hg] at h; cases h
  | ok s =>
    rw [hg] at h hjk
    simp only [] at h
    cases hb : build s.ops.reverse [] [] with
    | error p => rw [hb] at h; cases h
    | ok t =>
      rw [hb] at h; cases h
      apply rest_is_trivia
      show nt triv lex s.off = _
      have : nt triv lex s.off = tkFrom evs 0 := hjk
      rw [this, ← tokenKinds_length, hcount, parserKinds_length]

/-- C20.2 (part of DESIGN `sink_total`): under the same hypotheses with `≤` — the parser emitted at
    most one `Token` per kind it was given — `self.lexemes[self.offset]` in `Sink::token` is in bounds. -/
theorem sink_token_index_safe (triv ptriv : Nat → Bool) (agree : ∀ k, triv k = ptriv k)
    (evs : List Event) (lex : List Lexeme)
    (hfirst : ∃ k fp, evs[0]? = some (.start k fp))
    (hcount : (tokenKinds evs).length ≤ (parserKinds ptriv lex).length) :
    finish triv evs lex ≠ .error .lexemeIndex := by
  have hfun : triv = ptriv := funext agree
  subst hfun
  unfold finish
  have hjk := go_jk triv lex evs.length (tkFrom evs 0) evs 0 {}
    ⟨rfl, fun _ => .inr hfirst, by simp [nt]⟩
  cases hg : go triv lex evs.length evs 0 {} with
  | error p =>
    rw [hg] at hjk
    simp only []
    intro hc; cases hc
    have := hjk rfl
    rw [← tokenKinds_length, ← parserKinds_length] at this
    omega
  | ok s =>
    simp only []
    cases hb : build s.ops.reverse [] [] with
    | error p =>
      simp only []
      intro hc; cases hc
      have : ∀ ops st cur, build ops st cur ≠ .error .lexemeIndex := by
        intro ops
        induction ops with
        | nil => intro st cur; unfold build; split <;> simp
        | cons o ops ih =>
          intro st cur
          cases o with
          | opn k => simpa [build] using ih _ _
          | tok k i => simpa [build] using ih _ _
          | cls =>
            unfold build
            cases st with
            | nil => simp
            | cons f st => simpa using ih _ _
      exact this _ _ _ hb
    | ok t => simp

/-- C20.2 what goes wrong when the sites DISAGREE (the bug an independent tester planted): a kind
    (here 60 = ERROR_COMMENT_TOO_SHORT) that `parse()` filters out but `skip_whitespace` does not
    re-attach is taken for the next code token; the tree ends before the input does and the last
    code lexeme (index 2, kind 7) is not in it.  Events = what the parser emits for kinds `[7, 7]`. -/
theorem trivia_disagreement_loses_code :
    let lex : List Lexeme := [⟨7, 0, 1⟩, ⟨60, 1, 4⟩, ⟨7, 4, 5⟩]
    let evs : List Event := [.start 100 0, .token 7, .token 7, .finish 0 false]
    let ptriv : Nat → Bool := fun k => k == 56 || k == 60
    let striv : Nat → Bool := fun k => k == 56
    tokenKinds evs = parserKinds ptriv lex ∧
    finishOff ptriv evs lex = some 3 ∧ finishLeaves ptriv evs lex = some [0, 1, 2] ∧
    finishOff striv evs lex = some 2 ∧ finishLeaves striv evs lex = some [0, 1] := by
  decide +kernel

/-- non-vacuity of `sink_yield` / `sink_code_complete`: the event list of `a + b` (forward-parent
    chains 1→4→7 and 8→11, as the real parser emits it) with blanks around `+` is well-formed and
    yields all five lexemes -/
example :
    let lex : List Lexeme := [⟨72, 0, 1⟩, ⟨56, 1, 2⟩, ⟨21, 2, 3⟩, ⟨56, 3, 4⟩, ⟨72, 4, 5⟩]
    let evs : List Event :=
      [.start 150 0, .start 120 3, .token 72, .finish 0 false, .start 110 3, .finish 0 false, .token 21,
       .start 121 0, .start 120 3, .token 72, .finish 0 false, .start 110 0, .finish 0 false,
       .finish 0 false, .finish 0 false]
    wfb parseTriv evs lex = true ∧ finishOff sinkTriv evs lex = some 5 ∧
    finishLeaves sinkTriv evs lex = some [0, 1, 2, 3, 4] := by
  decide +kernel

/-- Marker API hazard the drop-bomb does NOT exclude: `forget` on the marker returned by `precede`
    leaves a `forward_parent` pointing at a `Noop`: the list is not pointer-well-formed and
    `Sink::finish` reaches `unreachable!()`.  (parser.rs completes every marker it gets from `precede`.) -/
theorem forget_after_precede_reaches_unreachable :
    (do
      let (e, m0) := Marker.start []
      let e := Marker.bump e 7
      let (e, s, _) ← Marker.complete e m0 120 false
      let (e, m) ← Marker.precede e s
      let e ← Marker.forget e m
      pure (ptrOKb e, finishPanic sinkTriv e [⟨7, 0, 1⟩])) = some (false, some .unreachableStart) := by
  decide +kernel

/-- the Marker API calls `expr` / `expr_binding_power` make for `a + b` (start, bump, complete,
    wrap(EXPR, false), precede, complete ..) produce exactly the event list of the example above:
    well-formed, and the sink consumes all five lexemes -/
theorem marker_api_binary_wf :
    (do
      let (e, root) := Marker.start []
      let (e, m) := Marker.start e
      let e := Marker.bump e 72
      let (e, s, f) ← Marker.complete e m 120 false
      let (e, s, _) ← Marker.wrap e s f 110 false false
      let e := Marker.bump e 21
      let (e, m) ← Marker.precede e s
      let (e, m2) := Marker.start e
      let e := Marker.bump e 72
      let (e, s2, _) ← Marker.complete e m2 120 false
      let (e, m3) ← Marker.precede e s2
      let (e, _, _) ← Marker.complete e m3 110 false
      let (e, _, _) ← Marker.complete e m 121 false
      let (e, _, _) ← Marker.complete e root 150 false
      let lex : List Lexeme := [⟨72, 0, 1⟩, ⟨56, 1, 2⟩, ⟨21, 2, 3⟩, ⟨56, 3, 4⟩, ⟨72, 4, 5⟩]
      pure (e, wfb parseTriv e lex, finishOff sinkTriv e lex)) =
    some ([.start 150 0, .start 120 3, .token 72, .finish 0 false, .start 110 3, .finish 0 false, .token 21,
       .start 121 0, .start 120 3, .token 72, .finish 0 false, .start 110 0, .finish 0 false,
       .finish 0 false, .finish 0 false], true, some 5) := by
  decide +kernel

/-- `wrap(kind, previous_pos = true)` (TRUE_EXPR / FALSE_EXPR / SLICE_DESC_* / error wrappers): the
    wrapper `Finish` is reached through `wrapper`, both nodes close at the wrapped node's end -/
theorem marker_api_wrap_prev_wf :
    (do
      let (e, root) := Marker.start []
      let (e, m) := Marker.start e
      let e := Marker.bump e 72
      let (e, s, f) ← Marker.complete e m 120 false
      let (e, _, _) ← Marker.wrap e s f 130 true true
      let e := Marker.bump e 21
      let (e, _, _) ← Marker.complete e root 150 false
      let lex : List Lexeme := [⟨72, 0, 1⟩, ⟨56, 1, 2⟩, ⟨21, 2, 3⟩]
      pure (e, wfb parseTriv e lex, finishOff sinkTriv e lex)) =
    some ([.start 150 0, .start 120 3, .token 72, .finish 2 false, .start 130 0, .finish 0 true, .token 21,
       .finish 0 false], true, some 3) := by
  decide +kernel

/-- C20 (classifiers) MEANING of "same tokens": `SameTok` = the non-trivia lexemes (kind and text)
    of the two texts are the same sequence.  The check the driver runs on the real lexer's output of
    both formatter passes (`sameTokB`, two cursors) decides exactly that. -/
theorem same_tokens_check_sound (triv : Nat → Bool) (a b : List KT) :
    sameTokB triv a b = true ↔ SameTok triv a b := sameTokB_iff triv a b

/-- the comma-tolerant variant the layout classifiers use: the driver's check decides `SameTokC`
    (equal non-trivia lexeme sequences after dropping `,` before `)`, `]`, `}`) -/
theorem same_tokens_mod_comma_sound (triv : Nat → Bool) (comma : Nat) (closers : List Nat) (a b : List KT) :
    sameTokCB triv comma closers a b = true ↔ SameTokC triv comma closers a b := by
  unfold sameTokCB SameTokC
  rw [sameTokB_iff]
  unfold SameTok codeToks
  have hf : ∀ l : List KT, l.filter (fun _ => true) = l := fun l => List.filter_eq_self.mpr (by simp)
  simp only [Bool.not_false, hf]

/-- strict "same tokens" implies the comma-tolerant one (so a case Lean rejects under `SameTokC`
    changed a real code token) -/
theorem same_tokens_strict_implies_mod_comma (triv : Nat → Bool) (comma : Nat) (closers : List Nat)
    (a b : List KT) (h : SameTok triv a b) : SameTokC triv comma closers a b := by
  unfold SameTokC; unfold SameTok at h; rw [h]

/-- same tokens is an equivalence that ignores every trivia lexeme: inserting or deleting trivia
    anywhere on either side does not change the verdict -/
theorem same_tokens_ignores_trivia (triv : Nat → Bool) (a1 a2 b : List KT) (t : KT) (ht : triv t.1 = true) :
    SameTok triv (a1 ++ t :: a2) b ↔ SameTok triv (a1 ++ a2) b := by
  unfold SameTok codeToks
  simp [List.filter_append, ht]

end JrsVerif.FmtSink
