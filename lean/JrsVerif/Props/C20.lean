/- C20 — Formatting is idempotent and never crashes.   (weak partial: see checks/props/C20.py)

   Proved here, for all inputs:
   * the diagnostic branch of `format` (error-range arithmetic translated from the source +
     hi-doc's bound assertion) never panics and always yields the diagnostic;
   * `jrsonnet-fmt`'s convergence loop makes at most `conv_limit + 1` format calls, with
     `--conv-limit > 0` it can only finish on a fixed point, and `--test` accepts exactly the
     texts that one pass reproduces — in particular whatever `jrsonnet-fmt` printed, PROVIDED the
     layout engine is stable on it (`ft (z ++ "\n") = some z`).  That hypothesis — the layout fixed
     point itself — is NOT proved anywhere; it is only observed by the harness. -/
import JrsVerif.Model.FmtDiag

namespace JrsVerif.FmtDiag
open JrsVerif.Generated.FmtRange

/-- C20.1 the range arithmetic itself never fails, for ANY start/end/len -/
theorem errorRange_never_panics (s e len : Nat) : errorAnnotationRange s e len ≠ .panic := by
  unfold errorAnnotationRange checkedSub
  split <;> simp

/-- C20.1 (DESIGN `errorRange_total`): on a non-empty input every error gets an inclusive range
    `a ..= b` that is ordered and inside the text — the bound hi-doc asserts. -/
theorem errorRange_total (s e len : Nat) (hl : 0 < len) :
    ∃ a b, errorAnnotationRange s e len = .ok (some (a, b)) ∧ a ≤ b ∧ b < len := by
  unfold errorAnnotationRange checkedSub satSub
  have h1 : 1 ≤ len := hl
  simp only [h1, if_true]
  refine ⟨_, _, rfl, ?_, ?_⟩
  · exact Nat.min_le_right _ _
  · exact Nat.lt_of_le_of_lt (Nat.min_le_right _ _) (by omega)

/-- a non-empty error extent `s .. e` is annotated exactly (`s ..= e-1`) -/
theorem errorRange_covers (s e len : Nat) (h : s < e) (h2 : e ≤ len) :
    errorAnnotationRange s e len = .ok (some (s, e - 1)) := by
  unfold errorAnnotationRange checkedSub satSub
  have h1 : 1 ≤ len := by omega
  simp only [h1, if_true]
  have a : Nat.max (e - 1) s = e - 1 := Nat.max_eq_left (by omega)
  have b : Nat.min (e - 1) (len - 1) = e - 1 := Nat.min_eq_left (by omega)
  have c : Nat.min s (e - 1) = s := Nat.min_eq_left (by omega)
  rw [a, b, c]

/-- a zero-width error (missing token) inside the text points at the byte it stands before -/
theorem errorRange_point (s len : Nat) (h : s < len) :
    errorAnnotationRange s s len = .ok (some (s, s)) := by
  unfold errorAnnotationRange checkedSub satSub
  have h1 : 1 ≤ len := by omega
  simp only [h1, if_true]
  have a : Nat.max (s - 1) s = s := Nat.max_eq_right (by omega)
  have b : Nat.min s (len - 1) = s := Nat.min_eq_left (by omega)
  have c : Nat.min s s = s := Nat.min_eq_left (Nat.le_refl s)
  rw [a, b, c]

/-- a zero-width error at the end of input (every truncated program) is attached to the last byte
    (before the repair this range was `len ..= len` and hi-doc panicked) -/
theorem errorRange_at_end (len : Nat) (h : 0 < len) :
    errorAnnotationRange len len len = .ok (some (len - 1, len - 1)) := by
  unfold errorAnnotationRange checkedSub satSub
  have h1 : 1 ≤ len := h
  simp only [h1, if_true]
  have a : Nat.max (len - 1) len = len := Nat.max_eq_right (by omega)
  have b : Nat.min len (len - 1) = len - 1 := Nat.min_eq_right (by omega)
  rw [a, b, b]

/-- the empty input (`jrsonnet-fmt -e ''`, formerly `0 - 1` underflow) has no range to annotate -/
theorem errorRange_empty_input (s e : Nat) : errorAnnotationRange s e 0 = .ok none := by
  unfold errorAnnotationRange checkedSub; simp

theorem annotate_never_panics (len : Nat) (err : Nat × Nat) : annotate len err ≠ .panic := by
  unfold annotate
  cases hl : len with
  | zero => rw [errorRange_empty_input]; simp
  | succ n =>
    obtain ⟨a, b, h, _, hb⟩ := errorRange_total err.1 err.2 (n + 1) (by omega)
    rw [h]; simp [hiDocAccepts, hb]

/-- C20.1 the error branch of `format` reports a diagnostic for every error list and input
    length: none of `usize - 1`, `RangeInclusive`, hi-doc's `out of bounds annotation` is reached -/
theorem format_meets_spec (len : Nat) (errs : List (Nat × Nat)) :
    format len errs = formatSpec errs := by
  unfold format formatSpec
  split
  · rfl
  · induction errs with
    | nil => rfl
    | cons e es ih =>
      unfold annotateAll
      have h := annotate_never_panics len e
      have ih' : annotateAll len es = .diag := by
        cases es with
        | nil => rfl
        | cons e' es' => exact ih (by simp)
      cases ha : annotate len e <;> simp_all

theorem format_never_panics (len : Nat) (errs : List (Nat × Nat)) : format len errs ≠ .panic := by
  rw [format_meets_spec]; unfold formatSpec; split <;> simp

/-- non-vacuity: the three inputs that crashed before the repair -/
example : format 0 [(0, 0)] = .diag ∧ format 2 [(0, 0), (1, 2)] = .diag ∧ format 5 [(5, 5)] = .diag := by
  decide

end JrsVerif.FmtDiag

namespace JrsVerif.FmtMain

theorem loop_calls_le (ft : Text → Option Text) (limit : Nat) (x : Text) (it : Nat) :
    (loop ft limit x it).2 ≤ limit - it + 1 := by
  fun_induction loop ft limit x it with
  | case1 => omega
  | case2 => omega
  | case3 => omega
  | case4 => omega
  | case5 formatted iteration tmp _ _ _ hlt r ih =>
    have : ¬ limit < iteration + 1 := hlt
    show (loop ft limit tmp (iteration + 1)).2 + 1 ≤ limit - iteration + 1
    omega

/-- C20.3 `run_limit_terminates`: `main_result`'s loop is a total function (structural in
    `conv_limit - iteration`) and calls `format` at most `conv_limit + 1` times -/
theorem run_limit_terminates (ft : Text → Option Text) (limit : Nat) (x : Text) :
    (loop ft limit x 0).2 ≤ limit + 1 := by
  have := loop_calls_le ft limit x 0; omega

/-- without `--conv-limit` exactly one pass is made and its (trimmed) result is the output -/
theorem limit0_single_pass (ft : Text → Option Text) (x : Text) :
    loop ft 0 x 0 = (match ft x with | none => .parseError | some t => .done t, 1) := by
  unfold loop
  cases h : ft x with
  | none => rfl
  | some t =>
    simp only []
    by_cases hx : (x == t) = true
    · have : x = t := by simpa using hx
      subst this; simp
    · simp [hx]

/-- with `--conv-limit n`, n > 0, the loop only finishes on a fixed point of format∘trim
    (otherwise it ends in the `formatting not converged` assertion or a parse error) -/
theorem loop_done_fixpoint (ft : Text → Option Text) (limit : Nat) (hl : 0 < limit) (x : Text)
    (it : Nat) (f : Text) (h : (loop ft limit x it).1 = .done f) : ft f = some f := by
  fun_induction loop ft limit x it with
  | case1 => simp at h
  | case2 formatted iteration tmp hft heq =>
    have e : formatted = tmp := by simpa using heq
    simp only [Outcome.done.injEq] at h
    subst h; rw [hft, e]
  | case3 formatted iteration tmp hft hne hz =>
    have : limit = 0 := by simpa using hz
    omega
  | case4 => simp at h
  | case5 formatted iteration tmp hft hne hz hlt r ih => exact ih h

theorem snoc_ne (z : Text) : (z ++ ['\n'] == z) = false := by
  have : z ++ ['\n'] ≠ z := by
    intro h
    have := congrArg List.length h
    simp at this
  simpa using this

/-- C20.3 `test_accepts_fixpoint`: if one more pass over the produced file `z ++ "\n"` gives `z`
    again (layout stable; with `--conv-limit > 0` also on `z` itself), `--test` accepts it,
    exit code 0, whatever the conv-limit.  The hypothesis is the layout fixed point — observed by
    the harness, not proved. -/
theorem test_accepts_fixpoint (ft : Text → Option Text) (limit : Nat) (z : Text)
    (h1 : ft (z ++ ['\n']) = some z) (h2 : limit = 0 ∨ ft z = some z) :
    main ft limit true (z ++ ['\n']) = ⟨0, z ++ ['\n']⟩ := by
  have hl : (loop ft limit (z ++ ['\n']) 0).1 = .done z := by
    unfold loop
    simp only [h1, snoc_ne]
    by_cases hz : limit = 0
    · simp [hz]
    · have hf : ft z = some z := by cases h2 with | inl h => exact absurd h hz | inr h => exact h
      have hlt : ¬ limit < 0 + 1 := by omega
      have hz' : (limit == 0) = false := by simpa using hz
      simp only [hz', hlt]
      unfold loop
      simp [hf]
  unfold main
  rw [hl]
  simp

/-- what plain `jrsonnet-fmt` prints always ends in exactly one appended newline -/
theorem main_output_shape (ft : Text → Option Text) (limit : Nat) (test : Bool) (x y : Text)
    (h : main ft limit test x = ⟨0, y⟩) : ∃ z, (loop ft limit x 0).1 = .done z ∧ y = z ++ ['\n'] := by
  unfold main at h
  cases hl : (loop ft limit x 0).1 with
  | parseError => rw [hl] at h; simp at h
  | notConverged => rw [hl] at h; simp at h
  | done z =>
    rw [hl] at h
    refine ⟨z, rfl, ?_⟩
    simp only [] at h
    split at h
    · simp at h
    · simpa using h.symm

/-- C20 statement, last clause: "`jrsonnet-fmt --test` accepts what `jrsonnet-fmt` produced" —
    reduced to the stability of the layout on the produced text. -/
theorem produce_then_test_accepts (ft : Text → Option Text) (l l' : Nat) (x y : Text)
    (h : main ft l false x = ⟨0, y⟩)
    (stable : ∀ z, y = z ++ ['\n'] → ft y = some z ∧ (l' = 0 ∨ ft z = some z)) :
    main ft l' true y = ⟨0, y⟩ := by
  obtain ⟨z, _, hy⟩ := main_output_shape ft l false x y h
  obtain ⟨s1, s2⟩ := stable z hy
  subst hy
  exact test_accepts_fixpoint ft l' z s1 s2

/-- exact characterisation of `--test` without conv-limit: accepted iff one pass over the input
    returns the input minus its final newline (so a formatted file lacking the trailing newline is
    rejected, and so is any text the layout changes) -/
theorem test_accepts_iff (ft : Text → Option Text) (i : Text) :
    (main ft 0 true i).code = 0 ↔ ∃ z, ft i = some z ∧ z ++ ['\n'] = i := by
  unfold main
  rw [limit0_single_pass]
  cases h : ft i with
  | none => simp
  | some t =>
    simp only [Option.some.injEq, exists_eq_left']
    by_cases e : t ++ ['\n'] = i
    · simp [e]
    · simp [e]

/-- a parse error is exit code 1 with nothing printed, in every mode -/
theorem parse_error_exit (ft : Text → Option Text) (limit : Nat) (test : Bool) (x : Text)
    (h : ft x = none) : main ft limit test x = ⟨1, []⟩ := by
  unfold main loop; simp [h]

/-- non-vacuity for `test_accepts_fixpoint` / `produce_then_test_accepts`: a formatter that strips
    blanks is stable, its output is accepted; an unstable one (appends a char each pass) hits the
    conv-limit assertion -/
example :
    let ft : Text → Option Text := fun t => some (t.filter (fun c => c != ' ' && c != '\n'))
    main ft 0 false ['a', ' ', 'b', '\n'] = ⟨0, ['a', 'b', '\n']⟩ ∧
    main ft 3 true ['a', 'b', '\n'] = ⟨0, ['a', 'b', '\n']⟩ ∧
    main ft 0 true ['a', ' ', 'b', '\n'] = ⟨1, []⟩ ∧
    main (fun t => some (t ++ ['x'])) 2 false [] = ⟨101, []⟩ := by
  refine ⟨?_, ?_, ?_, ?_⟩ <;> simp [main, loop]

end JrsVerif.FmtMain
