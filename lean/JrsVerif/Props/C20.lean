/- C20: property theorems (not yet built). -/
