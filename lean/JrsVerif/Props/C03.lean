/- C03: property theorems (not yet built). -/
