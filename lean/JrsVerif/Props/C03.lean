/- C03 — Evaluation is call-by-need: nothing unneeded runs, nothing shared runs twice (partial).
   (1) the memo automaton behind thunks, array cells and the object field cache: for EVERY history
       of (re-entrant) reads the body runs at most once, later reads repeat the first result, a
       read during evaluation is reported as infinite recursion and does not disturb the cell;
   (2) neededness in the definitional interpreter: the branch not taken and the right operand of a
       short-circuited `&&`/`||` cannot influence the outcome, the store or the trace. -/
import JrsVerif.Model.Thunk
import JrsVerif.Model.Eval

namespace JrsVerif.Thunk

/-- reachable states: `pending` is entered only through a start -/
theorem step_starts_only_from_waiting (s : St) (e : Ev) : (step s e).2 = .started → s = .waiting := by
  cases s <;> cases e <;> simp [step]
  all_goals (rename_i r; cases r <;> simp [step])

theorem step_leaves_waiting (s : St) (e : Ev) : (step s e).1 = .waiting → s = .waiting := by
  cases s <;> cases e <;> simp [step]
  all_goals (rename_i r; cases r <;> simp [step])

/-- C03.1a  for every history from any state that is not `waiting`, the body never starts;
    from `waiting` it starts at most once -/
theorem run_starts_le (s : St) (es : List Ev) :
    starts (run s es).2 ≤ (if s = .waiting then 1 else 0) := by
  induction es generalizing s with
  | nil => simp [run, starts]
  | cons e es ih =>
    simp only [run]
    have h1 := ih (step s e).1
    cases s <;> cases e <;> simp_all [step, starts, List.filter_cons]
    all_goals first
      | omega
      | (rename_i r; cases r <;> simp_all [step] <;> omega)

/-- C03.1  "evaluated at most once however many times it is used": in any history of reads,
    re-entrant or not, on a fresh cell the body is started at most once. -/
theorem thunk_runs_once (es : List Ev) : starts (run .waiting es).2 ≤ 1 := by
  simpa using run_starts_le .waiting es

/-- C03.1b  once a result is stored, every later read returns it and nothing changes -/
theorem thunk_stable (s : St) (r : Res) (h : final? s = some r) (es : List Ev) :
    (run s es).1 = s ∧ ∀ o ∈ (run s es).2, o = .answer r ∨ o = .bad := by
  induction es with
  | nil => simp [run]
  | cons e es ih =>
    cases s with
    | waiting => simp [final?] at h
    | pending => simp [final?] at h
    | computed v =>
      simp only [final?, Option.some.injEq] at h
      subst h
      cases e <;> simp_all [run, step]
    | errored x =>
      simp only [final?, Option.some.injEq] at h
      subst h
      cases e <;> simp_all [run, step]

/-- C03.1c  a read while the body is running is reported as infinite recursion and leaves the
    cell pending, so the outer evaluation still completes normally -/
theorem thunk_reentrant (r : Res) :
    step .pending .get = (.pending, .answer .infrec) ∧
    (step (step .pending .get).1 (.ret r)).2 = .completed r ∧
    final? (step .pending (.ret r)).1 = some r := by
  cases r <;> simp [step, final?]

/-- a value that depends on itself: the first read starts the body, the body reads the cell again
    and gets `infrec`, which becomes the stored result (C04 "reported as infinite recursion") -/
theorem self_dependent_is_infrec :
    (run .waiting [.get, .get, .ret .infrec, .get]).2
      = [.started, .answer .infrec, .completed .infrec, .answer .infrec] := by
  decide

/-- the scripted closure used by the harness is an instance of the automaton -/
theorem getScripted_eq_run (sc : Script) :
    let evs := Ev.get :: (List.replicate sc.reenters Ev.get ++ [Ev.ret sc.final])
    (getScripted .waiting sc).1 = (run .waiting evs).1 := by
  simp only [getScripted]
  have hrep : ∀ n es, run .pending (List.replicate n Ev.get ++ es)
      = ((run .pending es).1, List.replicate n (Out.answer .infrec) ++ (run .pending es).2) := by
    intro n es
    induction n with
    | zero => simp
    | succ n ih => simp [List.replicate_succ, run, step, ih]
  cases hf : sc.final <;> simp [run, step, hrep]

/-! #### keyed cells: a read of one key never touches another (arrays, object cache) -/

/-- C03.2  frame property: events on key `k` leave every other cell unchanged, so two reads by
    the same access path (same key) hit the same cell and reads by different paths are independent -/
theorem stepK_frame {κ : Type} [DecidableEq κ] (c : Cells κ) (k k' : κ) (e : Ev) (h : k' ≠ k) :
    (stepK c k e).1 k' = c k' := by
  simp [stepK, h]

theorem stepK_same {κ : Type} [DecidableEq κ] (c : Cells κ) (k : κ) (e : Ev) :
    (stepK c k e).1 k = (step (c k) e).1 ∧ (stepK c k e).2 = (step (c k) e).2 := by
  simp [stepK]

/-- per key, a keyed history is the automaton's history of that key's events -/
theorem runK_project {κ : Type} [DecidableEq κ] (c : Cells κ) (es : List (κ × Ev)) (k : κ) :
    (runK c es).1 k = (run (c k) ((es.filter (fun p => p.1 = k)).map (·.2))).1 := by
  induction es generalizing c with
  | nil => simp [runK, run]
  | cons p es ih =>
    obtain ⟨k0, e⟩ := p
    simp only [runK]
    rw [ih]
    by_cases hk : k0 = k
    · subst hk
      simp [List.filter_cons, run, (stepK_same c k0 e).1]
    · have : (stepK c k0 e).1 k = c k := stepK_frame c k0 k e (Ne.symm hk)
      simp [List.filter_cons, hk, this]

/-- hence every cell of an array / every (field, layer) cache entry runs its body at most once,
    for every interleaved history over all keys -/
theorem cells_run_once {κ : Type} [DecidableEq κ] (es : List (κ × Ev)) (k : κ) :
    starts (run .waiting ((es.filter (fun p => p.1 = k)).map (·.2))).2 ≤ 1 :=
  thunk_runs_once _

end JrsVerif.Thunk

namespace JrsVerif.Eval

/-- C03.3a  the branch not taken is not needed: when the condition evaluates to `true`, the
    whole outcome — value or error, store, trace — is the same whatever the `else` branch is -/
theorem if_else_branch_unneeded (n : Nat) (c : Ctx) (cnd t e e' : Expr) (s s' : St)
    (h : (run n (.eval c cnd)).run.run s = (.ok (.val (.bool true)), s')) :
    (run (n + 1) (.eval c (.ifE cnd t (some e)))).run.run s
      = (run (n + 1) (.eval c (.ifE cnd t (some e')))).run.run s := by
  simp only [run, expectVal, bind, ExceptT.bind, ExceptT.mk, ExceptT.run, StateT.bind, StateT.run,
    ExceptT.bindCont] at h ⊢
  simp only [h, pure, ExceptT.pure, ExceptT.mk, StateT.pure]

theorem if_then_branch_unneeded (n : Nat) (c : Ctx) (cnd t t' e : Expr) (s s' : St)
    (h : (run n (.eval c cnd)).run.run s = (.ok (.val (.bool false)), s')) :
    (run (n + 1) (.eval c (.ifE cnd t (some e)))).run.run s
      = (run (n + 1) (.eval c (.ifE cnd t' (some e)))).run.run s := by
  simp only [run, expectVal, bind, ExceptT.bind, ExceptT.mk, ExceptT.run, StateT.bind, StateT.run,
    ExceptT.bindCont] at h ⊢
  simp only [h, pure, ExceptT.pure, ExceptT.mk, StateT.pure]

/-- C03.3b  `false && e` and `true || e` do not need `e` -/
theorem and_short_circuit (n : Nat) (c : Ctx) (a b b' : Expr) (s s' : St)
    (h : (run n (.eval c a)).run.run s = (.ok (.val (.bool false)), s')) :
    (run (n + 1) (.eval c (.binary .and a b))).run.run s
      = (run (n + 1) (.eval c (.binary .and a b'))).run.run s := by
  simp only [run, expectVal, bind, ExceptT.bind, ExceptT.mk, ExceptT.run, StateT.bind, StateT.run,
    ExceptT.bindCont] at h ⊢
  simp only [h, pure, ExceptT.pure, ExceptT.mk, StateT.pure]

theorem or_short_circuit (n : Nat) (c : Ctx) (a b b' : Expr) (s s' : St)
    (h : (run n (.eval c a)).run.run s = (.ok (.val (.bool true)), s')) :
    (run (n + 1) (.eval c (.binary .or a b))).run.run s
      = (run (n + 1) (.eval c (.binary .or a b'))).run.run s := by
  simp only [run, expectVal, bind, ExceptT.bind, ExceptT.mk, ExceptT.run, StateT.bind, StateT.run,
    ExceptT.bindCont] at h ⊢
  simp only [h, pure, ExceptT.pure, ExceptT.mk, StateT.pure]

end JrsVerif.Eval
