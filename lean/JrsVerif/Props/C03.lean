/- C03 — Evaluation is call-by-need: nothing unneeded runs, nothing shared runs twice (partial).
   (1) the memo automaton behind thunks, array cells and the object field cache: for EVERY history
       of (re-entrant) reads the body runs at most once, later reads repeat the first result, a
       read during evaluation is reported as infinite recursion and does not disturb the cell;
   (2) neededness in the definitional interpreter: the branch not taken and the right operand of a
       short-circuited `&&`/`||` cannot influence the outcome, the store or the trace;
   (3) (round 3) store invariants of the WHOLE interpreter `Eval.run`, every Task and Expr case
       (Proofs/EvalNeedStore, EvalNeedRun: `run_good`, induction on fuel):
       - the store only moves forward (cells/objects appended, a touched cell never changes, the
         trace only grows) — hence `force` is idempotent: a cell that produced a value or an error
         repeats it for ever, from every later store, without running anything;
       - a thunk cell that is still unevaluated at the end of a run was unobservable: its content
         can be replaced by anything (`Sim`) — hence unused `local` bindings, unread array elements;
       - a call that supplies a parameter never looks at that parameter's default. -/
import JrsVerif.Model.Thunk
import JrsVerif.Model.Eval
import JrsVerif.Proofs.EvalNeedUnused

namespace JrsVerif.Thunk

/-- reachable states: `pending` is entered only through a start -/
theorem step_starts_only_from_waiting (s : St) (e : Ev) : (step s e).2 = .started → s = .waiting := by
  cases s <;> cases e <;> simp [step]
  all_goals (rename_i r; cases r <;> simp [step])

theorem step_leaves_waiting (s : St) (e : Ev) : (step s e).1 = .waiting → s = .waiting := by
  cases s <;> cases e <;> simp [step]
  all_goals (rename_i r; cases r <;> simp [step])

/-- C03.1a  for every history from any state that is not `waiting`, the body never starts;
    from `waiting` it starts at most once -/
theorem run_starts_le (s : St) (es : List Ev) :
    starts (run s es).2 ≤ (if s = .waiting then 1 else 0) := by
  induction es generalizing s with
  | nil => simp [run, starts]
  | cons e es ih =>
    simp only [run]
    have h1 := ih (step s e).1
    cases s <;> cases e <;> simp_all [step, starts, List.filter_cons]
    all_goals first
      | omega
      | (rename_i r; cases r <;> simp_all [step] <;> omega)

/-- C03.1  "evaluated at most once however many times it is used": in any history of reads,
    re-entrant or not, on a fresh cell the body is started at most once. -/
theorem thunk_runs_once (es : List Ev) : starts (run .waiting es).2 ≤ 1 := by
  simpa using run_starts_le .waiting es

/-- C03.1b  once a result is stored, every later read returns it and nothing changes -/
theorem thunk_stable (s : St) (r : Res) (h : final? s = some r) (es : List Ev) :
    (run s es).1 = s ∧ ∀ o ∈ (run s es).2, o = .answer r ∨ o = .bad := by
  induction es with
  | nil => simp [run]
  | cons e es ih =>
    cases s with
    | waiting => simp [final?] at h
    | pending => simp [final?] at h
    | computed v =>
      simp only [final?, Option.some.injEq] at h
      subst h
      cases e <;> simp_all [run, step]
    | errored x =>
      simp only [final?, Option.some.injEq] at h
      subst h
      cases e <;> simp_all [run, step]

/-- C03.1c  a read while the body is running is reported as infinite recursion and leaves the
    cell pending, so the outer evaluation still completes normally -/
theorem thunk_reentrant (r : Res) :
    step .pending .get = (.pending, .answer .infrec) ∧
    (step (step .pending .get).1 (.ret r)).2 = .completed r ∧
    final? (step .pending (.ret r)).1 = some r := by
  cases r <;> simp [step, final?]

/-- a value that depends on itself: the first read starts the body, the body reads the cell again
    and gets `infrec`, which becomes the stored result (C04 "reported as infinite recursion") -/
theorem self_dependent_is_infrec :
    (run .waiting [.get, .get, .ret .infrec, .get]).2
      = [.started, .answer .infrec, .completed .infrec, .answer .infrec] := by
  decide

/-- the scripted closure used by the harness is an instance of the automaton -/
theorem getScripted_eq_run (sc : Script) :
    let evs := Ev.get :: (List.replicate sc.reenters Ev.get ++ [Ev.ret sc.final])
    (getScripted .waiting sc).1 = (run .waiting evs).1 := by
  simp only [getScripted]
  have hrep : ∀ n es, run .pending (List.replicate n Ev.get ++ es)
      = ((run .pending es).1, List.replicate n (Out.answer .infrec) ++ (run .pending es).2) := by
    intro n es
    induction n with
    | zero => simp
    | succ n ih => simp [List.replicate_succ, run, step, ih]
  cases hf : sc.final <;> simp [run, step, hrep]

/-! #### keyed cells: a read of one key never touches another (arrays, object cache) -/

/-- C03.2  frame property: events on key `k` leave every other cell unchanged, so two reads by
    the same access path (same key) hit the same cell and reads by different paths are independent -/
theorem stepK_frame {κ : Type} [DecidableEq κ] (c : Cells κ) (k k' : κ) (e : Ev) (h : k' ≠ k) :
    (stepK c k e).1 k' = c k' := by
  simp [stepK, h]

theorem stepK_same {κ : Type} [DecidableEq κ] (c : Cells κ) (k : κ) (e : Ev) :
    (stepK c k e).1 k = (step (c k) e).1 ∧ (stepK c k e).2 = (step (c k) e).2 := by
  simp [stepK]

/-- per key, a keyed history is the automaton's history of that key's events -/
theorem runK_project {κ : Type} [DecidableEq κ] (c : Cells κ) (es : List (κ × Ev)) (k : κ) :
    (runK c es).1 k = (run (c k) ((es.filter (fun p => p.1 = k)).map (·.2))).1 := by
  induction es generalizing c with
  | nil => simp [runK, run]
  | cons p es ih =>
    obtain ⟨k0, e⟩ := p
    simp only [runK]
    rw [ih]
    by_cases hk : k0 = k
    · subst hk
      simp [List.filter_cons, run, (stepK_same c k0 e).1]
    · have : (stepK c k0 e).1 k = c k := stepK_frame c k0 k e (Ne.symm hk)
      simp [List.filter_cons, hk, this]

/-- hence every cell of an array / every (field, layer) cache entry runs its body at most once,
    for every interleaved history over all keys -/
theorem cells_run_once {κ : Type} [DecidableEq κ] (es : List (κ × Ev)) (k : κ) :
    starts (run .waiting ((es.filter (fun p => p.1 = k)).map (·.2))).2 ≤ 1 :=
  thunk_runs_once _

end JrsVerif.Thunk

namespace JrsVerif.Eval

/-- C03.3a  the branch not taken is not needed: when the condition evaluates to `true`, the
    whole outcome — value or error, store, trace — is the same whatever the `else` branch is -/
theorem if_else_branch_unneeded (n : Nat) (c : Ctx) (cnd t e e' : Expr) (s s' : St)
    (h : (run n (.eval c cnd)).run.run s = (.ok (.val (.bool true)), s')) :
    (run (n + 1) (.eval c (.ifE cnd t (some e)))).run.run s
      = (run (n + 1) (.eval c (.ifE cnd t (some e')))).run.run s := by
  simp only [run, expectVal, bind, ExceptT.bind, ExceptT.mk, ExceptT.run, StateT.bind, StateT.run,
    ExceptT.bindCont] at h ⊢
  simp only [h, pure, ExceptT.pure, ExceptT.mk, StateT.pure]

theorem if_then_branch_unneeded (n : Nat) (c : Ctx) (cnd t t' e : Expr) (s s' : St)
    (h : (run n (.eval c cnd)).run.run s = (.ok (.val (.bool false)), s')) :
    (run (n + 1) (.eval c (.ifE cnd t (some e)))).run.run s
      = (run (n + 1) (.eval c (.ifE cnd t' (some e)))).run.run s := by
  simp only [run, expectVal, bind, ExceptT.bind, ExceptT.mk, ExceptT.run, StateT.bind, StateT.run,
    ExceptT.bindCont] at h ⊢
  simp only [h, pure, ExceptT.pure, ExceptT.mk, StateT.pure]

/-- C03.3b  `false && e` and `true || e` do not need `e` -/
theorem and_short_circuit (n : Nat) (c : Ctx) (a b b' : Expr) (s s' : St)
    (h : (run n (.eval c a)).run.run s = (.ok (.val (.bool false)), s')) :
    (run (n + 1) (.eval c (.binary .and a b))).run.run s
      = (run (n + 1) (.eval c (.binary .and a b'))).run.run s := by
  simp only [run, expectVal, bind, ExceptT.bind, ExceptT.mk, ExceptT.run, StateT.bind, StateT.run,
    ExceptT.bindCont] at h ⊢
  simp only [h, pure, ExceptT.pure, ExceptT.mk, StateT.pure]

theorem or_short_circuit (n : Nat) (c : Ctx) (a b b' : Expr) (s s' : St)
    (h : (run n (.eval c a)).run.run s = (.ok (.val (.bool true)), s')) :
    (run (n + 1) (.eval c (.binary .or a b))).run.run s
      = (run (n + 1) (.eval c (.binary .or a b'))).run.run s := by
  simp only [run, expectVal, bind, ExceptT.bind, ExceptT.mk, ExceptT.run, StateT.bind, StateT.run,
    ExceptT.bindCont] at h ⊢
  simp only [h, pure, ExceptT.pure, ExceptT.mk, StateT.pure]

end JrsVerif.Eval

/-! ### Round 3: the whole interpreter (`Proofs/EvalNeed*.lean`) -/
namespace JrsVerif.EvalNeed
open JrsVerif.Eval

/-- C03.4  every task of the interpreter, with any fuel, from any store, only moves the store
    forward: cells and objects are appended, a cell that is pending / done / failed keeps its
    content, objects are immutable, the trace is extended -/
theorem store_only_moves_forward (n : Nat) (task : Eval.Task) (s : St) :
    Ext s (exec (run n task) s).2 :=
  run_ext n task s

/-- C03.5  "is never evaluated, so an error, a trace or non-termination inside it is unobservable":
    for every task, fuel and pair of stores that differ only in the CONTENTS of the thunk cells `U`,
    if those cells are still unevaluated when the run from the first store ends, the run from the
    second store has the same outcome (value, error or out-of-fuel), the same trace, the same
    objects and caches, and the same cells outside `U` -/
theorem unevaluated_cells_unobservable (U : Ref → Prop) (n : Nat) (task : Eval.Task) (s s' : St)
    (h : Sim U s s') (hu : UL U (exec (run n task) s).2) :
    (exec (run n task) s').1 = (exec (run n task) s).1
      ∧ Sim U (exec (run n task) s).2 (exec (run n task) s').2 :=
  run_sim U n task s s' h hu

/-- C03.6  `force` is idempotent (interpreter-level "evaluated at most once") -/
theorem force_is_idempotent (n : Nat) (r : Ref) (s t : St) (v : Val)
    (h : exec (run (n+1) (.force r)) s = (.ok (.val v), t)) :
    ∀ u, Ext t u → ∀ m, exec (run (m+1) (.force r)) u = (.ok (.val v), u) :=
  force_idempotent n r s t v h

/-- C03.6b  … in particular after ANY sequence of further tasks -/
theorem force_again_after_anything (n m : Nat) (r : Ref) (s t : St) (v : Val)
    (tasks : List (Nat × Eval.Task)) (h : exec (run (n+1) (.force r)) s = (.ok (.val v), t)) :
    let u := tasks.foldl (fun u p => (exec (run p.1 p.2) u).2) t
    exec (run (m+1) (.force r)) u = (.ok (.val v), u) :=
  force_twice n m r s t v tasks h

/-- C03.6c  a failed cell repeats an error and is not re-run either -/
theorem force_error_is_sticky (n : Nat) (r : Ref) (s t : St) (e : Err) (hlt : r < s.cells.size)
    (h : exec (run (n+1) (.force r)) s = (.error (.err e), t)) :
    ∀ u, Ext t u → ∀ m, ∃ e', exec (run (m+1) (.force r)) u = (.error (.err e'), u) :=
  force_error_sticky n r s t e hlt h

/-- C03.7 ★ unused_binding (semantic form: "unused" = the binding's cell is never forced) -/
theorem unused_binding_unobservable (n : Nat) (c : Ctx) (binds binds' : List Bind) (body : Expr) (s : St)
    (hn : binds.map bindName = binds'.map bindName) :
    let c' := bindCtx c (binds.map bindName) s.cells.size c.this c.dollar
    let U := diffU s.cells.size (binds.map (bindCell c')) (binds'.map (bindCell c'))
    UL U (exec (run (n+1) (.eval c (.localE binds body))) s).2 →
      (exec (run (n+1) (.eval c (.localE binds' body))) s).1
          = (exec (run (n+1) (.eval c (.localE binds body))) s).1
        ∧ Sim U (exec (run (n+1) (.eval c (.localE binds body))) s).2
                (exec (run (n+1) (.eval c (.localE binds' body))) s).2 :=
  unused_binding n c binds binds' body s hn

/-- C03.7b  `local x = e; body`: outcome, trace and store (up to the one cell) independent of `e` -/
theorem unused_local_unobservable (n : Nat) (c : Ctx) (x : String) (e e' body : Expr) (s t : St)
    (out : Except Stop Out)
    (h : exec (run (n+1) (.eval c (.localE [.val x e] body))) s = (out, t))
    (hl : lazyCell (cellAt t s.cells.size) = true) :
    ∃ t', exec (run (n+1) (.eval c (.localE [.val x e'] body))) s = (out, t')
      ∧ t'.trace = t.trace ∧ t'.objs = t.objs ∧ t'.cache = t.cache ∧ t'.cells.size = t.cells.size
      ∧ ∀ r, r ≠ s.cells.size → cellAt t' r = cellAt t r :=
  unused_local n c x e e' body s t out h hl

/-- C03.8 ★ unread_element -/
theorem unread_element_unobservable (n : Nat) (c : Ctx) (es es' : List Expr) (s : St)
    (hlen : es.length = es'.length) :
    let U := diffU s.cells.size (es.map (.waiting c)) (es'.map (.waiting c))
    let t := (exec (run (n+1) (.eval c (.arr es))) s).2
    let t' := (exec (run (n+1) (.eval c (.arr es'))) s).2
    (exec (run (n+1) (.eval c (.arr es'))) s).1 = (exec (run (n+1) (.eval c (.arr es))) s).1
      ∧ Sim U t t'
      ∧ ∀ m task, UL U (exec (run m task) t).2 →
          (exec (run m task) t').1 = (exec (run m task) t).1
            ∧ Sim U (exec (run m task) t).2 (exec (run m task) t').2 :=
  unread_element n c es es' s hlen

/-- an array literal evaluates none of its elements -/
theorem array_literal_is_lazy (n : Nat) (c : Ctx) (es : List Expr) (s : St) :
    exec (run (n+1) (.eval c (.arr es))) s
      = (.ok (.val (.arr (List.range' s.cells.size es.length))), allocAll s (es.map (.waiting c))) :=
  exec_eval_arr n c es s

/-- C03.9 ★ overridden_default -/
theorem overridden_default_never_read (n : Nat) (fc : Ctx) (ps ps' : List Param) (body : Expr)
    (pos : List Ref) (named : List (String × Ref)) (hlen : ps.length = ps'.length)
    (h : ∀ (i : Nat) (p p' : Param), ps[i]? = some p → ps'[i]? = some p' →
        paramName p = paramName p' ∧
          (paramDflt p = paramDflt p' ∨ i < pos.length ∨ paramName p ∈ named.map (·.1))) :
    run (n+1) (.call (.func fc ps body) pos named) = run (n+1) (.call (.func fc ps' body) pos named) :=
  overridden_default n fc ps ps' body pos named hlen h

/-- C03.9b  the same at expression level, for lazy and tailstrict calls alike:
    `(function(ps) body)(args)` does not depend on the defaults of the parameters that `args` supply -/
theorem overridden_default_never_read_expr (n : Nat) (c : Ctx) (ps ps' : List Param) (body : Expr)
    (pos : List Expr) (named : List (String × Expr)) (ts : Bool) (hlen : ps.length = ps'.length)
    (h : ∀ (i : Nat) (p p' : Param), ps[i]? = some p → ps'[i]? = some p' →
        paramName p = paramName p' ∧
          (paramDflt p = paramDflt p' ∨ i < pos.length ∨ paramName p ∈ named.map (·.1))) :
    run (n+2) (.eval c (.apply (.func ps body) pos named ts))
      = run (n+2) (.eval c (.apply (.func ps' body) pos named ts)) :=
  overridden_default_expr n c ps ps' body pos named ts hlen h

/-- C03.10  tailstrict, the trivial case: with no arguments the flag is irrelevant -/
theorem tailstrict_no_args (n : Nat) (c : Ctx) (f : Expr) :
    run (n+1) (.eval c (.apply f [] [] true)) = run (n+1) (.eval c (.apply f [] [] false)) := by
  conv => lhs; unfold run
  conv => rhs; unfold run
  simp only [List.forIn_nil]

/-! #### non-vacuity: the hypotheses are met by real programs -/

def ctx0 : Ctx := { env := [], this := none, dollar := none }
def bomb : Expr := .errorE (.str "bomb")

/-- `local x = error "bomb"; true` ends with a value and with `x`'s cell (cell 0) unevaluated -/
example : exec (run 3 (.eval ctx0 (.localE [.val "x" bomb] .tru))) {} = (.ok (.val (.bool true)),
    allocAll {} [.waiting (bindCtx ctx0 ["x"] 0 none none) bomb]) := by rfl
example : lazyCell (cellAt (exec (run 3 (.eval ctx0 (.localE [.val "x" bomb] .tru))) {}).2 0) = true := by rfl
/-- … while `local x = error "bomb"; x` does force it (so the hypothesis is not always true) -/
example : lazyCell (cellAt (exec (run 5 (.eval ctx0 (.localE [.val "x" bomb] (.var "x")))) {}).2 0) = false := by rfl
/-- `local a = [error "bomb", true]; a[1]`-style read: forcing element 1 leaves element 0 unevaluated -/
example :
    let t := (exec (run 2 (.eval ctx0 (.arr [bomb, .tru]))) {}).2
    (exec (run 3 (.force 1)) t).1 = .ok (.val (.bool true))
      ∧ lazyCell (cellAt (exec (run 3 (.force 1)) t).2 0) = true := by
  constructor <;> rfl
/-- force twice: the second read answers from the cell -/
example :
    let t := (exec (run 2 (.eval ctx0 (.arr [.tru]))) {}).2
    (exec (run 3 (.force 0)) t).1 = .ok (.val (.bool true))
      ∧ cellAt (exec (run 3 (.force 0)) t).2 0 matches .done (.bool true) := by
  constructor <;> rfl
/-- a default that is overridden: `function(a, b = error "bomb") a` called with two arguments -/
example (n : Nat) (r1 r2 : Ref) :
    run (n+1) (.call (.func ctx0 [.mk "a" none, .mk "b" (some bomb)] (.var "a")) [r1, r2] [])
      = run (n+1) (.call (.func ctx0 [.mk "a" none, .mk "b" (some .tru)] (.var "a")) [r1, r2] []) := by
  apply overridden_default_never_read
  · rfl
  · intro i p p' hp hp'
    match i with
    | 0 => simp at hp hp'; subst hp; subst hp'; exact ⟨rfl, Or.inl rfl⟩
    | 1 => simp at hp hp'; subst hp; subst hp'; exact ⟨rfl, Or.inr (Or.inl (by simp))⟩
    | k + 2 => simp at hp

/-- `(function(a, b = error "bomb") a)(true, b = true)` evaluates to `true` -/
example : (exec (run 6 (.eval ctx0 (.apply (.func [.mk "a" none, .mk "b" (some bomb)] (.var "a")) [.tru] [("b", .tru)] false))) {}).1
    = .ok (.val (.bool true)) := by rfl

/-! #### statements that are NOT proved (kept visible; not obligations) -/

/-- the syntactic form of `unused_binding`: for a free-variable judgement `notFree` of the language,
    `local x = e; b` with `x` not free in `b` does not depend on `e`.  What is proved above is the
    semantic form (`unused_local_unobservable`: the cell is never forced ⇒ unobservable); the
    missing half, "not free ⇒ never forced", needs a reachability invariant over environments
    captured in closures and is covered by the trace correspondence only. -/
def unusedBindingSyntacticStmt (notFree : String → Expr → Prop) : Prop :=
  ∀ (n : Nat) (c : Ctx) (x : String) (e e' b : Expr) (s : St), notFree x b →
    (exec (run n (.eval c (.localE [.val x e'] b))) s).1 = (exec (run n (.eval c (.localE [.val x e] b))) s).1
      ∧ (exec (run n (.eval c (.localE [.val x e'] b))) s).2.trace
          = (exec (run n (.eval c (.localE [.val x e] b))) s).2.trace

/-- pointwise relation of two lists of the same length -/
def listRel {α : Type} (R : α → α → Prop) : List α → List α → Prop
  | [], [] => True
  | a :: as, b :: bs => R a b ∧ listRel R as bs
  | _, _ => False

/-- an object field that is never read can be replaced by anything: field bodies live in the
    object table (`St.objs`), not in thunk cells, so `Sim` does not cover them.  Statement: if no
    cache entry for a field name `f` exists when the run ends, the bodies of all fields named `f`
    are unobservable.  Covered by the trace correspondence only. -/
def unreadFieldStmt : Prop :=
  ∀ (n : Nat) (task : Eval.Task) (s s' : St) (f : String),
    s'.cells = s.cells → s'.cache = s.cache → s'.layerEnvs = s.layerEnvs → s'.asserted = s.asserted →
    s'.asserting = s.asserting → s'.trace = s.trace → s'.objs.size = s.objs.size →
    (∀ o, listRel (fun (l l' : Layer) =>
        l'.mask = l.mask ∧ l'.dollar = l.dollar ∧ l'.locals = l.locals ∧ l'.asserts = l.asserts ∧
        l'.assertEnv = l.assertEnv ∧
        listRel (fun (d d' : FieldDef) => d'.name = d.name ∧ d'.plus = d.plus ∧ d'.vis = d.vis ∧
          d'.env = d.env ∧ (d.name ≠ f → d'.body = d.body)) l.fields l'.fields)
      (s.objs.getD o []) (s'.objs.getD o [])) →
    (∀ p ∈ (exec (run n task) s).2.cache, p.1.2.1 ≠ f) →
    (exec (run n task) s').1 = (exec (run n task) s).1
      ∧ (exec (run n task) s').2.trace = (exec (run n task) s).2.trace

/-- `tailstrict` "only forces arguments earlier and never changes a result that exists": a program
    whose top-level call is tailstrict and yields a value yields the same JSON value when the call
    is lazy (possibly with more fuel), and every trace label of the lazy run occurs at least as
    often in the tailstrict run (the extra ones come from arguments the callee never uses).
    NOT proved: the two runs allocate cells in a different order, so it needs a store relation up
    to a renaming of cell indices.  Only `tailstrict_no_args` is proved. -/
def tailstrictFullStmt : Prop :=
  ∀ (fuel : Nat) (f : Expr) (pos : List Expr) (named : List (String × Expr)) (j : JV) (tr : List String),
    evalProgram fuel (.apply f pos named true) = .value j tr →
    ∃ fuel' tr', evalProgram fuel' (.apply f pos named false) = .value j tr'
      ∧ ∀ l, tr'.count l ≤ tr.count l

end JrsVerif.EvalNeed
