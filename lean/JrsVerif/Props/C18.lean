/- C18 — interned strings stay canonical (interner half of the property; the collector half is
   observed, not proved — see checks/props/C18.py).
   Property theorems only; helper lemmas live in Proofs/Intern.lean.

   Setting: `step` is the Rust protocol as coded (pool lookup by contents, `Inner::clone`,
   `maybe_unpool` with the extracted threshold, `Inner::drop` freeing at zero, the casts cloning
   before the consumed value drops); `none` = panic / use after free.  `Spec.step` is the client's
   view (a list of values with contents).  `abs` forgets addresses and counts. -/
import JrsVerif.Proofs.Intern
import JrsVerif.Model.TraceGraph

namespace JrsVerif.Intern
open JrsVerif.Generated

/-- C18.1 (`inv_preserved` + `no_double_free`): from a state satisfying the invariant, every
    operation the Rust types allow runs without panic, refcount underflow/overflow or access to a
    freed block, re-establishes the invariant, and is the reference operation on the client's view. -/
theorem step_ok {s : St} (h : Inv s) (hs : Small s) (op : Op) (hv : op.valid s = true) :
    ∃ s', step s op = some s' ∧ Inv s' ∧ Spec.step (abs s) op = some (abs s') := by
  cases op with
  | internBytes b =>
    refine ⟨_, step_internBytes h hs b, ?_⟩
    cases e : lookup s b with
    | some q =>
      have ⟨hq, hd⟩ := lookup_some e
      exact ⟨inv_addH h q .bytes false hq (by simp) (by simp), by simp [Spec.step, abs_addH, hd]⟩
    | none =>
      exact ⟨inv_newH h b .bytes false (lookup_none e) (by simp) (by simp),
        by simp [Spec.step, abs_newH h]⟩
  | internStr b =>
    have hb : validUtf8 b = true := hv
    refine ⟨_, step_internStr h hs b, ?_⟩
    cases e : lookup s b with
    | some q =>
      have ⟨hq, hd⟩ := lookup_some e
      exact ⟨inv_addH h q .str true hq (fun _ => hd ▸ hb) (fun _ => Or.inl rfl),
        by simp [Spec.step, abs_addH, hd]⟩
    | none =>
      exact ⟨inv_newH h b .str true (lookup_none e) (fun _ => hb) (fun _ => rfl),
        by simp [Spec.step, abs_newH h]⟩
  | clone i =>
    have hi : i < s.hs.length := by simpa [Op.valid] using hv
    obtain ⟨⟨p, k⟩, hg⟩ : ∃ g, s.hs[i]? = some g := ⟨_, List.getElem?_eq_getElem hi⟩
    refine ⟨_, step_clone h hs hg, inv_addH h p k false (h.hs_pool _ (mem_of_getElem? hg)) (by simp) ?_, ?_⟩
    · intro e; subst e; exact Or.inr (h.str_utf8 _ (mem_of_getElem? hg) rfl)
    · simp [Spec.step, abs_getElem?, hg, abs_addH]
  | drop i =>
    have hi : i < s.hs.length := by simpa [Op.valid] using hv
    obtain ⟨⟨p, k⟩, hg⟩ : ∃ g, s.hs[i]? = some g := ⟨_, List.getElem?_eq_getElem hi⟩
    refine ⟨_, step_drop h hg, ?_, ?_⟩
    · split
      · next e => exact inv_delLast h i p k hg e
      · next e =>
        have := h.has_handle p (h.hs_pool _ (mem_of_getElem? hg))
        exact inv_delMore h i p k hg (by omega)
    · simp only [Spec.step, abs_getElem?, hg, Option.map_some]
      split <;> simp [abs_delLast, abs_delMore]
  | castBytes i =>
    obtain ⟨p, hg⟩ : ∃ p, s.hs[i]? = some (p, .str) := by
      simp only [Op.valid] at hv
      split at hv
      · next p e => exact ⟨p, e⟩
      · simp at hv
    refine ⟨_, step_castBytes h hs hg, inv_setK h i p .str .bytes false hg (by simp) (by simp), ?_⟩
    simp [Spec.step, abs_getElem?, hg, abs_setK]
  | castStr i =>
    obtain ⟨p, hg⟩ : ∃ p, s.hs[i]? = some (p, .bytes) := by
      simp only [Op.valid] at hv
      split at hv
      · next p e => exact ⟨p, e⟩
      · simp at hv
    have hp : p ∈ s.pool := h.hs_pool _ (mem_of_getElem? hg)
    refine ⟨_, step_castStr h hs hg, ?_, ?_⟩
    · split
      · next e =>
        refine inv_setK h i p .bytes .str _ hg (fun _ => e) (fun _ => ?_)
        cases (s.heap p).utf8 <;> simp
      · split
        · next e => exact inv_delLast h i p .bytes hg e
        · next e =>
          have := h.has_handle p hp
          exact inv_delMore h i p .bytes hg (by omega)
    · simp only [Spec.step, abs_getElem?, hg, Option.map_some]
      split
      · simp [abs_setK]
      · split <;> simp [abs_delLast, abs_delMore]
  | handover =>
    exact ⟨s, step_handover s, h, rfl⟩

/-- well-typed client histories: indices of live values of the right static type (this is what
    `Spec.run` succeeding means) and `&str` arguments that are UTF-8 -/
def StrArgsOk (ops : List Op) : Prop := ∀ b, Op.internStr b ∈ ops → validUtf8 b = true

/-- C18.2 (`reachable_inv`, refinement over whole histories): for every well-typed history — of any
    length below the 2^31 reference-count capacity — the coded protocol never panics, ends in a
    state satisfying the invariant, and the client's view of that state is exactly what the
    reference semantics computes. -/
theorem run_refines (ops : List Op) : ∀ (s : St), Inv s → s.hs.length + ops.length + 3 ≤ REFCNT_MAX →
    StrArgsOk ops → ∀ a, Spec.run (abs s) ops = some a →
    ∃ s', run s ops = some s' ∧ Inv s' ∧ abs s' = a := by
  induction ops with
  | nil =>
    intro s h _ _ a ha
    simp only [Spec.run, Option.some.injEq] at ha
    exact ⟨s, rfl, h, ha⟩
  | cons op ops ih =>
    intro s h hb hstr a ha
    simp only [Spec.run] at ha
    cases hsp : Spec.step (abs s) op with
    | none => simp [hsp] at ha
    | some a1 =>
      rw [hsp, Option.bind_some] at ha
      have hv : op.valid s = true :=
        valid_of_spec hsp (fun b e => hstr b (e ▸ List.mem_cons_self))
      have hsmall : Small s := by simp only [Small, List.length_cons] at hb ⊢; omega
      obtain ⟨s1, hstep, hinv, href⟩ := step_ok h hsmall op hv
      rw [hsp, Option.some.injEq] at href
      have hlen : s1.hs.length ≤ s.hs.length + 1 := by
        have := spec_length hsp
        rw [href] at this
        simpa [abs] using this
      obtain ⟨s', hrun, hinv', habs⟩ := ih s1 hinv
        (by simp only [List.length_cons] at hb; omega)
        (fun b hb' => hstr b (List.mem_cons_of_mem _ hb')) a (by rw [← href]; exact ha)
      exact ⟨s', by simp [run, hstep, hrun], hinv', habs⟩

/-- states the real interner can be in: reached from the empty pool by a well-typed history -/
def Reachable (s : St) : Prop :=
  ∃ ops a, ops.length + 3 ≤ REFCNT_MAX ∧ StrArgsOk ops ∧ Spec.run [] ops = some a ∧
    run init ops = some s

theorem reachable_inv {s : St} (h : Reachable s) : Inv s := by
  obtain ⟨ops, a, hb, hstr, hsp, hrun⟩ := h
  obtain ⟨s', hrun', hinv, _⟩ := run_refines ops init inv_init (by simpa [init] using hb) hstr a
    (by simpa [abs, init] using hsp)
  rw [hrun] at hrun'
  exact (Option.some.inj hrun') ▸ hinv

/-- C18.3 (`ptrEq_iff_contentsEq`): two live interned values are `==` (same address) exactly when
    their contents are equal — whatever history produced them, whatever their static types. -/
theorem ptrEq_iff_contentsEq {s : St} (h : Reachable s) {g1 g2 : Nat × Kind}
    (h1 : g1 ∈ s.hs) (h2 : g2 ∈ s.hs) :
    g1.1 = g2.1 ↔ (s.heap g1.1).data = (s.heap g2.1).data := by
  have hi := reachable_inv h
  exact ⟨fun e => by rw [e], fun e => hi.data_inj (hi.hs_pool _ h1) (hi.hs_pool _ h2) e⟩

/-- C18.4 (`contents_stable` / history independence): after any history the contents and static
    types of the live values are exactly those the reference semantics assigns — nothing a history
    did (interning, dropping, casting other values, hand-over) altered a surviving value. -/
theorem contents_stable (ops : List Op) (hb : ops.length + 3 ≤ REFCNT_MAX) (hstr : StrArgsOk ops)
    (a : Spec.SSt) (hsp : Spec.run [] ops = some a) :
    ∃ s, run init ops = some s ∧ abs s = a := by
  obtain ⟨s, hrun, _, habs⟩ := run_refines ops init inv_init (by simpa [init] using hb) hstr a
    (by simpa [abs, init] using hsp)
  exact ⟨s, hrun, habs⟩

/-- C18.5 (`dropped_leave_pool`): a pool entry exists only while some live value points at it, the
    pool has one entry per distinct contents of the live values, and with no live value it is empty. -/
theorem dropped_leave_pool {s : St} (h : Reachable s) :
    (∀ p ∈ s.pool, ∃ g ∈ s.hs, g.1 = p) ∧
    s.pool.length = (Spec.distinct ((abs s).map (·.1))).length ∧
    (s.hs = [] → s.pool = []) := by
  have hi := reachable_inv h
  refine ⟨fun p hp => ?_, hi.pool_length, fun e => ?_⟩
  · have := hi.has_handle p hp
    simp only [cnt, List.countP_pos_iff, beq_iff_eq] at this
    exact this
  · have := hi.pool_length
    simp only [abs, e, List.map_nil, Spec.distinct, List.length_nil] at this
    exact List.eq_nil_of_length_eq_zero this

/-- C18.6 (`no_double_free`, memory side): every live value points at a block that is not freed,
    whose header count is the number of live values sharing it plus the pool's reference (so it is
    never 0 while reachable), and every `IStr` points at valid UTF-8 (what `as_str_unchecked`
    relies on). -/
theorem live_values_safe {s : St} (h : Reachable s) {g : Nat × Kind} (hg : g ∈ s.hs) :
    (s.heap g.1).live = true ∧ (s.heap g.1).rc = cnt s g.1 + 1 ∧ 2 ≤ (s.heap g.1).rc ∧
    (g.2 = .str → validUtf8 (s.heap g.1).data = true) := by
  have hi := reachable_inv h
  have hp := hi.hs_pool g hg
  have := hi.has_handle _ hp
  refine ⟨hi.pool_live _ hp, hi.rc_eq _ hp, by have := hi.rc_eq _ hp; omega, fun e => ?_⟩
  exact hi.utf8_ok _ hp (hi.str_utf8 g hg e)

/-- C18.7 (`cast_preserves_identity` and everything else the harness can see): in every reachable
    state, pool size and per value contents, type, reference count, `==` class and
    "pool entry is this allocation" are functions of the client's view alone. -/
theorem obs_eq_spec {s : St} (h : Reachable s) : obs s = Spec.obs (abs s) :=
  (reachable_inv h).obs_eq

/-- non-vacuity: a history with both types, a shared allocation, a failed and a successful
    `cast_str`, a hand-over and drops to empty (the harness replays exactly this one first). -/
def witness : List Op :=
  [.internStr [97], .internBytes [97], .internBytes [255], .clone 0, .castStr 2, .castStr 1,
   .drop 0, .handover, .drop 0, .drop 0]

example : StrArgsOk witness := by
  intro b hb
  simp [witness] at hb
  subst hb; decide

example : Spec.run [] witness = some [] := by decide
example : Spec.run [] (witness.take 6) = some [([97], .str), ([97], .str), ([97], .str)] := by decide
example : witness.length + 3 ≤ REFCNT_MAX := by decide

/-- the hypotheses of `contents_stable` are met by a non-trivial history: the coded protocol runs
    it without panic and the three surviving values are the three `"a"` strings -/
example : ∃ s, run init (witness.take 6) = some s ∧
    abs s = [([97], .str), ([97], .str), ([97], .str)] :=
  contents_stable _ (by decide)
    (by intro b hb; simp [witness] at hb; subst hb; decide) _ (by decide)

end JrsVerif.Intern

namespace JrsVerif.TraceGraph
open JrsVerif.Generated

/-- C18.8 (`traceGraph_complete`, collector half, necessary condition only): every
    `#[trace(skip)]` of the current source hides a type that is declared unable to own a `Cc`
    (plain data, `'static`, foreign leaf types) or is a declared weak back reference.  The table is
    re-extracted on every run, so a new skip on an owning field breaks this theorem. -/
theorem traceGraph_complete : ∀ e ∈ traceSkips, skipOk e = true := by decide

/-- non-vacuity: the table is not empty and contains the weak object back reference -/
example : traceSkips.length ≥ 9 ∧ traceSkips.any (fun e => weakRef.contains e.2.2) = true := by decide

end JrsVerif.TraceGraph
