/- C18: property theorems (not yet built). -/
