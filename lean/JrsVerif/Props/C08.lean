/- C08 — Arrays behave identically whatever their internal representation.
   Property theorems only (helper lemmas live in Proofs/Arr.lean, Proofs/ArrKernels.lean). -/
import JrsVerif.Proofs.Arr
import JrsVerif.Proofs.ArrKernels

namespace JrsVerif.Arr
open JrsVerif.Generated.ArrKernels

/-- every array expression builds a view that is observationally its plain list — through `len`
    and through each of the three accessors (`get`, `get_lazy`, and `get_cheap` when cheap);
    `cat` is `ArrValue::extended` with its three branches (link / cheap copy / lazy copy) -/
theorem build_good (t : T) (h : t.WF) : Good (build t) (denote t) := by
  induction t with
  | lit xs k =>
    cases k with
    | eager => exact good_vec xs true
    | lazy => exact good_vec xs false
    | expr =>
      simp only [build, denote]
      split
      · rename_i he
        have : xs = [] := by simpa using he
        subst this; exact good_empty
      · exact good_vec xs false
  | range a b => exact good_range a b ⟨h.1, h.2.1⟩ ⟨h.2.2.1, h.2.2.2⟩
  | slice t s e st ih => exact good_slice (ih h.1) s e st h.2
  | cat a b iha ihb => exact good_ext (iha h.1) (ihb h.2)
  | rev t ih => exact good_rev (ih h)
  | rep t n ih => exact good_rep (ih h) n
  | map t wi ih => exact good_map (ih h) wi
  | filter t ih => exact good_filter (ih h)
  | chars cps => exact good_vec cps true
  | bytes bs => exact good_vec bs true
  | objvals xs => exact good_vec xs false
  | mkarr n triv =>
    obtain ⟨v, hv, hg⟩ := good_makeArray n h triv
    simp only [build, hv, denote]; exact hg

/-- C08.1  length of any composed view = length of the plainly constructed array -/
theorem len_eq (t : T) (h : t.WF) : len (build t) = (denote t).length := (build_good t h).1

/-- C08.2  `get` at every index (also at/after the end, also on views of larger arrays) is the
    element of the plain list, or out-of-bounds; in particular never a panic. -/
theorem get_eq (t : T) (h : t.WF) (i : Nat) : get (build t) i = specGet (denote t) i :=
  (build_good t h).2.1 i

/-- C08.2 for `get_lazy(i)` (forced): the accessor used by `iter_lazy`, by the lazy copy of
    `extended`, by `MappedArray::get`, by `std.foldl`/`std.sort`/… -/
theorem getLazy_eq (t : T) (h : t.WF) (i : Nat) : getLazy (build t) i = specGet (denote t) i :=
  (build_good t h).2.2.1 i

/-- C08.2 for `get_cheap(i)` on a representation that reports `is_cheap()`: the accessor used by
    `iter_cheap` (cheap copy of `extended`) -/
theorem getCheap_eq (t : T) (h : t.WF) (hc : isCheap (build t) = true) (i : Nat) :
    getCheap (build t) i = specGet (denote t) i :=
  (build_good t h).2.2.2 hc i

/-- the three accessors cannot be told apart -/
theorem accessors_agree (t : T) (h : t.WF) (i : Nat) :
    getLazy (build t) i = get (build t) i ∧
      (isCheap (build t) = true → getCheap (build t) i = get (build t) i) := by
  refine ⟨?_, fun hc => ?_⟩
  · rw [getLazy_eq t h, get_eq t h]
  · rw [getCheap_eq t h hc, get_eq t h]

/-- C08 / C04: no index makes any representation panic -/
theorem get_total (t : T) (h : t.WF) (i : Nat) : get (build t) i ≠ .panic := by
  rw [get_eq t h]; unfold specGet; split <;> simp

theorem getLazy_total (t : T) (h : t.WF) (i : Nat) : getLazy (build t) i ≠ .panic := by
  rw [getLazy_eq t h]; unfold specGet; split <;> simp

/-- C08.5 representation irrelevance: two expressions with the same contents cannot be told
    apart by `len`/`get`/`get_lazy` (all observers — equality, ordering, iteration,
    manifestation — are defined through these). -/
theorem repr_irrelevant (t u : T) (ht : t.WF) (hu : u.WF) (h : denote t = denote u) :
    len (build t) = len (build u) ∧ ∀ i, get (build t) i = get (build u) i := by
  refine ⟨?_, fun i => ?_⟩
  · rw [len_eq t ht, len_eq u hu, h]
  · rw [get_eq t ht, get_eq u hu, h]

theorem repr_irrelevant_lazy (t u : T) (ht : t.WF) (hu : u.WF) (h : denote t = denote u) (i : Nat) :
    getLazy (build t) i = getLazy (build u) i := by
  rw [getLazy_eq t ht, getLazy_eq u hu, h]

/-- iteration (`iter`, used by `==`, `<`, manifestation, std functions) sees exactly the list -/
theorem materialize_eq (t : T) (h : t.WF) : materialize (build t) = some (denote t) :=
  materialize_good (build_good t h)

/-- `iter_lazy` sees exactly the list -/
theorem materializeLazy_eq (t : T) (h : t.WF) : materializeLazy (build t) = some (denote t) :=
  materializeLazy_good (build_good t h)

/-- `iter_cheap` is `None` or exactly the list -/
theorem iterCheap_eq (t : T) (h : t.WF) :
    iterCheap (build t) = if isCheap (build t) then some (some (denote t)) else none :=
  iterCheap_good (build_good t h)

/-! ### `arr[n]` : the `Expr::Index` arm -/

/-- C08.4  `arr[n]` for the number `n = m / 2^e` as coded equals the rule: fractional part above
    `f64::EPSILON` → FractionalIndex; below zero → bounds error; otherwise element
    `⌊n⌋` of the plain list or a bounds error at/after the length; never a panic. -/
theorem index_expr_spec (t : T) (h : t.WF) (hl : (denote t).length < 2 ^ 64) (m : Int) (e : Nat) :
    indexExpr (build t) m e = specIndex (denote t) m e := by
  have hp : (0 : Int) < 2 ^ e := Int.pow_pos (by omega)
  unfold indexExpr specIndex
  by_cases hm : m < 0
  · have hf : ¬ (fractNum m e * (2 ^ 52 : Int) > 2 ^ e) := by
      have h1 : fractNum m e ≤ 0 := by
        unfold fractNum
        have : ¬ m ≥ 0 := by omega
        simp only [this, ↓reduceIte]
        have := Int.emod_nonneg (-m) (Int.ne_of_gt hp)
        omega
      have h2 : fractNum m e * (2 ^ 52 : Int) ≤ 0 :=
        Int.mul_nonpos_of_nonpos_of_nonneg h1 (by omega)
      omega
    have hs : ¬ (0 < m ∧ m % (2 ^ e : Int) * (2 ^ 52 : Int) > 2 ^ e) := by omega
    simp only [hf, hs, hm, ↓reduceIte]
  · have hfn : fractNum m e = m % (2 ^ e : Int) := by
      unfold fractNum
      have : m ≥ 0 := by omega
      simp only [this, ↓reduceIte]
    rw [hfn]
    by_cases hfr : m % (2 ^ e : Int) * (2 ^ 52 : Int) > 2 ^ e
    · have hpos : 0 < m := by
        by_cases h0 : 0 < m
        · exact h0
        · have : m = 0 := by omega
          subst this; simp at hfr; omega
      have hs : 0 < m ∧ m % (2 ^ e : Int) * (2 ^ 52 : Int) > 2 ^ e := ⟨hpos, hfr⟩
      simp only [hfr, hs, and_self, ↓reduceIte]
    · have hs : ¬ (0 < m ∧ m % (2 ^ e : Int) * (2 ^ 52 : Int) > 2 ^ e) := fun hh => hfr hh.2
      simp only [hfr, hm, and_false, ↓reduceIte]
      rw [get_eq t h]
      unfold asUsize specGet
      generalize (m / (2 ^ e : Int)).toNat = k
      by_cases hk : k ≤ 2 ^ 64 - 1
      · rw [Nat.min_eq_left hk]; cases (denote t)[k]? <;> rfl
      · rw [Nat.min_eq_right (by omega)]
        have h1 : (denote t)[2 ^ 64 - 1]? = none := List.getElem?_eq_none (by omega)
        have h2 : (denote t)[k]? = none := List.getElem?_eq_none (by omega)
        rw [h1, h2]

/-- whole-number indices: below zero or at/after the length is a bounds error, otherwise the
    element of the plain list -/
theorem index_int (t : T) (h : t.WF) (hl : (denote t).length < 2 ^ 64) (n : Int) :
    indexExpr (build t) n 0 =
      if n < 0 then .bounds
      else match (denote t)[n.toNat]? with
        | some x => .val x
        | none => .bounds := by
  rw [index_expr_spec t h hl]
  unfold specIndex
  have hz : n % (2 ^ 0 : Int) = 0 := by simp [Int.emod_one]
  have hd : n / (2 ^ 0 : Int) = n := by simp
  rw [hz, hd]
  have : ¬ (0 < n ∧ (0 : Int) * 2 ^ 52 > 2 ^ 0) := by omega
  rw [if_neg this]
  by_cases hn : n < 0
  · simp only [hn, ↓reduceIte]
  · simp only [hn, ↓reduceIte]; cases (denote t)[n.toNat]? <;> rfl

/-! ### `RangeArray::len` (wrapping arithmetic) and its callers -/

/-- C08 (3)  with `i32` ends the wrapping length is the true length of `start..=end` exactly for
    `start ≤ end + 1` -/
theorem rangeLen_exact (s e : Int) (hs : I32 s) (he : I32 e) :
    len (.range s e) = (rangeSpec s e).length ↔ s ≤ e + 1 :=
  rangeLen_exact_iff s e hs he

/-- outside that domain the public constructor `ArrValue::range_inclusive` yields an array whose
    `len()` is not the number of its elements (`range_inclusive(5,3).len() = 2^64 - 1`, every
    `get` is `None`); not reachable from Jsonnet, see `build_rangeDom` -/
theorem range_inclusive_len_counterexample :
    I32 5 ∧ I32 3 ∧ len (.range 5 3) = 2 ^ 64 - 1 ∧ ∀ i, get (.range 5 3) i = .oob := by
  refine ⟨by unfold I32; omega, by unfold I32; omega, by decide, ?_⟩
  intro i; simp only [get]
  have : ¬ ((5 : Int) + (i : Int) ≤ 3) := by omega
  simp only [this, ↓reduceIte]

/-- every `RangeArray` inside any view that the modelled callers build (`builtin_range` with its
    `to < from` guard, `builtin_make_array` with its `BoundedI32<0, i32::MAX>` argument and `== 0`
    guard, `ArrValue::empty`, the empty results of `slice`) is inside the domain of
    `rangeLen_exact` -/
theorem build_rangeDom (t : T) (h : t.WF) : RangeDom (build t) := by
  induction t with
  | lit xs k =>
    cases k with
    | eager => trivial
    | lazy => trivial
    | expr => simp only [build]; split; exact rangeDom_empty; trivial
  | range a b => exact rangeDom_mkRange a b ⟨h.1, h.2.1⟩ ⟨h.2.2.1, h.2.2.2⟩
  | slice t s e st ih => exact rangeDom_mkSlice (ih h.1) s e st
  | cat a b iha ihb => exact rangeDom_mkExt (iha h.1) (ihb h.2)
  | rev t ih => exact ih h
  | rep t n ih => exact ih h
  | map t wi ih => exact ih h
  | filter t ih => exact rangeDom_mkFilter _
  | chars cps => trivial
  | bytes bs => trivial
  | objvals xs => trivial
  | mkarr n triv =>
    obtain ⟨v, hv, _⟩ := good_makeArray n h triv
    simp only [build, hv]; exact rangeDom_makeArray n h triv v hv

/-- the `BoundedI32<0, i32::MAX>` guard of `std.makeArray` -/
theorem makeArray_guard (sz : Int) (triv : Option Int) :
    (mkMakeArray sz triv).isSome = true ↔ 0 ≤ sz ∧ sz < 2 ^ 31 := by
  unfold mkMakeArray
  by_cases h : sz < 0 ∨ sz > 2 ^ 31 - 1
  · simp only [h, ↓reduceIte, Option.isSome_none, Bool.false_eq_true, false_iff]; omega
  · simp only [h, ↓reduceIte]
    have : 0 ≤ sz ∧ sz < 2 ^ 31 := by omega
    simp only [this, and_self, iff_true]
    split
    · rfl
    · cases triv <;> rfl

/-! ### The model's arms are the bodies translated from arr/spec.rs
    (Generated/ArrKernels.lean is rewritten from the Rust text on every run) -/

/-- SliceArray: `len`, `map_idx`, the guard and the delegated accessor of `get`/`get_lazy`/
    `get_cheap`, `is_cheap` (for the slices `ArrValue::slice` constructs: `from ≤ to`, `step > 0`) -/
theorem slice_kernel (inner : View) (f t st i : Nat) (hft : f ≤ t) (hst : 0 < st) :
    SliceArray_len f t st (len inner) = some (len (.slice inner f t st)) ∧
    runK (SliceArray_get f t st (len inner) i) (sel1 "inner" inner) = get (.slice inner f t st) i ∧
    runK (SliceArray_get_lazy f t st (len inner) i) (sel1 "inner" inner)
      = getLazy (.slice inner f t st) i ∧
    runK (SliceArray_get_cheap f t st (len inner) i) (sel1 "inner" inner)
      = getCheap (.slice inner f t st) i ∧
    SliceArray_is_cheap (isCheap inner) = isCheap (.slice inner f t st) :=
  ⟨slice_len_kernel inner f t st hft hst, (slice_acc_kernel inner f t st i hft hst).1,
   (slice_acc_kernel inner f t st i hft hst).2.1, (slice_acc_kernel inner f t st i hft hst).2.2, rfl⟩

/-- ReverseArray -/
theorem rev_kernel (inner : View) (i : Nat) :
    ReverseArray_len (len inner) = some (len (.rev inner)) ∧
    runK (ReverseArray_get (len inner) i) (sel1 "0" inner) = get (.rev inner) i ∧
    runK (ReverseArray_get_lazy (len inner) i) (sel1 "0" inner) = getLazy (.rev inner) i ∧
    runK (ReverseArray_get_cheap (len inner) i) (sel1 "0" inner) = getCheap (.rev inner) i ∧
    ReverseArray_is_cheap (isCheap inner) = isCheap (.rev inner) :=
  ⟨rfl, (rev_acc_kernel inner i).1, (rev_acc_kernel inner i).2.1, (rev_acc_kernel inner i).2.2, rfl⟩

/-- RepeatedArray (including the `% 0` panic site behind the bound check) -/
theorem rep_kernel (data : View) (n total i : Nat) :
    RepeatedArray_len n total (len data) = some (len (.rep data n total)) ∧
    runK (RepeatedArray_get n total (len data) i) (sel1 "data" data) = get (.rep data n total) i ∧
    runK (RepeatedArray_get_lazy n total (len data) i) (sel1 "data" data)
      = getLazy (.rep data n total) i ∧
    runK (RepeatedArray_get_cheap n total (len data) i) (sel1 "data" data)
      = getCheap (.rep data n total) i ∧
    RepeatedArray_is_cheap (isCheap data) = isCheap (.rep data n total) :=
  ⟨rfl, (rep_acc_kernel data n total i).1, (rep_acc_kernel data n total i).2.1,
   (rep_acc_kernel data n total i).2.2, rfl⟩

/-- ExtendedArray -/
theorem ext_kernel (a b : View) (split l i : Nat) :
    ExtendedArray_len split l (len a) (len b) = some (len (.ext a b split l)) ∧
    runK (ExtendedArray_get split l (len a) (len b) i) (selAB a b) = get (.ext a b split l) i ∧
    runK (ExtendedArray_get_lazy split l (len a) (len b) i) (selAB a b)
      = getLazy (.ext a b split l) i ∧
    runK (ExtendedArray_get_cheap split l (len a) (len b) i) (selAB a b)
      = getCheap (.ext a b split l) i ∧
    ExtendedArray_is_cheap (isCheap a) (isCheap b) = isCheap (.ext a b split l) :=
  ⟨rfl, (ext_acc_kernel a b split l i).1, (ext_acc_kernel a b split l i).2.1,
   (ext_acc_kernel a b split l i).2.2, rfl⟩

/-- RangeArray: wrapping length, iterator bounds, `new_exclusive`, `empty` -/
theorem range_kernel (s e : Int) (hs : I32 s) (he : I32 e) :
    RangeArray_len s e = len (.range s e) ∧
    RangeArray_bounds s e = (s, e) ∧
    newExclusive s e = (match RangeArray_new_exclusive s e with
      | some p => View.range p.1 p.2
      | none => emptyView) ∧
    newExclusive RangeArray_empty_args.1 RangeArray_empty_args.2 = emptyView :=
  ⟨rangeLen_kernel s e hs he, rfl, newExclusive_kernel s e he, by rfl⟩

/-- `ArrValue::extended`: the branch structure (empty shortcuts, threshold comparison, which
    iterator each copy reads through, eager vs lazy result) and `ExtendedArray::new`'s
    `split`/`len`, as translated from arr/mod.rs / arr/spec.rs -/
theorem extended_kernel (a b : View) :
    mkExt a b = runPlan (ArrValue_extended (len a) (len b) (isCheap a) (isCheap b)) a b :=
  extended_plan_kernel a b

/-- `ArrValue::slice`: the `get_idx` closure (negative from the end, clamping, defaults), the
    `index >= end` → empty guard and the SliceArray field assignment, as translated from
    arr/mod.rs -/
theorem slice_ctor (v : View) (s e : Option Int) (step : Option Nat) :
    mkSlice v s e step = (match ArrValue_slice s e step (len v) with
      | none => emptyView
      | some (f, t, st) => View.slice v f t st) :=
  slice_ctor_kernel v s e step

/-- `is_cheap` of the leaf representations as the model's `vec` flag / constants use it -/
theorem leaf_cheap_kernel :
    (EagerArray_is_cheap, CharArray_is_cheap, BytesArray_is_cheap, RangeArray_is_cheap)
      = (true, true, true, true) ∧
    (LazyArray_is_cheap, ExprArray_is_cheap, PickObjectValues_is_cheap,
      PickObjectKeyValues_is_cheap, MappedArray_is_cheap) = (false, false, false, false, false) :=
  ⟨rfl, rfl⟩

/-- non-vacuity: a slice of a reversed repeated literal, negative end, step 2 -/
example :
    let t : T := .slice (.rev (.rep (.lit [1, 2, 3] .expr) 2)) (some 1) (some (-1)) (some 2)
    t.WF ∧ denote t = [2, 3] ∧ get (build t) 2 = .oob ∧ getLazy (build t) 1 = .val 3 := by
  refine ⟨?_, ?_, ?_, ?_⟩
  · simp [T.WF]
  · decide
  · decide
  · decide

/-- non-vacuity of `getCheap_eq`: a cheap concatenation (eager ++ range, copied through
    `iter_cheap`) and a non-cheap one (copied through `iter_lazy`) -/
example :
    let t : T := .cat (.lit [7, 8] .eager) (.range 1 3)
    let u : T := .cat (.lit [7, 8] .expr) (.range 1 3)
    t.WF ∧ isCheap (build t) = true ∧ getCheap (build t) 2 = .val 1 ∧
      u.WF ∧ isCheap (build u) = false ∧ getLazy (build u) 2 = .val 1 := by
  refine ⟨?_, ?_, ?_, ?_, ?_, ?_⟩
  · simp [T.WF]
  · decide
  · decide
  · simp [T.WF]
  · decide
  · decide

/-- non-vacuity of `index_expr_spec`: `[10,20,30][1]`, `[…][-1]`, `[…][3]`, `[…][1.5]`,
    `[…][1 + 2^-52]` (tolerated), `makeArray` -/
example :
    let t : T := .lit [10, 20, 30] .expr
    indexExpr (build t) 1 0 = .val 20 ∧ indexExpr (build t) (-1) 0 = .bounds ∧
      indexExpr (build t) 3 0 = .bounds ∧ indexExpr (build t) 3 1 = .fractional ∧
      indexExpr (build t) (2 ^ 52 + 1) 52 = .val 20 ∧
      denote (.mkarr 3 none) = [1, 4, 7] := by
  refine ⟨?_, ?_, ?_, ?_, ?_, ?_⟩ <;> decide

/-- non-vacuity of the kernel theorems' hypotheses: the slice built for `[1,2,3,4,5][1:4:2]` -/
example : build (.slice (.lit [1, 2, 3, 4, 5] .eager) (some 1) (some 4) (some 2))
    = .slice (.vec [1, 2, 3, 4, 5] true) 1 4 2 ∧ (1 : Nat) ≤ 4 ∧ 0 < 2 := by
  refine ⟨by rfl, by omega, by omega⟩

end JrsVerif.Arr
