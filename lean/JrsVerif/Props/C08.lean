/- C08 — Arrays behave identically whatever their internal representation.
   Property theorems only (helper lemmas live in Proofs/Arr.lean). -/
import JrsVerif.Proofs.Arr

namespace JrsVerif.Arr

/-- every array expression builds a view that is observationally its plain list -/
theorem build_good (t : T) (h : t.WF) : Good (build t) (denote t) := by
  induction t with
  | lit xs => exact good_vec xs
  | range a b => exact good_range a b ⟨h.1, h.2.1⟩ ⟨h.2.2.1, h.2.2.2⟩
  | slice t s e st ih => exact good_slice (ih h.1) s e st h.2
  | cat a b iha ihb => exact good_ext (iha h.1) (ihb h.2)
  | rev t ih => exact good_rev (ih h)
  | rep t n ih => exact good_rep (ih h) n
  | map t wi ih => exact good_map (ih h) wi
  | filter t ih => exact good_filter (ih h)

/-- C08.1  length of any composed view = length of the plainly constructed array -/
theorem len_eq (t : T) (h : t.WF) : len (build t) = (denote t).length := (build_good t h).1

/-- C08.2  `get` at every index (also at/after the end, also on views of larger arrays) is the
    element of the plain list, or out-of-bounds; in particular never a panic. -/
theorem get_eq (t : T) (h : t.WF) (i : Nat) : get (build t) i = specGet (denote t) i :=
  (build_good t h).2 i

/-- C08 / C04: no index makes any representation panic -/
theorem get_total (t : T) (h : t.WF) (i : Nat) : get (build t) i ≠ .panic := by
  rw [get_eq t h]; unfold specGet; split <;> simp

/-- C08.5 representation irrelevance: two expressions with the same contents cannot be told
    apart by `len`/`get` (all observers — equality, ordering, iteration, manifestation — are
    defined through these two). -/
theorem repr_irrelevant (t u : T) (ht : t.WF) (hu : u.WF) (h : denote t = denote u) :
    len (build t) = len (build u) ∧ ∀ i, get (build t) i = get (build u) i := by
  refine ⟨?_, fun i => ?_⟩
  · rw [len_eq t ht, len_eq u hu, h]
  · rw [get_eq t ht, get_eq u hu, h]

/-- iteration (`iter`, used by `==`, `<`, manifestation, std functions) sees exactly the list -/
theorem materialize_eq (t : T) (h : t.WF) : materialize (build t) = some (denote t) :=
  materialize_good (build_good t h)

/-- non-vacuity: a slice of a reversed repeated literal, negative end, step 2 -/
example :
    let t : T := .slice (.rev (.rep (.lit [1, 2, 3]) 2)) (some 1) (some (-1)) (some 2)
    t.WF ∧ denote t = [2, 3] ∧ get (build t) 2 = .oob := by
  refine ⟨?_, ?_, ?_⟩
  · simp [T.WF]
  · decide
  · decide

end JrsVerif.Arr
