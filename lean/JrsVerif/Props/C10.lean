/- C10: property theorems (not yet built). -/
