/- C10 — Stdlib array, set and higher-order functions match their reference definitions.
   Property theorems only (helper lemmas live in Proofs/Std{Arr,Set,Sort}.lean).

   The algorithms are polymorphic in the element type `α`; a key function `key : α → Option κ` and a
   comparison `cmp : κ → κ → Option Ordering` may fail (`none` = the jsonnet call raised).  The
   hypotheses `hk`/`hc` say "the key function is total (`k`) and the keys are totally ordered
   (`ord`, a `Std.TransCmp`)" — the situation the documentation of `std.sort`/`std.set*` describes. -/
import JrsVerif.Proofs.StdArr
import JrsVerif.Proofs.StdSet
import JrsVerif.Proofs.StdSort
import JrsVerif.Proofs.StdUniq

namespace JrsVerif.StdArr
open Std

variable {α κ : Type}

/-! ### 1. sort -/

/-- C10.1 `sort_keyf`/`sort_identity` structure (key all elements, sort pairs with the std sort, drop
    keys): never fails for a total key into a total order, and the result is a permutation of the
    input, ordered by key, and stable (elements with equivalent keys keep their input order). -/
theorem sort_perm_sorted_stable {ord : κ → κ → Ordering} [TransCmp ord]
    {key : α → Option κ} {cmp : κ → κ → Option Ordering} {k : α → κ}
    (hk : ∀ x, key x = some (k x)) (hc : ∀ p q, cmp p q = some (ord p q)) (xs : List α) :
    ∃ r, sortByKeyM key cmp xs = some r ∧ r.Perm xs ∧
      r.Pairwise (fun a b => (ord (k a) (k b)).isLE) ∧
      ∀ c, r.filter (fun a => ord (k a) c == .eq) = xs.filter (fun a => ord (k a) c == .eq) :=
  sortByKeyM_total ord hk hc xs

/-- non-vacuity: pairs sorted by first component with ties; the tie keeps input order -/
example : sortByKeyM (fun (p : Int × String) => some p.1) (fun a b => some (compare a b))
    [(2, "x"), (1, "a"), (2, "y"), (1, "b")] = some [(1, "a"), (1, "b"), (2, "x"), (2, "y")] := by
  decide

/-- C10.1b the type-specialised fast paths (`get_sort_type` → number / string / generic) never
    change the outcome: whenever the type scan succeeds, `sort_keyf`/`sort_identity` on jsonnet
    values is the generic keyed sort with the jsonnet comparison `<`. -/
theorem sort_dispatch_transparent (key : V → Option V) (xs : List V) (vk : List (V × V))
    (t : Model.SortType) (hvk : withKeys key xs = some vk)
    (ht : Model.sortTypeGo .unknown (vk.map Prod.snd) = some t) :
    Model.sortCore key xs = sortByKeyM key cmpV xs :=
  Model.sortCore_eq key xs vk t hvk ht

/-- C10.1c ... and the type scan fails ("sort elements should have the same types") only when a
    number key and a string key are both present — keys that `<` cannot compare either: mixed types
    are an error, never a mis-sort. -/
theorem sort_type_error_only_mixed (ks : List V) (h : Model.sortTypeGo .unknown ks = none) :
    ∃ n s, V.num n ∈ ks ∧ V.str s ∈ ks ∧ cmpV (.num n) (.str s) = none := by
  obtain ⟨⟨n, hn⟩, ⟨s, hs⟩⟩ := Model.sortTypeGo_none ks h
  exact ⟨n, s, hn, hs, rfl⟩

example : okIs (Model.sort [.num 3, .num 1, .num 2] none) [.num 1, .num 2, .num 3] = true ∧
    (Model.sort [.num 3, .str "a"] none).isNone = true ∧
    (Model.sort [.num 3, .null] none).isNone = true ∧
    okIs (Model.sort [.num 2, .num 3, .num 0, .num 1] (some "mod2"))
      [.num 2, .num 0, .num 3, .num 1] = true := by
  refine ⟨?_, ?_, ?_, ?_⟩ <;> decide

/-- C10.1d `builtin_set` structure (`sort_keyf`, then `uniq_keyf` with key equality): for a total key
    into a total order the result is a set (strictly increasing keys), consists of input elements,
    and represents every key of the input. -/
theorem set_is_set {ord : κ → κ → Ordering} [TransCmp ord]
    {key : α → Option κ} {cmp : κ → κ → Option Ordering} {k : α → κ}
    (hk : ∀ x, key x = some (k x)) (hc : ∀ p q, cmp p q = some (ord p q)) (xs : List α) :
    ∃ r, (sortByKeyM key cmp xs).bind (uniqM key (fun p q => ord p q == .eq)) = some r ∧
      SSorted k ord r ∧ (∀ z ∈ r, z ∈ xs) ∧ (∀ x ∈ xs, ∃ z ∈ r, ord (k x) (k z) = .eq) :=
  setM_props hk hc xs

example : (sortByKeyM (fun (n : Int) => some (n % 3)) (fun a b => some (compare a b)) [5, 3, 1, 4, 6]).bind
    (uniqM (fun (n : Int) => some (n % 3)) (fun p q => compare p q == .eq)) = some [3, 1, 5] := by
  decide

/-! ### 2. set operations -/

/-- C10.2a `builtin_set_inter` = members of `a` whose key occurs in `b`; the result is a set -/
theorem setInter_spec {ord : κ → κ → Ordering} [TransCmp ord]
    {key : α → Option κ} {cmp : κ → κ → Option Ordering} {k : α → κ}
    (hk : ∀ x, key x = some (k x)) (hc : ∀ p q, cmp p q = some (ord p q))
    (a b : List α) (ha : SSorted k ord a) (hb : SSorted k ord b) :
    interM key cmp a b = some (interSpec k ord a b) ∧ SSorted k ord (interSpec k ord a b) :=
  ⟨interM_eq hk hc a b ha hb, List.Pairwise.sublist List.filter_sublist ha⟩

/-- C10.2b `builtin_set_diff` = members of `a` whose key does not occur in `b`; the result is a set -/
theorem setDiff_spec {ord : κ → κ → Ordering} [TransCmp ord]
    {key : α → Option κ} {cmp : κ → κ → Option Ordering} {k : α → κ}
    (hk : ∀ x, key x = some (k x)) (hc : ∀ p q, cmp p q = some (ord p q))
    (a b : List α) (ha : SSorted k ord a) (hb : SSorted k ord b) :
    diffM key cmp a b = some (diffSpec k ord a b) ∧ SSorted k ord (diffSpec k ord a b) :=
  ⟨diffM_eq hk hc a b ha hb, List.Pairwise.sublist List.filter_sublist ha⟩

/-- C10.2c `builtin_set_union` = `sort (a ++ (b \ a))` by key (values of `a` win); the result is a
    set and its members are exactly the members of `a` together with the members of `b` whose key
    does not occur in `a`. -/
theorem setUnion_spec {ord : κ → κ → Ordering} [TransCmp ord]
    {key : α → Option κ} {cmp : κ → κ → Option Ordering} {k : α → κ}
    (hk : ∀ x, key x = some (k x)) (hc : ∀ p q, cmp p q = some (ord p q))
    (a b : List α) (ha : SSorted k ord a) (hb : SSorted k ord b) :
    unionM key cmp a b = some (unionSpec k ord a b) ∧ SSorted k ord (unionSpec k ord a b) ∧
      ∀ z, z ∈ unionSpec k ord a b ↔ (z ∈ a ∨ z ∈ diffSpec k ord b a) := by
  refine ⟨unionM_eq hk hc a b ha hb, unionSpec_ssorted a b ha hb, fun z => ?_⟩
  simp [unionSpec, sortSpec]

/-- C10.2d `builtin_set_member` (binary search with `midpoint`, three-way comparison) = membership
    of the key in the set, for sets of any length -/
theorem setMember_spec {ord : κ → κ → Ordering} [TransCmp ord]
    {key : α → Option κ} {cmp : κ → κ → Option Ordering} {k : α → κ}
    (hk : ∀ x, key x = some (k x)) (hc : ∀ p q, cmp p q = some (ord p q))
    (x : α) (arr : List α) (hs : SSorted k ord arr) :
    setMemberM key cmp x arr = some (setMemberSpec k ord x arr) :=
  setMemberM_eq hk hc x arr hs

example : setMemberM (fun (n : Int) => some n) (fun a b => some (compare a b)) 7 [1, 3, 7, 9] = some true ∧
    setMemberM (fun (n : Int) => some n) (fun a b => some (compare a b)) 4 [1, 3, 7, 9] = some false := by
  decide

/-- non-vacuity: sets of pairs keyed by the first component, overlapping keys, one side exhausted
    first -/
example :
    let key := fun (p : Int × Int) => some p.1
    let cmp := fun (a b : Int) => some (compare a b)
    let a : List (Int × Int) := [(1, 10), (3, 30), (4, 40)]
    let b : List (Int × Int) := [(0, 5), (3, 35), (7, 75), (9, 95)]
    SSorted Prod.fst compare a ∧ SSorted Prod.fst compare b ∧
    unionM key cmp a b = some [(0, 5), (1, 10), (3, 30), (4, 40), (7, 75), (9, 95)] ∧
    interM key cmp a b = some [(3, 30)] ∧
    diffM key cmp a b = some [(1, 10), (4, 40)] := by
  refine ⟨?_, ?_, ?_, ?_, ?_⟩
  · simp [SSorted]; decide
  · simp [SSorted]; decide
  · simp [unionM]; decide
  · simp [interM]; decide
  · simp [diffM]; decide

/-! ### 3. removeAt / remove -/

/-- C10.3a `builtin_remove_at` (negative guard, two slices, checked `at + 1`, concatenation) equals
    `[arr[j] for j in 0..len-1 if j != at]` for every integer index — negative, in range, past the
    end, `i32::MAX` — on arrays whose length fits `i32`. -/
theorem removeAt_spec (arr : List α) (at_ : Int) (hlen : (arr.length : Int) < 2 ^ 31) :
    removeAtM arr at_ = removeAtSpec arr at_ :=
  removeAtM_eq arr at_ hlen

/-- the code before the repair did not satisfy this: the defect witness -/
theorem removeAt_orig_defect :
    removeAtOrig [1, 2, 3] (-1) = [1, 2, 1, 2, 3] ∧ removeAtSpec [1, 2, 3] (-1 : Int) = [1, 2, 3] := by
  decide

/-- C10.3b `builtin_remove` (find the first equal element, then `removeAt`) drops exactly the first
    element equal to `elem` -/
theorem remove_spec (p : α → Bool) (arr : List α) (hlen : (arr.length : Int) < 2 ^ 31) :
    removeM p arr = removeSpec p arr :=
  removeM_eq p arr hlen

example : removeAtM [10, 11, 12] 1 = [10, 12] ∧ removeAtM [10, 11, 12] 3 = [10, 11, 12] ∧
    removeAtM [10, 11, 12] (2 ^ 31 - 1) = [10, 11, 12] ∧
    removeM (· == 11) [10, 11, 12, 11] = [10, 12, 11] := by decide

/-! ### 4. flattenArrays / join -/

/-- C10.4a the balanced `flatten_inner` split equals the left fold of `++` -/
theorem flatten_spec (arrs : List (List α)) : flattenM arrs = flattenSpec arrs :=
  flattenM_eq arrs

/-- C10.4b the `std.join` loop with its `first` flag: null items are skipped and the separator
    stands exactly between consecutive kept items -/
theorem join_spec (sep : List α) (items : List (Option (List α))) :
    joinM sep items = joinSpec sep items :=
  joinM_eq sep items

example : joinM [0] [none, some [1], none, some [], some [2, 3], none] = [1, 0, 0, 2, 3] := by decide

end JrsVerif.StdArr
