/- C10 — Stdlib array, set and higher-order functions match their reference definitions.
   Property theorems only (helper lemmas live in Proofs/Std{Arr,Set,Sort}.lean).

   The algorithms are polymorphic in the element type `α`; a key function `key : α → Option κ` and a
   comparison `cmp : κ → κ → Option Ordering` may fail (`none` = the jsonnet call raised).  The
   hypotheses `hk`/`hc` say "the key function is total (`k`) and the keys are totally ordered
   (`ord`, a `Std.TransCmp`)" — the situation the documentation of `std.sort`/`std.set*` describes. -/
import JrsVerif.Proofs.StdArr
import JrsVerif.Proofs.StdSet
import JrsVerif.Proofs.StdSort
import JrsVerif.Proofs.StdUniq
import JrsVerif.Proofs.StdArrHof2

namespace JrsVerif.StdArr
open Std

variable {α β κ : Type}

/-! ### 1. sort -/

/-- C10.1 `sort_keyf`/`sort_identity` structure (key all elements, sort pairs with the std sort, drop
    keys): never fails for a total key into a total order, and the result is a permutation of the
    input, ordered by key, and stable (elements with equivalent keys keep their input order). -/
theorem sort_perm_sorted_stable {ord : κ → κ → Ordering} [TransCmp ord]
    {key : α → Option κ} {cmp : κ → κ → Option Ordering} {k : α → κ}
    (hk : ∀ x, key x = some (k x)) (hc : ∀ p q, cmp p q = some (ord p q)) (xs : List α) :
    ∃ r, sortByKeyM key cmp xs = some r ∧ r.Perm xs ∧
      r.Pairwise (fun a b => (ord (k a) (k b)).isLE) ∧
      ∀ c, r.filter (fun a => ord (k a) c == .eq) = xs.filter (fun a => ord (k a) c == .eq) :=
  sortByKeyM_total ord hk hc xs

/-- non-vacuity: pairs sorted by first component with ties; the tie keeps input order -/
example : sortByKeyM (fun (p : Int × String) => some p.1) (fun a b => some (compare a b))
    [(2, "x"), (1, "a"), (2, "y"), (1, "b")] = some [(1, "a"), (1, "b"), (2, "x"), (2, "y")] := by
  decide

/-- C10.1b the type-specialised fast paths (`get_sort_type` → number / string / generic) never
    change the outcome: whenever the type scan succeeds, `sort_keyf`/`sort_identity` on jsonnet
    values is the generic keyed sort with the jsonnet comparison `<`. -/
theorem sort_dispatch_transparent (key : V → Option V) (xs : List V) (vk : List (V × V))
    (t : Model.SortType) (hvk : withKeys key xs = some vk)
    (ht : Model.sortTypeGo .unknown (vk.map Prod.snd) = some t) :
    Model.sortCore key xs = sortByKeyM key cmpV xs :=
  Model.sortCore_eq key xs vk t hvk ht

/-- C10.1c ... and the type scan fails ("sort elements should have the same types") only when a
    number key and a string key are both present — keys that `<` cannot compare either: mixed types
    are an error, never a mis-sort. -/
theorem sort_type_error_only_mixed (ks : List V) (h : Model.sortTypeGo .unknown ks = none) :
    ∃ n s, V.num n ∈ ks ∧ V.str s ∈ ks ∧ cmpV (.num n) (.str s) = none := by
  obtain ⟨⟨n, hn⟩, ⟨s, hs⟩⟩ := Model.sortTypeGo_none ks h
  exact ⟨n, s, hn, hs, rfl⟩

example : okIs (Model.sort [.num 3, .num 1, .num 2] none) [.num 1, .num 2, .num 3] = true ∧
    (Model.sort [.num 3, .str "a"] none).isNone = true ∧
    (Model.sort [.num 3, .null] none).isNone = true ∧
    okIs (Model.sort [.num 2, .num 3, .num 0, .num 1] (some "mod2"))
      [.num 2, .num 0, .num 3, .num 1] = true := by
  refine ⟨?_, ?_, ?_, ?_⟩ <;> decide

/-- C10.1d `builtin_set` structure (`sort_keyf`, then `uniq_keyf` with key equality): for a total key
    into a total order the result is a set (strictly increasing keys), consists of input elements,
    and represents every key of the input. -/
theorem set_is_set {ord : κ → κ → Ordering} [TransCmp ord]
    {key : α → Option κ} {cmp : κ → κ → Option Ordering} {k : α → κ}
    (hk : ∀ x, key x = some (k x)) (hc : ∀ p q, cmp p q = some (ord p q)) (xs : List α) :
    ∃ r, (sortByKeyM key cmp xs).bind (uniqM key (fun p q => ord p q == .eq)) = some r ∧
      SSorted k ord r ∧ (∀ z ∈ r, z ∈ xs) ∧ (∀ x ∈ xs, ∃ z ∈ r, ord (k x) (k z) = .eq) :=
  setM_props hk hc xs

example : (sortByKeyM (fun (n : Int) => some (n % 3)) (fun a b => some (compare a b)) [5, 3, 1, 4, 6]).bind
    (uniqM (fun (n : Int) => some (n % 3)) (fun p q => compare p q == .eq)) = some [3, 1, 5] := by
  decide

/-! ### 2. set operations -/

/-- C10.2a `builtin_set_inter` = members of `a` whose key occurs in `b`; the result is a set -/
theorem setInter_spec {ord : κ → κ → Ordering} [TransCmp ord]
    {key : α → Option κ} {cmp : κ → κ → Option Ordering} {k : α → κ}
    (hk : ∀ x, key x = some (k x)) (hc : ∀ p q, cmp p q = some (ord p q))
    (a b : List α) (ha : SSorted k ord a) (hb : SSorted k ord b) :
    interM key cmp a b = some (interSpec k ord a b) ∧ SSorted k ord (interSpec k ord a b) :=
  ⟨interM_eq hk hc a b ha hb, List.Pairwise.sublist List.filter_sublist ha⟩

/-- C10.2b `builtin_set_diff` = members of `a` whose key does not occur in `b`; the result is a set -/
theorem setDiff_spec {ord : κ → κ → Ordering} [TransCmp ord]
    {key : α → Option κ} {cmp : κ → κ → Option Ordering} {k : α → κ}
    (hk : ∀ x, key x = some (k x)) (hc : ∀ p q, cmp p q = some (ord p q))
    (a b : List α) (ha : SSorted k ord a) (hb : SSorted k ord b) :
    diffM key cmp a b = some (diffSpec k ord a b) ∧ SSorted k ord (diffSpec k ord a b) :=
  ⟨diffM_eq hk hc a b ha hb, List.Pairwise.sublist List.filter_sublist ha⟩

/-- C10.2c `builtin_set_union` = `sort (a ++ (b \ a))` by key (values of `a` win); the result is a
    set and its members are exactly the members of `a` together with the members of `b` whose key
    does not occur in `a`. -/
theorem setUnion_spec {ord : κ → κ → Ordering} [TransCmp ord]
    {key : α → Option κ} {cmp : κ → κ → Option Ordering} {k : α → κ}
    (hk : ∀ x, key x = some (k x)) (hc : ∀ p q, cmp p q = some (ord p q))
    (a b : List α) (ha : SSorted k ord a) (hb : SSorted k ord b) :
    unionM key cmp a b = some (unionSpec k ord a b) ∧ SSorted k ord (unionSpec k ord a b) ∧
      ∀ z, z ∈ unionSpec k ord a b ↔ (z ∈ a ∨ z ∈ diffSpec k ord b a) := by
  refine ⟨unionM_eq hk hc a b ha hb, unionSpec_ssorted a b ha hb, fun z => ?_⟩
  simp [unionSpec, sortSpec]

/-- C10.2d `builtin_set_member` (binary search with `midpoint`, three-way comparison) = membership
    of the key in the set, for sets of any length -/
theorem setMember_spec {ord : κ → κ → Ordering} [TransCmp ord]
    {key : α → Option κ} {cmp : κ → κ → Option Ordering} {k : α → κ}
    (hk : ∀ x, key x = some (k x)) (hc : ∀ p q, cmp p q = some (ord p q))
    (x : α) (arr : List α) (hs : SSorted k ord arr) :
    setMemberM key cmp x arr = some (setMemberSpec k ord x arr) :=
  setMemberM_eq hk hc x arr hs

/-- C10.2e the key function is called only on elements that are compared: when one side is
    exhausted the other is appended (union, diff) or dropped (inter, diff) untouched, and
    `setMember` does not look at `x` when the set is empty — for EVERY key function, failing ones
    included (`acc + a[i:]`, `acc + b[j:]` in the documented definitions). -/
theorem set_ops_exhausted_side_untouched (key : α → Option κ) (cmp : κ → κ → Option Ordering)
    (x : α) (a b : List α) :
    unionM key cmp [] b = some b ∧ unionM key cmp a [] = some a ∧
    interM key cmp [] b = some [] ∧ interM key cmp a [] = some [] ∧
    diffM key cmp [] b = some [] ∧ diffM key cmp a [] = some a ∧
    setMemberM key cmp x [] = some false := by
  refine ⟨?_, ?_, ?_, ?_, ?_, ?_, ?_⟩
  · simp [unionM]
  · cases a <;> simp [unionM]
  · simp [interM]
  · cases a <;> simp [interM]
  · simp [diffM]
  · cases a <;> simp [diffM]
  · simp [setMemberM]

example : unionM (fun (_ : Int) => (none : Option Int)) (fun a b => some (compare a b)) [] [5] = some [5] ∧
    unionM (fun (_ : Int) => (none : Option Int)) (fun a b => some (compare a b)) [1] [5] = none := by
  refine ⟨?_, ?_⟩ <;> simp [unionM]

example : setMemberM (fun (n : Int) => some n) (fun a b => some (compare a b)) 7 [1, 3, 7, 9] = some true ∧
    setMemberM (fun (n : Int) => some n) (fun a b => some (compare a b)) 4 [1, 3, 7, 9] = some false := by
  decide

/-- non-vacuity: sets of pairs keyed by the first component, overlapping keys, one side exhausted
    first -/
example :
    let key := fun (p : Int × Int) => some p.1
    let cmp := fun (a b : Int) => some (compare a b)
    let a : List (Int × Int) := [(1, 10), (3, 30), (4, 40)]
    let b : List (Int × Int) := [(0, 5), (3, 35), (7, 75), (9, 95)]
    SSorted Prod.fst compare a ∧ SSorted Prod.fst compare b ∧
    unionM key cmp a b = some [(0, 5), (1, 10), (3, 30), (4, 40), (7, 75), (9, 95)] ∧
    interM key cmp a b = some [(3, 30)] ∧
    diffM key cmp a b = some [(1, 10), (4, 40)] := by
  refine ⟨?_, ?_, ?_, ?_, ?_⟩
  · simp [SSorted]; decide
  · simp [SSorted]; decide
  · simp [unionM]; decide
  · simp [interM]; decide
  · simp [diffM]; decide

/-! ### 3. removeAt / remove -/

/-- C10.3a `builtin_remove_at` (negative guard, two slices, checked `at + 1`, concatenation) equals
    `[arr[j] for j in 0..len-1 if j != at]` for every integer index — negative, in range, past the
    end, `i32::MAX` — on arrays whose length fits `i32`. -/
theorem removeAt_spec (arr : List α) (at_ : Int) (hlen : (arr.length : Int) < 2 ^ 31) :
    removeAtM arr at_ = removeAtSpec arr at_ :=
  removeAtM_eq arr at_ hlen

/-- the code before the repair did not satisfy this: the defect witness -/
theorem removeAt_orig_defect :
    removeAtOrig [1, 2, 3] (-1) = [1, 2, 1, 2, 3] ∧ removeAtSpec [1, 2, 3] (-1 : Int) = [1, 2, 3] := by
  decide

/-- C10.3b `builtin_remove` (find the first equal element, then `removeAt`) drops exactly the first
    element equal to `elem` -/
theorem remove_spec (p : α → Bool) (arr : List α) (hlen : (arr.length : Int) < 2 ^ 31) :
    removeM p arr = removeSpec p arr :=
  removeM_eq p arr hlen

example : removeAtM [10, 11, 12] 1 = [10, 12] ∧ removeAtM [10, 11, 12] 3 = [10, 11, 12] ∧
    removeAtM [10, 11, 12] (2 ^ 31 - 1) = [10, 11, 12] ∧
    removeM (· == 11) [10, 11, 12, 11] = [10, 12, 11] := by decide

/-! ### 4. flattenArrays / join -/

/-- C10.4a the balanced `flatten_inner` split equals the left fold of `++` -/
theorem flatten_spec (arrs : List (List α)) : flattenM arrs = flattenSpec arrs :=
  flattenM_eq arrs

/-- C10.4b the `std.join` loop with its `first` flag: null items are skipped and the separator
    stands exactly between consecutive kept items -/
theorem join_spec (sep : List α) (items : List (Option (List α))) :
    joinM sep items = joinSpec sep items :=
  joinM_eq sep items

example : joinM [0] [none, some [1], none, some [], some [2, 3], none] = [1, 0, 0, 2, 3] := by decide

/-! ### 5. round 3 — the remaining loops of arrays.rs / math.rs / sort.rs

Array arguments are lists of lazily evaluated elements (`none` = evaluating the element raises);
callbacks may fail.  `…Loop`/`…M` are the Rust loops, `…Spec` the documented meaning.  Round 4: the
loops that call a jsonnet function on an element hand it the thunk (`Option α → …`), as the
documented definitions hand it `arr[i]`; the round-3 statements for callbacks that use their
argument are kept as the `…_strict` corollaries. -/

/-- C10.5a `builtin_foldl` / `builtin_foldr` (accumulator loop over `iter_lazy()`, `.rev()`), at full
    strength: the callback receives thunks — `init` unevaluated in the first call, an evaluated
    result afterwards, and the element unevaluated — and the loop is the documented recursion
    `aux(func, arr, func(running, arr[idx]), idx ± 1) tailstrict`: every call is evaluated before the
    next one, its arguments are not; a failing call is an error; the result is the last call's
    result, or `init` itself for the empty collection. -/
theorem fold_spec (f : Option β → Option α → Option β) (g : Option α → Option β → Option β)
    (init : Option β) (xs : List (Option α)) :
    foldlLoop f init xs = foldlSpec f init xs ∧ foldrLoop g init xs = foldrSpec g init xs :=
  ⟨foldlLoop_eq f init xs, foldrLoop_eq g init xs⟩

/-- C10.5a′ the round-3 statement is the special case of callbacks that use both arguments
    (`strict2 f = fun acc x => acc.bind fun a => x.bind (f a)`): every element is evaluated, then the
    result is the plain left / right fold; any failure is an error. -/
theorem fold_spec_strict (f : β → α → Option β) (g : α → β → Option β) (init : β) (xs : List (Option α)) :
    foldlLoop (strict2 f) (some init) xs = (evalAll xs).bind (foldlStrict f init) ∧
    foldrLoop (strict2r g) (some init) xs = (evalAll xs).bind (foldrStrict g init) :=
  ⟨foldlLoop_strict f init xs, foldrLoop_strict g init xs⟩

/-- C10.5a″ what the callback does not use is unobservable: a callback that ignores the element
    gives the same result on every array of the same length (failing elements included), and a
    callback that ignores the running value gives the same result for every `init` (a failing one
    included) as soon as the collection is not empty. -/
theorem fold_unused_unobservable (h : Option β → Option β) (h' : Option α → Option β)
    (init init' : Option β) (xs ys : List (Option α)) :
    (xs.length = ys.length →
      foldlLoop (fun acc _ => h acc) init xs = foldlLoop (fun acc _ => h acc) init ys ∧
      foldrLoop (fun _ acc => h acc) init xs = foldrLoop (fun _ acc => h acc) init ys) ∧
    (xs ≠ [] →
      foldlLoop (fun _ e => h' e) init xs = foldlLoop (fun _ e => h' e) init' xs ∧
      foldrLoop (fun e _ => h' e) init xs = foldrLoop (fun e _ => h' e) init' xs) := by
  have hl : ∀ (xs ys : List (Option α)) (acc : Option β), xs.length = ys.length →
      foldlLoop (fun acc _ => h acc) acc xs = foldlLoop (fun acc _ => h acc) acc ys := by
    intro xs
    induction xs with
    | nil => intro ys acc hlen; cases ys with | nil => rfl | cons _ _ => simp at hlen
    | cons e r ih =>
      intro ys acc hlen
      cases ys with
      | nil => simp at hlen
      | cons e' r' =>
        simp only [foldlLoop]
        cases h acc with
        | none => rfl
        | some a => exact ih r' (some a) (by simpa using hlen)
  have hi : ∀ (xs : List (Option α)) (a b : Option β), xs ≠ [] →
      foldlLoop (fun _ e => h' e) a xs = foldlLoop (fun _ e => h' e) b xs := by
    intro xs a b hne
    cases xs with
    | nil => exact absurd rfl hne
    | cons e r => simp only [foldlLoop]
  refine ⟨fun hlen => ⟨hl xs ys init hlen, ?_⟩, fun hne => ⟨hi xs init init' hne, ?_⟩⟩
  · unfold foldrLoop
    rw [foldrGo_eq_foldlLoop, foldrGo_eq_foldlLoop]
    exact hl xs.reverse ys.reverse init (by simpa using hlen)
  · unfold foldrLoop
    rw [foldrGo_eq_foldlLoop, foldrGo_eq_foldlLoop]
    exact hi xs.reverse init init' (by simpa using hne)

example : foldlLoop (strict2 fun (a : List Nat) (x : Nat) => some (a ++ [x])) (some []) [some 1, some 2, some 3] = some [1, 2, 3] ∧
    foldrLoop (strict2r fun (x : Nat) (a : List Nat) => some (a ++ [x])) (some []) [some 1, some 2, some 3] = some [3, 2, 1] ∧
    foldlLoop (strict2 fun (a : List Nat) (x : Nat) => some (a ++ [x])) (some []) [some 1, none] = none := by decide

/-- the repaired defect: `std.foldl(function(acc, x) acc, [error "a"], 0)` is `0`,
    `std.foldl(function(acc, x) x, [1, 2], error "i")` is `2`, `std.foldl(f, [], error "i")` fails -/
example : foldlLoop (fun (acc : Option Nat) (_ : Option Nat) => acc) (some 0) [none] = some 0 ∧
    foldrLoop (fun (_ : Option Nat) (acc : Option Nat) => acc.map (· + 1)) (some 0) [none, some 7] = some 2 ∧
    foldlLoop (fun (_ : Option Nat) (e : Option Nat) => e) none [some 1, some 2] = some 2 ∧
    foldlLoop (fun (acc : Option Nat) (_ : Option Nat) => acc) none [] = none := by decide

/-- the `Either![ArrValue, IStr]` dispatch: a string is folded as the array of its characters, any
    other value is rejected, and on arrays the loop is the documented recursion -/
theorem fold_dispatch_spec (f : Option V → Option V → Option V) (init : Option V) :
    (∀ xs, Model.foldl f (.arr xs) init = foldlSpec f init xs) ∧
    (∀ s, Model.foldl f (Idx.ofV (.str s)) init = foldlSpec f init ((chars s).map some)) ∧
    (∀ xs, Model.foldr f (.arr xs) init = foldrSpec f init xs) ∧
    (∀ s, Model.foldr f (Idx.ofV (.str s)) init = foldrSpec f init ((chars s).map some)) ∧
    Model.foldl f (Idx.ofV .null) init = none ∧ Model.foldr f (Idx.ofV (.num 1)) init = none := by
  refine ⟨fun xs => ?_, fun s => ?_, fun xs => ?_, fun s => ?_, rfl, rfl⟩
  · simp [Model.foldl, foldlLoop_eq]
  · simp [Model.foldl, Idx.ofV, charsL, foldlLoop_eq]
  · simp [Model.foldr, foldrLoop_eq]
  · simp [Model.foldr, Idx.ofV, charsL, foldrLoop_eq]

/-- ... and for callbacks that use both arguments on evaluated arrays (the round-3 statement) -/
theorem fold_dispatch_spec_strict (f : V → V → Option V) (init : V) :
    (∀ xs, Model.foldl (strict2 f) (Idx.ofV (.arr xs)) (some init) = foldlStrict f init xs) ∧
    (∀ s, Model.foldl (strict2 f) (Idx.ofV (.str s)) (some init) = foldlStrict f init (chars s)) ∧
    (∀ xs, Model.foldr (strict2r f) (Idx.ofV (.arr xs)) (some init) = foldrStrict f init xs) ∧
    (∀ s, Model.foldr (strict2r f) (Idx.ofV (.str s)) (some init) = foldrStrict f init (chars s)) := by
  refine ⟨fun xs => ?_, fun s => ?_, fun xs => ?_, fun s => ?_⟩
  · simp [Model.foldl, Idx.ofV, foldlLoop_strict]
  · simp [Model.foldl, Idx.ofV, charsL, foldlLoop_strict]
  · simp [Model.foldr, Idx.ofV, foldrLoop_strict]
  · simp [Model.foldr, Idx.ofV, charsL, foldrLoop_strict]

/-- C10.5b `builtin_any` / `builtin_all` / `builtin_member` equal "find the first element that does
    not have the neutral verdict": none → neutral answer, a deciding one → its answer, anything
    else (failing element, non-boolean) → error. -/
theorem any_all_spec (t : α → Option Bool) (eq : α → α → Option Bool) (x : α) (xs : List (Option α)) :
    anyLoop t xs = anySpec t xs ∧ allLoop t xs = allSpec t xs ∧
    memberLoop eq x xs = anySpec (fun y => eq y x) xs :=
  ⟨anyLoop_eq t xs, allLoop_eq t xs, by rw [memberLoop_eq_anyLoop, anyLoop_eq]⟩

/-- C10.5c short circuit: once the deciding element is met the elements after it are irrelevant —
    they may fail to evaluate or be non-booleans; and the neutral answer requires every element to
    evaluate to the neutral value. -/
theorem any_all_shortcircuit (t : α → Option Bool) (pre rest rest' : List (Option α)) (d : Option α) :
    ((∀ e ∈ pre, verdict t e = some false) → verdict t d ≠ some false →
      anyLoop t (pre ++ d :: rest) = anyLoop t (pre ++ d :: rest')) ∧
    ((∀ e ∈ pre, verdict t e = some true) → verdict t d ≠ some true →
      allLoop t (pre ++ d :: rest) = allLoop t (pre ++ d :: rest')) ∧
    (∀ xs, anyLoop t xs = some false ↔ ∀ e ∈ xs, verdict t e = some false) ∧
    (∀ xs, allLoop t xs = some true ↔ ∀ e ∈ xs, verdict t e = some true) :=
  ⟨fun h1 h2 => by rw [anyLoop_decided t pre rest d h1 h2, anyLoop_decided t pre rest' d h1 h2],
   fun h1 h2 => by rw [allLoop_decided t pre rest d h1 h2, allLoop_decided t pre rest' d h1 h2],
   anyLoop_false_iff t, allLoop_true_iff t⟩

example : anyLoop asBoolV [some (.bool false), some (.bool true), none, some (.num 1)] = some true ∧
    allLoop asBoolV [some (.bool true), some (.bool false), none] = some false ∧
    anyLoop asBoolV [some (.bool false), none, some (.bool true)] = none ∧
    memberLoop (fun a b => some (eqV a b)) (.num 2) [some (.num 1), some (.num 2), none] = some true := by
  decide

/-- C10.5d `builtin_find` / `builtin_count` (full pass, `enumerate` counter, `out.push`): the indices
    (resp. number) of the elements whose test is true, provided every element and test evaluates -/
theorem find_count_spec (t : α → Option Bool) (xs : List (Option α)) :
    findLoop t 0 [] xs = findSpec t xs ∧ countLoop t 0 xs = countSpec t xs := by
  refine ⟨?_, ?_⟩
  · rw [findLoop_eq]; simp [findSpec]
  · rw [countLoop_eq]; simp [countSpec]

example : findLoop (fun (y : Nat) => some (y == 7)) 0 [] [some 7, some 1, some 7] = some [0, 2] ∧
    countLoop (fun (y : Nat) => some (y == 7)) 0 [some 7, some 1, some 7] = some 2 := by decide

/-- C10.5e `ArrValue::filter` — a value pass for arrays whose elements are values already
    (`iter_cheap()`), otherwise one pass over the thunks — keeps exactly the elements on which the
    predicate says `true`, whichever path runs; a failing element survives as long as the predicate
    does not force it. -/
theorem filter_spec (p : Option α → Option Bool) (cheap : Bool) (xs : List (Option α)) :
    filterM p cheap xs = filterSpec p xs :=
  filterM_eq p cheap xs

/-- C10.5f `builtin_filter_map` = filter, then a lazy map over the kept thunks -/
theorem filterMap_spec (p : Option α → Option Bool) (g : Option α → Option β) (cheap : Bool)
    (xs : List (Option α)) :
    filterMapM p g cheap xs = (filterSpec p xs).map (fun ys => ys.map g) := by
  simp [filterMapM, filterM_eq]

example : filterM (fun (_ : Option Nat) => some true) false [some 1, none, some 3] = some [some 1, none, some 3] ∧
    filterM (fun (e : Option Nat) => e.map (· > 1)) true [some 1, some 2, some 3] = some [some 2, some 3] ∧
    filterM (fun (e : Option Nat) => e.map (· > 1)) false [some 1, some 2, some 3] = some [some 2, some 3] ∧
    filterM (fun (e : Option Nat) => e.map (· > 1)) false [some 1, none] = none := by decide

/-- C10.5g `mapWithIndex`: element `i` is `f(i, thunk i)` (index passed as `u32`) -/
theorem mapWithIndex_spec (f : Nat → Option α → Option β) (xs : List (Option α))
    (h : xs.length ≤ 2 ^ 32) :
    mapIdxLoop f 0 xs = (xs.zipIdx 0).map (fun p => f p.2 p.1) :=
  mapIdxLoop_eq f 0 xs (by omega)

example : mapIdxLoop (fun i (e : Option Nat) => e.map (· + i)) 0 [some 10, none, some 10] =
    [some 10, none, some 12] := by decide

/-- C10.5h `builtin_flatmap` (both the array and the string branch), at full strength: the callback
    receives the element thunk; every call succeeds with null or a sequence, result = concatenation
    of the non-null pieces (for arrays the pieces are the thunks of the returned arrays) -/
theorem flatMap_spec (f : Option α → Option (Option (List β))) (xs : List (Option α)) :
    flatMapLoop f [] xs = flatMapSpec f xs := by
  rw [flatMapLoop_eq]; cases flatMapSpec f xs <;> simp

/-- C10.5h′ the round-3 statement is the special case of a callback that uses its argument: every
    element is evaluated first -/
theorem flatMap_spec_strict (f : α → Option (Option (List β))) (xs : List (Option α)) :
    flatMapLoop (fun e => e.bind f) [] xs = flatMapStrict f xs := by
  rw [flatMap_spec, flatMapSpec_strict]

example : flatMapLoop (fun (e : Option Nat) => e.bind fun n => if n = 0 then some none else some (some [n, n])) []
      [some 1, some 0, some 2] = some [1, 1, 2, 2] ∧
    flatMapLoop (fun (_ : Option Nat) => some (some [7])) [] [none, some 1] = some [7, 7] ∧
    flatMapLoop (fun (e : Option Nat) => some (some [e, e])) [] [none] = some [none, none] ∧
    flatMapLoop (fun (e : Option Nat) => e.bind fun n => some (some [n])) [] [some 1, none] = none := by decide

/-- C10.5i `builtin_min_array` / `builtin_max_array` (`is_empty` guard, `onEmpty` thunk forced only
    for the empty array, `array_top1` scan over the thunks), at full strength: for a key function
    that is total on thunks into a total order the scan equals the documented fold "keep the best so
    far, replace it only by a strictly better one" over the THUNKS — the result is the winning thunk,
    evaluated; a losing element is only ever looked at by the key function. -/
theorem minmax_spec {key : Option α → Option κ} {cmp : κ → κ → Option Ordering} {k : Option α → κ}
    {ord : κ → κ → Ordering} (hk : ∀ e, key e = some (k e)) (hc : ∀ p q, cmp p q = some (ord p q))
    (want : Ordering) (onEmpty onEmpty' : Option (Option α)) (m : Option α) (r : List (Option α)) :
    top1M key cmp want [] onEmpty = evalOnEmpty onEmpty ∧
    top1M key cmp want (m :: r) onEmpty = top1Spec k ord want m r ∧
    (∀ xs : List (Option α), xs ≠ [] → top1M key cmp want xs onEmpty = top1M key cmp want xs onEmpty') := by
  refine ⟨rfl, ?_, ?_⟩
  · rw [top1M_eq hk hc]
  · intro xs hxs
    cases xs with
    | nil => exact absurd rfl hxs
    | cons e r => rfl

/-- C10.5i′ the round-3 statement is the special case of a key function that uses its argument
    (`fun e => e.bind key`): every element is evaluated and the scan runs on the values -/
theorem minmax_spec_strict {key : α → Option κ} {cmp : κ → κ → Option Ordering} {k : α → κ}
    {ord : κ → κ → Ordering} (hk : ∀ x, key x = some (k x)) (hc : ∀ p q, cmp p q = some (ord p q))
    (want : Ordering) (onEmpty : Option (Option α)) (m : α) (r : List α) (xs : List (Option α)) :
    top1M (fun e => e.bind key) cmp want ((m :: r).map some) onEmpty = some (top1Spec k ord want m r) ∧
    (none ∈ xs → top1M (fun e => e.bind key) cmp want xs onEmpty = none) := by
  refine ⟨?_, fun hmem => ?_⟩
  · rw [top1M_strict hk hc]; simp [evalAll]
  · rw [top1M_strict hk hc]
    cases xs with
    | nil => simp at hmem
    | cons e r => simp [evalAll_of_mem_none hmem]

/-- C10.5j ... and that scan returns the FIRST minimal element (`minArray`): everything before it
    has a strictly greater key, nothing after it a strictly smaller one; `maxArray` symmetrically. -/
theorem minmax_first_extremum {ord : κ → κ → Ordering} [TransCmp ord] (k : α → κ) (m : α) (r : List α) :
    (∃ pre post, m :: r = pre ++ top1Spec k ord .lt m r :: post ∧
      (∀ y ∈ pre, ord (k (top1Spec k ord .lt m r)) (k y) = .lt) ∧
      (∀ y ∈ post, ord (k y) (k (top1Spec k ord .lt m r)) ≠ .lt)) ∧
    (∃ pre post, m :: r = pre ++ top1Spec k ord .gt m r :: post ∧
      (∀ y ∈ pre, ord (k (top1Spec k ord .gt m r)) (k y) = .gt) ∧
      (∀ y ∈ post, ord (k y) (k (top1Spec k ord .gt m r)) ≠ .gt)) := by
  refine ⟨?_, ?_⟩
  · simpa using top1Spec_first_min (ord := ord) k r m [] [] (by simp) (by simp)
  · rw [top1Spec_gt_eq_flip]
    obtain ⟨pre, post, h1, h2, h3⟩ :=
      top1Spec_first_min (ord := fun a b => ord b a) k r m [] [] (by simp) (by simp)
    refine ⟨pre, post, by simpa using h1, fun y hy => ?_, fun y hy => ?_⟩
    · exact OrientedCmp.gt_of_lt (h2 y hy)
    · intro hgt; exact h3 y hy (OrientedCmp.lt_of_gt hgt)

example : top1M (fun (e : Option (Int × String)) => e.bind fun p => some p.1) (fun a b => some (compare a b)) .lt
      [some (2, "a"), some (1, "b"), some (1, "c")] none = some (1, "b") ∧
    top1M (fun (e : Option (Int × String)) => e.bind fun p => some p.1) (fun a b => some (compare a b)) .gt
      [some (2, "a"), some (1, "b"), some (2, "c")] (some none) = some (2, "a") ∧
    top1M (fun (e : Option (Int × String)) => e.bind fun p => some p.1) (fun a b => some (compare a b)) .gt
      [] (some (some (0, "dflt"))) = some (0, "dflt") ∧
    -- the repaired defect: `std.minArray([1, error "x"], keyF=function(x) 0)` is `1`
    top1M (fun (_ : Option (Int × String)) => some (0 : Int)) (fun a b => some (compare a b)) .lt
      [some (1, "a"), none] none = some (1, "a") := by decide

/-- C10.5k `builtin_sum` (`fold(0.0, +)` — not `Iterator::sum`, whose empty value is `-0.0`) -/
theorem sum_spec (ns : List Int) : sumLoop 0 ns = ns.sum := by
  rw [sumLoop_eq]; omega

/-- C10.5l `builtin_range`: the `to < from` guard and `RangeArray`'s wrapping `usize` length and
    `nth` give `[from, from+1, …, to]` for all `i32` bounds, without a `length checked` panic -/
theorem range_spec (a b : Int) (ha : inI32 a = true) (hb : inI32 b = true) :
    rangeM a b = some (rangeSpec a b) :=
  rangeM_eq a b ha hb

example : rangeM (-2) 1 = some [-2, -1, 0, 1] ∧ rangeM 3 2 = some [] ∧ rangeM 3 1 = some [] ∧
    rangeM 0 2147483648 = none := by decide

/-- C10.5m `builtin_repeat`, array branch (`usize` count, `checked_mul`, `index % data.len()`) is
    `count` copies in a row whenever the total length fits `usize` -/
theorem repeat_spec (xs : List α) (n : Int) (hn : 0 ≤ n) (hn2 : n < 18446744073709551616)
    (hlen : xs.length * n.toNat < 18446744073709551616) :
    repeatArrM xs n = some (Spec.repeatL xs n.toNat) ∧ repeatArrM xs (-1 - n) = none := by
  refine ⟨repeatArrM_eq xs n hn hn2 hlen, ?_⟩
  unfold repeatArrM
  rw [if_pos (by omega)]

example : repeatArrM [1, 2] 3 = some [1, 2, 1, 2, 1, 2] ∧ repeatArrM ([] : List Nat) 5 = some [] ∧
    repeatArrM [1] (-1) = none := by decide

/-- C10.5n `builtin_make_array`: bounds `0 ≤ sz ≤ i32::MAX`, the `sz == 0` and the constant-function
    shortcuts change nothing — the result is `[func(0), …, func(sz-1)]` (lazily) -/
theorem makeArray_spec (sz : Int) (f : Int → Option β) (trivial : Option β)
    (h0 : 0 ≤ sz) (h1 : sz ≤ 2147483647) (htriv : ∀ t, trivial = some t → ∀ i, f i = some t) :
    makeArrayM sz f trivial = some (makeArraySpec sz.toNat f) :=
  makeArrayM_eq sz f trivial h0 h1 htriv

example : makeArrayM 3 (fun i => some (i * 2)) none = some [some 0, some 2, some 4] ∧
    makeArrayM 2 (fun _ => some (7 : Int)) (some 7) = some [some 7, some 7] ∧
    makeArrayM (-1) (fun i => some i) none = none := by decide

/-- C10.5o `IndexableVal::slice`, string branch (`skip/take/step_by`, unclamped positive positions,
    `usize::MAX` default end) is the same Python-style slice as on arrays -/
theorem slice_string_spec (cs : List α) (i e : Option Int) (step : Nat)
    (hlen : cs.length ≤ 18446744073709551615) :
    sliceStrM cs i e step = sliceL cs i e step :=
  sliceStrM_eq cs i e step hlen

example : sliceStrM ['a', 'b', 'c', 'd', 'e'] (some 1) none 2 = ['b', 'd'] ∧
    sliceStrM ['a', 'b', 'c'] (some (-2)) (some 9) 1 = ['b', 'c'] ∧
    sliceStrM ['a', 'b', 'c'] (some 7) (some 2) 1 = [] := by decide

/-- C10.5p `builtin_lines` (`join("\n", arr ++ [""])`) = every non-null line followed by a newline -/
theorem lines_spec (nl : α) (items : List (Option (List α))) : linesM nl items = linesSpec nl items :=
  linesM_eq nl items

/-- C10.5q `deep_join_inner` (one output buffer threaded through the recursion) = concatenation of
    the strings of the nested array in order; anything that is not a string or array is an error -/
theorem deepJoin_spec (v : V) : deepJoinGo [] v = deepJoinSpec v := by
  rw [deepJoinGo_eq]; cases deepJoinSpec v <;> simp

/-- C10.5r `builtin_flatten_deep_array` (`process(value, &mut out)`) = the leaves in order -/
theorem flattenDeep_spec (v : V) : Model.flattenDeep v = Spec.flattenDeep v := by
  simp [Model.flattenDeep, flattenDeepGo_eq]

example : deepJoinGo [] (.arr [.str "a", .arr [.str "b", .arr []], .str "c"]) = some ['a', 'b', 'c'] ∧
    deepJoinGo [] (.arr [.str "a", .num 1]) = none ∧
    Model.flattenDeep (.arr [.num 1, .arr [.arr [.num 2], .null]]) = [.num 1, .num 2, .null] := by
  refine ⟨?_, ?_, ?_⟩ <;> simp [deepJoinGo, deepJoinGoL, Model.flattenDeep, flattenDeepGo, flattenDeepGoL]

/-! ### 6. sort beyond the insertion-sort cut-off: the contract determines the result -/

/-- C10.6a For a total key into a total preorder there is exactly one arrangement that is ordered by
    key and stable.  Hence *any* implementation of `slice::sort_by` that meets its documented
    contract (ordered, stable) returns what the modelled short-slice insertion sort returns: the
    model is exact for arrays of every length, and the assumption about Rust's std shrinks to its
    documentation. -/
theorem sort_contract_determines {ord : κ → κ → Ordering} [TransCmp ord]
    {key : α → Option κ} {cmp : κ → κ → Option Ordering} {k : α → κ}
    (hk : ∀ x, key x = some (k x)) (hc : ∀ p q, cmp p q = some (ord p q)) (xs r : List α)
    (hs : r.Pairwise (fun a b => (ord (k a) (k b)).isLE))
    (hst : ∀ c, r.filter (fun a => ord (k a) c == .eq) = xs.filter (fun a => ord (k a) c == .eq)) :
    sortByKeyM key cmp xs = some r :=
  sortByKeyM_determined hk hc xs r hs hst

/-- C10.6b in particular the native keyed sort equals the reference sort (core Lean's verified
    stable merge sort) on every input -/
theorem sort_eq_reference {ord : κ → κ → Ordering} [TransCmp ord]
    {key : α → Option κ} {cmp : κ → κ → Option Ordering} {k : α → κ}
    (hk : ∀ x, key x = some (k x)) (hc : ∀ p q, cmp p q = some (ord p q)) (xs : List α) :
    sortByKeyM key cmp xs = some (sortSpec k ord xs) :=
  sortByKeyM_eq_sortSpec hk hc xs

example : sortByKeyM (fun (p : Int × String) => some p.1) (fun a b => some (compare a b))
    [(2, "x"), (1, "a"), (2, "y"), (1, "b")] =
    some (sortSpec Prod.fst compare [(2, "x"), (1, "a"), (2, "y"), (1, "b")]) :=
  sort_eq_reference (fun _ => rfl) (fun _ _ => rfl) _

/-- C10.6c the identity path uses the *unstable* sorts; there only "ordered permutation" is
    documented, which still determines the result because the jsonnet comparison calls two values
    equivalent only when they are equal -/
theorem sort_unstable_determined {ord : κ → κ → Ordering} [TransCmp ord] (k : α → κ)
    (hanti : ∀ a b, ord (k a) (k b) = .eq → a = b) (r1 r2 : List α)
    (h1 : r1.Pairwise (fun a b => (ord (k a) (k b)).isLE))
    (h2 : r2.Pairwise (fun a b => (ord (k a) (k b)).isLE)) (hp : r1.Perm r2) : r1 = r2 :=
  sorted_perm_unique k hanti r1 r2 h1 h2 hp

/-- the antisymmetry hypothesis of C10.6c holds for the jsonnet comparison of values -/
theorem compare_eq_only_equal (a b : V) (h : cmpV a b = some .eq) : a = b := cmpV_eq a b h

example : cmpV (.arr [.num 1, .str "a"]) (.arr [.num 1, .str "a"]) = some .eq := by decide

end JrsVerif.StdArr
