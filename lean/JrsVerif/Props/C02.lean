/- C02 — Object inheritance, late binding and visibility follow the object model.
   Property theorems only.  (Round 2 adds, below the first block: the literal `get_idx_uncached`
   loop and the `get_idx` cache — Model/ObjLit; `has_assertions` and `run_assertions` —
   Model/ObjAssert; agreement with the definitional interpreter's object semantics —
   Proofs/ObjEval; bare `super` values — Model/ObjSuper.)  `compile t` is the core vector the real builder produces for the object
   term `t` (checked on every run through the `verif_core_shape` hook); the four walkers are the
   models of `get_idx_uncached`, `has_field_include_hidden_idx`, `field_visibility_idx`,
   `fields_visibility`; `defs/chain/visSpec` is the language-level meaning. -/
import JrsVerif.Proofs.Obj
import JrsVerif.Proofs.ObjLit
import JrsVerif.Proofs.ObjAssert
import JrsVerif.Proofs.ObjEval
import JrsVerif.Proofs.ObjSuper

namespace JrsVerif.Obj

/-- C02.1 a read of `n` on any constructible object takes exactly the definitions from the
    right-most layer down to the first plain one (`+:` layers accumulate), removed keys masked. -/
theorem get_compile (t : OT) (n : Name) :
    (getIdx (compile t) (compile t).length n).map (·.1) = specGet t n := by
  have := collect_compile t [] n
  simpa [getIdx, specGet, collect, chainWith_nil] using this

/-- C02.1' `super.n` evaluated from ANY layer `l` is the read of `n` on the object consisting of
    the layers left of `l` — which is itself a constructible object. -/
theorem get_super (t : OT) (l : Nat) (n : Name) :
    ∃ t', (compile t).take l = compile t' ∧
      (getIdx (compile t) l n).map (·.1) = specGet t' n := by
  obtain ⟨t', ht⟩ := take_compile t l
  refine ⟨t', ht, ?_⟩
  have := collect_compile t' [] n
  simp only [getIdx, ht]
  simpa [specGet, collect, chainWith_nil] using this

/-- C02.1'' every contribution's body is bound to `super` = the layers left of the layer that
    defines it (its `sup` index is the index of its own core). -/
theorem get_sup_binding (cores : List Core) (idx : Nat) (n : Name) (f : Field) (l : Nat)
    (h : (f, l) ∈ getIdx cores idx n) :
    ∃ fs a, (cores.take idx)[l]? = some (.oop fs a) ∧ lookup fs n = some f := by
  have := collect_sup_sound (cores.take idx).reverse 0 n f l h
  simpa using this

/-- C02.2 `objectHasAll` / `in` / `"f" in super`: exists iff some unmasked definition exists. -/
theorem has_compile (t : OT) (n : Name) :
    hasIdx (compile t) (compile t).length n = specHas t n := by
  have := hasGo_compile t [] n
  simpa [hasIdx, hasGo] using this

theorem has_super (t : OT) (l : Nat) (n : Name) :
    ∃ t', (compile t).take l = compile t' ∧ hasIdx (compile t) l n = specHas t' n := by
  obtain ⟨t', ht⟩ := take_compile t l
  refine ⟨t', ht, ?_⟩
  have := hasGo_compile t' [] n
  simp only [hasIdx, ht]
  simpa [hasGo] using this

/-- the same with the witness computed: `takeTerm t l` is the object `super` denotes at layer `l` -/
theorem get_super_takeTerm (t : OT) (l : Nat) (n : Name) :
    (getIdx (compile t) l n).map (·.1) = specGet (takeTerm t l) n := by
  have := get_compile (takeTerm t l) n
  rw [compile_takeTerm] at this
  simp only [getIdx, List.take_length] at this ⊢
  exact this

theorem has_super_takeTerm (t : OT) (l : Nat) (n : Name) :
    hasIdx (compile t) l n = specHas (takeTerm t l) n := by
  have := has_compile (takeTerm t l) n
  rw [compile_takeTerm] at this
  simp only [hasIdx, List.take_length] at this ⊢
  exact this

/-- C02.3 per-name visibility: the top-most `::`/`:::` marker among the unmasked definitions wins,
    a field with only `:` definitions is visible, no definition = absent. -/
theorem vis_compile (t : OT) (n : Name) :
    visIdx (compile t) (compile t).length n = specVis t n := by
  have h := visGo_compile t [] false n
  simp only [List.append_nil] at h
  simp only [visIdx, List.take_length, h, specVis]
  have := visWith_end (defs t n) false
  simp only [visGo] at this ⊢
  rw [this]
  cases visSpec (defs t n) <;> simp

/-- C02.3' the global walker (`fields_visibility`, used by objectFields*, `==`, manifestation,
    `std.length`) and the per-name walker (used by objectHas, `in`) agree on EVERY core vector. -/
theorem visAll_eq_visIdx (cores : List Core) (n : Name) :
    visAll cores n = visIdx cores cores.length n := by
  have := visAllGo_eq_visGo cores.reverse 0 0 0 false n rfl
  simpa [visAll, visIdx, curOf] using this

/-- C02.4 field listings are strictly ascending (sorted, no duplicates) … -/
theorem fieldsEx_sorted (cores : List Core) (h : Bool) : Sorted (fieldsEx cores h) :=
  sorted_filter _ _ (sortDedup_sorted _)

/-- … and list exactly the names whose visibility by the language rule is (visible or, with
    `include_hidden`, present). -/
theorem fieldsEx_mem_iff (t : OT) (h : Bool) (x : Name) :
    x ∈ fieldsEx (compile t) h ↔ x ∈ specFields t h := by
  simp only [fieldsEx, specFields, List.mem_filter, mem_sortDedup, coreNames_compile,
    visAll_eq_visIdx, vis_compile]

/-- presence (`objectHasAll`) and visibility (`objectFieldsAll`) are consistent -/
theorem has_iff_vis (t : OT) (n : Name) : specHas t n = (specVis t n).isSome := by
  simp only [specHas, specVis]
  cases h : defs t n with
  | nil => simp [visSpec]
  | cons f r =>
    simp only [List.isEmpty_cons, Bool.not_false, visSpec]
    cases f.vis <;> simp
    cases visSpec r <;> simp

/-- C02.5 removed keys: masked on the object they were removed from, other keys untouched, and
    the mask never reaches below that object (the saturating `prev_layers` counter). -/
theorem removeKey_masks (o : OT) (ns : List Name) (n : Name) (h : n ∈ ns) :
    getIdx (compile (.rm o ns)) (compile (.rm o ns)).length n = [] := by
  have := get_compile (.rm o ns) n
  have hc : ns.contains n = true := by simpa using h
  simp only [specGet, defs, hc, ↓reduceIte, chain, List.map_eq_nil_iff] at this
  exact this

theorem removeKey_other (o : OT) (ns : List Name) (n : Name) (h : n ∉ ns) :
    (getIdx (compile (.rm o ns)) (compile (.rm o ns)).length n).map (·.1) = specGet o n := by
  rw [get_compile]
  simp [specGet, defs, h]

theorem removeKey_local (a o : OT) (ns : List Name) (n : Name) (h : n ∈ ns) :
    (getIdx (compile (.add a (.rm o ns))) (compile (.add a (.rm o ns))).length n).map (·.1)
      = specGet a n := by
  rw [get_compile]
  simp [specGet, defs, h]

/-- C02.6 extension is associative on the representation -/
theorem extend_assoc (a b c : OT) : compile (.add (.add a b) c) = compile (.add a (.add b c)) := by
  simp [compile, List.append_assoc]

/-- `+:` contributions are folded deepest-first: the read's contribution list is the prefix of
    the definitions ending at the first plain one -/
theorem plus_fold_order (fs gs : List Field) (n : Name) (f g : Field)
    (hf : lookup fs n = some f) (hg : lookup gs n = some g) (hadd : g.add = true)
    (hplain : f.add = false) (hne : fs ≠ []) (hne' : gs ≠ []) (a a' : Bool) :
    (getIdx (compile (.add (.lit fs a) (.lit gs a'))) 2 n) = [(g, 1), (f, 0)] := by
  have e1 : fs.isEmpty = false := by cases fs <;> simp_all
  have e2 : gs.isEmpty = false := by cases gs <;> simp_all
  simp [getIdx, compile, e1, e2, collect, hf, hg, hadd, hplain]

/-- non-vacuity: a 4-layer chain with a removed key in the middle and a `+:` field on top -/
example :
    let base : OT := .lit [⟨0, false, .normal, 10⟩, ⟨1, false, .hidden, 11⟩] true
    let mid : OT := .rm (.add base (.lit [⟨0, true, .normal, 20⟩] false)) [1]
    let t : OT := .add (.add (.lit [⟨1, false, .normal, 5⟩] false) mid) (.lit [⟨0, true, .unhide, 30⟩, ⟨1, true, .normal, 31⟩] false)
    (compile t).length = 5 ∧ specGet t 0 = [⟨0, true, .unhide, 30⟩, ⟨0, true, .normal, 20⟩, ⟨0, false, .normal, 10⟩]
      ∧ specGet t 1 = [⟨1, true, .normal, 31⟩, ⟨1, false, .normal, 5⟩] ∧ specVis t 1 = some .normal
      ∧ fieldsEx (compile t) false = [0, 1] := by
  decide

/-! ## Round 2 — the loop as written, the cache, assertions, the interpreter's object semantics -/

/-- C02.7 the statement-by-statement transliteration of `get_idx_uncached` (`first_add`, `add_stack`,
    the four `GetFor` arms with their `skip.0 == 0` guards, `omit_only`, `break`, `insert(0, first)`,
    `into_iter().rev()`, saturating `usize` arithmetic) returns, on EVERY core vector and start layer,
    the contributions of the refactored walker `collect` in fold order (deepest first). -/
theorem getIdxLit_eq (cores : List Core) (idx : Nat) (n : Name) (hok : ∀ c ∈ cores, CoreOk c) :
    getIdxLit cores idx n = foldOrder (getIdx cores idx n) :=
  getIdxLit_eq_collect cores idx n hok

/-- … hence the loop as written folds exactly the language-level chain, for reads and `super` reads
    on every constructible object (fewer than 2^64-1 layers) -/
theorem getIdxLit_compile (t : OT) (l : Nat) (n : Name) (h : (compile t).length < USIZE_MAX) :
    (getIdxLit (compile t) l n).map (·.map (·.1))
      = if (specGet (takeTerm t l) n).isEmpty then none else some (specGet (takeTerm t l) n).reverse := by
  rw [getIdxLit_eq _ _ _ (compile_coreOk t h), ← get_super_takeTerm]
  simp only [foldOrder]
  by_cases he : (getIdx (compile t) l n).isEmpty = true
  · have : getIdx (compile t) l n = [] := by simpa using he
    simp [this]
  · have he' : getIdx (compile t) l n ≠ [] := by simpa using he
    simp [he']

example : ∀ c ∈ compile (.rm (.lit [⟨0, false, .normal, 1⟩] true) [0]), CoreOk c :=
  compile_coreOk _ (by decide)

/-- C02.8 the value cache of `get_idx`: a `Cached` entry is returned as is — `get_idx_uncached`
    (hence every field body) is not run again, whatever the assertion state -/
theorem cache_hit {K R : Type} [DecidableEq K] (unc : K → Cache K R → R × Cache K R) (a : Bool)
    (k : K) (c : Cache K R) (v : R) (h : c.find k = some (.cached v)) :
    getIdxCached unc a k c = (.ok v, c) := by
  simp [getIdxCached, h]

/-- a first read marks the key `Pending`, runs the uncached read and leaves `Cached(result)` -/
theorem cache_fill {K R : Type} [DecidableEq K] (unc : K → Cache K R → R × Cache K R) (a : Bool)
    (k : K) (c : Cache K R) (h : c.find k = none) :
    (getIdxCached unc a k c).1 = .ok (unc k (c.insert k .pending)).1 ∧
      (getIdxCached unc a k c).2.find k = some (.cached (unc k (c.insert k .pending)).1) := by
  simp [getIdxCached, h, find_insert_self]

/-- outside assertion running a cached read returns what the uncached one returned: after ANY call
    that answered `ok r`, every later call on that cache (any body behaviour, any assertion state)
    answers `ok r` and leaves the cache alone -/
theorem cache_reread {K R : Type} [DecidableEq K] (unc unc' : K → Cache K R → R × Cache K R)
    (a a' : Bool) (k : K) (c c' : Cache K R) (r : R) (h : getIdxCached unc a k c = (.ok r, c')) :
    getIdxCached unc' a' k c' = (.ok r, c') := by
  apply cache_hit
  simp only [getIdxCached] at h
  cases hf : c.find k with
  | none =>
    rw [hf] at h
    simp only [Prod.mk.injEq, GetOut.ok.injEq] at h
    rw [← h.2, ← h.1]; exact find_insert_self _ _ _
  | some cv =>
    rw [hf] at h
    cases cv with
    | cached w =>
      simp only [Prod.mk.injEq, GetOut.ok.injEq] at h
      rw [← h.2, ← h.1]; exact hf
    | pending =>
      cases a with
      | false => simp at h
      | true =>
        simp only [Bool.not_true, Bool.false_eq_true, ↓reduceIte, Prod.mk.injEq, GetOut.ok.injEq] at h
        rw [← h.2, ← h.1]; exact find_insert_self _ _ _

/-- a `Pending` entry met outside assertion running is infinite recursion, and the cache is left
    untouched; while the object's assertions run (`is_asserting`) it is recomputed instead -/
theorem cache_pending {K R : Type} [DecidableEq K] (unc : K → Cache K R → R × Cache K R)
    (k : K) (c : Cache K R) (h : c.find k = some .pending) :
    getIdxCached unc false k c = (.infrec, c) ∧
      (getIdxCached unc true k c).1 = .ok (unc k c).1 := by
  simp [getIdxCached, h]

/-- once cached, always cached with the same value: `get_idx` never loses or changes a `Cached`
    entry as long as the bodies it runs (which can only go through `get_idx` again) do not -/
theorem cache_keeps {K R : Type} [DecidableEq K] (unc : K → Cache K R → R × Cache K R)
    (hu : ∀ k, KeepsCached (fun c => (unc k c).2)) (a : Bool) (k : K) :
    KeepsCached (fun c => (getIdxCached unc a k c).2) :=
  getIdxCached_keeps unc hu a k

/-- C02.9 `has_assertions` of the object value the builder produces (`with_super`, `assert`,
    `commit`, `with_fields_omitted`, `build`, `extend_from`) is exactly "some layer of the term has an
    assertion" = "some core carries one" — an inherited assertion is never dropped, no matter which
    operand was built or read first (the flag is a function of the term alone) -/
theorem hasAssertions_exact (t : OT) :
    (buildT t).cores = compile t ∧ (buildT t).hasAssertions = anyAssert t ∧
      (buildT t).hasAssertions = (compile t).any Core.hasAssert := by
  obtain ⟨h1, h2⟩ := buildT_spec t
  exact ⟨h1, h2, h2.trans (anyAssert_eq_cores t)⟩

/-- the initial `assertions_ran = !has_assertions` short-cut skips nothing -/
theorem assertionsRan0_sound (t : OT) (h : (buildT t).assertionsRan0 = true) :
    ∀ c ∈ (buildT t).cores, c.hasAssert = false := by
  obtain ⟨h1, _, h3⟩ := hasAssertions_exact t
  have hf : (buildT t).hasAssertions = false := by simpa [ObjV.assertionsRan0] using h
  rw [h3] at hf
  rw [h1]
  intro c hc
  have := List.any_eq_false.mp hf c hc
  simpa using this

/-- `sup { … }` (`with_super` path) and `sup + { … }` (`extend_from` path) build the same value -/
theorem extend_paths_agree (x : OT) (fs : List Field) (a : Bool) :
    evalLiteral (some (buildT x)) fs a = buildT (.add x (.lit fs a)) :=
  evalLiteral_super_eq_add x fs a

/-- C02.10 `RUNNING_ASSERTIONS` is restored by every `run_assertions` call, successful or failing,
    under arbitrary re-entrancy: it is empty at quiescence -/
theorem running_restored (w : World) (fuel : Nat) (o : ObjId) (st st' : ASt) (r : Bool)
    (h : runAssertions w fuel o st = some (r, st')) : st'.running = st.running :=
  (runAssertions_post w fuel o st r st' h).1.running_eq

theorem running_empty_at_quiescence (w : World) (fuel : Nat) (o : ObjId) (st st' : ASt) (r : Bool)
    (h0 : st.running = []) (h : runAssertions w fuel o st = some (r, st')) : st'.running = [] := by
  rw [running_restored w fuel o st st' r h, h0]

/-- a successful top-level run sets `assertions_ran` … -/
theorem success_sets_ran (w : World) (fuel : Nat) (o : ObjId) (st st' : ASt)
    (h0 : o ∉ st.running) (h : runAssertions w fuel o st = some (true, st')) : o ∈ st'.ran := by
  rcases (runAssertions_post w fuel o st true st' h).2.1 rfl with h1 | h1
  · exact h1
  · exact absurd h1 h0

/-- … a failing one leaves it `false` (the assertions are checked again by the next read) -/
theorem failure_leaves_unran (w : World) (fuel : Nat) (o : ObjId) (st st' : ASt)
    (h : runAssertions w fuel o st = some (false, st')) : o ∉ st'.ran :=
  (runAssertions_post w fuel o st false st' h).2.2 rfl

/-- after a successful run no assertion body of that object runs again, in any later call on any
    object: every body executed by a call belongs to an object that had not run before the call -/
theorem no_body_after_success (w : World) (fuel : Nat) (o : ObjId) (st st' : ASt) (r : Bool)
    (h : runAssertions w fuel o st = some (r, st')) :
    ∃ new, st'.log = new ++ st.log ∧ ∀ e ∈ new, e.1 ∉ st.ran :=
  (runAssertions_post w fuel o st r st' h).1.log_ext

theorem ran_is_monotone (w : World) (fuel : Nat) (o : ObjId) (st st' : ASt) (r : Bool)
    (h : runAssertions w fuel o st = some (r, st')) : ∀ x ∈ st.ran, x ∈ st'.ran :=
  (runAssertions_post w fuel o st r st' h).1.ran_mono

/-- non-vacuity: two objects whose assertions read each other; both pass, each body runs once;
    with a failing assertion in object 1 the run of 0 fails, nothing is marked as ran and the
    running set is empty again -/
example :
    (runAssertions (fun o => if o = 0 then [some ⟨[1, 0], true⟩, none]
        else [none, some ⟨[0], true⟩, some ⟨[1], true⟩]) 5 0 ⟨[], [], []⟩).map
          (fun p => (p.1, p.2.ran, p.2.running, p.2.log))
        = some (true, [0, 1], [], [(1, 2), (1, 1), (0, 0)]) ∧
      (runAssertions (fun o => if o = 0 then [some ⟨[1], true⟩] else [some ⟨[0], false⟩]) 5 0
          ⟨[], [], []⟩).map (fun p => (p.1, p.2.ran, p.2.running, p.2.log))
        = some (false, [], [], [(1, 0), (0, 0)]) :=
  ⟨rfl, rfl⟩

/-- C02.11 the definitional interpreter's object semantics (`Eval.findDefs`: absolute `maskLow`
    index over layers with key-removal markers) and the model of the implementation's walkers
    (relative saturating skip) agree on EVERY core vector and start layer: the interpreter's read
    loop takes exactly the contributions of `get_idx_uncached`, with the same `super` indices … -/
theorem eval_read_eq_getIdx (nm : Nat → String) (hinj : ∀ a b, nm a = nm b → a = b)
    (cores : List Core) (idx : Nat) (n : Name) :
    cutFD (Eval.findDefs (toLayers nm cores) idx (nm n))
      = (getIdx cores idx n).map (fun p => (p.2, toFD nm p.1)) := by
  rw [findDefs_eq_defsGo nm hinj, cutFD_map, getIdx, collect_eq_cut]

/-- … `"f" in super` / `objectHasAll` (`!(findDefs ls sup f).isEmpty`) is `has_field_include_hidden_idx` … -/
theorem eval_has_eq_hasIdx (nm : Nat → String) (hinj : ∀ a b, nm a = nm b → a = b)
    (cores : List Core) (idx : Nat) (n : Name) :
    (!(Eval.findDefs (toLayers nm cores) idx (nm n)).isEmpty) = hasIdx cores idx n := by
  rw [findDefs_eq_defsGo nm hinj, hasIdx, hasGo_eq_defsGo]
  simp

theorem eval_hasFieldAll_eq (nm : Nat → String) (hinj : ∀ a b, nm a = nm b → a = b)
    (cores : List Core) (n : Name) :
    Eval.hasFieldAll (toLayers nm cores) (nm n) = hasIdx cores cores.length n := by
  have := eval_has_eq_hasIdx nm hinj cores cores.length n
  simpa [Eval.hasFieldAll, toLayers] using this

/-- … and `visOf` is `field_visibility_idx` (hence, by `visAll_eq_visIdx`, `fields_visibility`) -/
theorem eval_visOf_eq_visIdx (nm : Nat → String) (hinj : ∀ a b, nm a = nm b → a = b)
    (cores : List Core) (n : Name) :
    Eval.visOf (toLayers nm cores) (nm n) = (visIdx cores cores.length n).map toVis := by
  have h1 := findDefs_eq_defsGo nm hinj cores cores.length n
  have hlen : (toLayers nm cores).length = cores.length := by simp [toLayers]
  simp only [Eval.visOf, hlen, h1, List.map_map]
  have hm : ((fun p : Nat × Eval.FieldDef => p.2) ∘ fun p : Nat × Field => (p.1, toFD nm p.2))
      = (toFD nm) ∘ (fun p : Nat × Field => p.2) := rfl
  rw [hm, ← List.map_map, visOf_go_eq]
  simp only [visIdx, visGo_eq_defsGo, visWith_end]
  cases visSpec (List.map (fun x => x.2) (defsGo (List.take cores.length cores).reverse 0 n)) <;> simp

/-- on compiled terms both are the language-level meaning: same definitions, presence, visibility -/
theorem eval_defs_compile (nm : Nat → String) (hinj : ∀ a b, nm a = nm b → a = b) (t : OT) (n : Name) :
    (Eval.findDefs (toLayers nm (compile t)) (compile t).length (nm n)).map (·.2)
      = (defs t n).map (toFD nm) := by
  rw [findDefs_eq_defsGo nm hinj]
  have := defsGo_compile t [] n
  simp only [List.append_nil, defsGo, List.map_nil] at this
  simp only [List.take_length, List.map_map]
  rw [← this, List.map_map]
  rfl

theorem eval_hasFieldAll_compile (nm : Nat → String) (hinj : ∀ a b, nm a = nm b → a = b)
    (t : OT) (n : Name) :
    Eval.hasFieldAll (toLayers nm (compile t)) (nm n) = specHas t n := by
  rw [eval_hasFieldAll_eq nm hinj, has_compile]

theorem eval_visOf_compile (nm : Nat → String) (hinj : ∀ a b, nm a = nm b → a = b)
    (t : OT) (n : Name) :
    Eval.visOf (toLayers nm (compile t)) (nm n) = (specVis t n).map toVis := by
  rw [eval_visOf_eq_visIdx nm hinj, vis_compile]

/-- the hypotheses are satisfiable: `unary` is an injective naming -/
example (t : OT) (n : Name) :
    Eval.hasFieldAll (toLayers unary (compile t)) (unary n) = specHas t n :=
  eval_hasFieldAll_compile unary unary_injective t n

/-- presence and visibility agree on EVERY core vector and start layer (not only compiled ones) -/
theorem has_iff_vis_cores (cores : List Core) (idx : Nat) (n : Name) :
    hasIdx cores idx n = (visIdx cores idx n).isSome :=
  hasIdx_eq_vis_isSome cores idx n

/-- C02.12 bare `super` as a value (`StandaloneSuperCore`): an object built from ordinary objects
    and `super` values by `+` and objectRemoveKey answers existence, per-name visibility and the
    global field listing exactly as the ordinary object `flattenT x`, in which each `super` value
    is ONE literal layer holding the resolved fields of the layers it stands for — in particular a
    key removed inside those layers masks nothing outside them. -/
theorem super_value_has (x : XT) (n : Name) : hasX (compileX x) n = specHas (flattenT x) n := by
  rw [← has_compile, ← compileX_flatten]
  simp only [hasX, hasIdx, hasGoX_flatten, List.map_reverse, List.length_map]
  rw [List.take_of_length_le (by simp)]

theorem super_value_vis (x : XT) (n : Name) : visX (compileX x) n = specVis (flattenT x) n := by
  rw [← vis_compile, ← compileX_flatten]
  simp only [visX, visIdx, visGoX_flatten, List.map_reverse, List.length_map]
  rw [List.take_of_length_le (by simp)]

theorem super_value_visAll (x : XT) (n : Name) : visAllX (compileX x) n = visX (compileX x) n := by
  rw [super_value_vis, ← vis_compile, ← visAll_eq_visIdx, ← compileX_flatten]
  simp only [visAllX, visAll, visAllGoX_flatten, List.map_reverse]

/-- … and its field listings (objectFields/All, manifestation, `==`, `std.length`) are strictly
    ascending and list exactly the fields of `flattenT x` -/
theorem super_value_fields (x : XT) (h : Bool) (n : Name) :
    n ∈ fieldsExX (compileX x) h ↔ n ∈ specFields (flattenT x) h := by
  rw [fieldsExX_mem_iff_flatten, compileX_flatten, fieldsEx_mem_iff]

/-- the handler update of `fields_visibility` is idempotent, so the repeated calls a bare-`super`
    layer makes for one name (once per inner entry, always with the same resolved visibility) act
    as one -/
theorem updVis_idem (v : Vis) (cur : Option Vis) : updVis v (updVis v cur) = updVis v cur := by
  cases v <;> cases cur <;> simp [updVis] <;> (rename_i c; cases c <;> simp)

theorem super_value_fields_sorted (cs : List XCore) (h : Bool) : Sorted (fieldsExX cs h) :=
  sorted_filter _ _ (sortDedup_sorted _)

/-- the repaired defect, as an instance: `{a: 10} + s` with `s` = `super` above
    `objectRemoveKey({a: 1, b: 2}, "a")` lists `a` and `b`; presence, visibility and listing agree -/
example :
    let inner : OT := .rm (.lit [⟨0, false, .normal, 1⟩, ⟨1, false, .normal, 2⟩] false) [0]
    let x : XT := .add (.base (.lit [⟨0, false, .normal, 10⟩] false)) (.sup inner 2)
    fieldsExX (compileX x) false = [0, 1] ∧ hasX (compileX x) 0 = true
      ∧ visAllX (compileX x) 0 = some .normal ∧ specFields (flattenT x) false = [0, 1] := by
  decide

end JrsVerif.Obj
