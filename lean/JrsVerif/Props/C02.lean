/- C02: property theorems (not yet built). -/
