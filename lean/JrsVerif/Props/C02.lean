/- C02 — Object inheritance, late binding and visibility follow the object model.
   Property theorems only.  `compile t` is the core vector the real builder produces for the object
   term `t` (checked on every run through the `verif_core_shape` hook); the four walkers are the
   models of `get_idx_uncached`, `has_field_include_hidden_idx`, `field_visibility_idx`,
   `fields_visibility`; `defs/chain/visSpec` is the language-level meaning. -/
import JrsVerif.Proofs.Obj

namespace JrsVerif.Obj

/-- C02.1 a read of `n` on any constructible object takes exactly the definitions from the
    right-most layer down to the first plain one (`+:` layers accumulate), removed keys masked. -/
theorem get_compile (t : OT) (n : Name) :
    (getIdx (compile t) (compile t).length n).map (·.1) = specGet t n := by
  have := collect_compile t [] n
  simpa [getIdx, specGet, collect, chainWith_nil] using this

/-- C02.1' `super.n` evaluated from ANY layer `l` is the read of `n` on the object consisting of
    the layers left of `l` — which is itself a constructible object. -/
theorem get_super (t : OT) (l : Nat) (n : Name) :
    ∃ t', (compile t).take l = compile t' ∧
      (getIdx (compile t) l n).map (·.1) = specGet t' n := by
  obtain ⟨t', ht⟩ := take_compile t l
  refine ⟨t', ht, ?_⟩
  have := collect_compile t' [] n
  simp only [getIdx, ht]
  simpa [specGet, collect, chainWith_nil] using this

/-- C02.1'' every contribution's body is bound to `super` = the layers left of the layer that
    defines it (its `sup` index is the index of its own core). -/
theorem get_sup_binding (cores : List Core) (idx : Nat) (n : Name) (f : Field) (l : Nat)
    (h : (f, l) ∈ getIdx cores idx n) :
    ∃ fs, (cores.take idx)[l]? = some (.oop fs) ∧ lookup fs n = some f := by
  have := collect_sup_sound (cores.take idx).reverse 0 n f l h
  simpa using this

/-- C02.2 `objectHasAll` / `in` / `"f" in super`: exists iff some unmasked definition exists. -/
theorem has_compile (t : OT) (n : Name) :
    hasIdx (compile t) (compile t).length n = specHas t n := by
  have := hasGo_compile t [] n
  simpa [hasIdx, hasGo] using this

theorem has_super (t : OT) (l : Nat) (n : Name) :
    ∃ t', (compile t).take l = compile t' ∧ hasIdx (compile t) l n = specHas t' n := by
  obtain ⟨t', ht⟩ := take_compile t l
  refine ⟨t', ht, ?_⟩
  have := hasGo_compile t' [] n
  simp only [hasIdx, ht]
  simpa [hasGo] using this

/-- the same with the witness computed: `takeTerm t l` is the object `super` denotes at layer `l` -/
theorem get_super_takeTerm (t : OT) (l : Nat) (n : Name) :
    (getIdx (compile t) l n).map (·.1) = specGet (takeTerm t l) n := by
  have := get_compile (takeTerm t l) n
  rw [compile_takeTerm] at this
  simp only [getIdx, List.take_length] at this ⊢
  exact this

theorem has_super_takeTerm (t : OT) (l : Nat) (n : Name) :
    hasIdx (compile t) l n = specHas (takeTerm t l) n := by
  have := has_compile (takeTerm t l) n
  rw [compile_takeTerm] at this
  simp only [hasIdx, List.take_length] at this ⊢
  exact this

/-- C02.3 per-name visibility: the top-most `::`/`:::` marker among the unmasked definitions wins,
    a field with only `:` definitions is visible, no definition = absent. -/
theorem vis_compile (t : OT) (n : Name) :
    visIdx (compile t) (compile t).length n = specVis t n := by
  have h := visGo_compile t [] false n
  simp only [List.append_nil] at h
  simp only [visIdx, List.take_length, h, specVis]
  have := visWith_end (defs t n) false
  simp only [visGo] at this ⊢
  rw [this]
  cases visSpec (defs t n) <;> simp

/-- C02.3' the global walker (`fields_visibility`, used by objectFields*, `==`, manifestation,
    `std.length`) and the per-name walker (used by objectHas, `in`) agree on EVERY core vector. -/
theorem visAll_eq_visIdx (cores : List Core) (n : Name) :
    visAll cores n = visIdx cores cores.length n := by
  have := visAllGo_eq_visGo cores.reverse 0 0 0 false n rfl
  simpa [visAll, visIdx, curOf] using this

/-- C02.4 field listings are strictly ascending (sorted, no duplicates) … -/
theorem fieldsEx_sorted (cores : List Core) (h : Bool) : Sorted (fieldsEx cores h) :=
  sorted_filter _ _ (sortDedup_sorted _)

/-- … and list exactly the names whose visibility by the language rule is (visible or, with
    `include_hidden`, present). -/
theorem fieldsEx_mem_iff (t : OT) (h : Bool) (x : Name) :
    x ∈ fieldsEx (compile t) h ↔ x ∈ specFields t h := by
  simp only [fieldsEx, specFields, List.mem_filter, mem_sortDedup, coreNames_compile,
    visAll_eq_visIdx, vis_compile]

/-- presence (`objectHasAll`) and visibility (`objectFieldsAll`) are consistent -/
theorem has_iff_vis (t : OT) (n : Name) : specHas t n = (specVis t n).isSome := by
  simp only [specHas, specVis]
  cases h : defs t n with
  | nil => simp [visSpec]
  | cons f r =>
    simp only [List.isEmpty_cons, Bool.not_false, visSpec]
    cases f.vis <;> simp
    cases visSpec r <;> simp

/-- C02.5 removed keys: masked on the object they were removed from, other keys untouched, and
    the mask never reaches below that object (the saturating `prev_layers` counter). -/
theorem removeKey_masks (o : OT) (ns : List Name) (n : Name) (h : n ∈ ns) :
    getIdx (compile (.rm o ns)) (compile (.rm o ns)).length n = [] := by
  have := get_compile (.rm o ns) n
  have hc : ns.contains n = true := by simpa using h
  simp only [specGet, defs, hc, ↓reduceIte, chain, List.map_eq_nil_iff] at this
  exact this

theorem removeKey_other (o : OT) (ns : List Name) (n : Name) (h : n ∉ ns) :
    (getIdx (compile (.rm o ns)) (compile (.rm o ns)).length n).map (·.1) = specGet o n := by
  rw [get_compile]
  simp [specGet, defs, h]

theorem removeKey_local (a o : OT) (ns : List Name) (n : Name) (h : n ∈ ns) :
    (getIdx (compile (.add a (.rm o ns))) (compile (.add a (.rm o ns))).length n).map (·.1)
      = specGet a n := by
  rw [get_compile]
  simp [specGet, defs, h]

/-- C02.6 extension is associative on the representation -/
theorem extend_assoc (a b c : OT) : compile (.add (.add a b) c) = compile (.add a (.add b c)) := by
  simp [compile, List.append_assoc]

/-- `+:` contributions are folded deepest-first: the read's contribution list is the prefix of
    the definitions ending at the first plain one -/
theorem plus_fold_order (fs gs : List Field) (n : Name) (f g : Field)
    (hf : lookup fs n = some f) (hg : lookup gs n = some g) (hadd : g.add = true)
    (hplain : f.add = false) (hne : fs ≠ []) (hne' : gs ≠ []) :
    (getIdx (compile (.add (.lit fs) (.lit gs))) 2 n) = [(g, 1), (f, 0)] := by
  have e1 : fs.isEmpty = false := by cases fs <;> simp_all
  have e2 : gs.isEmpty = false := by cases gs <;> simp_all
  simp [getIdx, compile, e1, e2, collect, hf, hg, hadd, hplain]

/-- non-vacuity: a 4-layer chain with a removed key in the middle and a `+:` field on top -/
example :
    let base : OT := .lit [⟨0, false, .normal, 10⟩, ⟨1, false, .hidden, 11⟩]
    let mid : OT := .rm (.add base (.lit [⟨0, true, .normal, 20⟩])) [1]
    let t : OT := .add (.add (.lit [⟨1, false, .normal, 5⟩]) mid) (.lit [⟨0, true, .unhide, 30⟩, ⟨1, true, .normal, 31⟩])
    (compile t).length = 5 ∧ specGet t 0 = [⟨0, true, .unhide, 30⟩, ⟨0, true, .normal, 20⟩, ⟨0, false, .normal, 10⟩]
      ∧ specGet t 1 = [⟨1, true, .normal, 31⟩, ⟨1, false, .normal, 5⟩] ∧ specVis t 1 = some .normal
      ∧ fieldsEx (compile t) false = [0, 1] := by
  decide

end JrsVerif.Obj
