/-
  C04 — evaluation is total: a value or a Jsonnet error, never a crash.

  Part 1: the frame counter (`stack.rs`, `in_frame`, `in_description_frame`) as a counter machine
          over arbitrary nested computations; part 2: checked-arithmetic kernels.
  Whole-program absence of crashes is observed by the worker harness (engine c04w), not proved.
-/
import JrsVerif.Proofs.Stack
import JrsVerif.Proofs.Total
import JrsVerif.Props.C08
import JrsVerif.Props.C09
import JrsVerif.Props.C11
import JrsVerif.Props.C17
import JrsVerif.Proofs.TotalKern
import JrsVerif.Proofs.TotalFormat

namespace JrsVerif.Props.C04
open JrsVerif.Stack

/-! ## 1. The frame counter -/

/-- Whatever a computation does — frames entered and left through `Ok` or through `Err`, limit
    overrides, errors swallowed by the caller — the depth afterwards is the depth before, and
    (unless the unguarded C-API setter was used) so is the limit. -/
theorem stack_balanced (p : Prog) (s : St) (r : Res) (h : run s p = some r) :
    r.st.cur = s.cur ∧ (noSet p = true → r.st.max = s.max) :=
  ⟨run_cur p s r h, fun hn => run_max p s r hn h⟩

/-- No counter operation can panic: `current + 1`, `current_depth + depth_limit` stay inside
    `usize` and the guard's `current - 1` never underflows, for every computation whose nesting
    and limit arguments fit the machine word. -/
theorem stack_total (p : Prog) (s : St) (h : s.cur + depth p + maxLimit p < USIZE) :
    ∃ r, run s p = some r := run_total p s h

example : (⟨512, 0⟩ : St).cur + depth (nest 100000) + maxLimit (nest 100000) < USIZE := by
  have hd : ∀ n, depth (nest n) = n := by
    intro n; induction n with
    | zero => rfl
    | succ n ih => simp [nest, depth, ih]
  have hl : ∀ n, maxLimit (nest n) = 0 := by
    intro n; induction n with
    | zero => rfl
    | succ n ih => simp [nest, maxLimit, ih]
  rw [hd, hl]; decide

/-- The depth never exceeds the limit in force: at every point where the computation looks at the
    counter, and at the end. -/
theorem stack_bounded (p : Prog) (s : St) (r : Res) (hs : s.cur ≤ s.max) (h : run s p = some r) :
    r.st.cur ≤ r.st.max ∧ ∀ t ∈ r.log, t.cur ≤ t.max := run_bounded p s r hs h

/-- With the limit `M` configured once at top level (the CLI's `--max-stack`), no point of the
    computation is ever deeper than `M` frames. -/
theorem stack_bounded_top (p : Prog) (M : Nat) (r : Res) (hn : noLimit p = true)
    (h : run ⟨M, 0⟩ p = some r) : ∀ t ∈ r.log, t.cur ≤ M := by
  intro t ht
  have h1 := (run_bounded p ⟨M, 0⟩ r (Nat.zero_le _) h).2 t ht
  have h2 := (run_log_max p ⟨M, 0⟩ r hn h).2 t ht
  simp only at h2; omega

/-- At the limit a frame is refused with the stack-overflow error, its body does not run and the
    counter is untouched. -/
theorem limit_hit_is_error (body : Prog) (s : St) (h : s.max ≤ s.cur) :
    run s (.frame body) = some ⟨s, .errStack, []⟩ := by
  have : ¬ s.cur < s.max := by omega
  simp [run, checkDepth, this]

/-- Below the limit the frame is entered: the body runs one level deeper and its outcome is the
    frame's outcome. -/
theorem below_limit_enters (body : Prog) (s : St) (r : Res) (h : s.cur < s.max) (hm : s.max < USIZE)
    (hb : run { s with cur := s.cur + 1 } body = some r) :
    run s (.frame body) = some ⟨{ r.st with cur := r.st.cur - 1 }, r.out, r.log⟩ := by
  have h1 : s.cur + 1 < USIZE := by omega
  have hc := run_cur body _ r hb
  simp only at hc
  have h0 : r.st.cur ≠ 0 := by omega
  simp [run, checkDepth, h, h1, hb, guardDrop, h0]

/-- Any computation that has no failing step of its own and whose frame nesting stays within the
    limit succeeds ("recursion well below the limit succeeds"). -/
theorem below_limit_ok (p : Prog) (s : St) (hf : noFail p = true) (hn : noLimit p = true)
    (hd : s.cur + depth p ≤ s.max) (hm : s.max < USIZE) :
    ∃ r, run s p = some r ∧ r.out = .ok ∧ r.st = s := run_ok_of_fits p s hf hn hd hm

/-- Recursion `n` levels deep under limit `M`: succeeds exactly when `n ≤ M`, otherwise it is
    stopped with the stack-overflow error; the counter is back at 0 either way. -/
theorem recursion_stopped_at_limit (M n : Nat) (hm : M < USIZE) :
    run ⟨M, 0⟩ (nest n) =
      some ⟨⟨M, 0⟩, if n ≤ M then .ok else .errStack, if n ≤ M then [⟨M, n⟩] else []⟩ := by
  have := run_nest n ⟨M, 0⟩ (Nat.zero_le _) hm
  simpa using this

example : run ⟨200, 0⟩ (nest 200) = some ⟨⟨200, 0⟩, .ok, [⟨200, 200⟩]⟩ := by
  have := recursion_stopped_at_limit 200 200 (by decide); simpa using this
example : run ⟨200, 0⟩ (nest 201) = some ⟨⟨200, 0⟩, .errStack, []⟩ := by
  have := recursion_stopped_at_limit 200 201 (by decide); simpa using this

/-- After ANY outcome of a computation (value, error, stack overflow) the thread's counter state
    is exactly what it was, so whatever is evaluated next behaves as on a fresh thread. -/
theorem usable_after_error (p q : Prog) (s : St) (r : Res) (hn : noSet p = true)
    (h : run s p = some r) : run r.st q = run s q := by
  rw [run_state p s r hn h]

example : ∃ r, run ⟨3, 0⟩ (.seq (nest 5) .skip) = some r ∧ r.out = .errStack ∧
    run r.st (nest 3) = run ⟨3, 0⟩ (nest 3) := by
  refine ⟨⟨⟨3, 0⟩, .errStack, []⟩, by decide, rfl, rfl⟩

/-- The thread-local counter with its drop guards is an implementation of the lexical meaning:
    the depth seen at any point is the number of enclosing frames, the limit the innermost
    enclosing override, a frame beyond the limit is a stack-overflow error whose body does not run;
    nothing leaks from one part of a computation into the next. -/
theorem stack_refines_lexical (p : Prog) (s : St) (hn : noSet p = true)
    (hb : s.cur + depth p + maxLimit p < USIZE) :
    run s p = some ⟨s, (Spec.eval s.max s.cur p).1, (Spec.eval s.max s.cur p).2⟩ :=
  run_eq_spec p s hn hb

/-! ## 2. Checked-arithmetic kernels -/
open JrsVerif.Total

/-- the full statement: `prepare_call` never panics -/
def PrepareCallTotalStmt : Prop :=
  ∀ (ps : List Param) (unnamed : Nat) (named : List String),
    ps.length < 2 ^ 63 → named.length < 2 ^ 63 → ∀ why, prepareCall ps unnamed named ≠ .panic why

/-- … is false for `prepare_call` taken alone: a signature with a repeated parameter name runs
    into `unreachable!()`.  Formerly the finding `c04_duplicate_parameter_names_panic`
    (`function(a, a) [a, a]` called with `a=…`); since the repair both parsers reject such a
    parameter list (`params_accepted_iff_nodup`, `prepareCall_total_for_parsed` below), so no
    function value built from source reaches this witness any more. -/
theorem prepareCall_counterexample : ¬ PrepareCallTotalStmt := by
  intro h
  exact h [⟨some "a", false⟩, ⟨some "a", false⟩] 0 ["a"] (by decide) (by decide) "unreachable" (by decide)

/-- `prepare_call` never panics — no arity arithmetic under/overflows and the `unreachable!()` is
    not reached — for every function whose parameter names are pairwise different, any number of
    positional arguments and any list of named arguments. -/
theorem prepareCall_partial (ps : List Param) (unnamed : Nat) (named : List String)
    (hnd : NodupNames ps) (hp : ps.length < 2 ^ 63) (hq : named.length < 2 ^ 63) (why : String) :
    prepareCall ps unnamed named ≠ .panic why := by
  unfold prepareCall
  split
  · simp
  · rename_i hu
    have hadd : uadd unnamed named.length = some (unnamed + named.length) := by
      have : unnamed + named.length < Total.USIZE := by unfold Total.USIZE; omega
      simp [uadd, this]
    simp only [hadd, prepareTail]
    split
    · simp
    · split
      · rename_i hlt
        split
        · have hne := firstUnbound_some_of_short ps unnamed named hnd hlt
          split
          · simp
          · rename_i hfu; exact absurd hfu hne
        · simp
      · simp

example : NodupNames [⟨some "a", false⟩, ⟨some "b", true⟩, ⟨none, false⟩] := by
  unfold NodupNames; decide

/-- before the repair the same call shape panicked in the subtraction (the TLA case) -/
theorem prepareCall_orig_defect :
    prepareCallOrig [⟨some "a", false⟩] 0 ["a", "b"] =
      .panic "params.len() - unnamed - named.len() underflows" := by decide

/-- More arguments than parameters is always reported as an error (never accepted, never a
    panic): the extra top-level argument of `--tla-str a=1 --tla-str b=2`. -/
theorem prepareCall_overfull_is_error (ps : List Param) (unnamed : Nat) (named : List String)
    (hp : ps.length < 2 ^ 63) (hq : named.length < 2 ^ 63)
    (hover : ps.length < unnamed + named.length) :
    ∃ e, prepareCall ps unnamed named = .err e := by
  unfold prepareCall
  split
  · exact ⟨_, rfl⟩
  · rename_i hu
    have hadd : uadd unnamed named.length = some (unnamed + named.length) := by
      have : unnamed + named.length < Total.USIZE := by unfold Total.USIZE; omega
      simp [uadd, this]
    simp only [hadd, prepareTail]
    split
    · exact ⟨_, rfl⟩
    · rename_i passed ops hloop
      exfalso
      have hinv := namedLoop_inv ps named (List.range unnamed) [] 0 passed ops hloop
        List.nodup_range (by intro i hi; have := List.mem_range.mp hi; omega)
      have hle := nodup_subset_length passed (List.range ps.length) hinv.1
        (by intro i hi; exact List.mem_range.mpr (hinv.2.1 i hi))
      rw [hinv.2.2] at hle
      simp only [List.length_range] at hle
      omega

example : prepareCall [⟨some "a", false⟩] 0 ["a", "b"] = .err (.unknown "b") := by decide

/-- `std.clamp` never panics, whatever the order of the bounds … -/
theorem clamp_total (x lo hi : Int) : clamp x lo hi ≠ none := by simp [clamp]

/-- … it is the std.jsonnet definition … -/
theorem clamp_spec (x lo hi : Int) : clamp x lo hi = some (Spec.clamp x lo hi) := rfl

/-- … and with ordered bounds the result lies between them and is `x` when `x` does. -/
theorem clamp_in_range (x lo hi : Int) (h : lo ≤ hi) :
    lo ≤ Spec.clamp x lo hi ∧ Spec.clamp x lo hi ≤ hi ∧ (lo ≤ x → x ≤ hi → Spec.clamp x lo hi = x) := by
  unfold Spec.clamp
  refine ⟨?_, ?_, ?_⟩
  · split
    · omega
    · split <;> omega
  · split
    · omega
    · split <;> omega
  · intro h1 h2
    split
    · omega
    · split <;> omega

/-- before the repair: `f64::clamp` panicked for `std.clamp(1, 5, 2)` -/
theorem clamp_orig_defect : clampOrig 1 5 2 = none := by decide

/-- The debug truncation never slices inside a character and never runs off the string, for every
    string and every byte limit; what it keeps is exactly the longest prefix and the longest suffix
    of at most `limit / 2` bytes each, joined by `..`. -/
theorem truncateDebug_spec (cs : List Nat) (t : Nat) :
    truncateDebug cs t = some (Spec.truncate cs t) := by
  unfold truncateDebug Spec.truncate
  split
  · rename_i hgt
    have hb : t / 2 ≤ byteLen cs := by
      have : t / 2 ≤ t := Nat.div_le_self t 2
      omega
    rw [floorB_eq_prefixFit cs (t / 2)]
    simp only [usub, hb, if_true]
    rw [ceilB_eq_suffixFit cs (t / 2) (byteLen cs) (Nat.le_refl _)]
    obtain ⟨rest, hr⟩ := prefixFit_prefix cs (t / 2)
    obtain ⟨pre, hp⟩ := suffixFit_suffix cs (t / 2)
    have h1 : takeBytes cs (byteLen (Spec.prefixFit cs (t / 2))) = some (Spec.prefixFit cs (t / 2)) := by
      have := takeBytes_append (Spec.prefixFit cs (t / 2)) rest
      rw [← hr] at this; exact this
    have h2 : dropBytes cs (byteLen cs - byteLen (Spec.suffixFit cs (t / 2))) =
        some (Spec.suffixFit cs (t / 2)) := by
      have e : byteLen cs - byteLen (Spec.suffixFit cs (t / 2)) = byteLen pre := by
        have := congrArg byteLen hp
        rw [byteLen_append] at this
        omega
      rw [e]
      have := dropBytes_append pre (Spec.suffixFit cs (t / 2))
      rw [← hp] at this; exact this
    simp only [h1, h2]
  · rfl

theorem truncateDebug_total (cs : List Nat) (t : Nat) : truncateDebug cs t ≠ none := by
  rw [truncateDebug_spec]; simp

/-- each kept side fits its half of the limit -/
theorem truncateDebug_sides_fit (cs : List Nat) (t : Nat) :
    byteLen (Spec.prefixFit cs (t / 2)) ≤ t / 2 ∧ byteLen (Spec.suffixFit cs (t / 2)) ≤ t / 2 :=
  ⟨prefixFit_fits cs (t / 2), suffixFit_fits cs (t / 2)⟩

/-- before the repair: `'a' + 200 × 'é'` (the std.trace reproduction) sliced inside a character -/
theorem truncateDebug_orig_defect :
    truncateDebugOrig (97 :: List.replicate 200 233) 256 = none := by decide +kernel

example : truncateDebug (97 :: List.replicate 200 233) 256 =
    some (97 :: List.replicate 63 233 ++ [46, 46] ++ List.replicate 64 233) := by decide +kernel

/-! ## 3. Kernels proved total under another property, restated -/

/-- array element access never panics, whatever the internal representation and the index
    (slice / reverse / repeat / range arithmetic on `usize`/`u32`/`i32`): C08's `get_total` -/
theorem arrGet_total (t : JrsVerif.Arr.T) (h : t.WF) (i : Nat) :
    JrsVerif.Arr.get (JrsVerif.Arr.build t) i ≠ .panic := JrsVerif.Arr.get_total t h i

/-! ## 4. Round 3: the repaired defects, modelled -/
open JrsVerif.TotalKern

/-- `ExprParams::duplicate_name`, the check both parsers run on a parameter list, accepts exactly
    the lists whose parameter names are pairwise different … -/
theorem params_accepted_iff_nodup (ps : List Param) : paramsAccepted ps = true ↔ NodupNames ps := by
  unfold paramsAccepted
  rw [Option.isNone_iff_eq_none]
  exact duplicateName_none_iff ps

/-- … so for every function that can exist at run time (its parameter list went through a parser)
    `prepare_call` never panics: the `distinct names` hypothesis of `prepareCall_partial` (and of the
    C01 binding theorems) is discharged by the parser. -/
theorem prepareCall_total_for_parsed (ps : List Param) (unnamed : Nat) (named : List String)
    (hacc : paramsAccepted ps = true) (hp : ps.length < 2 ^ 63) (hq : named.length < 2 ^ 63)
    (why : String) : prepareCall ps unnamed named ≠ .panic why :=
  prepareCall_partial ps unnamed named ((params_accepted_iff_nodup ps).mp hacc) hp hq why

example : paramsAccepted [⟨some "a", false⟩, ⟨some "b", true⟩, ⟨none, false⟩, ⟨none, true⟩] = true := by decide
/-- the former witnesses are rejected, and the reported name is the repeated one -/
example : duplicateName [⟨some "a", false⟩, ⟨some "a", false⟩] = some "a" ∧
    duplicateName [⟨some "a", false⟩, ⟨some "b", false⟩, ⟨some "a", true⟩] = some "a" ∧
    duplicateName [⟨some "x", false⟩, ⟨some "y", false⟩, ⟨some "y", false⟩, ⟨some "x", false⟩] = some "y" := by
  decide

/-- Pending markers of `ObjValue::get_idx` (which runs the object's assertions BEFORE it marks the
    field): of any chain of nested, unfinished entries of one field — whatever the object's
    asserting state is at each of them — exactly the first is let through; the next one is
    `InfiniteRecursionDetected`.  So a field cannot re-enter itself, and no field body is evaluated
    twice (formerly the finding `c04_self_dependent_field_under_assert_hangs`; the round-3 repair
    admitted two entries, which evaluated a field read by an assertion twice — C03). -/
theorem pending_reentry_bounded (m : Mark) (flags : List Bool) : admitted enter m flags ≤ 1 :=
  admitted_le_one m flags

/-- the second entry is refused whatever the asserting state (self-dependence) -/
theorem pending_reentry_refused (a b : Bool) (rest : List Bool) :
    admitted enter .vacant (a :: b :: rest) = 1 := by
  simp [admitted, enter]

/-- a first entry is always let through -/
theorem pending_first_entry_admitted (a : Bool) : admitted enter .vacant [a] = 1 := by
  simp [admitted, enter]

/-- the original code let every entry through while asserting: unbounded re-entry -/
theorem pending_orig_defect (n : Nat) :
    admitted enterOrig .vacant (List.replicate (n + 1) true) = n + 1 := admittedOrig_all n

/-! ## 5. Round 3: kernels of other properties with their checked operations made explicit -/

/-- `<<`: none of the checked `i64`/`u32` operations of the arm (`63 - exp as u32`,
    `1i64 << k`, unary minus) can panic, for all operands; the result is C09's reference meaning. -/
theorem shift_total (a b : JrsVerif.Num.D) : shlK a b = some (JrsVerif.Num.Spec.shl a b) := by
  rw [shlK_eq, JrsVerif.Num.shl_spec]

theorem shift_never_panics (a b : JrsVerif.Num.D) : shlK a b ≠ none := by
  rw [shift_total]; simp

/-- `std.findSubstr`: the `usize` subtraction and the byte slice `strb[i..i + pat.len()]` never
    panic, for all pairs of strings (of less than 2^64 bytes); the result is C11's reference. -/
theorem findSubstr_total (pat s : List Nat) (hw : (JrsVerif.Str.enc s).length < Total.USIZE) :
    findSubstrK pat s = some (JrsVerif.Str.Spec.findSubstr pat s) := by
  rw [findSubstrK_eq pat s hw, JrsVerif.Str.findSubstr_spec]

example : findSubstrK [233] [97] = some [] ∧ findSubstrK [97] [233, 97, 98, 97] = some [1, 3] := by
  decide

/-- `print_code_location`: the one unchecked `start.column - 1` cannot underflow for locations
    computed by `offset_to_location` (a column is at least 2 there), for every pair of
    character-boundary offsets of every text. -/
theorem printCodeLocation_total (pre₁ post₁ pre₂ post₂ : List Char) :
    printCodeLocationK (JrsVerif.Loc.Spec.locate pre₁ post₁) (JrsVerif.Loc.Spec.locate pre₂ post₂) =
      some (JrsVerif.Loc.printCodeLocation (JrsVerif.Loc.Spec.locate pre₁ post₁)
        (JrsVerif.Loc.Spec.locate pre₂ post₂)) :=
  printCodeLocationK_eq _ _ (by simp [JrsVerif.Loc.Spec.locate])

/-- … stated on what the walker returns: for any tuple of requested boundary offsets, printing the
    span between the `i`-th and `j`-th answer never panics -/
theorem offsetToLocation_print_total (pre₁ post₁ pre₂ post₂ : List Char) (offs : List Nat)
    (h : pre₁ ++ post₁ = pre₂ ++ post₂) (hv : JrsVerif.Loc.Boundaries (pre₁ ++ post₁) offs)
    (i j : Nat) (hi : offs[i]? = some (JrsVerif.Loc.byteLen pre₁))
    (hj : offs[j]? = some (JrsVerif.Loc.byteLen pre₂)) :
    ∃ s e, (JrsVerif.Loc.offsetToLocation (pre₁ ++ post₁) offs)[i]? = some s ∧
      (JrsVerif.Loc.offsetToLocation (pre₁ ++ post₁) offs)[j]? = some e ∧
      printCodeLocationK s e ≠ none := by
  refine ⟨JrsVerif.Loc.Spec.locate pre₁ post₁, JrsVerif.Loc.Spec.locate pre₂ post₂,
    JrsVerif.Loc.model_eq_spec pre₁ post₁ offs hv i hi, ?_, ?_⟩
  · rw [h] at hv ⊢; exact JrsVerif.Loc.model_eq_spec pre₂ post₂ offs hv j hj
  · rw [printCodeLocation_total]; simp

/-- `format_code` never reaches a panic site (the `u16` additions of `render_integer` and
    `render_float`), for every value, conversion, flag set, width and precision (C12's
    specification theorems cover every conversion) … -/
theorem formatCode_total (v : JrsVerif.Format.Val) (c : JrsVerif.Format.Code) (w : Nat) (p : Option Nat)
    (hv : ∀ n d, v = .num n d → n.whole < JrsVerif.Format.DBL_BOUND ∧ JrsVerif.Format.OracleOK n) :
    JrsVerif.Format.formatCode v c w p ≠ .error .panic :=
  JrsVerif.Format.formatCode_no_panic v c w p hv

/-- … and `parse_codes` never panics on any format string (its `u16` width accumulation is
    checked: `"%99999d"` is an error) -/
theorem parseCodes_total (s : List Char) : JrsVerif.Format.parseCodes s ≠ .error .panic :=
  JrsVerif.Format.parseCodes_no_panic s

example : JrsVerif.Format.parseCodes "%99999d".toList = .error .tooLarge := rfl

end JrsVerif.Props.C04
