/- C04: property theorems (not yet built). -/
