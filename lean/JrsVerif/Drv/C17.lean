import JrsVerif.Common.J
import JrsVerif.Model.Loc
import JrsVerif.Model.Tile
import JrsVerif.Model.LocTrace
import JrsVerif.Model.LocStrBlock

namespace JrsVerif.Drv.C17
open Lean JrsVerif.J JrsVerif.Loc

def chars (a : Array Json) : List Char := (nats a).map Char.ofNat

def locJson (l : CodeLocation) : Json := ofNats [l.offset, l.line, l.column, l.lineStart, l.lineEnd]

def natLists (a : Array Json) : List (List Nat) :=
  a.toList.map (fun x => match x with | .arr b => nats b | _ => [])

/-- all offsets are character boundaries of `text` -/
def allSplit (text : List Char) (offs : List Nat) : Option (List (List Char × List Char)) :=
  offs.mapM (Spec.splitAt? text)

def isAsciiList (cs : List Char) : Bool := cs.all (fun c => c.toNat < 128)

/-- start `(line, column)` of a printed location by the reference meaning -/
def specStart (text : List Char) (o : Nat) : Option (Nat × Nat) :=
  (Spec.splitAt? text o).map (fun p => (Spec.line p.1, Spec.column p.1))

/-- pieces between newlines: `n` newlines give `n + 1` pieces, the last one unterminated -/
def splitNl : List Char → List (List Char)
  | [] => [[]]
  | c :: cs =>
    match splitNl cs with
    | [] => [[]]
    | p :: ps => if c = '\n' then [] :: p :: ps else (c :: p) :: ps

/-- second oracle for `blk.scan`, written by splitting into lines (no scanning state; no theorem
    depends on it): `some (bump, truncate, lines)` iff the text starts with a well-formed block -/
def refBlock (src : List Char) : Option (Nat × Bool × List (List Char)) :=
  let (tr, s0) := match src with
    | '-' :: t => (true, t)
    | _ => (false, src)
  match splitNl s0 with
  | [] => none
  | hdr :: ps =>
    if !(hdr.all StrBlock.isHdr) || ps.isEmpty then none else
    match ps.find? (fun l => !l.isEmpty) with
    | none => none
    | some first =>
      let W := first.takeWhile StrBlock.isWs
      if W.isEmpty then none else
      let content := ps.dropLast.takeWhile (fun l => l.isEmpty || W.isPrefixOf l)
      match ps.drop content.length with
      | [] => none
      | t :: _ =>
        if W.isPrefixOf t || (t.dropWhile StrBlock.isWs).take 3 != StrBlock.bars then none else
        let bump := (if tr then 1 else 0) + byteLen hdr + 1 + (content.map (fun l => byteLen l + 1)).sum
                    + byteLen (t.takeWhile StrBlock.isWs) + 3
        some (bump, tr, content.map (fun l => l.drop W.length))

def handle (op : String) (j : Json) : Option Json :=
  match op with
  | "loc.map" =>
    -- {"text":[code points],"queries":[[offsets],…]} → per query: the five fields of every location
    match (do let t ← arr? j "text"; let q ← arr? j "queries"; pure (chars t, natLists q)) with
    | none => some (bad "loc.map: parse")
    | some (text, qs) =>
      let model := qs.map (fun offs => Json.arr ((offsetToLocation text offs).map locJson).toArray)
      let specs := qs.mapM (fun offs => (allSplit text offs).map (fun ps =>
          Json.arr (ps.map (fun p => locJson (Spec.locate p.1 p.2))).toArray))
      let mlines := qs.map (fun offs => ofNats ((offsetToLocation text offs).map (·.line)))
      let slines := qs.map (fun offs => ofNats (offs.map (Spec.lineBytes text)))
      let m := obj [("locs", .arr model.toArray), ("lines", .arr mlines.toArray)]
      match specs with
      | some ss => some (obj [("model", m),
          ("spec", obj [("locs", .arr ss.toArray), ("lines", .arr slines.toArray)])])
      | none => some (obj [("model", m)])
  | "loc.frame" =>
    -- {"text":…, "spans":[[a,b],…]} → what CompactFormat prints for a frame with that span
    match (do let t ← arr? j "text"; let q ← arr? j "spans"; pure (chars t, natLists q)) with
    | none => some (bad "loc.frame: parse")
    | some (text, qs) =>
      let pr := qs.map (fun ab =>
        match offsetToLocation text ab with
        | [s, e] => (printCodeLocation s e).render
        | _ => "?")
      some (obj [("model", obj [("printed", ofStrs pr)])])
  | "loc.start" =>
    -- {"text":…, "at":[offset,…]} → reference (line, column) of each planted construct; the column is
    -- demanded only when the construct's own line is ASCII before it (else null)
    match (do let t ← arr? j "text"; let q ← arr? j "at"; pure (chars t, nats q)) with
    | none => some (bad "loc.start: parse")
    | some (text, ats) =>
      let one (o : Nat) : Json :=
        match Spec.splitAt? text o with
        | none => .str "not-a-boundary"
        | some (pre, _) =>
          let col : Json := if isAsciiList (Spec.linePrefix pre) then toJson (Spec.column pre) else .null
          Json.arr #[toJson (Spec.line pre), col]
      some (obj [("spec", obj [("start", .arr (ats.map one).toArray)])])
  | "loc.line" =>
    -- {"text":…, "at":[offset,…]} → reference line only (std.trace prints no column)
    match (do let t ← arr? j "text"; let q ← arr? j "at"; pure (chars t, nats q)) with
    | none => some (bad "loc.line: parse")
    | some (text, ats) =>
      let one (o : Nat) : Json :=
        match Spec.splitAt? text o with
        | none => .str "not-a-boundary"
        | some (pre, _) => toJson (Spec.line pre)
      some (obj [("spec", obj [("line", .arr (ats.map one).toArray)])])
  | "loc.mstart" =>
    -- {"files":[{"text":[code points],"at":[offset,…]},…]} → for every file, the reference (line,
    -- column) of each planted frame IN THAT FILE (column only when the line prefix is ASCII)
    match arr? j "files" with
    | none => some (bad "loc.mstart: parse")
    | some fs =>
      let perFile (f : Json) : Json :=
        match (do let t ← arr? f "text"; let q ← arr? f "at"; pure (chars t, nats q)) with
        | none => .str "parse"
        | some (text, ats) =>
          .arr ((ats.map (fun o =>
            match Spec.splitAt? text o with
            | none => Json.str "not-a-boundary"
            | some (pre, _) =>
              let col : Json := if isAsciiList (Spec.linePrefix pre) then toJson (Spec.column pre) else .null
              Json.arr #[toJson (Spec.line pre), col])).toArray)
      some (obj [("spec", obj [("start", .arr (fs.map perFile))])])
  | "loc.trace" =>
    -- {"texts":[[code points],…],"names":[path,…],"frames":[[k,a,b] | null,…],"descs":[…],"msg":…,
    --  "padding":n} → every line CompactFormat writes
    match (do let ts ← arr? j "texts"; let ns ← arr? j "names"; let fr ← arr? j "frames"
              let ds ← arr? j "descs"; let msg ← str? j "msg"; let pad ← nat? j "padding"
              pure (natLists ts, strs ns, fr.toList, strs ds, msg, pad)) with
    | none => some (bad "loc.trace: parse")
    | some (ts, ns, fr, ds, msg, pad) =>
      let texts := ts.map (fun t => t.map Char.ofNat)
      let mk (f : Json) : Option Frame :=
        match f with
        | .arr a =>
          match nats a with
          | [k, x, y] => some { path := ns.getD k "?", text := texts.getD k [], a := x, b := y }
          | _ => none
        | _ => none
      let fs := (fr.map mk).zip ds
      some (obj [("model", obj [("lines", ofStrs (writeTrace pad msg fs))])])
  | "loc.js" =>
    -- {"texts":[[code points] per frame],"at":[start offset per frame]} → what JsFormat prints
    -- (line, the record's column) and the reference (line, 1-based column)
    match (do let ts ← arr? j "texts"; let q ← arr? j "at"; pure (natLists ts, nats q)) with
    | none => some (bad "loc.js: parse")
    | some (ts, ats) =>
      let one (conv : Nat) (p : List Nat × Nat) : Json :=
        let text := p.1.map Char.ofNat
        match Spec.splitAt? text p.2 with
        | none => .str "not-a-boundary"
        | some (pre, _) =>
          let col : Json := if isAsciiList (Spec.linePrefix pre) then toJson (Spec.column pre + conv) else .null
          Json.arr #[toJson (Spec.line pre), col]
      -- model: `jsFrameLoc` (theorem jsColumn_spec)
      let m := (ts.zip ats).map (fun p =>
        let text := p.1.map Char.ofNat
        let r := jsFrameLoc text p.2 p.2
        match Spec.splitAt? text p.2 with
        | none => Json.str "not-a-boundary"
        | some (pre, _) =>
          let col : Json := if isAsciiList (Spec.linePrefix pre) then toJson r.2 else .null
          Json.arr #[toJson r.1, col])
      some (obj [("model", obj [("pos", .arr m.toArray)]),
                 ("spec", obj [("pos", .arr ((ts.zip ats).map (one 0)).toArray)])])
  | "loc.synerr" =>
    -- {"text":…, "offset":n} → the location CompactFormat prints for an ImportSyntaxError
    match (do let t ← arr? j "text"; let o ← nat? j "offset"; pure (chars t, o)) with
    | none => some (bad "loc.synerr: parse")
    | some (text, o) => some (obj [("model", obj [("printed", .str (syntaxErrorLoc text o).render)])])
  | "syn.kind" =>
    -- {"text":…, "at":n, "tok":[code points of the offending token]} → the offset a syntax error has to
    -- report when its offender is the token `tok` placed at byte `at` (checked here: the text really
    -- has `tok` at that offset; empty `tok` = end of input / no token), the reference line/column of
    -- that offset (column only when the line prefix is ASCII) and the location CompactFormat prints
    -- for it by the `syntaxErrorLoc` model
    match (do let t ← arr? j "text"; let o ← nat? j "at"; let k ← arr? j "tok"; pure (chars t, o, chars k)) with
    | none => some (bad "syn.kind: parse")
    | some (text, o, tok) =>
      match Spec.splitAt? text o with
      | none => some (bad "syn.kind: the offender is not at a character boundary")
      | some (pre, post) =>
        if !(tok.isPrefixOf post) then some (bad "syn.kind: the offender is not at the given offset") else
        let col : Json := if isAsciiList (Spec.linePrefix pre) then toJson (Spec.column pre) else .null
        -- the empty text has no position at all: the code prints 1:2 (clamped to offset 0, column + 1),
        -- recorded by the model only
        let start : Json := if text.isEmpty then .str "*" else Json.arr #[toJson (Spec.line pre), col]
        some (obj [("spec", obj [("offset", toJson o), ("start", start), ("printed", .str "*")]),
                   ("model", obj [("offset", toJson o), ("start", .str "*"),
                                  ("printed", .str (syntaxErrorLoc text o).render)])])
  | "blk.scan" =>
    -- {"text":[code points of the text after `|||`]} → what the scanner does with it
    match (do let t ← arr? j "text"; pure (chars t)) with
    | none => some (bad "blk.scan: parse")
    | some src =>
      match StrBlock.scan src with
      | none => some (obj [("model", obj [("panic", .str "model: slice inside a character or bump past the end")])])
      | some o =>
        let cls : String := match o.res with
          | none => "ok"
          | some .unexpectedEnd => "UnexpectedEnd"
          | some .missingNewLine => "MissingNewLine"
          | some .missingTermination => "MissingTermination"
          | some .missingIndent => "MissingIndent"
        let ok := o.res.isNone
        let codes (l : List Char) : Json := ofNats (l.map Char.toNat)
        let m := obj [
          ("res", .str cls), ("collect", .str (if ok then "ok" else cls)), ("start", toJson (0 : Nat)),
          ("bump", toJson o.bump),
          ("truncate", if ok then toJson o.truncate else .null),
          ("lines", if ok then .arr (o.lines.map codes).toArray else .null),
          ("value", if ok then codes (StrBlock.value o.lines o.truncate) else .null)]
        -- reference: a well-formed block must be accepted with exactly this bump, lines and value;
        -- anything else must be rejected (error class and error bump are the model's business)
        match refBlock src with
        | some (bump, tr, lines) =>
          let v := (lines.map (fun l => l ++ ['\n'])).flatten
          some (obj [("model", m), ("spec", obj [
            ("res", .str "ok"), ("collect", .str "ok"), ("start", toJson (0 : Nat)), ("bump", toJson bump),
            ("truncate", toJson tr), ("lines", .arr (lines.map codes).toArray),
            ("value", codes (if tr then v.dropLast else v))])])
        | none =>
          if ok then some (obj [("model", m), ("spec", obj [("res", .str "rejected-by-the-reference")])])
          else some (obj [("model", m)])
  | "lex.tile" =>
    -- {"len":byte length,"ranges":[[s,e],…],"text":[code points]} : observation of the lexer output
    match (do let n ← nat? j "len"; let r ← arr? j "ranges"; let t ← arr? j "text"
              pure (n, natLists r, chars t)) with
    | none => some (bad "lex.tile: parse")
    | some (n, rs, text) =>
      let pairs := rs.filterMap (fun r => match r with | [a, b] => some (a, b) | _ => none)
      let okShape := pairs.length == rs.length
      let tiles := Tile.tilesB 0 n pairs
      let onBounds := pairs.all (fun p => (Spec.splitAt? text p.1).isSome && (Spec.splitAt? text p.2).isSome)
      let lenOk := byteLen text == n
      some (obj [("observed", toJson (okShape && tiles && onBounds && lenOk)),
                 ("_tiles", toJson tiles), ("_onBounds", toJson onBounds)])
  | "tree.text" =>
    -- {"text":[code points],"tree":[code points] | null} : the rowan tree's text is the input
    match (do let t ← arr? j "text"; pure (chars t)) with
    | none => some (bad "tree.text: parse")
    | some text =>
      match arr? j "tree" with
      | some tr => some (obj [("observed", toJson (chars tr == text))])
      | none => some (obj [("observed", toJson false), ("_why", .str "no tree (panic)")])
  | "ast.spans" =>
    -- {"text":…, "spans":[[a,b],…]} : every AST span is inside the text, ordered, on char boundaries
    match (do let t ← arr? j "text"; let q ← arr? j "spans"; pure (chars t, natLists q)) with
    | none => some (bad "ast.spans: parse")
    | some (text, qs) =>
      let ok := qs.all (fun ab => match ab with
        | [a, b] => a ≤ b && b ≤ byteLen text && (Spec.splitAt? text a).isSome && (Spec.splitAt? text b).isSome
        | _ => false)
      some (obj [("observed", toJson ok)])
  | _ => none

end JrsVerif.Drv.C17
