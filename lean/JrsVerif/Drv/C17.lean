import JrsVerif.Common.J
import JrsVerif.Model.Loc
import JrsVerif.Model.Tile

namespace JrsVerif.Drv.C17
open Lean JrsVerif.J JrsVerif.Loc

def chars (a : Array Json) : List Char := (nats a).map Char.ofNat

def locJson (l : CodeLocation) : Json := ofNats [l.offset, l.line, l.column, l.lineStart, l.lineEnd]

def natLists (a : Array Json) : List (List Nat) :=
  a.toList.map (fun x => match x with | .arr b => nats b | _ => [])

/-- all offsets are character boundaries of `text` -/
def allSplit (text : List Char) (offs : List Nat) : Option (List (List Char × List Char)) :=
  offs.mapM (Spec.splitAt? text)

def isAsciiList (cs : List Char) : Bool := cs.all (fun c => c.toNat < 128)

/-- start `(line, column)` of a printed location by the reference meaning -/
def specStart (text : List Char) (o : Nat) : Option (Nat × Nat) :=
  (Spec.splitAt? text o).map (fun p => (Spec.line p.1, Spec.column p.1))

def handle (op : String) (j : Json) : Option Json :=
  match op with
  | "loc.map" =>
    -- {"text":[code points],"queries":[[offsets],…]} → per query: the five fields of every location
    match (do let t ← arr? j "text"; let q ← arr? j "queries"; pure (chars t, natLists q)) with
    | none => some (bad "loc.map: parse")
    | some (text, qs) =>
      let model := qs.map (fun offs => Json.arr ((offsetToLocation text offs).map locJson).toArray)
      let specs := qs.mapM (fun offs => (allSplit text offs).map (fun ps =>
          Json.arr (ps.map (fun p => locJson (Spec.locate p.1 p.2))).toArray))
      let mlines := qs.map (fun offs => ofNats ((offsetToLocation text offs).map (·.line)))
      let slines := qs.map (fun offs => ofNats (offs.map (Spec.lineBytes text)))
      let m := obj [("locs", .arr model.toArray), ("lines", .arr mlines.toArray)]
      match specs with
      | some ss => some (obj [("model", m),
          ("spec", obj [("locs", .arr ss.toArray), ("lines", .arr slines.toArray)])])
      | none => some (obj [("model", m)])
  | "loc.frame" =>
    -- {"text":…, "spans":[[a,b],…]} → what CompactFormat prints for a frame with that span
    match (do let t ← arr? j "text"; let q ← arr? j "spans"; pure (chars t, natLists q)) with
    | none => some (bad "loc.frame: parse")
    | some (text, qs) =>
      let pr := qs.map (fun ab =>
        match offsetToLocation text ab with
        | [s, e] => (printCodeLocation s e).render
        | _ => "?")
      some (obj [("model", obj [("printed", ofStrs pr)])])
  | "loc.start" =>
    -- {"text":…, "at":[offset,…]} → reference (line, column) of each planted construct; the column is
    -- demanded only when the construct's own line is ASCII before it (else null)
    match (do let t ← arr? j "text"; let q ← arr? j "at"; pure (chars t, nats q)) with
    | none => some (bad "loc.start: parse")
    | some (text, ats) =>
      let one (o : Nat) : Json :=
        match Spec.splitAt? text o with
        | none => .str "not-a-boundary"
        | some (pre, _) =>
          let col : Json := if isAsciiList (Spec.linePrefix pre) then toJson (Spec.column pre) else .null
          Json.arr #[toJson (Spec.line pre), col]
      some (obj [("spec", obj [("start", .arr (ats.map one).toArray)])])
  | "loc.line" =>
    -- {"text":…, "at":[offset,…]} → reference line only (std.trace prints no column)
    match (do let t ← arr? j "text"; let q ← arr? j "at"; pure (chars t, nats q)) with
    | none => some (bad "loc.line: parse")
    | some (text, ats) =>
      let one (o : Nat) : Json :=
        match Spec.splitAt? text o with
        | none => .str "not-a-boundary"
        | some (pre, _) => toJson (Spec.line pre)
      some (obj [("spec", obj [("line", .arr (ats.map one).toArray)])])
  | "lex.tile" =>
    -- {"len":byte length,"ranges":[[s,e],…],"text":[code points]} : observation of the lexer output
    match (do let n ← nat? j "len"; let r ← arr? j "ranges"; let t ← arr? j "text"
              pure (n, natLists r, chars t)) with
    | none => some (bad "lex.tile: parse")
    | some (n, rs, text) =>
      let pairs := rs.filterMap (fun r => match r with | [a, b] => some (a, b) | _ => none)
      let okShape := pairs.length == rs.length
      let tiles := Tile.tilesB 0 n pairs
      let onBounds := pairs.all (fun p => (Spec.splitAt? text p.1).isSome && (Spec.splitAt? text p.2).isSome)
      let lenOk := byteLen text == n
      some (obj [("observed", toJson (okShape && tiles && onBounds && lenOk)),
                 ("_tiles", toJson tiles), ("_onBounds", toJson onBounds)])
  | "tree.text" =>
    -- {"text":[code points],"tree":[code points] | null} : the rowan tree's text is the input
    match (do let t ← arr? j "text"; pure (chars t)) with
    | none => some (bad "tree.text: parse")
    | some text =>
      match arr? j "tree" with
      | some tr => some (obj [("observed", toJson (chars tr == text))])
      | none => some (obj [("observed", toJson false), ("_why", .str "no tree (panic)")])
  | "ast.spans" =>
    -- {"text":…, "spans":[[a,b],…]} : every AST span is inside the text, ordered, on char boundaries
    match (do let t ← arr? j "text"; let q ← arr? j "spans"; pure (chars t, natLists q)) with
    | none => some (bad "ast.spans: parse")
    | some (text, qs) =>
      let ok := qs.all (fun ab => match ab with
        | [a, b] => a ≤ b && b ≤ byteLen text && (Spec.splitAt? text a).isSome && (Spec.splitAt? text b).isSome
        | _ => false)
      some (obj [("observed", toJson ok)])
  | _ => none

end JrsVerif.Drv.C17
