/- C09 driver ops: num.cmp / num.arith / num.bits / num.un / num.sort / num.clamp.
   Numbers travel as 16-hex-digit IEEE bit patterns.  `Float` (C double, platform libm) is used
   here only: as the "hardware" of the arithmetic model and as the reference for libm functions. -/
import JrsVerif.Common.J
import JrsVerif.Model.Num

namespace JrsVerif.Drv.C09
open Lean JrsVerif.J JrsVerif.Num

def hexVal (c : Char) : Option Nat :=
  if '0' ≤ c ∧ c ≤ '9' then some (c.toNat - '0'.toNat)
  else if 'a' ≤ c ∧ c ≤ 'f' then some (c.toNat - 'a'.toNat + 10)
  else none

def parseHex (s : String) : Option Nat :=
  if s.length ≠ 16 then none
  else s.toList.foldlM (fun acc c => do let v ← hexVal c; pure (acc * 16 + v)) 0

def hexDigit (n : Nat) : Char :=
  if n < 10 then Char.ofNat ('0'.toNat + n) else Char.ofNat ('a'.toNat + n - 10)

def toHex (n : Nat) : String :=
  String.ofList ((List.range 16).reverse.map (fun i => hexDigit ((n / 16 ^ i) % 16)))

def showErr (e : Err) : String := "err:" ++ e.name

/-- exact encoding of a decoded double; "inexact" must never appear -/
def showD (d : D) : String :=
  match encode d with
  | some b => toHex b
  | none => "inexact"

/-- value only: both zeros print as +0 -/
def showV (d : D) : String := showD ⟨if d.mag = 0 then false else d.neg, d.mag⟩

def showRD : Except Err D → String
  | .ok d => showD d
  | .error e => showErr e

def showBits : Except Err Nat → String
  | .ok b => toHex b
  | .error e => showErr e

/-- an `i64` result converted `as f64` (round to nearest even) -/
def ofI64 (r : Int) : D := ⟨decide (r < 0), Spec.roundMag (r.natAbs * U) 1⟩

def showRI : Except Err Int → String
  | .ok r => showD (ofI64 r)
  | .error e => showErr e

def bstr (b : Bool) : String := if b then "true" else "false"

def fl (b : Nat) : Float := Float.ofBits b.toUInt64
def bitsOf (f : Float) : Nat := f.toBits.toNat

/-- the FPU: `+ - * /` from `Float`; `%` (C fmod, not available on `Float`) from the exact spec -/
def hw (op : AOp) (a b : Nat) : Nat :=
  match op with
  | .add => bitsOf (fl a + fl b)
  | .sub => bitsOf (fl a - fl b)
  | .mul => bitsOf (fl a * fl b)
  | .div => bitsOf (fl a / fl b)
  | .mod =>
    match decode a, decode b with
    | some x, some y =>
      match Spec.mod x y with
      | .ok d => (encode d).getD 0x7ff8000000000000
      | .error _ => 0x7ff8000000000000
    | _, _ => 0x7ff8000000000000

/-- libm function through the builtin return path -/
def lib1 (f : Float → Float) (a : Nat) : String := showBits (builtinRet (bitsOf (f (fl a))))
def lib2 (f : Float → Float → Float) (a b : Nat) : String :=
  showBits (builtinRet (bitsOf (f (fl a) (fl b))))

def PI_BITS : Nat := 0x400921fb54442d18
def D180 : D := ⟨false, 180 * U⟩

/-- `f64::to_radians` = `self * (PI / 180.0)`, `to_degrees` = `self * (180.0 / PI)` -/
def scaleBy (a : D) (c : Except Err D) : Except Err D := do
  let k ← c
  Spec.mul a k

def two (a b : Nat) : Option (D × D) := do
  let x ← decode a
  let y ← decode b
  pure (x, y)

def getHex (j : Json) (k : String) : Option Nat := do parseHex (← str? j k)

def hexList (j : Json) (k : String) : Option (List Nat) := do
  let a ← arr? j k
  a.toList.mapM (fun x => do parseHex (← x.getStr?.toOption))

def sobj (kvs : List (String × String)) : Json := obj (kvs.map (fun (k, v) => (k, Json.str v)))

def handle (op : String) (j : Json) : Option Json :=
  match op with
  | "num.cmp" =>
    match (do let a ← getHex j "a"; let b ← getHex j "b"; two a b) with
    | none => some (bad "num.cmp: parse")
    | some (x, y) =>
      let m := sobj [("lt", bstr (opLt x y)), ("le", bstr (opLe x y)), ("gt", bstr (opGt x y)),
                     ("ge", bstr (opGe x y)), ("eq", bstr (opEq x y)), ("ne", bstr (opNe x y)),
                     ("peq", bstr (eqImpl x y)), ("seq", bstr (eqImpl x y))]
      let lt := Spec.lt x y; let eq := Spec.eq x y; let gt := Spec.lt y x
      let s := sobj [("lt", bstr lt), ("le", bstr (lt || eq)), ("gt", bstr gt),
                     ("ge", bstr (gt || eq)), ("eq", bstr eq), ("ne", bstr (!eq)),
                     ("peq", bstr eq), ("seq", bstr eq)]
      some (obj [("model", m), ("spec", s)])
  | "num.arith" =>
    match (do let a ← getHex j "a"; let b ← getHex j "b"; let (x, y) ← two a b; pure (a, b, x, y)) with
    | none => some (bad "num.arith: parse")
    | some (a, b, x, y) =>
      let mm := showV (Spec.max x y); let mn := showV (Spec.min x y)
      let m := sobj [("add", showBits (arith hw .add a b)), ("sub", showBits (arith hw .sub a b)),
                     ("mul", showBits (arith hw .mul a b)), ("div", showBits (arith hw .div a b)),
                     ("mod", showBits (arith hw .mod a b)), ("modulo", showRD (Spec.modulo x y)),
                     ("max", mm), ("min", mn),
                     ("pow", lib2 Float.pow a b), ("atan2", lib2 Float.atan2 a b)]
      let s := sobj [("add", showRD (Spec.add x y)), ("sub", showRD (Spec.sub x y)),
                     ("mul", showRD (Spec.mul x y)), ("div", showRD (Spec.div x y)),
                     ("mod", showRD (Spec.mod x y)), ("modulo", showRD (Spec.modulo x y)),
                     ("max", mm), ("min", mn),
                     ("pow", lib2 Float.pow a b), ("atan2", lib2 Float.atan2 a b)]
      some (obj [("model", m), ("spec", s)])
  | "num.bits" =>
    match (do let a ← getHex j "a"; let b ← getHex j "b"; two a b) with
    | none => some (bad "num.bits: parse")
    | some (x, y) =>
      let m := sobj [("and", showRI (bitOp .and x y)), ("or", showRI (bitOp .or x y)),
                     ("xor", showRI (bitOp .xor x y)), ("shl", showRI (shlOp x y)),
                     ("shr", showRI (shrOp x y))]
      let s := sobj [("and", showRI (Spec.bit .and x y)), ("or", showRI (Spec.bit .or x y)),
                     ("xor", showRI (Spec.bit .xor x y)), ("shl", showRI (Spec.shl x y)),
                     ("shr", showRI (Spec.shr x y))]
      some (obj [("model", m), ("spec", s)])
  | "num.un" =>
    match (do let a ← getHex j "a"; let x ← decode a; pure (a, x)) with
    | none => some (bad "num.un: parse")
    | some (a, x) =>
      let (fm, fe) := Spec.frexp x
      let pi := (decode PI_BITS).getD default
      let common : List (String × String) := [
        ("neg", showD (Spec.neg x)), ("abs", showD (Spec.abs x)), ("sign", showD (Spec.sign x)),
        ("floor", showD (Spec.floor x)), ("ceil", showD (Spec.ceil x)), ("round", showD (Spec.round x)),
        ("isInteger", bstr (Spec.isInteger x)), ("isDecimal", bstr (!Spec.isInteger x)),
        ("deg2rad", showRD (scaleBy x (Spec.div pi D180))),
        ("rad2deg", showRD (scaleBy x (Spec.div D180 pi))),
        ("sqrt", if x.val < 0 then showErr .type else lib1 Float.sqrt a),
        ("log", lib1 Float.log a), ("log2", lib1 Float.log2 a), ("log10", lib1 Float.log10 a),
        ("exp", lib1 Float.exp a), ("sin", lib1 Float.sin a), ("cos", lib1 Float.cos a),
        ("tan", lib1 Float.tan a), ("asin", lib1 Float.asin a), ("acos", lib1 Float.acos a),
        ("atan", lib1 Float.atan a),
        ("mantissa", showD fm), ("exponent", toString fe)]
      let m := sobj (("bitnot", showD (ofI64 (bitNot x))) :: common)
      -- reference for `~` : defined on the i64 range; outside, the saturating cast is what the
      -- code does and no independent meaning is claimed
      let s := sobj (("bitnot", showD (ofI64 (bitNot x))) :: common)
      some (obj [("model", m), ("spec", s)])
  | "num.observe" =>
    some (obj [("observed", Json.bool ((bool? j "holds").getD false))])
  | "num.clamp" =>
    match (do let a ← getHex j "x"; let b ← getHex j "lo"; let c ← getHex j "hi"
              let x ← decode a; let lo ← decode b; let hi ← decode c; pure (x, lo, hi)) with
    | none => some (bad "num.clamp: parse")
    | some (x, lo, hi) =>
      let r := sobj [("clamp", showV (Spec.clamp x lo hi))]
      some (obj [("model", r), ("spec", r)])
  | "num.sort" =>
    match (do let xs ← hexList j "xs"; let ps ← hexList j "probes"
              let xs ← xs.mapM decode; let ps ← ps.mapM decode; pure (xs, ps)) with
    | none => some (bad "num.sort: parse")
    | some (xs, ps) =>
      let sv (l : List D) : Json := ofStrs (l.map showV)
      let setM := setImpl xs
      let m := obj [("sort", sv (sortImpl xs)), ("uniq", sv (uniqImpl xs)), ("set", sv setM),
                    ("member", ofStrs (ps.map (fun p => bstr (setMemberImpl p setM))))]
      let specUniq : List D := xs.foldr (fun x acc => match acc with
        | y :: _ => if x.val = y.val then x :: acc.tail else x :: acc
        | [] => [x]) []
      let s := obj [("sort", sv (Spec.sort xs)), ("uniq", sv specUniq), ("set", sv (Spec.set xs)),
                    ("member", ofStrs (ps.map (fun p => bstr (Spec.mem p xs))))]
      some (obj [("model", m), ("spec", s)])
  | _ => none

end JrsVerif.Drv.C09
