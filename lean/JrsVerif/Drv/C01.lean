import JrsVerif.Common.J
import JrsVerif.Model.Eval
import JrsVerif.Model.Bind

namespace JrsVerif.Drv.C01
open Lean JrsVerif.J JrsVerif.Eval

def uop : String → Option UOp
  | "+" => some .plus | "-" => some .minus | "~" => some .bitnot | "!" => some .not | _ => none
def bop : String → Option BOp
  | "*" => some .mul | "/" => some .div | "%" => some .mod | "+" => some .add | "-" => some .sub
  | "<<" => some .shl | ">>" => some .shr | "<" => some .lt | ">" => some .gt | "<=" => some .le
  | ">=" => some .ge | "&" => some .band | "|" => some .bor | "^" => some .bxor | "==" => some .eq
  | "!=" => some .ne | "&&" => some .and | "||" => some .or | "in" => some .in_ | _ => none
def vis : String → Vis
  | "h" => .hidden | "u" => .unhide | _ => .normal

def elems (j : Json) : Option (List Json) := match j with | .arr a => some a.toList | _ => none
def strOf (j : Json) : Option String := j.getStr?.toOption

def floatOfBits (s : String) : Float := Float.ofBits (UInt64.ofNat s.toNat!)

mutual
partial def pExpr (j : Json) : Option Expr := do
  let a ← elems j
  match a with
  | [.str "null"] => some .null
  | [.str "true"] => some .tru
  | [.str "false"] => some .fals
  | [.str "self"] => some .self
  | [.str "super"] => some .super
  | [.str "$"] => some .dollar
  | [.str "str", .str s] => some (.str s)
  | [.str "num", .str b] => some (.num (floatOfBits b))
  | [.str "var", .str n] => some (.var n)
  | [.str "arr", es] => some (.arr (← (← elems es).mapM pExpr))
  | [.str "arrcomp", b, specs] => some (.arrComp (← pExpr b) (← (← elems specs).mapM pSpec))
  | [.str "obj", b] => some (.obj (← pBody b))
  | [.str "objext", e, b] => some (.objExt (← pExpr e) (← pBody b))
  | [.str "unary", .str o, e] => some (.unary (← uop o) (← pExpr e))
  | [.str "binary", .str o, x, y] => some (.binary (← bop o) (← pExpr x) (← pExpr y))
  | [.str "assert", c, m, r] => some (.assertE (← pExpr c) (← pOpt m) (← pExpr r))
  | [.str "local", bs, b] => some (.localE (← (← elems bs).mapM pBind) (← pExpr b))
  | [.str "error", e] => some (.errorE (← pExpr e))
  | [.str "apply", f, pos, named, .bool ts] =>
    some (.apply (← pExpr f) (← (← elems pos).mapM pExpr)
      (← (← elems named).mapM (fun p => do
        match ← elems p with
        | [.str n, e] => some (n, ← pExpr e)
        | _ => none)) ts)
  | [.str "index", e, parts] => some (.index (← pExpr e) (← (← elems parts).mapM pExpr))
  | [.str "func", ps, b] => some (.func (← pParams ps) (← pExpr b))
  | [.str "if", c, t, e] => some (.ifE (← pExpr c) (← pExpr t) (← pOpt e))
  | [.str "slice", e, x, y, z] => some (.slice (← pExpr e) (← pOpt x) (← pOpt y) (← pOpt z))
  | .str "unsupported" :: _ => some (.unsupported "unsupported construct")
  | _ => none
partial def pOpt (j : Json) : Option (Option Expr) :=
  match j with
  | .null => some none
  | j => do some (some (← pExpr j))
partial def pParams (j : Json) : Option (List Param) := do
  (← elems j).mapM (fun p => do
    match ← elems p with
    | [.str n, d] => some (.mk n (← pOpt d))
    | _ => none)
partial def pBind (j : Json) : Option Bind := do
  match ← elems j with
  | [.str "bind", .str n, e] => some (.val n (← pExpr e))
  | [.str "fn", .str n, ps, e] => some (.fn n (← pParams ps) (← pExpr e))
  | _ => none
partial def pSpec (j : Json) : Option CompSpec := do
  match ← elems j with
  | [.str "for", .str v, e] => some (.forS v (← pExpr e))
  | [.str "if", e] => some (.ifS (← pExpr e))
  | _ => none
partial def pField (j : Json) : Option Field := do
  match ← elems j with
  | [nm, .bool plus, ps, .str v, value] =>
    let name ← match ← elems nm with
      | [.str "fixed", .str s] => some (FieldName.fixed s)
      | [.str "dyn", e] => some (FieldName.dyn (← pExpr e))
      | _ => none
    let ps' ← match ps with
      | .null => some none
      | p => do some (some (← pParams p))
    some (.mk name plus ps' (vis v) (← pExpr value))
  | _ => none
partial def pBody (j : Json) : Option ObjBody := do
  match ← elems j with
  | [.str "members", ls, asserts, fields] =>
    some (.members (← (← elems ls).mapM pBind)
      (← (← elems asserts).mapM (fun a => do
        match ← elems a with
        | [c, m] => some (← pExpr c, ← pOpt m)
        | _ => none))
      (← (← elems fields).mapM pField))
  | [.str "objcomp", ls, f, specs] =>
    some (.comp (← (← elems ls).mapM pBind) (← pField f) (← (← elems specs).mapM pSpec))
  | _ => none
end

partial def jvJson : JV → Json
  | .null => .null
  | .bool b => .bool b
  | .num f => obj [("$n", .str (toString f.toBits.toNat))]
  | .str s => .str s
  | .arr xs => .arr (xs.map jvJson).toArray
  | .obj kvs => obj (kvs.map (fun (k, v) => (k, jvJson v)))

def sortStrs (l : List String) : List String := (l.toArray.qsort (· < ·)).toList

def outcomeJson (o : Outcome) : Json :=
  match o with
  | .value j tr => obj [("ok", jvJson j), ("trace", ofStrs (sortStrs tr))]
  | .error cls msg tr => obj [("err", .str cls), ("trace", ofStrs (sortStrs tr)), ("_msg", .str msg)]
  | .undecided why => obj [("skip", .bool true), ("_why", .str why)]

def srcJson : Bind.Src → Json
  | .pos i => .arr #[.str "pos", toJson i]
  | .named k => .arr #[.str "named", toJson k]
  | .dflt => .arr #[.str "dflt"]

def bindCall (j : Json) : Option Json := do
  let ps : List Bind.Param ← (← arr? j "params").toList.mapM (fun p => do
    match p with
    | .arr #[.str n, .bool d] => some (n, d)
    | _ => none)
  let npos ← nat? j "npos"
  let named := strs (← arr? j "named")
  let model : Json := match Bind.parseCall ps npos named with
    | .ok env => obj [("ok", .arr (ps.map (fun p => match Bind.lookup env p.1 with
        | some s => srcJson s | none => Json.null)).toArray)]
    | .err e => obj [("err", .str (match e with
        | .tooMany => "tooMany" | .unknown _ => "unknown" | .twice _ => "twice" | .unbound _ => "unbound"))]
    | .unreachable => obj [("panic", .str "unreachable")]
  -- reference: the language rule (class-level for errors)
  let spec : Json :=
    if Bind.specOk ps npos named then
      obj [("ok", .arr ((List.range ps.length).map (fun i => match ps[i]? with
        | some p => (match Bind.specSrc npos named i p with | some s => srcJson s | none => Json.null)
        | none => Json.null)).toArray)]
    else obj [("err", .str "*")]
  some (obj [("model", model), ("spec", spec)])

def handle (op : String) (j : Json) : Option Json :=
  match op with
  | "bind.call" => match bindCall j with
    | some r => some r
    | none => some (bad "bind.call: parse")
  | "eval.run" =>
    match (do pExpr (← val? j "ast")) with
    | none => some (obj [("skip", .bool true), ("_why", .str "ast outside the modelled fragment")])
    | some e =>
      let fuel := (nat? j "fuel").getD 400
      let out := outcomeJson (evalProgram fuel e)
      match out.getObjVal? "skip" with
      | .ok _ => some out
      | _ => some (obj [("spec", out)])
  | _ => none

end JrsVerif.Drv.C01
