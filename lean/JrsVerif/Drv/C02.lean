import JrsVerif.Common.J
import JrsVerif.Model.Obj

namespace JrsVerif.Drv.C02
open Lean JrsVerif.J JrsVerif.Obj

def parseVis (s : String) : Vis :=
  if s == "h" then .hidden else if s == "u" then .unhide else .normal
def showVis : Vis → String
  | .normal => "n" | .hidden => "h" | .unhide => "u"

def parseField (j : Json) : Option Field := do
  pure { name := (← nat? j "n"), add := (← bool? j "add"), vis := parseVis (← str? j "vis"),
         val := (← nat? j "val") }

partial def parseT (j : Json) : Option OT := do
  match (← str? j "k") with
  | "lit" => some (.lit ((← arr? j "fs").toList.filterMap parseField))
  | "add" => some (.add (← parseT (← val? j "a")) (← parseT (← val? j "b")))
  | "rm" => some (.rm (← parseT (← val? j "o")) (nats (← arr? j "ns")))
  | _ => none

def sortFields (fs : List Field) : List Field :=
  (fs.toArray.qsort (fun a b => a.name < b.name)).toList

def shapeJson (cs : List Core) : Json :=
  .arr (cs.map (fun c => match c with
    | .oop fs => obj [("k", .str "oop"), ("fs", .arr ((sortFields fs).map (fun f =>
        Json.arr #[toJson f.name, toJson f.add, .str (showVis f.vis)])).toArray)]
    | .omitC ns k => obj [("k", .str "omit"), ("ns", ofNats (sortDedup ns)), ("prev", toJson k)])).toArray

def valsJson (l : List Field) : Json :=
  if l.isEmpty then .null else ofNats (l.reverse.map (·.val))

/-- the layer whose definition of `p` a read from the top sees: the top-most core defining it -/
def layerOf (cs : List Core) (p : Nat) : Option Nat :=
  match cs.reverse.findIdx? (fun c => match c with | .oop fs => (lookup fs p).isSome | _ => false) with
  | some i => some (cs.length - 1 - i)
  | none => none

def handle (op : String) (j : Json) : Option Json :=
  match op with
  | "obj.shape" =>
    match (do parseT (← val? j "t")) with
    | none => some (bad "obj.shape: parse")
    | some t => some (obj [("model", shapeJson (compile t))])
  | "obj.probe" =>
    match (do let t ← parseT (← val? j "t"); pure (t, nats (← arr? j "names"), nats (← arr? j "probes"))) with
    | none => some (bad "obj.probe: parse")
    | some (t, names, probes) =>
      let cs := compile t
      let n := cs.length
      let mPer := names.map (fun x => obj [
        ("has", toJson (match visIdx cs n x with | some v => v.visible | none => false)),
        ("hasAll", toJson (hasIdx cs n x)),
        ("get", valsJson ((getIdx cs n x).map (·.1)))])
      let sPer := names.map (fun x => obj [
        ("has", toJson (match specVis t x with | some v => v.visible | none => false)),
        ("hasAll", toJson (specHas t x)),
        ("get", valsJson (specGet t x))])
      let mProbes := probes.map (fun p => match layerOf cs p with
        | none => Json.null
        | some l => obj [
            ("has", .arr (names.map (fun x => toJson (hasIdx cs l x))).toArray),
            ("get", .arr (names.map (fun x => valsJson ((getIdx cs l x).map (·.1)))).toArray)])
      let sProbes := probes.map (fun p => match layerOf cs p with
        | none => Json.null
        | some l =>
          let t' := takeTerm t l
          obj [
            ("has", .arr (names.map (fun x => toJson (specHas t' x))).toArray),
            ("get", .arr (names.map (fun x => valsJson (specGet t' x))).toArray)])
      -- `q+:: [probe]` chain: one probe result per contributing layer, deepest first, each taken
      -- with that layer's own `super`
      let chainM : Json := match optNat j "chain" with
        | none => Json.null
        | some q =>
          let contrib := (getIdx cs n q).reverse
          if contrib.isEmpty then Json.null else
          .arr (contrib.map (fun (_, l) => obj [
            ("has", .arr (names.map (fun x => toJson (hasIdx cs l x))).toArray),
            ("get", .arr (names.map (fun x => valsJson ((getIdx cs l x).map (·.1)))).toArray)])).toArray
      let chainS : Json := match optNat j "chain" with
        | none => Json.null
        | some q =>
          let contrib := (getIdx cs n q).reverse
          if contrib.isEmpty then Json.null else
          .arr (contrib.map (fun (_, l) =>
            let t' := takeTerm t l
            obj [
              ("has", .arr (names.map (fun x => toJson (specHas t' x))).toArray),
              ("get", .arr (names.map (fun x => valsJson (specGet t' x))).toArray)])).toArray
      some (obj [
        ("model", obj [("fields", ofNats (fieldsEx cs false)), ("fieldsAll", ofNats (fieldsEx cs true)),
                       ("per", .arr mPer.toArray), ("probes", .arr mProbes.toArray), ("chain", chainM)]),
        ("spec", obj [("fields", ofNats (specFields t false)), ("fieldsAll", ofNats (specFields t true)),
                      ("per", .arr sPer.toArray), ("probes", .arr sProbes.toArray), ("chain", chainS)])])
  | _ => none

end JrsVerif.Drv.C02
