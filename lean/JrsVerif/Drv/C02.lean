import JrsVerif.Common.J
import JrsVerif.Model.Obj
import JrsVerif.Model.ObjLit
import JrsVerif.Model.ObjAssert
import JrsVerif.Model.ObjSuper

namespace JrsVerif.Drv.C02
open Lean JrsVerif.J JrsVerif.Obj

def parseVis (s : String) : Vis :=
  if s == "h" then .hidden else if s == "u" then .unhide else .normal
def showVis : Vis → String
  | .normal => "n" | .hidden => "h" | .unhide => "u"

def parseField (j : Json) : Option Field := do
  pure { name := (← nat? j "n"), add := (← bool? j "add"), vis := parseVis (← str? j "vis"),
         val := (← nat? j "val") }

partial def parseT (j : Json) : Option OT := do
  match (← str? j "k") with
  | "lit" => some (.lit ((← arr? j "fs").toList.filterMap parseField) ((bool? j "as").getD false))
  | "add" => some (.add (← parseT (← val? j "a")) (← parseT (← val? j "b")))
  | "rm" => some (.rm (← parseT (← val? j "o")) (nats (← arr? j "ns")))
  | _ => none

def sortFields (fs : List Field) : List Field :=
  (fs.toArray.qsort (fun a b => a.name < b.name)).toList

def shapeJson (cs : List Core) : Json :=
  .arr (cs.map (fun c => match c with
    | .oop fs _ => obj [("k", .str "oop"), ("fs", .arr ((sortFields fs).map (fun f =>
        Json.arr #[toJson f.name, toJson f.add, .str (showVis f.vis)])).toArray)]
    | .omitC ns k => obj [("k", .str "omit"), ("ns", ofNats (sortDedup ns)), ("prev", toJson k)])).toArray

def valsJson (l : List Field) : Json :=
  if l.isEmpty then .null else ofNats (l.reverse.map (·.val))

/-- model side of a read: the LITERAL loop of `get_idx_uncached` (`getIdxLit`), values in fold order -/
def litJson (cs : List Core) (idx : Nat) (x : Nat) : Json :=
  match getIdxLit cs idx x with
  | none => .null
  | some l => ofNats (l.map (·.1.val))

/-- the layer whose definition of `p` a read from the top sees: the top-most core defining it -/
def layerOf (cs : List Core) (p : Nat) : Option Nat :=
  match cs.reverse.findIdx? (fun c => match c with | .oop fs _ => (lookup fs p).isSome | _ => false) with
  | some i => some (cs.length - 1 - i)
  | none => none

/-! #### `obj.asserts`: objects with assertions, read in a given order -/

inductive Cond where
  | tru
  | hasAll (n : Nat) (neg : Bool)      -- `std.objectHasAll(self, n)`
  | has (n : Nat) (neg : Bool)         -- `std.objectHas(self, n)`
  | readSelf                           -- manifests `self` inside the assertion
  | readOther (j : Nat)                -- manifests an earlier object (runs ITS assertions)
  deriving Inhabited

/-- object terms as the evaluator builds them, `ext` = `a { … }` (the `with_super` path) -/
inductive DT where
  | lit (fs : List Field) (asrt : Bool) (c : Cond)
  | add (a b : DT)
  | ext (a : DT) (fs : List Field) (asrt : Bool) (c : Cond)
  | rm (o : DT) (ns : List Nat)
  deriving Inhabited

def parseCond (j : Json) : Cond :=
  match str? j "c" with
  | some "hasAll" => .hasAll ((nat? j "n").getD 0) ((bool? j "neg").getD false)
  | some "has" => .has ((nat? j "n").getD 0) ((bool? j "neg").getD false)
  | some "self" => .readSelf
  | some "other" => .readOther ((nat? j "j").getD 0)
  | _ => .tru

partial def parseDT (j : Json) : Option DT := do
  let litOf (l : Json) : Option (List Field × Bool × Cond) := do
    pure ((← arr? l "fs").toList.filterMap parseField, (bool? l "as").getD false,
          match val? l "cond" with | some c => parseCond c | none => .tru)
  match (← str? j "k") with
  | "lit" => let (fs, a, c) ← litOf j; some (.lit fs a c)
  | "add" =>
    if (bool? j "ext").getD false then do
      let (fs, a, c) ← litOf (← val? j "b")
      some (.ext (← parseDT (← val? j "a")) fs a c)
    else some (.add (← parseDT (← val? j "a")) (← parseDT (← val? j "b")))
  | "rm" => some (.rm (← parseDT (← val? j "o")) (nats (← arr? j "ns")))
  | _ => none

def DT.toOT : DT → OT
  | .lit fs a _ => .lit fs a
  | .add a b => .add a.toOT b.toOT
  | .ext a fs as _ => .add a.toOT (.lit fs as)
  | .rm o ns => .rm o.toOT ns

/-- the object value through the modelled builder calls (`ext` through `with_super`) -/
def DT.build : DT → ObjV
  | .lit fs a _ => evalLiteral none fs a
  | .add a b => b.build.extendFrom a.build
  | .ext a fs as _ => evalLiteral (some a.build) fs as
  | .rm o ns => removeKeys o.build ns

def litConds (fs : List Field) (a : Bool) (c : Cond) : List (Option Cond) :=
  if fs.isEmpty && !a then [] else [if a then some c else none]

/-- the assertion condition of each core, aligned with the core vector -/
def DT.conds : DT → List (Option Cond)
  | .lit fs a c => litConds fs a c
  | .add a b => a.conds ++ b.conds
  | .ext a fs as c => a.conds ++ litConds fs as c
  | .rm o _ => o.conds ++ [none]

def visibleOf (v : Option Vis) : Bool := match v with | some v => v.visible | none => false

/-- model: the `run_assertions` automaton over the modelled builder's flag and core vector -/
def assertsModel (objs : Array DT) (order : List Nat) : List String :=
  let built := objs.map (·.build)
  let world : World := fun o =>
    match objs[o]?, built[o]? with
    | some t, some b =>
      let cs := b.cores
      (cs.zip t.conds).map (fun (core, oc) =>
        if core.hasAssert then
          (match oc with
           | none => some ⟨[], true⟩
           | some .tru => some ⟨[], true⟩
           | some (.hasAll n neg) => some ⟨[], (hasIdx cs cs.length n) != neg⟩
           | some (.has n neg) => some ⟨[], (visibleOf (visIdx cs cs.length n)) != neg⟩
           | some .readSelf => some ⟨[o], true⟩
           | some (.readOther j) => some ⟨[j], true⟩)
        else none)
    | _, _ => []
  let ran0 := (List.range objs.size).filter (fun o => match built[o]? with | some b => b.assertionsRan0 | none => true)
  let fuel := objs.size + 3
  let step (hist : List Nat) (x : Nat) : String :=
    let st0 : ASt := ⟨ran0, [], []⟩
    match runReads (runAssertions world fuel) (hist ++ [x]) st0 with
    | some (true, st) => if st.running.isEmpty then "pass" else "running-not-empty"
    | some (false, st) => if st.running.isEmpty then "assert" else "running-not-empty"
    | none => "fuel"
  (order.foldl (fun (acc : List Nat × List String) x =>
    let r := step acc.1 x
    (if r == "pass" then acc.1 ++ [x] else acc.1, acc.2 ++ [r])) ([], [])).2

/-- spec: an object passes iff every assertion of every layer holds on the final object
    (independent of what was read before) -/
def assertsSpec (objs : Array DT) (order : List Nat) : List String :=
  let passes : List Bool := (List.range objs.size).foldl (fun (acc : List Bool) k =>
    match objs[k]? with
    | none => acc ++ [true]
    | some t =>
      let ot := t.toOT
      let ok := t.conds.all (fun oc => match oc with
        | none => true
        | some .tru => true
        | some (.hasAll n neg) => (specHas ot n) != neg
        | some (.has n neg) => (visibleOf (specVis ot n)) != neg
        | some .readSelf => true
        | some (.readOther j) => acc.getD j false)
      acc ++ [ok]) []
  order.map (fun x => if passes.getD x true then "pass" else "assert")

/-! #### `obj.super`: objects containing a bare-`super` value -/

partial def parseXT (j : Json) : Option XT := do
  match (← str? j "k") with
  | "base" => some (.base (← parseT (← val? j "t")))
  | "sup" => some (.sup (← parseT (← val? j "t")) (← nat? j "l"))
  | "add" => some (.add (← parseXT (← val? j "a")) (← parseXT (← val? j "b")))
  | "rm" => some (.rm (← parseXT (← val? j "o")) (nats (← arr? j "ns")))
  | _ => none

def supOf : XT → Option (OT × Nat)
  | .base _ => none
  | .sup t l => some (t, l)
  | .add a b => match supOf a with | some r => some r | none => supOf b
  | .rm o _ => supOf o

def xshapeJson (cs : List XCore) : Json :=
  .arr (cs.map (fun c => match c with
    | .base c => (match shapeJson [c] with | .arr a => a.getD 0 .null | o => o)
    | .standalone sup _ => obj [("k", .str "standalone"), ("sup", toJson sup)])).toArray

def handle (op : String) (j : Json) : Option Json :=
  match op with
  | "obj.shape" =>
    match (do parseT (← val? j "t")) with
    | none => some (bad "obj.shape: parse")
    | some t => some (obj [("model", shapeJson (compile t))])
  | "obj.asserts" =>
    match (do
      let objs := (← arr? j "objs").filterMap parseDT
      pure (objs, nats (← arr? j "order"))) with
    | none => some (bad "obj.asserts: parse")
    | some (objs, order) =>
      let flags (f : DT → Bool) : Json := .arr (objs.map (fun t => toJson (f t)))
      some (obj [
        ("model", obj [("res", .arr ((assertsModel objs order).map Json.str).toArray),
                       ("shapes", .arr (objs.map (fun t => shapeJson t.build.cores)))]),
        ("spec", obj [("res", .arr ((assertsSpec objs order).map Json.str).toArray),
                      ("shapes", .arr (objs.map (fun t => shapeJson (compile t.toOT))))]),
        ("_hasAssertions", flags (fun t => t.build.hasAssertions))])
  | "obj.super" =>
    match (do let x ← parseXT (← val? j "x"); pure (x, nats (← arr? j "names"))) with
    | none => some (bad "obj.super: parse")
    | some (x, names) =>
      -- `standalone_super`: `if !self.sup.super_exists() { bail!(NoSuperFound) }`
      if (match supOf x with | some (_, l) => l == 0 | none => false) then
        some (obj [("model", obj [("err", .str "nosuper")]), ("spec", obj [("err", .str "nosuper")])])
      else
      let cs := compileX x
      let ft := flattenT x
      let mGet (n : Nat) : Json :=
        let vals := (getX cs n).reverse.flatMap (fun c => match c with
          | .own f _ => [f.val]
          | .inner vs _ => vs.map (·.1.val))
        if vals.isEmpty then .null else ofNats vals
      let sGet (n : Nat) : Json :=
        let vals := (specGet ft n).reverse.flatMap (fun f =>
          if f.val == 0 then
            (match supOf x with
             | some (t, l) => (specGet (takeTerm t l) n).reverse.map (·.val)
             | none => [])
          else [f.val])
        if vals.isEmpty then .null else ofNats vals
      let mPer := names.map (fun n => obj [
        ("has", toJson (visibleOf (visX cs n))), ("hasAll", toJson (hasX cs n)), ("get", mGet n)])
      let sPer := names.map (fun n => obj [
        ("has", toJson (visibleOf (specVis ft n))), ("hasAll", toJson (specHas ft n)), ("get", sGet n)])
      let keep (l : List Nat) : List Nat := l.filter (fun n => names.contains n)
      some (obj [
        ("model", obj [("fields", ofNats (keep (fieldsExX cs false))), ("fieldsAll", ofNats (keep (fieldsExX cs true))),
                       ("per", .arr mPer.toArray), ("shape", xshapeJson cs)]),
        ("spec", obj [("fields", ofNats (keep (specFields ft false))), ("fieldsAll", ofNats (keep (specFields ft true))),
                      ("per", .arr sPer.toArray), ("shape", xshapeJson cs)])])
  | "obj.probe" =>
    match (do let t ← parseT (← val? j "t"); pure (t, nats (← arr? j "names"), nats (← arr? j "probes"))) with
    | none => some (bad "obj.probe: parse")
    | some (t, names, probes) =>
      let cs := compile t
      let n := cs.length
      let mPer := names.map (fun x => obj [
        ("has", toJson (match visIdx cs n x with | some v => v.visible | none => false)),
        ("hasAll", toJson (hasIdx cs n x)),
        ("get", litJson cs n x)])
      let sPer := names.map (fun x => obj [
        ("has", toJson (match specVis t x with | some v => v.visible | none => false)),
        ("hasAll", toJson (specHas t x)),
        ("get", valsJson (specGet t x))])
      let mProbes := probes.map (fun p => match layerOf cs p with
        | none => Json.null
        | some l => obj [
            ("has", .arr (names.map (fun x => toJson (hasIdx cs l x))).toArray),
            ("get", .arr (names.map (fun x => litJson cs l x)).toArray)])
      let sProbes := probes.map (fun p => match layerOf cs p with
        | none => Json.null
        | some l =>
          let t' := takeTerm t l
          obj [
            ("has", .arr (names.map (fun x => toJson (specHas t' x))).toArray),
            ("get", .arr (names.map (fun x => valsJson (specGet t' x))).toArray)])
      -- `q+:: [probe]` chain: one probe result per contributing layer, deepest first, each taken
      -- with that layer's own `super`
      let chainM : Json := match optNat j "chain" with
        | none => Json.null
        | some q =>
          let contrib := (getIdx cs n q).reverse
          if contrib.isEmpty then Json.null else
          .arr (contrib.map (fun (_, l) => obj [
            ("has", .arr (names.map (fun x => toJson (hasIdx cs l x))).toArray),
            ("get", .arr (names.map (fun x => litJson cs l x)).toArray)])).toArray
      let chainS : Json := match optNat j "chain" with
        | none => Json.null
        | some q =>
          let contrib := (getIdx cs n q).reverse
          if contrib.isEmpty then Json.null else
          .arr (contrib.map (fun (_, l) =>
            let t' := takeTerm t l
            obj [
              ("has", .arr (names.map (fun x => toJson (specHas t' x))).toArray),
              ("get", .arr (names.map (fun x => valsJson (specGet t' x))).toArray)])).toArray
      some (obj [
        ("model", obj [("fields", ofNats (fieldsEx cs false)), ("fieldsAll", ofNats (fieldsEx cs true)),
                       ("per", .arr mPer.toArray), ("probes", .arr mProbes.toArray), ("chain", chainM)]),
        ("spec", obj [("fields", ofNats (specFields t false)), ("fieldsAll", ofNats (specFields t true)),
                      ("per", .arr sPer.toArray), ("probes", .arr sProbes.toArray), ("chain", chainS)])])
  | _ => none

end JrsVerif.Drv.C02
