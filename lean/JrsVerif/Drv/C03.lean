import JrsVerif.Common.J
import JrsVerif.Model.Thunk

namespace JrsVerif.Drv.C03
open Lean JrsVerif.J JrsVerif.Thunk

def parseRes (s : String) : Res :=
  if s == "infrec" then .infrec
  else match s.splitOn ":" with
    | ["ok", v] => .ok v.toNat!
    | ["err", e] => .err e.toNat!
    | _ => .infrec

def showRes : Res → String
  | .ok v => s!"ok:{v}" | .err e => s!"err:{e}" | .infrec => "infrec"

/-- `gets` successive top-level reads of one cell -/
def reads (sc : Script) : Nat → St → List Json × Nat
  | 0, _ => ([], 0)
  | n + 1, s =>
    let (s', ans, inner, ran) := getScripted s sc
    let (rest, runs) := reads sc n s'
    (obj [("answer", .str (showRes ans)), ("inner", ofStrs (inner.map showRes)), ("ran", .bool ran)] :: rest,
     runs + (if ran then 1 else 0))

def handle (op : String) (j : Json) : Option Json :=
  match op with
  | "thunk.script" =>
    match (do pure (← nat? j "reenters", ← str? j "final", ← nat? j "gets")) with
    | none => some (bad "thunk.script: parse")
    | some (re, fin, gets) =>
      let (per, runs) := reads ⟨re, parseRes fin⟩ gets .waiting
      some (obj [("model", obj [("gets", .arr per.toArray), ("runs", toJson runs)])])
  | _ => none

end JrsVerif.Drv.C03
