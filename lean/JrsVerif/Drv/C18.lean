import JrsVerif.Common.J
import JrsVerif.Model.Intern

namespace JrsVerif.Drv.C18
open Lean JrsVerif.J JrsVerif.Intern

def natsOf (j : Json) : Option (List Nat) :=
  match j with
  | .arr a => some (nats a)
  | _ => none

/-- ops travel as arrays: ["is",[bytes]] ["ib",[bytes]] ["cl",i] ["dr",i] ["cs",i] ["cb",i] ["ho"] -/
def parseOp (j : Json) : Option Op :=
  match j with
  | .arr a =>
    let tag : String := match a[0]? with | some (Json.str t) => t | _ => ""
    let arg : Json := a[1]?.getD Json.null
    match tag with
    | "is" => (natsOf arg).map Op.internStr
    | "ib" => (natsOf arg).map Op.internBytes
    | "cl" => arg.getNat?.toOption.map Op.clone
    | "dr" => arg.getNat?.toOption.map Op.drop
    | "cs" => arg.getNat?.toOption.map Op.castStr
    | "cb" => arg.getNat?.toOption.map Op.castBytes
    | "ho" => some Op.handover
    | _ => none
  | _ => none

def obsJson (o : Obs) : Json :=
  obj [("pool", toJson o.poolLen),
       ("hs", .arr (o.hs.map (fun h =>
          Json.arr #[ofNats h.data, toJson h.isStr, toJson h.rc, toJson h.cls, toJson h.pooled])).toArray)]

/-- observation after every op; a model panic / an op the spec does not allow ends the trace -/
def traceModel (s : St) : List Op → List Json
  | [] => []
  | op :: ops => match step s op with
    | none => [.str "panic"]
    | some s' => obsJson (obs s') :: traceModel s' ops

def traceSpec (s : Spec.SSt) : List Op → List Json
  | [] => []
  | op :: ops => match Spec.step s op with
    | none => [.str "invalid"]
    | some s' => obsJson (Spec.obs s') :: traceSpec s' ops

/-- pool size after the client drops every value it still holds (`drop 0` until none is left) -/
def endModel (s : St) : List Op → Json
  | [] =>
    match (List.range s.hs.length).foldlM (fun s _ => step s (.drop 0)) s with
    | some s' => toJson s'.pool.length
    | none => .str "panic"
  | op :: ops => match step s op with
    | none => .str "panic"
    | some s' => endModel s' ops

def lastOnly (every : Bool) (l : List Json) : Json :=
  if every then .arr l.toArray else .arr (l.getLast?.toList).toArray

/-- `intern.replay` : {"ops":[..],"every":bool} → observations of the coded protocol (model) and of
    the reference meaning (spec) after every op (or after the last one only) -/
def handle (op : String) (j : Json) : Option Json :=
  match op with
  | "intern.replay" =>
    match (do let a ← arr? j "ops"; a.toList.mapM parseOp) with
    | none => some (bad "intern.replay: parse")
    | some ops =>
      let every := (bool? j "every").getD true
      some (obj [("model", obj [("steps", lastOnly every (traceModel init ops)), ("end", endModel init ops)]),
                 ("spec", obj [("steps", lastOnly every (traceSpec [] ops)), ("end", toJson (0 : Nat))])])
  | "intern.utf8" =>
    match (do let a ← arr? j "bs"; a.toList.mapM natsOf) with
    | none => some (bad "intern.utf8: parse")
    | some bs =>
      -- model: what `cast_str` answers in the protocol model; spec: the UTF-8 definition
      let viaModel (b : Bytes) : Bool :=
        match run init [.internBytes b, .castStr 0] with
        | some s => s.hs.length == 1
        | none => false
      some (obj [("model", obj [("valid", toJson (bs.map viaModel))]),
                 ("spec", obj [("valid", toJson (bs.map validUtf8))])])
  | "gc.observe" =>
    -- the statement for the collector half, evaluated on what the harness measured: nothing
    -- tracked beyond the baseline, nothing pooled beyond the baseline
    -- programs that carry an expected manifestation (`"expect"`) must also produce exactly that
    let base : List (String × Json) :=
      [("tracked_leaked", toJson (0 : Nat)), ("retained_after_first", toJson (0 : Nat)),
       ("pool_leaked", toJson (0 : Nat)), ("panic", toJson false)]
    -- programs that declare how the evaluation must end (`"class"`: ok / error class) must end so
    let base := base ++ (match str? j "class" with | some c => [("class", Json.str c)] | none => [])
    match str? j "expect" with
    | some e => some (obj [("spec", obj (base ++ [("result", .str e)]))])
    | none => some (obj [("spec", obj base)])
  | "gc.coverage" =>
    -- the harness lists the kinds of object core / array representation / thunk / builtin the
    -- evaluator source declares that no program of the pool cycles through: there must be none
    -- (a tie of the pool to the source, not a statement about the implementation)
    some (obj [("model", obj [("unreached", .arr #[])])])
  | _ => none

end JrsVerif.Drv.C18
