import JrsVerif.Common.J
import JrsVerif.Model.Arr

namespace JrsVerif.Drv.C08
open Lean JrsVerif.J JrsVerif.Arr

def parseKind (j : Json) : Option LitKind :=
  match str? j "c" with
  | some "eager" => some .eager
  | some "lazy" => some .lazy
  | some "expr" => some .expr
  | _ => none

partial def parseT (j : Json) : Option T := do
  let k ← str? j "k"
  match k with
  | "lit" => some (.lit (ints (← arr? j "xs")) (← parseKind j))
  | "range" => some (.range (← int? j "a") (← int? j "b"))
  | "slice" => some (.slice (← parseT (← val? j "t")) (optInt j "s") (optInt j "e") (optNat j "st"))
  | "cat" => some (.cat (← parseT (← val? j "a")) (← parseT (← val? j "b")))
  | "rev" => some (.rev (← parseT (← val? j "t")))
  | "rep" => some (.rep (← parseT (← val? j "t")) (← nat? j "n"))
  | "map" => some (.map (← parseT (← val? j "t")) (← bool? j "wi"))
  | "filter" => some (.filter (← parseT (← val? j "t")))
  | "chars" => some (.chars (ints (← arr? j "xs")))
  | "bytes" => some (.bytes (ints (← arr? j "xs")))
  | "objvals" => some (.objvals (ints (← arr? j "xs")))
  | "mkarr" => some (.mkarr (← nat? j "n") (optInt j "triv"))
  | _ => none

def showR : R → String
  | .val x => s!"v:{x}"
  | .oob => "oob"
  | .panic => "panic"

def showI : IdxR → String
  | .val x => s!"v:{x}"
  | .bounds => "oob"
  | .fractional => "frac"
  | .panic => "panic"

def kind : View → String
  | .vec _ true => "vec-cheap" | .vec _ false => "vec-lazy" | .range .. => "range"
  | .slice .. => "slice" | .ext .. => "ext"
  | .rev _ => "rev" | .rep .. => "rep" | .mapped .. => "mapped" | .poison => "poison"

/-- index numbers travel as `{"m": "<decimal integer>", "e": k}` meaning the double `m / 2^k` -/
def parseIx (j : Json) : Option (Int × Nat) := do
  let m ← (← str? j "m").toInt?
  let e ← nat? j "e"
  pure (m, e)

def handle (op : String) (j : Json) : Option Json :=
  match op with
  /- `arr.probe` : {"t":term,"idx":[i..],"at":bool} → len / get / get_lazy / get_cheap / is_cheap
     of the built view (and `a[i]` through the Index arm when "at"), against the plain list.
     `get_cheap`/`is_cheap` are representation details: no reference meaning ("*"); their
     meaning where defined is the theorem `getCheap_eq`. -/
  | "arr.probe" =>
    match (do let t ← parseT (← val? j "t"); let idx ← arr? j "idx"; pure (t, nats idx)) with
    | none => some (bad "arr.probe: parse")
    | some (t, idx) =>
      let v := build t
      let xs := denote t
      let at_ := (bool? j "at").getD false
      let m := [("len", toJson (len v)), ("get", ofStrs (idx.map (fun i => showR (get v i)))),
                ("lazy", ofStrs (idx.map (fun i => showR (getLazy v i)))),
                ("cheap", ofStrs (idx.map (fun i => showR (getCheap v i)))),
                ("is_cheap", toJson (isCheap v)),
                ("repr", .str (kind v))]
      let s := [("len", toJson xs.length), ("get", ofStrs (idx.map (fun i => showR (specGet xs i)))),
                ("lazy", ofStrs (idx.map (fun i => showR (specGet xs i)))),
                ("cheap", .str "*"), ("is_cheap", .str "*")]
      let m := if at_ then m ++ [("at", ofStrs (idx.map (fun (i : Nat) => showI (indexExpr v (i : Int) 0))))] else m
      let s := if at_ then s ++ [("at", ofStrs (idx.map (fun (i : Nat) => showI (specIndex xs (i : Int) 0))))] else s
      some (obj [("model", obj m), ("spec", obj s)])
  /- `arr.index` : {"t":term,"ix":[{"m","e"}..],"strict":bool} → `a[n]` through the evaluator -/
  | "arr.index" =>
    match (do let t ← parseT (← val? j "t"); let ix ← arr? j "ix"; pure (t, ix.toList.filterMap parseIx)) with
    | none => some (bad "arr.index: parse")
    | some (t, ix) =>
      let v := build t
      let xs := denote t
      let m := obj [("at", ofStrs (ix.map (fun (m, e) => showI (indexExpr v m e))))]
      if (bool? j "strict").getD false then
        some (obj [("model", m), ("spec", obj [("at", ofStrs (ix.map (fun (m, e) => showI (specIndex xs m e))))])])
      else some (obj [("model", m)])
  /- `arr.rangelen` : {"s","e","excl","idx"} → the public range constructors with ANY i32 pair;
     the reference meaning is given only inside the domain of `rangeLen_exact` -/
  | "arr.rangelen" =>
    match (do let s ← int? j "s"; let e ← int? j "e"; let x ← bool? j "excl"; let idx ← arr? j "idx"; pure (s, e, x, nats idx)) with
    | none => some (bad "arr.rangelen: parse")
    | some (s, e, x, idx) =>
      let v := if x then newExclusive s e else View.range s e
      let m := obj [("len", .str (toString (len v))), ("get", ofStrs (idx.map (fun i => showR (get v i)))),
                    ("cheap", ofStrs (idx.map (fun i => showR (getCheap v i))))]
      -- the list `rangeSpec s hi` is not materialised (it can have 2^32 elements): its length and
      -- elements are given in closed form (`Proofs.Arr.range_idx`)
      let hi := if x then e - 1 else e
      let n := (hi - s + 1).toNat
      let sg := fun (i : Nat) => if i < n then R.val (s + (i : Int)) else R.oob
      let inDom := if x then s ≤ e else s ≤ e + 1
      if inDom then
        some (obj [("model", m), ("spec", obj [("len", .str (toString n)),
          ("get", ofStrs (idx.map (fun i => showR (sg i)))),
          ("cheap", ofStrs (idx.map (fun i => showR (sg i))))])])
      else some (obj [("model", m)])
  /- `arr.mkarr_guard` : {"sz"} → does `std.makeArray(sz, f)` pass its typed-argument guard -/
  | "arr.mkarr_guard" =>
    match int? j "sz" with
    | none => some (bad "arr.mkarr_guard: parse")
    | some sz => some (obj [("model", obj [("ok", toJson (mkMakeArray sz none).isSome)])])
  | _ => none

end JrsVerif.Drv.C08
