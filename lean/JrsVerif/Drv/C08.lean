import JrsVerif.Common.J
import JrsVerif.Model.Arr

namespace JrsVerif.Drv.C08
open Lean JrsVerif.J JrsVerif.Arr

partial def parseT (j : Json) : Option T := do
  let k ← str? j "k"
  match k with
  | "lit" => some (.lit (ints (← arr? j "xs")))
  | "range" => some (.range (← int? j "a") (← int? j "b"))
  | "slice" => some (.slice (← parseT (← val? j "t")) (optInt j "s") (optInt j "e") (optNat j "st"))
  | "cat" => some (.cat (← parseT (← val? j "a")) (← parseT (← val? j "b")))
  | "rev" => some (.rev (← parseT (← val? j "t")))
  | "rep" => some (.rep (← parseT (← val? j "t")) (← nat? j "n"))
  | "map" => some (.map (← parseT (← val? j "t")) (← bool? j "wi"))
  | "filter" => some (.filter (← parseT (← val? j "t")))
  | _ => none

def showR : R → String
  | .val x => s!"v:{x}"
  | .oob => "oob"
  | .panic => "panic"

def kind : View → String
  | .vec _ => "vec" | .range .. => "range" | .slice .. => "slice" | .ext .. => "ext"
  | .rev _ => "rev" | .rep .. => "rep" | .mapped .. => "mapped" | .poison => "poison"

/-- `arr.probe` : {"t":term,"idx":[i..]} → model len/get, spec len/get -/
def handle (op : String) (j : Json) : Option Json :=
  match op with
  | "arr.probe" =>
    match (do let t ← parseT (← val? j "t"); let idx ← arr? j "idx"; pure (t, nats idx)) with
    | none => some (bad "arr.probe: parse")
    | some (t, idx) =>
      let v := build t
      let xs := denote t
      some (obj [
        ("model", obj [("len", toJson (len v)), ("get", ofStrs (idx.map (fun i => showR (get v i)))),
                       ("repr", .str (kind v))]),
        ("spec", obj [("len", toJson xs.length), ("get", ofStrs (idx.map (fun i => showR (specGet xs i))))])])
  | _ => none

end JrsVerif.Drv.C08
