import JrsVerif.Common.J
import JrsVerif.Model.Format
import JrsVerif.Model.FormatSpec

namespace JrsVerif.Drv.C12
open Lean JrsVerif.J JrsVerif.Format

def cps (a : Array Json) : List Char := (nats a).map Char.ofNat

/-- 16 hex digits → the bit pattern -/
def hexNat? (s : String) : Option Nat :=
  s.toList.foldlM (fun a c =>
    if '0' ≤ c ∧ c ≤ '9' then some (a * 16 + (c.toNat - 48))
    else if 'a' ≤ c ∧ c ≤ 'f' then some (a * 16 + (c.toNat - 87))
    else none) 0

/-- `[[precision, "text"], …]`: what Rust's float formatting returned (computed by the harness with
    the very `format!` calls of format.rs) -/
def parseTexts (a : Array Json) : Option (List (Nat × List Char)) :=
  a.toList.mapM (fun e => do
    match e with
    | .arr #[p, t] =>
      let p ← p.getNat?.toOption
      let t ← t.getStr?.toOption
      pure (p, t.toList)
    | _ => none)

/-- `missing` stands for a formatter answer the harness did not supply: the model is run with two
    different stand-ins, and a result that depends on the stand-in used a missing answer -/
partial def parseVal (missing : Char) (j : Json) : Option Val := do
  match ← str? j "k" with
  | "num" =>
    let base := Num.ofBits (← hexNat? (← str? j "bits"))
    let fixL ← parseTexts ((arr? j "fix").getD #[])
    let sciL ← parseTexts ((arr? j "sci").getD #[])
    let n : Num := { base with
      rfix := fun p => (fixL.lookup p).getD [missing],
      rsci := fun p => (sciL.lookup p).getD [missing] }
    some (.num n (cps (← arr? j "disp")))
  | "str" => some (.str (cps (← arr? j "s")))
  | "other" => some (.other (cps (← arr? j "disp")))
  | "obj" =>
    let fs ← (← arr? j "f").toList.mapM (fun e => do
      match e with
      | .arr #[.arr k, v] => pure (cps k, ← parseVal missing v)
      | _ => none)
    some (.obj fs (cps (← arr? j "disp")))
  | _ => none

def showR : R (List Char) → Json
  | .ok s => obj [("ok", ofNats (s.map Char.toNat))]
  | .error e => obj [("err", .str e.name)]

def sameR : R (List Char) → R (List Char) → Bool
  | .ok a, .ok b => a == b
  | .error a, .error b => a == b
  | _, _ => false

/-! the derived `Debug` text of `Vec<Element>` (for texts without characters that Debug escapes) -/
def dbgBool (b : Bool) : String := if b then "true" else "false"
def dbgWidth : Width → String
  | .star => "Star"
  | .fixed n => "Fixed(" ++ toString n ++ ")"
def dbgConv : Conv → String
  | .dec => "Decimal" | .oct => "Octal" | .hex => "Hexadecimal" | .sci => "Scientific" | .flt => "Float"
  | .shorter => "Shorter" | .chr => "Char" | .str => "String" | .pct => "Percent"
def dbgElem : Elem → String
  | .lit s => "String(\"" ++ String.ofList s ++ "\")"
  | .code c =>
    "Code(Code { mkey: \"" ++ String.ofList c.mkey ++ "\", cflags: CFlags { alt: " ++ dbgBool c.flags.alt
      ++ ", zero: " ++ dbgBool c.flags.zero ++ ", left: " ++ dbgBool c.flags.left ++ ", blank: "
      ++ dbgBool c.flags.blank ++ ", sign: " ++ dbgBool c.flags.sign ++ " }, width: " ++ dbgWidth c.width
      ++ ", precision: " ++ (match c.prec with | none => "None" | some w => "Some(" ++ dbgWidth w ++ ")")
      ++ ", convtype: " ++ dbgConv c.conv ++ ", caps: " ++ dbgBool c.caps ++ " })"
def dbgElems (es : List Elem) : String := "[" ++ ", ".intercalate (es.map dbgElem) ++ "]"

/-- `fmt` : {"fmt":[code points],"mode":"arr"|"single","vals":[V…]} → model / spec result.
    `fmt.digits` : {"bits":hex16,"p":n} → the exact correctly rounded texts Rust's float formatting
    is assumed to return for that double and precision.
    `fmt.parse` : {"fmt":[…]} → only the parse outcome (number of elements or error class). -/
def handle (op : String) (j : Json) : Option Json :=
  match op with
  | "fmt" =>
    let build (missing : Char) : Option (List Char × Args) := do
      let f ← arr? j "fmt"
      let mode ← str? j "mode"
      let vs ← (← arr? j "vals").toList.mapM (parseVal missing)
      let args ← (match mode, vs with
        | "arr", vs => some (Args.arr vs)
        | "single", [v] => some (Args.single v)
        | _, _ => none)
      pure (cps f, args)
    match build '?', build '!' with
    | some (f, args), some (_, args') =>
      let m := Format.stdFormat f args
      let s := FormatSpec.stdFormat f args
      if !sameR m (Format.stdFormat f args') then
        some (bad "fmt: formatter answer (fix/sci text) for a needed precision missing")
      else some (obj [("model", showR m), ("spec", showR s)])
    | _, _ => some (bad "fmt: parse")
  | "fmt.digits" =>
    -- validation of the assumption `RustFmtExact`: the exact reference texts for (bits, precision)
    match (do
      let b ← hexNat? (← str? j "bits")
      let p ← nat? j "p"
      pure (b, p)) with
    | none => some (bad "fmt.digits: parse")
    | some (b, p) =>
      let mag := (Num.ofBits b).mag
      some (obj [("spec", obj [("fix", .str (String.ofList (FormatSpec.rustFixed mag p))),
                               ("sci", .str (String.ofList (FormatSpec.rustSci mag p))),
                               ("neg", toJson (Num.ofBits b).neg)])])
  | "fmt.parse" =>
    match arr? j "fmt" with
    | none => some (bad "fmt.parse: parse")
    | some f =>
      let sh (r : R (List Elem)) : Json := match r with
        | .ok es => obj [("ok", toJson es.length),
            ("codes", toJson (es.filter (fun e => match e with | .code _ => true | _ => false)).length),
            ("dbg", .str (dbgElems es))]
        | .error e => obj [("err", .str e.name)]
      some (obj [("model", sh (Format.parseCodes (cps f))), ("spec", sh (FormatSpec.parseFmt (cps f)))])
  | _ => none

end JrsVerif.Drv.C12
