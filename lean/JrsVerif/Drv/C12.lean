import JrsVerif.Common.J
import JrsVerif.Model.Format
import JrsVerif.Model.FormatSpec

namespace JrsVerif.Drv.C12
open Lean JrsVerif.J JrsVerif.Format

def cps (a : Array Json) : List Char := (nats a).map Char.ofNat

def natStr? (j : Json) (k : String) : Option Nat := do (← str? j k).toNat?

def parseDigs (a : Array Json) : Option (List (Nat × FDig)) :=
  a.toList.mapM (fun e => do
    match e with
    | .arr #[p, w, f] =>
      let p ← p.getNat?.toOption
      let w ← (← w.getStr?.toOption).toNat?
      let f ← (← f.getStr?.toOption).toNat?
      pure (p, ({ whole := w, frac := f } : FDig))
    | _ => none)

partial def parseVal (j : Json) : Option Val := do
  match ← str? j "k" with
  | "num" =>
    let n : Num := {
      neg := ← bool? j "neg", whole := ← natStr? j "whole", fracNZ := ← bool? j "frac",
      exp := (int? j "exp").getD 0,
      fix := (← parseDigs ((arr? j "fix").getD #[])),
      sci := (← parseDigs ((arr? j "sci").getD #[])) }
    some (.num n (cps (← arr? j "disp")))
  | "str" => some (.str (cps (← arr? j "s")))
  | "other" => some (.other (cps (← arr? j "disp")))
  | "obj" =>
    let fs ← (← arr? j "f").toList.mapM (fun e => do
      match e with
      | .arr #[.arr k, v] => pure (cps k, ← parseVal v)
      | _ => none)
    some (.obj fs (cps (← arr? j "disp")))
  | _ => none

def showR : R (List Char) → Json
  | .ok s => obj [("ok", ofNats (s.map Char.toNat))]
  | .error e => obj [("err", .str e.name)]

def isOracleErr : R (List Char) → Bool
  | .error .oracle => true
  | _ => false

/-! the derived `Debug` text of `Vec<Element>` (for texts without characters that Debug escapes) -/
def dbgBool (b : Bool) : String := if b then "true" else "false"
def dbgWidth : Width → String
  | .star => "Star"
  | .fixed n => "Fixed(" ++ toString n ++ ")"
def dbgConv : Conv → String
  | .dec => "Decimal" | .oct => "Octal" | .hex => "Hexadecimal" | .sci => "Scientific" | .flt => "Float"
  | .shorter => "Shorter" | .chr => "Char" | .str => "String" | .pct => "Percent"
def dbgElem : Elem → String
  | .lit s => "String(\"" ++ String.ofList s ++ "\")"
  | .code c =>
    "Code(Code { mkey: \"" ++ String.ofList c.mkey ++ "\", cflags: CFlags { alt: " ++ dbgBool c.flags.alt
      ++ ", zero: " ++ dbgBool c.flags.zero ++ ", left: " ++ dbgBool c.flags.left ++ ", blank: "
      ++ dbgBool c.flags.blank ++ ", sign: " ++ dbgBool c.flags.sign ++ " }, width: " ++ dbgWidth c.width
      ++ ", precision: " ++ (match c.prec with | none => "None" | some w => "Some(" ++ dbgWidth w ++ ")")
      ++ ", convtype: " ++ dbgConv c.conv ++ ", caps: " ++ dbgBool c.caps ++ " })"
def dbgElems (es : List Elem) : String := "[" ++ ", ".intercalate (es.map dbgElem) ++ "]"

/-- `fmt` : {"fmt":[code points],"mode":"arr"|"single","vals":[V…]} → model / spec result.
    `fmt.parse` : {"fmt":[…]} → only the parse outcome (number of elements or error class). -/
def handle (op : String) (j : Json) : Option Json :=
  match op with
  | "fmt" =>
    match (do
      let f ← arr? j "fmt"
      let mode ← str? j "mode"
      let vs ← (← arr? j "vals").toList.mapM parseVal
      let args ← (match mode, vs with
        | "arr", vs => some (Args.arr vs)
        | "single", [v] => some (Args.single v)
        | _, _ => none)
      pure (cps f, args)) with
    | none => some (bad "fmt: parse")
    | some (f, args) =>
      let m := Format.stdFormat f args
      let s := FormatSpec.stdFormat f args
      if isOracleErr m || isOracleErr s then some (bad "fmt: digit oracle entry missing")
      else some (obj [("model", showR m), ("spec", showR s)])
  | "fmt.parse" =>
    match arr? j "fmt" with
    | none => some (bad "fmt.parse: parse")
    | some f =>
      let sh (r : R (List Elem)) : Json := match r with
        | .ok es => obj [("ok", toJson es.length),
            ("codes", toJson (es.filter (fun e => match e with | .code _ => true | _ => false)).length),
            ("dbg", .str (dbgElems es))]
        | .error e => obj [("err", .str e.name)]
      some (obj [("model", sh (Format.parseCodes (cps f))), ("spec", sh (FormatSpec.parseFmt (cps f)))])
  | _ => none

end JrsVerif.Drv.C12
