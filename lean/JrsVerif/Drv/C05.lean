import JrsVerif.Common.J
import JrsVerif.Model.JsonW

namespace JrsVerif.Drv.C05
open Lean JrsVerif.J JrsVerif.Json JrsVerif.Escape JrsVerif.Generated.Escape

def hexNib (c : Char) : Option Nat :=
  if '0' ≤ c ∧ c ≤ '9' then some (c.toNat - 48)
  else if 'a' ≤ c ∧ c ≤ 'f' then some (c.toNat - 87)
  else if 'A' ≤ c ∧ c ≤ 'F' then some (c.toNat - 55)
  else none

partial def unhexGo : List Char → List UInt8 → Option (List UInt8)
  | [], acc => some acc.reverse
  | a :: b :: r, acc =>
    match hexNib a, hexNib b with
    | some x, some y => unhexGo r (UInt8.ofNat (x * 16 + y) :: acc)
    | _, _ => none
  | _, _ => none

def unhex (s : String) : Option (List UInt8) := unhexGo s.toList []

def hexDig (n : Nat) : Char := if n < 10 then Char.ofNat (48 + n) else Char.ofNat (87 + n)

def hex (bs : List UInt8) : String :=
  String.ofList (bs.foldr (fun b acc => hexDig (b.toNat / 16) :: hexDig (b.toNat % 16) :: acc) [])

def hexNat (s : String) : Option Nat :=
  s.toList.foldl (fun acc c => match acc, hexNib c with
    | some a, some x => some (a * 16 + x)
    | _, _ => none) (some 0)

/-- value encoding: null | bool | {"n":bits16,"t":tokhex} | {"s":hex} | {"a":[..]} |
    {"o":[[keyhex, hidden, v]..]} | "f" ; collects the number-token table on the way -/
partial def parseMV (j : Json) : Option (MV × List (Nat × List UInt8)) :=
  match j with
  | .null => some (.null, [])
  | .bool b => some (.bool b, [])
  | .str "f" => some (.func, [])
  | _ =>
    match str? j "n", str? j "t" with
    | some b, some t => do
      let bits ← hexNat b
      let tok ← unhex t
      some (.num bits, [(bits, tok)])
    | _, _ =>
      match str? j "s" with
      | some s => do some (.str (← unhex s), [])
      | none =>
        match arr? j "a" with
        | some xs => do
          let rs ← xs.toList.mapM parseMV
          some (.arr (rs.map (·.1)), (rs.map (·.2)).flatten)
        | none =>
          match arr? j "o" with
          | some fs => do
            let rs ← fs.toList.mapM (fun f => match f with
              | .arr #[.str k, .bool h, v] => do
                let kb ← unhex k
                let (mv, tb) ← parseMV v
                some ((kb, h, mv), tb)
              | _ => none)
            some (.obj (rs.map (·.1)), (rs.map (·.2)).flatten)
          | none => none

def fmtOf (tb : List (Nat × List UInt8)) (d : Nat) : List UInt8 :=
  match tb.find? (fun p => p.1 == d) with
  | some p => p.2
  | none => []

def parseMode (j : Json) : Option (Option Opts) := do  -- none inside = ToStringFormat
  let k ← str? j "k"
  match k with
  | "minify" => some (some minifyOpts)
  | "default" => some (some defaultOpts)
  | "cli" => some (some (cliOpts (← nat? j "n")))
  | "std" => do
    let i ← unhex (← str? j "indent")
    let nl ← unhex (← str? j "nl")
    let sep ← unhex (← str? j "sep")
    some (some (stdOpts i nl sep))
  | "tostring" => some none
  | _ => none

def outJson : Option (List UInt8) → Json
  | some bs => obj [("out", .str (hex bs))]
  | none => obj [("err", .str "func")]

/-- executable form of `NumOK` for one token -/
def numOKb (tok : List UInt8) (bits : Nat) : Bool :=
  (match tok with | b :: _ => b == 0x2D || isDigit b | [] => false) &&
  tok.all numChar && (numVal tok == some bits)

def handle (op : String) (j : Json) : Option Json :=
  match op with
  | "json.esc" =>
    match (str? j "s").bind unhex with
    | none => some (bad "json.esc: parse")
    | some s =>
      some (obj [("model", outJson (escape s)), ("spec", outJson (some (specEscape s)))])
  | "json.unesc" =>
    -- observation: the reference string decoder reads the implementation's token back as `s`
    match (str? j "s").bind unhex, (str? j "text").bind unhex with
    | some s, some t =>
      some (obj [("observed", .bool (pString t == some (s, []) && t.all (fun b => 0x20 ≤ b)))])
    | _, _ => some (bad "json.unesc: parse")
  | "json.write" =>
    match (val? j "v").bind parseMV, (val? j "mode").bind parseMode with
    | some (v, tb), some mode =>
      let r := match mode with
        | some o => manifest o (fmtOf tb) v
        | none => toStringManifest (fmtOf tb) v
      some (obj [("model", outJson r)])
    | _, _ => some (bad "json.write: parse")
  | "json.read" =>
    -- observation: the reference reader maps the implementation's text to the canonical value
    match (val? j "v").bind parseMV, (str? j "text").bind unhex with
    | some (v, _), some t =>
      let ok := match canon v, read t with
        | some a, some b => J.beq a b
        | _, _ => false
      some (obj [("observed", .bool ok)])
    | _, _ => some (bad "json.read: parse")
  | "json.num" =>
    match (str? j "bits").bind hexNat, (str? j "tok").bind unhex with
    | some b, some t => some (obj [("observed", .bool (numOKb t b))])
    | _, _ => some (bad "json.num: parse")
  | "json.indep" =>
    -- independent readers run inside the harness; the expected answer is constant
    let e := match (val? j "expect") with | some e => e | none => Json.null
    some (obj [("spec", e)])
  | _ => none

end JrsVerif.Drv.C05
