import JrsVerif.Common.J
import JrsVerif.Model.Stack
import JrsVerif.Model.Total
import JrsVerif.Model.TotalKern
import JrsVerif.Generated.Consts

namespace JrsVerif.Drv.C04
open Lean JrsVerif.J

/-! ### stack.run -/
open JrsVerif.Stack in
partial def parseProg (j : Json) : Option Prog := do
  let k ← str? j "k"
  match k with
  | "skip" => some .skip
  | "fail" => some .fail
  | "seq" => some (.seq (← parseProg (← val? j "a")) (← parseProg (← val? j "b")))
  | "frame" => some (.frame (← parseProg (← val? j "b")))
  | "limit" => some (.limit (← nat? j "d") (← parseProg (← val? j "b")))
  | "catch" => some (.catch (← parseProg (← val? j "b")))
  | "set" => some (.setLimit (← nat? j "d"))
  | _ => none

open JrsVerif.Stack in
def showOut : Out → String
  | .ok => "ok" | .errStack => "stack" | .errOther => "other"

open JrsVerif.Stack in
def stJson (s : St) : Json := ofNats [s.cur, s.max]

open JrsVerif.Stack in
def stackRun (j : Json) : Json :=
  match (do let p ← parseProg (← val? j "prog"); let m ← nat? j "max"; pure (p, m)) with
  | none => bad "stack.run: parse"
  | some (p, m) =>
    let s : St := ⟨m, 0⟩
    let model := match run s p with
      | none => obj [("r", .str "panic")]
      | some r => obj [("r", .str (showOut r.out)), ("start", stJson s), ("end", stJson r.st),
                       ("log", .arr (r.log.map stJson).toArray)]
    if noSet p && decide (s.cur + depth p + maxLimit p < USIZE) then
      let e := Spec.eval s.max s.cur p
      obj [("model", model),
           ("spec", obj [("r", .str (showOut e.1)), ("start", stJson s), ("end", stJson s),
                         ("log", .arr (e.2.map stJson).toArray)])]
    else obj [("model", model)]

/-! ### bind.prepare -/
open JrsVerif.Total in
def parseParams (a : Array Json) : List Param :=
  a.toList.map (fun p => ⟨(str? p "n"), (bool? p "d").getD false⟩)

open JrsVerif.Total in
/-- where parameter `i` gets its value from, read off a successful `PreparedCall` -/
def srcOf (unnamed : Nat) (named : List (Nat × Nat)) (defaults : List Nat) (i : Nat) : String :=
  if i < unnamed then s!"p{i}" else
  match named.find? (fun p => p.1 == i) with
  | some (_, j) => s!"n{j}"
  | none => if defaults.contains i then "d" else "?"

open JrsVerif.Total in
/-- the language rule, parameter by parameter -/
def specBind (ps : List Param) (unnamed : Nat) (named : List String) : Option (List String) :=
  if unnamed > ps.length then none else
  -- every named argument names a parameter that is not positional and not named twice
  let okNamed := (List.range named.length).all (fun j =>
    match named[j]? with
    | none => false
    | some n =>
      match position ps n with
      | none => false
      | some i => decide (unnamed ≤ i) && !((named.take j).contains n))
  if !okNamed then none else
  let srcs := (List.range ps.length).map (fun i =>
    if i < unnamed then some s!"p{i}" else
    match ps[i]? with
    | none => none
    | some p =>
      match p.name.bind (fun n => named.findIdx? (· == n)) with
      | some j => some s!"n{j}"
      | none => if p.dflt then some "d" else none)
  if srcs.all Option.isSome then some (srcs.filterMap id) else none

open JrsVerif.Total in
def bindPrepare (j : Json) : Json :=
  match (do let ps ← arr? j "params"; let u ← nat? j "unnamed"; let nm ← arr? j "named"
            pure (parseParams ps, u, strs nm)) with
  | none => bad "bind.prepare: parse"
  | some (ps, u, nm) =>
    let model := match prepareCall ps u nm with
      | .ok named defaults =>
        obj [("r", .str "ok"), ("src", ofStrs ((List.range ps.length).map (srcOf u named defaults)))]
      | .err _ => obj [("r", .str "arity")]
      | .panic _ => obj [("r", .str "panic")]
    let names := ps.filterMap (·.name)
    if names.eraseDups.length != names.length then
      -- duplicate parameter names: not a function the language admits; only "no panic" is asked
      match str? j "impl_r" with
      | some r => obj [("observed", .bool (r != "panic")), ("_model", model)]
      | none => bad "bind.prepare: impl_r missing"
    else
      let spec := match specBind ps u nm with
        | some srcs => obj [("r", .str "ok"), ("src", ofStrs srcs)]
        | none => obj [("r", .str "arity")]
      obj [("model", model), ("spec", spec)]

/-! ### bind.accept: does the parser accept this parameter list? -/
open JrsVerif.Total JrsVerif.TotalKern in
def bindAccept (j : Json) : Json :=
  match arr? j "params" with
  | none => bad "bind.accept: parse"
  | some ps =>
    let ps := parseParams ps
    let names := ps.filterMap (·.name)
    -- model: `ExprParams::duplicate_name` as coded; spec: the language rule (no name twice)
    obj [("model", obj [("accepted", .bool (paramsAccepted ps))]),
         ("spec", obj [("accepted", .bool (names.eraseDups.length == names.length))])]

/-! ### num.clamp, str.truncate -/
open JrsVerif.Total in
def numClamp (j : Json) : Json :=
  match (do pure ((← int? j "x"), (← int? j "lo"), (← int? j "hi"))) with
  | none => bad "num.clamp: parse"
  | some (x, lo, hi) =>
    let m := match clamp x lo hi with
      | some v => obj [("v", toJson v)]
      | none => obj [("panic", .bool true)]
    obj [("model", m), ("spec", obj [("v", toJson (Spec.clamp x lo hi))])]

open JrsVerif.Total in
def strTruncate (j : Json) : Json :=
  match (do pure (nats (← arr? j "cs"), (← nat? j "t"))) with
  | none => bad "str.truncate: parse"
  | some (cs, _) =>
    -- the byte limit is the one extracted from the code, not the one the harness believes in
    let t := JrsVerif.Generated.DEBUG_TRUNCATE_STRINGS
    let m := match truncateDebug cs t with
      | some v => obj [("cs", ofNats v)]
      | none => obj [("panic", .bool true)]
    obj [("model", m), ("spec", obj [("cs", ofNats (Spec.truncate cs t))])]

/-! ### total.observe: the executable statement "a value or an error, counter back at 0, the
    thread still evaluates" on what a worker reported -/
def observe (j : Json) : Json :=
  match val? j "impl" with
  | none => bad "total.observe: impl missing"
  | some imp =>
    let outcome := (str? imp "outcome").getD "?"
    let strict := (bool? j "strict").getD false
    if (outcome == "timeout" || outcome == "oom") && !strict then
      obj [("skip", .bool true), ("_why", .str outcome)]
    else
      let expect := match arr? j "expect" with
        | some a => strs a
        | none => ["ok", "err"]
      let cls := (str? imp "class").getD ""
      let tag := if outcome == "err" then s!"err:{cls}" else outcome
      let allowed := expect.contains outcome || expect.contains tag
      let settled := (nat? imp "depth") == some 0 && (bool? imp "canary") == some true
      obj [("observed", .bool (allowed && settled))]

/-- `total.sweep`: outcomes of recursion depth 0,1,2,… under frame limit `limit`:
    a run of "ok" followed by a run of "stack"; the first failure lies in [lo, hi] -/
def sweep (j : Json) : Json :=
  let o := ((val? j "impl").bind (fun i => str? i "outcome")).getD ""
  if o == "timeout" || o == "oom" then obj [("skip", .bool true), ("_why", .str s!"sweep {o}")] else
  if o == "crash" then obj [("observed", .bool false)] else
  match (do let imp ← val? j "impl"; pure (strs (← arr? imp "outcomes"), (← nat? j "lo"), (← nat? j "hi"),
                                          (nat? imp "depth"), (bool? imp "canary"))) with
  | none => bad "total.sweep: parse"
  | some (outs, lo, hi, depth, canary) =>
    let oks := outs.takeWhile (· == "ok")
    let rest := outs.drop oks.length
    let shape := rest.all (· == "err:stack")
    let first := oks.length
    obj [("observed", .bool (shape && decide (lo ≤ first) && decide (first ≤ hi) && !rest.isEmpty
                             && depth == some 0 && canary == some true)),
         ("_first", toJson first)]

def handle (op : String) (j : Json) : Option Json :=
  match op with
  | "stack.run" => some (stackRun j)
  | "bind.prepare" => some (bindPrepare j)
  | "bind.accept" => some (bindAccept j)
  | "c04.clamp" => some (numClamp j)
  | "str.truncate" => some (strTruncate j)
  | "total.observe" => some (observe j)
  | "total.sweep" => some (sweep j)
  | _ => none

end JrsVerif.Drv.C04
