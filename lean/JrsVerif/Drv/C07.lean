import JrsVerif.Common.J
import JrsVerif.Model.Import

namespace JrsVerif.Drv.C07
open Lean JrsVerif.J JrsVerif.Import

def toBA (l : List Nat) : ByteArray := ⟨(l.map (fun n => n.toUInt8)).toArray⟩
def validUtf8 (b : Bytes) : Bool := (String.fromUTF8? (toBA b)).isSome
def decodeUtf8 (b : Bytes) : List Nat :=
  match String.fromUTF8? (toBA b) with
  | some s => s.toList.map Char.toNat
  | none => []

def pathOf (j : Json) : Option Path :=
  match j with
  | .arr a => some (strs a)
  | _ => none

def spellingOf (j : Json) : Option Spelling := do
  let a ← bool? j "abs"
  let c ← arr? j "c"
  pure ⟨a, strs c⟩

partial def exprOf (j : Json) : Option E := do
  let k ← str? j "k"
  match k with
  | "lit" => some (.lit (← nat? j "n"))
  | "imp" =>
    let kind ← str? j "kind"
    let sp ← spellingOf (← val? j "sp")
    let kd : Kind := if kind == "import" then .imp else if kind == "str" then .str else .bin
    some (.imp kd sp)
  | "add" => some (.add (← exprOf (← val? j "a")) (← exprOf (← val? j "b")))
  | "pick" => some (.pick (← exprOf (← val? j "a")) (← exprOf (← val? j "b")))
  | _ => none

def codeOfJson (j : Json) : Code :=
  match val? j "code" with
  | some (.str _) => .syntaxErr
  | some c =>
    match c.getNat? with
    | .ok n => .expr (.lit n)
    | .error _ =>
      match exprOf c with
      | some e => .expr e
      | none => .syntaxErr
  | none => .syntaxErr

def nodeOf (j : Json) : Option (Path × Node) := do
  let p ← pathOf (← val? j "p")
  let k ← str? j "k"
  match k with
  | "dir" => some (p, .dir)
  | "link" => some (p, .link (← pathOf (← val? j "to")))
  | "file" => some (p, .file (nats (← arr? j "bytes")) (codeOfJson j))
  | _ => none

def opOf (j : Json) : Option Op := do
  let kind ← str? j "kind"
  let sp ← spellingOf (← val? j "sp")
  let kd : Kind := if kind == "import" then .imp else if kind == "str" then .str else .bin
  let fault : Option Fault :=
    match optNat j "fault" with
    | some k => some ⟨k, (str? j "fmode") == some "vanish"⟩
    | none => none
  pure ⟨kd, sp, fault⟩

structure Scenario where
  w : World
  dir : Path
  ops : List Op

def allSome {α} (l : List (Option α)) : Option (List α) :=
  l.foldr (fun x acc => do let a ← x; let r ← acc; pure (a :: r)) (some [])

def scenarioOf (j : Json) (jpaths : List Path) : Option Scenario := do
  let nodes ← allSome ((← arr? j "fs").toList.map nodeOf)
  let dir ← pathOf (← val? j "from")
  let ops ← allSome ((← arr? j "ops").toList.map opOf)
  pure ⟨⟨nodes, jpaths, validUtf8, decodeUtf8⟩, dir, ops⟩

def pathsOf (j : Json) (k : String) : Option (List Path) := do
  allSome ((← arr? j k).toList.map pathOf)

def errCls : Err → String
  | .notfound => "notfound" | .special => "special" | .io => "io" | .load c => c | .utf8 => "utf8"
  | .syntax => "syntax" | .infrec => "infrec" | .noFrame => "model-noframe" | .fuel => "model-fuel"
  | .panic => "model-panic"

def spText (sp : Spelling) : String :=
  let c := "/".intercalate sp.comps
  if sp.abs then "<R>/" ++ c else c

def outJson : Outcome → Json
  | .num n => obj [("num", toJson n)]
  | .str c => obj [("str", ofNats c)]
  | .bin b => obj [("bin", ofNats b)]
  | .err e => obj [("err", .str (errCls e))]

def logJson : LogEntry → Json
  | .resolve src sp res =>
    let shown := match res with
      | .ok p => "ok:f:" ++ showPath p
      | .error e => "err:" ++ errCls e
    .arr #[.str "r", .str src, .str (spText sp), .str shown]
  | .load p res =>
    let shown := match res with
      | none => "ok"
      | some c => "err:" ++ c
    .arr #[.str "l", .str ("f:" ++ showPath p), .str shown]

/-- CLI error classes: "can't resolve" vs anything else -/
def cliOut : Outcome → Json
  | .err .notfound => obj [("err", .str "notfound")]
  | .err _ => obj [("err", .str "other")]
  | o => outJson o

def handle (op : String) (j : Json) : Option Json :=
  match op with
  | "import.replay" =>
    match (do scenarioOf j (← pathsOf j "jpaths")) with
    | none => some (bad "import.replay: parse")
    | some sc =>
      let rs := runOps sc.w sc.dir (Run.fresh sc.w.valid) sc.ops
      some (obj [("model", obj [("res", .arr (rs.map (fun (o, l) =>
        obj [("out", outJson o), ("log", .arr (l.map logJson).toArray)])).toArray)])])
  | "import.outcomes" =>
    match (do scenarioOf j (← pathsOf j "jpaths")) with
    | none => some (bad "import.outcomes: parse")
    | some sc =>
      let rs := sc.ops.map (fun o =>
        match o.fault with
        | some _ => obj [("faulted", .bool true)]
        | none => outJson (specOp sc.w sc.dir o))
      some (obj [("spec", obj [("res", .arr rs.toArray), ("once", .bool true)])])
  | "import.cli" =>
    match (do scenarioOf j (searchPath (← pathsOf j "jflags") (← pathsOf j "env"))) with
    | none => some (bad "import.cli: parse")
    | some sc =>
      -- the CLI imports its input with `SourceDefaultIgnoreJpath`; the input is given absolute
      let rs := sc.ops.map (fun o => cliOut (specOp sc.w sc.dir o))
      some (obj [("spec", obj [("res", .arr rs.toArray)])])
  | _ => none

end JrsVerif.Drv.C07
