import JrsVerif.Common.J
import JrsVerif.Model.StdObj

namespace JrsVerif.Drv.C13
open Lean JrsVerif.J JrsVerif.StdObj

/-! term encoding (both directions):
    null | true | 3 | "s" | [..]                      scalars / arrays
    {"$e":1}                                          failing thunk (`error "x"`)
    {"$fn":n}                                         function of n parameters
    {"$o":[[ [name, "n"|"h"|"u", plus, term], … ], …]}  input: inheritance chain of layers
    {"$o":[[name, hidden, term], …]}                  output: flattened, all names ascending
    {"$sup":[layer,…],"k":k,"ext":[layer,…]}          input: the VALUE of `super` (jrsonnet extension
                                                      `local s = super`) taken inside layer k (1 ≤ k < n)
                                                      of the chain = the object of layers 0..k-1; with
                                                      `ext`, that value extended by further layers
    string PRODUCTIONS (input only; the value is the text, whatever built it — the harness writes
    the same text as different Jsonnet expressions, so that the evaluator holds it as a flat
    string or as ropes with different split points):
    {"$cat":[s,…],"by":k}   concatenation (`a + b + …`, std.format("%s%s",[a,b]), std.join("",[…]), `"%s%s" % […]`)
    {"$rep":[s,n]}          std.repeat(s, n)
    {"$chr":n}              std.char(n)
    {"$w":[kind,s]}         a text-preserving wrapper (std.toString, substr of s+"##", identity call, …)
    a field NAME of an input layer may be such a production (computed field name `[e]:`) -/

def toVis : String → Option Vis
  | "n" => some .normal
  | "h" => some .hidden
  | "u" => some .unhide
  | _ => none

/-- text of a string production (independent of how the evaluator represents it) -/
partial def strOf (j : Json) : Option String :=
  match j with
  | .str s => some s
  | .obj _ =>
    match j.getObjVal? "$cat" with
    | .ok (.arr ts) => (ts.toList.mapM strOf).map String.join
    | _ =>
      match j.getObjVal? "$rep" with
      | .ok (.arr #[t, n]) => do
          let s ← strOf t
          let n ← n.getNat?.toOption
          pure (String.join (List.replicate n s))
      | _ =>
        match j.getObjVal? "$chr" with
        | .ok n => (n.getNat?.toOption).map (fun n => String.singleton (Char.ofNat n))
        | _ =>
          match j.getObjVal? "$w" with
          | .ok (.arr #[_, t]) => strOf t
          | _ => none
  | _ => none

partial def toV (j : Json) : Option V :=
  match j with
  | .null => some .null
  | .bool b => some (.bool b)
  | .num _ => (j.getInt?.toOption).map V.num
  | .str s => some (.str s)
  | .arr a => (a.toList.mapM toV).map (fun l => V.arr (VL.ofList l))
  | .obj _ =>
    match strOf j with
    | some s => some (.str s)
    | none =>
    match j.getObjVal? "$e" with
    | .ok _ => some .err
    | _ =>
      match j.getObjVal? "$fn" with
      | .ok n => (n.getNat?.toOption).map V.func
      | _ =>
        let parseLayers := fun (layers : Array Json) =>
          layers.toList.mapM (fun l =>
            match l with
            | Json.arr fs => fs.toList.mapM (fun f =>
                match f with
                | Json.arr #[nm, Json.str v, Json.bool p, t] => do
                    let n ← strOf nm
                    let vis ← toVis v
                    let tv ← toV t
                    pure ({ name := n, vis := vis, plus := p, val := tv } : LField)
                | _ => none)
            | _ => none)
        match j.getObjVal? "$o" with
        | .ok (.arr layers) => (parseLayers layers).map (fun ls => V.obj (flatten ls))
        | _ =>
          -- the value of a standalone `super` seen from layer `k` (1 ≤ k) of the chain: the object
          -- made of the layers below `k` — whatever layer `k` and the layers above it declare —
          -- optionally extended by the layers `ext`
          match j.getObjVal? "$sup", j.getObjVal? "k" with
          | .ok (.arr layers), .ok kj => do
              let k ← kj.getNat?.toOption
              let ls ← parseLayers layers
              let ext ← match j.getObjVal? "ext" with
                | .ok (.arr e) => parseLayers e
                | _ => some []
              if k == 0 || k ≥ ls.length + 1 then none
              else pure (V.obj (flatten (ls.take k ++ ext)))
          | _, _ => none

partial def ofV : V → Json
  | .null => .null
  | .bool b => .bool b
  | .num n => toJson n
  | .str s => .str s
  | .arr xs => .arr (xs.toList.map ofV).toArray
  | .obj fs =>
    obj [("$o", .arr ((fieldsEx fs true).map (fun k =>
      Json.arr #[.str k, .bool (!has fs k), ofV (getLazy fs k)])).toArray)]
  | .func n => obj [("$fn", toJson n)]
  | .err => obj [("$e", toJson (1 : Nat))]

def enc (r : Option V) : Json :=
  match r with
  | some v => obj [("ok", ofV v)]
  | none => obj [("err", toJson (1 : Nat))]

def asObj : V → Option FL | .obj o => some o | _ => none
def asStr : V → Option String | .str s => some s | _ => none
def asBool : V → Option Bool | .bool b => some b | _ => none

def natV (n : Nat) : V := .num (Int.ofNat n)

/-- `std.member(arr, x)`: the elements in order, the first equal one answers -/
def memberL : List V → V → Option Bool
  | [], _ => some false
  | e :: es, x =>
    match equals e x with
    | none => none
    | some true => some true
    | some false => memberL es x

def asStrList : V → Option (List String)
  | .arr xs => xs.toList.mapM asStr
  | _ => none

/-- `a < b` on strings: lexicographic by code point -/
def strCmp (f : Bool → Bool → Bool) (x y : V) : Option V := do
  let a ← asStr x
  let b ← asStr y
  pure (.bool (f (decide (a < b)) (a == b)))

/-- (model, spec) of `std.<fn>(args)`; `f` names a pool function -/
def call (fn : String) (f : String) (a : List V) : Option (Option V × Option V) :=
  let both (x : Option V) := some (x, x)
  match fn, a with
  | "objectFields", [o] =>
    some ((asObj o).map (Model.objectFieldsEx · false), (asObj o).map (fun o => strArr (Spec.fieldsByMergeSort o false)))
  | "objectFieldsAll", [o] =>
    some ((asObj o).map (Model.objectFieldsEx · true), (asObj o).map (fun o => strArr (Spec.fieldsByMergeSort o true)))
  | "objectFieldsEx", [o, h] =>
    some ((do Model.objectFieldsEx (← asObj o) (← asBool h)),
          (do let o ← asObj o; let h ← asBool h; pure (strArr (Spec.fieldsByMergeSort o h))))
  | "objectValues", [o] =>
    some ((asObj o).map (Model.objectValuesEx · false), (asObj o).map (Spec.objectValuesEx · false))
  | "objectValuesAll", [o] =>
    some ((asObj o).map (Model.objectValuesEx · true), (asObj o).map (Spec.objectValuesEx · true))
  | "objectKeysValues", [o] =>
    some ((asObj o).map (Model.objectKeysValuesEx · false), (asObj o).map (Spec.objectKeysValuesEx · false))
  | "objectKeysValuesAll", [o] =>
    some ((asObj o).map (Model.objectKeysValuesEx · true), (asObj o).map (Spec.objectKeysValuesEx · true))
  | "objectHas", [o, k] =>
    some ((do pure (V.bool (Model.objectHasEx (← asObj o) (← asStr k) false))),
          (do pure (V.bool (Spec.objectHasEx (← asObj o) (← asStr k) false))))
  | "objectHasAll", [o, k] =>
    some ((do pure (V.bool (Model.objectHasEx (← asObj o) (← asStr k) true))),
          (do pure (V.bool (Spec.objectHasEx (← asObj o) (← asStr k) true))))
  | "objectHasEx", [o, k, h] =>
    some ((do pure (V.bool (Model.objectHasEx (← asObj o) (← asStr k) (← asBool h)))),
          (do pure (V.bool (Spec.objectHasEx (← asObj o) (← asStr k) (← asBool h)))))
  | "get", [o, k] =>
    some ((do Model.get (← asObj o) (← asStr k) .null true), (do Spec.get (← asObj o) (← asStr k) .null true))
  | "get", [o, k, d] =>
    some ((do Model.get (← asObj o) (← asStr k) d true), (do Spec.get (← asObj o) (← asStr k) d true))
  | "get", [o, k, d, h] =>
    some ((do Model.get (← asObj o) (← asStr k) d (← asBool h)),
          (do Spec.get (← asObj o) (← asStr k) d (← asBool h)))
  | "objectRemoveKey", [o, k] =>
    some ((do pure (Model.objectRemoveKey (← asObj o) (← asStr k))),
          (do pure (Spec.objectRemoveKey (← asObj o) (← asStr k))))
  | "mapWithKey", [o] =>
    some ((asObj o).map (Model.mapWithKey f), (asObj o).map (Spec.mapWithKey f))
  | "mergePatch", [t, p] => some (Model.mergePatch t p, Spec.mergePatch t p)
  | "prune", [v] => some (Model.prune v, Spec.prune v)
  -- the argument itself (used to dump a standalone `super` through the ObjValue interface)
  | "value", [v] => both (force v)
  | "length", [v] => both ((Model.length v).map natV)
  | "type", [v] => both (some (.str (typeName v)))
  | "isString", [v] => both (some (.bool (isType "string" v)))
  | "isNumber", [v] => both (some (.bool (isType "number" v)))
  | "isBoolean", [v] => both (some (.bool (isType "boolean" v)))
  | "isObject", [v] => both (some (.bool (isType "object" v)))
  | "isArray", [v] => both (some (.bool (isType "array" v)))
  | "isFunction", [v] => both (some (.bool (isType "function" v)))
  | "isNull", [v] => both (some (.bool (isType "null" v)))
  | "equals", [x, y] => both ((equals x y).map V.bool)
  | "primitiveEquals", [x, y] => both ((primitiveEquals x y).map V.bool)
  | "assertEqual", [x, y] => both ((assertEqual x y).map V.bool)
  -- the operators (`==` / `!=` are `equals`; the order operators are served for two strings only,
  -- numeric and array order are C09's / C08's)
  | "opEq", [x, y] => both ((equals x y).map V.bool)
  | "opNe", [x, y] => both ((equals x y).map (fun b => V.bool (!b)))
  | "opLt", [x, y] => both (strCmp (fun lt _ => lt) x y)
  | "opLe", [x, y] => both (strCmp (fun lt eq => lt || eq) x y)
  | "opGt", [x, y] => both (strCmp (fun lt eq => !(lt || eq)) x y)
  | "opGe", [x, y] => both (strCmp (fun lt _ => !lt) x y)
  | "opIn", [k, o] => both (do pure (V.bool (hasAll (← asObj o) (← asStr k))))
  | "opIndex", [o, k] => both (do
      let o ← asObj o
      let k ← asStr k
      if hasAll o k then force (getLazy o k) else none)
  -- `std.setMember(x, set)`: `set` is a strictly ascending array of strings (the harness sorts it
  -- by text), `x` a string: membership
  | "setMember", [x, s] => both (do
      let x ← asStr x
      let l ← asStrList s
      pure (V.bool (l.contains x)))
  | "member", [a, x] =>
    match a with
    | .arr xs => both ((memberL xs.toList x).map V.bool)
    | _ => none
  -- spec only: the shared-pointer shortcut (`equalsSame`) is a known finding; the theorems
  -- `equalsSame_*` of Props/C13 describe exactly where it differs from `equals x x`
  | "equalsSame", [x] => some (none, (equals x x).map V.bool)
  | "xor", [x, y] => both (do pure (V.bool (StdObj.xor (← asBool x) (← asBool y))))
  | "xnor", [x, y] => both (do pure (V.bool (StdObj.xnor (← asBool x) (← asBool y))))
  | _, _ => none

def handle (op : String) (j : Json) : Option Json :=
  match op with
  | "c13.call" =>
    match (do
      let fn ← str? j "fn"
      let a ← arr? j "a"
      let args ← a.toList.mapM toV
      pure (fn, args)) with
    | none => some (bad "c13.call: parse")
    | some (fn, args) =>
      match call fn ((str? j "f").getD "") args with
      | none => some (bad s!"c13.call: unknown function/arity {fn}")
      | some (m, s) =>
        if fn == "equalsSame" then
          some (obj [("spec", enc s), ("_shortcut", enc ((args.head?.bind equalsSame).map V.bool))])
        else some (obj [("model", enc m), ("spec", enc s)])
  | _ => none

end JrsVerif.Drv.C13
