/- C16 driver ops: det.fields / det.suggest / det.tla (model under an explicit iteration order +
   order-free reference) and det.hist / det.repeat (executable statement: all renderings equal). -/
import JrsVerif.Common.J
import JrsVerif.Model.Det

namespace JrsVerif.Drv.C16
open Lean JrsVerif.J JrsVerif.Det

def bytesOf (s : String) : Det.Name := s.toUTF8.toList.map (·.toNat)

/-- names travel as strings; the model works on their UTF-8 bytes -/
def nameBack (tbl : List (Det.Name × String)) (n : Det.Name) : String :=
  match tbl.find? (fun p => p.1 = n) with
  | some p => p.2
  | none => "?"

def parseVis (s : String) : Vis :=
  if s == "h" then .hidden else if s == "u" then .unhide else .normal

def rot {α} (k : Nat) (l : List α) : List α :=
  if l.isEmpty then l else l.drop (k % l.length) ++ l.take (k % l.length)

/-- a core of the op, its names re-ordered by a permutation derived from `seed` (the hook reports
    them sorted; the real map iterates in an address-dependent order) -/
def parseCore (seed : Nat) (idx : Nat) (j : Json) : Option (Core × List String) := do
  match (← str? j "k") with
  | "oop" =>
    let fs := (← arr? j "fs").toList.filterMap (fun f => match f with
      | .arr #[.str n, .str v] => some (n, parseVis v)
      | _ => none)
    let fs := rot (seed / (idx + 1)) fs
    let fs := if (seed + idx) % 2 == 1 then fs.reverse else fs
    some (.oop (fs.map (fun f => (bytesOf f.1, f.2))), fs.map (·.1))
  | "omit" =>
    let ns := strs (← arr? j "ns")
    let ns := rot (seed / (idx + 1)) ns
    some (.omitC (ns.map bytesOf) (← nat? j "prev"), ns)
  | _ => none

def parseCores (seed : Nat) (j : Json) : Option (List Core × List (Det.Name × String)) :=
  match j with
  | .arr a =>
    let ps := (a.toList.zipIdx).map (fun (c, i) => parseCore seed i c)
    if ps.any Option.isNone then none
    else
      let ps := ps.filterMap id
      some (ps.map (·.1), (ps.flatMap (·.2)).map (fun s => (bytesOf s, s)))
  | _ => none

def iterOf (seed : Nat) : Map → Map :=
  if seed % 3 == 0 then id else if seed % 3 == 1 then List.reverse else rot (seed / 3)

def parseCand (j : Json) : Option (String × Nat) :=
  match j with
  | .arr #[.str n, v] => (v.getNat?).toOption.map (fun b => (n, b))
  | _ => none

def outcomeJson (tbl : List (Det.Name × String)) : TlaOutcome → Json
  | .called => obj [("ok", toJson true)]
  | .importNotFound a => obj [("err", .str "import"), ("name", .str (nameBack tbl a))]
  | .unknownParam a => obj [("err", .str "unknown"), ("name", .str (nameBack tbl a))]
  | .unbound p => obj [("err", .str "unbound"), ("name", .str (nameBack tbl p))]
  | .arithmetic => obj [("err", .str "arithmetic")]

def allEqual (a : Array Json) : Bool :=
  match a.toList with
  | [] => true
  | x :: r => r.all (fun y => y == x)

def handle (op : String) (j : Json) : Option Json :=
  match op with
  | "det.fields" =>
    let seed := (nat? j "seed").getD 0
    match (val? j "cores").bind (parseCores seed) with
    | none => some (obj [("skip", toJson true), ("_why", .str "det.fields: not an object built from modelled layers")])
    | some (cs, tbl) =>
      let it := iterOf seed
      let back := fun (l : List Det.Name) => ofStrs (l.map (nameBack tbl))
      some (obj [
        ("model", obj [("fields", back (fieldsEx it cs false)), ("fieldsAll", back (fieldsEx it cs true)),
                       ("len", toJson (objLen it cs))]),
        ("spec", obj [("fields", back (specFields cs false)), ("fieldsAll", back (specFields cs true)),
                      ("len", toJson (specFields cs false).length)])])
  | "det.suggest" =>
    let key := (str? j "key").getD ""
    match str? j "kind" with
    | some "local" =>
      match arr? j "layers" with
      | none => some (bad "det.suggest: layers")
      | some ls =>
        let scopes : List (List (String × Nat)) := ls.toList.map (fun l => match l with
          | .arr a => a.toList.filterMap parseCand
          | _ => [])
        let flat := scopes.flatten
        let tbl := flat.map (fun p => (bytesOf p.1, p.1))
        let cands := flat.map (fun p => Cand.mk p.2 (bytesOf p.1))
        let out := fun (l : List Det.Name) => obj [("key", .str key), ("suggest", ofStrs (l.map (nameBack tbl)))]
        some (obj [("model", out (suggestLocals cands)), ("spec", out (specRank cands))])
    | some "field" =>
      let seed := key.length
      match (val? j "cores").bind (parseCores seed), arr? j "scores" with
      | some (cs, tbl), some sc =>
        let scores := sc.toList.filterMap parseCand
        let scoreOf := fun (n : Det.Name) => match scores.find? (fun p => bytesOf p.1 = n) with
          | some p => p.2
          | none => 0
        let out := fun (l : List Det.Name) => obj [("key", .str key), ("suggest", ofStrs (l.map (nameBack tbl)))]
        some (obj [
          ("model", out (suggestFields (iterOf seed) cs scoreOf)),
          ("spec", out (specRank ((specFields cs true).map (fun n => Cand.mk (scoreOf n) n))))])
      | _, _ => some (obj [("skip", toJson true), ("_why", .str "det.suggest: not an object built from modelled layers")])
    | _ => some (bad "det.suggest: kind")
  | "det.tla" =>
    match arr? j "params", arr? j "args" with
    | some ps, some as =>
      let params := ps.toList.filterMap (fun p => match p with
        | .arr #[.str n, .bool d] => some (n, d)
        | _ => none)
      let args := as.toList.filterMap (fun a => match a with
        | .arr #[.str n, .str k] => some (n, if k == "missing-import" || k == "missing-importstr" then ArgKind.unresolvable else ArgKind.ok)
        | _ => none)
      let tbl := (params.map (fun p => (bytesOf p.1, p.1))) ++ (args.map (fun a => (bytesOf a.1, a.1)))
      let ps' := params.map (fun p => Param.mk (bytesOf p.1) p.2)
      let as' := args.map (fun a => (bytesOf a.1, a.2))
      some (obj [("model", outcomeJson tbl (applyTla as' ps')), ("spec", outcomeJson tbl (specTla as' ps'))])
    | _, _ => some (bad "det.tla: parse")
  | "det.hist" | "det.repeat" =>
    match arr? j "outs" with
    | some outs => some (obj [("observed", toJson (allEqual outs && outs.size > 1))])
    | none => some (bad "det: outs")
  | _ => none

end JrsVerif.Drv.C16
