import JrsVerif.Common.J
import JrsVerif.Model.StdArr
import JrsVerif.Model.StdArrHof

namespace JrsVerif.Drv.C10
open Lean JrsVerif.J JrsVerif.StdArr

partial def toV (j : Json) : Option V :=
  match j with
  | .null => some .null
  | .bool b => some (.bool b)
  | .num _ => (j.getInt?.toOption).map V.num
  | .str s => some (.str s)
  | .arr a => (a.toList.mapM toV).map V.arr
  | .obj _ =>
    match j.getObjVal? "a" with
    | .ok v => (toV v).map V.objA
    | _ => some .objE

partial def ofV : V → Json
  | .null => .null
  | .bool b => .bool b
  | .num n => toJson n
  | .str s => .str s
  | .arr xs => .arr (xs.map ofV).toArray
  | .objE => Json.mkObj []
  | .objA v => Json.mkObj [("a", ofV v)]

/-- result of a call: `none` = the call fails -/
abbrev R := Option Json

def okV (v : V) : Json := obj [("ok", ofV v)]
def enc (r : Option V) : Json := match r with | some v => okV v | none => obj [("err", toJson (1 : Nat))]
def encL (r : Option (List V)) : Json := enc (r.map V.arr)
def encB (r : Option Bool) : Json := enc (r.map V.bool)

def hex16 (n : UInt64) : String :=
  let s := (Nat.toDigits 16 n.toNat)
  String.ofList (List.replicate (16 - s.length) '0' ++ s)

/-- average as the implementation computes it: exact integer when it is one, else the IEEE bits of
    the (correctly rounded) quotient of two exactly representable integers -/
def avgJson (s : Int) (n : Nat) : Json :=
  if n ≠ 0 ∧ s % (n : Int) = 0 then okV (.num (s / (n : Int)))
  else obj [("ok", obj [("$f", .str (hex16 (Float.ofInt s / Float.ofNat n).toBits))])]

def asArr : V → Option (List V) | .arr xs => some xs | _ => none
def asInt : V → Option Int | .num n => some n | _ => none

/-- indexable argument: array, or string as its characters -/
def asIdx : V → Option (List V × Bool)
  | .arr xs => some (xs, false)
  | .str s => some (chars s, true)
  | _ => none

def strOf (cs : List V) : Option String :=
  cs.foldlM (fun acc c => match c with | .str s => some (acc ++ s) | _ => none) ""

/-- keys are "flat": numbers, strings, arrays of numbers, or never-comparable values — on such
    keys comparability is an equivalence, so "some pair is incomparable" is detected by every
    comparison sort and the reference error behaviour is algorithm independent -/
def flatKey : V → Bool
  | .arr xs => xs.all (fun x => match x with | .num _ => true | _ => false)
  | _ => true

def keysFlat (xs : List V) (f : Option String) : Bool :=
  xs.all (fun x => match keyFn f x with | some k => flatKey k | none => true)

def both (m s : Json) : Json := obj [("model", m), ("spec", s)]
def specOnly (s : Json) : Json := obj [("spec", s)]
def modelOnly (m : Json) : Json := obj [("model", m)]
def errJ : Json := obj [("err", toJson (1 : Nat))]

def optInt? (v : V) : Option (Option Int) :=
  match v with | .null => some none | .num n => some (some n) | _ => none

/-! round 3: lazily evaluated elements, builder arguments, code-shaped models -/

def errElem : Json := obj [("$err", toJson (1 : Nat))]

/-- Arrays hold their elements unevaluated, so the result of a callback such as `function(x) [x]`
    or `function(acc, x) acc + [x]` may contain a failing thunk.  Inside `V` such a thunk is stored
    as this reserved value; it is never produced by the generators. -/
def errV : V := .objA (.str "$err")

def encT (e : Option V) : V := match e with | some v => v | none => errV

partial def hasErr : V → Bool
  | .objA (.str "$err") => true
  | .objA v => hasErr v
  | .arr xs => xs.any hasErr
  | _ => false

/-- element of an array value read back as a thunk -/
def decT (v : V) : Option V := match v with | .objA (.str "$err") => none | _ => some v

/-- one element of an element-wise dump: a failing thunk, or a value with a failing thunk inside
    (its strict dump fails), is recorded as `$err` -/
def dumpElem (e : Option V) : Json :=
  match e with
  | some v => if hasErr v then errElem else ofV v
  | none => errElem

def encLL (r : Option (List (Option V))) : Json :=
  match r with
  | some xs => obj [("ok", .arr (xs.map dumpElem).toArray)]
  | none => errJ

/-- element-wise dump of a single value: arrays element by element, anything else strictly -/
def encLazyV (r : Option V) : Json :=
  match r with
  | some (.arr xs) => encLL (some (xs.map decT))
  | some v => if hasErr v then errJ else okV v
  | none => errJ

/-- strict dump of a lazy result: any failing element fails the whole manifest -/
def encStrict (r : Option (List (Option V))) : Json :=
  match r.bind evalAll with
  | some vs => if vs.any hasErr then errJ else encL (some vs)
  | none => errJ

def nonForcing1 (n : String) : Bool := n == "true" || n == "const0" || n == "lit" || n == "arr1"

/-- pool function applied to a thunk: the constant functions do not force their argument, the
    array builders store it unevaluated -/
def fn1L (name : String) (e : Option V) : Option V :=
  if nonForcing1 name then fn1 name .null
  else if name == "wrap" || name == "dup" then fn1 name (encT e)
  else e.bind (fn1 name)

/-- binary pool function applied to two thunks, in call order -/
def fn2L (name : String) (a b : Option V) : Option V :=
  match name with
  | "pair" => some (.arr [encT a, encT b])
  | "snoc" => a.bind (fun av => fn2 "snoc" av (encT b))
  | "cons" => b.bind (fun bv => fn2 "cons" (encT a) bv)
  | "fst" | "inc1" => a.bind (fun av => fn2 name av .null)
  | "snd" | "inc2" => b.bind (fun bv => fn2 name .null bv)
  | "const7" => some (.num 7)
  | _ => a.bind (fun av => b.bind (fn2 name av))

/-- `builtin_flatmap`, array branch: the callback result classified, the pieces read back as thunks -/
def piecesL (name : String) (e : Option V) : Option (Option (List (Option V))) :=
  match fn1L name e with
  | some (.arr ys) => some (some (ys.map decT))
  | some .null => some none
  | _ => none

/-- key function applied to a thunk -/
def keyL (f : Option String) (e : Option V) : Option V :=
  match f with
  | some n => fn1L n e
  | none => e

def trivialOf (name : String) : Option V := if nonForcing1 name then fn1 name .null else none

def encNats (r : Option (List Nat)) : Json := encL (r.map (fun l => l.map (fun (i : Nat) => V.num i)))
def encNat (r : Option Nat) : Json := enc (r.map (fun (i : Nat) => V.num i))

def encAvg (r : Option (Avg V)) : Json :=
  match r with
  | none => errJ
  | some (.onEmpty v) => okV v
  | some (.quot s n) => avgJson s n

def isErrElem (j : Json) : Bool := match j.getObjVal? "$err" with | .ok _ => true | _ => false

def toLazy (j : Json) : Option (Option V) := if isErrElem j then some none else (toV j).map some

/-- argument of the lazy op: arrays may contain failing elements -/
def toIdx (j : Json) : Option Idx :=
  match j with
  | .arr a => (a.toList.mapM toLazy).map Idx.arr
  | _ => (toV j).map Idx.ofV

def strictOf (c : Idx) : Option V :=
  match c with
  | .arr xs => (evalAll xs).map V.arr
  | .str s => some (.str s)
  | .other => none

/-- arguments built by other builtins: evaluated here with the *reference* definitions -/
partial def toArg (j : Json) : Option V :=
  match j.getObjVal? "$b" with
  | .ok (.arr b) =>
    let arg (i : Nat) : Option V := b[i]?.bind toArg
    let int (i : Nat) : Option Int := (arg i).bind asInt
    let oint (i : Nat) : Option (Option Int) := (arg i).bind optInt?
    let arr (i : Nat) : Option (List V) := (arg i).bind asArr
    let name (i : Nat) : Option String := b[i]?.bind (fun x => x.getStr?.toOption)
    match b[0]?.bind (fun x => x.getStr?.toOption) with
    | some "range" => do let a ← int 1; let c ← int 2; pure (.arr (Spec.range a c))
    | some "slice" => do
        let xs ← arr 1; let i ← oint 2; let e ← oint 3; let st ← oint 4
        pure (.arr (sliceL xs i e ((st.getD 1).toNat)))
    | some "reverse" => do let xs ← arr 1; pure (.arr xs.reverse)
    | some "repeat" => do let xs ← arr 1; let n ← int 2; pure (.arr (Spec.repeatL xs n.toNat))
    | some "sort" => do let xs ← arr 1; (Spec.sort xs none).map V.arr
    | some "map" => do let f ← name 1; let xs ← arr 2; (Spec.mapM' (fn1 f) xs).map V.arr
    | some "mapWithIndex" => do let f ← name 1; let xs ← arr 2; (Spec.mapIdx (fn2 f) 0 xs).map V.arr
    | some "filter" => do let f ← name 1; let xs ← arr 2; (Spec.filter (fn1 f) xs).map V.arr
    | some "makeArray" => do
        let n ← int 1; let f ← name 2
        (((List.range n.toNat).map (fun (i : Nat) => V.num i)).mapM (fn1 f)).map V.arr
    | some "concat" => do let xs ← arr 1; let ys ← arr 2; pure (.arr (xs ++ ys))
    | some "chars" => do let s ← name 1; pure (.arr (chars s))
    | some "bytes" => do
        let s ← name 1
        pure (.arr (s.toList.map (fun c => V.num c.toNat)))        -- ASCII only
    | some "list" => ((b.toList.drop 1).mapM toArg).map V.arr
    | some "local" => arg 1
    | _ => none
  | _ => toV j

def onArr (c : Json) (k : Idx → List (Option V) → Json) (other : Idx → Json) : Option Json :=
  (toIdx c).map (fun c => match c with | .arr xs => k c xs | _ => other c)

def onEmptyArg (rest : List Json) : Option (Option (Option V)) :=
  match rest with
  | [] => some none
  | [t] => (toLazy t).map some
  | _ => none

def callLazy (fn : String) (a : List Json) (f g : Option String) : Option Json :=
  match fn, a with
  | "any", [c] =>
    onArr c (fun c xs => both (encB (Model.any c)) (encB (anySpec asBoolV xs))) (fun _ => both errJ errJ)
  | "all", [c] =>
    onArr c (fun c xs => both (encB (Model.all c)) (encB (allSpec asBoolV xs))) (fun _ => both errJ errJ)
  | "member", [c, x] | "contains", [c, x] =>
    (toV x).bind (fun x =>
      onArr c (fun c xs => both (encB (Model.member c x)) (encB (anySpec (fun y => some (eqV y x)) xs)))
        (fun c => modelOnly (encB (Model.member c x))))
  | "find", [x, c] =>
    (toV x).bind (fun x =>
      onArr c (fun c xs => both (encNats (Model.find x c)) (encNats (findSpec (fun y => some (eqV y x)) xs)))
        (fun _ => both errJ errJ))
  | "count", [c, x] =>
    (toV x).bind (fun x =>
      onArr c (fun c xs => both (encNat (Model.count c x)) (encNat (countSpec (fun y => some (eqV y x)) xs)))
        (fun _ => both errJ errJ))
  | "foldl", [c, init] =>
    (toLazy init).bind (fun init => f.bind (fun fname =>
      onArr c (fun c xs => both (encLazyV (Model.foldl (fn2L fname) c init))
                                (encLazyV (foldlSpec (fn2L fname) init xs)))
        (fun c => modelOnly (encLazyV (Model.foldl (fn2L fname) c init)))))
  | "foldr", [c, init] =>
    (toLazy init).bind (fun init => f.bind (fun fname =>
      onArr c (fun c xs => both (encLazyV (Model.foldr (fn2L fname) c init))
                                (encLazyV (foldrSpec (fn2L fname) init xs)))
        (fun c => modelOnly (encLazyV (Model.foldr (fn2L fname) c init)))))
  | "map", [c] =>
    f.bind (fun fname =>
      onArr c (fun c xs => both (encLL (Model.map (fn1L fname) c)) (encLL (some (xs.map (fn1L fname)))))
        (fun c => modelOnly (encLL (Model.map (fn1L fname) c))))
  | "mapWithIndex", [c] =>
    f.bind (fun fname =>
      onArr c (fun c xs => both (encLL (Model.mapWithIndex (fun i e => fn2L fname (some i) e) c))
          (encLL (some ((xs.zipIdx 0).map (fun p => fn2L fname (some (.num p.2)) p.1)))))
        (fun c => modelOnly (encLL (Model.mapWithIndex (fun i e => fn2L fname (some i) e) c))))
  | "filter", [c] =>
    f.bind (fun fname =>
      onArr c (fun c xs => both (encLL (Model.filter (fn1L fname) false c))
                                (encLL (filterSpec (Model.boolPred (fn1L fname)) xs)))
        (fun _ => both errJ errJ))
  | "filterMap", [c] =>
    f.bind (fun ff => g.bind (fun gg =>
      onArr c (fun c xs => both (encLL (Model.filterMap (fn1L ff) (fn1L gg) false c))
          (encLL ((filterSpec (Model.boolPred (fn1L ff)) xs).map (fun ys => ys.map (fn1L gg)))))
        (fun _ => both errJ errJ)))
  | "flatMap", [c] =>
    f.bind (fun fname =>
      let encF (r : Option Model.FlatRes) : Json :=
        match r with
        | some (.arr ys) => encLL (some ys)
        | some (.str s) => okV (.str s)
        | none => errJ
      onArr c (fun c xs => both (encF (Model.flatMap (piecesL fname) (fn1 fname) c))
                                (encLL (flatMapSpec (piecesL fname) xs)))
        (fun c => modelOnly (encF (Model.flatMap (piecesL fname) (fn1 fname) c))))
  | "join", [sep, arr] =>
    -- array separator: the separator and the joined arrays keep their elements unevaluated
    let item (j : Json) : Option (Option (Option (List (Option V)))) :=
      -- outer none: unparsable; `some none`: the item fails or is not an array/null
      if isErrElem j then some none
      else match j with
        | .null => some (some none)
        | .arr a => (a.toList.mapM toLazy).map (fun xs => some (some xs))
        | _ => some none
    match sep, arr with
    | .arr sp, .arr items =>
      (sp.toList.mapM toLazy).bind (fun sepL => (items.toList.mapM item).map (fun its =>
        match evalAll its with
        | some its' => both (encLL (some (joinM sepL its'))) (encLL (some (joinSpec sepL its')))
        | none => both errJ errJ))
    | _, _ => none
  | "setUnion", [a, b] | "setInter", [a, b] | "setDiff", [a, b] =>
    match a, b with
    | .arr xa, .arr xb =>
      (xa.toList.mapM toLazy).bind (fun la => (xb.toList.mapM toLazy).map (fun lb =>
        let m := match fn with
          | "setUnion" => unionM (keyL f) cmpV la lb
          | "setInter" => interM (keyL f) cmpV la lb
          | _ => diffM (keyL f) cmpV la lb
        -- documented definitions: an exhausted side ends the comparisons
        let s : Option (List (Option V)) :=
          if la.isEmpty then (match fn with | "setUnion" => some lb | _ => some [])
          else if lb.isEmpty then (match fn with | "setInter" => some [] | _ => some la)
          else none
        match s with
        | some r => both (encLL m) (encLL (some r))
        | none => modelOnly (encLL m)))
    | _, _ => none
  | "setMember", [x, arr] =>
    match arr with
    | .arr xa =>
      (toLazy x).bind (fun lx => (xa.toList.mapM toLazy).map (fun la =>
        let m := encB (setMemberM (keyL f) cmpV lx la)
        if la.isEmpty then both m (encB (some false)) else modelOnly m))
    | _ => none
  | "sum", [c] =>
    onArr c (fun c xs => both (enc ((Model.sum c).map V.num))
        (enc ((evalAll xs).bind (fun vs => (Spec.nums vs).map (fun ns => V.num ns.sum)))))
      (fun _ => both errJ errJ)
  | "avg", c :: rest =>
    (onEmptyArg rest).bind (fun onEmpty =>
      (toIdx c).map (fun c => modelOnly (encAvg (Model.avg c onEmpty))))
  | "minArray", c :: rest | "maxArray", c :: rest =>
    (onEmptyArg rest).bind (fun onEmpty =>
      (toIdx c).map (fun c =>
        let want : Ordering := if fn == "minArray" then .lt else .gt
        let m := enc (Model.minMax c (keyL f) want onEmpty)
        -- a key function that ignores its argument makes all keys equal: the documented fold keeps
        -- the first element and looks at no other one
        match c, f with
        | .arr (x :: _), some n => if nonForcing1 n && n != "true" then both m (enc x) else modelOnly m
        | _, _ => modelOnly m))
  | _, _ => none

def call (fn : String) (a : List V) (f g : Option String) : Option Json :=
  match fn, a with
  | "sort", [v] =>
    match asArr v with
    | none => some (both errJ errJ)
    | some xs =>
      let m := encL (Model.sort xs f)
      some (if keysFlat xs f then both m (encL (Spec.sort xs f)) else modelOnly m)
  | "uniq", [v] =>
    match asArr v with
    | none => some (both errJ errJ)
    | some xs => some (both (encL (Model.uniq xs f)) (encL (Spec.uniq xs f)))
  | "set", [v] =>
    match asArr v with
    | none => some (both errJ errJ)
    | some xs =>
      let m := encL (Model.set xs f)
      some (if keysFlat xs f then both m (encL (Spec.set xs f)) else modelOnly m)
  | "setMember", [x, v] =>
    match asArr v with
    | none => some (both errJ errJ)
    | some xs =>
      let m := encB (Model.setMember x xs f)
      some (if Spec.isSet xs f && (Spec.setMember x xs f).isSome
            then both m (encB (Spec.setMember x xs f)) else modelOnly m)
  | "setUnion", [va, vb] | "setInter", [va, vb] | "setDiff", [va, vb] =>
    match asArr va, asArr vb with
    | some xa, some xb =>
      let (m, s) := match fn with
        | "setUnion" => (Model.setUnion xa xb f, Spec.setUnion xa xb f)
        | "setInter" => (Model.setInter xa xb f, Spec.setInter xa xb f)
        | _ => (Model.setDiff xa xb f, Spec.setDiff xa xb f)
      some (if Spec.isSet xa f && Spec.isSet xb f && s.isSome then both (encL m) (encL s)
            else modelOnly (encL m))
    | _, _ => some (both errJ errJ)
  | "member", [c, x] | "contains", [c, x] =>
    match c with
    | .arr xs => some (both (encB (Model.member (Idx.ofV c) x)) (encB (some (Spec.member xs x))))
    | .str s =>
      match x with
      | .str p => some (both (encB (Model.member (Idx.ofV c) x))
                             (encB (some (!p.isEmpty && Spec.isInfix p.toList s.toList))))
      | _ => some (both (encB (Model.member (Idx.ofV c) x)) errJ)
    | _ => some (both (encB (Model.member (Idx.ofV c) x)) errJ)
  | "find", [x, v] =>
    some (both (encNats (Model.find x (Idx.ofV v)))
               (encL ((asArr v).map (fun xs => (Spec.find x xs).map (fun (i : Nat) => V.num i)))))
  | "count", [v, x] =>
    some (both (encNat (Model.count (Idx.ofV v) x)) (enc ((asArr v).map (fun xs => V.num (Spec.count xs x)))))
  | "removeAt", [v, i] =>
    match asArr v, asInt i with
    | some xs, some n => some (both (encL (some (removeAtM xs n))) (encL (some (removeAtSpec xs n))))
    | _, _ => some (both errJ errJ)
  | "remove", [v, e] =>
    match asArr v with
    | some xs => some (both (encL (some (removeM (fun y => eqV y e) xs)))
                            (encL (some (removeSpec (fun y => eqV y e) xs))))
    | none => some (both errJ errJ)
  | "flattenArrays", [v] =>
    match (asArr v).bind (fun xs => xs.mapM asArr) with
    | some xss => some (both (encL (some (flattenM xss))) (encL (some (flattenSpec xss))))
    | none => some (both errJ errJ)
  | "flattenDeepArray", [v] =>
    some (both (encL (some (Model.flattenDeep v))) (encL (some (Spec.flattenDeep v))))
  | "foldl", [c, init] =>
    match asIdx c, f with
    | some (xs, _), some fname => some (both (enc (Model.foldl (fn2L fname) (Idx.ofV c) (some init)))
                                             (enc (Spec.foldl (fn2 fname) init xs)))
    | _, some fname => some (both (enc (Model.foldl (fn2L fname) (Idx.ofV c) (some init))) errJ)
    | _, _ => some (specOnly errJ)
  | "foldr", [c, init] =>
    match asIdx c, f with
    | some (xs, _), some fname => some (both (enc (Model.foldr (fn2L fname) (Idx.ofV c) (some init)))
                                             (enc (Spec.foldr (fn2 fname) init xs)))
    | _, some fname => some (both (enc (Model.foldr (fn2L fname) (Idx.ofV c) (some init))) errJ)
    | _, _ => some (specOnly errJ)
  | "map", [c] =>
    match asIdx c, f with
    | some (xs, _), some fname => some (both (encStrict (Model.map (fn1L fname) (Idx.ofV c)))
                                             (encL (Spec.mapM' (fn1 fname) xs)))
    | _, some fname => some (both (encStrict (Model.map (fn1L fname) (Idx.ofV c))) errJ)
    | _, _ => some (specOnly errJ)
  | "mapWithIndex", [c] =>
    match asIdx c, f with
    | some (xs, _), some fname => some (both (encStrict (Model.mapWithIndex (fun i e => fn2L fname (some i) e) (Idx.ofV c)))
                                             (encL (Spec.mapIdx (fn2 fname) 0 xs)))
    | _, some fname => some (both (encStrict (Model.mapWithIndex (fun i e => fn2L fname (some i) e) (Idx.ofV c))) errJ)
    | _, _ => some (specOnly errJ)
  | "filter", [v] =>
    match asArr v, f with
    | some xs, some fname => some (both (encStrict (Model.filter (fn1L fname) true (Idx.ofV v)))
                                        (encL (Spec.filter (fn1 fname) xs)))
    | none, some fname => some (both (encStrict (Model.filter (fn1L fname) true (Idx.ofV v))) errJ)
    | _, _ => some (specOnly errJ)
  | "filterMap", [v] =>
    match asArr v, f, g with
    | some xs, some ff, some gg =>
      some (both (encStrict (Model.filterMap (fn1L ff) (fn1L gg) true (Idx.ofV v)))
                 (encL ((Spec.filter (fn1 ff) xs).bind (Spec.mapM' (fn1 gg)))))
    | none, some ff, some gg =>
      some (both (encStrict (Model.filterMap (fn1L ff) (fn1L gg) true (Idx.ofV v))) errJ)
    | _, _, _ => some (specOnly errJ)
  | "flatMap", [c] =>
    let encF (r : Option Model.FlatRes) : Json :=
      match r with
      | some (.arr ys) => encStrict (some ys)
      | some (.str s) => okV (.str s)
      | none => errJ
    match c, f with
    | .arr xs, some fname => some (both (encF (Model.flatMap (piecesL fname) (fn1 fname) (Idx.ofV c)))
                                        (encL (Spec.flatMapArr (fn1 fname) xs)))
    | .str s, some fname => some (both (encF (Model.flatMap (piecesL fname) (fn1 fname) (Idx.ofV c)))
                                       (enc ((Spec.flatMapStr (fn1 fname) (chars s)).map V.str)))
    | _, some fname => some (both (encF (Model.flatMap (piecesL fname) (fn1 fname) (Idx.ofV c))) errJ)
    | _, _ => some (specOnly errJ)
  | "join", [sep, v] =>
    match sep, asArr v with
    | .str s, some xs =>
      match Spec.strItems xs with
      | some items => some (both (enc (some (.str (String.ofList (joinM s.toList items)))))
                                 (enc (some (.str (String.ofList (joinSpec s.toList items))))))
      | none => some (both errJ errJ)
    | .arr s, some xs =>
      match Spec.arrItems xs with
      | some items => some (both (encL (some (joinM s items))) (encL (some (joinSpec s items))))
      | none => some (both errJ errJ)
    | _, _ => some (both errJ errJ)
  | "lines", [v] =>
    match (asArr v).bind Spec.strItems with
    | some items =>
      -- native: join("\n", arr ++ [""]) ; documented: a newline after each (non-null) string
      let m := String.ofList (linesM '\n' items)
      let s := String.ofList ((items.filterMap id).foldr (fun p acc => p ++ '\n' :: acc) [])
      some (both (enc (some (.str m))) (enc (some (.str s))))
    | none => some (both errJ errJ)
  | "deepJoin", [v] =>
    some (both (enc ((Model.deepJoin v).map V.str)) (enc ((Spec.deepJoin v).map V.str)))
  | "any", [v] => some (both (encB (Model.any (Idx.ofV v))) (encB ((asArr v).bind Spec.anyV)))
  | "all", [v] => some (both (encB (Model.all (Idx.ofV v))) (encB ((asArr v).bind Spec.allV)))
  | "sum", [v] =>
    some (both (enc ((Model.sum (Idx.ofV v)).map V.num))
               (enc (((asArr v).bind Spec.nums).map (fun ns => V.num ns.sum))))
  | "avg", [v] =>
    match (asArr v).bind Spec.nums with
    | some [] => some (both (encAvg (Model.avg (Idx.ofV v) none)) errJ)
    | some ns => some (both (encAvg (Model.avg (Idx.ofV v) none)) (avgJson ns.sum ns.length))
    | none => some (both (encAvg (Model.avg (Idx.ofV v) none)) errJ)
  | "avg", [v, onEmpty] =>
    let m := encAvg (Model.avg (Idx.ofV v) (some (some onEmpty)))
    match (asArr v).bind Spec.nums with
    | some [] => some (both m (okV onEmpty))
    | some ns => some (both m (avgJson ns.sum ns.length))
    | none => some (both m errJ)
  | "minArray", v :: rest | "maxArray", v :: rest =>
    let want : Ordering := if fn == "minArray" then .lt else .gt
    match asArr v, rest with
    | some [], [onEmpty] => some (both (okV onEmpty) (okV onEmpty))
    | some xs, _ =>
      let onE : Option (Option V) := match rest with | [t] => some (some t) | _ => none
      let m := enc (Model.minMax (Idx.ofV v) (keyL f) want onE)
      some (if keysFlat xs f then both m (enc (Spec.top1 xs f want)) else modelOnly m)
    | none, _ => some (both errJ errJ)
  | "range", [x, y] =>
    match asInt x, asInt y with
    | some p, some q =>
      -- the reference is defined for every pair of integers; `i32` is the implementation's limit
      some (if inI32 p && inI32 q then both (encL (Model.range x y)) (encL (some (Spec.range p q)))
            else modelOnly (encL (Model.range x y)))
    | _, _ => some (both (encL (Model.range x y)) errJ)
  | "repeat", [w, c] =>
    match w, asInt c with
    | .arr xs, some n =>
      some (both (enc (Model.repeat_ w c)) (if n < 0 then errJ else encL (some (Spec.repeatL xs n.toNat))))
    | .str s, some n =>
      some (both (enc (Model.repeat_ w c))
        (if n < 0 then errJ else enc (some (.str (String.ofList (Spec.repeatL s.toList n.toNat))))))
    | _, _ => some (both (enc (Model.repeat_ w c)) errJ)
  | "slice", [c, i, e, st] =>
    match asIdx c, optInt? i, optInt? e, optInt? st with
    | some (xs, isStr), some i', some e', some st' =>
      let stepOk := match st' with | none => true | some k => k ≥ 1
      if !stepOk then some (specOnly errJ)
      else
        let r := sliceL xs i' e' ((st'.getD 1).toNat)
        if isStr then
          -- string branch of `IndexableVal::slice` (skip/take/step_by) against the Python slice
          some (both (enc ((strOf (sliceStrM xs i' e' ((st'.getD 1).toNat))).map V.str))
                     (enc ((strOf r).map V.str)))
        else some (specOnly (encL (some r)))
    | _, _, _, _ => some (specOnly errJ)
  | "makeArray", [n] =>
    match asInt n, f with
    | some k, some fname =>
      some (both (encStrict (Model.makeArray n (fn1 fname) (trivialOf fname)))
        (if k < 0 then errJ
         else encL (((List.range k.toNat).map (fun (i : Nat) => V.num i)).mapM (fn1 fname))))
    | _, _ => some (specOnly errJ)
  | _, _ => none

def handle (op : String) (j : Json) : Option Json :=
  match op with
  | "std.call" =>
    match (do
      let fn ← str? j "fn"
      let a ← arr? j "a"
      let vs ← a.toList.mapM toArg
      pure (fn, vs)) with
    | none => some (bad "std.call: parse")
    | some (fn, vs) =>
      match call fn vs (str? j "f") (str? j "g") with
      | some r => some r
      | none => some (bad s!"std.call: unknown fn/arity {fn}")
  | "std.lazy" =>
    match (do
      let fn ← str? j "fn"
      let a ← arr? j "a"
      pure (fn, a.toList)) with
    | none => some (bad "std.lazy: parse")
    | some (fn, a) =>
      match callLazy fn a (str? j "f") (str? j "g") with
      | some r => some r
      | none => some (bad s!"std.lazy: unknown fn/arity {fn}")
  | _ => none

end JrsVerif.Drv.C10
