import JrsVerif.Common.J
import JrsVerif.Model.StdArr

namespace JrsVerif.Drv.C10
open Lean JrsVerif.J JrsVerif.StdArr

partial def toV (j : Json) : Option V :=
  match j with
  | .null => some .null
  | .bool b => some (.bool b)
  | .num _ => (j.getInt?.toOption).map V.num
  | .str s => some (.str s)
  | .arr a => (a.toList.mapM toV).map V.arr
  | .obj _ =>
    match j.getObjVal? "a" with
    | .ok v => (toV v).map V.objA
    | _ => some .objE

partial def ofV : V → Json
  | .null => .null
  | .bool b => .bool b
  | .num n => toJson n
  | .str s => .str s
  | .arr xs => .arr (xs.map ofV).toArray
  | .objE => Json.mkObj []
  | .objA v => Json.mkObj [("a", ofV v)]

/-- result of a call: `none` = the call fails -/
abbrev R := Option Json

def okV (v : V) : Json := obj [("ok", ofV v)]
def enc (r : Option V) : Json := match r with | some v => okV v | none => obj [("err", toJson (1 : Nat))]
def encL (r : Option (List V)) : Json := enc (r.map V.arr)
def encB (r : Option Bool) : Json := enc (r.map V.bool)

def hex16 (n : UInt64) : String :=
  let s := (Nat.toDigits 16 n.toNat)
  String.ofList (List.replicate (16 - s.length) '0' ++ s)

/-- average as the implementation computes it: exact integer when it is one, else the IEEE bits of
    the (correctly rounded) quotient of two exactly representable integers -/
def avgJson (s : Int) (n : Nat) : Json :=
  if n ≠ 0 ∧ s % (n : Int) = 0 then okV (.num (s / (n : Int)))
  else obj [("ok", obj [("$f", .str (hex16 (Float.ofInt s / Float.ofNat n).toBits))])]

def asArr : V → Option (List V) | .arr xs => some xs | _ => none
def asInt : V → Option Int | .num n => some n | _ => none

/-- indexable argument: array, or string as its characters -/
def asIdx : V → Option (List V × Bool)
  | .arr xs => some (xs, false)
  | .str s => some (chars s, true)
  | _ => none

def strOf (cs : List V) : Option String :=
  cs.foldlM (fun acc c => match c with | .str s => some (acc ++ s) | _ => none) ""

/-- keys are "flat": numbers, strings, arrays of numbers, or never-comparable values — on such
    keys comparability is an equivalence, so "some pair is incomparable" is detected by every
    comparison sort and the reference error behaviour is algorithm independent -/
def flatKey : V → Bool
  | .arr xs => xs.all (fun x => match x with | .num _ => true | _ => false)
  | _ => true

def keysFlat (xs : List V) (f : Option String) : Bool :=
  xs.all (fun x => match keyFn f x with | some k => flatKey k | none => true)

def both (m s : Json) : Json := obj [("model", m), ("spec", s)]
def specOnly (s : Json) : Json := obj [("spec", s)]
def modelOnly (m : Json) : Json := obj [("model", m)]
def errJ : Json := obj [("err", toJson (1 : Nat))]

def optInt? (v : V) : Option (Option Int) :=
  match v with | .null => some none | .num n => some (some n) | _ => none

def call (fn : String) (a : List V) (f g : Option String) : Option Json :=
  match fn, a with
  | "sort", [v] =>
    match asArr v with
    | none => some (both errJ errJ)
    | some xs =>
      let m := encL (Model.sort xs f)
      some (if keysFlat xs f then both m (encL (Spec.sort xs f)) else modelOnly m)
  | "uniq", [v] =>
    match asArr v with
    | none => some (both errJ errJ)
    | some xs => some (both (encL (Model.uniq xs f)) (encL (Spec.uniq xs f)))
  | "set", [v] =>
    match asArr v with
    | none => some (both errJ errJ)
    | some xs =>
      let m := encL (Model.set xs f)
      some (if keysFlat xs f then both m (encL (Spec.set xs f)) else modelOnly m)
  | "setMember", [x, v] =>
    match asArr v with
    | none => some (both errJ errJ)
    | some xs =>
      let m := encB (Model.setMember x xs f)
      some (if Spec.isSet xs f && (Spec.setMember x xs f).isSome
            then both m (encB (Spec.setMember x xs f)) else modelOnly m)
  | "setUnion", [va, vb] | "setInter", [va, vb] | "setDiff", [va, vb] =>
    match asArr va, asArr vb with
    | some xa, some xb =>
      let (m, s) := match fn with
        | "setUnion" => (Model.setUnion xa xb f, Spec.setUnion xa xb f)
        | "setInter" => (Model.setInter xa xb f, Spec.setInter xa xb f)
        | _ => (Model.setDiff xa xb f, Spec.setDiff xa xb f)
      some (if Spec.isSet xa f && Spec.isSet xb f && s.isSome then both (encL m) (encL s)
            else modelOnly (encL m))
    | _, _ => some (both errJ errJ)
  | "member", [c, x] | "contains", [c, x] =>
    match c with
    | .arr xs => some (specOnly (encB (some (Spec.member xs x))))
    | .str s =>
      match x with
      | .str p => some (specOnly (encB (some (!p.isEmpty && Spec.isInfix p.toList s.toList))))
      | _ => some (specOnly errJ)
    | _ => some (specOnly errJ)
  | "find", [x, v] =>
    some (specOnly (encL ((asArr v).map (fun xs => (Spec.find x xs).map (fun (i : Nat) => V.num i)))))
  | "count", [v, x] =>
    some (specOnly (enc ((asArr v).map (fun xs => V.num (Spec.count xs x)))))
  | "removeAt", [v, i] =>
    match asArr v, asInt i with
    | some xs, some n => some (both (encL (some (removeAtM xs n))) (encL (some (removeAtSpec xs n))))
    | _, _ => some (both errJ errJ)
  | "remove", [v, e] =>
    match asArr v with
    | some xs => some (both (encL (some (removeM (fun y => eqV y e) xs)))
                            (encL (some (removeSpec (fun y => eqV y e) xs))))
    | none => some (both errJ errJ)
  | "flattenArrays", [v] =>
    match (asArr v).bind (fun xs => xs.mapM asArr) with
    | some xss => some (both (encL (some (flattenM xss))) (encL (some (flattenSpec xss))))
    | none => some (both errJ errJ)
  | "flattenDeepArray", [v] => some (specOnly (encL (some (Spec.flattenDeep v))))
  | "foldl", [c, init] =>
    match asIdx c, f with
    | some (xs, _), some fname => some (specOnly (enc (Spec.foldl (fn2 fname) init xs)))
    | _, _ => some (specOnly errJ)
  | "foldr", [c, init] =>
    match asIdx c, f with
    | some (xs, _), some fname => some (specOnly (enc (Spec.foldr (fn2 fname) init xs)))
    | _, _ => some (specOnly errJ)
  | "map", [c] =>
    match asIdx c, f with
    | some (xs, _), some fname => some (specOnly (encL (Spec.mapM' (fn1 fname) xs)))
    | _, _ => some (specOnly errJ)
  | "mapWithIndex", [c] =>
    match asIdx c, f with
    | some (xs, _), some fname => some (specOnly (encL (Spec.mapIdx (fn2 fname) 0 xs)))
    | _, _ => some (specOnly errJ)
  | "filter", [v] =>
    match asArr v, f with
    | some xs, some fname => some (specOnly (encL (Spec.filter (fn1 fname) xs)))
    | _, _ => some (specOnly errJ)
  | "filterMap", [v] =>
    match asArr v, f, g with
    | some xs, some ff, some gg =>
      some (specOnly (encL ((Spec.filter (fn1 ff) xs).bind (Spec.mapM' (fn1 gg)))))
    | _, _, _ => some (specOnly errJ)
  | "flatMap", [c] =>
    match c, f with
    | .arr xs, some fname => some (specOnly (encL (Spec.flatMapArr (fn1 fname) xs)))
    | .str s, some fname => some (specOnly (enc ((Spec.flatMapStr (fn1 fname) (chars s)).map V.str)))
    | _, _ => some (specOnly errJ)
  | "join", [sep, v] =>
    match sep, asArr v with
    | .str s, some xs =>
      match Spec.strItems xs with
      | some items => some (both (enc (some (.str (String.ofList (joinM s.toList items)))))
                                 (enc (some (.str (String.ofList (joinSpec s.toList items))))))
      | none => some (both errJ errJ)
    | .arr s, some xs =>
      match Spec.arrItems xs with
      | some items => some (both (encL (some (joinM s items))) (encL (some (joinSpec s items))))
      | none => some (both errJ errJ)
    | _, _ => some (both errJ errJ)
  | "lines", [v] =>
    match (asArr v).bind Spec.strItems with
    | some items =>
      -- native: join("\n", arr ++ [""]) ; documented: a newline after each (non-null) string
      let m := String.ofList (joinM ['\n'] (items ++ [some []]))
      let s := String.ofList ((items.filterMap id).foldr (fun p acc => p ++ '\n' :: acc) [])
      some (both (enc (some (.str m))) (enc (some (.str s))))
    | none => some (both errJ errJ)
  | "deepJoin", [v] => some (specOnly (enc ((Spec.deepJoin v).map V.str)))
  | "any", [v] => some (specOnly (encB ((asArr v).bind Spec.anyV)))
  | "all", [v] => some (specOnly (encB ((asArr v).bind Spec.allV)))
  | "sum", [v] =>
    some (specOnly (enc (((asArr v).bind Spec.nums).map (fun ns => V.num (ns.foldl (· + ·) 0)))))
  | "avg", [v] =>
    match (asArr v).bind Spec.nums with
    | some [] => some (specOnly errJ)
    | some ns => some (specOnly (avgJson (ns.foldl (· + ·) 0) ns.length))
    | none => some (specOnly errJ)
  | "avg", [v, onEmpty] =>
    match (asArr v).bind Spec.nums with
    | some [] => some (specOnly (okV onEmpty))
    | some ns => some (specOnly (avgJson (ns.foldl (· + ·) 0) ns.length))
    | none => some (specOnly errJ)
  | "minArray", v :: rest | "maxArray", v :: rest =>
    let want : Ordering := if fn == "minArray" then .lt else .gt
    match asArr v, rest with
    | some [], [onEmpty] => some (both (okV onEmpty) (okV onEmpty))
    | some xs, _ =>
      let m := enc (Model.top1 xs f want)
      some (if keysFlat xs f then both m (enc (Spec.top1 xs f want)) else modelOnly m)
    | none, _ => some (both errJ errJ)
  | "range", [x, y] =>
    match asInt x, asInt y with
    | some p, some q => some (specOnly (encL (some (Spec.range p q))))
    | _, _ => some (specOnly errJ)
  | "repeat", [w, c] =>
    match w, asInt c with
    | .arr xs, some n =>
      some (specOnly (if n < 0 then errJ else encL (some (Spec.repeatL xs n.toNat))))
    | .str s, some n =>
      some (specOnly (if n < 0 then errJ else enc (some (.str (String.ofList (Spec.repeatL s.toList n.toNat))))))
    | _, _ => some (specOnly errJ)
  | "slice", [c, i, e, st] =>
    match asIdx c, optInt? i, optInt? e, optInt? st with
    | some (xs, isStr), some i', some e', some st' =>
      let stepOk := match st' with | none => true | some k => k ≥ 1
      if !stepOk then some (specOnly errJ)
      else
        let r := sliceL xs i' e' ((st'.getD 1).toNat)
        some (specOnly (if isStr then enc ((strOf r).map V.str) else encL (some r)))
    | _, _, _, _ => some (specOnly errJ)
  | "makeArray", [n] =>
    match asInt n, f with
    | some k, some fname =>
      some (specOnly (if k < 0 then errJ
        else encL (((List.range k.toNat).map (fun (i : Nat) => V.num i)).mapM (fn1 fname))))
    | _, _ => some (specOnly errJ)
  | _, _ => none

def handle (op : String) (j : Json) : Option Json :=
  match op with
  | "std.call" =>
    match (do
      let fn ← str? j "fn"
      let a ← arr? j "a"
      let vs ← a.toList.mapM toV
      pure (fn, vs)) with
    | none => some (bad "std.call: parse")
    | some (fn, vs) =>
      match call fn vs (str? j "f") (str? j "g") with
      | some r => some r
      | none => some (bad s!"std.call: unknown fn/arity {fn}")
  | _ => none

end JrsVerif.Drv.C10
