import JrsVerif.Common.J
import JrsVerif.Model.Cli

namespace JrsVerif.Drv.C15
open Lean JrsVerif.J JrsVerif.Cli JrsVerif.Deps

def parseFlavour : String → Option Flavour
  | "str" => some .str | "str-file" => some .strFile | "code" => some .code
  | "code-file" => some .codeFile | _ => none

def parseVarOpts (a : Array Json) : Option (List VarOpt) :=
  a.toList.mapM (fun j => do
    pure { fl := ← parseFlavour (← str? j "f"), name := ← str? j "n", payload := ← str? j "p" })

def showKind : ArgKind → String
  | .string => "String" | .importStr => "ImportStr" | .inlineCode => "InlineCode" | .import => "Import"

def showSetting (n : String) : Option Setting → Json
  | none => .arr #[.str n, .str "unset", .str ""]
  | some (k, p) => .arr #[.str n, .str (showKind k), .str p]

def parseFmtName : String → Option FmtName
  | "string" => some .string | "json" => some .json | "yaml" => some .yaml | "toml" => some .toml
  | "xml-jsonml" => some .xmlJsonml | "ini" => some .ini | _ => none

def parseManifestOpts (j : Json) : Option ManifestOpts := do
  let f ← match j.getObjVal? "f" with
    | .ok .null => some none
    | .ok (.str s) => (parseFmtName s).map some
    | _ => none
  pure { format := f, string := ← bool? j "S", yamlStream := ← bool? j "y", linePadding := optNat j "pad" }

def showFmt : Fmt → String
  | .stringFmt => "string" | .toStringFmt => "tostring" | .json p => s!"json:{p}" | .yaml p => s!"yaml:{p}"
  | .toml p => s!"toml:{p}" | .xml => "xml" | .ini => "ini" | .yamlStream i => s!"stream({showFmt i})"

def fmtAnswer (o : ManifestOpts) : String :=
  if o.accepted then showFmt (manifestFormat o) else "reject"

def bytesOf (j : Json) : Bytes :=
  match j with
  | .arr a => nats a
  | _ => []

def parseFieldRes (a : Array Json) : Option (String × FieldRes) := do
  let n ← (a[0]?).bind (fun x => x.getStr?.toOption)
  let k ← (a[1]?).bind (fun x => x.getStr?.toOption)
  let t := ((a[2]?).bind (fun x => x.getStr?.toOption)).getD ""
  match k with
  | "evalErr" => some (n, .evalErr)
  | "manErr" => some (n, .manErr)
  | "ok" => some (n, .ok t)
  | _ => none

def parseOutcome (j : Json) : Option Outcome := do
  match ← str? j "k" with
  | "err" => some .err
  | "manErr" => some .manErr
  | "text" => some (.text (← str? j "t"))
  | "fields" =>
    let fs ← arr? j "fs"
    let l ← fs.toList.mapM (fun x => match x with | .arr a => parseFieldRes a | _ => none)
    some (.fields l)
  | _ => none

def parseMode (j : Json) : Option Mode := do
  match ← str? j "k" with
  | "stdout" => some .stdout
  | "file" => some (.file (← str? j "p"))
  | "multi" => some (.multi (← str? j "p"))
  | _ => none

def renderedJson (r : Rendered) : Json :=
  obj [("stdout", .str r.stdout), ("stderr", .bool r.stderr), ("exit", toJson r.exit),
       ("files", .arr (r.files.map (fun (p, c) => Json.arr #[.str p, .str c])).toArray)]

def sortNats (l : List Nat) : List Nat := l.mergeSort (fun a b => a ≤ b)

def parseGraph (a : Array Json) : Graph := fun n =>
  match a[n]? with
  | some (.arr es) =>
    some (es.toList.map (fun e =>
      match e with
      | .arr p =>
        { code := (p[0]?.bind (fun x => x.getBool?.toOption)).getD false,
          tgt := p[1]?.bind (fun x => x.getNat?.toOption) }
      | _ => { code := false, tgt := none }))
  | _ => none

def subset (a b : List Nat) : Bool := a.all (fun x => b.contains x)

def handle (op : String) (j : Json) : Option Json :=
  match op with
  | "cli.plumb" =>
    match (do
      let ext ← parseVarOpts (← arr? j "ext")
      let tla ← parseVarOpts (← arr? j "tla")
      let names := strs (← arr? j "names")
      let jpath := strs (← arr? j "jpath")
      let env := strs (← arr? j "env")
      let fmt ← parseManifestOpts (← val? j "fmt")
      let stack := (optNat j "stack").getD 512
      pure (ext, tla, names, jpath, env, fmt, stack)) with
    | none => some (bad "cli.plumb: parse")
    | some (ext, tla, names, jpath, env, fmt, stack) =>
      let rest : List (String × Json) :=
        [("paths", ofStrs (cliPaths jpath env).eraseDups),
         ("capi_paths", ofStrs (capiPaths jpath).eraseDups),
         ("fmt", .str (fmtAnswer fmt)), ("stack", toJson stack)]
      let m := obj ([("ext", .arr (names.map (fun n => showSetting n (lookup (plumbVars ext) n))).toArray),
                    ("tla", .arr (names.map (fun n => showSetting n (lookup (plumbVars tla) n))).toArray)] ++ rest)
      let s := obj ([("ext", .arr (names.map (fun n => showSetting n (specLookup ext n))).toArray),
                    ("tla", .arr (names.map (fun n => showSetting n (specLookup tla n))).toArray)] ++ rest)
      some (obj [("model", m), ("spec", s)])
  | "cli.render" =>
    match (do
      let mode ← parseMode (← val? j "mode")
      let fmt ← parseManifestOpts (← val? j "fmt")
      let out ← parseOutcome (← val? j "out")
      pure (mode, fmt, out)) with
    | none => some (bad "cli.render: parse")
    | some (mode, fmt, out) =>
      if !fmt.accepted then some (obj [("model", obj [("reject", .bool true)]), ("spec", obj [("reject", .bool true)])])
      else
        let r := renderedJson (render mode (manifestFormat fmt).trailingNewline out)
        some (obj [("model", r), ("spec", r)])
  | "capi.frame" =>
    match (do
      let mode ← str? j "mode"
      let out ← val? j "out"
      pure (mode, out)) with
    | none => some (bad "capi.frame: parse")
    | some (mode, out) =>
      if (bool? out "err").getD false then
        let r := obj [("err", toJson (1 : Nat))]
        some (obj [("model", r), ("spec", r)])
      else
        let raw : Option Bytes :=
          match mode with
          | "plain" => (val? out "text").map (fun t => cstring (bytesOf t))
          | "multi" => (arr? out "kvs").map (fun a =>
              let kvs := a.toList.map (fun kv => match kv with
                | .arr p => (bytesOf (p[0]?.getD .null), bytesOf (p[1]?.getD .null))
                | _ => ([], []))
              let raw := multiToRaw kvs
              raw.take (scanMulti (segs raw [])))
          | "stream" => (arr? out "vs").map (fun a =>
              let raw := streamToRaw (a.toList.map bytesOf)
              raw.take (scanStream (segs raw [])))
          | _ => none
        match raw with
        | none => some (bad "capi.frame: out")
        | some raw =>
          let r := obj [("err", toJson (0 : Nat)), ("raw", ofNats raw)]
          some (obj [("model", r), ("spec", r)])
  | "deps.run" =>
    match (do
      let g ← arr? j "g"
      let root ← nat? j "root"
      pure (g, root)) with
    | none => some (bad "deps.run: parse")
    | some (ga, root) =>
      let g := parseGraph ga
      let n := ga.size
      let loaded := (arr? j "loaded").map nats
      let loadedOk (deps : List Nat) : List (String × Json) :=
        match loaded with
        | none => []
        | some l => [("loaded_ok", .bool (subset l (root :: deps)))]
      let m := match collect g (n + 1) root with
        | .ok deps _ => obj ([("res", .str "ok"), ("deps", ofNats (sortNats deps))] ++ loadedOk deps)
        | .bad => obj [("res", .str "err")]
        | .fuel => obj [("res", .str "fuel")]
      let s := match specCollect g (n + 1) root with
        | some deps => obj ([("res", .str "ok"), ("deps", ofNats (sortNats deps))] ++ loadedOk deps)
        | none => obj [("res", .str "err")]
      some (obj [("model", m), ("spec", s)])
  | _ => none

end JrsVerif.Drv.C15
