import JrsVerif.Common.J
import JrsVerif.Model.Pratt
import JrsVerif.Model.Unescape

namespace JrsVerif.Drv.C06
open Lean JrsVerif.J JrsVerif.Generated JrsVerif.Pratt

def binName : BinOp → String
  | .Mul => "Mul" | .Div => "Div" | .Mod => "Mod" | .Add => "Add" | .Sub => "Sub" | .Lhs => "Lhs"
  | .Rhs => "Rhs" | .Lt => "Lt" | .Gt => "Gt" | .Lte => "Lte" | .Gte => "Gte" | .BitAnd => "BitAnd"
  | .BitOr => "BitOr" | .BitXor => "BitXor" | .Eq => "Eq" | .Neq => "Neq" | .And => "And"
  | .Or => "Or" | .In => "In"

def unName : UnOp → String
  | .Plus => "Plus" | .Minus => "Minus" | .BitNot => "BitNot" | .Not => "Not"

/-- `binary_op(p)` of the IR parser: token text -> operator -/
def binTok : String → Option BinOp
  | "||" => some .Or | "&&" => some .And | "|" => some .BitOr | "^" => some .BitXor
  | "&" => some .BitAnd | "==" => some .Eq | "!=" => some .Neq | "<" => some .Lt | ">" => some .Gt
  | "<=" => some .Lte | ">=" => some .Gte | "<<" => some .Lhs | ">>" => some .Rhs | "+" => some .Add
  | "-" => some .Sub | "*" => some .Mul | "/" => some .Div | "%" => some .Mod | "in" => some .In
  | _ => none

def isAtomText (s : String) : Bool :=
  !s.isEmpty && s.toList.all (fun c => c.isAlphanum || c == '_')

/-- tokens of the fragment; atoms are numbered by position in `texts` -/
def toToks (texts : List String) : Option (List Tok) :=
  let rec go (i : Nat) : List String → Option (List Tok)
    | [] => some []
    | s :: r => do
      let t ← (match s with
        | "(" => some Tok.lpar
        | ")" => some Tok.rpar
        | "!" => some Tok.bang
        | "~" => some Tok.tilde
        | _ => match binTok s with
          | some o => some (Tok.bin o)
          | none => if isAtomText s then some (Tok.atom i) else none)
      let rest ← go (i + 1) r
      pure (t :: rest)
  go 0 texts

partial def showAst (texts : Array String) : Ast → String
  | .atom n => texts.getD n "?"
  | .un u e => s!"({unName u} {showAst texts e})"
  | .bin o l r => s!"({binName o} {showAst texts l} {showAst texts r})"

def showRes (texts : Array String) : Option Ast → String
  | none => "reject"
  | some e => showAst texts e

def cps (a : Array Json) : List Nat := nats a

def showOut : Option (List Nat) → Json
  | none => .null
  | some l => ofNats l

def handle (op : String) (j : Json) : Option Json :=
  match op with
  | "c06.agree" =>
    match str? j "ir", str? j "peg", val? j "rowan" with
    | some ir, some peg, some rowan =>
      let acc := ir != "reject"
      let rowanOk := match rowan with | .bool b => b | _ => false
      let baseOk := match str? j "base" with | some b => b == ir | none => true
      let noPanic := !(ir.startsWith "panic") && !(peg.startsWith "panic") &&
        (acc == false || (match rowan with | .bool _ => true | _ => false))
      some (obj [("observed", .bool (ir == peg && rowanOk == acc && baseOk && noPanic))])
    | _, _, _ => some (bad "c06.agree: parse")
  | "c06.pratt" =>
    match arr? j "toks", str? j "via" with
    | some a, some via =>
      let texts := strs a
      match toToks texts with
      | none => some (bad "c06.pratt: token outside the fragment")
      | some ts =>
        let T := if via == "peg" then pegTable else irTable
        let ta := texts.toArray
        let m := showRes ta (parse T ts)
        let s := showRes ta (parse JrsVerif.Spec.table ts)
        match str? j "want" with
        | some w =>
          if w != s then some (bad s!"c06.pratt: reference parser gives {s}, generator wanted {w}")
          else if (bool? j "minimal").getD false &&
              !(match parse JrsVerif.Spec.table ts with
                | some e => decide (JrsVerif.Spec.print e = ts) | none => false) then
            some (bad s!"c06.pratt: Spec.print of the tree differs from the generator's minimal-parenthesis rendering")
          else
            some (obj [("model", obj [("ast", .str m)]), ("spec", obj [("ast", .str s)])])
        | none => some (obj [("model", obj [("ast", .str m)]), ("spec", obj [("ast", .str s)])])
    | _, _ => some (bad "c06.pratt: parse")
  | "c06.unescape" =>
    match arr? j "s" with
    | some a =>
      let s := cps a
      some (obj [("model", obj [("out", showOut (JrsVerif.Unescape.unescape s))]),
                 ("spec", obj [("out", showOut (JrsVerif.Spec.decode s))])])
    | none => some (bad "c06.unescape: parse")
  | _ => none

end JrsVerif.Drv.C06
