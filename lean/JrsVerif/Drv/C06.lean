import JrsVerif.Common.J
import JrsVerif.Model.Pratt
import JrsVerif.Model.Unescape
import JrsVerif.Model.PrattLit
import JrsVerif.Model.PrattTrivia
import JrsVerif.Model.PrattSuffix

namespace JrsVerif.Drv.C06
open Lean JrsVerif.J JrsVerif.Generated JrsVerif.Pratt

def binName : BinOp → String
  | .Mul => "Mul" | .Div => "Div" | .Mod => "Mod" | .Add => "Add" | .Sub => "Sub" | .Lhs => "Lhs"
  | .Rhs => "Rhs" | .Lt => "Lt" | .Gt => "Gt" | .Lte => "Lte" | .Gte => "Gte" | .BitAnd => "BitAnd"
  | .BitOr => "BitOr" | .BitXor => "BitXor" | .Eq => "Eq" | .Neq => "Neq" | .And => "And"
  | .Or => "Or" | .In => "In"

def unName : UnOp → String
  | .Plus => "Plus" | .Minus => "Minus" | .BitNot => "BitNot" | .Not => "Not"

/-- `binary_op(p)` of the IR parser: token text -> operator -/
def binTok : String → Option BinOp
  | "||" => some .Or | "&&" => some .And | "|" => some .BitOr | "^" => some .BitXor
  | "&" => some .BitAnd | "==" => some .Eq | "!=" => some .Neq | "<" => some .Lt | ">" => some .Gt
  | "<=" => some .Lte | ">=" => some .Gte | "<<" => some .Lhs | ">>" => some .Rhs | "+" => some .Add
  | "-" => some .Sub | "*" => some .Mul | "/" => some .Div | "%" => some .Mod | "in" => some .In
  | _ => none

def isAtomText (s : String) : Bool :=
  !s.isEmpty && s.toList.all (fun c => c.isAlphanum || c == '_')

/-- tokens of the fragment; atoms are numbered by position in `texts` -/
def toToks (texts : List String) : Option (List Tok) :=
  let rec go (i : Nat) : List String → Option (List Tok)
    | [] => some []
    | s :: r => do
      let t ← (match s with
        | "(" => some Tok.lpar
        | ")" => some Tok.rpar
        | "!" => some Tok.bang
        | "~" => some Tok.tilde
        | _ => match binTok s with
          | some o => some (Tok.bin o)
          | none => if isAtomText s then some (Tok.atom i) else none)
      let rest ← go (i + 1) r
      pure (t :: rest)
  go 0 texts

partial def showAst (texts : Array String) : Ast → String
  | .atom n => texts.getD n "?"
  | .un u e => s!"({unName u} {showAst texts e})"
  | .bin o l r => s!"({binName o} {showAst texts l} {showAst texts r})"

def showRes (texts : Array String) : Option Ast → String
  | none => "reject"
  | some e => showAst texts e

/-- a `(` directly after an atom or a `)` opens an argument list (`expr_suffix`), which the
    expression-fragment model of this op does not cover -/
def hasCallSuffix : List Tok → Bool
  | .atom _ :: .lpar :: _ => true
  | .rpar :: .lpar :: _ => true
  | _ :: r => hasCallSuffix r
  | [] => false

def cps (a : Array Json) : List Nat := nats a

def showOut : Option (List Nat) → Json
  | none => .null
  | some l => ofNats l

def kindName : JrsVerif.Lit.NumKind → String
  | .float => "FLOAT"
  | .junkPoint => "ERROR_FLOAT_JUNK_AFTER_POINT"
  | .junkExp => "ERROR_FLOAT_JUNK_AFTER_EXPONENT"
  | .junkExpSign => "ERROR_FLOAT_JUNK_AFTER_EXPONENT_SIGN"

def showLex : Option (JrsVerif.Lit.NumKind × Nat) → Json
  | none => .null
  | some (k, n) => obj [("kind", .str (kindName k)), ("len", toJson n)]

/-- the double a decoded literal denotes, as the decimal rendering of its bit pattern; "other" when
    there is no finite double (`numbers are finite`) or no number -/
def showNum : Option JrsVerif.Lit.F64Lit → Json
  | some (.dec false m e) =>
    match JrsVerif.Lit.decToBits m e with
    | some b => .str (toString b)
    | none => .str "other"
  | _ => .str "other"

def groupsOf (a : Array Json) : Option JrsVerif.Spec.Groups :=
  match (strs a).map (fun s => s.toList.map Char.toNat) with
  | f :: m => some ⟨f, m⟩
  | [] => none

/-- structured literal sent by the generator: {"int":[..], "frac":[..]|null, "exp":{"l":"e","s":"+"|null,"g":[..]}|null} -/
def numLitOf (j : Json) : Option JrsVerif.Spec.NumLit := do
  let i ← groupsOf (← arr? j "int")
  let f : Option JrsVerif.Spec.Groups := (arr? j "frac").bind groupsOf
  let e : Option (Nat × Option Nat × JrsVerif.Spec.Groups) :=
    match val? j "exp" with
    | some ej =>
      match str? ej "l", arr? ej "g" with
      | some l, some g =>
        match l.toList, groupsOf g with
        | [lc], some gg => some (lc.toNat, ((str? ej "s").bind (fun s => s.toList.head?)).map Char.toNat, gg)
        | _, _ => none
      | _, _ => none
    | none => none
  pure ⟨i, f, e⟩

def lexemesOf (a : Array Json) : List JrsVerif.Trivia.Lexeme :=
  a.toList.filterMap (fun x => match x with
    | .arr #[.str k, .str t] => some ⟨k, t⟩
    | _ => none)

def itemsOf (a : Array Json) : Option (List JrsVerif.Suffix.Item) :=
  a.toList.mapM (fun x => match x with
    | .arr #[.str "part", .str p] => some (JrsVerif.Suffix.Item.part p)
    | .arr #[.str "slice", .str p] => some (.slice p)
    | .arr #[.str "call", .str p] => some (.call p)
    | .arr #[.str "ext", .str p] => some (.ext p)
    | _ => none)

/-- the harness's span-erased s-expression of the tree -/
def showTree : JrsVerif.Suffix.Tree → String
  | .base s => s
  | .index e ps => "(index " ++ showTree e ++ String.join (ps.map (" " ++ ·)) ++ ")"
  | .slice e d => "(slice " ++ showTree e ++ " " ++ d ++ ")"
  | .apply e a => "(apply " ++ showTree e ++ " " ++ a ++ ")"
  | .ext e b => "(objext " ++ showTree e ++ " " ++ b ++ ")"

def handle (op : String) (j : Json) : Option Json :=
  match op with
  | "c06.suffix" =>
    match str? j "base", (arr? j "items").bind itemsOf with
    | some b, some items =>
      let m := showTree (JrsVerif.Suffix.exprSuffix (.base b) items)
      let s := showTree (JrsVerif.Spec.applyChain (.base b) items)
      some (obj [("model", obj [("ir", .str m), ("peg", .str s)]), ("spec", obj [("ir", .str s), ("peg", .str s)])])
    | _, _ => some (bad "c06.suffix: parse")
  | "c06.number" =>
    match arr? j "s" with
    | some a =>
      let s := cps a
      let lex := showLex (JrsVerif.Lit.lexNum s)
      let ir := showNum (JrsVerif.Lit.irWhole s)
      let peg := showNum (match JrsVerif.Lit.pegNumber s with | some (v, []) => some v | _ => none)
      match val? j "lit" with
      | some lj =>
        match numLitOf lj with
        | some n =>
          if n.render != s then some (bad "c06.number: rendering of the structured literal differs from the text")
          else
            let want := showNum (some (.dec false n.mantissa n.exponent))
            some (obj [("model", obj [("lex", lex), ("ir", ir), ("peg", peg)]),
                       ("spec", obj [("lex", showLex (some (.float, s.length))), ("ir", want), ("peg", want)])])
        | none => some (bad "c06.number: lit")
      | none =>
        some (obj [("model", obj [("lex", lex), ("ir", ir), ("peg", peg)]),
                   ("spec", obj [("lex", lex), ("ir", ir), ("peg", ir)])])
    | none => some (bad "c06.number: parse")
  | "c06.verbatim" =>
    match arr? j "s", nat? j "q" with
    | some a, some q =>
      let s := cps a
      let whole (r : Option (List Nat × List Nat)) : Option (List Nat) :=
        match r with | some (c, []) => some c | _ => none
      let ir := showOut (whole (JrsVerif.Lit.irVerbatim q s))
      let peg := showOut (whole (JrsVerif.Lit.pegVerbatim q s))
      match arr? j "content" with
      | some c =>
        if JrsVerif.Spec.verbRender q (cps c) != s then some (bad "c06.verbatim: rendering of the content differs from the text")
        else some (obj [("model", obj [("ir", ir), ("peg", peg)]), ("spec", obj [("ir", ofNats (cps c)), ("peg", ofNats (cps c))])])
      | none => some (obj [("model", obj [("ir", ir), ("peg", peg)]), ("spec", obj [("ir", ir), ("peg", ir)])])
    | _, _ => some (bad "c06.verbatim: parse")
  | "c06.strip" =>
    match arr? j "lexemes", arr? j "base" with
    | some a, some b =>
      let same := decide (JrsVerif.Trivia.strip (lexemesOf a) = JrsVerif.Trivia.strip (lexemesOf b))
      some (obj [("model", obj [("same_tree", .bool same)]), ("spec", obj [("same_tree", .bool true)])])
    | _, _ => some (bad "c06.strip: parse")
  | "c06.agree" =>
    match str? j "ir", str? j "peg", val? j "rowan" with
    | some ir, some peg, some rowan =>
      let acc := ir != "reject"
      let rowanOk := match rowan with | .bool b => b | _ => false
      let baseOk := match str? j "base" with | some b => b == ir | none => true
      let noPanic := !(ir.startsWith "panic") && !(peg.startsWith "panic") &&
        (acc == false || (match rowan with | .bool _ => true | _ => false))
      some (obj [("observed", .bool (ir == peg && rowanOk == acc && baseOk && noPanic))])
    | _, _, _ => some (bad "c06.agree: parse")
  | "c06.pratt" =>
    match arr? j "toks", str? j "via" with
    | some a, some via =>
      let texts := strs a
      match toToks texts with
      | none => some (bad "c06.pratt: token outside the fragment")
      | some ts =>
        if hasCallSuffix ts then
          some (obj [("skip", .bool true), ("_why", .str "c06.pratt: `(` directly after an operand is a call suffix, outside the atoms/parentheses/prefix/binary fragment of this op (call and other suffixes are compared between the real parsers by c06.agree)")])
        else
        let T := if via == "peg" then pegTable else irTable
        let ta := texts.toArray
        let m := showRes ta (parse T ts)
        let s := showRes ta (parse JrsVerif.Spec.table ts)
        match str? j "want" with
        | some w =>
          if w != s then some (bad s!"c06.pratt: reference parser gives {s}, generator wanted {w}")
          else if (bool? j "minimal").getD false &&
              !(match parse JrsVerif.Spec.table ts with
                | some e => decide (JrsVerif.Spec.print e = ts) | none => false) then
            some (bad s!"c06.pratt: Spec.print of the tree differs from the generator's minimal-parenthesis rendering")
          else
            some (obj [("model", obj [("ast", .str m)]), ("spec", obj [("ast", .str s)])])
        | none => some (obj [("model", obj [("ast", .str m)]), ("spec", obj [("ast", .str s)])])
    | _, _ => some (bad "c06.pratt: parse")
  | "c06.unescape" =>
    match arr? j "s" with
    | some a =>
      let s := cps a
      some (obj [("model", obj [("out", showOut (JrsVerif.Unescape.unescape s))]),
                 ("spec", obj [("out", showOut (JrsVerif.Spec.decode s))])])
    | none => some (bad "c06.unescape: parse")
  | _ => none

end JrsVerif.Drv.C06
