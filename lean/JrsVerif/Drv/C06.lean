import JrsVerif.Common.J

namespace JrsVerif.Drv.C06
open Lean JrsVerif.J

def handle (_op : String) (_j : Json) : Option Json := none

end JrsVerif.Drv.C06
