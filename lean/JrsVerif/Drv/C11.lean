import JrsVerif.Common.J
import JrsVerif.Model.Str
import JrsVerif.Model.StrBytes
import JrsVerif.Model.JsonR

namespace JrsVerif.Drv.C11
open Lean JrsVerif.J JrsVerif.Str

/-- argument / result values of the string builtins -/
inductive V where
  | str (s : List Nat)
  | num (n : Int)
  | arr (xs : List V)
  | bool (b : Bool)
  | null
  deriving Inhabited

/-- result: value, error, or "not decided by this side" -/
inductive R where
  | ok (v : V)
  | err
  | undef (why : String)

partial def parseV (j : Json) : Option V :=
  match j.getObjVal? "s" with
  | .ok (.arr a) => some (.str (nats a))
  | _ =>
    match j.getObjVal? "n" with
    | .ok v => (v.getInt?.toOption).map V.num
    | _ =>
      match j.getObjVal? "arr" with
      | .ok (.arr a) => (a.toList.mapM parseV).map V.arr
      | _ =>
        match j.getObjVal? "bool" with
        | .ok (.bool b) => some (.bool b)
        | _ => some .null

partial def showV : V → Json
  | .str s => obj [("s", ofNats s)]
  | .num n => obj [("n", .str (toString n))]
  | .arr xs => obj [("arr", .arr (xs.map showV).toArray)]
  | .bool b => obj [("bool", .bool b)]
  | .null => .str "null"

def showR : R → Option Json
  | .ok v => some (obj [("ok", showV v)])
  | .err => some (obj [("err", toJson (1 : Nat))])
  | .undef _ => none

def strs (l : List (List Nat)) : V := .arr (l.map V.str)
def natsV (l : List Nat) : V := .arr (l.map (fun (n : Nat) => V.num (Int.ofNat n)))
def ofOpt (o : Option V) : R := match o with | some v => .ok v | none => .err

/-- `usize` argument: integer in [0, 2^53-1] -/
def usize? (n : Int) : Option Nat := if 0 ≤ n ∧ n ≤ 9007199254740991 then some n.toNat else none

/-- `Either![usize, M1]` -/
def limit? (n : Int) : Option (Option Nat) :=
  if n == -1 then some none else (usize? n).map some

/-- `IBytes` argument: array of integers 0..255 -/
def bytes? (xs : List V) : Option (List Nat) :=
  xs.mapM (fun v => match v with
    | .num n => if 0 ≤ n ∧ n ≤ 255 then some n.toNat else none
    | _ => none)

/-- `new_trim_pattern`: a string's chars, or the single-character strings of an array -/
def charSet? (v : V) : Option (List Nat) :=
  match v with
  | .str cs => some cs
  | .arr xs => some (xs.filterMap (fun x => match x with | .str [c] => some c | _ => none))
  | _ => none

def specCall (fn : String) (a : List V) : R :=
  match fn, a with
  | "length", [.str s] => .ok (.num s.length)
  | "substr", [.str s, .num f, .num l] =>
    match usize? f, usize? l with
    | some f, some l => .ok (.str (Spec.substr s f l))
    | _, _ => .err
  | "findSubstr", [.str p, .str s] => .ok (natsV (Spec.findSubstr p s))
  | "startsWith", [.str x, .str y] => .ok (.bool (Spec.startsWith x y))
  | "endsWith", [.str x, .str y] => .ok (.bool (Spec.endsWith x y))
  | "split", [.str s, .str c] =>
    if c.isEmpty then .undef "split: empty separator is outside the documented domain"
    else .ok (strs (Spec.splitLimit s c none))
  | "splitLimit", [.str s, .str c, .num n] =>
    match limit? n with
    | none => .err
    | some lim =>
      if c.isEmpty then .undef "split: empty separator is outside the documented domain"
      else .ok (strs (Spec.splitLimit s c lim))
  | "splitLimitR", [.str s, .str c, .num n] =>
    match limit? n with
    | none => .err
    | some lim =>
      if c.isEmpty then .undef "split: empty separator is outside the documented domain"
      else .ok (strs (Spec.splitLimitR s c lim))
  | "strReplace", [.str s, .str f, .str t] =>
    if f.isEmpty then .err else .ok (.str (Spec.strReplace s f t))
  | "stripChars", [.str s, cs] => ofOpt ((charSet? cs).map (fun p => .str (Spec.strip s p)))
  | "lstripChars", [.str s, cs] => ofOpt ((charSet? cs).map (fun p => .str (Spec.lstrip s p)))
  | "rstripChars", [.str s, cs] => ofOpt ((charSet? cs).map (fun p => .str (Spec.rstrip s p)))
  | "trim", [.str s] => .ok (.str (Spec.strip s Spec.trimSet))
  | "asciiUpper", [.str s] => .ok (.str (Spec.asciiUpper s))
  | "asciiLower", [.str s] => .ok (.str (Spec.asciiLower s))
  | "equalsIgnoreCase", [.str x, .str y] => .ok (.bool (Spec.equalsIgnoreCase x y))
  | "stringChars", [.str s] => .ok (strs (Spec.stringChars s))
  | "isEmpty", [.str s] => .ok (.bool s.isEmpty)
  | "codepoint", [.str s] => ofOpt ((Model.codepoint s).map (fun c => .num c))
  | "char", [.num n] => ofOpt ((Model.char n).map V.str)
  | "escapeStringBash", [.str s] => .ok (.str (Spec.escapeStringBash s))
  | "escapeStringDollars", [.str s] => .ok (.str (Spec.escapeStringDollars s))
  | "escapeStringJson", [.str s] => .ok (.str (Spec.escapeStringJson s))
  | "escapeStringPython", [.str s] => .ok (.str (Spec.escapeStringJson s))
  | "escapeStringXML", [.str s] => .ok (.str (Spec.escapeStringXml s))
  | "parseInt", [.str s] =>
    match Spec.parseInt s with
    | none => .err
    | some v => if v.natAbs < 2 ^ 53 then .ok (.num v) else .undef "beyond 2^53: rounding is the model's business"
  | "parseOctal", [.str s] =>
    match Spec.parseNat 8 s with
    | none => .err
    | some v => if v < 2 ^ 53 then .ok (.num v) else .undef "beyond 2^53"
  | "parseHex", [.str s] =>
    match Spec.parseNat 16 s with
    | none => .err
    | some v => if v < 2 ^ 53 then .ok (.num v) else .undef "beyond 2^53"
  | "encodeUTF8", [.str s] => .ok (natsV (enc s))
  | "decodeUTF8", [.arr xs, .bool lossy] =>
    match bytes? xs with
    | none => .err
    | some bs =>
      match dec bs with
      | some s => .ok (.str s)
      | none => if lossy then .ok (.str (decLossy bs)) else .err
  | "base64", [.str s] => .ok (.str (Spec.b64Enc (enc s)))
  | "base64", [.arr xs] => ofOpt ((bytes? xs).map (fun bs => .str (Spec.b64Enc bs)))
  | "base64DecodeBytes", [.str s] => ofOpt ((Spec.b64Dec s).map natsV)
  | "base64Decode", [.str s] => ofOpt (((Spec.b64Dec s).bind dec).map V.str)
  | _, _ => .err

/-- the byte slices a `str` method returned, read back as strings -/
def decAll (l : List (List Nat)) : Option (List (List Nat)) := l.mapM dec

def bytesStr (o : Option (List Nat)) : R := ofOpt ((o.bind dec).map V.str)

/-- functions with a separate code-shaped model; everything else has one definition only -/
def modelCall (fn : String) (a : List V) : R :=
  match fn, a with
  | "length", [.str s] => .ok (.num (Model.lengthBytes s))
  | "isEmpty", [.str s] => .ok (.bool (Model.isEmptyBytes s))
  | "endsWith", [.str x, .str y] => .ok (.bool (Model.endsWith x y))
  | "split", [.str s, .str c] =>
    if c.isEmpty then .undef "split: empty separator"
    else ofOpt ((decAll (Model.splitLimitBytes s c none)).map strs)
  | "splitLimit", [.str s, .str c, .num n] =>
    match limit? n with
    | none => .err
    | some lim =>
      if c.isEmpty then .undef "split: empty separator"
      else ofOpt ((decAll (Model.splitLimitBytes s c lim)).map strs)
  | "splitLimitR", [.str s, .str c, .num n] =>
    match limit? n with
    | none => .err
    | some lim =>
      if c.isEmpty then .undef "split: empty separator"
      else ofOpt ((decAll (Model.splitLimitRBytes s c lim)).map strs)
  | "strReplace", [.str s, .str f, .str t] => bytesStr (Model.strReplaceBytes s f t)
  | "trim", [.str s] => .ok (.str (Model.trim s))
  | "stringChars", [.str s] => ofOpt ((Model.stringChars s).map strs)
  | "escapeStringJson", [.str s] => bytesStr (some (Model.escapeJsonBytes s))
  | "escapeStringPython", [.str s] => bytesStr (some (Model.escapeJsonBytes s))
  | "escapeStringXML", [.str s] => bytesStr (some (Model.escapeXmlBytes s))
  | "escapeStringBash", [.str s] => bytesStr (some (Model.escapeBashBytes s))
  | "escapeStringDollars", [.str s] => bytesStr (some (Model.escapeDollarsBytes s))
  | "substr", [.str s, .num f, .num l] =>
    match usize? f, usize? l with
    | some f, some l => .ok (.str (Model.substr s f l))
    | _, _ => .err
  | "findSubstr", [.str p, .str s] => .ok (natsV (Model.findSubstr p s))
  | "startsWith", [.str x, .str y] => .ok (.bool (Model.startsWith x y))
  | "stripChars", [.str s, cs] => ofOpt ((charSet? cs).map (fun p => .str (Model.strip s p)))
  | "lstripChars", [.str s, cs] => ofOpt ((charSet? cs).map (fun p => .str (Model.lstrip s p)))
  | "rstripChars", [.str s, cs] => ofOpt ((charSet? cs).map (fun p => .str (Model.rstrip s p)))
  | "asciiUpper", [.str s] => ofOpt ((dec (Model.asciiUpperBytes s)).map V.str)
  | "asciiLower", [.str s] => ofOpt ((dec (Model.asciiLowerBytes s)).map V.str)
  | "equalsIgnoreCase", [.str x, .str y] => .ok (.bool (Model.equalsIgnoreCase x y))
  | "parseInt", [.str s] => ofOpt ((Model.parseIntX s).map V.num)
  | "parseOctal", [.str s] => ofOpt ((Model.parseNatX 8 s).map (fun v => V.num v))
  | "parseHex", [.str s] => ofOpt ((Model.parseNatX 16 s).map (fun v => V.num v))
  | _, _ => .undef "no separate model"

def handle (op : String) (j : Json) : Option Json :=
  match op with
  | "str.call" =>
    match (do let fn ← str? j "fn"; let a ← arr? j "a"; let vs ← a.toList.mapM parseV; pure (fn, vs)) with
    | none => some (bad "str.call: parse")
    | some (fn, vs) =>
      let s := specCall fn vs
      let m := modelCall fn vs
      match showR s, showR m with
      | none, none =>
        let why := match s with | .undef w => w | _ => "undecided"
        some (obj [("skip", .bool true), ("_why", .str why)])
      | some sj, none => some (obj [("spec", sj)])
      | none, some mj => some (obj [("model", mj)])
      | some sj, some mj => some (obj [("spec", sj), ("model", mj)])
  | "dbg.trunc" =>
    match (do let v ← val? j "v"; parseV v) with
    | some (.str s) =>
      let body := [91, 10, 32, 32, 32] ++ Spec.escapeStringJson (Model.debugTrunc s) ++ [10, 93]
      -- one definition only: served as spec too, so that a panic counts against the implementation
      some (obj [("spec", obj [("ok", showV (.str body))]), ("model", obj [("ok", showV (.str body))])])
    | _ => some (bad "dbg.trunc: parse")
  | "str.json" =>
    -- std.parseJson accept/reject against the independent RFC 8259 reader of C05 (Model/JsonR.lean)
    match arr? j "b" with
    | some a =>
      let bytes : List UInt8 := (nats a).map UInt8.ofNat
      some (obj [("spec", obj [("accept", .bool (JrsVerif.Json.read bytes).isSome)])])
    | none => some (bad "str.json: parse")
  | "str.ext" =>
    some (obj [("skip", .bool true),
               ("_why", .str "digests / parseJson / parseYaml: compared with python hashlib / json / PyYAML by checks/props/C11.py (observation)")])
  | _ => none

end JrsVerif.Drv.C11
