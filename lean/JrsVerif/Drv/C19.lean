import JrsVerif.Common.J
import JrsVerif.Model.Fmt
import JrsVerif.Model.FmtWf
import JrsVerif.Model.FmtWfS

namespace JrsVerif.Drv.C19
open Lean JrsVerif.J JrsVerif.Fmt

/-- `[label, kid, ...]` = node, string = atom (the encoding of `c19.rs: tree`) -/
partial def parseTree (j : Json) : Option Tree :=
  match j with
  | .str s => some (.atom s)
  | .arr a =>
    match a.toList with
    | .str l :: ks => do
      let ks ← ks.mapM parseTree
      some (.node l ks)
    | _ => none
  | _ => none

def parseToks (a : Array Json) : Option (List Tok) :=
  a.toList.mapM fun t =>
    match t with
    | .arr #[.str k, .str s] => some ⟨k, s⟩
    | _ => none

def jBool (b : Bool) : Json := .bool b

/-- `fmt.validate`: the per-case verdict `Fmt.accept` on what the harness observed -/
def handle (op : String) (j : Json) : Option Json :=
  match op with
  | "fmt.validate" =>
    match str? j "outcome" with
    | some "panic" => some (obj [("observed", jBool false), ("_fail", ofStrs ["panic"])])
    | some "declined" => some (obj [("observed", jBool true), ("_declined", jBool true)])
    | some "formatted" =>
      match (do
        let i ← parseTree (← val? j "in_ast")
        let it ← parseToks (← arr? j "in_toks")
        let ot ← parseToks (← arr? j "out_toks")
        pure (i, it, ot)) with
      | none => some (bad "fmt.validate: parse")
      | some (i, it, ot) =>
        let o : Option Tree := match val? j "out_ast" with
          | some .null | none => none
          | some t => parseTree t
        let evalSame := match val? j "eval_in", val? j "eval_out" with
          | some a, some b => a == b
          | _, _ => false
        let binSame := str? j "bin" != some "differ"
        let c : Case := { declined := false, panicked := false, inAst := i, outAst := o,
                          inToks := it, outToks := ot, evalSame := evalSame, binSame := binSame }
        let wfOk := wf i && (match o with | some t => wf t | none => true)
        -- the table-driven grammar (about which `norm_preserves_wellformed` is proved) must agree
        -- with the pattern-matching one on every tree, and hold for the normal forms as well
        let wfTab := wfProg i && (match o with | some t => wfProg t | none => true)
        let wfNorm := wfProg (norm i) && (match o with | some t => wfProg (norm t) | none => true)
        if wfOk != wfTab then some (bad "fmt.validate: Fmt.wf and Fmt.wfS disagree on a serialised tree (grammar table out of step)") else
        if wfOk && !wfNorm then some (bad "fmt.validate: normal form outside the shape grammar (contradicts norm_preserves_wellformed: driver/model out of step)") else
        if !wfOk then some (bad "fmt.validate: serialised tree outside the shape grammar (walker/model encoding mismatch)") else
        let fails :=
          (if o.isNone then ["reparse"] else if !c.astOk then ["ast"] else []) ++
          (if !c.commentsOk then ["comments"] else []) ++
          (if !evalSame then ["eval"] else []) ++ (if !binSame then ["bin"] else [])
        let sub := isSubseq (comments ot) (comments it)
        some (obj [("observed", jBool (accept c)), ("_fail", ofStrs fails),
                   ("_out_comments_subseq", jBool sub),
                   ("_n_comments", toJson (comments it).length),
                   ("_n_out_comments", toJson (comments ot).length)])
    | _ => some (bad "fmt.validate: outcome")
  | _ => none

end JrsVerif.Drv.C19
