import JrsVerif.Common.J
import JrsVerif.Model.FmtDiag

namespace JrsVerif.Drv.C20
open Lean JrsVerif.J

def resName : JrsVerif.FmtDiag.Res → String
  | .formatted => "ok"
  | .diag => "diag"
  | .panic => "panic"

def pairs (a : Array Json) : Option (List (Nat × Nat)) :=
  a.toList.mapM fun x =>
    match x with
    | .arr #[s, e] => do pure ((← s.getNat?.toOption), (← e.getNat?.toOption))
    | _ => none

/-- table of observed `format(..).trim()` results: text ↦ some trimmed | none (parse error);
    the outer Option is "not in the table" -/
abbrev Table := List (String × Option String)

def parseTable (a : Array Json) : Option Table :=
  a.toList.mapM fun x =>
    match x with
    | .arr #[.str k, .str v] => some (k, some v)
    | .arr #[.str k, .null] => some (k, none)
    | _ => none

/-- lookup with a "miss" flag threaded through a state-free trick: a missing entry answers a
    sentinel parse error and is detected by `covered` beforehand -/
def lookup (t : Table) (x : List Char) : Option (List Char) :=
  match t.find? (fun kv => kv.1.toList == x) with
  | some (_, some v) => some v.toList
  | _ => none

/-- every text the modelled loop asks for is in the table (replays the loop) -/
def covered (t : Table) (limit : Nat) : Nat → List Char → Bool
  | 0, _ => true
  | fuel + 1, x =>
    match t.find? (fun kv => kv.1.toList == x) with
    | none => false
    | some (_, none) => true
    | some (_, some v) => if v.toList == x || limit == 0 then true else covered t limit fuel v.toList

def handle (op : String) (j : Json) : Option Json :=
  match op with
  | "fmt.diag" =>
    match nat? j "len" with
    | none => some (bad "fmt.diag: len")
    | some len =>
      match arr? j "errs" with
      | none =>
        -- the parser itself panicked: outside the model; the reference meaning still applies
        some (obj [("spec", obj [("res", .str "diag")])])
      | some a =>
        match pairs a with
        | none => some (bad "fmt.diag: errs")
        | some errs =>
          some (obj [("model", obj [("res", .str (resName (JrsVerif.FmtDiag.format len errs)))]),
                     ("spec", obj [("res", .str (resName (JrsVerif.FmtDiag.formatSpec errs)))])])
  | "fmt.deep" => some (obj [("spec", obj [("res", .str "ok")])])
  | "fmt.idem" =>
    match str? j "once" with
    | none => some (bad "fmt.idem: once")
    | some once => some (obj [("spec", obj [("res", .str "ok"), ("twice", .str once)])])
  | "fmt.main" =>
    match (do
      let input ← str? j "input"
      let limit ← nat? j "limit"
      let test ← bool? j "test"
      let indent ← nat? j "indent"
      let hard ← bool? j "hard_tabs"
      let tabs ← val? j "tables"
      pure (input, limit, test, indent, hard, tabs)) with
    | none => some (bad "fmt.main: fields")
    | some (input, limit, test, indent, hard, tabs) =>
      let eff := JrsVerif.FmtMain.effIndent indent hard
      match arr? tabs (toString eff) with
      | none => some (obj [("skip", .bool true), ("_why", .str s!"no table for effective indent {eff}")])
      | some a =>
        match parseTable a with
        | none => some (bad "fmt.main: table")
        | some t =>
          if !covered t limit (limit + 2) input.toList then
            some (obj [("skip", .bool true), ("_why", .str "format table does not cover the modelled loop")])
          else
            let r := JrsVerif.FmtMain.main (lookup t) limit test input.toList
            let m := obj [("code", toJson r.code), ("stdout", .str (String.ofList r.stdout))]
            match val? j "expect" with
            | some e => some (obj [("model", m), ("spec", e)])
            | none => some (obj [("model", m)])
  | _ => none

end JrsVerif.Drv.C20
