import JrsVerif.Common.J
import JrsVerif.Model.FmtDiag
import JrsVerif.Model.FmtDiagSink

namespace JrsVerif.Drv.C20
open Lean JrsVerif.J

def resName : JrsVerif.FmtDiag.Res → String
  | .formatted => "ok"
  | .diag => "diag"
  | .panic => "panic"

def pairs (a : Array Json) : Option (List (Nat × Nat)) :=
  a.toList.mapM fun x =>
    match x with
    | .arr #[s, e] => do pure ((← s.getNat?.toOption), (← e.getNat?.toOption))
    | _ => none

/-- table of observed `format(..).trim()` results: text ↦ some trimmed | none (parse error);
    the outer Option is "not in the table" -/
abbrev Table := List (String × Option String)

def parseTable (a : Array Json) : Option Table :=
  a.toList.mapM fun x =>
    match x with
    | .arr #[.str k, .str v] => some (k, some v)
    | .arr #[.str k, .null] => some (k, none)
    | _ => none

/-- lookup with a "miss" flag threaded through a state-free trick: a missing entry answers a
    sentinel parse error and is detected by `covered` beforehand -/
def lookup (t : Table) (x : List Char) : Option (List Char) :=
  match t.find? (fun kv => kv.1.toList == x) with
  | some (_, some v) => some v.toList
  | _ => none

/-- every text the modelled loop asks for is in the table (replays the loop) -/
def covered (t : Table) (limit : Nat) : Nat → List Char → Bool
  | 0, _ => true
  | fuel + 1, x =>
    match t.find? (fun kv => kv.1.toList == x) with
    | none => false
    | some (_, none) => true
    | some (_, some v) => if v.toList == x || limit == 0 then true else covered t limit fuel v.toList


open JrsVerif.FmtSink in
def event? (x : Json) : Option Event :=
  match x with
  | .arr a =>
    match (a.toList.mapM fun v => v.getNat?.toOption) with
    | some [0] => some .pending
    | some [1, k, fp] => some (.start k fp)
    | some [2, k] => some (.token k)
    | some [3, w, e] => some (.finish w (e != 0))
    | some [4] => some .noop
    | _ => none
  | _ => none

open JrsVerif.FmtSink in
def lexeme? (x : Json) : Option Lexeme :=
  match x with
  | .arr a =>
    match (a.toList.mapM fun v => v.getNat?.toOption) with
    | some [k, lo, hi] => some ⟨k, lo, hi⟩
    | _ => none
  | _ => none

open JrsVerif.FmtSink in
def opJson (lex : List Lexeme) : Op → Json
  | .opn k => .arr #[toJson (1 : Nat), toJson k]
  | .tok k i =>
    match lex[i]? with
    | some l => .arr #[toJson (2 : Nat), toJson k, toJson l.lo, toJson l.hi]
    | none => .arr #[toJson (2 : Nat), toJson k]
  | .cls => .arr #[toJson (3 : Nat)]

def kt? (x : Json) : Option (Nat × String) :=
  match x with
  | .arr #[k, .str t] => do pure ((← k.getNat?.toOption), t)
  | _ => none

open JrsVerif.FmtSink in
/-- `fmt.sink`: the model of `Sink::finish` on the REAL event list and lexemes of one parse -/
def sinkCase (j : Json) : Json :=
  match arr? j "ev", arr? j "lx" with
  | some ev, some lx =>
    match ev.toList.mapM event?, lx.toList.mapM lexeme? with
    | some evs, some lex =>
      let wf := wfb parseTriv evs lex
      let spec := obj [("res", .str "ok"), ("wf", .bool true), ("yield", .bool true), ("ops", .str "*"), ("errs", .str "*")]
      match finish sinkTriv evs lex with
      | .error p => obj [("model", obj [("res", .str "panic"), ("_site", .str (reprStr p)), ("wf", .bool wf)]), ("spec", spec)]
      | .ok r =>
        let flat := r.tree.flat
        let toks := flat.filterMap fun o => match o with | .tok k i => some (k, i) | _ => none
        let yields := toks == (lex.zipIdx.map fun (l, i) => (l.kind, i))
        obj [("model", obj [("res", .str "ok"), ("wf", .bool wf), ("yield", .bool yields),
                            ("ops", .arr (flat.map (opJson lex)).toArray),
                            ("errs", .arr (r.errs.map fun (a, b) => Json.arr #[toJson a, toJson b]).toArray)]),
             ("spec", spec)]
    | _, _ => bad "fmt.sink: ev/lx entries"
  | _, _ =>
    -- the parser panicked before the sink ran: no event list; the reference meaning still applies
    obj [("spec", obj [("res", .str "ok"), ("wf", .bool true), ("yield", .bool true), ("ops", .str "*"), ("errs", .str "*")])]

def handle (op : String) (j : Json) : Option Json :=
  match op with
  | "fmt.diag" =>
    match nat? j "len" with
    | none => some (bad "fmt.diag: len")
    | some len =>
      match arr? j "errs" with
      | none =>
        -- the parser itself panicked: outside the model; the reference meaning still applies
        some (obj [("spec", obj [("res", .str "diag")])])
      | some a =>
        match pairs a with
        | none => some (bad "fmt.diag: errs")
        | some errs =>
          some (obj [("model", obj [("res", .str (resName (JrsVerif.FmtDiag.format len errs)))]),
                     ("spec", obj [("res", .str (resName (JrsVerif.FmtDiag.formatSpec errs)))])])
  | "fmt.deep" => some (obj [("spec", obj [("res", .str "ok")])])
  | "fmt.idem" =>
    match str? j "once" with
    | none => some (bad "fmt.idem: once")
    | some once =>
      -- `_same_code_tokens`: Lean's verdict (FmtSink.sameTokB, proved ↔ SameTok) on the REAL lexer's
      -- lexemes of both passes; read by the layout classifiers.  Absent when the harness sent none.
      let st : List (String × Json) :=
        match arr? j "once_lx", arr? j "twice_lx" with
        | some a, some b =>
          match a.toList.mapM kt?, b.toList.mapM kt? with
          | some la, some lb =>
            [("_same_code_tokens", .bool (JrsVerif.FmtSink.sameTokB JrsVerif.FmtSink.sinkTriv la lb)),
             ("_same_code_tokens_mod_trailing_comma", .bool (JrsVerif.FmtSink.sameTokCB JrsVerif.FmtSink.sinkTriv
                JrsVerif.Generated.FmtTrivia.commaKind JrsVerif.Generated.FmtTrivia.closerKinds la lb))]
          | _, _ => []
        | _, _ => []
      some (obj ([("spec", obj [("res", .str "ok"), ("twice", .str once)])] ++ st))
  | "fmt.sink" => some (sinkCase j)
  | "fmt.main" =>
    match (do
      let input ← str? j "input"
      let limit ← nat? j "limit"
      let test ← bool? j "test"
      let indent ← nat? j "indent"
      let hard ← bool? j "hard_tabs"
      let tabs ← val? j "tables"
      pure (input, limit, test, indent, hard, tabs)) with
    | none => some (bad "fmt.main: fields")
    | some (input, limit, test, indent, hard, tabs) =>
      let eff := JrsVerif.FmtMain.effIndent indent hard
      match arr? tabs (toString eff) with
      | none => some (obj [("skip", .bool true), ("_why", .str s!"no table for effective indent {eff}")])
      | some a =>
        match parseTable a with
        | none => some (bad "fmt.main: table")
        | some t =>
          if !covered t limit (limit + 2) input.toList then
            some (obj [("skip", .bool true), ("_why", .str "format table does not cover the modelled loop")])
          else
            let r := JrsVerif.FmtMain.main (lookup t) limit test input.toList
            let m := obj [("code", toJson r.code), ("stdout", .str (String.ofList r.stdout))]
            match val? j "expect" with
            | some e => some (obj [("model", m), ("spec", e)])
            | none => some (obj [("model", m)])
  | _ => none

end JrsVerif.Drv.C20
