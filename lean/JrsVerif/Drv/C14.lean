import JrsVerif.Common.J
import JrsVerif.Model.Manif
import JrsVerif.Model.ManifSpec
import JrsVerif.Model.ManifDoc
import JrsVerif.Model.ManifTomlR
import JrsVerif.Model.ManifYaml11

namespace JrsVerif.Drv.C14
open Lean JrsVerif.J JrsVerif.Manif JrsVerif.ManifSpec JrsVerif.ManifVal

def jstr (l : List Char) : Json := .str (String.ofList l)
def rejected : Json := .str "\u0000<rejected by the reference reader>"

def back (r : Option (List Char)) : Json :=
  match r with
  | some s => jstr s
  | none => rejected

partial def parseV (j : Json) : Option V := do
  let t ← str? j "t"
  match t with
  | "z" => some .null
  | "b" => some (.bool (← bool? j "b"))
  | "n" => some (.num (← str? j "r").toList)
  | "s" => some (.str (← str? j "s").toList)
  | "f" => some .func
  | "a" => some (.arr (← (← arr? j "xs").toList.mapM parseV))
  | "o" =>
    let kv ← arr? j "kv"
    let kvs ← kv.toList.mapM (fun p => match p with
      | .arr #[.str k, v] => (parseV v).map (fun x => (k.toList, x))
      | _ => none)
    some (.obj kvs)
  | _ => none

def fmtOf (s : String) : Option (Fmt × ManifSpec.Format) :=
  match s with
  | "yaml" => some (.yaml, .yaml)
  | "yamlstream" => some (.yamlStream, .yamlStream)
  | "toml" => some (.toml, .toml)
  | "python" => some (.python, .python)
  | "pyvars" => some (.pyvars, .pyvars)
  | "xml" => some (.xml, .xml)
  | "ini" => some (.ini, .ini)
  | _ => none

/-- an unquoted YAML scalar denotes itself only if the YAML 1.1 resolver leaves it a string and it
    is syntactically a plain scalar -/
def bareBack (tok : List Char) : Json :=
  if ManifYaml11.resolvesToString tok && ManifYaml11.plainSyntaxOk tok then jstr tok else rejected

/-- model token and what the reference reader of that lexical position reads from `tok` -/
def token (kind : String) (qk : Bool) (s tok : List Char) : Option (List Char × Json) :=
  let quoted := tok.head? == some '"'
  match kind with
  | "toml.key" | "toml.hdr" | "toml.inl" => some (Manif.tomlKey s, back (ManifSpec.tomlKey tok))
  | "toml.str" => some (escToml s, back (tomlBasic tok))
  | "yaml.key" => some (yamlKey qk s, if quoted then back (yamlDq tok) else bareBack tok)
  | "yaml.str.std" => some (yamlStr true "  ".toList s, if quoted then back (yamlDq tok) else jstr s)
  | "yaml.str.cli" => some (yamlStr false "  ".toList s,
      if quoted then back (yamlDq tok) else if tok.head? == some '|' then jstr s else bareBack tok)
  | "py.str" => some (pyStr s, back (pyLiteral tok))
  | "xml.std" => some (escXml 0 s, jstr s)
  | "xml.text" => some (escXml 1 s, if s.all xmlChar then back (xmlText tok) else jstr s)
  | "xml.attr" => some (escXml 2 s, if s.all xmlChar then back (xmlAttr tok) else jstr s)
  | _ => none

/-- code point order on keys (= byte order of the UTF-8 text = the order of `obj.iter()`) -/
def keyLt : List Char → List Char → Bool
  | [], [] => false
  | [], _ :: _ => true
  | _ :: _, [] => false
  | a :: as, b :: bs => if a.toNat < b.toNat then true else if b.toNat < a.toNat then false else keyLt as bs

def insKV (kv : List Char × Json) : List (List Char × Json) → List (List Char × Json)
  | [] => [kv]
  | x :: r => if keyLt x.1 kv.1 then x :: insKV kv r else kv :: x :: r

/-- canonical JSON of a value for comparing data: object members sorted by key -/
partial def canonJ : V → Json
  | .null => .null
  | .bool b => .bool b
  | .num t => obj [("n", jstr t)]
  | .str s => jstr s
  | .func => obj [("f", .bool true)]
  | .arr xs => Json.arr (xs.map canonJ).toArray
  | .obj kvs =>
    let sorted := (kvs.map (fun kv => (kv.1, canonJ kv.2))).foldr insKV []
    obj [("o", Json.arr (sorted.map (fun kv => Json.arr #[jstr kv.1, kv.2])).toArray)]

def errJ : Json := obj [("err", .bool true)]

/-- whole-document writers: model text, and (TOML) what the reference reader reads from `tok` -/
def doc (fmt : String) (pad : List Char) (skip nl : Bool) (v : V) (tok? : Option (List Char)) : Option Json :=
  let m? : Option (Option (List Char) × ManifSpec.Format) :=
    match fmt with
    | "toml" => some (ManifDoc.tomlDoc ⟨pad, skip⟩ v, .toml)
    | "python" => some (ManifDoc.pyValue v, .python)
    | "pyvars" => some (ManifDoc.pyVars v, .pyvars)
    | "ini" => some (ManifDoc.iniDoc nl v, .ini)
    | _ => none
  match m? with
  | none => none
  | some (m, fs) =>
    let withBack := fmt == "toml"
    let mj := match m with
      | some t => if withBack then obj [("out", jstr t), ("back", canonJ v)] else obj [("out", jstr t)]
      | none => errJ
    match tok? with
    | none => some (obj [("model", mj), ("spec", if inDomain fs v then mj else errJ)])
    | some tok =>
      let sj :=
        if !inDomain fs v then errJ
        else if withBack then
          obj [("out", jstr tok), ("back", match ManifTomlR.tomlRead tok with
            | some r => canonJ r
            | none => rejected)]
        else obj [("out", jstr tok)]
      some (obj [("model", mj), ("spec", sj)])

def handle (op : String) (j : Json) : Option Json :=
  match op with
  | "man.doc" =>
    match (do
      let fmt ← str? j "fmt"; let pad ← str? j "pad"; let skip ← bool? j "skip"; let nl ← bool? j "nl"
      let v ← parseV (← val? j "v")
      pure (fmt, pad.toList, skip, nl, v)) with
    | none => some (bad "man.doc: parse")
    | some (fmt, pad, skip, nl, v) =>
      match doc fmt pad skip nl v ((str? j "tok").map String.toList) with
      | some r => some r
      | none => some (bad "man.doc: fmt")
  | "man.tok" =>
    match (do
      let kind ← str? j "kind"; let s ← str? j "s"; let qk ← bool? j "qk"
      pure (kind, s.toList, qk)) with
    | none => some (bad "man.tok: parse")
    | some (kind, s, qk) =>
      let tok? := (str? j "tok").map String.toList
      match token kind qk s (tok?.getD []) with
      | none => some (bad "man.tok: kind")
      | some (m, b) =>
        let mj := obj [("out", jstr m), ("back", jstr s)]
        match tok? with
        | some tok => some (obj [("model", mj), ("spec", obj [("out", jstr tok), ("back", b)])])
        | none => some (obj [("model", mj), ("spec", mj)])
  | "man.stream" =>
    match (do
      let docs ← arr? j "docs"; let cde ← bool? j "cde"; let nl ← bool? j "nl"
      pure ((strs docs).map String.toList, cde, nl)) with
    | none => some (bad "man.stream: parse")
    | some (docs, cde, nl) =>
      let m := yamlStream cde nl docs
      let dj := Json.arr (docs.map jstr).toArray
      let mj := obj [("out", jstr m), ("back", dj)]
      match (str? j "tok").map String.toList with
      | none => some (obj [("model", mj), ("spec", mj)])
      | some tok =>
        let b := match streamDocs tok with
          | some ds => Json.arr (ds.map (fun d => jstr (unlines d))).toArray
          | none => rejected
        some (obj [("model", mj), ("spec", obj [("out", jstr tok), ("back", b)])])
  | "man.dom" =>
    match (do
      let f ← fmtOf (← str? j "fmt"); let v ← parseV (← val? j "v")
      pure (f, v)) with
    | none => some (bad "man.dom: parse")
    | some ((fm, fs), v) =>
      some (obj [("model", obj [("ok", .bool (accepts fm v))]), ("spec", obj [("ok", .bool (inDomain fs v))])])
  | _ => none

end JrsVerif.Drv.C14
