import JrsVerif.Common.J
import JrsVerif.Model.Manif
import JrsVerif.Model.ManifSpec

namespace JrsVerif.Drv.C14
open Lean JrsVerif.J JrsVerif.Manif JrsVerif.ManifSpec JrsVerif.ManifVal

def jstr (l : List Char) : Json := .str (String.ofList l)
def rejected : Json := .str "\u0000<rejected by the reference reader>"

def back (r : Option (List Char)) : Json :=
  match r with
  | some s => jstr s
  | none => rejected

partial def parseV (j : Json) : Option V := do
  let t ← str? j "t"
  match t with
  | "z" => some .null
  | "b" => some (.bool (← bool? j "b"))
  | "n" => some (.num (← str? j "r").toList)
  | "s" => some (.str (← str? j "s").toList)
  | "f" => some .func
  | "a" => some (.arr (← (← arr? j "xs").toList.mapM parseV))
  | "o" =>
    let kv ← arr? j "kv"
    let kvs ← kv.toList.mapM (fun p => match p with
      | .arr #[.str k, v] => (parseV v).map (fun x => (k.toList, x))
      | _ => none)
    some (.obj kvs)
  | _ => none

def fmtOf (s : String) : Option (Fmt × ManifSpec.Format) :=
  match s with
  | "yaml" => some (.yaml, .yaml)
  | "yamlstream" => some (.yamlStream, .yamlStream)
  | "toml" => some (.toml, .toml)
  | "python" => some (.python, .python)
  | "pyvars" => some (.pyvars, .pyvars)
  | "xml" => some (.xml, .xml)
  | "ini" => some (.ini, .ini)
  | _ => none

/-- model token and what the reference reader of that lexical position reads from `tok` -/
def token (kind : String) (qk : Bool) (s tok : List Char) : Option (List Char × Json) :=
  let quoted := tok.head? == some '"'
  match kind with
  | "toml.key" | "toml.hdr" | "toml.inl" => some (Manif.tomlKey s, back (ManifSpec.tomlKey tok))
  | "toml.str" => some (escToml s, back (tomlBasic tok))
  | "yaml.key" => some (yamlKey qk s, if quoted then back (yamlDq tok) else jstr tok)
  | "yaml.str.std" => some (yamlStr true "  ".toList s, if quoted then back (yamlDq tok) else jstr s)
  | "yaml.str.cli" => some (yamlStr false "  ".toList s,
      if quoted then back (yamlDq tok) else if tok.head? == some '|' then jstr s else jstr tok)
  | "py.str" => some (pyStr s, back (pyLiteral tok))
  | "xml.std" => some (escXml 0 s, jstr s)
  | "xml.text" => some (escXml 1 s, if s.all xmlChar then back (xmlText tok) else jstr s)
  | "xml.attr" => some (escXml 2 s, if s.all xmlChar then back (xmlAttr tok) else jstr s)
  | _ => none

def handle (op : String) (j : Json) : Option Json :=
  match op with
  | "man.tok" =>
    match (do
      let kind ← str? j "kind"; let s ← str? j "s"; let qk ← bool? j "qk"
      pure (kind, s.toList, qk)) with
    | none => some (bad "man.tok: parse")
    | some (kind, s, qk) =>
      let tok? := (str? j "tok").map String.toList
      match token kind qk s (tok?.getD []) with
      | none => some (bad "man.tok: kind")
      | some (m, b) =>
        let mj := obj [("out", jstr m), ("back", jstr s)]
        match tok? with
        | some tok => some (obj [("model", mj), ("spec", obj [("out", jstr tok), ("back", b)])])
        | none => some (obj [("model", mj), ("spec", mj)])
  | "man.stream" =>
    match (do
      let docs ← arr? j "docs"; let cde ← bool? j "cde"; let nl ← bool? j "nl"
      pure ((strs docs).map String.toList, cde, nl)) with
    | none => some (bad "man.stream: parse")
    | some (docs, cde, nl) =>
      let m := yamlStream cde nl docs
      let dj := Json.arr (docs.map jstr).toArray
      let mj := obj [("out", jstr m), ("back", dj)]
      match (str? j "tok").map String.toList with
      | none => some (obj [("model", mj), ("spec", mj)])
      | some tok =>
        let b := match streamDocs tok with
          | some ds => Json.arr (ds.map (fun d => jstr (unlines d))).toArray
          | none => rejected
        some (obj [("model", mj), ("spec", obj [("out", jstr tok), ("back", b)])])
  | "man.dom" =>
    match (do
      let f ← fmtOf (← str? j "fmt"); let v ← parseV (← val? j "v")
      pure (f, v)) with
    | none => some (bad "man.dom: parse")
    | some ((fm, fs), v) =>
      some (obj [("model", obj [("ok", .bool (accepts fm v))]), ("spec", obj [("ok", .bool (inDomain fs v))])])
  | _ => none

end JrsVerif.Drv.C14
