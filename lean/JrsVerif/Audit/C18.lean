import JrsVerif.Props.C18
#print axioms JrsVerif.Intern.step_ok
#print axioms JrsVerif.Intern.run_refines
#print axioms JrsVerif.Intern.reachable_inv
#print axioms JrsVerif.Intern.ptrEq_iff_contentsEq
#print axioms JrsVerif.Intern.contents_stable
#print axioms JrsVerif.Intern.dropped_leave_pool
#print axioms JrsVerif.Intern.live_values_safe
#print axioms JrsVerif.Intern.obs_eq_spec
#print axioms JrsVerif.TraceGraph.traceGraph_complete
