import JrsVerif.Props.C08
#print axioms JrsVerif.Arr.build_good
#print axioms JrsVerif.Arr.len_eq
#print axioms JrsVerif.Arr.get_eq
#print axioms JrsVerif.Arr.get_total
#print axioms JrsVerif.Arr.repr_irrelevant
#print axioms JrsVerif.Arr.materialize_eq
