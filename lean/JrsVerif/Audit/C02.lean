import JrsVerif.Props.C02
#print axioms JrsVerif.Obj.get_compile
#print axioms JrsVerif.Obj.get_super
#print axioms JrsVerif.Obj.get_sup_binding
#print axioms JrsVerif.Obj.has_compile
#print axioms JrsVerif.Obj.has_super
#print axioms JrsVerif.Obj.get_super_takeTerm
#print axioms JrsVerif.Obj.has_super_takeTerm
#print axioms JrsVerif.Obj.vis_compile
#print axioms JrsVerif.Obj.visAll_eq_visIdx
#print axioms JrsVerif.Obj.fieldsEx_sorted
#print axioms JrsVerif.Obj.fieldsEx_mem_iff
#print axioms JrsVerif.Obj.has_iff_vis
#print axioms JrsVerif.Obj.removeKey_masks
#print axioms JrsVerif.Obj.removeKey_other
#print axioms JrsVerif.Obj.removeKey_local
#print axioms JrsVerif.Obj.extend_assoc
#print axioms JrsVerif.Obj.plus_fold_order
