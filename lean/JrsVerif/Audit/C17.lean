import JrsVerif.Props.C17
#print axioms JrsVerif.Loc.model_eq_spec
#print axioms JrsVerif.Loc.line_spec
#print axioms JrsVerif.Loc.line_spec_multi
#print axioms JrsVerif.Loc.column_chars
#print axioms JrsVerif.Loc.byteLen_ascii
#print axioms JrsVerif.Loc.column_exact_if_line_prefix_ascii
#print axioms JrsVerif.Loc.multi_offsets_independent
#print axioms JrsVerif.Loc.span_locations
#print axioms JrsVerif.Loc.print_start
#print axioms JrsVerif.Loc.print_single_line
#print axioms JrsVerif.Loc.print_multi_line
#print axioms JrsVerif.Tile.tiling_lossless
