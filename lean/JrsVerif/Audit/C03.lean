import JrsVerif.Props.C03
#print axioms JrsVerif.Thunk.step_starts_only_from_waiting
#print axioms JrsVerif.Thunk.step_leaves_waiting
#print axioms JrsVerif.Thunk.run_starts_le
#print axioms JrsVerif.Thunk.thunk_runs_once
#print axioms JrsVerif.Thunk.thunk_stable
#print axioms JrsVerif.Thunk.thunk_reentrant
#print axioms JrsVerif.Thunk.self_dependent_is_infrec
#print axioms JrsVerif.Thunk.getScripted_eq_run
#print axioms JrsVerif.Thunk.stepK_frame
#print axioms JrsVerif.Thunk.stepK_same
#print axioms JrsVerif.Thunk.runK_project
#print axioms JrsVerif.Thunk.cells_run_once
#print axioms JrsVerif.Eval.if_else_branch_unneeded
#print axioms JrsVerif.Eval.if_then_branch_unneeded
#print axioms JrsVerif.Eval.and_short_circuit
#print axioms JrsVerif.Eval.or_short_circuit
