import JrsVerif.Props.C15
#print axioms JrsVerif.Cli.plumb_lookup
#print axioms JrsVerif.Cli.plumb_spec
#print axioms JrsVerif.Cli.plumb_absent
#print axioms JrsVerif.Cli.paths_rightmost_wins
#print axioms JrsVerif.Cli.capi_paths_eq_cli
#print axioms JrsVerif.Cli.format_spec
#print axioms JrsVerif.Cli.exit_status_iff_error
#print axioms JrsVerif.Cli.stdout_is_manifestation
#print axioms JrsVerif.Cli.framing_roundtrip
#print axioms JrsVerif.Cli.framing_roundtrip_stream
#print axioms JrsVerif.Deps.deps_eq_reachable
#print axioms JrsVerif.Deps.deps_error_sound
#print axioms JrsVerif.Deps.loaded_subset_deps
