import JrsVerif.Props.C10
#print axioms JrsVerif.StdArr.sort_perm_sorted_stable
#print axioms JrsVerif.StdArr.sort_dispatch_transparent
#print axioms JrsVerif.StdArr.sort_type_error_only_mixed
#print axioms JrsVerif.StdArr.set_is_set
#print axioms JrsVerif.StdArr.setInter_spec
#print axioms JrsVerif.StdArr.setDiff_spec
#print axioms JrsVerif.StdArr.setUnion_spec
#print axioms JrsVerif.StdArr.setMember_spec
#print axioms JrsVerif.StdArr.removeAt_spec
#print axioms JrsVerif.StdArr.removeAt_orig_defect
#print axioms JrsVerif.StdArr.remove_spec
#print axioms JrsVerif.StdArr.flatten_spec
#print axioms JrsVerif.StdArr.join_spec
