import JrsVerif.Props.C01
#print axioms JrsVerif.Bind.parseCall_never_unreachable
#print axioms JrsVerif.Bind.parseCall_assignment
#print axioms JrsVerif.Bind.parseCall_ok_iff
#print axioms JrsVerif.Bind.call_style_invariant
#print axioms JrsVerif.EvalBind.interpreter_binding_ok_iff
#print axioms JrsVerif.EvalBind.interpreter_binding_assignment
