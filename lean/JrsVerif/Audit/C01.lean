import JrsVerif.Props.C01
#print axioms JrsVerif.Bind.parseCall_never_unreachable
#print axioms JrsVerif.Bind.parseCall_assignment
#print axioms JrsVerif.Bind.parseCall_ok_iff
#print axioms JrsVerif.Bind.call_style_invariant
#print axioms JrsVerif.EvalBind.interpreter_binding_ok_iff
#print axioms JrsVerif.EvalBind.interpreter_binding_assignment
#print axioms JrsVerif.Eval.eval_fuel_mono
#print axioms JrsVerif.Eval.eval_fuel_mono_le
#print axioms JrsVerif.Eval.eval_deterministic
#print axioms JrsVerif.Eval.evalProgram_fuel_mono
#print axioms JrsVerif.Eval.evalProgram_deterministic
#print axioms JrsVerif.Eval.ne_desugar
#print axioms JrsVerif.Eval.ne_desugar_outcome
#print axioms JrsVerif.Eval.slice_desugar
#print axioms JrsVerif.Eval.method_desugar
