import JrsVerif.Props.C01
