import JrsVerif.Props.C16
#print axioms JrsVerif.Props.C16.fieldsVisibility_perm
#print axioms JrsVerif.Props.C16.fieldsEx_perm_invariant
#print axioms JrsVerif.Props.C16.fieldsEx_sorted
#print axioms JrsVerif.Props.C16.objLen_perm_invariant
#print axioms JrsVerif.Props.C16.suggestFields_perm_invariant
#print axioms JrsVerif.Props.C16.suggestLocals_perm_invariant
#print axioms JrsVerif.Props.C16.suggestLocals_scopes_perm_invariant
#print axioms JrsVerif.Props.C16.suggestLocalsOld_counterexample
#print axioms JrsVerif.Props.C16.suggestLocalsOld_partial
#print axioms JrsVerif.Props.C16.applyTla_perm_invariant
#print axioms JrsVerif.Props.C16.applyTlaOld_counterexample
#print axioms JrsVerif.Props.C16.stack_depth_restored
#print axioms JrsVerif.Props.C16.stack_history_independent
