/- C05 helper lemmas about `canon` (what `obj.iter()` + the `Val::Func` arm leave of a value):
   ordering predicate, function-occurrence predicate and their characterisations. -/
import JrsVerif.Proofs.Json

namespace JrsVerif.Json
open JrsVerif.Escape JrsVerif.Generated.Escape

mutual
/-- every object in the value lists its members in ascending key order -/
def Sorted : J → Prop
  | .arr xs => SortedL xs
  | .obj kvs => KeysAsc kvs ∧ SortedO kvs
  | _ => True
def SortedL : List J → Prop
  | [] => True
  | x :: tl => Sorted x ∧ SortedL tl
def SortedO : List (List UInt8 × J) → Prop
  | [] => True
  | (_, v) :: tl => Sorted v ∧ SortedO tl
end

theorem sortedO_of_mem (l : List (List UInt8 × J)) : SortedO l ↔ ∀ p ∈ l, Sorted p.2 := by
  induction l with
  | nil => simp [SortedO]
  | cons hd tl ih => obtain ⟨k, v⟩ := hd; simp [SortedO, ih]

mutual
theorem canon_sorted_aux : ∀ (v : MV) (j : J), canon v = some j → Sorted j
  | .null, j, h => by simp [canon] at h; subst h; trivial
  | .bool _, j, h => by simp [canon] at h; subst h; trivial
  | .num _, j, h => by simp [canon] at h; subst h; trivial
  | .str _, j, h => by simp [canon] at h; subst h; trivial
  | .func, j, h => by simp [canon] at h
  | .arr xs, j, h => by
    simp only [canon, Option.map_eq_some_iff] at h
    obtain ⟨js, hjs, rfl⟩ := h
    exact canonL_sorted xs js hjs
  | .obj fs, j, h => by
    simp only [canon, Option.map_eq_some_iff] at h
    obtain ⟨kvs, hk, rfl⟩ := h
    refine ⟨sortKV_asc kvs, ?_⟩
    rw [sortedO_of_mem]
    intro p hp
    exact (sortedO_of_mem kvs).mp (canonF_sorted fs kvs hk) p ((mem_sortKV kvs p).mp hp)
theorem canonL_sorted : ∀ (xs : List MV) (js : List J), canonL xs = some js → SortedL js
  | [], js, h => by simp [canonL] at h; subst h; trivial
  | x :: tl, js, h => by
    simp only [canonL] at h
    cases hx : canon x with
    | none => simp [hx] at h
    | some j =>
      cases ht : canonL tl with
      | none => simp [hx, ht] at h
      | some js' =>
        simp [hx, ht] at h; subst h
        exact ⟨canon_sorted_aux x j hx, canonL_sorted tl js' ht⟩
theorem canonF_sorted : ∀ (fs : List (List UInt8 × Bool × MV)) (kvs : List (List UInt8 × J)),
    canonF fs = some kvs → SortedO kvs
  | [], kvs, h => by simp [canonF] at h; subst h; trivial
  | (k, hidden, v) :: tl, kvs, h => by
    simp only [canonF] at h
    cases hidden with
    | true => simp at h; exact canonF_sorted tl kvs h
    | false =>
      simp only [Bool.false_eq_true, if_false] at h
      cases hx : canon v with
      | none => simp [hx] at h
      | some j =>
        cases ht : canonF tl with
        | none => simp [hx, ht] at h
        | some js' =>
          simp [hx, ht] at h; subst h
          exact ⟨canon_sorted_aux v j hx, canonF_sorted tl js' ht⟩
end

mutual
/-- a function in a position the manifester visits (not below a hidden field) -/
def HasFunc : MV → Prop
  | .func => True
  | .arr xs => HasFuncL xs
  | .obj fs => HasFuncF fs
  | _ => False
def HasFuncL : List MV → Prop
  | [] => False
  | x :: tl => HasFunc x ∨ HasFuncL tl
def HasFuncF : List (List UInt8 × Bool × MV) → Prop
  | [] => False
  | (_, hidden, v) :: tl => (hidden = false ∧ HasFunc v) ∨ HasFuncF tl
end

mutual
theorem func_aux : ∀ v : MV, canon v = none ↔ HasFunc v
  | .null => by simp [canon, HasFunc]
  | .bool _ => by simp [canon, HasFunc]
  | .num _ => by simp [canon, HasFunc]
  | .str _ => by simp [canon, HasFunc]
  | .func => by simp [canon, HasFunc]
  | .arr xs => by simp [canon, HasFunc, funcL_aux xs]
  | .obj fs => by simp [canon, HasFunc, funcF_aux fs]
theorem funcL_aux : ∀ xs : List MV, canonL xs = none ↔ HasFuncL xs
  | [] => by simp [canonL, HasFuncL]
  | x :: tl => by
    have h1 := func_aux x
    have h2 := funcL_aux tl
    simp only [canonL, HasFuncL, ← h1, ← h2]
    cases canon x <;> cases canonL tl <;> simp
theorem funcF_aux : ∀ fs : List (List UInt8 × Bool × MV), canonF fs = none ↔ HasFuncF fs
  | [] => by simp [canonF, HasFuncF]
  | (k, hidden, v) :: tl => by
    have h1 := func_aux v
    have h2 := funcF_aux tl
    simp only [canonF, HasFuncF, ← h1, ← h2]
    cases hidden
    · cases canon v <;> cases canonF tl <;> simp
    · simp
end

/-! ### strict order under distinct names -/

/-- keys in strictly ascending order -/
def KeysStrict : List (List UInt8 × J) → Prop
  | [] => True
  | (k, _) :: tl => (∀ p ∈ tl, keyLt k p.1 = true) ∧ KeysStrict tl

theorem keys_insertKV (k : List UInt8) (v : J) (l : List (List UInt8 × J)) :
    ((insertKV k v l).map (·.1)).Perm (k :: l.map (·.1)) := by
  induction l with
  | nil => simp [insertKV]
  | cons hd tl ih =>
    obtain ⟨k', v'⟩ := hd
    simp only [insertKV]
    split
    · simp
    · simp only [List.map_cons]
      exact (List.Perm.cons k' ih).trans (List.Perm.swap k k' _)

theorem keys_sortKV : ∀ l : List (List UInt8 × J), ((sortKV l).map (·.1)).Perm (l.map (·.1))
  | [] => by simp [sortKV]
  | (k, v) :: tl => by
    simp only [sortKV, List.map_cons]
    exact (keys_insertKV k v (sortKV tl)).trans (List.Perm.cons k (keys_sortKV tl))

theorem strict_of_asc_nodup : ∀ l : List (List UInt8 × J), KeysAsc l → (l.map (·.1)).Nodup → KeysStrict l
  | [], _, _ => trivial
  | (k, v) :: tl, h, hn => by
    simp only [List.map_cons, List.nodup_cons] at hn
    refine ⟨fun p hp => ?_, strict_of_asc_nodup tl h.2 hn.2⟩
    have hle := h.1 p hp
    cases hlt : keyLt k p.1 with
    | true => rfl
    | false =>
      have : k = p.1 := keyLt_total k p.1 hlt (by simpa [keyLe] using hle)
      exact absurd (this ▸ List.mem_map_of_mem (f := (·.1)) hp) hn.1

theorem keys_canonF : ∀ (fs : List (List UInt8 × Bool × MV)) (raw : List (List UInt8 × J)),
    canonF fs = some raw → raw.map (·.1) = (fs.filter (fun f => !f.2.1)).map (·.1)
  | [], raw, h => by simp [canonF] at h; subst h; rfl
  | (k, hidden, v) :: tl, raw, h => by
    simp only [canonF] at h
    cases hidden with
    | true => simp at h; simpa using keys_canonF tl raw h
    | false =>
      simp only [Bool.false_eq_true, if_false] at h
      cases hx : canon v with
      | none => simp [hx] at h
      | some j =>
        cases ht : canonF tl with
        | none => simp [hx, ht] at h
        | some raw' =>
          simp [hx, ht] at h; subst h
          simpa using keys_canonF tl raw' ht

end JrsVerif.Json
