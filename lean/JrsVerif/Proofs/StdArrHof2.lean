/- C10 (round 3), part 2: minArray/maxArray, sum, range, repeat, makeArray, string slice, lines,
   deepJoin, flattenDeepArray, and uniqueness of the stable sorted arrangement. -/
import JrsVerif.Proofs.StdArrHof
import JrsVerif.Proofs.StdSort

namespace JrsVerif.StdArr
open Std

section Generic2
variable {α β κ : Type}

/-! ### minArray / maxArray -/

/-- a key function that is total on thunks (it may ignore its argument, so it is defined on
    failing elements too): the scan over the thunks is the documented fold -/
theorem top1Loop_eq {key : Option α → Option κ} {cmp : κ → κ → Option Ordering} {k : Option α → κ}
    {ord : κ → κ → Ordering} (hk : ∀ e, key e = some (k e)) (hc : ∀ p q, cmp p q = some (ord p q))
    (want : Ordering) (m : Option α) (xs : List (Option α)) :
    top1Loop key cmp want m (k m) xs = top1Spec k ord want m xs := by
  induction xs generalizing m with
  | nil => rfl
  | cons c r ih =>
    simp only [top1Loop, hk, hc]
    by_cases h : ord (k c) (k m) = want
    · have hb : (ord (k c) (k m) == want) = true := by simp [h]
      rw [if_pos hb, ih]
      simp [top1Spec, h]
    · have hb : ¬ (ord (k c) (k m) == want) = true := by simp [h]
      rw [if_neg hb, ih]
      simp [top1Spec, h]

theorem top1M_eq {key : Option α → Option κ} {cmp : κ → κ → Option Ordering} {k : Option α → κ}
    {ord : κ → κ → Ordering} (hk : ∀ e, key e = some (k e)) (hc : ∀ p q, cmp p q = some (ord p q))
    (want : Ordering) (xs : List (Option α)) (onEmpty : Option (Option α)) :
    top1M key cmp want xs onEmpty =
      match xs with
      | [] => evalOnEmpty onEmpty
      | m :: r => top1Spec k ord want m r := by
  cases xs with
  | nil => rfl
  | cons m r =>
    simp only [top1M, hk]
    exact top1Loop_eq hk hc want m r

/-- a key function that uses its argument (`fun e => e.bind key`): the round-3 statement — every
    element is evaluated and the scan runs on the values -/
theorem top1Loop_strict {key : α → Option κ} {cmp : κ → κ → Option Ordering} {k : α → κ}
    {ord : κ → κ → Ordering} (hk : ∀ x, key x = some (k x)) (hc : ∀ p q, cmp p q = some (ord p q))
    (want : Ordering) (m : α) (xs : List (Option α)) :
    top1Loop (fun e => e.bind key) cmp want (some m) (k m) xs =
      (evalAll xs).map (top1Spec k ord want m) := by
  induction xs generalizing m with
  | nil => rfl
  | cons e r ih =>
    cases e with
    | none => rfl
    | some c =>
      simp only [top1Loop, Option.bind_some, hk, hc, evalAll]
      by_cases h : ord (k c) (k m) = want
      · have hb : (ord (k c) (k m) == want) = true := by simp [h]
        rw [if_pos hb, ih]
        cases evalAll r <;> simp [top1Spec, h]
      · have hb : ¬ (ord (k c) (k m) == want) = true := by simp [h]
        rw [if_neg hb, ih]
        cases evalAll r <;> simp [top1Spec, h]

theorem top1M_strict {key : α → Option κ} {cmp : κ → κ → Option Ordering} {k : α → κ}
    {ord : κ → κ → Ordering} (hk : ∀ x, key x = some (k x)) (hc : ∀ p q, cmp p q = some (ord p q))
    (want : Ordering) (xs : List (Option α)) (onEmpty : Option (Option α)) :
    top1M (fun e => e.bind key) cmp want xs onEmpty =
      match xs with
      | [] => evalOnEmpty onEmpty
      | _ :: _ => (evalAll xs).bind (fun vs =>
          match vs with
          | [] => none
          | m :: r => some (top1Spec k ord want m r)) := by
  cases xs with
  | nil => rfl
  | cons e r =>
    cases e with
    | none => rfl
    | some m =>
      simp only [top1M, Option.bind_some, hk, evalAll]
      rw [top1Loop_strict hk hc]
      cases evalAll r <;> simp

/-- the scan returns the *first* extremal element: everything before it is strictly worse,
    nothing after it is strictly better (`want = .lt`) -/
theorem top1Spec_first_min {ord : κ → κ → Ordering} [TransCmp ord] (k : α → κ) (r : List α) :
    ∀ (m : α) (pre mid : List α),
      (∀ y ∈ pre, ord (k m) (k y) = .lt) → (∀ y ∈ mid, ord (k y) (k m) ≠ .lt) →
      ∃ pre' post', pre ++ m :: (mid ++ r) = pre' ++ top1Spec k ord .lt m r :: post' ∧
        (∀ y ∈ pre', ord (k (top1Spec k ord .lt m r)) (k y) = .lt) ∧
        (∀ y ∈ post', ord (k y) (k (top1Spec k ord .lt m r)) ≠ .lt) := by
  induction r with
  | nil =>
    intro m pre mid hpre hmid
    exact ⟨pre, mid, by simp [top1Spec], by simpa [top1Spec] using hpre, by simpa [top1Spec] using hmid⟩
  | cons c r ih =>
    intro m pre mid hpre hmid
    by_cases h : ord (k c) (k m) = .lt
    · have hstep : top1Spec k ord .lt m (c :: r) = top1Spec k ord .lt c r := by
        simp [top1Spec, h]
      rw [hstep]
      have := ih c (pre ++ m :: mid) [] (by
        intro y hy
        rcases List.mem_append.1 hy with hy | hy
        · exact TransCmp.lt_trans h (hpre y hy)
        · rcases List.mem_cons.1 hy with rfl | hy
          · exact h
          · have h1 : (ord (k m) (k y)).isLE := by
              have hne := hmid y hy
              rw [OrientedCmp.eq_swap (cmp := ord)]
              cases hyo : ord (k y) (k m) <;> simp_all [Ordering.swap]
            exact TransCmp.lt_of_lt_of_isLE h h1) (by simp)
      simpa using this
    · have hstep : top1Spec k ord .lt m (c :: r) = top1Spec k ord .lt m r := by
        simp [top1Spec, h]
      rw [hstep]
      have := ih m pre (mid ++ [c]) hpre (by
        intro y hy
        rcases List.mem_append.1 hy with hy | hy
        · exact hmid y hy
        · simp at hy; subst hy; exact h)
      simpa using this

theorem top1Spec_gt_eq_flip {ord : κ → κ → Ordering} [OrientedCmp ord] (k : α → κ) (m : α) (r : List α) :
    top1Spec k ord .gt m r = top1Spec k (fun a b => ord b a) .lt m r := by
  unfold top1Spec
  congr 1
  funext best c
  have : (ord (k c) (k best) == .gt) = (ord (k best) (k c) == .lt) := by
    rw [OrientedCmp.eq_swap (cmp := ord) (a := k c)]
    cases ord (k best) (k c) <;> rfl
  rw [this]

/-! ### sum -/

theorem sumLoop_eq (acc : Int) (ns : List Int) : sumLoop acc ns = acc + ns.sum := by
  induction ns generalizing acc with
  | nil => simp [sumLoop]
  | cons v r ih => simp [sumLoop, ih]; omega

/-! ### range -/

theorem rangeLen_eq (a b : Int) (ha : inI32 a = true) (hb : inI32 b = true) (hab : a ≤ b) :
    rangeLen a b = (b - a + 1).toNat := by
  simp only [inI32, Bool.and_eq_true, decide_eq_true_eq] at ha hb
  unfold rangeLen asUsize
  omega

theorem rangeM_eq (a b : Int) (ha : inI32 a = true) (hb : inI32 b = true) :
    rangeM a b = some (rangeSpec a b) := by
  unfold rangeM
  simp only [ha, hb, Bool.and_self, Bool.not_true, Bool.false_eq_true, if_false]
  by_cases hab : b < a
  · have : (b - a + 1).toNat = 0 := by omega
    simp [hab, rangeSpec, this]
  · simp only [hab, if_false]
    rw [rangeLen_eq a b ha hb (by omega)]
    unfold rangeSpec
    apply evalAll_map_of_forall
    intro i hi
    have : i < (b - a + 1).toNat := List.mem_range.1 hi
    have h2 : a + (i : Int) ≤ b := by omega
    simp [rangeGet, h2]

/-! ### repeat -/

theorem repeatL_length (xs : List α) (n : Nat) : (Spec.repeatL xs n).length = xs.length * n := by
  induction n with
  | zero => simp [Spec.repeatL]
  | succ n ih => simp [Spec.repeatL, ih, Nat.mul_succ]; omega

theorem repeatL_getElem? (xs : List α) (n i : Nat) (h : i < xs.length * n) :
    (Spec.repeatL xs n)[i]? = xs[i % xs.length]? := by
  induction n generalizing i with
  | zero => simp at h
  | succ n ih =>
    simp only [Spec.repeatL]
    by_cases hi : i < xs.length
    · rw [List.getElem?_append_left hi, Nat.mod_eq_of_lt hi]
    · have hle : xs.length ≤ i := by omega
      rw [List.getElem?_append_right hle, ih (i - xs.length) (by rw [Nat.mul_succ] at h; omega)]
      rw [Nat.mod_eq_sub_mod hle]

theorem range_map_getElem? (L : List α) :
    (List.range L.length).map (fun i => L[i]?) = L.map some := by
  apply List.ext_getElem (by simp)
  intro i h1 h2
  simp at h1
  simp [h1]

theorem evalAll_range_map (g : Nat → Option α) (L : List α) (total : Nat) (hL : L.length = total)
    (h : ∀ i, i < total → g i = L[i]?) : evalAll ((List.range total).map g) = some L := by
  have : (List.range total).map g = L.map some := by
    rw [← range_map_getElem? L, hL]
    apply List.map_congr_left
    intro i hi
    exact h i (List.mem_range.1 hi)
  rw [this, evalAll_map_some]

theorem repeatArrM_eq (xs : List α) (n : Int) (hn : 0 ≤ n) (hn2 : n < 18446744073709551616)
    (hlen : xs.length * n.toNat < 18446744073709551616) :
    repeatArrM xs n = some (Spec.repeatL xs n.toNat) := by
  unfold repeatArrM
  have h1 : ¬ (n < 0 ∨ n ≥ 18446744073709551616) := by omega
  simp only [h1, if_false]
  rw [if_neg (by omega)]
  apply evalAll_range_map _ _ _ (repeatL_length xs n.toNat)
  intro i hi
  exact (repeatL_getElem? xs n.toNat i hi).symm

/-! ### makeArray -/

theorem rangeSpec_zero (n : Nat) : rangeSpec 0 ((n : Int) - 1) = (List.range n).map (fun (i : Nat) => (i : Int)) := by
  unfold rangeSpec
  have : ((n : Int) - 1 - 0 + 1).toNat = n := by omega
  rw [this]
  apply List.map_congr_left
  intro i _
  omega

theorem makeArrayM_eq (sz : Int) (f : Int → Option β) (trivial : Option β)
    (h0 : 0 ≤ sz) (h1 : sz ≤ 2147483647) (htriv : ∀ t, trivial = some t → ∀ i, f i = some t) :
    makeArrayM sz f trivial = some (makeArraySpec sz.toNat f) := by
  obtain ⟨n, rfl⟩ := Int.eq_ofNat_of_zero_le h0
  unfold makeArrayM
  rw [if_neg (by omega)]
  by_cases hz : (n : Int) = 0
  · have : n = 0 := by omega
    subst this; simp [makeArraySpec]
  · rw [if_neg hz]
    cases ht : trivial with
    | some t =>
      simp only [makeArraySpec, htriv t ht]
      congr 1
      apply List.ext_getElem (by simp)
      intro i h1 h2
      simp
    | none =>
      have hi : inI32 0 = true := by decide
      have hs : inI32 ((n : Int) - 1) = true := by
        simp only [inI32, Bool.and_eq_true, decide_eq_true_eq]; omega
      simp only [rangeM_eq 0 ((n : Int) - 1) hi hs, Option.map_some, rangeSpec_zero]
      simp [makeArraySpec, List.map_map, Function.comp_def]

/-! ### slice of a string -/

theorem sliceStrM_eq (cs : List α) (i e : Option Int) (step : Nat)
    (hlen : cs.length ≤ 18446744073709551615) :
    sliceStrM cs i e step = sliceL cs i e step := by
  unfold sliceStrM sliceL
  -- both sides are `everyNth step 0` of the same window
  have hwin : ∀ (a b : Nat), (if a ≥ b then [] else everyNth step 0 ((cs.drop a).take (b - a))) =
      everyNth step 0 ((cs.drop a).take (b - a)) := by
    intro a b
    split
    · have : b - a = 0 := by omega
      simp [this, everyNth]
    · rfl
  simp only [hwin]
  congr 1
  -- the window `[index, end)` is the same after clamping both ends to the length
  have hclamp : ∀ (a b : Nat), (cs.drop a).take (b - a) =
      (cs.drop (min a cs.length)).take (min b cs.length - min a cs.length) := by
    intro a b
    apply List.ext_getElem?
    intro j
    simp only [List.getElem?_take, List.getElem?_drop]
    by_cases ha : a ≤ cs.length
    · have hm : min a cs.length = a := Nat.min_eq_left ha
      rw [hm]
      by_cases hb : b ≤ cs.length
      · have hm2 : min b cs.length = b := Nat.min_eq_left hb
        rw [hm2]
      · have hm2 : min b cs.length = cs.length := Nat.min_eq_right (by omega)
        rw [hm2]
        by_cases hj : j < b - a
        · by_cases hj2 : j < cs.length - a
          · simp [hj, hj2]
          · simp only [hj, hj2, if_true, if_false]
            exact List.getElem?_eq_none (by omega)
        · simp [hj, show ¬ j < cs.length - a by omega]
    · have hm : min a cs.length = cs.length := Nat.min_eq_right (by omega)
      rw [hm]
      have h1 : cs[a + j]? = none := List.getElem?_eq_none (by omega)
      have h2 : cs[cs.length + j]? = none := List.getElem?_eq_none (by omega)
      simp [h1, h2]
  have hs : min (strIdx i cs.length 0) cs.length = normIdx i cs.length 0 := by
    cases i with
    | none => simp [strIdx, normIdx]
    | some v => simp only [strIdx, normIdx]; split <;> omega
  have he : min (strIdx e cs.length 18446744073709551615) cs.length = normIdx e cs.length cs.length := by
    cases e with
    | none => simp only [strIdx, normIdx]; omega
    | some v => simp only [strIdx, normIdx]; split <;> omega
  rw [List.drop_take, hclamp, hs, he]

/-! ### lines -/

theorem intercalate_snoc_nil (sep : List α) (ps : List (List α)) :
    intercalate sep (ps ++ [[]]) = (ps.map (· ++ sep)).flatten := by
  induction ps with
  | nil => simp [intercalate]
  | cons p r ih =>
    cases r with
    | nil => simp [intercalate]
    | cons q r' =>
      simp only [List.cons_append, intercalate] at ih ⊢
      rw [ih]; simp

theorem linesM_eq (nl : α) (items : List (Option (List α))) :
    linesM nl items = linesSpec nl items := by
  unfold linesM linesSpec extended
  rw [joinM_eq, joinSpec]
  simp only [List.filterMap_append, List.filterMap_cons, id, List.filterMap_nil]
  exact intercalate_snoc_nil [nl] _

/-! ### uniqueness of the stable sorted arrangement -/

/-- two lists that are both ordered by key and agree on every class of equivalent keys (same
    members in the same order) are equal -/
theorem stable_sorted_unique_aux {ord : κ → κ → Ordering} [TransCmp ord] (k : α → κ) :
    ∀ (r1 r2 : List α),
      r1.Pairwise (fun a b => (ord (k a) (k b)).isLE) →
      r2.Pairwise (fun a b => (ord (k a) (k b)).isLE) →
      (∀ c, r1.filter (fun a => ord (k a) c == .eq) = r2.filter (fun a => ord (k a) c == .eq)) →
      r1 = r2 := by
  intro r1
  induction r1 with
  | nil =>
    intro r2 _ _ h
    cases r2 with
    | nil => rfl
    | cons b r2 =>
      have := h (k b)
      simp [List.filter_cons, ReflCmp.compare_self (cmp := ord)] at this
  | cons a r1 ih =>
    intro r2 h1 h2 h
    have haa : ord (k a) (k a) = .eq := ReflCmp.compare_self
    cases r2 with
    | nil =>
      have := h (k a)
      simp [List.filter_cons, haa] at this
    | cons b r2 =>
      have hbb : ord (k b) (k b) = .eq := ReflCmp.compare_self
      rw [List.pairwise_cons] at h1 h2
      -- `a` occurs in `b :: r2`, `b` occurs in `a :: r1`
      have ha2 : a ∈ b :: r2 := by
        have : a ∈ (a :: r1).filter (fun x => ord (k x) (k a) == .eq) := by
          simp [List.filter_cons, haa]
        rw [h (k a)] at this
        exact (List.mem_filter.1 this).1
      have hb1 : b ∈ a :: r1 := by
        have : b ∈ (b :: r2).filter (fun x => ord (k x) (k b) == .eq) := by
          simp [List.filter_cons, hbb]
        rw [← h (k b)] at this
        exact (List.mem_filter.1 this).1
      have hba : (ord (k b) (k a)).isLE := by
        rcases List.mem_cons.1 ha2 with rfl | hm
        · simp [haa]
        · exact h2.1 a hm
      have hab : (ord (k a) (k b)).isLE := by
        rcases List.mem_cons.1 hb1 with rfl | hm
        · simp [hbb]
        · exact h1.1 b hm
      have heq : ord (k b) (k a) = .eq := OrientedCmp.isLE_antisymm hba hab
      have hhead := h (k a)
      simp only [List.filter_cons, haa, heq, beq_self_eq_true, if_true] at hhead
      have hab' : a = b := (List.cons.inj hhead).1
      subst hab'
      congr 1
      apply ih r2 h1.2 h2.2
      intro c
      have hc := h c
      simp only [List.filter_cons] at hc
      split at hc
      · exact (List.cons.inj hc).2
      · exact hc

/-- `sort_keyf`'s result is the only arrangement that is ordered by key and stable: whatever
    algorithm `slice::sort_by` runs, its documented contract fixes the answer -/
theorem sortByKeyM_determined {ord : κ → κ → Ordering} [TransCmp ord]
    {key : α → Option κ} {cmp : κ → κ → Option Ordering} {k : α → κ}
    (hk : ∀ x, key x = some (k x)) (hc : ∀ p q, cmp p q = some (ord p q)) (xs r' : List α)
    (hs : r'.Pairwise (fun a b => (ord (k a) (k b)).isLE))
    (hst : ∀ c, r'.filter (fun a => ord (k a) c == .eq) = xs.filter (fun a => ord (k a) c == .eq)) :
    sortByKeyM key cmp xs = some r' := by
  obtain ⟨r, hr, _, hs', hst'⟩ := sortByKeyM_total ord hk hc xs
  rw [hr, stable_sorted_unique_aux k r r' hs' hs (fun c => by rw [hst' c, hst c])]

/-- core Lean's verified merge sort is such an arrangement -/
theorem sortSpec_sorted_stable {ord : κ → κ → Ordering} [TransCmp ord] (k : α → κ) (xs : List α) :
    (sortSpec k ord xs).Pairwise (fun a b => (ord (k a) (k b)).isLE) ∧
    ∀ c, (sortSpec k ord xs).filter (fun a => ord (k a) c == .eq) =
      xs.filter (fun a => ord (k a) c == .eq) := by
  have htrans : ∀ a b c : α, (ord (k a) (k b)).isLE = true → (ord (k b) (k c)).isLE = true →
      (ord (k a) (k c)).isLE = true := fun a b c h1 h2 => TransCmp.isLE_trans h1 h2
  have htotal : ∀ a b : α, ((ord (k a) (k b)).isLE || (ord (k b) (k a)).isLE) = true := by
    intro a b
    rw [OrientedCmp.eq_swap (cmp := ord) (a := k b)]
    cases ord (k a) (k b) <;> rfl
  refine ⟨?_, fun c => ?_⟩
  · have := List.pairwise_mergeSort (le := fun a b => (ord (k a) (k b)).isLE) htrans htotal xs
    simpa [sortSpec] using this
  · -- the class of `c` in the input is an ordered sublist, hence a sublist of the output; both
    -- classes have the same length
    let p := fun a => ord (k a) c == .eq
    have hcls : (xs.filter p).Pairwise (fun a b => (ord (k a) (k b)).isLE = true) := by
      rw [List.pairwise_filter]
      apply List.pairwise_of_forall
      intro a b ha hb
      have ha' : ord (k a) c = .eq := by simpa [p] using ha
      have hb' : ord (k b) c = .eq := by simpa [p] using hb
      have : ord (k a) (k b) = .eq := TransCmp.eq_trans ha' (OrientedCmp.eq_symm hb')
      simp [this]
    have hsub : List.Sublist (xs.filter p) (xs.mergeSort (fun a b => (ord (k a) (k b)).isLE)) :=
      List.sublist_mergeSort (le := fun a b => (ord (k a) (k b)).isLE) htrans htotal hcls
        List.filter_sublist
    have hsub2 : List.Sublist (xs.filter p) ((xs.mergeSort (fun a b => (ord (k a) (k b)).isLE)).filter p) := by
      have := hsub.filter p
      simpa [List.filter_filter] using this
    have hlen : (xs.filter p).length = ((xs.mergeSort (fun a b => (ord (k a) (k b)).isLE)).filter p).length :=
      ((List.mergeSort_perm xs _).filter p).length_eq.symm
    exact (hsub2.eq_of_length hlen).symm

/-- the native keyed sort (any length) equals the reference sort -/
theorem sortByKeyM_eq_sortSpec {ord : κ → κ → Ordering} [TransCmp ord]
    {key : α → Option κ} {cmp : κ → κ → Option Ordering} {k : α → κ}
    (hk : ∀ x, key x = some (k x)) (hc : ∀ p q, cmp p q = some (ord p q)) (xs : List α) :
    sortByKeyM key cmp xs = some (sortSpec k ord xs) :=
  sortByKeyM_determined hk hc xs _ (sortSpec_sorted_stable k xs).1 (sortSpec_sorted_stable k xs).2

/-- the unstable sorts of `sort_identity`: under an order whose equivalence is equality any ordered
    permutation is the same list -/
theorem sorted_perm_unique {ord : κ → κ → Ordering} [TransCmp ord] (k : α → κ)
    (hanti : ∀ a b, ord (k a) (k b) = .eq → a = b) (r1 r2 : List α)
    (h1 : r1.Pairwise (fun a b => (ord (k a) (k b)).isLE))
    (h2 : r2.Pairwise (fun a b => (ord (k a) (k b)).isLE)) (hp : r1.Perm r2) : r1 = r2 :=
  List.Perm.eq_of_pairwise (le := fun a b => (ord (k a) (k b)).isLE = true)
    (fun a b _ _ hab hba => hanti a b (OrientedCmp.isLE_antisymm hab hba)) h1 h2 hp

end Generic2

/-! ### deepJoin / flattenDeepArray on jsonnet values -/

mutual
theorem deepJoinGo_eq : ∀ (v : V) (out : List Char),
    deepJoinGo out v = (deepJoinSpec v).map (out ++ ·)
  | .str s, out => by simp [deepJoinGo, deepJoinSpec]
  | .arr xs, out => by simp only [deepJoinGo, deepJoinSpec]; exact deepJoinGoL_eq xs out
  | .null, out => by simp [deepJoinGo, deepJoinSpec]
  | .bool _, out => by simp [deepJoinGo, deepJoinSpec]
  | .num _, out => by simp [deepJoinGo, deepJoinSpec]
  | .objE, out => by simp [deepJoinGo, deepJoinSpec]
  | .objA _, out => by simp [deepJoinGo, deepJoinSpec]
theorem deepJoinGoL_eq : ∀ (xs : List V) (out : List Char),
    deepJoinGoL out xs = (deepJoinSpecL xs).map (out ++ ·)
  | [], out => by simp [deepJoinGoL, deepJoinSpecL]
  | x :: r, out => by
    simp only [deepJoinGoL, deepJoinSpecL]
    rw [deepJoinGo_eq x out]
    cases hx : deepJoinSpec x with
    | none => simp
    | some a =>
      simp only [Option.map_some]
      rw [deepJoinGoL_eq r (out ++ a)]
      cases deepJoinSpecL r <;> simp
end

mutual
theorem flattenDeepGo_eq : ∀ (v : V) (out : List V),
    flattenDeepGo out v = out ++ Spec.flattenDeep v
  | .arr xs, out => by
    simp only [flattenDeepGo, Spec.flattenDeep]; exact flattenDeepGoL_eq xs out
  | .null, out => by simp [flattenDeepGo, Spec.flattenDeep]
  | .bool _, out => by simp [flattenDeepGo, Spec.flattenDeep]
  | .num _, out => by simp [flattenDeepGo, Spec.flattenDeep]
  | .str _, out => by simp [flattenDeepGo, Spec.flattenDeep]
  | .objE, out => by simp [flattenDeepGo, Spec.flattenDeep]
  | .objA _, out => by simp [flattenDeepGo, Spec.flattenDeep]
theorem flattenDeepGoL_eq : ∀ (xs : List V) (out : List V),
    flattenDeepGoL out xs = out ++ Spec.flattenDeep.flattenDeepL xs
  | [], out => by simp [flattenDeepGoL, Spec.flattenDeep.flattenDeepL]
  | x :: r, out => by
    simp only [flattenDeepGoL, Spec.flattenDeep.flattenDeepL]
    rw [flattenDeepGo_eq x out, flattenDeepGoL_eq r]
    simp
end

/- the jsonnet comparison identifies only equal values -/
mutual
theorem cmpV_eq : ∀ (a b : V), cmpV a b = some .eq → a = b
  | .str a, .str b, h => by
    simp only [cmpV, Option.some.injEq] at h
    rw [Std.LawfulEqOrd.eq_of_compare h]
  | .num a, .num b, h => by
    simp only [cmpV, Option.some.injEq] at h
    rw [Std.LawfulEqOrd.eq_of_compare h]
  | .arr a, .arr b, h => by
    simp only [cmpV] at h
    rw [cmpVs_eq a b h]
  | .null, _, h => by simp [cmpV] at h
  | .bool _, _, h => by simp [cmpV] at h
  | .objE, _, h => by simp [cmpV] at h
  | .objA _, _, h => by simp [cmpV] at h
  | .str _, .null, h => by simp [cmpV] at h
  | .str _, .bool _, h => by simp [cmpV] at h
  | .str _, .num _, h => by simp [cmpV] at h
  | .str _, .arr _, h => by simp [cmpV] at h
  | .str _, .objE, h => by simp [cmpV] at h
  | .str _, .objA _, h => by simp [cmpV] at h
  | .num _, .null, h => by simp [cmpV] at h
  | .num _, .bool _, h => by simp [cmpV] at h
  | .num _, .str _, h => by simp [cmpV] at h
  | .num _, .arr _, h => by simp [cmpV] at h
  | .num _, .objE, h => by simp [cmpV] at h
  | .num _, .objA _, h => by simp [cmpV] at h
  | .arr _, .null, h => by simp [cmpV] at h
  | .arr _, .bool _, h => by simp [cmpV] at h
  | .arr _, .str _, h => by simp [cmpV] at h
  | .arr _, .num _, h => by simp [cmpV] at h
  | .arr _, .objE, h => by simp [cmpV] at h
  | .arr _, .objA _, h => by simp [cmpV] at h
theorem cmpVs_eq : ∀ (a b : List V), cmpVs a b = some .eq → a = b
  | [], [], _ => rfl
  | [], _ :: _, h => by simp [cmpVs] at h
  | _ :: _, [], h => by simp [cmpVs] at h
  | x :: as, y :: bs, h => by
    simp only [cmpVs] at h
    cases hxy : cmpV x y with
    | none => simp [hxy] at h
    | some o =>
      cases o with
      | eq =>
        simp only [hxy] at h
        rw [cmpV_eq x y hxy, cmpVs_eq as bs h]
      | lt => simp [hxy] at h
      | gt => simp [hxy] at h
end

end JrsVerif.StdArr
