/- C03 (round 3): store invariants of the definitional interpreter `Eval.run`.

   `Ext s t`   — "t is a later store than s": cells/objects are only appended, a cell that has been
                 touched (pending / done / failed) never changes again, the trace only grows.
   `Sim U s s'`— the two stores agree everywhere except on the CONTENTS of the thunk cells in `U`,
                 which are unevaluated (waiting / app) on the right.
   `Good U m`  — the computation `m` (a) only moves the store forward (`Ext`) and (b) cannot tell
                 `Sim U`-related stores apart as long as the cells of `U` are still unevaluated at
                 the end of the left run.
   `run_good`  — every task of the interpreter is `Good` (induction on fuel; one combinator lemma per
                 monadic construct, one tactic that walks the interpreter's `do` blocks).          -/
import JrsVerif.Model.Eval

namespace JrsVerif.EvalNeed
open JrsVerif.Eval

/-! ### running the monad -/

def exec {α} (m : M α) (s : St) : Except Stop α × St := m.run.run s

theorem exec_pure {α} (a : α) (s : St) : exec (pure a : M α) s = (.ok a, s) := rfl
theorem exec_throw {α} (e : Stop) (s : St) : exec (throw e : M α) s = (.error e, s) := rfl
theorem exec_bind {α β} (m : M α) (f : α → M β) (s : St) :
    exec (m >>= f) s = match exec m s with
      | (.ok a, s1) => exec (f a) s1
      | (.error e, s1) => (.error e, s1) := by
  simp only [exec, bind, ExceptT.bind, ExceptT.mk, ExceptT.run, StateT.bind, StateT.run, ExceptT.bindCont]
  cases h : m s with
  | mk r s1 => cases r <;> rfl
theorem exec_tryCatch {α} (m : M α) (h : Stop → M α) (s : St) :
    exec (tryCatch m h) s = match exec m s with
      | (.ok a, s1) => (.ok a, s1)
      | (.error e, s1) => exec (h e) s1 := by
  simp only [exec, tryCatch, tryCatchThe, MonadExceptOf.tryCatch, ExceptT.tryCatch, ExceptT.mk,
    ExceptT.run, StateT.bind, StateT.run, bind]
  cases h : m s with
  | mk r s1 => cases r <;> rfl
theorem exec_get (s : St) : exec (get : M St) s = (.ok s, s) := rfl
theorem exec_modify (f : St → St) (s : St) : exec (modify f : M Unit) s = (.ok (), f s) := rfl

/-! ### cells -/

/-- a cell whose body has not been started -/
def lazyCell : Cell → Bool
  | .waiting .. => true
  | .app .. => true
  | _ => false

def cellAt (s : St) (r : Ref) : Cell := s.cells.getD r .pending

theorem getD_push_lt {α} (a : Array α) (x d : α) (r : Nat) (h : r < a.size) :
    (a.push x).getD r d = a.getD r d := by
  simp [Array.getD_eq_getD_getElem?, Array.getElem?_push, Nat.ne_of_lt h]

theorem getD_push_eq {α} (a : Array α) (x d : α) : (a.push x).getD a.size d = x := by
  simp [Array.getD_eq_getD_getElem?]

theorem getD_set_ne {α} (a : Array α) (x d : α) (r r' : Nat) (h : r' ≠ r) :
    (a.setIfInBounds r x).getD r' d = a.getD r' d := by
  simp [Array.getD_eq_getD_getElem?, Ne.symm h]

theorem getD_set_eq {α} (a : Array α) (x d : α) (r : Nat) (h : r < a.size) :
    (a.setIfInBounds r x).getD r d = x := by
  simp [Array.getD_eq_getD_getElem?, h]

/-- `t` is a later store than `s` -/
structure Ext (s t : St) : Prop where
  size : s.cells.size ≤ t.cells.size
  keep : ∀ r, r < s.cells.size → lazyCell (cellAt s r) = false → cellAt t r = cellAt s r
  osize : s.objs.size ≤ t.objs.size
  okeep : ∀ o, o < s.objs.size → t.objs.getD o [] = s.objs.getD o []
  trace : s.trace <+: t.trace

theorem Ext.refl (s : St) : Ext s s :=
  ⟨Nat.le_refl _, fun _ _ _ => rfl, Nat.le_refl _, fun _ _ => rfl, List.prefix_refl _⟩

theorem Ext.trans {s t u : St} (h1 : Ext s t) (h2 : Ext t u) : Ext s u where
  size := Nat.le_trans h1.size h2.size
  keep := by
    intro r hr hl
    have e1 := h1.keep r hr hl
    rw [h2.keep r (Nat.lt_of_lt_of_le hr h1.size) (by rw [e1]; exact hl), e1]
  osize := Nat.le_trans h1.osize h2.osize
  okeep := by
    intro o ho
    rw [h2.okeep o (Nat.lt_of_lt_of_le ho h1.osize), h1.okeep o ho]
  trace := List.IsPrefix.trans h1.trace h2.trace

/-- a cell that is still unevaluated later was unevaluated (with whatever content) before -/
theorem Ext.lazy_back {s t : St} (h : Ext s t) (r : Ref) (hr : r < s.cells.size)
    (hl : lazyCell (cellAt t r) = true) : lazyCell (cellAt s r) = true := by
  cases hs : lazyCell (cellAt s r) with
  | true => rfl
  | false => rw [h.keep r hr hs, hs] at hl; cases hl

/-- the stores agree except on the contents of the (unevaluated) cells in `U` -/
structure Sim (U : Ref → Prop) (s s' : St) : Prop where
  size : s'.cells.size = s.cells.size
  same : ∀ r, ¬ U r → cellAt s' r = cellAt s r
  bound : ∀ r, U r → r < s.cells.size
  lz : ∀ r, U r → lazyCell (cellAt s' r) = true
  objs : s'.objs = s.objs
  cache : s'.cache = s.cache
  layerEnvs : s'.layerEnvs = s.layerEnvs
  asserted : s'.asserted = s.asserted
  asserting : s'.asserting = s.asserting
  trace : s'.trace = s.trace

/-- the cells of `U` are (still) unevaluated in `t` -/
def UL (U : Ref → Prop) (t : St) : Prop := ∀ r, U r → lazyCell (cellAt t r) = true

theorem UL.back {U : Ref → Prop} {s t : St} (h : Ext s t) (hb : ∀ r, U r → r < s.cells.size)
    (hu : UL U t) : UL U s :=
  fun r hr => h.lazy_back r (hb r hr) (hu r hr)

/-! ### the judgement -/

structure Good (U : Ref → Prop) {α} (m : M α) : Prop where
  ext : ∀ s, Ext s (exec m s).2
  sim : ∀ s s', Sim U s s' → UL U (exec m s).2 →
    (exec m s').1 = (exec m s).1 ∧ Sim U (exec m s).2 (exec m s').2

variable {U : Ref → Prop}

theorem Good.pure {α} (a : α) : Good U (pure a : M α) :=
  ⟨fun s => Ext.refl s, fun _ _ h _ => ⟨rfl, h⟩⟩

theorem Good.throw {α} (e : Stop) : Good U (throw e : M α) :=
  ⟨fun s => Ext.refl s, fun _ _ h _ => ⟨rfl, h⟩⟩

theorem Good.fail {α} (a b : String) : Good U (fail a b : M α) := Good.throw _
theorem Good.undecided {α} (a : String) : Good U (undecided a : M α) := Good.throw _

theorem Good.bind {α β} {m : M α} {f : α → M β} (hm : Good U m) (hf : ∀ a, Good U (f a)) :
    Good U (m >>= f) := by
  constructor
  · intro s
    rw [exec_bind]
    have h1 := hm.ext s
    cases h : exec m s with
    | mk r s1 =>
      rw [h] at h1
      cases r with
      | error e => exact h1
      | ok a => exact h1.trans ((hf a).ext s1)
  · intro s s' hs hu
    rw [exec_bind] at hu ⊢
    rw [exec_bind]
    have h1 := hm.ext s
    have h2 := hm.sim s s' hs
    cases h : exec m s with
    | mk r s1 =>
      rw [h] at h1 h2 hu
      cases h' : exec m s' with
      | mk r' s1' =>
        rw [h'] at h2
        cases r with
        | error e =>
          obtain ⟨e1, e2⟩ := h2 hu
          simp only at e1; subst e1
          exact ⟨rfl, e2⟩
        | ok a =>
          simp only at hu
          have hu1 : UL U s1 := UL.back ((hf a).ext s1) (fun r hr => Nat.lt_of_lt_of_le (hs.bound r hr) h1.size) hu
          obtain ⟨e1, e2⟩ := h2 hu1
          simp only at e1; subst e1
          exact (hf a).sim s1 s1' e2 hu

theorem Good.tryCatch {α} {m : M α} {f : Stop → M α} (hm : Good U m) (hf : ∀ e, Good U (f e)) :
    Good U (tryCatch m f) := by
  constructor
  · intro s
    rw [exec_tryCatch]
    have h1 := hm.ext s
    cases h : exec m s with
    | mk r s1 =>
      rw [h] at h1
      cases r with
      | ok a => exact h1
      | error e => exact h1.trans ((hf e).ext s1)
  · intro s s' hs hu
    rw [exec_tryCatch] at hu ⊢
    rw [exec_tryCatch]
    have h1 := hm.ext s
    have h2 := hm.sim s s' hs
    cases h : exec m s with
    | mk r s1 =>
      rw [h] at h1 h2 hu
      cases h' : exec m s' with
      | mk r' s1' =>
        rw [h'] at h2
        cases r with
        | ok a =>
          obtain ⟨e1, e2⟩ := h2 hu
          simp only at e1; subst e1
          exact ⟨rfl, e2⟩
        | error e =>
          simp only at hu
          have hu1 : UL U s1 := UL.back ((hf e).ext s1) (fun r hr => Nat.lt_of_lt_of_le (hs.bound r hr) h1.size) hu
          obtain ⟨e1, e2⟩ := h2 hu1
          simp only at e1; subst e1
          exact (hf e).sim s1 s1' e2 hu

theorem Good.forIn {α β} (l : List α) (init : β) (f : α → β → M (ForInStep β))
    (hf : ∀ a b, Good U (f a b)) : Good U (forIn l init f) := by
  induction l generalizing init with
  | nil => simp only [List.forIn_nil]; exact Good.pure _
  | cons a l ih =>
    simp only [List.forIn_cons]
    apply Good.bind (hf a init)
    intro r
    cases r with
    | done b => exact Good.pure _
    | yield b => exact ih b

/-- reading the store: the continuation may only depend on what `Sim` preserves -/
theorem Good.get_bind {β} {f : St → M β} (hf : ∀ s, Good U (f s))
    (hs : ∀ s s', Sim U s s' → f s' = f s) : Good U (get >>= f) := by
  constructor
  · intro s; rw [exec_bind, exec_get]; exact (hf s).ext s
  · intro s s' h hu
    rw [exec_bind, exec_get] at hu ⊢
    rw [exec_bind, exec_get]
    simp only at hu ⊢
    rw [hs s s' h]
    exact (hf s).sim s s' h hu


/-! ### primitives -/

theorem exec_alloc (c : Cell) (s : St) :
    exec (alloc c) s = (.ok s.cells.size, { s with cells := s.cells.push c }) := rfl
theorem exec_allocObj (ls : List Layer) (s : St) :
    exec (allocObj ls) s = (.ok s.objs.size, { s with objs := s.objs.push ls }) := rfl
theorem exec_layersOf (o : ObjId) (s : St) : exec (layersOf o) s = (.ok (s.objs.getD o []), s) := rfl
theorem exec_setCell (r : Ref) (c : Cell) (s : St) :
    exec (setCell r c) s = (.ok (), { s with cells := s.cells.setIfInBounds r c }) := rfl

theorem Ext.alloc (s : St) (c : Cell) : Ext s { s with cells := s.cells.push c } where
  size := by simp
  keep := fun r hr _ => getD_push_lt _ _ _ _ hr
  osize := Nat.le_refl _
  okeep := fun _ _ => rfl
  trace := List.prefix_refl _

theorem Sim.alloc {s s' : St} (h : Sim U s s') (c : Cell) :
    Sim U { s with cells := s.cells.push c } { s' with cells := s'.cells.push c } where
  size := by simp [h.size]
  same := by
    intro r hr
    show (s'.cells.push c).getD r .pending = (s.cells.push c).getD r .pending
    by_cases h1 : r < s.cells.size
    · rw [getD_push_lt _ _ _ _ h1, getD_push_lt _ _ _ _ (h.size ▸ h1)]; exact h.same r hr
    · by_cases h2 : r = s.cells.size
      · subst h2; rw [getD_push_eq]; rw [← h.size, getD_push_eq]
      · simp [Array.getD_eq_getD_getElem?, Array.getElem?_push, h.size, h2, h1]
  bound := fun r hr => by
    have := h.bound r hr
    show r < (s.cells.push c).size
    rw [Array.size_push]; exact Nat.lt_succ_of_lt this
  lz := by
    intro r hr
    show lazyCell ((s'.cells.push c).getD r .pending) = true
    rw [getD_push_lt _ _ _ _ (h.size ▸ h.bound r hr)]; exact h.lz r hr
  objs := h.objs
  cache := h.cache
  layerEnvs := h.layerEnvs
  asserted := h.asserted
  asserting := h.asserting
  trace := h.trace

theorem Good.alloc (c : Cell) : Good U (alloc c) :=
  ⟨fun s => Ext.alloc s c, fun s s' h _ => by
    simp only [exec_alloc]; exact ⟨by rw [h.size], h.alloc c⟩⟩

theorem Good.allocObj (ls : List Layer) : Good U (allocObj ls) := by
  constructor
  · intro s
    simp only [exec_allocObj]
    exact ⟨Nat.le_refl _, fun _ _ _ => rfl, by simp,
      fun o ho => getD_push_lt _ _ _ _ ho, List.prefix_refl _⟩
  · intro s s' h _
    simp only [exec_allocObj]
    exact ⟨by rw [h.objs], ⟨h.size, h.same, h.bound, h.lz, by simp only [h.objs], h.cache, h.layerEnvs,
      h.asserted, h.asserting, h.trace⟩⟩

theorem Good.layersOf (o : ObjId) : Good U (layersOf o) :=
  ⟨fun s => Ext.refl s, fun s s' h _ => by simp only [exec_layersOf]; exact ⟨by rw [h.objs], h⟩⟩

/-- a store update that leaves cells and objects alone and at most appends to the trace, and that
    is the same function of the parts `Sim` preserves -/
theorem Good.modify (f : St → St) (h1 : ∀ s, Ext s (f s))
    (h2 : ∀ s s', Sim U s s' → Sim U (f s) (f s')) : Good U (modify f : M Unit) :=
  ⟨fun s => h1 s, fun s s' h _ => by simp only [exec_modify]; exact ⟨trivial, h2 s s' h⟩⟩

theorem Good.expectVal (o : Out) : Good U (Eval.expectVal o) := by
  cases o <;> first | exact Good.pure _ | exact Good.undecided _

theorem Good.numStr (f : Float) : Good U (Eval.numStr f) := by
  unfold Eval.numStr; split
  · exact Good.pure _
  · exact Good.undecided _

end JrsVerif.EvalNeed
