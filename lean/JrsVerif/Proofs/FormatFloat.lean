/- C12 helper lemmas, float part: everything `render_float_digits` / `render_sci_digits` / the `%g`
   arm of `format_code` do with the text that Rust's float formatting returned (split at the point,
   sign, `#`, zero padding, width, trailing-zero stripping, exponent text) equals the reference
   text, for every flag set, width, precision and ALL digit data — whether or not they are the
   right digits of the number.  Proofs/FormatExact.lean instantiates this with the exact digits. -/
import JrsVerif.Proofs.Format

set_option linter.unusedSimpArgs false
set_option linter.unusedVariables false

namespace JrsVerif.Format
open JrsVerif.Generated
open JrsVerif.FormatSpec (digitsF digits zeros spaces stripZeros)

/-! ## positional digits -/

theorem digitsF_all_lt (b : Nat) (hb : 2 ≤ b) :
    ∀ fuel n, n ≤ fuel → ∀ x ∈ digitsF fuel b n, x < b := by
  intro fuel
  induction fuel with
  | zero => intro n hn x hx; simp only [digitsF, List.mem_singleton] at hx; omega
  | succ fuel ih =>
    intro n hn x hx
    simp only [digitsF] at hx
    by_cases hlt : n < b
    · simp only [hlt, if_true, List.mem_singleton] at hx; omega
    · simp only [hlt, if_false, List.mem_append, List.mem_singleton] at hx
      rcases hx with hx | hx
      · have : n / b < n := Nat.div_lt_self (by omega) (by omega)
        exact ih (n / b) (by omega) x hx
      · subst hx; exact Nat.mod_lt _ (by omega)

theorem digitsF_head (b : Nat) (hb : 2 ≤ b) :
    ∀ fuel n, n ≤ fuel → 0 < n → ∃ k rest, digitsF fuel b n = k :: rest ∧ 0 < k ∧ k < b := by
  intro fuel
  induction fuel with
  | zero => intro n hn h0; omega
  | succ fuel ih =>
    intro n hn h0
    simp only [digitsF]
    by_cases hlt : n < b
    · exact ⟨n, [], by simp [hlt], h0, hlt⟩
    · have hd : n / b < n := Nat.div_lt_self (by omega) (by omega)
      have hp : 0 < n / b := Nat.div_pos (by omega) (by omega)
      obtain ⟨k, rest, e, h1, h2⟩ := ih (n / b) (by omega) hp
      exact ⟨k, rest ++ [n % b], by simp [hlt, e], h1, h2⟩

theorem digitsF_length_le (b : Nat) (hb : 2 ≤ b) :
    ∀ fuel n k, n ≤ fuel → n < b ^ (k + 1) → (digitsF fuel b n).length ≤ k + 1 := by
  intro fuel
  induction fuel with
  | zero => intro n k _ _; simp [digitsF]
  | succ fuel ih =>
    intro n k hn hk
    simp only [digitsF]
    by_cases hlt : n < b
    · simp [hlt]
    · simp only [hlt, if_false, List.length_append, List.length_singleton]
      cases k with
      | zero => simp at hk; omega
      | succ k =>
        have hd : n / b < n := Nat.div_lt_self (by omega) (by omega)
        have h2 : n / b < b ^ (k + 1) := by
          apply Nat.div_lt_of_lt_mul
          rw [Nat.pow_succ, Nat.mul_comm] at hk; exact hk
        have := ih (n / b) k (by omega) h2
        omega

theorem digits_ne_nil (b n : Nat) : digits b n ≠ [] := by
  unfold digits
  cases n with
  | zero => simp [digitsF]
  | succ n =>
    simp only [digitsF]
    split <;> simp

/-- decimal digit characters of `n` -/
abbrev dec (n : Nat) : List Char := specDigits 10 n false

theorem dec_length_pos (n : Nat) : 1 ≤ (dec n).length := by
  have := digits_ne_nil 10 n
  unfold dec specDigits
  rw [List.length_map]
  cases h : digits 10 n with
  | nil => exact absurd h this
  | cons a l => simp

theorem dec_length_le (n q : Nat) (hq : 1 ≤ q) (h : n < 10 ^ q) : (dec n).length ≤ q := by
  unfold dec specDigits digits
  rw [List.length_map]
  obtain ⟨k, rfl⟩ : ∃ k, q = k + 1 := ⟨q - 1, by omega⟩
  exact digitsF_length_le 10 (by omega) n n k (Nat.le_refl _) h

theorem digitChar_not_sign : ∀ k, k < 10 →
    FormatSpec.digitChar false k ≠ '-' ∧ FormatSpec.digitChar false k ≠ '+' ∧
      FormatSpec.digitChar false k ≠ ' ' := by decide

theorem digitChar_pos_ne_zero : ∀ k, k < 10 → 0 < k → FormatSpec.digitChar false k ≠ '0' := by decide

theorem dec_zero : dec 0 = ['0'] := by decide

/-- the first character of a decimal number is a digit, never a sign character -/
theorem dec_head (n : Nat) : ∃ c r, dec n = c :: r ∧ c ≠ '-' ∧ c ≠ '+' ∧ c ≠ ' ' := by
  have hall := digitsF_all_lt 10 (by omega) n n (Nat.le_refl _)
  unfold dec specDigits digits
  cases h : digitsF n 10 n with
  | nil => exact absurd h (digits_ne_nil 10 n)
  | cons a l =>
    have := hall a (by rw [h]; simp)
    exact ⟨_, _, rfl, digitChar_not_sign a this⟩

/-- a positive number has a digit different from `0` -/
theorem dec_pos_has_nonzero (n : Nat) (h : 0 < n) : ∃ x ∈ dec n, x ≠ '0' := by
  obtain ⟨k, rest, e, h1, h2⟩ := digitsF_head 10 (by omega) n n (Nat.le_refl _) h
  refine ⟨FormatSpec.digitChar false k, ?_, digitChar_pos_ne_zero k h2 h1⟩
  unfold dec specDigits digits
  rw [e]; simp

/-! ## trailing zeros -/

theorem dropWhile_nil_iff {α : Type} (p : α → Bool) (l : List α) :
    l.dropWhile p = [] ↔ ∀ x ∈ l, p x = true := by
  induction l with
  | nil => simp
  | cons a l ih =>
    simp only [List.dropWhile_cons]
    cases h : p a
    · simp [h]
    · simp [h, ih]

theorem stripZeros_eq_nil_iff (l : List Char) : stripZeros l = [] ↔ ∀ x ∈ l, x = '0' := by
  unfold stripZeros
  rw [List.reverse_eq_nil_iff, dropWhile_nil_iff]
  simp

theorem trimZeros_eq (l : List Char) : trimZeros l = stripZeros l := rfl

/-! ## the text of a decimal number, and how the code takes it apart -/

theorem decText_eq (n : Nat) : FormatSpec.decText n = dec n := rfl

/-- the digit data of one precision: the integer part has a realistic size (every finite double is
    far below), the fraction is a remainder modulo `10^q` -/
def DigOK (q : Nat) (d : FDig) : Prop := d.whole < 2 ^ 4000 ∧ d.frac < 10 ^ q

/-- fraction digits, zero filled on the left to `q` places -/
def fracDigits (q : Nat) (d : FDig) : List Char := zeros (q - (dec d.frac).length) ++ dec d.frac

theorem fracText_eq (q : Nat) (d : FDig) : FormatSpec.fracText q d = fracDigits q d := rfl

theorem plainText_eq (q : Nat) (d : FDig) :
    FormatSpec.plainText q d = dec d.whole ++ (if q = 0 then [] else '.' :: fracDigits q d) := rfl

theorem fracDigits_length (q : Nat) (d : FDig) (hq : 1 ≤ q) (h : d.frac < 10 ^ q) :
    (fracDigits q d).length = q := by
  have := dec_length_le d.frac q hq h
  simp only [fracDigits, zeros, List.length_append, List.length_replicate]; omega

theorem dec_length_4000 (n : Nat) (h : n < 2 ^ 4000) : (dec n).length ≤ 4000 := by
  have := (specDigits_length_le 10 n 4000 false (by omega) h).2
  simpa [dec] using this

theorem digitChar_not_mark : ∀ k, k < 10 →
    FormatSpec.digitChar false k ≠ '.' ∧ FormatSpec.digitChar false k ≠ 'e' := by decide

theorem dec_mem (n : Nat) (x : Char) (hx : x ∈ dec n) : ∃ k, k < 10 ∧ x = FormatSpec.digitChar false k := by
  have hall := digitsF_all_lt 10 (by omega) n n (Nat.le_refl _)
  unfold dec specDigits digits at hx
  rw [List.mem_map] at hx
  obtain ⟨k, hk, rfl⟩ := hx
  exact ⟨k, hall k hk, rfl⟩

theorem dec_no_point (n : Nat) : '.' ∉ dec n := by
  intro h
  obtain ⟨k, hk, e⟩ := dec_mem n _ h
  exact (digitChar_not_mark k hk).1 e.symm

theorem dec_no_e (n : Nat) : 'e' ∉ dec n := by
  intro h
  obtain ⟨k, hk, e⟩ := dec_mem n _ h
  exact (digitChar_not_mark k hk).2 e.symm

theorem fracDigits_no_e (q : Nat) (d : FDig) : 'e' ∉ fracDigits q d := by
  intro h
  simp only [fracDigits, zeros, List.mem_append, List.mem_replicate] at h
  rcases h with h | h
  · exact absurd h.2 (by decide)
  · exact dec_no_e _ h

theorem plainText_no_e (q : Nat) (d : FDig) : 'e' ∉ FormatSpec.plainText q d := by
  intro h
  rw [plainText_eq] at h
  by_cases hq : q = 0
  · simp only [hq, if_true, List.append_nil] at h; exact dec_no_e _ h
  · simp only [hq, if_false, List.mem_append, List.mem_cons] at h
    rcases h with h | h | h
    · exact dec_no_e _ h
    · exact absurd h (by decide)
    · exact fracDigits_no_e _ _ h

/-- `split_once(c)` of a text whose first `c` is known -/
theorem splitOnce_append (c : Char) (a b : List Char) (h : c ∉ a) :
    splitOnce c (a ++ c :: b) = some (a, b) := by
  induction a with
  | nil => simp [splitOnce]
  | cons x xs ih =>
    have hx : x ≠ c := fun e => h (by simp [e])
    have hxs : c ∉ xs := fun e => h (by simp [e])
    simp [splitOnce, hx, ih hxs]

theorem splitOnce_none (c : Char) (a : List Char) (h : c ∉ a) : splitOnce c a = none := by
  induction a with
  | nil => rfl
  | cons x xs ih =>
    have hx : x ≠ c := fun e => h (by simp [e])
    have hxs : c ∉ xs := fun e => h (by simp [e])
    simp [splitOnce, hx, ih hxs]

/-- `digits.split_once('.').unwrap_or((digits, ""))` of a decimal number's text: the integer
    digits and the `q` fraction digits -/
theorem split_plain (q : Nat) (d : FDig) :
    (splitOnce '.' (FormatSpec.plainText q d)).getD (FormatSpec.plainText q d, [])
      = (dec d.whole, if q = 0 then [] else fracDigits q d) := by
  rw [plainText_eq]
  by_cases hq : q = 0
  · simp only [hq, if_true, List.append_nil]
    rw [splitOnce_none _ _ (dec_no_point _)]; rfl
  · simp only [hq, if_false]
    rw [splitOnce_append _ _ _ (dec_no_point _)]; rfl

/-- the part after the integer digits as `render_float_digits` writes it -/
def fracTail (q : Nat) (d : FDig) (alt trailing : Bool) : List Char :=
  let f := if q = 0 then [] else fracDigits q d
  let f := if trailing then f else stripZeros f
  (if !f.isEmpty || alt then ['.'] else []) ++ f

/-- `render_float_digits` never panics for a precision the guard of `format_code` lets through,
    and writes sign, zero padding, integer digits, fraction -/
theorem renderFloatDigits_ok (neg : Bool) (d : FDig) (P q : Nat) (blank sign alt trailing : Bool)
    (hq : q ≤ 308) (hd : DigOK q d) :
    renderFloatDigits neg (FormatSpec.plainText q d) P q blank sign alt trailing =
      .ok (signChars neg blank sign ++
        List.replicate (P - ((if q = 0 && !alt then 0 else 1) + q)
          - (if neg || blank || sign then 1 else 0) - (dec d.whole).length) '0'
        ++ dec d.whole ++ fracTail q d alt trailing) := by
  obtain ⟨hw, hfq⟩ := hd
  unfold renderFloatDigits
  rw [split_plain]
  have hno : ¬ ((if (q = 0 && !alt) = true then 0 else 1) + q > U16_MAX) := by
    unfold U16_MAX; split <;> omega
  simp only [bind, Except.bind, hno, if_false, pure, Except.pure]
  rw [renderDigits_ok _ _ _ _ _ _ [] false (by simp) (by have := dec_length_4000 _ hw; omega)]
  simp only [List.length_nil, Nat.sub_zero, Nat.zero_add, Bool.false_eq_true, if_false,
    List.append_nil, Nat.max_zero, fracTail, trimZeros_eq, List.append_assoc]
  rfl

/-- what the reference writes after the integer digits equals what `render_float_digits` writes -/
theorem fixedText_eq (q : Nat) (d : FDig) (alt trailing : Bool) :
    FormatSpec.fixedText d q alt trailing = dec d.whole ++ fracTail q d alt trailing := by
  unfold FormatSpec.fixedText fracTail
  have hF : (zeros (q - ((digits 10 d.frac).map (FormatSpec.digitChar false)).length) ++
      (digits 10 d.frac).map (FormatSpec.digitChar false)) = fracDigits q d := rfl
  simp only [hF]
  generalize (if trailing = true then (if q = 0 then [] else fracDigits q d)
    else stripZeros (if q = 0 then [] else fracDigits q d)) = f
  cases f with
  | nil => cases alt <;> simp [dec, specDigits]
  | cons a l => simp [dec, specDigits]

/-! ## exponent text -/

/-- sign and at least two digits of the exponent -/
def expTail (e : Int) : List Char :=
  [if e < 0 then '-' else '+'] ++ zeros (2 - (dec e.natAbs).length) ++ dec e.natAbs

theorem expText_eq (caps : Bool) (e : Int) :
    FormatSpec.expText caps e = [if caps then 'E' else 'e'] ++ expTail e := by
  simp [FormatSpec.expText, expTail, dec, specDigits]

theorem expStr_ok (e : Int) (he : e.natAbs < DBL_BOUND) :
    renderDecimal (decide (e < 0)) e.natAbs FMT_EXP_PADDING 0 false true = .ok (expTail e) := by
  unfold renderDecimal
  rw [renderInteger_ok _ _ _ _ _ _ 10 [] false false (by omega) (by simp) he]
  simp only [signChars, expTail, FMT_EXP_PADDING, zeros, Bool.or_true, if_true, List.length_nil,
    Nat.sub_zero, Nat.zero_add, Nat.max_zero, List.append_nil, Bool.false_eq_true, if_false]
  by_cases h : e < 0 <;> simp [h]

/-! ## zero / space filling of a float text = the reference `floatConv` -/

/-- `format_code`'s final padding -/
def padOut (fl : Flags) (w : Nat) (tmp : List Char) : List Char :=
  if fl.left then tmp ++ List.replicate (w - tmp.length) ' ' else List.replicate (w - tmp.length) ' ' ++ tmp

theorem formatCode_unfold (v : Val) (c : Code) (w : Nat) (p : Option Nat) :
    formatCode v c w p = (formatBody v c w p).map (padOut c.flags w) := by
  unfold formatCode padOut
  cases formatBody v c w p <;> rfl

/-- zero padding computed *inside* `render_float` (conversions e/E/f/F): correct because the
    fraction and exponent parts have the length the padding arithmetic assumed -/
theorem float_fill (fl : Flags) (w z : Nat) (neg : Bool) (W tail suf : List Char)
    (hz : z = (if fl.zero && !fl.left then w else 0) - (tail.length + suf.length)
      - (signChars neg fl.blank fl.sign).length - W.length) :
    padOut fl w (signChars neg fl.blank fl.sign ++ List.replicate z '0' ++ W ++ tail ++ suf)
      = FormatSpec.floatConv fl w neg (W ++ tail) suf := by
  subst hz
  unfold padOut FormatSpec.floatConv
  rw [signText_eq]
  generalize signChars neg fl.blank fl.sign = sgn
  unfold zeros spaces
  cases hl : fl.left <;> cases hzr : fl.zero <;>
    simp only [Bool.and_true, Bool.and_false, Bool.not_true, Bool.not_false, if_true, if_false,
      Bool.false_eq_true, List.length_append, List.length_replicate, List.append_assoc,
      Nat.zero_sub, List.replicate_zero, List.nil_append, Bool.true_and, Bool.false_and]
  · congr 2; omega
  · have h2 : w - (sgn.length + (w - (tail.length + suf.length) - sgn.length - W.length
        + (W.length + (tail.length + suf.length)))) = 0 := by omega
    rw [h2]
    simp only [List.replicate_zero, List.nil_append]
    congr 3; omega
  · congr 5; omega
  · congr 5; omega

/-- a sign text is empty or one of `-`, `+`, space -/
theorem signChars_cases (neg blank sign : Bool) :
    signChars neg blank sign = [] ∨ signChars neg blank sign = ['-'] ∨
      signChars neg blank sign = ['+'] ∨ signChars neg blank sign = [' '] := by
  cases neg <;> cases blank <;> cases sign <;> simp [signChars]

theorem zeroFill_nosign (w : Nat) (c : Char) (R : List Char) (hc : c ≠ '-' ∧ c ≠ '+' ∧ c ≠ ' ') :
    zeroFill w (c :: R) = List.replicate (w - (R.length + 1)) '0' ++ c :: R := by
  obtain ⟨h1, h2, h3⟩ := hc
  unfold zeroFill
  simp only [List.length_cons, h1, h2, h3, decide_false, Bool.or_self, Bool.false_eq_true, if_false]
  split
  · rfl
  · rename_i h
    have : w - (R.length + 1) = 0 := by omega
    rw [this]; rfl

theorem zeroFill_sign (w : Nat) (c : Char) (R : List Char) (hc : c = '-' ∨ c = '+' ∨ c = ' ') :
    zeroFill w (c :: R) = c :: (List.replicate (w - (R.length + 1)) '0' ++ R) := by
  unfold zeroFill
  have : (decide (c = '-') || decide (c = '+') || decide (c = ' ')) = true := by
    rcases hc with h | h | h <;> simp [h]
  simp only [List.length_cons, this, if_true]
  split
  · rfl
  · rename_i h
    have : w - (R.length + 1) = 0 := by omega
    rw [this]; rfl

/-- zero padding applied *after* rendering (`%g`, where trailing zeros may have been stripped):
    `insert_str(sign_len, "0".repeat(..))` puts the zeros between sign and digits -/
theorem g_fill (fl : Flags) (w : Nat) (neg : Bool) (c : Char) (r tail suf : List Char)
    (hc : c ≠ '-' ∧ c ≠ '+' ∧ c ≠ ' ') :
    padOut fl w (zeroFill (if fl.zero && !fl.left then w else 0)
        (signChars neg fl.blank fl.sign ++ (c :: r) ++ tail ++ suf))
      = FormatSpec.floatConv fl w neg ((c :: r) ++ tail) suf := by
  unfold FormatSpec.floatConv
  rw [signText_eq]
  by_cases hzl : (fl.zero && !fl.left) = true
  · have hl : fl.left = false := by
      cases h : fl.left <;> simp [h] at hzl ⊢
    have hzr : fl.zero = true := by
      cases h : fl.zero <;> simp [h] at hzl ⊢
    simp only [hzl, if_true, hl, hzr, Bool.false_eq_true, if_false, padOut, Bool.not_false, Bool.and_self]
    unfold zeros
    rcases signChars_cases neg fl.blank fl.sign with e | e | e | e <;> rw [e]
    · simp only [List.nil_append, List.cons_append, List.append_assoc]
      rw [zeroFill_nosign w c _ hc]
      simp only [List.length_append, List.length_replicate, List.length_cons, List.length_nil, Nat.zero_add]
      have : w - (w - ((r ++ (tail ++ suf)).length + 1) + ((r ++ (tail ++ suf)).length + 1)) = 0 := by omega
      simp only [List.length_append] at this
      rw [this]
      simp only [List.replicate_zero, List.nil_append, List.append_assoc, List.cons_append]
      congr 2; omega
    all_goals
      simp only [List.singleton_append, List.cons_append, List.append_assoc, List.nil_append]
      rw [zeroFill_sign w _ _ (by simp)]
      simp only [List.length_append, List.length_replicate, List.length_cons, List.length_nil, Nat.zero_add]
      have : w - (w - ((r ++ (tail ++ suf)).length + 1 + 1) + ((r ++ (tail ++ suf)).length + 1) + 1) = 0 := by omega
      simp only [List.length_append] at this
      rw [this]
      simp only [List.replicate_zero, List.nil_append, List.append_assoc, List.cons_append]
      congr 3; omega
  · simp only [Bool.not_eq_true] at hzl
    have hzf : zeroFill 0 (signChars neg fl.blank fl.sign ++ (c :: r) ++ tail ++ suf)
        = signChars neg fl.blank fl.sign ++ (c :: r) ++ tail ++ suf := by
      unfold zeroFill; simp
    simp only [hzl, Bool.false_eq_true, if_false, hzf, padOut]
    unfold zeros spaces
    cases hl : fl.left
    · have hz0 : fl.zero = false := by
        cases h : fl.zero <;> simp [h, hl] at hzl ⊢
      simp only [hz0, Bool.false_eq_true, if_false, List.length_append, List.append_assoc]
      congr 2; omega
    · simp only [if_true, List.length_append, List.append_assoc]
      congr 5; omega

/-! ## the float conversions, for all digit data -/

theorem fracTail_length (q : Nat) (d : FDig) (alt : Bool) (h : d.frac < 10 ^ q) :
    (fracTail q d alt true).length = (if q = 0 && !alt then 0 else 1) + q := by
  unfold fracTail
  by_cases hq0 : q = 0
  · subst hq0; cases alt <;> simp
  · have := fracDigits_length q d (by omega) h
    have hne : (fracDigits q d).isEmpty = false := by
      cases hf : fracDigits q d with
      | nil => rw [hf] at this; simp at this; omega
      | cons a l => rfl
    simp [hq0, this, hne]; omega

/-- `%f` / `%F` given the text of ANY digit data -/
theorem float_core_fixed (fl : Flags) (w : Nat) (neg : Bool) (d : FDig) (q : Nat) (alt : Bool)
    (hq : q ≤ 308) (hd : DigOK q d) :
    (renderFloatDigits neg (FormatSpec.plainText q d) (if fl.zero && !fl.left then w else 0) q
        fl.blank fl.sign alt true).map (padOut fl w)
      = .ok (FormatSpec.floatConv fl w neg (FormatSpec.fixedText d q alt true) []) := by
  rw [renderFloatDigits_ok _ _ _ _ _ _ _ _ hq hd, fixedText_eq]
  simp only [Except.map]
  have := float_fill fl w
    ((if fl.zero && !fl.left then w else 0) - ((if q = 0 && !alt then 0 else 1) + q)
      - (if neg || fl.blank || fl.sign then 1 else 0) - (dec d.whole).length)
    neg (dec d.whole) (fracTail q d alt true) []
    (by rw [fracTail_length _ _ _ hd.2, signChars_length]; simp)
  simp only [List.append_nil] at this
  rw [← this]

/-- `%e` / `%E` given the text of ANY digit data and any exponent -/
theorem float_core_sci (fl : Flags) (w : Nat) (neg : Bool) (e : Int) (d : FDig) (q : Nat) (alt caps : Bool)
    (hq : q ≤ 308) (hd : DigOK q d) (he : e.natAbs < DBL_BOUND) :
    (renderSciDigits neg (FormatSpec.plainText q d) e (if fl.zero && !fl.left then w else 0) q
        fl.blank fl.sign alt true caps).map (padOut fl w)
      = .ok (FormatSpec.floatConv fl w neg (FormatSpec.fixedText d q alt true) (FormatSpec.expText caps e)) := by
  unfold renderSciDigits
  simp only [bind, Except.bind, expStr_ok e he, pure, Except.pure]
  rw [renderFloatDigits_ok _ _ _ _ _ _ _ _ hq hd, fixedText_eq, expText_eq]
  simp only [Except.map]
  have := float_fill fl w
    ((if fl.zero && !fl.left then w else 0) - ((expTail e).length + 1) - ((if q = 0 && !alt then 0 else 1) + q)
      - (if neg || fl.blank || fl.sign then 1 else 0) - (dec d.whole).length)
    neg (dec d.whole) (fracTail q d alt true) ([if caps then 'E' else 'e'] ++ expTail e)
    (by rw [fracTail_length _ _ _ hd.2, signChars_length]
        simp only [List.length_append, List.length_singleton, List.length_cons, List.length_nil]
        omega)
  simp only [List.append_assoc] at this ⊢
  rw [← this]

/-- `%g` fixed form: rendered without padding, zero filled afterwards -/
theorem g_core_fixed (fl : Flags) (w : Nat) (neg : Bool) (d : FDig) (q : Nat) (alt : Bool)
    (hq : q ≤ 308) (hd : DigOK q d) :
    (renderFloatDigits neg (FormatSpec.plainText q d) 0 q fl.blank fl.sign alt alt).map
        (fun t => padOut fl w (zeroFill (if fl.zero && !fl.left then w else 0) t))
      = .ok (FormatSpec.floatConv fl w neg (FormatSpec.fixedText d q alt alt) []) := by
  rw [renderFloatDigits_ok _ _ _ _ _ _ _ _ hq hd, fixedText_eq]
  simp only [Except.map, Nat.zero_sub, List.replicate_zero, List.append_nil]
  obtain ⟨c, r, e, hc⟩ := dec_head d.whole
  rw [e]
  have := g_fill fl w neg c r (fracTail q d alt alt) [] hc
  simp only [List.append_nil] at this
  rw [← this]

/-- `%g` exponent form -/
theorem g_core_sci (fl : Flags) (w : Nat) (neg : Bool) (e : Int) (d : FDig) (q : Nat) (alt caps : Bool)
    (hq : q ≤ 308) (hd : DigOK q d) (he : e.natAbs < DBL_BOUND) :
    (renderSciDigits neg (FormatSpec.plainText q d) e 0 q fl.blank fl.sign alt alt caps).map
        (fun t => padOut fl w (zeroFill (if fl.zero && !fl.left then w else 0) t))
      = .ok (FormatSpec.floatConv fl w neg (FormatSpec.fixedText d q alt alt) (FormatSpec.expText caps e)) := by
  unfold renderSciDigits
  simp only [bind, Except.bind, expStr_ok e he, pure, Except.pure]
  rw [renderFloatDigits_ok _ _ _ _ _ _ _ _ hq hd, fixedText_eq, expText_eq]
  simp only [Except.map, Nat.zero_sub, List.replicate_zero, List.append_nil]
  obtain ⟨c, r, e', hc⟩ := dec_head d.whole
  rw [e']
  have := g_fill fl w neg c r (fracTail q d alt alt) ([if caps then 'E' else 'e'] ++ expTail e) hc
  simp only [List.append_assoc] at this ⊢
  rw [← this]

end JrsVerif.Format
