/- C12 helper lemmas, float part: everything `render_float` / `render_float_sci` / the `%g` arm of
   `format_code` do AFTER digit generation (sign, `#`, zero padding, width, trailing-zero
   stripping, exponent text, fixed/exponent form selection) equals the reference text, for every
   flag set, width, precision and all digit data. -/
import JrsVerif.Proofs.Format

set_option linter.unusedSimpArgs false
set_option linter.unusedVariables false

namespace JrsVerif.Format
open JrsVerif.Generated
open JrsVerif.FormatSpec (digitsF digits zeros spaces stripZeros)

/-! ## positional digits -/

theorem digitsF_all_lt (b : Nat) (hb : 2 ≤ b) :
    ∀ fuel n, n ≤ fuel → ∀ x ∈ digitsF fuel b n, x < b := by
  intro fuel
  induction fuel with
  | zero => intro n hn x hx; simp only [digitsF, List.mem_singleton] at hx; omega
  | succ fuel ih =>
    intro n hn x hx
    simp only [digitsF] at hx
    by_cases hlt : n < b
    · simp only [hlt, if_true, List.mem_singleton] at hx; omega
    · simp only [hlt, if_false, List.mem_append, List.mem_singleton] at hx
      rcases hx with hx | hx
      · have : n / b < n := Nat.div_lt_self (by omega) (by omega)
        exact ih (n / b) (by omega) x hx
      · subst hx; exact Nat.mod_lt _ (by omega)

theorem digitsF_head (b : Nat) (hb : 2 ≤ b) :
    ∀ fuel n, n ≤ fuel → 0 < n → ∃ k rest, digitsF fuel b n = k :: rest ∧ 0 < k ∧ k < b := by
  intro fuel
  induction fuel with
  | zero => intro n hn h0; omega
  | succ fuel ih =>
    intro n hn h0
    simp only [digitsF]
    by_cases hlt : n < b
    · exact ⟨n, [], by simp [hlt], h0, hlt⟩
    · have hd : n / b < n := Nat.div_lt_self (by omega) (by omega)
      have hp : 0 < n / b := Nat.div_pos (by omega) (by omega)
      obtain ⟨k, rest, e, h1, h2⟩ := ih (n / b) (by omega) hp
      exact ⟨k, rest ++ [n % b], by simp [hlt, e], h1, h2⟩

theorem digitsF_length_le (b : Nat) (hb : 2 ≤ b) :
    ∀ fuel n k, n ≤ fuel → n < b ^ (k + 1) → (digitsF fuel b n).length ≤ k + 1 := by
  intro fuel
  induction fuel with
  | zero => intro n k _ _; simp [digitsF]
  | succ fuel ih =>
    intro n k hn hk
    simp only [digitsF]
    by_cases hlt : n < b
    · simp [hlt]
    · simp only [hlt, if_false, List.length_append, List.length_singleton]
      cases k with
      | zero => simp at hk; omega
      | succ k =>
        have hd : n / b < n := Nat.div_lt_self (by omega) (by omega)
        have h2 : n / b < b ^ (k + 1) := by
          apply Nat.div_lt_of_lt_mul
          rw [Nat.pow_succ, Nat.mul_comm] at hk; exact hk
        have := ih (n / b) k (by omega) h2
        omega

theorem digits_ne_nil (b n : Nat) : digits b n ≠ [] := by
  unfold digits
  cases n with
  | zero => simp [digitsF]
  | succ n =>
    simp only [digitsF]
    split <;> simp

/-- decimal digit characters of `n` -/
abbrev dec (n : Nat) : List Char := specDigits 10 n false

theorem dec_length_pos (n : Nat) : 1 ≤ (dec n).length := by
  have := digits_ne_nil 10 n
  unfold dec specDigits
  rw [List.length_map]
  cases h : digits 10 n with
  | nil => exact absurd h this
  | cons a l => simp

theorem dec_length_le (n q : Nat) (hq : 1 ≤ q) (h : n < 10 ^ q) : (dec n).length ≤ q := by
  unfold dec specDigits digits
  rw [List.length_map]
  obtain ⟨k, rfl⟩ : ∃ k, q = k + 1 := ⟨q - 1, by omega⟩
  exact digitsF_length_le 10 (by omega) n n k (Nat.le_refl _) h

theorem digitChar_not_sign : ∀ k, k < 10 →
    FormatSpec.digitChar false k ≠ '-' ∧ FormatSpec.digitChar false k ≠ '+' ∧
      FormatSpec.digitChar false k ≠ ' ' := by decide

theorem digitChar_pos_ne_zero : ∀ k, k < 10 → 0 < k → FormatSpec.digitChar false k ≠ '0' := by decide

theorem dec_zero : dec 0 = ['0'] := by decide

/-- the first character of a decimal number is a digit, never a sign character -/
theorem dec_head (n : Nat) : ∃ c r, dec n = c :: r ∧ c ≠ '-' ∧ c ≠ '+' ∧ c ≠ ' ' := by
  have hall := digitsF_all_lt 10 (by omega) n n (Nat.le_refl _)
  unfold dec specDigits digits
  cases h : digitsF n 10 n with
  | nil => exact absurd h (digits_ne_nil 10 n)
  | cons a l =>
    have := hall a (by rw [h]; simp)
    exact ⟨_, _, rfl, digitChar_not_sign a this⟩

/-- a positive number has a digit different from `0` -/
theorem dec_pos_has_nonzero (n : Nat) (h : 0 < n) : ∃ x ∈ dec n, x ≠ '0' := by
  obtain ⟨k, rest, e, h1, h2⟩ := digitsF_head 10 (by omega) n n (Nat.le_refl _) h
  refine ⟨FormatSpec.digitChar false k, ?_, digitChar_pos_ne_zero k h2 h1⟩
  unfold dec specDigits digits
  rw [e]; simp

/-! ## trailing zeros -/

theorem dropWhile_nil_iff {α : Type} (p : α → Bool) (l : List α) :
    l.dropWhile p = [] ↔ ∀ x ∈ l, p x = true := by
  induction l with
  | nil => simp
  | cons a l ih =>
    simp only [List.dropWhile_cons]
    cases h : p a
    · simp [h]
    · simp [h, ih]

theorem stripZeros_eq_nil_iff (l : List Char) : stripZeros l = [] ↔ ∀ x ∈ l, x = '0' := by
  unfold stripZeros
  rw [List.reverse_eq_nil_iff, dropWhile_nil_iff]
  simp

theorem trimZeros_eq (l : List Char) : trimZeros l = stripZeros l := rfl

/-! ## `render_float` -/

/-- the digit data of one precision is what the digit pipeline can produce: both parts are
    doubles, and the fraction is a remainder modulo `10^q` -/
def DigOK (q : Nat) (d : FDig) : Prop := d.whole < DBL_BOUND ∧ d.frac < DBL_BOUND ∧ d.frac < 10 ^ q

/-- fraction digits, zero filled on the left to `q` places -/
def fracDigits (q : Nat) (d : FDig) : List Char := zeros (q - (dec d.frac).length) ++ dec d.frac

theorem fracDigits_length (q : Nat) (d : FDig) (hq : 1 ≤ q) (h : d.frac < 10 ^ q) :
    (fracDigits q d).length = q := by
  have := dec_length_le d.frac q hq h
  simp only [fracDigits, zeros, List.length_append, List.length_replicate]; omega

/-- the part after the integer digits as `render_float` writes it -/
def fracTail (q : Nat) (d : FDig) (alt trailing : Bool) : List Char :=
  if q = 0 then (if alt then ['.'] else [])
  else if trailing || decide (d.frac > 0) then
    ['.'] ++ (if trailing then fracDigits q d else stripZeros (fracDigits q d))
  else (if alt then ['.'] else [])

/-- `render_float` never panics for a precision the guard of `format_code` lets through, and
    writes sign, zero padding, integer digits, fraction -/
theorem renderFloat_ok (neg : Bool) (d : FDig) (P q : Nat) (blank sign alt trailing : Bool)
    (hq : q ≤ 308) (hd : DigOK q d) :
    renderFloat neg d P q blank sign alt trailing =
      .ok (signChars neg blank sign ++
        List.replicate (P - ((if q = 0 && !alt then 0 else 1) + q)
          - (if neg || blank || sign then 1 else 0) - (dec d.whole).length) '0'
        ++ dec d.whole ++ fracTail q d alt trailing) := by
  obtain ⟨hw, hf, hfq⟩ := hd
  unfold renderFloat
  have hno : ¬ ((if (q = 0 && !alt) = true then 0 else 1) + q > U16_MAX) := by
    unfold U16_MAX; split <;> omega
  simp only [bind, Except.bind, hno, if_false, renderDecimal, pure, Except.pure]
  rw [renderInteger_ok _ _ _ _ _ _ 10 [] false false (by omega) (by simp) hw]
  simp only [List.length_nil, Nat.sub_zero, Nat.zero_add, Bool.false_eq_true, if_false,
    List.append_nil, Nat.max_zero]
  by_cases hq0 : q = 0
  · subst hq0
    simp only [if_true, fracTail, decide_true, Bool.true_and]
    cases alt <;> simp
  · have hq1 : 1 ≤ q := by omega
    simp only [hq0, if_false, fracTail, decide_false, Bool.false_and, Bool.false_eq_true]
    by_cases ht : (trailing || decide (d.frac > 0)) = true
    · simp only [ht, if_true]
      rw [renderInteger_ok _ _ _ _ _ _ 10 [] false false (by omega) (by simp) hf]
      simp only [signChars, Bool.false_eq_true, if_false, List.nil_append, List.length_nil,
        Nat.sub_zero, Nat.zero_add, Nat.max_zero, Bool.or_self, List.append_nil, trimZeros_eq,
        List.append_assoc, fracDigits, zeros]
    · simp only [ht, Bool.false_eq_true, if_false]
      cases alt <;> simp

/-- what the reference writes after the integer digits equals what `render_float` writes -/
theorem fixedText_eq (q : Nat) (d : FDig) (alt trailing : Bool) (h : d.frac < 10 ^ q) :
    FormatSpec.fixedText d q alt trailing = dec d.whole ++ fracTail q d alt trailing := by
  unfold FormatSpec.fixedText fracTail
  by_cases hq0 : q = 0
  · subst hq0
    cases trailing <;> cases alt <;> simp [stripZeros, dec, specDigits]
  · have hq1 : 1 ≤ q := by omega
    have hF : (zeros (q - ((digits 10 d.frac).map (FormatSpec.digitChar false)).length) ++
        (digits 10 d.frac).map (FormatSpec.digitChar false)) = fracDigits q d := rfl
    simp only [hq0, if_false, hF]
    have hlen := fracDigits_length q d hq1 h
    cases trailing with
    | true =>
      have hne : fracDigits q d ≠ [] := by
        intro e; rw [e] at hlen; simp at hlen; omega
      simp [hne, dec, specDigits]
    | false =>
      simp only [Bool.false_or, Bool.false_eq_true, if_false]
      by_cases hpos : d.frac > 0
      · obtain ⟨x, hx, hx0⟩ := dec_pos_has_nonzero d.frac hpos
        have hne : stripZeros (fracDigits q d) ≠ [] := by
          intro e
          rw [stripZeros_eq_nil_iff] at e
          exact hx0 (e x (by simp [fracDigits, hx]))
        simp [hne, hpos, dec, specDigits]
      · have h0 : d.frac = 0 := by omega
        have he : stripZeros (fracDigits q d) = [] := by
          rw [stripZeros_eq_nil_iff]
          intro x hx
          simp only [fracDigits, h0, dec_zero, zeros, List.mem_append, List.mem_replicate,
            List.mem_singleton] at hx
          rcases hx with hx | hx
          · exact hx.2
          · exact hx
        cases alt <;> simp [he, hpos, dec, specDigits]

/-! ## exponent text -/

/-- sign and at least two digits of the exponent -/
def expTail (e : Int) : List Char :=
  [if e < 0 then '-' else '+'] ++ zeros (2 - (dec e.natAbs).length) ++ dec e.natAbs

theorem expText_eq (caps : Bool) (e : Int) :
    FormatSpec.expText caps e = [if caps then 'E' else 'e'] ++ expTail e := by
  simp [FormatSpec.expText, expTail, dec, specDigits]

theorem expStr_ok (e : Int) (he : e.natAbs < DBL_BOUND) :
    renderDecimal (decide (e < 0)) e.natAbs FMT_EXP_PADDING 0 false true = .ok (expTail e) := by
  unfold renderDecimal
  rw [renderInteger_ok _ _ _ _ _ _ 10 [] false false (by omega) (by simp) he]
  simp only [signChars, expTail, FMT_EXP_PADDING, zeros, Bool.or_true, if_true, List.length_nil,
    Nat.sub_zero, Nat.zero_add, Nat.max_zero, List.append_nil, Bool.false_eq_true, if_false]
  by_cases h : e < 0 <;> simp [h]

/-! ## zero / space filling of a float text = the reference `floatConv` -/

/-- `format_code`'s final padding -/
def padOut (fl : Flags) (w : Nat) (tmp : List Char) : List Char :=
  if fl.left then tmp ++ List.replicate (w - tmp.length) ' ' else List.replicate (w - tmp.length) ' ' ++ tmp

theorem formatCode_unfold (v : Val) (c : Code) (w : Nat) (p : Option Nat) :
    formatCode v c w p = (formatBody v c w p).map (padOut c.flags w) := by
  unfold formatCode padOut
  cases formatBody v c w p <;> rfl

/-- zero padding computed *inside* `render_float` (conversions e/E/f/F): correct because the
    fraction and exponent parts have the length the padding arithmetic assumed -/
theorem float_fill (fl : Flags) (w z : Nat) (neg : Bool) (W tail suf : List Char)
    (hz : z = (if fl.zero && !fl.left then w else 0) - (tail.length + suf.length)
      - (signChars neg fl.blank fl.sign).length - W.length) :
    padOut fl w (signChars neg fl.blank fl.sign ++ List.replicate z '0' ++ W ++ tail ++ suf)
      = FormatSpec.floatConv fl w neg (W ++ tail) suf := by
  subst hz
  unfold padOut FormatSpec.floatConv
  rw [signText_eq]
  generalize signChars neg fl.blank fl.sign = sgn
  unfold zeros spaces
  cases hl : fl.left <;> cases hzr : fl.zero <;>
    simp only [Bool.and_true, Bool.and_false, Bool.not_true, Bool.not_false, if_true, if_false,
      Bool.false_eq_true, List.length_append, List.length_replicate, List.append_assoc,
      Nat.zero_sub, List.replicate_zero, List.nil_append, Bool.true_and, Bool.false_and]
  · congr 2; omega
  · have h2 : w - (sgn.length + (w - (tail.length + suf.length) - sgn.length - W.length
        + (W.length + (tail.length + suf.length)))) = 0 := by omega
    rw [h2]
    simp only [List.replicate_zero, List.nil_append]
    congr 3; omega
  · congr 5; omega
  · congr 5; omega

/-- a sign text is empty or one of `-`, `+`, space -/
theorem signChars_cases (neg blank sign : Bool) :
    signChars neg blank sign = [] ∨ signChars neg blank sign = ['-'] ∨
      signChars neg blank sign = ['+'] ∨ signChars neg blank sign = [' '] := by
  cases neg <;> cases blank <;> cases sign <;> simp [signChars]

theorem zeroFill_nosign (w : Nat) (c : Char) (R : List Char) (hc : c ≠ '-' ∧ c ≠ '+' ∧ c ≠ ' ') :
    zeroFill w (c :: R) = List.replicate (w - (R.length + 1)) '0' ++ c :: R := by
  obtain ⟨h1, h2, h3⟩ := hc
  unfold zeroFill
  simp only [List.length_cons, h1, h2, h3, decide_false, Bool.or_self, Bool.false_eq_true, if_false]
  split
  · rfl
  · rename_i h
    have : w - (R.length + 1) = 0 := by omega
    rw [this]; rfl

theorem zeroFill_sign (w : Nat) (c : Char) (R : List Char) (hc : c = '-' ∨ c = '+' ∨ c = ' ') :
    zeroFill w (c :: R) = c :: (List.replicate (w - (R.length + 1)) '0' ++ R) := by
  unfold zeroFill
  have : (decide (c = '-') || decide (c = '+') || decide (c = ' ')) = true := by
    rcases hc with h | h | h <;> simp [h]
  simp only [List.length_cons, this, if_true]
  split
  · rfl
  · rename_i h
    have : w - (R.length + 1) = 0 := by omega
    rw [this]; rfl

/-- zero padding applied *after* rendering (`%g`, where trailing zeros may have been stripped):
    `insert_str(sign_len, "0".repeat(..))` puts the zeros between sign and digits -/
theorem g_fill (fl : Flags) (w : Nat) (neg : Bool) (c : Char) (r tail suf : List Char)
    (hc : c ≠ '-' ∧ c ≠ '+' ∧ c ≠ ' ') :
    padOut fl w (zeroFill (if fl.zero && !fl.left then w else 0)
        (signChars neg fl.blank fl.sign ++ (c :: r) ++ tail ++ suf))
      = FormatSpec.floatConv fl w neg ((c :: r) ++ tail) suf := by
  unfold FormatSpec.floatConv
  rw [signText_eq]
  by_cases hzl : (fl.zero && !fl.left) = true
  · have hl : fl.left = false := by
      cases h : fl.left <;> simp [h] at hzl ⊢
    have hzr : fl.zero = true := by
      cases h : fl.zero <;> simp [h] at hzl ⊢
    simp only [hzl, if_true, hl, hzr, Bool.false_eq_true, if_false, padOut, Bool.not_false, Bool.and_self]
    unfold zeros
    rcases signChars_cases neg fl.blank fl.sign with e | e | e | e <;> rw [e]
    · simp only [List.nil_append, List.cons_append, List.append_assoc]
      rw [zeroFill_nosign w c _ hc]
      simp only [List.length_append, List.length_replicate, List.length_cons, List.length_nil, Nat.zero_add]
      have : w - (w - ((r ++ (tail ++ suf)).length + 1) + ((r ++ (tail ++ suf)).length + 1)) = 0 := by omega
      simp only [List.length_append] at this
      rw [this]
      simp only [List.replicate_zero, List.nil_append, List.append_assoc, List.cons_append]
      congr 2; omega
    all_goals
      simp only [List.singleton_append, List.cons_append, List.append_assoc, List.nil_append]
      rw [zeroFill_sign w _ _ (by simp)]
      simp only [List.length_append, List.length_replicate, List.length_cons, List.length_nil, Nat.zero_add]
      have : w - (w - ((r ++ (tail ++ suf)).length + 1 + 1) + ((r ++ (tail ++ suf)).length + 1) + 1) = 0 := by omega
      simp only [List.length_append] at this
      rw [this]
      simp only [List.replicate_zero, List.nil_append, List.append_assoc, List.cons_append]
      congr 3; omega
  · simp only [Bool.not_eq_true] at hzl
    have hzf : zeroFill 0 (signChars neg fl.blank fl.sign ++ (c :: r) ++ tail ++ suf)
        = signChars neg fl.blank fl.sign ++ (c :: r) ++ tail ++ suf := by
      unfold zeroFill; simp
    simp only [hzl, Bool.false_eq_true, if_false, hzf, padOut]
    unfold zeros spaces
    cases hl : fl.left
    · have hz0 : fl.zero = false := by
        cases h : fl.zero <;> simp [h, hl] at hzl ⊢
      simp only [hz0, Bool.false_eq_true, if_false, List.length_append, List.append_assoc]
      congr 2; omega
    · simp only [if_true, List.length_append, List.append_assoc]
      congr 5; omega

/-! ## the three float conversions -/

theorem fracTail_length (q : Nat) (d : FDig) (alt : Bool) (h : d.frac < 10 ^ q) :
    (fracTail q d alt true).length = (if q = 0 && !alt then 0 else 1) + q := by
  unfold fracTail
  by_cases hq0 : q = 0
  · subst hq0; cases alt <;> simp
  · have := fracDigits_length q d (by omega) h
    simp [hq0, this]; omega

/-- `%f` / `%F` after digit generation -/
theorem float_core_fixed (fl : Flags) (w : Nat) (neg : Bool) (d : FDig) (q : Nat) (alt : Bool)
    (hq : q ≤ 308) (hd : DigOK q d) :
    (renderFloat neg d (if fl.zero && !fl.left then w else 0) q fl.blank fl.sign alt true).map (padOut fl w)
      = .ok (FormatSpec.floatConv fl w neg (FormatSpec.fixedText d q alt true) []) := by
  rw [renderFloat_ok _ _ _ _ _ _ _ _ hq hd, fixedText_eq _ _ _ _ hd.2.2]
  simp only [Except.map]
  have := float_fill fl w
    ((if fl.zero && !fl.left then w else 0) - ((if q = 0 && !alt then 0 else 1) + q)
      - (if neg || fl.blank || fl.sign then 1 else 0) - (dec d.whole).length)
    neg (dec d.whole) (fracTail q d alt true) []
    (by rw [fracTail_length _ _ _ hd.2.2, signChars_length]; simp)
  simp only [List.append_nil] at this
  rw [← this]

/-- `%e` / `%E` after digit generation -/
theorem float_core_sci (fl : Flags) (w : Nat) (neg : Bool) (e : Int) (d : FDig) (q : Nat) (alt caps : Bool)
    (hq : q ≤ 308) (hd : DigOK q d) (he : e.natAbs < DBL_BOUND) :
    (renderFloatSci neg e d (if fl.zero && !fl.left then w else 0) q fl.blank fl.sign alt true caps).map
        (padOut fl w)
      = .ok (FormatSpec.floatConv fl w neg (FormatSpec.fixedText d q alt true) (FormatSpec.expText caps e)) := by
  unfold renderFloatSci
  simp only [bind, Except.bind, expStr_ok e he, pure, Except.pure]
  rw [renderFloat_ok _ _ _ _ _ _ _ _ hq hd, fixedText_eq _ _ _ _ hd.2.2, expText_eq]
  simp only [Except.map]
  have := float_fill fl w
    ((if fl.zero && !fl.left then w else 0) - ((expTail e).length + 1) - ((if q = 0 && !alt then 0 else 1) + q)
      - (if neg || fl.blank || fl.sign then 1 else 0) - (dec d.whole).length)
    neg (dec d.whole) (fracTail q d alt true) ([if caps then 'E' else 'e'] ++ expTail e)
    (by rw [fracTail_length _ _ _ hd.2.2, signChars_length]
        simp only [List.length_append, List.length_singleton, List.length_cons, List.length_nil]
        omega)
  simp only [List.append_assoc] at this ⊢
  rw [← this]

/-- `%g` fixed form: rendered without padding, zero filled afterwards -/
theorem g_core_fixed (fl : Flags) (w : Nat) (neg : Bool) (d : FDig) (q : Nat) (alt : Bool)
    (hq : q ≤ 308) (hd : DigOK q d) :
    (renderFloat neg d 0 q fl.blank fl.sign alt alt).map
        (fun t => padOut fl w (zeroFill (if fl.zero && !fl.left then w else 0) t))
      = .ok (FormatSpec.floatConv fl w neg (FormatSpec.fixedText d q alt alt) []) := by
  rw [renderFloat_ok _ _ _ _ _ _ _ _ hq hd, fixedText_eq _ _ _ _ hd.2.2]
  simp only [Except.map, Nat.zero_sub, List.replicate_zero, List.append_nil]
  obtain ⟨c, r, e, hc⟩ := dec_head d.whole
  rw [e]
  have := g_fill fl w neg c r (fracTail q d alt alt) [] hc
  simp only [List.append_nil] at this
  rw [← this]

/-- `%g` exponent form -/
theorem g_core_sci (fl : Flags) (w : Nat) (neg : Bool) (e : Int) (d : FDig) (q : Nat) (alt caps : Bool)
    (hq : q ≤ 308) (hd : DigOK q d) (he : e.natAbs < DBL_BOUND) :
    (renderFloatSci neg e d 0 q fl.blank fl.sign alt alt caps).map
        (fun t => padOut fl w (zeroFill (if fl.zero && !fl.left then w else 0) t))
      = .ok (FormatSpec.floatConv fl w neg (FormatSpec.fixedText d q alt alt) (FormatSpec.expText caps e)) := by
  unfold renderFloatSci
  simp only [bind, Except.bind, expStr_ok e he, pure, Except.pure]
  rw [renderFloat_ok _ _ _ _ _ _ _ _ hq hd, fixedText_eq _ _ _ _ hd.2.2, expText_eq]
  simp only [Except.map, Nat.zero_sub, List.replicate_zero, List.append_nil]
  obtain ⟨c, r, e', hc⟩ := dec_head d.whole
  rw [e']
  have := g_fill fl w neg c r (fracTail q d alt alt) ([if caps then 'E' else 'e'] ++ expTail e) hc
  simp only [List.append_assoc] at this ⊢
  rw [← this]

/-- the oracle data of a number is what the digit pipeline can produce -/
def OracleOK (n : Num) : Prop :=
  (∀ q d, n.fix.lookup q = some d → DigOK q d) ∧ (∀ q d, n.sci.lookup q = some d → DigOK q d) ∧
    n.exp.natAbs < DBL_BOUND

theorem lookupDig_eq (l : List (Nat × FDig)) (p : Nat) : lookupDig l p = FormatSpec.lookupDig l p := rfl

theorem lookupDig_ok (l : List (Nat × FDig)) (p : Nat) (d : FDig) (h : FormatSpec.lookupDig l p = .ok d) :
    l.lookup p = some d := by
  unfold FormatSpec.lookupDig at h
  cases hl : l.lookup p with
  | none => rw [hl] at h; cases h
  | some x => rw [hl] at h; injection h with h; rw [h]

/-- e/E/f/F/g/G: model = reference for every flag set, width, precision and all digit data -/
theorem formatCode_float (n : Num) (disp : List Char) (c : Code) (w : Nat) (p : Option Nat)
    (hc : c.conv = .sci ∨ c.conv = .flt ∨ c.conv = .shorter) (ho : OracleOK n) :
    formatCode (.num n disp) c w p = FormatSpec.conv c w p (.num n disp) := by
  obtain ⟨hfix, hsci, hexp⟩ := ho
  rw [formatCode_unfold]
  unfold formatBody FormatSpec.conv
  delta FMT_DEFAULT_FPPREC FMT_MAX_FPPREC FMT_G_LOW_EXP FormatSpec.maxFloatPrec
  simp only [Val.asNum, FormatSpec.needNum, lookupDig_eq]
  by_cases hbig : p.getD 6 > 308
  · rcases hc with h | h | h <;>
      simp [h, hbig, Except.map, bind, Except.bind, throw, throwThe, MonadExceptOf.throw]
  · have hle : p.getD 6 ≤ 308 := by omega
    rcases hc with h | h | h
    · -- %e
      simp only [h, hbig, decide_false, Bool.false_and, Bool.false_eq_true, if_false, bind, Except.bind,
        pure, Except.pure]
      cases hl : FormatSpec.lookupDig n.sci (p.getD 6) with
      | error e => rfl
      | ok d =>
        have hd := hsci _ _ (lookupDig_ok _ _ _ hl)
        simp only []
        rw [float_core_sci c.flags w n.neg n.exp d _ c.flags.alt c.caps hle hd hexp]
    · -- %f
      simp only [h, hbig, decide_false, Bool.false_and, Bool.false_eq_true, if_false, bind, Except.bind,
        pure, Except.pure]
      cases hl : FormatSpec.lookupDig n.fix (p.getD 6) with
      | error e => rfl
      | ok d =>
        have hd := hfix _ _ (lookupDig_ok _ _ _ hl)
        simp only []
        rw [float_core_fixed c.flags w n.neg d _ c.flags.alt hle hd]
    · -- %g
      simp only [h, hbig, decide_false, Bool.false_and, Bool.false_eq_true, if_false, bind, Except.bind,
        pure, Except.pure]
      have hm : max (p.getD 6) 1 - 1 ≤ 308 := by omega
      by_cases hform : (decide (n.exp < -((4 : Nat) : Int)) || decide (n.exp ≥ ((max (p.getD 6) 1 : Nat) : Int))) = true
      · have hform' : (decide (n.exp < -4) || decide (n.exp ≥ ((max (p.getD 6) 1 : Nat) : Int))) = true := hform
        simp only [hform, hform', if_true]
        cases hl : FormatSpec.lookupDig n.sci (max (p.getD 6) 1 - 1) with
        | error e => rfl
        | ok d =>
          have hd := hsci _ _ (lookupDig_ok _ _ _ hl)
          have := g_core_sci c.flags w n.neg n.exp d _ c.flags.alt c.caps hm hd hexp
          simp only [] at this ⊢
          cases hr : renderFloatSci n.neg n.exp d 0 (max (p.getD 6) 1 - 1) c.flags.blank c.flags.sign
              c.flags.alt c.flags.alt c.caps with
          | error e => rw [hr] at this; cases this
          | ok t =>
            rw [hr] at this
            simp only [Except.map, Except.ok.injEq] at this
            simp only [Except.map, this]
      · simp only [Bool.not_eq_true] at hform
        have hform' : (decide (n.exp < -4) || decide (n.exp ≥ ((max (p.getD 6) 1 : Nat) : Int))) = false := hform
        simp only [hform, hform', Bool.false_eq_true, if_false]
        have hm2 : max (p.getD 6) 1 - max 1 (n.exp.toNat + 1) ≤ 308 := by omega
        cases hl : FormatSpec.lookupDig n.fix (max (p.getD 6) 1 - max 1 (n.exp.toNat + 1)) with
        | error e => rfl
        | ok d =>
          have hd := hfix _ _ (lookupDig_ok _ _ _ hl)
          have := g_core_fixed c.flags w n.neg d _ c.flags.alt hm2 hd
          simp only [] at this ⊢
          cases hr : renderFloat n.neg d 0 (max (p.getD 6) 1 - max 1 (n.exp.toNat + 1)) c.flags.blank
              c.flags.sign c.flags.alt c.flags.alt with
          | error e => rw [hr] at this; cases this
          | ok t =>
            rw [hr] at this
            simp only [Except.map, Except.ok.injEq] at this
            simp only [Except.map, this]

end JrsVerif.Format
