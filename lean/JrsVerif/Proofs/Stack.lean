/- Lemmas about the frame-counter machine of Model/Stack.lean (core Lean only). -/
import JrsVerif.Model.Stack

namespace JrsVerif.Stack

/-- the counter is back where it started whatever happened in between -/
theorem run_cur : ∀ (p : Prog) (s : St) (r : Res), run s p = some r → r.st.cur = s.cur := by
  intro p
  induction p with
  | skip => intro s r h; simp only [run, Option.some.injEq] at h; subst h; rfl
  | fail => intro s r h; simp only [run, Option.some.injEq] at h; subst h; rfl
  | seq a b iha ihb =>
    intro s r h
    simp only [run] at h
    split at h
    · exact absurd h (by simp)
    · rename_i ra hra
      split at h
      · split at h
        · exact absurd h (by simp)
        · rename_i rb hrb
          simp only [Option.some.injEq] at h; subst h
          have := iha s ra hra; have := ihb ra.st rb hrb
          simp only; omega
      · simp only [Option.some.injEq] at h; subst h; exact iha s ra hra
  | frame body ih =>
    intro s r h
    simp only [run] at h
    split at h
    · exact absurd h (by simp)
    · simp only [Option.some.injEq] at h; subst h; rfl
    · rename_i s1 hcd
      split at h
      · exact absurd h (by simp)
      · rename_i rb hrb
        split at h
        · exact absurd h (by simp)
        · rename_i s2 hgd
          simp only [Option.some.injEq] at h; subst h
          have h1 := ih s1 rb hrb
          simp only [checkDepth] at hcd
          split at hcd
          · split at hcd
            · simp only [Option.some.injEq] at hcd; subst hcd
              simp only [guardDrop] at hgd
              split at hgd
              · exact absurd hgd (by simp)
              · simp only [Option.some.injEq] at hgd; subst hgd
                simp only at h1 ⊢; omega
            · exact absurd hcd (by simp)
          · simp at hcd
  | limit d body ih =>
    intro s r h
    simp only [run] at h
    split at h
    · exact absurd h (by simp)
    · rename_i s1 old hl
      split at h
      · exact absurd h (by simp)
      · rename_i rb hrb
        simp only [Option.some.injEq] at h; subst h
        have h1 := ih s1 rb hrb
        simp only [limitStackDepth] at hl
        split at hl
        · simp only [Option.some.injEq, Prod.mk.injEq] at hl
          obtain ⟨hl1, _⟩ := hl; subst hl1
          simp only [overrideDrop] at h1 ⊢; exact h1
        · exact absurd hl (by simp)
  | «catch» body ih =>
    intro s r h
    simp only [run] at h
    split at h
    · exact absurd h (by simp)
    · rename_i rb hrb
      simp only [Option.some.injEq] at h; subst h
      exact ih s rb hrb
  | setLimit d =>
    intro s r h
    simp only [run] at h
    split at h
    · exact absurd h (by simp)
    · rename_i s1 old hl
      simp only [Option.some.injEq] at h; subst h
      simp only [limitStackDepth] at hl
      split at hl
      · simp only [Option.some.injEq, Prod.mk.injEq] at hl
        obtain ⟨hl1, _⟩ := hl; subst hl1; rfl
      · exact absurd hl (by simp)

/-- the limit is restored unless the unguarded setter was used -/
theorem run_max : ∀ (p : Prog) (s : St) (r : Res), noSet p = true → run s p = some r →
    r.st.max = s.max := by
  intro p
  induction p with
  | skip => intro s r _ h; simp only [run, Option.some.injEq] at h; subst h; rfl
  | fail => intro s r _ h; simp only [run, Option.some.injEq] at h; subst h; rfl
  | seq a b iha ihb =>
    intro s r hn h
    simp only [noSet, Bool.and_eq_true] at hn
    simp only [run] at h
    split at h
    · exact absurd h (by simp)
    · rename_i ra hra
      split at h
      · split at h
        · exact absurd h (by simp)
        · rename_i rb hrb
          simp only [Option.some.injEq] at h; subst h
          have := iha s ra hn.1 hra; have := ihb ra.st rb hn.2 hrb
          simp only; omega
      · simp only [Option.some.injEq] at h; subst h; exact iha s ra hn.1 hra
  | frame body ih =>
    intro s r hn h
    simp only [noSet] at hn
    simp only [run] at h
    split at h
    · exact absurd h (by simp)
    · simp only [Option.some.injEq] at h; subst h; rfl
    · rename_i s1 hcd
      split at h
      · exact absurd h (by simp)
      · rename_i rb hrb
        split at h
        · exact absurd h (by simp)
        · rename_i s2 hgd
          simp only [Option.some.injEq] at h; subst h
          have h1 := ih s1 rb hn hrb
          simp only [checkDepth] at hcd
          split at hcd
          · split at hcd
            · simp only [Option.some.injEq] at hcd; subst hcd
              simp only [guardDrop] at hgd
              split at hgd
              · exact absurd hgd (by simp)
              · simp only [Option.some.injEq] at hgd; subst hgd
                simp only at h1 ⊢; exact h1
            · exact absurd hcd (by simp)
          · simp at hcd
  | limit d body ih =>
    intro s r _ h
    simp only [run] at h
    split at h
    · exact absurd h (by simp)
    · rename_i s1 old hl
      split at h
      · exact absurd h (by simp)
      · rename_i rb hrb
        simp only [Option.some.injEq] at h; subst h
        simp only [limitStackDepth] at hl
        split at hl
        · simp only [Option.some.injEq, Prod.mk.injEq] at hl
          obtain ⟨_, hl2⟩ := hl; subst hl2
          simp only [overrideDrop]
        · exact absurd hl (by simp)
  | «catch» body ih =>
    intro s r hn h
    simp only [noSet] at hn
    simp only [run] at h
    split at h
    · exact absurd h (by simp)
    · rename_i rb hrb
      simp only [Option.some.injEq] at h; subst h
      exact ih s rb hn hrb
  | setLimit d => intro s r hn _; simp [noSet] at hn

/-- with no limit change inside, the limit is the same at every logged point -/
theorem run_state (p : Prog) (s : St) (r : Res) (hn : noSet p = true) (h : run s p = some r) :
    r.st = s := by
  have h1 := run_cur p s r h
  have h2 := run_max p s r hn h
  cases hr : r.st; cases s; simp_all

/-- no usize operation of the counter can fail as long as the numbers involved fit the word:
    in particular the guard's `- 1` never underflows -/
theorem run_total : ∀ (p : Prog) (s : St), s.cur + depth p + maxLimit p < USIZE →
    ∃ r, run s p = some r := by
  intro p
  induction p with
  | skip => intro s _; exact ⟨_, rfl⟩
  | fail => intro s _; exact ⟨_, rfl⟩
  | seq a b iha ihb =>
    intro s hb
    simp only [depth, maxLimit] at hb
    have hda : depth a ≤ Nat.max (depth a) (depth b) := Nat.le_max_left _ _
    have hdb : depth b ≤ Nat.max (depth a) (depth b) := Nat.le_max_right _ _
    have hla : maxLimit a ≤ Nat.max (maxLimit a) (maxLimit b) := Nat.le_max_left _ _
    have hlb : maxLimit b ≤ Nat.max (maxLimit a) (maxLimit b) := Nat.le_max_right _ _
    obtain ⟨ra, hra⟩ := iha s (by omega)
    have hc := run_cur a s ra hra
    obtain ⟨rb, hrb⟩ := ihb ra.st (by omega)
    simp only [run, hra]
    split
    · simp only [hrb]; exact ⟨_, rfl⟩
    · exact ⟨_, rfl⟩
  | frame body ih =>
    intro s hb
    simp only [depth, maxLimit] at hb
    simp only [run, checkDepth]
    by_cases hlt : s.cur < s.max
    · have h1 : s.cur + 1 < USIZE := by omega
      simp only [hlt, h1, if_true]
      obtain ⟨rb, hrb⟩ := ih { s with cur := s.cur + 1 } (by simp only; omega)
      have hc := run_cur body _ rb hrb
      simp only at hc
      simp only [hrb, guardDrop]
      have : rb.st.cur ≠ 0 := by omega
      simp only [this, if_false]
      exact ⟨_, rfl⟩
    · simp only [hlt, if_false]; exact ⟨_, rfl⟩
  | limit d body ih =>
    intro s hb
    simp only [depth, maxLimit] at hb
    have hl1 : d ≤ Nat.max d (maxLimit body) := Nat.le_max_left _ _
    have hl2 : maxLimit body ≤ Nat.max d (maxLimit body) := Nat.le_max_right _ _
    have h1 : s.cur + d < USIZE := by omega
    simp only [run, limitStackDepth, h1, if_true]
    obtain ⟨rb, hrb⟩ := ih { s with max := s.cur + d } (by simp only; omega)
    simp only [hrb]; exact ⟨_, rfl⟩
  | «catch» body ih =>
    intro s hb
    simp only [depth, maxLimit] at hb
    obtain ⟨rb, hrb⟩ := ih s hb
    simp only [run, hrb]; exact ⟨_, rfl⟩
  | setLimit d =>
    intro s hb
    simp only [depth, maxLimit] at hb
    have h1 : s.cur + d < USIZE := by omega
    simp only [run, limitStackDepth, h1, if_true]; exact ⟨_, rfl⟩

/-- the counter never exceeds the limit in force, at any logged point and at the end -/
theorem run_bounded : ∀ (p : Prog) (s : St) (r : Res), s.cur ≤ s.max → run s p = some r →
    r.st.cur ≤ r.st.max ∧ ∀ t ∈ r.log, t.cur ≤ t.max := by
  intro p
  induction p with
  | skip =>
    intro s r hs h; simp only [run, Option.some.injEq] at h; subst h
    exact ⟨hs, by intro t ht; simp only [List.mem_singleton] at ht; subst ht; exact hs⟩
  | fail =>
    intro s r hs h; simp only [run, Option.some.injEq] at h; subst h
    exact ⟨hs, by intro t ht; simp only [List.mem_singleton] at ht; subst ht; exact hs⟩
  | seq a b iha ihb =>
    intro s r hs h
    simp only [run] at h
    split at h
    · exact absurd h (by simp)
    · rename_i ra hra
      have ha := iha s ra hs hra
      split at h
      · split at h
        · exact absurd h (by simp)
        · rename_i rb hrb
          simp only [Option.some.injEq] at h; subst h
          have hb := ihb ra.st rb ha.1 hrb
          refine ⟨hb.1, ?_⟩
          intro t ht
          simp only [List.mem_append] at ht
          cases ht with
          | inl h' => exact ha.2 t h'
          | inr h' => exact hb.2 t h'
      · simp only [Option.some.injEq] at h; subst h; exact ha
  | frame body ih =>
    intro s r hs h
    simp only [run] at h
    split at h
    · exact absurd h (by simp)
    · simp only [Option.some.injEq] at h; subst h
      exact ⟨hs, by intro t ht; simp at ht⟩
    · rename_i s1 hcd
      split at h
      · exact absurd h (by simp)
      · rename_i rb hrb
        split at h
        · exact absurd h (by simp)
        · rename_i s2 hgd
          simp only [Option.some.injEq] at h; subst h
          simp only [checkDepth] at hcd
          split at hcd
          · rename_i hlt
            split at hcd
            · simp only [Option.some.injEq] at hcd; subst hcd
              have hb := ih _ rb (by simp only; omega) hrb
              simp only [guardDrop] at hgd
              split at hgd
              · exact absurd hgd (by simp)
              · simp only [Option.some.injEq] at hgd; subst hgd
                refine ⟨?_, hb.2⟩
                simp only; have := hb.1; omega
            · exact absurd hcd (by simp)
          · simp at hcd
  | limit d body ih =>
    intro s r hs h
    simp only [run] at h
    split at h
    · exact absurd h (by simp)
    · rename_i s1 old hl
      split at h
      · exact absurd h (by simp)
      · rename_i rb hrb
        simp only [Option.some.injEq] at h; subst h
        simp only [limitStackDepth] at hl
        split at hl
        · simp only [Option.some.injEq, Prod.mk.injEq] at hl
          obtain ⟨hl1, hl2⟩ := hl; subst hl1; subst hl2
          have hb := ih _ rb (by simp only; omega) hrb
          have hc := run_cur body _ rb hrb
          simp only at hc
          refine ⟨?_, hb.2⟩
          simp only [overrideDrop]; omega
        · exact absurd hl (by simp)
  | «catch» body ih =>
    intro s r hs h
    simp only [run] at h
    split at h
    · exact absurd h (by simp)
    · rename_i rb hrb
      simp only [Option.some.injEq] at h; subst h
      exact ih s rb hs hrb
  | setLimit d =>
    intro s r _ h
    simp only [run] at h
    split at h
    · exact absurd h (by simp)
    · rename_i s1 old hl
      simp only [Option.some.injEq] at h; subst h
      simp only [limitStackDepth] at hl
      split at hl
      · simp only [Option.some.injEq, Prod.mk.injEq] at hl
        obtain ⟨hl1, _⟩ := hl; subst hl1
        exact ⟨by simp only; omega, by intro t ht; simp at ht⟩
      · exact absurd hl (by simp)

/-- without limit changes every logged state carries the starting limit -/
theorem run_log_max : ∀ (p : Prog) (s : St) (r : Res), noLimit p = true → run s p = some r →
    r.st = s ∧ ∀ t ∈ r.log, t.max = s.max := by
  intro p
  induction p with
  | skip =>
    intro s r _ h; simp only [run, Option.some.injEq] at h; subst h
    exact ⟨rfl, by intro t ht; simp only [List.mem_singleton] at ht; subst ht; rfl⟩
  | fail =>
    intro s r _ h; simp only [run, Option.some.injEq] at h; subst h
    exact ⟨rfl, by intro t ht; simp only [List.mem_singleton] at ht; subst ht; rfl⟩
  | seq a b iha ihb =>
    intro s r hn h
    simp only [noLimit, Bool.and_eq_true] at hn
    simp only [run] at h
    split at h
    · exact absurd h (by simp)
    · rename_i ra hra
      have ha := iha s ra hn.1 hra
      split at h
      · split at h
        · exact absurd h (by simp)
        · rename_i rb hrb
          simp only [Option.some.injEq] at h; subst h
          have hb := ihb ra.st rb hn.2 hrb
          rw [ha.1] at hb
          refine ⟨hb.1, ?_⟩
          intro t ht
          simp only [List.mem_append] at ht
          cases ht with
          | inl h' => exact ha.2 t h'
          | inr h' => exact hb.2 t h'
      · simp only [Option.some.injEq] at h; subst h; exact ha
  | frame body ih =>
    intro s r hn h
    simp only [noLimit] at hn
    simp only [run] at h
    split at h
    · exact absurd h (by simp)
    · simp only [Option.some.injEq] at h; subst h
      exact ⟨rfl, by intro t ht; simp at ht⟩
    · rename_i s1 hcd
      split at h
      · exact absurd h (by simp)
      · rename_i rb hrb
        split at h
        · exact absurd h (by simp)
        · rename_i s2 hgd
          simp only [Option.some.injEq] at h; subst h
          simp only [checkDepth] at hcd
          split at hcd
          · split at hcd
            · simp only [Option.some.injEq] at hcd; subst hcd
              have hb := ih _ rb hn hrb
              simp only [guardDrop] at hgd
              split at hgd
              · exact absurd hgd (by simp)
              · simp only [Option.some.injEq] at hgd; subst hgd
                refine ⟨?_, hb.2⟩
                rw [hb.1]; cases s; simp
            · exact absurd hcd (by simp)
          · simp at hcd
  | limit d body ih => intro s r hn _; simp [noLimit] at hn
  | «catch» body ih =>
    intro s r hn h
    simp only [noLimit] at hn
    simp only [run] at h
    split at h
    · exact absurd h (by simp)
    · rename_i rb hrb
      simp only [Option.some.injEq] at h; subst h
      exact ih s rb hn hrb
  | setLimit d => intro s r hn _; simp [noLimit] at hn

/-- a program without failing leaves and without limit changes whose frame nesting fits under the
    limit succeeds -/
theorem run_ok_of_fits : ∀ (p : Prog) (s : St), noFail p = true → noLimit p = true →
    s.cur + depth p ≤ s.max → s.max < USIZE →
    ∃ r, run s p = some r ∧ r.out = .ok ∧ r.st = s := by
  intro p
  induction p with
  | skip => intro s _ _ _ _; exact ⟨_, rfl, rfl, rfl⟩
  | fail => intro s hf; simp [noFail] at hf
  | seq a b iha ihb =>
    intro s hf hn hd hm
    simp only [noFail, noLimit, Bool.and_eq_true] at hf hn
    simp only [depth] at hd
    have hda : depth a ≤ Nat.max (depth a) (depth b) := Nat.le_max_left _ _
    have hdb : depth b ≤ Nat.max (depth a) (depth b) := Nat.le_max_right _ _
    obtain ⟨ra, hra, hoa, hsa⟩ := iha s hf.1 hn.1 (by omega) hm
    obtain ⟨rb, hrb, hob, hsb⟩ := ihb s hf.2 hn.2 (by omega) hm
    refine ⟨⟨rb.st, rb.out, ra.log ++ rb.log⟩, ?_, hob, hsb⟩
    simp only [run, hra, hoa, hsa, hrb]
  | frame body ih =>
    intro s hf hn hd hm
    simp only [noFail, noLimit] at hf hn
    simp only [depth] at hd
    have hlt : s.cur < s.max := by omega
    have h1 : s.cur + 1 < USIZE := by omega
    obtain ⟨rb, hrb, hob, hsb⟩ := ih { s with cur := s.cur + 1 } hf hn (by simp only; omega) hm
    refine ⟨⟨s, rb.out, rb.log⟩, ?_, hob, rfl⟩
    simp only [run, checkDepth, hlt, h1, if_true, hrb, guardDrop, hsb]
    simp
  | limit d body ih => intro s _ hn; simp [noLimit] at hn
  | «catch» body ih =>
    intro s hf hn hd hm
    simp only [noFail, noLimit] at hf hn
    simp only [depth] at hd
    obtain ⟨rb, hrb, _, hsb⟩ := ih s hf hn hd hm
    exact ⟨⟨rb.st, .ok, rb.log⟩, by simp only [run, hrb], rfl, hsb⟩
  | setLimit d => intro s _ hn; simp [noLimit] at hn

/-- closed form for plain recursion: `n` nested frames from state `s` -/
theorem run_nest (n : Nat) : ∀ (s : St), s.cur ≤ s.max → s.max < USIZE →
    run s (nest n) = some ⟨s, if s.cur + n ≤ s.max then .ok else .errStack,
                            if s.cur + n ≤ s.max then [{ s with cur := s.cur + n }] else []⟩ := by
  induction n with
  | zero => intro s hs _; simp [nest, run, hs]
  | succ n ih =>
    intro s hs hm
    simp only [nest, run, checkDepth]
    by_cases hlt : s.cur < s.max
    · have h1 : s.cur + 1 < USIZE := by omega
      simp only [hlt, h1, if_true]
      rw [ih { s with cur := s.cur + 1 } (by simp only; omega) hm]
      simp only [guardDrop]
      have e1 : (s.cur + 1 + n ≤ s.max) = (s.cur + (n + 1) ≤ s.max) := by
        apply propext; constructor <;> intro h <;> omega
      have e2 : s.cur + 1 + n = s.cur + (n + 1) := by omega
      simp [e2]
    · have : ¬ (s.cur + (n + 1) ≤ s.max) := by omega
      simp [hlt, this]

/-- the stateful counter machine computes exactly the lexical-nesting meaning -/
theorem run_eq_spec : ∀ (p : Prog) (s : St), noSet p = true → s.cur + depth p + maxLimit p < USIZE →
    run s p = some ⟨s, (Spec.eval s.max s.cur p).1, (Spec.eval s.max s.cur p).2⟩ := by
  intro p
  induction p with
  | skip => intro s _ _; cases s; rfl
  | fail => intro s _ _; cases s; rfl
  | seq a b iha ihb =>
    intro s hn hb
    simp only [noSet, Bool.and_eq_true] at hn
    simp only [depth, maxLimit] at hb
    have hda : depth a ≤ Nat.max (depth a) (depth b) := Nat.le_max_left _ _
    have hdb : depth b ≤ Nat.max (depth a) (depth b) := Nat.le_max_right _ _
    have hla : maxLimit a ≤ Nat.max (maxLimit a) (maxLimit b) := Nat.le_max_left _ _
    have hlb : maxLimit b ≤ Nat.max (maxLimit a) (maxLimit b) := Nat.le_max_right _ _
    have ha := iha s hn.1 (by omega)
    have hb' := ihb s hn.2 (by omega)
    simp only [run, ha, Spec.eval]
    cases h : (Spec.eval s.max s.cur a).1 <;> simp [hb', h]
  | frame body ih =>
    intro s hn hb
    simp only [noSet] at hn
    simp only [depth, maxLimit] at hb
    simp only [run, checkDepth, Spec.eval]
    by_cases hlt : s.cur < s.max
    · have h1 : s.cur + 1 < USIZE := by omega
      have hbody := ih { s with cur := s.cur + 1 } hn (by simp only; omega)
      simp only at hbody
      simp only [hlt, h1, if_true, hbody, guardDrop]
      cases s; simp
    · simp [hlt]
  | limit d body ih =>
    intro s hn hb
    simp only [noSet] at hn
    simp only [depth, maxLimit] at hb
    have hl1 : d ≤ Nat.max d (maxLimit body) := Nat.le_max_left _ _
    have hl2 : maxLimit body ≤ Nat.max d (maxLimit body) := Nat.le_max_right _ _
    have h1 : s.cur + d < USIZE := by omega
    have hbody := ih { s with max := s.cur + d } hn (by simp only; omega)
    simp only at hbody
    simp only [run, limitStackDepth, h1, if_true, hbody, overrideDrop, Spec.eval]
  | «catch» body ih =>
    intro s hn hb
    simp only [noSet] at hn
    simp only [depth, maxLimit] at hb
    simp only [run, ih s hn hb, Spec.eval]
  | setLimit d => intro s hn _; simp [noSet] at hn

end JrsVerif.Stack
