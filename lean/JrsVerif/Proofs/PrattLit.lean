/- C06 helper lemmas: number literals and verbatim strings (Model/PrattLit.lean). -/
import JrsVerif.Model.PrattLit

namespace JrsVerif.Lit
open JrsVerif.Generated JrsVerif.Spec

/-- the list does not start with a digit -/
def NoDigitHead (l : List Nat) : Prop := ∀ c, l.head? = some c → isDigit c = false
/-- … nor with the separator -/
def GStop (l : List Nat) : Prop := ∀ c, l.head? = some c → isDigit c = false ∧ c ≠ 95

theorem GStop.noDigit {l} (h : GStop l) : NoDigitHead l := fun c hc => (h c hc).1

theorem dropDigits_stop (r : List Nat) (h : NoDigitHead r) : dropDigits r = r := by
  cases r with
  | nil => rfl
  | cons c t => simp [dropDigits, h c rfl]

theorem dropDigits_append (d r : List Nat) (hd : allDigits d) : dropDigits (d ++ r) = dropDigits r := by
  induction d with
  | nil => rfl
  | cons c t ih =>
    have hc : isDigit c = true := hd c (by simp)
    simp only [List.cons_append, dropDigits, hc, if_true]
    exact ih (fun x hx => hd x (by simp [hx]))

theorem takeDigits_stop (r : List Nat) (h : NoDigitHead r) : takeDigits r = [] := by
  cases r with
  | nil => rfl
  | cons c t => simp [takeDigits, h c rfl]

theorem takeDigits_append (d r : List Nat) (hd : allDigits d) : takeDigits (d ++ r) = d ++ takeDigits r := by
  induction d with
  | nil => rfl
  | cons c t ih =>
    have hc : isDigit c = true := hd c (by simp)
    simp only [List.cons_append, takeDigits, hc, if_true]
    rw [ih (fun x hx => hd x (by simp [hx]))]

/-- rendering of the groups after the first one -/
def moreRender (more : List (List Nat)) : List Nat := (more.map (fun d => 95 :: d)).flatten

theorem moreRender_cons (d : List Nat) (more : List (List Nat)) :
    moreRender (d :: more) = 95 :: d ++ moreRender more := by
  simp [moreRender]

theorem noDigitHead_more (more : List (List Nat)) (tail : List Nat) (ht : NoDigitHead tail) :
    NoDigitHead (moreRender more ++ tail) := by
  cases more with
  | nil => simpa [moreRender] using ht
  | cons d m =>
    intro c hc
    rw [moreRender_cons] at hc
    simp at hc
    subst hc; decide

theorem dropGroups_stop (tail : List Nat) (ht : GStop tail) : dropGroups 95 tail = tail := by
  unfold dropGroups
  split
  · rename_i c d r
    have := (ht c rfl).2
    simp [this]
  · rfl

theorem dropGroups_more (more : List (List Nat)) (hm : ∀ d ∈ more, d ≠ [] ∧ allDigits d)
    (tail : List Nat) (ht : GStop tail) : dropGroups 95 (moreRender more ++ tail) = tail := by
  induction more with
  | nil => simpa [moreRender] using dropGroups_stop tail ht
  | cons d m ih =>
    obtain ⟨hne, hd⟩ := hm d (by simp)
    cases d with
    | nil => exact absurd rfl hne
    | cons x xs =>
      have hx : isDigit x = true := hd x (by simp)
      rw [moreRender_cons]
      simp only [List.cons_append, List.append_assoc]
      unfold dropGroups
      simp only [hx, and_self, if_true]
      rw [dropDigits_append xs _ (fun c hc => hd c (by simp [hc]))]
      rw [dropDigits_stop _ (noDigitHead_more m tail ht.noDigit)]
      exact ih (fun d' hd' => hm d' (by simp [hd']))

theorem render_eq (g : Groups) : g.render = g.first ++ moreRender g.more := rfl

/-- `[0-9]+(?:_[0-9]+)*` consumes exactly a rendered group list -/
theorem uintRest_render (g : Groups) (hg : g.WF) (tail : List Nat) (ht : GStop tail) :
    uintRest 95 (g.render ++ tail) = some tail := by
  obtain ⟨hne, hd, hm⟩ := hg
  rw [render_eq]
  cases hf : g.first with
  | nil => exact absurd hf hne
  | cons x xs =>
    rw [hf] at hd
    have hx : isDigit x = true := hd x (by simp)
    simp only [List.cons_append, List.append_assoc, uintRest, hx, if_true]
    rw [dropDigits_append xs _ (fun c hc => hd c (by simp [hc]))]
    rw [dropDigits_stop _ (noDigitHead_more g.more tail ht.noDigit)]
    rw [dropGroups_more g.more hm tail ht]

theorem isNz_isDigit {c : Nat} (h : isNz c = true) : isDigit c = true := by
  simp [isNz, isDigit] at *; omega

theorem intRest_render (g : Groups) (hg : g.WF) (hi : intOk g) (tail : List Nat) (ht : GStop tail) :
    intRest 95 (g.render ++ tail) = some tail := by
  obtain ⟨hne, hd, hm⟩ := hg
  rw [render_eq]
  rcases hi with ⟨h0, hm0⟩ | ⟨c, r, hf, hnz⟩
  · simp [h0, hm0, moreRender, intRest]
  · rw [hf] at hd
    have hc0 : c ≠ 48 := by simp [isNz] at hnz; omega
    simp only [hf, List.cons_append, List.append_assoc, intRest, hc0, if_false, hnz, if_true]
    rw [dropDigits_append r _ (fun x hx => hd x (by simp [hx]))]
    rw [dropDigits_stop _ (noDigitHead_more g.more tail ht.noDigit)]
    rw [dropGroups_more g.more hm tail ht]

/-- first character of a rendered group list is a digit -/
theorem render_head (g : Groups) (hg : g.WF) : ∃ x t, g.render = x :: t ∧ isDigit x = true := by
  obtain ⟨hne, hd, _⟩ := hg
  rw [render_eq]
  cases hf : g.first with
  | nil => exact absurd hf hne
  | cons x xs => exact ⟨x, xs ++ moreRender g.more, rfl, hd x (by simp [hf])⟩

/-! ### stripping the separators -/

theorem stripSep_digits (d : List Nat) (hd : allDigits d) : stripSep 95 d = d := by
  unfold stripSep
  rw [List.filter_eq_self]
  intro c hc
  have := hd c hc
  simp [isDigit] at this
  simp; omega

theorem stripSep_append (a b : List Nat) : stripSep 95 (a ++ b) = stripSep 95 a ++ stripSep 95 b := by
  simp [stripSep]

theorem stripSep_more (more : List (List Nat)) (hm : ∀ d ∈ more, d ≠ [] ∧ allDigits d) :
    stripSep 95 (moreRender more) = more.flatten := by
  induction more with
  | nil => rfl
  | cons d m ih =>
    rw [moreRender_cons]
    have : stripSep 95 (95 :: d ++ moreRender m) = stripSep 95 d ++ stripSep 95 (moreRender m) := by
      simp [stripSep]
    rw [this, stripSep_digits d (hm d (by simp)).2, ih (fun d' hd' => hm d' (by simp [hd']))]
    simp

theorem stripSep_render (g : Groups) (hg : g.WF) : stripSep 95 g.render = g.digits := by
  obtain ⟨_, hd, hm⟩ := hg
  rw [render_eq, stripSep_append, stripSep_digits _ hd, stripSep_more _ hm]
  rfl

theorem allDigits_digits (g : Groups) (hg : g.WF) : allDigits g.digits := by
  obtain ⟨_, hd, hm⟩ := hg
  intro c hc
  simp only [Groups.digits, List.mem_append, List.mem_flatten] at hc
  rcases hc with h | ⟨l, hl, hcl⟩
  · exact hd c h
  · exact (hm l hl).2 c hcl

theorem digits_ne_nil (g : Groups) (hg : g.WF) : g.digits ≠ [] := by
  obtain ⟨hne, _, _⟩ := hg
  simp [Groups.digits, hne]

/-! ### verbatim strings -/

theorem verbRest_ne (q a : Nat) (l : List Nat) (ha : ¬ a = q) : verbRest q (a :: l) = verbRest q l := by
  rw [verbRest.eq_def]; simp [ha]
theorem verbRest_qq (q : Nat) (l : List Nat) : verbRest q (q :: q :: l) = verbRest q l := by
  rw [verbRest.eq_def]; simp
theorem verbRest_end (q : Nat) (l : List Nat) (h : ∀ x, l.head? = some x → x ≠ q) :
    verbRest q (q :: l) = some l := by
  rw [verbRest.eq_def]
  cases l with
  | nil => simp
  | cons x t => simp [h x rfl]

theorem verbRest_render (q : Nat) (c rest : List Nat) (hr : ∀ x, rest.head? = some x → x ≠ q) :
    verbRest q (verbBody q c ++ q :: rest) = some rest := by
  induction c with
  | nil => simpa [verbBody] using verbRest_end q rest hr
  | cons a t ih =>
    by_cases ha : a = q
    · subst ha
      simp only [verbBody, if_true, List.cons_append]
      rw [verbRest_qq]; exact ih
    · simp only [verbBody, ha, if_false, List.cons_append]
      rw [verbRest_ne q a _ ha]; exact ih

theorem replace2_qq (q : Nat) (l : List Nat) : replace2 q (q :: q :: l) = q :: replace2 q l := by
  rw [replace2.eq_def]; simp
theorem replace2_ne (q a : Nat) (l : List Nat) (ha : ¬ a = q) : replace2 q (a :: l) = a :: replace2 q l := by
  rw [replace2.eq_def]
  cases l with
  | nil => simp [replace2]
  | cons b t => simp [ha]

theorem replace2_render (q : Nat) (c : List Nat) : replace2 q (verbBody q c) = c := by
  induction c with
  | nil => rfl
  | cons a t ih =>
    by_cases ha : a = q
    · subst ha
      simp only [verbBody, if_true]
      rw [replace2_qq, ih]
    · simp only [verbBody, ha, if_false]
      rw [replace2_ne q a _ ha, ih]

theorem pegVerbBody_ne (q a : Nat) (l : List Nat) (ha : ¬ a = q) :
    pegVerbBody q (a :: l) = (a :: (pegVerbBody q l).1, (pegVerbBody q l).2) := by
  rw [pegVerbBody.eq_def]; simp [ha]
theorem pegVerbBody_qq (q : Nat) (l : List Nat) :
    pegVerbBody q (q :: q :: l) = (q :: q :: (pegVerbBody q l).1, (pegVerbBody q l).2) := by
  rw [pegVerbBody.eq_def]; simp
theorem pegVerbBody_end (q : Nat) (l : List Nat) (h : ∀ x, l.head? = some x → x ≠ q) :
    pegVerbBody q (q :: l) = ([], q :: l) := by
  rw [pegVerbBody.eq_def]
  cases l with
  | nil => simp
  | cons x t => simp [h x rfl]

theorem pegVerbBody_render (q : Nat) (c rest : List Nat) (hr : ∀ x, rest.head? = some x → x ≠ q) :
    pegVerbBody q (verbBody q c ++ q :: rest) = (verbBody q c, q :: rest) := by
  induction c with
  | nil => simpa [verbBody] using pegVerbBody_end q rest hr
  | cons a t ih =>
    by_cases ha : a = q
    · subst ha
      simp only [verbBody, if_true, List.cons_append]
      rw [pegVerbBody_qq, ih]
    · simp only [verbBody, ha, if_false, List.cons_append]
      rw [pegVerbBody_ne q a _ ha, ih]

/-- the lexer's longest match and the PEG rule's greedy body + closing quote are the same scanner,
    for EVERY input: if the lexer finds a terminated token the PEG body stops exactly at its closing
    quote; if it does not, the PEG body runs to the end of the input (and the rule fails) -/
def ScanAgree (q : Nat) (s : List Nat) : Prop :=
  match verbRest q s with
  | some rest => ∃ inner, s = inner ++ q :: rest ∧ pegVerbBody q s = (inner, q :: rest)
  | none => (pegVerbBody q s).2 = []

theorem scanAgree (q : Nat) : ∀ (n : Nat) (s : List Nat), s.length ≤ n → ScanAgree q s := by
  intro n
  induction n with
  | zero =>
    intro s hs
    have : s = [] := List.length_eq_zero_iff.mp (by omega)
    subst this; simp [ScanAgree, pegVerbBody, verbRest]
  | succ n ih =>
    intro s hs
    cases s with
    | nil => simp [ScanAgree, pegVerbBody, verbRest]
    | cons a l =>
      by_cases ha : a = q
      · subst ha
        cases l with
        | nil =>
          have h1 : ∀ x, ([] : List Nat).head? = some x → x ≠ a := by intro x hx; simp at hx
          unfold ScanAgree
          rw [pegVerbBody_end a _ h1, verbRest_end a _ h1]
          exact ⟨[], rfl, rfl⟩
        | cons b l' =>
          by_cases hb : b = a
          · subst hb
            have := ih l' (by simp at hs; omega)
            unfold ScanAgree at this ⊢
            rw [pegVerbBody_qq, verbRest_qq]
            cases hv : verbRest b l' with
            | none => rw [hv] at this; simpa using this
            | some rest =>
              rw [hv] at this
              obtain ⟨inner, h1, h2⟩ := this
              refine ⟨b :: b :: inner, ?_, ?_⟩
              · simp [h1]
              · simp [h2]
          · have h1 : ∀ x, (b :: l').head? = some x → x ≠ a := by intro x hx; simp at hx; subst hx; exact hb
            unfold ScanAgree
            rw [pegVerbBody_end a _ h1, verbRest_end a _ h1]
            exact ⟨[], rfl, rfl⟩
      · have := ih l (by simp at hs; omega)
        unfold ScanAgree at this ⊢
        rw [pegVerbBody_ne q a l ha, verbRest_ne q a l ha]
        cases hv : verbRest q l with
        | none => rw [hv] at this; simpa using this
        | some rest =>
          rw [hv] at this
          obtain ⟨inner, h1, h2⟩ := this
          refine ⟨a :: inner, ?_, ?_⟩
          · simp [h1]
          · simp [h2]

/-- slicing `&text[2..text.len() - 1]` of the lexeme `@q inner q` gives `inner` -/
theorem slice_inner (a q : Nat) (inner rest : List Nat) :
    let s := a :: q :: (inner ++ q :: rest)
    let text := s.take (s.length - rest.length)
    (text.drop 2).take (text.length - 3) = inner := by
  intro s text
  have hs : s = (a :: q :: inner ++ [q]) ++ rest := by simp [s]
  have ht : text = a :: q :: inner ++ [q] := by
    simp only [text]
    rw [hs, List.take_left' (by simp; omega)]
  rw [ht]
  simp

theorem peg_ir_verbatim_all (q : Nat) (s : List Nat) : pegVerbatim q s = irVerbatim q s := by
  unfold pegVerbatim irVerbatim
  split
  · rename_i a b body
    by_cases hab : a = verbAt ∧ b = q
    · simp only [hab, and_self, if_true]
      have hag := scanAgree q body.length body (Nat.le_refl _)
      unfold ScanAgree at hag
      cases hv : verbRest q body with
      | none =>
        rw [hv] at hag
        cases hp : pegVerbBody q body with
        | mk inner r =>
          rw [hp] at hag
          simp only at hag
          subst hag
          rfl
      | some rest =>
        rw [hv] at hag
        obtain ⟨inner, h1, h2⟩ := hag
        rw [h2]
        simp only [if_true]
        have := slice_inner verbAt q inner rest
        simp only at this
        rw [h1, hab.1.symm, hab.2.symm] at *
        rw [this]
    · simp [hab]
  · rfl

end JrsVerif.Lit

/-! ### numbers: the lexer on a rendered literal -/
namespace JrsVerif.Lit
open JrsVerif.Generated JrsVerif.Spec

theorem dropGroups_length_le (sep : Nat) : ∀ (n : Nat) (s : List Nat), s.length ≤ n →
    (dropGroups sep s).length ≤ s.length := by
  intro n
  induction n with
  | zero => intro s hs; have : s = [] := List.length_eq_zero_iff.mp (by omega); subst this; simp [dropGroups]
  | succ n ih =>
    intro s hs
    unfold dropGroups
    split
    · rename_i c d r
      split
      · have h1 := dropDigits_length_le r
        have h2 := ih (dropDigits r) (by simp at hs; omega)
        simp only [List.length_cons]; omega
      · exact Nat.le_refl _
    · exact Nat.le_refl _

theorem uintRest_length {sep : Nat} {s r : List Nat} (h : uintRest sep s = some r) : r.length < s.length := by
  cases s with
  | nil => simp [uintRest] at h
  | cons d t =>
    simp only [uintRest] at h
    split at h
    · injection h with h; subst h
      have h1 := dropDigits_length_le t
      have h2 := dropGroups_length_le sep _ (dropDigits t) (Nat.le_refl _)
      simp only [List.length_cons]; omega
    · simp at h

theorem intRest_length {sep : Nat} {s r : List Nat} (h : intRest sep s = some r) : r.length < s.length := by
  cases s with
  | nil => simp [intRest] at h
  | cons d t =>
    simp only [intRest] at h
    split at h
    · injection h with h; subst h; simp
    · split at h
      · injection h with h; subst h
        have h1 := dropDigits_length_le t
        have h2 := dropGroups_length_le sep _ (dropDigits t) (Nat.le_refl _)
        simp only [List.length_cons]; omega
      · simp at h

theorem fracRest_length {sep p : Nat} {s r : List Nat} (h : fracRest sep p s = some r) : r.length < s.length := by
  cases s with
  | nil => simp [fracRest] at h
  | cons d t =>
    simp only [fracRest] at h
    split at h
    · have := uintRest_length h; simp only [List.length_cons]; omega
    · simp at h

theorem expRest_length {sep : Nat} {ls ss s r : List Nat} (h : expRest sep ls ss s = some r) :
    r.length < s.length := by
  cases s with
  | nil => simp [expRest] at h
  | cons d t =>
    simp only [expRest] at h
    split at h
    · split at h
      · rename_i g u
        split at h
        · have := uintRest_length h; simp only [List.length_cons]; omega
        · have := uintRest_length h; simp only [List.length_cons] at *; omega
      · simp at h
    · simp at h

theorem opt_length_le (f : List Nat → Option (List Nat)) (hf : ∀ s r, f s = some r → r.length < s.length)
    (s : List Nat) : (opt f s).length ≤ s.length := by
  unfold opt
  cases h : f s with
  | none => simp
  | some r => have := hf s r h; simp; omega

def jeOf (n : Nat) : List Nat → Option Nat
  | e :: c :: r => if lexNumExp.contains e ∧ !lexNumSign.contains c ∧ !isDigit c then some (n - r.length) else none
  | _ => none
def jesOf (n : Nat) : List Nat → Option Nat
  | e :: g :: c :: r => if lexNumExp.contains e ∧ lexNumSign.contains g ∧ !isDigit c then some (n - r.length) else none
  | _ => none

theorem stage2 (n : Nat) (r2 : List Nat) (hn : r2.length < n) :
    (pegExpStep r2).map (fun (r : List Nat) => n - r.length)
    = floatOnly (better (better (some (.float, n - (opt (expRest lexNumSep lexNumExp lexNumSign) r2).length))
        ((jeOf n r2).map (.junkExp, ·))) ((jesOf n r2).map (.junkExpSign, ·))) := by
  simp only [pegExpStep, pegExp, pegNumJunkGuard, pegNumSep, pegNumExp, pegNumSign, lexNumSep, lexNumExp, lexNumSign, Bool.true_and, opt]
  rcases r2 with _ | ⟨e, _ | ⟨g, _ | ⟨c, t⟩⟩⟩
  · simp [expRest, pegExpJunk, jeOf, jesOf, better, floatOnly]
  · simp [expRest, pegExpJunk, jeOf, jesOf, better, floatOnly]
  · simp only [expRest, uintRest, pegExpJunk, jeOf, jesOf, lexNumExp, lexNumSign, pegNumExp, pegNumSign]
    rcases Bool.eq_false_or_eq_true ([101, 69].contains e) with he | he <;>
    rcases Bool.eq_false_or_eq_true ([43, 45].contains g) with hg | hg <;>
    rcases Bool.eq_false_or_eq_true (isDigit g) with hd | hd <;>
      simp only [he, hg, hd] <;> simp [better, floatOnly] at hn ⊢ <;> first | omega | (rw [if_pos (by omega)])
  · simp only [expRest, uintRest, pegExpJunk, jeOf, jesOf, lexNumExp, lexNumSign, pegNumExp, pegNumSign]
    rcases Bool.eq_false_or_eq_true ([101, 69].contains e) with he | he <;>
    rcases Bool.eq_false_or_eq_true ([43, 45].contains g) with hg | hg <;>
    rcases Bool.eq_false_or_eq_true (isDigit g) with hd | hd <;>
    rcases Bool.eq_false_or_eq_true (isDigit c) with hc | hc <;>
      simp only [he, hg, hd, hc] <;> simp [better, floatOnly] at hn ⊢ <;> first | omega | (rw [if_pos (by omega)])


def jpOf (n : Nat) : List Nat → Option Nat
  | p :: c :: r => if p = lexNumPoint ∧ !isDigit c then some (n - r.length) else none
  | _ => none

theorem lexNum_unfold (s : List Nat) : lexNum s =
    match intRest lexNumSep s with
    | none => none
    | some r1 =>
      better (better (better
        (some (.float, s.length - (opt (expRest lexNumSep lexNumExp lexNumSign) (opt (fracRest lexNumSep lexNumPoint) r1)).length))
        ((jpOf s.length r1).map (.junkPoint, ·)))
        ((jeOf s.length (opt (fracRest lexNumSep lexNumPoint) r1)).map (.junkExp, ·)))
        ((jesOf s.length (opt (fracRest lexNumSep lexNumPoint) r1)).map (.junkExpSign, ·)) := by
  unfold lexNum floatLen junkPointLen junkExpLen junkExpSignLen intFracRest
  cases h1 : intRest lexNumSep s with
  | none => simp [better]
  | some r1 =>
    simp only [Option.map_some]
    congr 1
    · congr 1
      · congr 1
        rcases r1 with _ | ⟨p, _ | ⟨c, r⟩⟩ <;> rfl
      · generalize opt (fracRest lexNumSep lexNumPoint) r1 = r2
        rcases r2 with _ | ⟨e, _ | ⟨c, r⟩⟩ <;> rfl
    · generalize opt (fracRest lexNumSep lexNumPoint) r1 = r2
      rcases r2 with _ | ⟨e, _ | ⟨g, _ | ⟨c, r⟩⟩⟩ <;> rfl

theorem better_none (x : Option (NumKind × Nat)) : better x none = x := by
  cases x <;> rfl

/-- For EVERY text: the PEG rule `number` matches exactly the prefix the lexer takes as a FLOAT
    lexeme, and fails exactly where the lexer yields one of its three number-error kinds or no
    number at all. -/
theorem peg_lexer_same (s : List Nat) : pegNumLen s = floatOnly (lexNum s) := by
  rw [lexNum_unfold]
  unfold pegNumLen pegNumRest pegInt
  simp only [pegNumIntStrict, if_true]
  have hsep : pegNumSep = lexNumSep := rfl
  rw [hsep]
  cases h1 : intRest lexNumSep s with
  | none => simp [floatOnly]
  | some r1 =>
    have hl1 := intRest_length h1
    simp only [Option.bind_some]
    -- the non-junk continuation
    have cont : ∀ r2 : List Nat, r2.length < s.length →
        Option.map (fun (r : List Nat) => s.length - r.length) (pegExpStep r2) =
        floatOnly (better (better (better
          (some (.float, s.length - (opt (expRest lexNumSep lexNumExp lexNumSign) r2).length)) none)
          ((jeOf s.length r2).map (.junkExp, ·))) ((jesOf s.length r2).map (.junkExpSign, ·))) := by
      intro r2 h2
      rw [better_none]
      exact stage2 s.length r2 h2
    have hF : ∀ r, fracRest pegNumSep pegNumPoint r = fracRest lexNumSep lexNumPoint r := fun _ => rfl
    rcases r1 with _ | ⟨p, _ | ⟨c, r⟩⟩
    · have := cont [] (by simpa using hl1)
      simpa [pegFracStep, fracRest, pegPointJunk, jpOf, opt] using this
    · have hf : fracRest lexNumSep lexNumPoint [p] = none := by
        simp only [fracRest]; split <;> simp [uintRest]
      have := cont [p] (by simpa using hl1)
      simpa [pegFracStep, hF, hf, pegPointJunk, jpOf, opt] using this
    · by_cases hp : p = lexNumPoint
      · subst hp
        rcases Bool.eq_false_or_eq_true (isDigit c) with hc | hc
        · have hf : fracRest lexNumSep lexNumPoint (lexNumPoint :: c :: r) = some (dropGroups lexNumSep (dropDigits r)) := by
            simp [fracRest, uintRest, hc]
          have h2 : (dropGroups lexNumSep (dropDigits r)).length < s.length := by
            have := fracRest_length hf
            simp only [List.length_cons] at this hl1; omega
          have := cont _ h2
          simpa [pegFracStep, hF, hf, pegPointJunk, jpOf, opt, hc] using this
        · have hf : fracRest lexNumSep lexNumPoint (lexNumPoint :: c :: r) = none := by
            simp [fracRest, uintRest, hc]
          have he : expRest lexNumSep lexNumExp lexNumSign (lexNumPoint :: c :: r) = none := by
            simp [expRest, lexNumPoint, lexNumExp]
          have hfs : pegFracStep (lexNumPoint :: c :: r) = none := by
            simp [pegFracStep, fracRest, uintRest, hc, pegNumPoint, lexNumPoint, pegPointJunk, pegNumJunkGuard]
          simp only [List.length_cons] at hl1
          rw [hfs]
          simp only [hf, he, opt, Option.getD_none, Option.bind_none]
          rcases r with _ | ⟨c2, r'⟩ <;>
            simp [jpOf, hc, jeOf, jesOf, lexNumPoint, lexNumExp, better, floatOnly] <;>
            (try simp only [List.length_cons] at hl1) <;> (try rw [if_pos (by omega)])
      · have hf : fracRest lexNumSep lexNumPoint (p :: c :: r) = none := by
          simp [fracRest, hp]
        have hp' : ¬ p = pegNumPoint := hp
        have := cont (p :: c :: r) hl1
        simpa [pegFracStep, hF, hf, pegPointJunk, jpOf, opt, hp, hp'] using this


/-! ### the lexer and the decoder on a rendered literal -/

theorem frac_step (N : Nat) (f : Option Groups) (hf : ∀ g, f = some g → g.WF) (tail : List Nat)
    (ht : ∀ c, tail.head? = some c → isDigit c = false ∧ c ≠ 95 ∧ c ≠ 46) :
    opt (fracRest lexNumSep lexNumPoint) (fracRender f ++ tail) = tail ∧ jpOf N (fracRender f ++ tail) = none := by
  cases f with
  | none =>
    simp only [fracRender, List.nil_append]
    cases tail with
    | nil => simp [opt, fracRest, jpOf]
    | cons c t =>
      have := ht c rfl
      have hc : ¬ c = lexNumPoint := this.2.2
      constructor
      · simp [opt, fracRest, hc]
      · cases t <;> simp [jpOf, hc]
  | some g =>
    have hg := hf g rfl
    have hgs : GStop tail := fun c hc => ⟨(ht c hc).1, (ht c hc).2.1⟩
    obtain ⟨x, t, hx, hd⟩ := render_head g hg
    constructor
    · have := uintRest_render g hg tail hgs
      simp [opt, fracRender, fracRest, lexNumPoint, lexNumSep, this]
    · simp [fracRender, hx, jpOf, hd]

theorem exp_step (N : Nat) (e : Option (Nat × Option Nat × Groups))
    (he : ∀ l s g, e = some (l, s, g) → (l = 101 ∨ l = 69) ∧ (∀ c, s = some c → c = 43 ∨ c = 45) ∧ g.WF)
    (rest : List Nat) (hr : NumStop rest) :
    opt (expRest lexNumSep lexNumExp lexNumSign) (expRender e ++ rest) = rest ∧
      jeOf N (expRender e ++ rest) = none ∧ jesOf N (expRender e ++ rest) = none := by
  have hgs : GStop rest := fun c hc => ⟨(hr c hc).1, (hr c hc).2.1⟩
  cases e with
  | none =>
    simp only [expRender, List.nil_append]
    cases rest with
    | nil => simp [opt, expRest, jeOf, jesOf]
    | cons c t =>
      have := hr c rfl
      have hc : lexNumExp.contains c = false := by simp [lexNumExp, this.2.2.2.1, this.2.2.2.2]
      have hcm : ¬ c ∈ lexNumExp := by simp [lexNumExp, this.2.2.2.1, this.2.2.2.2]
      refine ⟨?_, ?_, ?_⟩
      · simp only [opt, expRest, hc]; rfl
      · cases t <;> simp [jeOf, hcm]
      · rcases t with _ | ⟨a, _ | ⟨b, u⟩⟩ <;> simp [jesOf, hcm]
  | some v =>
    obtain ⟨l, s, g⟩ := v
    obtain ⟨hl, hs, hg⟩ := he l s g rfl
    have hlc : lexNumExp.contains l = true := by rcases hl with h | h <;> simp [lexNumExp, h]
    obtain ⟨x, t, hx, hd⟩ := render_head g hg
    have hxs : lexNumSign.contains x = false := by
      simp [isDigit] at hd
      simp [lexNumSign]; omega
    have hxm : ¬ x ∈ lexNumSign := by
      simp [isDigit] at hd
      simp [lexNumSign]; omega
    have hu := uintRest_render g hg rest hgs
    cases s with
    | none =>
      refine ⟨?_, ?_, ?_⟩
      · have : expRest lexNumSep lexNumExp lexNumSign (l :: (g.render ++ rest)) = some rest := by
          rw [hx] at hu ⊢
          simp only [List.cons_append, expRest, hlc, if_true, hxs]
          simpa [lexNumSep] using hu
        simp [opt, expRender, this]
      · simp [expRender, hx, jeOf, hd]
      · cases t <;> cases rest <;> simp [expRender, hx, jesOf, hxm]
    | some sg =>
      have hsg : lexNumSign.contains sg = true := by rcases hs sg rfl with h | h <;> simp [lexNumSign, h]
      refine ⟨?_, ?_, ?_⟩
      · have : expRest lexNumSep lexNumExp lexNumSign (l :: sg :: (g.render ++ rest)) = some rest := by
          simp only [expRest, hlc, if_true, hsg]
          simpa [lexNumSep] using hu
        simp [opt, expRender, this]
      · have hsgm : sg ∈ lexNumSign := by rcases hs sg rfl with h | h <;> simp [lexNumSign, h]
        simp [expRender, jeOf, hsgm]
      · simp [expRender, hx, jesOf, hd]

/-- the lexer takes exactly a rendered number literal as ONE FLOAT lexeme -/
theorem lexNum_render (n : NumLit) (hn : n.WF) (rest : List Nat) (hr : NumStop rest) :
    lexNum (n.render ++ rest) = some (.float, n.render.length) := by
  obtain ⟨hi, hio, hf, he⟩ := hn
  rw [lexNum_unfold]
  have hE := exp_step (n.render ++ rest).length n.exp he rest hr
  have ht2 : ∀ c, (expRender n.exp ++ rest).head? = some c → isDigit c = false ∧ c ≠ 95 ∧ c ≠ 46 := by
    intro c hc
    cases hexp : n.exp with
    | none => rw [hexp] at hc; simp only [expRender, List.nil_append] at hc
              exact ⟨(hr c hc).1, (hr c hc).2.1, (hr c hc).2.2.1⟩
    | some v =>
      obtain ⟨l, s, g⟩ := v
      have hl := (he l s g hexp).1
      rw [hexp] at hc
      cases s <;> simp [expRender] at hc <;> subst hc <;> rcases hl with h | h <;> subst h <;> decide
  have hF := frac_step (n.render ++ rest).length n.frac hf (expRender n.exp ++ rest) ht2
  have ht1 : GStop (fracRender n.frac ++ (expRender n.exp ++ rest)) := by
    intro c hc
    cases hfr : n.frac with
    | none => rw [hfr] at hc; simp only [fracRender, List.nil_append] at hc
              exact ⟨(ht2 c hc).1, (ht2 c hc).2.1⟩
    | some g => rw [hfr] at hc; simp [fracRender] at hc; subst hc; decide
  have hI : intRest lexNumSep (n.render ++ rest) = some (fracRender n.frac ++ (expRender n.exp ++ rest)) := by
    have := intRest_render n.int hi hio _ ht1
    simpa [NumLit.render, List.append_assoc, lexNumSep] using this
  rw [hI]
  simp only [hF.1, hF.2, hE.1, hE.2.1, hE.2.2, Option.map_none, better_none]
  simp

end JrsVerif.Lit

/-! ### `parse_number` on a rendered literal -/
namespace JrsVerif.Lit
open JrsVerif.Generated JrsVerif.Spec

/-- the exponent part after the separators are stripped -/
def expStr : Option (Nat × Option Nat × Groups) → List Nat
  | none => []
  | some (l, none, g) => l :: g.digits
  | some (l, some s, g) => l :: s :: g.digits

def fracStr : Option Groups → List Nat
  | none => []
  | some f => 46 :: f.digits

theorem stripSep_cons_ne (c : Nat) (l : List Nat) (h : c ≠ 95) : stripSep 95 (c :: l) = c :: stripSep 95 l := by
  simp [stripSep, h]

theorem stripSep_numlit (n : NumLit) (hn : n.WF) :
    stripSep irNumStrip n.render = n.int.digits ++ (fracStr n.frac ++ expStr n.exp) := by
  obtain ⟨hi, _, hf, he⟩ := hn
  have h95 : irNumStrip = 95 := rfl
  rw [h95]
  simp only [NumLit.render, stripSep_append, List.append_assoc]
  rw [stripSep_render _ hi]
  congr 1
  congr 1
  · cases hfr : n.frac with
    | none => rfl
    | some f => simp only [fracRender, fracStr]; rw [stripSep_cons_ne _ _ (by decide), stripSep_render _ (hf f hfr)]
  · cases hex : n.exp with
    | none => rfl
    | some v =>
      obtain ⟨l, s, g⟩ := v
      obtain ⟨hl, hs, hg⟩ := he l s g hex
      have hl95 : l ≠ 95 := by rcases hl with h | h <;> omega
      cases s with
      | none => simp only [expRender, expStr]; rw [stripSep_cons_ne _ _ hl95, stripSep_render _ hg]
      | some sg =>
        have hs95 : sg ≠ 95 := by rcases hs sg rfl with h | h <;> omega
        simp only [expRender, expStr]
        rw [stripSep_cons_ne _ _ hl95, stripSep_cons_ne _ _ hs95, stripSep_render _ hg]

theorem splitSign_digit (x : Nat) (t : List Nat) (hx : isDigit x = true) : splitSign (x :: t) = (false, x :: t) := by
  have h : 48 ≤ x ∧ x ≤ 57 := by simpa [isDigit] using hx
  unfold splitSign
  split
  · rename_i h1; injection h1 with h1 _; omega
  · rename_i h1; injection h1 with h1 _; omega
  · rfl

theorem noDigitHead_nil : NoDigitHead [] := by intro c hc; simp at hc

theorem rustExp_expStr (e : Option (Nat × Option Nat × Groups))
    (he : ∀ l s g, e = some (l, s, g) → (l = 101 ∨ l = 69) ∧ (∀ c, s = some c → c = 43 ∨ c = 45) ∧ g.WF) :
    rustExp (expStr e) = some (expValue e) := by
  cases e with
  | none => rfl
  | some v =>
    obtain ⟨l, s, g⟩ := v
    obtain ⟨hl, hs, hg⟩ := he l s g rfl
    have hd := allDigits_digits g hg
    have hne := digits_ne_nil g hg
    have htk : takeDigits g.digits = g.digits := by
      have := takeDigits_append g.digits [] hd
      simpa [takeDigits_stop [] noDigitHead_nil] using this
    have hdr : dropDigits g.digits = [] := by
      have := dropDigits_append g.digits [] hd
      simpa [dropDigits] using this
    have hlen : g.digits.length ≠ 0 := by
      intro h; exact hne (List.length_eq_zero_iff.mp h)
    cases s with
    | none =>
      cases hdg : g.digits with
      | nil => exact absurd hdg hne
      | cons x t =>
        have hx : isDigit x = true := hd x (by simp [hdg])
        have hx45 : x ≠ 45 := by simp [isDigit] at hx; omega
        have hx43 : x ≠ 43 := by simp [isDigit] at hx; omega
        have hm : splitSign (x :: t) = (false, x :: t) := splitSign_digit x t hx
        simp only [expStr, hdg, rustExp, hl, if_true, hm, expValue]
        rw [← hdg, htk, hdr]
        simp [hlen]
    | some sg =>
      rcases hs sg rfl with h | h <;> subst h
      · simp only [expStr, rustExp, hl, if_true, expValue, splitSign, htk, hdr]
        simp [hlen]
      · simp only [expStr, rustExp, hl, if_true, expValue, splitSign, htk, hdr]
        simp [hlen]

theorem noDigitHead_expStr (e : Option (Nat × Option Nat × Groups))
    (he : ∀ l s g, e = some (l, s, g) → (l = 101 ∨ l = 69) ∧ (∀ c, s = some c → c = 43 ∨ c = 45) ∧ g.WF) :
    ∀ c, (expStr e).head? = some c → isDigit c = false ∧ c ≠ 46 := by
  intro c hc
  cases e with
  | none => simp [expStr] at hc
  | some v =>
    obtain ⟨l, s, g⟩ := v
    have hl := (he l s g rfl).1
    cases s <;> simp [expStr] at hc <;> subst hc <;> rcases hl with h | h <;> subst h <;> decide

theorem rustMantissa_numlit (ip : List Nat) (f : Option Groups) (hf : ∀ g, f = some g → g.WF)
    (hip : allDigits ip) (tail : List Nat) (ht : ∀ c, tail.head? = some c → isDigit c = false ∧ c ≠ 46) :
    rustMantissa (ip ++ (fracStr f ++ tail)) = (ip, fracDigits f, tail) := by
  have htn : NoDigitHead tail := fun c hc => (ht c hc).1
  cases f with
  | none =>
    simp only [fracStr, List.nil_append, rustMantissa, fracDigits]
    rw [takeDigits_append _ _ hip, takeDigits_stop _ htn, dropDigits_append _ _ hip, dropDigits_stop _ htn]
    cases tail with
    | nil => simp
    | cons c t =>
      have := (ht c rfl).2
      simp
      split
      · rename_i h; injection h with h1 _; exact absurd h1 this
      · rfl
  | some g =>
    have hg := hf g rfl
    have hd := allDigits_digits g hg
    have h46 : NoDigitHead (46 :: (g.digits ++ tail)) := by intro c hc; simp at hc; subst hc; decide
    simp only [fracStr, rustMantissa, fracDigits, List.cons_append]
    rw [takeDigits_append _ _ hip, dropDigits_append _ _ hip]
    rw [takeDigits_stop _ h46, dropDigits_stop _ h46]
    simp only [List.append_nil]
    rw [takeDigits_append _ _ hd, takeDigits_stop _ htn, dropDigits_append _ _ hd, dropDigits_stop _ htn]
    simp

/-- `parse_number` on a rendered literal yields exactly the value the grammar assigns to it -/
theorem irNumber_render (n : NumLit) (hn : n.WF) :
    irNumber n.render = some (.dec false n.mantissa n.exponent) := by
  have hs := stripSep_numlit n hn
  obtain ⟨hi, _, hf, he⟩ := hn
  unfold irNumber
  rw [hs]
  have hid := allDigits_digits n.int hi
  have hne := digits_ne_nil n.int hi
  cases hdg : n.int.digits with
  | nil => exact absurd hdg hne
  | cons x t =>
    have hx : isDigit x = true := hid x (by simp [hdg])
    have hxr : 48 ≤ x ∧ x ≤ 57 := by simpa [isDigit] using hx
    have hm := rustMantissa_numlit n.int.digits n.frac hf hid (expStr n.exp) (noDigitHead_expStr n.exp he)
    rw [hdg] at hm
    have hns : splitSign (x :: t ++ (fracStr n.frac ++ expStr n.exp)) = (false, x :: t ++ (fracStr n.frac ++ expStr n.exp)) :=
      splitSign_digit x _ hx
    have hlow : lower x = x := by simp [lower]; omega
    unfold rustParseF64
    simp only [hns]
    have hw1 : ¬ ((x :: t ++ (fracStr n.frac ++ expStr n.exp)).map lower = [105, 110, 102] ∨
        (x :: t ++ (fracStr n.frac ++ expStr n.exp)).map lower = [105, 110, 102, 105, 110, 105, 116, 121]) := by
      simp only [List.cons_append, List.map_cons, hlow]
      rintro (h | h) <;> (injection h with h1 _; omega)
    have hw2 : ¬ ((x :: t ++ (fracStr n.frac ++ expStr n.exp)).map lower = [110, 97, 110]) := by
      simp only [List.cons_append, List.map_cons, hlow]
      intro h; injection h with h1 _; omega
    rw [if_neg hw1, if_neg hw2]
    unfold rustDec
    rw [hm]
    simp only [rustExp_expStr n.exp he, Option.map_some]
    rw [if_neg (by simp)]
    simp [NumLit.mantissa, NumLit.exponent, hdg]

end JrsVerif.Lit

namespace JrsVerif.Lit
open JrsVerif.Generated JrsVerif.Spec

theorem irVerbatim_render (q : Nat) (c rest : List Nat) (hr : ∀ x, rest.head? = some x → x ≠ q) :
    irVerbatim q (verbRender q c ++ rest) = some (c, rest) := by
  have hv := verbRest_render q c rest hr
  have hs := slice_inner 64 q (verbBody q c) rest
  simp only at hs
  unfold irVerbatim verbRender
  simp only [List.cons_append, List.append_assoc, List.singleton_append, List.nil_append, verbAt, and_self, if_true, hv]
  rw [hs, replace2_render]

theorem numStop_nil : NumStop [] := by intro c hc; simp at hc

theorem irWhole_render (n : NumLit) (hn : n.WF) :
    irWhole n.render = some (.dec false n.mantissa n.exponent) := by
  have h := lexNum_render n hn [] numStop_nil
  simp only [List.append_nil] at h
  unfold irWhole
  rw [h]
  simp [irNumber_render n hn]

theorem pegNumber_value (s r : List Nat) (v : F64Lit) (h : pegNumber s = some (v, r)) :
    irNumber (s.take (s.length - r.length)) = some v := by
  unfold pegNumber at h
  cases hp : pegNumRest s with
  | none => simp [hp] at h
  | some r' =>
    simp only [hp] at h
    cases hq : rustParseF64 (stripSep pegNumStrip (s.take (s.length - r'.length))) with
    | none => simp [hq] at h
    | some v' =>
      simp only [hq, Option.map_some, Option.some.injEq, Prod.mk.injEq] at h
      obtain ⟨h1, h2⟩ := h
      subst h1; subst h2
      exact hq

end JrsVerif.Lit
