/-
  C01 — fuel monotonicity of the definitional interpreter `Model/Eval.lean`: the order `Le` on
  computations ("once the left side is decided, the right side is the same computation step") and
  its closure under the monadic constructs the interpreter is written with.  `Proofs/EvalMono.lean`
  walks the body of `run` with these lemmas.
-/
import JrsVerif.Model.Eval

namespace JrsVerif.Eval

/-- the result of a computation step is a value or an error — not "undecided" (out of fuel or
    outside the modelled fragment) -/
def Decided {α} (r : Except Stop α × St) : Prop := ∀ w, r.1 ≠ .error (.undecided w)

/-- `m2` refines `m1`: from every store in which `m1` is decided, `m2` gives the same result AND the
    same store -/
structure Le {α} (m1 m2 : M α) : Prop where
  le : ∀ s : St, Decided (m1 s) → m2 s = m1 s

theorem bind_apply {α β} (m : M α) (k : α → M β) (s : St) :
    (m >>= k) s = match m s with
      | (.ok a, s') => k a s'
      | (.error e, s') => (.error e, s') := by
  show (ExceptT.bind m k) s = _
  unfold ExceptT.bind ExceptT.mk ExceptT.bindCont
  show (StateT.bind _ _) s = _
  unfold StateT.bind
  show (match m s with | (a, s) => _) = _
  rcases m s with ⟨r, s'⟩
  cases r <;> rfl

theorem tryCatch_apply {α} (m : M α) (h : Stop → M α) (s : St) :
    (tryCatch m h) s = match m s with
      | (.ok a, s') => (.ok a, s')
      | (.error e, s') => h e s' := by
  show (ExceptT.tryCatch m h) s = _
  unfold ExceptT.tryCatch ExceptT.mk
  show (StateT.bind _ _) s = _
  unfold StateT.bind
  show (match m s with | (a, s) => _) = _
  rcases m s with ⟨r, s'⟩
  cases r <;> rfl

theorem Le.refl {α} (m : M α) : Le m m := ⟨fun _ _ => rfl⟩

theorem Le.trans {α} {a b c : M α} (h1 : Le a b) (h2 : Le b c) : Le a c := by
  refine ⟨fun s hd => ?_⟩
  have e1 := h1.le s hd
  rw [← e1] at hd
  rw [h2.le s hd, e1]

theorem Le.bind {α β} {m1 m2 : M α} {k1 k2 : α → M β} (hm : Le m1 m2) (hk : ∀ a, Le (k1 a) (k2 a)) :
    Le (m1 >>= k1) (m2 >>= k2) := by
  refine ⟨fun s hd => ?_⟩
  rw [bind_apply] at hd ⊢
  rw [bind_apply]
  have hm' := hm.le s
  rcases h : m1 s with ⟨r, s'⟩
  rw [h] at hd hm'
  cases r with
  | error e =>
    have : m2 s = (.error e, s') := hm' (by
      intro w hw; exact hd w (by simpa using hw))
    rw [this]
  | ok a =>
    have : m2 s = (.ok a, s') := hm' (by intro w hw; cases hw)
    rw [this]
    exact (hk a).le s' hd

theorem Le.forIn {α β} (xs : List α) (b : β) {f1 f2 : α → β → M (ForInStep β)}
    (h : ∀ x b, Le (f1 x b) (f2 x b)) : Le (forIn xs b f1) (forIn xs b f2) := by
  induction xs generalizing b with
  | nil => simp only [List.forIn_nil]; exact Le.refl _
  | cons x xs ih =>
    simp only [List.forIn_cons]
    apply Le.bind (h x b)
    intro r
    cases r with
    | done b' => exact Le.refl _
    | yield b' => exact ih b'

theorem Le.mapM {α β} (xs : List α) {f1 f2 : α → M β} (h : ∀ x, Le (f1 x) (f2 x)) :
    Le (xs.mapM f1) (xs.mapM f2) := by
  induction xs with
  | nil => simp only [List.mapM_nil]; exact Le.refl _
  | cons x xs ih =>
    simp only [List.mapM_cons]
    apply Le.bind (h x)
    intro a
    apply Le.bind ih
    intro; exact Le.refl _

/-- `try m catch h` where the handler re-throws "undecided" -/
theorem Le.tryCatch {α} {m1 m2 : M α} {h1 h2 : Stop → M α} (hm : Le m1 m2)
    (hh : ∀ e, Le (h1 e) (h2 e)) (hu : ∀ w s, ¬ Decided (h1 (.undecided w) s)) :
    Le (tryCatch m1 h1) (tryCatch m2 h2) := by
  refine ⟨fun s hd => ?_⟩
  rw [tryCatch_apply] at hd ⊢
  rw [tryCatch_apply]
  have hm' := hm.le s
  rcases h : m1 s with ⟨r, s'⟩
  rw [h] at hd hm'
  cases r with
  | ok a =>
    have : m2 s = (.ok a, s') := hm' (by intro w hw; cases hw)
    rw [this]
  | error e =>
    cases e with
    | undecided w => exact absurd hd (hu w s')
    | err e =>
      have : m2 s = (.error (.err e), s') := hm' (by intro w hw; cases hw)
      rw [this]
      exact (hh _).le s' hd

/-- the reified attempt used by `forcePair` -/
def attempt {α} (m : M α) : M (Except Stop α) :=
  tryCatch (do let v ← m; pure (Except.ok v)) (fun st => pure (Except.error st))

theorem attempt_apply {α} (m : M α) (s : St) : attempt m s = (.ok (m s).1, (m s).2) := by
  unfold attempt
  rw [tryCatch_apply, bind_apply]
  rcases m s with ⟨r, s'⟩
  cases r <;> rfl

/-- two attempts followed by a continuation in which "undecided" on either side wins -/
theorem Le.attempt2 {α β γ} {mx1 mx2 : M α} {my1 my2 : M β}
    {k : Except Stop α → Except Stop β → M γ}
    (hx : Le mx1 mx2) (hy : Le my1 my2)
    (hk1 : ∀ w yr s, ¬ Decided (k (.error (.undecided w)) yr s))
    (hk2 : ∀ w xr s, ¬ Decided (k xr (.error (.undecided w)) s)) :
    Le (attempt mx1 >>= fun xr => attempt my1 >>= fun yr => k xr yr)
       (attempt mx2 >>= fun xr => attempt my2 >>= fun yr => k xr yr) := by
  refine ⟨fun s hd => ?_⟩
  rw [bind_apply, attempt_apply] at hd ⊢
  rw [bind_apply, attempt_apply]
  simp only at hd ⊢
  rw [bind_apply, attempt_apply] at hd ⊢
  rw [bind_apply, attempt_apply]
  simp only at hd ⊢
  have hx' := hx.le s
  rcases hxs : mx1 s with ⟨xr, s1⟩
  rw [hxs] at hd hx'
  simp only at hd hx'
  have hxd : Decided (xr, s1) := by
    intro w hw
    simp only at hw
    subst hw
    exact hk1 w _ _ hd
  rw [hx' hxd]
  simp only
  have hy' := hy.le s1
  rcases hys : my1 s1 with ⟨yr, s2⟩
  rw [hys] at hd hy'
  simp only at hd hy'
  have hyd : Decided (yr, s2) := by
    intro w hw
    simp only at hw
    subst hw
    exact hk2 w _ _ hd
  rw [hy' hyd]

theorem not_decided_undecided {α} (w : String) (s : St) :
    ¬ Decided ((undecided w : M α) s) := fun h => h w rfl

theorem not_decided_throw {α} (w : String) (s : St) :
    ¬ Decided ((throw (Stop.undecided w) : M α) s) := fun h => h w rfl

end JrsVerif.Eval
