/- C06 helper definitions and lemmas: well-formedness of a binding-power table with respect to the
   Jsonnet grammar, and (generic, table-independent) correctness of the Pratt loop. -/
import JrsVerif.Model.Pratt

namespace JrsVerif.Pratt
open JrsVerif.Generated

/-- A binding-power table denotes the Jsonnet grammar: its left binding powers order the binary
    operators exactly as the grammar's precedence levels do, every binary operator is
    left-associative (right power = left power + 1), and every prefix operator the parser knows
    binds tighter than every binary operator. -/
structure WFbin (T : Table) : Prop where
  classes : ∀ o₁ o₂, (T.inf o₁).1 < (T.inf o₂).1 ↔ Spec.level o₂ < Spec.level o₁
  leftAssoc : ∀ o, (T.inf o).2 = (T.inf o).1 + 1

/-- prefix operator `u` is known to the parser and binds tighter than every binary operator -/
def TightOp (T : Table) (u : UnOp) : Prop := ∃ p, T.pref u = some p ∧ ∀ o, (T.inf o).1 < p

structure WF (T : Table) : Prop extends WFbin T where
  prefixTight : ∀ u p, T.pref u = some p → ∀ o, (T.inf o).1 < p

/-- every unary operator occurring in the tree is known to the parser and tight in its table -/
def Tight (T : Table) : Ast → Prop
  | .atom _ => True
  | .un u e => TightOp T u ∧ Tight T e
  | .bin _ l r => Tight T l ∧ Tight T r

theorem tight_of_wf {T : Table} (h : WF T) (ht : ∀ u, (T.pref u).isSome) : ∀ e, Tight T e := by
  intro e
  induction e with
  | atom n => trivial
  | un u e ih =>
    refine ⟨?_, ih⟩
    unfold TightOp
    cases hp : T.pref u with
    | none => have := ht u; simp [hp] at this
    | some p => exact ⟨p, rfl, h.prefixTight u p hp⟩
  | bin o l r ihl ihr => exact ⟨ihl, ihr⟩

theorem binop_mem_all (o : BinOp) : o ∈ BinOp.all := by cases o <;> decide
theorem unop_mem_all (u : UnOp) : u ∈ UnOp.all := by cases u <;> decide

/-- the tree contains no prefix operator -/
def NoUnary : Ast → Prop
  | .atom _ => True
  | .un _ _ => False
  | .bin _ l r => NoUnary l ∧ NoUnary r

theorem tight_of_noUnary (T : Table) : ∀ e, NoUnary e → Tight T e := by
  intro e
  induction e with
  | atom n => intro _; trivial
  | un u e _ => intro h; exact h.elim
  | bin o l r ihl ihr => intro h; exact ⟨ihl h.1, ihr h.2⟩

/-! ### generic correctness of the Pratt loop -/

theorem loop_stop (T : Table) (f m : Nat) (lhs : Ast) (ts : List Tok)
    (h : ∀ o rest, ts = .bin o :: rest → (T.inf o).1 < m) :
    loop T (f + 1) m lhs ts = some (lhs, ts) := by
  unfold loop
  split
  · rename_i o rest
    simp [h o rest rfl]
  · rfl

theorem mono_step (T : Table) : ∀ f,
    (∀ m ts r, exprBp T f m ts = some r → exprBp T (f + 1) m ts = some r) ∧
    (∀ m lhs ts r, loop T f m lhs ts = some r → loop T (f + 1) m lhs ts = some r) := by
  intro f
  induction f with
  | zero =>
    constructor
    · intro m ts r h; simp [exprBp] at h
    · intro m lhs ts r h; simp [loop] at h
  | succ f ih =>
    obtain ⟨ihE, ihL⟩ := ih
    constructor
    · intro m ts r h
      unfold exprBp at h ⊢
      split at h
      · simp at h
      · rename_i t rest
        split at h
        · rename_i u hu
          split at h
          · simp at h
          · rename_i p hp
            split at h
            · simp at h
            · rename_i e rest' he
              simp only [ihE _ _ _ he]
              exact ihL _ _ _ _ h
        · rename_i hu
          split at h
          · exact ihL _ _ _ _ h
          · split at h
            · rename_i e rest' he
              simp only [ihE _ _ _ he]
              exact ihL _ _ _ _ h
            · simp at h
          · simp at h
    · intro m lhs ts r h
      unfold loop at h ⊢
      split at h
      · rename_i o rest
        split at h
        · rename_i hlt; simp only [hlt, if_true]; exact h
        · rename_i hlt
          simp only [hlt, if_false]
          split at h
          · simp at h
          · rename_i rhs rest' he
            simp only [ihE _ _ _ he]
            exact ihL _ _ _ _ h
      · exact h

theorem exprBp_mono (T : Table) {f f' m ts r} (h : exprBp T f m ts = some r) (hle : f ≤ f') :
    exprBp T f' m ts = some r := by
  induction hle with
  | refl => exact h
  | step _ ih => exact (mono_step T _).1 _ _ _ ih

theorem loop_mono (T : Table) {f f' m lhs ts r} (h : loop T f m lhs ts = some r) (hle : f ≤ f') :
    loop T f' m lhs ts = some r := by
  induction hle with
  | refl => exact h
  | step _ ih => exact (mono_step T _).2 _ _ _ _ ih

open JrsVerif.Spec in
/-- left binding power of the top operator is at least `m` (vacuous for atoms and unary) -/
def TopGe (T : Table) (m : Nat) : Ast → Prop
  | .bin o _ _ => m ≤ (T.inf o).1
  | _ => True

/-- whatever follows the printed tree is not an operator its right spine would absorb -/
def Guard (T : Table) : Ast → List Tok → Prop
  | .bin o _ _, ts => ∀ o' rest, ts = .bin o' :: rest → (T.inf o').1 < (T.inf o).2
  | _, _ => True

theorem unaryOf_unTok (u : UnOp) : unaryOf (unTok u) = some u := by cases u <;> rfl

open JrsVerif.Spec in
/-- a child printed in a context: parenthesised, or bare under the side conditions -/
theorem paren_lemma (T : Table) (c : Ast)
    (H : ∀ m rest g res, TopGe T m c → Guard T c rest → loop T g m c rest = some res →
        ∀ f, g + 2 * (print c).length ≤ f → exprBp T f m (print c ++ rest) = some res)
    (b : Bool) (m : Nat) (rest : List Tok) (g : Nat) (res : Ast × List Tok)
    (hb : b = false → TopGe T m c ∧ Guard T c rest)
    (hk : loop T g m c rest = some res) :
    ∀ f, g + 2 * (paren b (print c)).length ≤ f → exprBp T f m (paren b (print c) ++ rest) = some res := by
  intro f hf
  cases b with
  | false =>
    simp only [paren] at hf ⊢
    exact H m rest g res (hb rfl).1 (hb rfl).2 hk f hf
  | true =>
    simp only [paren, if_true, List.length_cons, List.length_append, List.length_nil] at hf
    simp only [paren, if_true, List.cons_append, List.append_assoc, List.nil_append]
    obtain ⟨f1, rfl⟩ : ∃ f1, f = f1 + 1 := ⟨f - 1, by omega⟩
    have h0 : exprBp T f1 0 (print c ++ Tok.rpar :: rest) = some (c, Tok.rpar :: rest) := by
      refine H 0 (Tok.rpar :: rest) 1 _ ?_ ?_ ?_ f1 (by omega)
      · cases c <;> simp [TopGe]
      · cases c <;> simp [Guard]
      · exact loop_stop T 0 0 c _ (by intro o r h; cases h)
    unfold exprBp
    simp only [unaryOf, h0]
    exact loop_mono T hk (by omega)

open JrsVerif.Spec in
theorem level_ge_three (o : BinOp) : 3 ≤ level o := by cases o <;> decide

open JrsVerif.Spec in
theorem body_lemma (T : Table) (hT : WFbin T) (e : Ast) (ht : Tight T e) :
    ∀ m rest g res, TopGe T m e → Guard T e rest → loop T g m e rest = some res →
      ∀ f, g + 2 * (print e).length ≤ f → exprBp T f m (print e ++ rest) = some res := by
  induction e with
  | atom n =>
    intro m rest g res _ _ hk f hf
    simp only [print, List.length_cons, List.length_nil] at hf
    obtain ⟨f1, rfl⟩ : ∃ f1, f = f1 + 1 := ⟨f - 1, by omega⟩
    simp only [print, List.cons_append, List.nil_append]
    unfold exprBp
    simp only [unaryOf]
    exact loop_mono T hk (by omega)
  | un u e ih =>
    intro m rest g res _ _ hk f hf
    obtain ⟨⟨p, hp, htight⟩, hte⟩ := ht
    simp only [print, List.length_cons] at hf
    obtain ⟨f1, rfl⟩ : ∃ f1, f = f1 + 1 := ⟨f - 1, by omega⟩
    simp only [print, List.cons_append]
    have hop : exprBp T f1 p (paren (decide (top e > 2)) (print e) ++ rest) = some (e, rest) := by
      refine paren_lemma T e (ih hte) _ p rest 1 _ ?_ ?_ f1 (by omega)
      · intro hb
        cases e with
        | atom _ => simp [TopGe, Guard]
        | un _ _ => simp [TopGe, Guard]
        | bin o _ _ =>
          have := level_ge_three o
          simp [top] at hb
          omega
      · exact loop_stop T 0 p e rest (fun o r _ => htight o)
    unfold exprBp
    simp only [unaryOf_unTok, hp, hop]
    exact loop_mono T hk (by omega)
  | bin o l r ihl ihr =>
    intro m rest g res htop hguard hk f hf
    obtain ⟨htl, htr⟩ := ht
    simp only [TopGe] at htop
    simp only [Guard] at hguard
    simp only [print, List.length_append, List.length_cons] at hf
    simp only [print, List.append_assoc, List.cons_append]
    have hr : exprBp T (g + 2 * (paren (decide (top r ≥ level o)) (print r)).length + 1) (T.inf o).2
        (paren (decide (top r ≥ level o)) (print r) ++ rest) = some (r, rest) := by
      refine paren_lemma T r (ihr htr) _ _ rest 1 _ ?_ ?_ _ (by omega)
      · intro hb
        have hb' : top r < level o := by simpa using hb
        cases r with
        | atom _ => simp [TopGe, Guard]
        | un _ _ => simp [TopGe, Guard]
        | bin o2 _ _ =>
          simp only [top] at hb'
          have h1 : (T.inf o).1 < (T.inf o2).1 := (hT.classes o o2).2 hb'
          constructor
          · simp only [TopGe]; rw [hT.leftAssoc o]; omega
          · simp only [Guard]
            intro o' rest' hr'
            have h2 := hguard o' rest' hr'
            rw [hT.leftAssoc o] at h2
            rw [hT.leftAssoc o2]
            omega
      · exact loop_stop T 0 _ r rest hguard
    have K : loop T ((g + 2 * (paren (decide (top r ≥ level o)) (print r)).length + 1) + 1) m l
        (Tok.bin o :: (paren (decide (top r ≥ level o)) (print r) ++ rest)) = some res := by
      unfold loop
      have hnlt : ¬ (T.inf o).1 < m := by omega
      simp only [hnlt, if_false, hr]
      exact loop_mono T hk (by omega)
    refine paren_lemma T l (ihl htl) _ m _ _ res ?_ K f (by omega)
    intro hb
    have hb' : ¬ (top l > level o) := by simpa using hb
    cases l with
    | atom _ => simp [TopGe, Guard]
    | un _ _ => simp [TopGe, Guard]
    | bin o1 _ _ =>
      simp only [top] at hb'
      have h1 : ¬ (T.inf o1).1 < (T.inf o).1 := fun h => hb' ((hT.classes o1 o).1 h)
      constructor
      · simp only [TopGe]; omega
      · simp only [Guard]
        intro o' rest' hr'
        injection hr' with h3 _
        injection h3 with h4
        subst h4
        rw [hT.leftAssoc o1]
        omega

open JrsVerif.Spec in
/-- the Pratt loop over any table whose binary part denotes the grammar parses the
    minimal-parenthesis rendering of every tree whose prefix operators are tight back to it -/
theorem parse_print (T : Table) (hT : WFbin T) (e : Ast) (ht : Tight T e) :
    parse T (print e) = some e := by
  have h := body_lemma T hT e ht 0 [] 1 (e, [])
    (by cases e <;> simp [TopGe]) (by cases e <;> simp [Guard])
    (loop_stop T 0 0 e [] (by intro o r h; cases h)) (2 * (print e).length + 1) (by omega)
  simp only [List.append_nil] at h
  simp only [parse, h]
end JrsVerif.Pratt
