/-
  C01 — desugaring laws of the definitional interpreter, as equalities of `run` (same result, same
  store, same trace) for every context and store.
  (`local f(x) = e` ≡ `local f = function(x) e` is `run_local_sugar` in Proofs/FmtEval.lean.)
-/
import JrsVerif.Proofs.EvalMono
import JrsVerif.Proofs.FmtEval

namespace JrsVerif.Eval

/-- `e1 != e2` is `!(e1 == e2)` (the desugared form has one more node, hence one more unit of fuel) -/
theorem run_ne_desugar (n : Nat) (c : Ctx) (a b : Expr) :
    run (n+2) (.eval c (.unary .not (.binary .eq a b))) = run (n+1) (.eval c (.binary .ne a b)) := by
  simp only [run, bind_assoc, pure_bind, expectVal]

/-- `a[i:j:k]` as a call: `std.slice(a, i, j, k)` tailstrict, absent parts passed as `null` -/
def sliceCall (x : Expr) (a b st : Option Expr) : Expr :=
  .apply (.index (.var "std") [.str "slice"]) [x, a.getD .null, b.getD .null, st.getD .null] [] true

theorem run_std_builtin (n : Nat) (c : Ctx) (name : String) (k : Nat)
    (hstd : lookupEnv c.env "std" = none) (hb : builtinArity name = some k) :
    run (n+1) (.eval c (.index (.var "std") [.str name])) = pure (.val (.builtin name)) := by
  simp only [run, hstd, hb]
  rfl

theorem run_null (n : Nat) (c : Ctx) : run (n+1) (.eval c .null) = pure (.val .null) := by
  simp only [run]

/-- `a[i:j:k]` ≡ `std.slice(a, i, j, k)` (where `std` is not shadowed), for every fuel ≥ 2 -/
theorem run_slice_desugar (k : Nat) (hk : 1 ≤ k) (c : Ctx) (x : Expr) (a b st : Option Expr)
    (hstd : lookupEnv c.env "std" = none) :
    run (k+1) (.eval c (sliceCall x a b st)) = run (k+1) (.eval c (.slice x a b st)) := by
  unfold sliceCall
  simp only [run]
  obtain ⟨n, rfl⟩ : ∃ n, k = n + 1 := ⟨k - 1, by omega⟩
  rw [run_std_builtin n c "slice" 4 hstd rfl]
  simp only [List.forIn_cons, List.forIn_nil, bind_assoc, pure_bind, expectVal, if_true,
    List.nil_append, List.cons_append]
  cases a <;> cases b <;> cases st <;>
    simp only [Option.getD, run_null, bind_assoc, pure_bind]

/-- what the interpreter stores for a field is the same for `f(ps): e` and `f: function(ps) e` -/
theorem unsugarField_shape (f : Field) : ∃ nm plus body vis,
    (∀ ps v, f = .mk nm plus ps vis v → wrapParams ps v = body) ∧
    (∀ ps v, unsugarField f = .mk nm plus ps vis v → wrapParams ps v = body) ∧
    (∃ ps v, f = .mk nm plus ps vis v) ∧ (∃ ps v, unsugarField f = .mk nm plus ps vis v) := by
  rcases f with ⟨nm, plus, ps, vis, v⟩
  refine ⟨nm, plus, wrapParams ps v, vis, ?_, ?_, ⟨ps, v, rfl⟩, ?_⟩
  · intro ps' v' h; cases h; rfl
  · intro ps' v' h; cases plus <;> cases ps <;> (cases h; rfl)
  · cases plus <;> cases ps <;> exact ⟨_, _, rfl⟩

/-- object literal: methods `f(ps): e` ≡ fields `f: function(ps) e`, for every fuel -/
theorem run_obj_method_desugar (fuel : Nat) (c : Ctx) (ls : List Bind)
    (as : List (Expr × Option Expr)) (fs : List Field) :
    run fuel (.eval c (.obj (.members ls as (fs.map unsugarField))))
      = run fuel (.eval c (.obj (.members ls as fs))) := by
  cases fuel with
  | zero => simp only [run]
  | succ n =>
    simp only [run, List.forIn_map, pure_bind]
    refine congrArg (· >>= _) (congrArg (forIn fs []) ?_)
    funext f y
    obtain ⟨nm, plus, body, vis, h1, h2, ⟨ps1, v1, e1⟩, ⟨ps2, v2, e2⟩⟩ := unsugarField_shape f
    rw [e2, e1]
    simp only [h1 ps1 v1 e1, h2 ps2 v2 e2]

end JrsVerif.Eval
