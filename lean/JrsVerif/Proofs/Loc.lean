/- C17 — helper lemmas: the offset walker of `Model/Loc.lean` computes `Spec.locate`. -/
import JrsVerif.Model.Loc

namespace JrsVerif.Loc
open Spec

/-! ### bytes -/

theorem byteLen_append (a b : List Char) : byteLen (a ++ b) = byteLen a + byteLen b := by
  induction a with
  | nil => simp [byteLen]
  | cons c cs ih => simp [byteLen, ih]; omega

theorem nl_size : '\n'.utf8Size = 1 := by decide

/-- offset `o` is reachable from position `pos` by consuming whole characters of `rest` -/
def Reach (pos : Nat) (rest : List Char) (o : Nat) : Prop :=
  ∃ pre post, rest = pre ++ post ∧ o = pos + byteLen pre

theorem Reach.ge {pos rest o} (h : Reach pos rest o) : pos ≤ o := by
  obtain ⟨_, _, _, h⟩ := h; omega

theorem Reach.nil {pos o} (h : Reach pos [] o) : o = pos := by
  obtain ⟨pre, post, h1, h2⟩ := h
  have : pre = [] := by
    cases pre with
    | nil => rfl
    | cons _ _ => simp at h1
  subst this; simpa [byteLen] using h2

theorem Reach.step {pos c cs o} (h : Reach pos (c :: cs) o) (hne : o ≠ pos) :
    Reach (pos + c.utf8Size) cs o := by
  obtain ⟨pre, post, h1, h2⟩ := h
  cases pre with
  | nil => simp [byteLen] at h2; omega
  | cons d ds =>
    simp at h1
    obtain ⟨rfl, rfl⟩ := h1
    exact ⟨ds, post, rfl, by simp [byteLen] at h2; omega⟩

/-! ### the two inner loops -/

def stamp (pos line column thisLine : Nat) (l : CodeLocation) : CodeLocation :=
  { l with offset := pos, line := line, column := column, lineStart := thisLine }

theorem popAll_eq (pos line column thisLine : Nat) (ps : List (Nat × Nat)) (noEnd : List Nat)
    (out : Nat → CodeLocation)
    (hs : ps.Pairwise (fun a b => a.1 ≤ b.1)) (hge : ∀ p ∈ ps, pos ≤ p.1) :
    popAll pos line column thisLine ps noEnd out =
      (ps.filter (fun p => p.1 != pos),
       noEnd ++ (ps.filter (fun p => p.1 == pos)).map (·.2),
       fun i => if i ∈ (ps.filter (fun p => p.1 == pos)).map (·.2)
                then stamp pos line column thisLine (out i) else out i) := by
  induction ps generalizing noEnd out with
  | nil => simp [popAll]
  | cons p ps ih =>
    obtain ⟨o, idx⟩ := p
    rw [List.pairwise_cons] at hs
    have hge' : ∀ p ∈ ps, pos ≤ p.1 := fun p hp => hge p (List.mem_cons_of_mem _ hp)
    by_cases ho : o = pos
    · subst ho
      simp only [popAll, if_true]
      rw [ih _ _ hs.2 hge']
      simp only [List.filter_cons, bne_self_eq_false, beq_self_eq_true, if_true, List.map_cons,
        Bool.false_eq_true, if_false, List.append_assoc, List.singleton_append, List.mem_cons]
      refine Prod.ext rfl (Prod.ext rfl ?_)
      funext i
      by_cases hi : i = idx
      · subst hi; simp [stamp]
      · simp [hi]
    · have hgt : pos < o := by
        have := hge (o, idx) (List.mem_cons_self ..); simp at this; omega
      have hall : ∀ q ∈ ps, q.1 ≠ pos := fun q hq => by
        have := hs.1 q hq; simp at this; omega
      have hf1 : ps.filter (fun p => p.1 != pos) = ps := by
        rw [List.filter_eq_self]; intro q hq; simpa using hall q hq
      have hf2 : ps.filter (fun p => p.1 == pos) = [] := by
        rw [List.filter_eq_nil_iff]; intro q hq; simpa using hall q hq
      simp [popAll, ho, hf1, hf2]

theorem setEnds_eq (pos : Nat) (l : List Nat) (out : Nat → CodeLocation) (i : Nat) :
    setEnds pos l out i = if i ∈ l then { out i with lineEnd := pos } else out i := by
  induction l generalizing out with
  | nil => simp [setEnds]
  | cons a l ih =>
    simp only [setEnds, ih, List.mem_cons]
    by_cases h1 : i ∈ l <;> by_cases h2 : i = a <;> simp [h1, h2]

/-! ### reference walk relative to a walker state -/

/-- byte position of the first newline at or after `pos`, else the end of the text -/
def endRel (pos : Nat) : List Char → Nat
  | [] => pos
  | c :: cs => if c = '\n' then pos else endRel (pos + c.utf8Size) cs

def locRel (line col thisLine pos : Nat) : List Char → Nat → CodeLocation
  | [], o => if o = pos then ⟨o, line, col + 1, thisLine, pos⟩ else {}
  | c :: cs, o =>
    if o = pos then ⟨o, line, col + 1, thisLine, endRel pos (c :: cs)⟩
    else if c = '\n' then locRel (line + 1) 1 (pos + 1) (pos + 1) cs o
    else locRel line (col + 1) thisLine (pos + c.utf8Size) cs o

/-- hypotheses on a walker state at byte position `pos` with `rest` still to read -/
structure Ok (maxOff pos : Nat) (rest : List Char) (s : St) : Prop where
  sorted : s.pending.Pairwise (fun a b => a.1 ≤ b.1)
  reach : ∀ p ∈ s.pending, Reach pos rest p.1
  bound : ∀ p ∈ s.pending, p.1 ≤ maxOff
  nodup : (s.pending.map (·.2)).Nodup
  disj : ∀ p ∈ s.pending, p.2 ∉ s.noEnd

theorem idx_inj {ps : List (Nat × Nat)} (h : (ps.map (·.2)).Nodup) {p q : Nat × Nat}
    (hp : p ∈ ps) (hq : q ∈ ps) (e : p.2 = q.2) : p = q := by
  induction ps with
  | nil => cases hp
  | cons a ps ih =>
    rw [List.map_cons, List.nodup_cons] at h
    rcases List.mem_cons.1 hp with rfl | hp' <;> rcases List.mem_cons.1 hq with rfl | hq'
    · rfl
    · exact absurd (List.mem_map.2 ⟨q, hq', e.symm⟩) h.1
    · exact absurd (List.mem_map.2 ⟨p, hp', e⟩) h.1
    · exact ih h.2 hp' hq'

/-- what the rest of the walk (plus the end-of-file fix-up) does to `out` -/
structure Post (pos : Nat) (rest : List Char) (s : St) (F : Nat → CodeLocation) : Prop where
  pend : ∀ p ∈ s.pending, F p.2 = locRel s.line s.column s.thisLine pos rest p.1
  open_ : ∀ i ∈ s.noEnd, F i = { s.out i with lineEnd := endRel pos rest }
  other : ∀ i, i ∉ s.noEnd → (∀ p ∈ s.pending, p.2 ≠ i) → F i = s.out i

section walk
variable (maxOff : Nat)

private theorem popped_mem {ps : List (Nat × Nat)} {pos i : Nat} :
    i ∈ (ps.filter (fun p => p.1 == pos)).map (·.2) ↔ ∃ p ∈ ps, p.1 = pos ∧ p.2 = i := by
  simp [List.mem_map, List.mem_filter, and_assoc]

theorem walk_post (rest : List Char) : ∀ (pos : Nat) (s : St), Ok maxOff pos rest s →
    Post pos rest s (finish (pos + byteLen rest) (walk maxOff pos rest s)) := by
  induction rest with
  | nil =>
    intro pos s ok
    have hge : ∀ p ∈ s.pending, pos ≤ p.1 := fun p hp => (ok.reach p hp).ge
    have hall : ∀ p ∈ s.pending, p.1 = pos := fun p hp => (ok.reach p hp).nil
    have hsp : (' ' = '\n') = False := by decide
    simp only [walk, step, hsp, if_false, finish, byteLen, Nat.add_zero,
      popAll_eq pos s.line (s.column + 1) s.thisLine s.pending s.noEnd s.out ok.sorted hge]
    refine ⟨?_, ?_, ?_⟩
    · intro p hp
      have hpm : p.2 ∈ (s.pending.filter (fun p => p.1 == pos)).map (·.2) :=
        popped_mem.2 ⟨p, hp, hall p hp, rfl⟩
      rw [setEnds_eq]
      simp [hpm, locRel, hall p hp, stamp]
    · intro i hi
      have hnp : i ∉ (s.pending.filter (fun p => p.1 == pos)).map (·.2) := by
        intro h; obtain ⟨p, hp, _, rfl⟩ := popped_mem.1 h; exact ok.disj p hp hi
      rw [setEnds_eq]
      simp [hi, hnp, endRel]
    · intro i hi hp
      have hnp : i ∉ (s.pending.filter (fun p => p.1 == pos)).map (·.2) := by
        intro h; obtain ⟨p, hp', _, rfl⟩ := popped_mem.1 h; exact hp p hp' rfl
      rw [setEnds_eq]
      simp [hi, hnp]
  | cons c cs ih =>
    intro pos s ok
    have hge : ∀ p ∈ s.pending, pos ≤ p.1 := fun p hp => (ok.reach p hp).ge
    have hpop := popAll_eq pos s.line (s.column + 1) s.thisLine s.pending s.noEnd s.out ok.sorted hge
    -- facts about the part of the stack that stays
    have stay_mem : ∀ {p}, p ∈ s.pending.filter (fun p => p.1 != pos) ↔ p ∈ s.pending ∧ p.1 ≠ pos := by
      intro p; simp [List.mem_filter]
    have stay_sorted := List.Pairwise.filter (fun p : Nat × Nat => p.1 != pos) ok.sorted
    have stay_nodup : ((s.pending.filter (fun p => p.1 != pos)).map (·.2)).Nodup :=
      List.Nodup.sublist (List.Sublist.map _ List.filter_sublist) ok.nodup
    have notpop_of_noEnd : ∀ i ∈ s.noEnd, i ∉ (s.pending.filter (fun p => p.1 == pos)).map (·.2) := by
      intro i hi h; obtain ⟨p, hp, _, rfl⟩ := popped_mem.1 h; exact ok.disj p hp hi
    have stay_notpop : ∀ p ∈ s.pending.filter (fun p => p.1 != pos),
        p.2 ∉ (s.pending.filter (fun p => p.1 == pos)).map (·.2) := by
      intro p hp h
      obtain ⟨q, hq, hq1, hq2⟩ := popped_mem.1 h
      have := idx_inj ok.nodup hq (stay_mem.1 hp).1 hq2
      subst this; exact (stay_mem.1 hp).2 hq1
    by_cases hc : c = '\n'
    · subst hc
      by_cases hb : pos = maxOff + 1
      · -- the `break`: nothing can be pending any more
        have hemp : s.pending = [] := by
          cases hps : s.pending with
          | nil => rfl
          | cons p ps =>
            have hp : p ∈ s.pending := by rw [hps]; exact List.mem_cons_self ..
            have h1 := hge p hp; have h2 := ok.bound p hp; omega
        have hbt : (pos == maxOff + 1) = true := by simp [hb]
        simp only [walk, step, if_true, hpop, hbt, finish, setEnds]
        refine ⟨?_, ?_, ?_⟩
        · intro p hp; rw [hemp] at hp; cases hp
        · intro i hi; rw [setEnds_eq]; simp [hemp, hi, endRel]
        · intro i hi _; rw [setEnds_eq]; simp [hemp, hi]
      · have hbf : (pos == maxOff + 1) = false := by simpa using hb
        simp only [walk, step, if_true, hpop, hbf, Bool.false_eq_true, if_false, byteLen]
        have ok' : Ok maxOff (pos + '\n'.utf8Size) cs
            { line := s.line + 1, column := 1, thisLine := pos + 1,
              pending := s.pending.filter (fun p => p.1 != pos), noEnd := [],
              out := setEnds pos (s.noEnd ++ (s.pending.filter (fun p => p.1 == pos)).map (·.2))
                (fun i => if i ∈ (s.pending.filter (fun p => p.1 == pos)).map (·.2)
                  then stamp pos s.line (s.column + 1) s.thisLine (s.out i) else s.out i) } :=
          { sorted := stay_sorted
            reach := fun p hp => (ok.reach p (stay_mem.1 hp).1).step (stay_mem.1 hp).2
            bound := fun p hp => ok.bound p (stay_mem.1 hp).1
            nodup := stay_nodup
            disj := fun p _ h => by cases h }
        have post := ih (pos + '\n'.utf8Size) _ ok'
        rw [show pos + ('\n'.utf8Size + byteLen cs) = pos + '\n'.utf8Size + byteLen cs by omega]
        refine ⟨?_, ?_, ?_⟩
        · intro p hp
          by_cases hpp : p.1 = pos
          · have hpm : p.2 ∈ (s.pending.filter (fun p => p.1 == pos)).map (·.2) :=
              popped_mem.2 ⟨p, hp, hpp, rfl⟩
            rw [post.other p.2 (by simp) (fun q hq e => stay_notpop q hq (e ▸ hpm))]
            simp only []
            rw [setEnds_eq]
            simp [hpm, locRel, hpp, stamp, endRel]
          · rw [post.pend p (stay_mem.2 ⟨hp, hpp⟩)]
            simp [locRel, hpp, nl_size]
        · intro i hi
          rw [post.other i (by simp) (fun q hq e => ok.disj q (stay_mem.1 hq).1 (e ▸ hi))]
          simp only []
          rw [setEnds_eq]
          simp [hi, notpop_of_noEnd i hi, endRel]
        · intro i hi hp
          have hnp : i ∉ (s.pending.filter (fun p => p.1 == pos)).map (·.2) := by
            intro h; obtain ⟨p, hp', _, rfl⟩ := popped_mem.1 h; exact hp p hp' rfl
          rw [post.other i (by simp) (fun q hq e => hp q (stay_mem.1 hq).1 e)]
          simp only []
          rw [setEnds_eq]
          simp [hi, hnp]
    · simp only [walk, step, hc, if_false, hpop, Bool.false_eq_true, byteLen]
      have ok' : Ok maxOff (pos + c.utf8Size) cs
          { s with column := s.column + 1,
                   pending := s.pending.filter (fun p => p.1 != pos),
                   noEnd := s.noEnd ++ (s.pending.filter (fun p => p.1 == pos)).map (·.2),
                   out := fun i => if i ∈ (s.pending.filter (fun p => p.1 == pos)).map (·.2)
                     then stamp pos s.line (s.column + 1) s.thisLine (s.out i) else s.out i } :=
        { sorted := stay_sorted
          reach := fun p hp => (ok.reach p (stay_mem.1 hp).1).step (stay_mem.1 hp).2
          bound := fun p hp => ok.bound p (stay_mem.1 hp).1
          nodup := stay_nodup
          disj := fun p hp h => by
            rcases List.mem_append.1 h with h | h
            · exact ok.disj p (stay_mem.1 hp).1 h
            · exact stay_notpop p hp h }
      have post := ih (pos + c.utf8Size) _ ok'
      rw [show pos + (c.utf8Size + byteLen cs) = pos + c.utf8Size + byteLen cs by omega]
      refine ⟨?_, ?_, ?_⟩
      · intro p hp
        by_cases hpp : p.1 = pos
        · have hpm : p.2 ∈ (s.pending.filter (fun p => p.1 == pos)).map (·.2) :=
            popped_mem.2 ⟨p, hp, hpp, rfl⟩
          rw [post.open_ p.2 (List.mem_append_right _ hpm)]
          simp [hpm, locRel, hpp, stamp, endRel, hc]
        · rw [post.pend p (stay_mem.2 ⟨hp, hpp⟩)]
          simp [locRel, hpp, hc]
      · intro i hi
        rw [post.open_ i (List.mem_append_left _ hi)]
        simp [notpop_of_noEnd i hi, endRel, hc]
      · intro i hi hp
        have hnp : i ∉ (s.pending.filter (fun p => p.1 == pos)).map (·.2) := by
          intro h; obtain ⟨p, hp', _, rfl⟩ := popped_mem.1 h; exact hp p hp' rfl
        rw [post.other i (by simp [hi, hnp]) (fun q hq e => hp q (stay_mem.1 hq).1 e)]
        simp [hnp]

end walk

/-! ### the relative reference walk is `Spec.locate` -/

theorem endRel_eq (pos : Nat) (post : List Char) : endRel pos post = pos + byteLen (lineRest post) := by
  induction post generalizing pos with
  | nil => simp [endRel, lineRest, byteLen]
  | cons c cs ih =>
    by_cases hc : c = '\n'
    · subst hc; simp [endRel, lineRest, isNl, byteLen]
    · have : isNl c = false := by simpa [isNl] using hc
      simp only [endRel, hc, if_false, ih, lineRest, List.takeWhile_cons, this, Bool.not_false,
        if_true, byteLen]
      simp only [lineRest] at ih
      omega

theorem linePrefix_snoc_nl (done : List Char) : linePrefix (done ++ ['\n']) = [] := by
  simp [linePrefix, isNl]

theorem linePrefix_snoc (done : List Char) (c : Char) (hc : c ≠ '\n') :
    linePrefix (done ++ [c]) = linePrefix done ++ [c] := by
  have : isNl c = false := by simpa [isNl] using hc
  simp [linePrefix, this]

theorem locRel_eq_spec (pre : List Char) : ∀ (done post : List Char) (line col thisLine pos : Nat),
    line = 1 + done.count '\n' → col = (linePrefix done).length + 1 →
    thisLine + byteLen (linePrefix done) = byteLen done → pos = byteLen done →
    locRel line col thisLine pos (pre ++ post) (pos + byteLen pre) = Spec.locate (done ++ pre) post := by
  induction pre with
  | nil =>
    intro done post line col thisLine pos h1 h2 h3 h4
    have hE := endRel_eq pos post
    cases post with
    | nil =>
      simp [locRel, byteLen, Spec.locate, Spec.line, Spec.column, lineRest, h1, h2, h4]
      omega
    | cons c cs =>
      simp only [List.append_nil, List.nil_append, byteLen, Nat.add_zero, locRel, if_true, hE]
      simp [Spec.locate, Spec.line, Spec.column, h1, h2, h4]
      omega
  | cons c cs ih =>
    intro done post line col thisLine pos h1 h2 h3 h4
    have hpos : 0 < c.utf8Size := Char.utf8Size_pos c
    have hne : pos + byteLen (c :: cs) ≠ pos := by simp [byteLen]; omega
    simp only [List.cons_append, locRel, hne, if_false]
    have hassoc : done ++ c :: cs = (done ++ [c]) ++ cs := by simp
    by_cases hc : c = '\n'
    · subst hc
      simp only [if_true]
      have := ih (done ++ ['\n']) post (line + 1) 1 (pos + 1) (pos + 1)
        (by simp [List.count_append, h1]; omega)
        (by simp [linePrefix_snoc_nl])
        (by simp [linePrefix_snoc_nl, byteLen_append, byteLen, nl_size, h4])
        (by simp [byteLen_append, byteLen, nl_size, h4])
      rw [hassoc, ← this]
      simp [byteLen, nl_size]; congr 1; omega
    · simp only [hc, if_false]
      have hcnt : List.count '\n' [c] = 0 := by
        simp [List.count_cons]; exact hc
      have := ih (done ++ [c]) post line (col + 1) thisLine (pos + c.utf8Size)
        (by simp only [List.count_append, hcnt, h1]; omega)
        (by simp [linePrefix_snoc _ _ hc, h2])
        (by simp [linePrefix_snoc _ _ hc, byteLen_append, byteLen]; omega)
        (by simp [byteLen_append, byteLen, h4])
      rw [hassoc, ← this]
      simp [byteLen]; congr 1; omega

/-! ### the initial state -/

theorem le_maxOf {offs : List Nat} {o : Nat} (h : o ∈ offs) : o ≤ maxOf offs := by
  induction offs with
  | nil => cases h
  | cons x xs ih =>
    rcases List.mem_cons.1 h with rfl | h
    · simp [maxOf]; omega
    · have := ih h; simp [maxOf]; omega

theorem offsetMap_perm (offs : List Nat) : (offsetMap offs).Perm offs.zipIdx :=
  List.mergeSort_perm _ _

theorem offsetMap_sorted (offs : List Nat) : (offsetMap offs).Pairwise (fun a b => a.1 ≤ b.1) := by
  have := List.pairwise_mergeSort (le := fun (a b : Nat × Nat) => decide (a.1 ≤ b.1))
    (by intro a b c; simp; omega) (by intro a b; simp; omega) offs.zipIdx
  exact this.imp (by intro a b h; simpa using h)

theorem mem_offsetMap {offs : List Nat} {p : Nat × Nat} :
    p ∈ offsetMap offs ↔ offs[p.2]? = some p.1 := by
  rw [(offsetMap_perm offs).mem_iff, List.mem_zipIdx_iff_getElem?]

theorem offsetMap_nodup (offs : List Nat) : ((offsetMap offs).map (·.2)).Nodup := by
  have h := ((offsetMap_perm offs).map (·.2)).nodup_iff
  rw [h, List.zipIdx_map_snd]
  exact List.nodup_range'

/-- every requested offset is a character boundary of `text` -/
def Boundaries (text : List Char) (offs : List Nat) : Prop := ∀ o ∈ offs, Reach 0 text o

theorem initSt_ok (text : List Char) (offs : List Nat) (hv : Boundaries text offs) :
    Ok (maxOf offs) 0 text (initSt offs) where
  sorted := offsetMap_sorted offs
  reach := fun p hp => hv p.1 (List.mem_of_getElem? (mem_offsetMap.1 hp))
  bound := fun p hp => le_maxOf (List.mem_of_getElem? (mem_offsetMap.1 hp))
  nodup := offsetMap_nodup offs
  disj := fun _ _ h => by cases h

/-- the walker computes the reference location for every requested offset -/
theorem locFn_eq_spec (pre post : List Char) (offs : List Nat) (hv : Boundaries (pre ++ post) offs)
    (i : Nat) (hi : offs[i]? = some (byteLen pre)) :
    locFn (pre ++ post) offs i = Spec.locate pre post := by
  have hne : offs.isEmpty = false := by
    cases offs with
    | nil => simp at hi
    | cons _ _ => rfl
  have post_ := walk_post (maxOf offs) (pre ++ post) 0 (initSt offs) (initSt_ok _ _ hv)
  have hmem : (byteLen pre, i) ∈ (initSt offs).pending := mem_offsetMap.2 hi
  have := post_.pend _ hmem
  simp only [locFn, hne, Bool.false_eq_true, if_false]
  simp only [Nat.zero_add] at this
  rw [this]
  have h := locRel_eq_spec pre [] post 1 1 0 0 (by simp) (by simp [linePrefix]) (by simp [linePrefix, byteLen])
    (by simp [byteLen])
  simpa [initSt] using h

end JrsVerif.Loc
