/- Helper lemmas for C09 (core Lean only). -/
import JrsVerif.Model.Num

set_option exponentiation.threshold 4096

namespace JrsVerif.Num

theorem cmp_lt_iff (a b : D) : (cmp a b).isLT = decide (a.val < b.val) := by
  unfold cmp
  rcases Int.lt_trichotomy a.val b.val with h | h | h
  · simp [Int.compare_eq_lt.mpr h, h]
  · simp [h]
  · have : ¬ a.val < b.val := by omega
    simp [Int.compare_eq_gt.mpr h, this]

theorem tryNum_ok (b r : Nat) : tryNum b = .ok r ↔ (r = b ∧ isFiniteBits b = true) := by
  unfold tryNum
  split
  · rename_i h; constructor
    · intro h'; cases h'; exact ⟨rfl, h⟩
    · rintro ⟨rfl, _⟩; rfl
  · rename_i h; constructor
    · intro h'; cases h'
    · rintro ⟨_, h'⟩; exact absurd h' h

theorem arith_finite (hw : AOp → Nat → Nat → Nat) (op : AOp) (a b r : Nat)
    (h : arith hw op a b = .ok r) : isFiniteBits r = true ∧ r = hw op a b := by
  unfold arith at h
  cases op <;> simp only at h
  case div | mod =>
    split at h
    · cases h
    · have := (tryNum_ok _ _).mp h; exact ⟨this.1 ▸ this.2, this.1⟩
  all_goals (have := (tryNum_ok _ _).mp h; exact ⟨this.1 ▸ this.2, this.1⟩)

theorem U_pos : (0 : Int) < (U : Int) := by
  have : 0 < U := Nat.pow_pos (by decide)
  omega

theorem MAXS_eq : MAXS = 9007199254740991 := by
  simp [MAXS, Generated.MAX_SAFE_INTEGER]

/-- the guard of `truncate_for_bitwise` is exactly the safe-integer range -/
theorem truncBitwise_eq_spec (a : D) : truncBitwise a = Spec.intOf a := by
  unfold truncBitwise Spec.intOf
  rw [MAXS_eq]
  have hU := U_pos
  have e : ((2 ^ 53 - 1) * U : Nat) = (9007199254740991 * (U : Int)).toNat := by
    have : (2 ^ 53 - 1 : Nat) = 9007199254740991 := by decide
    rw [this]; omega
  by_cases h : a.val < -(9007199254740991 * (U : Int)) ∨ a.val > 9007199254740991 * (U : Int)
  · have : a.val.natAbs > (2 ^ 53 - 1) * U := by rw [e]; omega
    simp [h, this]
  · have : ¬ a.val.natAbs > (2 ^ 53 - 1) * U := by rw [e]; omega
    simp [h, this]

theorem truncBitwise_range (a : D) (x : Int) (h : truncBitwise a = .ok x) :
    -(2 ^ 53) < x ∧ x < 2 ^ 53 := by
  unfold truncBitwise at h
  rw [MAXS_eq] at h
  split at h
  · cases h
  · rename_i hr
    cases h
    have hU := U_pos
    have h1 : a.val ≤ 9007199254740991 * (U : Int) := by omega
    have h2 : -(9007199254740991 * (U : Int)) ≤ a.val := by omega
    have u1 := Int.tdiv_le_tdiv hU h1
    have u2 := Int.tdiv_le_tdiv hU h2
    rw [Int.mul_tdiv_cancel _ (by omega)] at u1
    rw [← Int.neg_mul, Int.mul_tdiv_cancel _ (by omega)] at u2
    omega

/-- 64-bit two's-complement pattern of an integer -/
def bits64 (x : Int) : BitVec 64 := BitVec.ofInt 64 x

def BOp.onBits : BOp → BitVec 64 → BitVec 64 → BitVec 64
  | .and => (· &&& ·) | .or => (· ||| ·) | .xor => (· ^^^ ·)

theorem bits64_i64Bit (op : BOp) (x y : Int) :
    bits64 (i64Bit op x y) = op.onBits (bits64 x) (bits64 y) := by
  cases op <;> simp only [bits64, i64Bit, BOp.onBits, BitVec.ofInt_toInt]

theorem bits64_getLsbD (op : BOp) (x y : Int) (i : Nat) :
    (bits64 (i64Bit op x y)).getLsbD i = op.onBool ((bits64 x).getLsbD i) ((bits64 y).getLsbD i) := by
  rw [bits64_i64Bit]
  cases op <;> simp [BOp.onBits, BOp.onBool]

theorem ofInt54_signExtend (x : Int) (h1 : -(2 ^ 53) ≤ x) (h2 : x < 2 ^ 53) :
    BitVec.ofInt 64 x = (BitVec.ofInt 54 x).signExtend 64 := by
  apply BitVec.eq_of_toInt_eq
  rw [BitVec.toInt_signExtend_of_le (by decide)]
  rw [BitVec.toInt_ofInt_eq_self (by decide) (by omega) (by omega)]
  rw [BitVec.toInt_ofInt_eq_self (by decide) (by omega) (by omega)]

theorem i64Bit_range (op : BOp) (x y : Int) (hx1 : -(2 ^ 53) ≤ x) (hx2 : x < 2 ^ 53)
    (hy1 : -(2 ^ 53) ≤ y) (hy2 : y < 2 ^ 53) :
    -(2 ^ 53) ≤ i64Bit op x y ∧ i64Bit op x y < 2 ^ 53 := by
  have key : ∃ v : BitVec 54, i64Bit op x y = v.toInt := by
    cases op
    · refine ⟨BitVec.ofInt 54 x &&& BitVec.ofInt 54 y, ?_⟩
      simp only [i64Bit]
      rw [ofInt54_signExtend x hx1 hx2, ofInt54_signExtend y hy1 hy2, ← BitVec.signExtend_and,
        BitVec.toInt_signExtend_of_le (by decide)]
    · refine ⟨BitVec.ofInt 54 x ||| BitVec.ofInt 54 y, ?_⟩
      simp only [i64Bit]
      rw [ofInt54_signExtend x hx1 hx2, ofInt54_signExtend y hy1 hy2, ← BitVec.signExtend_or,
        BitVec.toInt_signExtend_of_le (by decide)]
    · refine ⟨BitVec.ofInt 54 x ^^^ BitVec.ofInt 54 y, ?_⟩
      simp only [i64Bit]
      rw [ofInt54_signExtend x hx1 hx2, ofInt54_signExtend y hy1 hy2, ← BitVec.signExtend_xor,
        BitVec.toInt_signExtend_of_le (by decide)]
  obtain ⟨v, hv⟩ := key
  rw [hv]
  have a := @BitVec.le_toInt 54 v
  have b := @BitVec.toInt_lt 54 v
  simp at a b
  omega

theorem pow_split (e : Nat) (h : e ≤ 63) : (2 : Int) ^ (63 - e) * 2 ^ e = 2 ^ 63 := by
  rw [← Int.pow_add]; congr 1; omega

theorem pow_pos' (e : Nat) : (0 : Int) < 2 ^ e := Int.pow_pos (by decide)

/-- the overflow guard of `<<` is exactly "the product does not fit i64" -/
theorem shl_guard_iff (base : Int) (e : Nat) (he : e < 64)
    (hb1 : -(2 ^ 53) < base) (hb2 : base < 2 ^ 53) :
    (e ≥ 1 ∧ (base ≥ 2 ^ (63 - e) ∨ base < -(2 ^ (63 - e)))) ↔
      ¬ (-(2 ^ 63) ≤ base * 2 ^ e ∧ base * 2 ^ e < 2 ^ 63) := by
  have hp := pow_pos' e
  have hs := pow_split e (by omega)
  have hq := pow_pos' (63 - e)
  constructor
  · rintro ⟨_, h | h⟩
    · intro ⟨_, c⟩
      have := Int.mul_le_mul_of_nonneg_right h (Int.le_of_lt hp)
      omega
    · intro ⟨c, _⟩
      have := Int.mul_lt_mul_of_pos_right h hp
      rw [Int.neg_mul] at this
      omega
  · intro h
    by_cases h0 : e = 0
    · subst h0; exfalso; apply h; simp; omega
    · refine ⟨by omega, ?_⟩
      by_cases c1 : base ≥ 2 ^ (63 - e)
      · exact Or.inl c1
      · by_cases c2 : base < -(2 ^ (63 - e))
        · exact Or.inr c2
        · exfalso; apply h
          constructor
          · have : -(2 ^ (63 - e)) ≤ base := by omega
            have := Int.mul_le_mul_of_nonneg_right this (Int.le_of_lt hp)
            rw [Int.neg_mul] at this
            omega
          · have : base < 2 ^ (63 - e) := by omega
            have := Int.mul_lt_mul_of_pos_right this hp
            omega

theorem wrapI64_of_fits (x : Int) (h1 : -(2 ^ 63) ≤ x) (h2 : x < 2 ^ 63) : wrapI64 x = x := by
  unfold wrapI64
  rw [Int.bmod_def]
  have : ((2:Nat) ^ 64 : Nat) = 18446744073709551616 := by decide
  rw [this]
  omega

theorem tmod64_toNat (n : Int) (h : 0 ≤ n) : (Int.tmod n 64).toNat = n.toNat % 64 := by
  rw [Int.tmod_eq_emod_of_nonneg h]
  omega

theorem intOf_nonneg (b : D) (n : Int) (hb : ¬ b.val < 0) (h : Spec.intOf b = .ok n) : 0 ≤ n := by
  unfold Spec.intOf at h
  split at h
  · cases h
  · cases h
    exact Int.tdiv_nonneg (by omega) (Int.le_of_lt U_pos)

theorem intOf_range (a : D) (x : Int) (h : Spec.intOf a = .ok x) : -(2 ^ 53) < x ∧ x < 2 ^ 53 :=
  truncBitwise_range a x (by rw [truncBitwise_eq_spec]; exact h)


theorem eqImpl_iff (a b : D) : eqImpl a b = true ↔ a.val = b.val := by
  unfold eqImpl; simp [Generated.NUM_EQ_EXACT]

theorem insert_perm (x : D) (ys : List D) : (Spec.insert x ys).Perm (x :: ys) := by
  induction ys with
  | nil => exact List.Perm.refl _
  | cons y ys ih =>
    simp only [Spec.insert]
    split
    · exact List.Perm.refl _
    · exact (List.Perm.cons y ih).trans (List.Perm.swap x y ys)

theorem insert_sorted (x : D) (ys : List D) (h : ys.Pairwise (fun p q => p.val ≤ q.val)) :
    (Spec.insert x ys).Pairwise (fun p q => p.val ≤ q.val) := by
  induction ys with
  | nil => simp [Spec.insert]
  | cons y ys ih =>
    simp only [Spec.insert]
    have hy := List.pairwise_cons.mp h
    split
    · rename_i hlt
      refine List.pairwise_cons.mpr ⟨?_, h⟩
      intro z hz
      rcases List.mem_cons.mp hz with rfl | hz
      · omega
      · have := hy.1 z hz; omega
    · rename_i hge
      refine List.pairwise_cons.mpr ⟨?_, ih hy.2⟩
      intro z hz
      have := (insert_perm x ys).mem_iff.mp hz
      rcases List.mem_cons.mp this with rfl | hz
      · omega
      · exact hy.1 z hz

theorem sort_perm' (xs : List D) : (Spec.sort xs).Perm xs := by
  induction xs with
  | nil => exact List.Perm.refl _
  | cons x xs ih =>
    show (Spec.insert x (Spec.sort xs)).Perm (x :: xs)
    exact (insert_perm x _).trans (List.Perm.cons x ih)

theorem sort_sorted' (xs : List D) : (Spec.sort xs).Pairwise (fun p q => p.val ≤ q.val) := by
  induction xs with
  | nil => simp [Spec.sort]
  | cons x xs ih => exact insert_sorted x _ ih

theorem uniqGo_spec (l : List D) : ∀ (last : D), l.Pairwise (fun p q => p.val ≤ q.val) →
    (∀ y ∈ l, last.val ≤ y.val) →
    (uniqGo last l).Pairwise (fun p q => p.val < q.val) ∧
    (∀ y ∈ uniqGo last l, last.val < y.val) ∧
    (∀ v : Int, ((∃ y ∈ uniqGo last l, y.val = v) ∨ v = last.val) ↔
                ((∃ y ∈ l, y.val = v) ∨ v = last.val)) := by
  induction l with
  | nil => intro last _ _; simp [uniqGo]
  | cons n rest ih =>
    intro last hs hl
    have hp := List.pairwise_cons.mp hs
    have hn : last.val ≤ n.val := hl n (List.mem_cons_self ..)
    have ihn := ih n hp.2 (fun y hy => hp.1 y hy)
    simp only [uniqGo]
    by_cases he : eqImpl last n = true
    · have hv : last.val = n.val := (eqImpl_iff _ _).mp he
      simp only [he, if_true]
      refine ⟨ihn.1, fun y hy => hv ▸ ihn.2.1 y hy, ?_⟩
      intro v
      rw [hv, ihn.2.2 v]
      constructor
      · rintro (⟨y, hy, rfl⟩ | h)
        · exact Or.inl ⟨y, List.mem_cons_of_mem _ hy, rfl⟩
        · exact Or.inr h
      · rintro (⟨y, hy, rfl⟩ | h)
        · rcases List.mem_cons.mp hy with rfl | hy
          · exact Or.inr rfl
          · exact Or.inl ⟨y, hy, rfl⟩
        · exact Or.inr h
    · have hv : last.val ≠ n.val := fun h => he ((eqImpl_iff _ _).mpr h)
      have he' : eqImpl last n = false := by simpa using he
      simp only [he', Bool.false_eq_true, if_false]
      refine ⟨List.pairwise_cons.mpr ⟨ihn.2.1, ihn.1⟩, ?_, ?_⟩
      · intro y hy
        rcases List.mem_cons.mp hy with rfl | hy
        · omega
        · have := ihn.2.1 y hy; omega
      · intro v
        have := ihn.2.2 v
        constructor
        · rintro (⟨y, hy, rfl⟩ | h)
          · rcases List.mem_cons.mp hy with rfl | hy
            · exact Or.inl ⟨y, List.mem_cons_self .., rfl⟩
            · rcases this.mp (Or.inl ⟨y, hy, rfl⟩) with ⟨z, hz, hzv⟩ | h
              · exact Or.inl ⟨z, List.mem_cons_of_mem _ hz, hzv⟩
              · exact Or.inl ⟨n, List.mem_cons_self .., h.symm⟩
          · exact Or.inr h
        · rintro (⟨y, hy, rfl⟩ | h)
          · rcases List.mem_cons.mp hy with rfl | hy
            · exact Or.inl ⟨y, List.mem_cons_self .., rfl⟩
            · rcases this.mpr (Or.inl ⟨y, hy, rfl⟩) with ⟨z, hz, hzv⟩ | h
              · exact Or.inl ⟨z, List.mem_cons_of_mem _ hz, hzv⟩
              · exact Or.inl ⟨n, List.mem_cons_self .., h.symm⟩
          · exact Or.inr h

theorem uniqImpl_spec (l : List D) (hs : l.Pairwise (fun p q => p.val ≤ q.val)) :
    (uniqImpl l).Pairwise (fun p q => p.val < q.val) ∧
    (∀ v : Int, (∃ y ∈ uniqImpl l, y.val = v) ↔ (∃ y ∈ l, y.val = v)) := by
  cases l with
  | nil => simp [uniqImpl]
  | cons x rest =>
    have hp := List.pairwise_cons.mp hs
    have g := uniqGo_spec rest x hp.2 (fun y hy => hp.1 y hy)
    simp only [uniqImpl]
    refine ⟨List.pairwise_cons.mpr ⟨g.2.1, g.1⟩, ?_⟩
    intro v
    have := g.2.2 v
    constructor
    · rintro ⟨y, hy, rfl⟩
      rcases List.mem_cons.mp hy with rfl | hy
      · exact ⟨y, List.mem_cons_self .., rfl⟩
      · rcases this.mp (Or.inl ⟨y, hy, rfl⟩) with ⟨z, hz, hzv⟩ | h
        · exact ⟨z, List.mem_cons_of_mem _ hz, hzv⟩
        · exact ⟨x, List.mem_cons_self .., h.symm⟩
    · rintro ⟨y, hy, rfl⟩
      rcases List.mem_cons.mp hy with rfl | hy
      · exact ⟨y, List.mem_cons_self .., rfl⟩
      · rcases this.mpr (Or.inl ⟨y, hy, rfl⟩) with ⟨z, hz, hzv⟩ | h
        · exact ⟨z, List.mem_cons_of_mem _ hz, hzv⟩
        · exact ⟨x, List.mem_cons_self .., h.symm⟩

/-- binary search over a strictly ascending array -/
theorem memberGo_spec (x : D) (arr : Array D)
    (hs : ∀ (i j : Nat) (c d : D), i < j → arr[i]? = some c → arr[j]? = some d → c.val < d.val) :
    ∀ (fuel low high : Nat), high ≤ arr.size → high - low < fuel →
      (memberGo x arr low high fuel = true ↔
        ∃ i c, low ≤ i ∧ i < high ∧ arr[i]? = some c ∧ c.val = x.val) := by
  intro fuel
  induction fuel with
  | zero => intro low high _ h; omega
  | succ fuel ih =>
    intro low high hh hf
    unfold memberGo
    by_cases hlt : low < high
    · simp only [hlt, if_true]
      have hm1 : low ≤ (low + high) / 2 := by omega
      have hm2 : (low + high) / 2 < high := by omega
      have hm3 : (low + high) / 2 < arr.size := by omega
      have hget : arr[(low + high) / 2]? = some arr[(low + high) / 2] := Array.getElem?_eq_getElem hm3
      rw [hget]
      simp only
      generalize hc : arr[(low + high) / 2] = c at hget
      rcases Int.lt_trichotomy c.val x.val with h | h | h
      · have e : cmp c x = .lt := Int.compare_eq_lt.mpr h
        simp only [e]
        rw [ih ((low + high) / 2 + 1) high hh (by omega)]
        constructor
        · rintro ⟨i, d, h1, h2, h3, h4⟩; exact ⟨i, d, by omega, h2, h3, h4⟩
        · rintro ⟨i, d, h1, h2, h3, h4⟩
          refine ⟨i, d, ?_, h2, h3, h4⟩
          by_cases hi : i < (low + high) / 2
          · have := hs i _ d c hi h3 hget; omega
          · by_cases hi' : i = (low + high) / 2
            · subst hi'; rw [hget] at h3; cases h3; omega
            · omega
      · have e : cmp c x = .eq := by unfold cmp; rw [h]; exact Int.compare_eq_eq.mpr rfl
        simp only [e]
        simp only [true_iff]
        exact ⟨_, c, hm1, hm2, hget, h⟩
      · have e : cmp c x = .gt := Int.compare_eq_gt.mpr h
        simp only [e]
        rw [ih low ((low + high) / 2) (by omega) (by omega)]
        constructor
        · rintro ⟨i, d, h1, h2, h3, h4⟩; exact ⟨i, d, h1, by omega, h3, h4⟩
        · rintro ⟨i, d, h1, h2, h3, h4⟩
          refine ⟨i, d, h1, ?_, h3, h4⟩
          by_cases hi : (low + high) / 2 < i
          · have := hs _ i c d hi hget h3; omega
          · by_cases hi' : i = (low + high) / 2
            · subst hi'; rw [hget] at h3; cases h3; omega
            · omega
    · simp only [hlt, if_false]
      constructor
      · intro h; cases h
      · rintro ⟨i, _, h1, h2, _⟩; omega

theorem setMemberImpl_spec (x : D) (arr : List D) (hs : arr.Pairwise (fun p q => p.val < q.val)) :
    setMemberImpl x arr = true ↔ ∃ y ∈ arr, y.val = x.val := by
  unfold setMemberImpl
  have hs' : ∀ (i j : Nat) (c d : D), i < j → arr.toArray[i]? = some c → arr.toArray[j]? = some d → c.val < d.val := by
    intro i j c d hij hi hj
    simp only [List.getElem?_toArray] at hi hj
    exact List.pairwise_iff_getElem.mp hs i j (by
      rcases List.getElem?_eq_some_iff.mp hi with ⟨h, _⟩; exact h) (by
      rcases List.getElem?_eq_some_iff.mp hj with ⟨h, _⟩; exact h) hij |> fun h => by
        rcases List.getElem?_eq_some_iff.mp hi with ⟨_, e1⟩
        rcases List.getElem?_eq_some_iff.mp hj with ⟨_, e2⟩
        rw [e1, e2] at h; exact h
  rw [memberGo_spec x arr.toArray hs' (arr.length + 1) 0 arr.length (by simp) (by omega)]
  constructor
  · rintro ⟨i, c, _, _, h3, h4⟩
    simp only [List.getElem?_toArray] at h3
    exact ⟨c, List.mem_of_getElem? h3, h4⟩
  · rintro ⟨y, hy, hv⟩
    obtain ⟨i, hi, e⟩ := List.getElem_of_mem hy
    refine ⟨i, y, by omega, hi, ?_, hv⟩
    simp only [List.getElem?_toArray]
    rw [List.getElem?_eq_getElem hi, e]

theorem opLt_iff (a b : D) : opLt a b = true ↔ a.val < b.val := by
  unfold opLt; rw [cmp_lt_iff]; simp

theorem opLe_iff (a b : D) : opLe a b = true ↔ a.val ≤ b.val := by
  unfold opLe cmp
  rcases Int.lt_trichotomy a.val b.val with h | h | h
  · simp [Int.compare_eq_lt.mpr h]; omega
  · simp [h]
  · simp [Int.compare_eq_gt.mpr h]; omega

theorem opEq_iff (a b : D) : opEq a b = true ↔ a.val = b.val := eqImpl_iff a b

end JrsVerif.Num
