/- C19 helper lemmas: the sugar normal form is a fold-invariant and idempotent. -/
import JrsVerif.Model.Fmt

namespace JrsVerif.Fmt

/-- the three possible behaviours of `sugarHead` -/
theorem sugarHead_cases (t : Tree) :
    (∃ n ps body, t = .node "bind" [.node "dfull" [n], .node "func" [.node "params" ps, body]]
        ∧ sugarHead t = .node "fn" [.node "dfull" [n], .node "params" ps, body])
    ∨ (∃ nm vis ps body,
        t = .node "field" [nm, .atom "false", .node "none" [], vis, .node "func" [.node "params" ps, body]]
        ∧ sugarHead t = .node "field" [nm, .atom "false", .node "params" ps, vis, body])
    ∨ sugarHead t = t := by
  unfold sugarHead
  split
  · exact .inl ⟨_, _, _, rfl, rfl⟩
  · exact .inr (.inl ⟨_, _, _, _, rfl, rfl⟩)
  · exact .inr (.inr rfl)

theorem fold_sugarHead {α : Type} (A : Alg α) (h : SugarLaws A) (t : Tree) :
    fold A (sugarHead t) = fold A t := by
  rcases sugarHead_cases t with ⟨n, ps, body, rfl, e⟩ | ⟨nm, vis, ps, body, rfl, e⟩ | e
  · rw [e]; simp only [fold, foldList]; exact (h.local_fn _ _ _).symm
  · rw [e]; simp only [fold, foldList]; exact (h.field_fn _ _ _ _).symm
  · rw [e]

mutual
theorem fold_norm {α : Type} (A : Alg α) (h : SugarLaws A) : ∀ t : Tree, fold A (norm t) = fold A t
  | .atom s => by simp only [norm]
  | .node l ks => by
    simp only [norm]
    rw [fold_sugarHead A h]
    simp only [fold]
    rw [foldList_norm A h ks]
theorem foldList_norm {α : Type} (A : Alg α) (h : SugarLaws A) :
    ∀ ts : List Tree, foldList A (normList ts) = foldList A ts
  | [] => by simp only [normList]
  | t :: ts => by
    simp only [normList, foldList]
    rw [fold_norm A h t, foldList_norm A h ts]
end

/-! ### idempotence -/

theorem sugarHead_other (l : String) (ks : List Tree) (h1 : l ≠ "bind") (h2 : l ≠ "field") :
    sugarHead (.node l ks) = .node l ks := by
  rcases sugarHead_cases (.node l ks) with ⟨_, _, _, e, _⟩ | ⟨_, _, _, _, e, _⟩ | e
  · injection e with hl _; exact absurd hl h1
  · injection e with hl _; exact absurd hl h2
  · exact e

theorem sugarHead_method (nm vis body : Tree) (ps : List Tree) :
    sugarHead (.node "field" [nm, .atom "false", .node "params" ps, vis, body])
      = .node "field" [nm, .atom "false", .node "params" ps, vis, body] := by
  rcases sugarHead_cases (.node "field" [nm, .atom "false", .node "params" ps, vis, body])
    with ⟨_, _, _, e, _⟩ | ⟨_, _, _, _, e, _⟩ | e
  · injection e with hl _; exact absurd hl (by decide)
  · injection e with _ hk
    injection hk with _ hk
    injection hk with _ hk
    injection hk with hp _
    injection hp with hl _
    exact absurd hl (by decide)
  · exact e

theorem norm_other (l : String) (ks : List Tree) (h1 : l ≠ "bind") (h2 : l ≠ "field") :
    norm (.node l ks) = .node l (normList ks) := by
  simp only [norm]; exact sugarHead_other l _ h1 h2

mutual
theorem norm_idem : ∀ t : Tree, norm (norm t) = norm t
  | .atom s => by simp only [norm]
  | .node l ks => by
    have ih := normList_idem ks
    simp only [norm]
    generalize normList ks = ks' at ih ⊢
    rcases sugarHead_cases (.node l ks') with ⟨n, ps, body, e1, e⟩ | ⟨nm, vis, ps, body, e1, e⟩ | e
    · injection e1 with hl hks; subst hl hks
      rw [e]
      simp only [normList] at ih
      injection ih with h1 ih
      injection ih with h2 _
      rw [norm_other "func" _ (by decide) (by decide)] at h2
      injection h2 with _ h2
      simp only [normList] at h2
      injection h2 with h3 h2
      injection h2 with h4 _
      rw [norm_other "fn" _ (by decide) (by decide)]
      simp only [normList, h1, h3, h4]
    · injection e1 with hl hks; subst hl hks
      rw [e]
      simp only [normList] at ih
      injection ih with h1 ih
      injection ih with h2 ih
      injection ih with _ ih
      injection ih with h4 ih
      injection ih with h5 _
      rw [norm_other "func" _ (by decide) (by decide)] at h5
      injection h5 with _ h5
      simp only [normList] at h5
      injection h5 with h6 h5
      injection h5 with h7 _
      simp only [norm, normList, h1, h4, h7]
      have h6' : norm (.node "params" ps) = .node "params" ps := h6
      rw [norm_other "params" _ (by decide) (by decide)] at h6'
      injection h6' with _ h6'
      rw [h6']
      exact sugarHead_method _ _ _ _
    · rw [e]; simp only [norm, ih]; exact e
theorem normList_idem : ∀ ts : List Tree, normList (normList ts) = normList ts
  | [] => by simp only [normList]
  | t :: ts => by simp only [normList]; rw [norm_idem t, normList_idem ts]
end

end JrsVerif.Fmt
