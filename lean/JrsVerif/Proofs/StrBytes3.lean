/- C11 (round 3) helper lemmas, part 3: base64 decoder soundness, `parse_nat` with the f64 range,
   whitespace tail of the JSON reader. -/
import JrsVerif.Proofs.StrBytes2
import JrsVerif.Model.JsonR

namespace JrsVerif.Str

/-! ### base64 -/

theorem b64Dec_sound (n : Nat) : ∀ (t : List Nat), t.length ≤ n → ∀ bs, Spec.b64Dec t = some bs →
    Spec.b64Enc bs = t ∧ ∀ b ∈ bs, b < 256 := by
  induction n with
  | zero =>
    intro t hl bs h
    have : t = [] := List.length_eq_zero_iff.mp (by omega)
    subst this
    simp [Spec.b64Dec] at h; subst h; simp [Spec.b64Enc]
  | succ n ih =>
    intro t hl bs h
    match t, hl, h with
    | [], _, h => simp [Spec.b64Dec] at h; subst h; simp [Spec.b64Enc]
    | [_], _, h => simp [Spec.b64Dec] at h
    | [_, _], _, h => simp [Spec.b64Dec] at h
    | [_, _, _], _, h => simp [Spec.b64Dec] at h
    | c0 :: c1 :: c2 :: c3 :: r, hl, h =>
      simp only [Spec.b64Dec] at h
      split at h
      · rename_i hc
        simp only [Bool.and_eq_true, List.isEmpty_iff, beq_iff_eq] at hc
        obtain ⟨rfl, rfl⟩ := hc
        split at h
        · rename_i h2
          simp only [beq_iff_eq] at h2; subst h2
          split at h
          · rename_i v0 v1 e0 e1
            obtain ⟨l0, k0⟩ := b64Char_of_b64Val e0
            obtain ⟨l1, k1⟩ := b64Char_of_b64Val e1
            split at h
            · rename_i hz
              simp only [beq_iff_eq] at hz
              cases h
              have a1 : (v0 * 4 + v1 / 16) / 4 = v0 := by omega
              have a2 : (v0 * 4 + v1 / 16) % 4 * 16 = v1 := by omega
              refine ⟨by simp only [Spec.b64Enc, a1, a2, k0, k1], ?_⟩
              intro b hb; simp at hb; omega
            · cases h
          · cases h
        · split at h
          · rename_i v0 v1 v2 e0 e1 e2
            obtain ⟨l0, k0⟩ := b64Char_of_b64Val e0
            obtain ⟨l1, k1⟩ := b64Char_of_b64Val e1
            obtain ⟨l2, k2⟩ := b64Char_of_b64Val e2
            split at h
            · rename_i hz
              simp only [beq_iff_eq] at hz
              cases h
              have a1 : (v0 * 4 + v1 / 16) / 4 = v0 := by omega
              have a2 : (v0 * 4 + v1 / 16) % 4 * 16 + (v1 % 16 * 16 + v2 / 4) / 16 = v1 := by omega
              have a3 : (v1 % 16 * 16 + v2 / 4) % 16 * 4 = v2 := by omega
              refine ⟨by simp only [Spec.b64Enc, a1, a2, a3, k0, k1, k2], ?_⟩
              intro b hb; simp at hb; omega
            · cases h
          · cases h
      · split at h
        · rename_i v0 v1 v2 v3 rest e0 e1 e2 e3 er
          obtain ⟨l0, k0⟩ := b64Char_of_b64Val e0
          obtain ⟨l1, k1⟩ := b64Char_of_b64Val e1
          obtain ⟨l2, k2⟩ := b64Char_of_b64Val e2
          obtain ⟨l3, k3⟩ := b64Char_of_b64Val e3
          cases h
          simp only [List.length_cons] at hl
          obtain ⟨i1, i2⟩ := ih r (by omega) rest er
          have a1 : (v0 * 4 + v1 / 16) / 4 = v0 := by omega
          have a2 : (v0 * 4 + v1 / 16) % 4 * 16 + (v1 % 16 * 16 + v2 / 4) / 16 = v1 := by omega
          have a3 : (v1 % 16 * 16 + v2 / 4) % 16 * 4 + (v2 % 4 * 64 + v3) / 64 = v2 := by omega
          have a4 : (v2 % 4 * 64 + v3) % 64 = v3 := by omega
          refine ⟨by simp only [Spec.b64Enc, a1, a2, a3, a4, k0, k1, k2, k3, i1], ?_⟩
          intro b hb
          simp only [List.mem_cons] at hb
          rcases hb with rfl | rfl | rfl | hb
          · omega
          · omega
          · omega
          · exact i2 b hb
        · cases h

/-! ### `parse_nat` with overflow -/

theorem parseNatGoX_old (base : Nat) (cs : List Nat) : ∀ (a v : Nat),
    Model.parseNatGoX base cs (some a) = some (some v) → Model.parseNatGo base cs a = some v := by
  induction cs with
  | nil => intro a v h; simpa [Model.parseNatGoX, Model.parseNatGo] using h
  | cons c cs ih =>
    intro a v h
    simp only [Model.parseNatGoX] at h
    simp only [Model.parseNatGo]
    split at h
    · rename_i hd
      rw [if_pos hd]
      simp only [Model.fmaStep] at h
      split at h
      · -- overflowed: the fold stays infinite
        exfalso
        clear ih
        have : ∀ l : List Nat, Model.parseNatGoX base l none ≠ some (some v) := by
          intro l
          induction l with
          | nil => simp [Model.parseNatGoX]
          | cons x l ihl =>
            simp only [Model.parseNatGoX]
            split
            · simpa [Model.fmaStep] using ihl
            · simp
        exact this cs h
      · exact ih _ v h
    · cases h

theorem parseNatGoX_exact (base : Nat) (hb : base = 8 ∨ base = 10 ∨ base = 16) (cs : List Nat)
    (acc v : Nat) (h : Spec.natValue base cs acc = some v) (hv : v < 2 ^ 53) :
    Model.parseNatGoX base cs (some acc) = some (some v) := by
  induction cs generalizing acc with
  | nil => simpa [Spec.natValue, Model.parseNatGoX] using h
  | cons c cs ih =>
    simp only [Spec.natValue] at h
    simp only [Model.parseNatGoX]
    rw [digitOf_eq base c hb] at h
    split at h
    · simp at h
    · rename_i d hd
      split at hd
      · rename_i hlt
        simp only [Option.some.injEq] at hd
        subst hd
        have hge := natValue_ge base (by omega) cs _ v h
        have hsmall : base * acc + Model.digitOf base c < 2 ^ 53 := by omega
        have hmax : ¬ (base * acc + Model.digitOf base c > Model.f64Max) := by
          have : (2:Nat) ^ 53 ≤ Model.f64Max := by decide +kernel
          omega
        rw [if_pos hlt]
        simp only [Model.fmaStep, roundF64_small hsmall, hmax, if_false]
        exact ih _ h
      · simp at hd

theorem parseNatGoX_none_iff (base : Nat) (hb : base = 8 ∨ base = 10 ∨ base = 16) (cs : List Nat)
    (acc : Option Nat) :
    Model.parseNatGoX base cs acc = none ↔ ∃ c ∈ cs, Spec.digitVal base c = none := by
  induction cs generalizing acc with
  | nil => simp [Model.parseNatGoX]
  | cons c cs ih =>
    simp only [Model.parseNatGoX, List.mem_cons, exists_eq_or_imp, digitOf_eq base c hb]
    split
    · simp [ih]
    · simp

/-! ### JSON reader: the tail after the value -/

theorem skipWs_nil_iff (r : List UInt8) :
    JrsVerif.Json.skipWs r = [] ↔ ∀ b ∈ r, JrsVerif.Json.isWs b = true := by
  induction r with
  | nil => simp [JrsVerif.Json.skipWs]
  | cons b r ih =>
    simp only [JrsVerif.Json.skipWs]
    split
    · rename_i hb; simp [ih, hb]
    · rename_i hb; simp [hb]

end JrsVerif.Str
