/- C14 helper lemmas for YAML stream framing: lines of the framed text, the reference splitter
   over content lines / framed documents / what follows the last document. -/
import JrsVerif.Proofs.Manif

namespace JrsVerif.ManifProofs
open JrsVerif.Manif JrsVerif.ManifSpec

theorem s_start_nl : "---\n".toList = ['-', '-', '-', '\n'] := by decide
theorem s_start : "---".toList = ['-', '-', '-'] := by decide

theorem lines_ne_nil (t : List Char) : lines t ≠ [] := by
  cases t with
  | nil => simp [lines]
  | cons c r =>
    simp only [lines]
    split
    · simp
    · split <;> simp

theorem lines_append_nl (a b : List Char) : lines (a ++ '\n' :: b) = lines a ++ lines b := by
  induction a with
  | nil => simp [lines]
  | cons c a ih =>
    simp only [List.cons_append, lines]
    by_cases hc : c = '\n'
    · simp [hc, ih]
    · simp only [hc, if_false, ih]
      cases hl : lines a with
      | nil => exact absurd hl (lines_ne_nil a)
      | cons h t => simp

/-- the lines of a framed stream: a `---` line before the lines of each document -/
def frameL (docs : List (List Char)) : List (List Char) :=
  docs.flatMap (fun d => "---".toList :: lines d)

/-- lines contributed by what follows the last document -/
def tailL : List Char → List (List Char)
  | [] => []
  | _ :: x => lines x

theorem lines_streamGo (docs : List (List Char)) : ∀ (i : Nat) (a x : List Char), i ≠ 0 →
    (x = [] ∨ ∃ x', x = '\n' :: x') →
    lines (a ++ (streamGo i docs ++ x)) = lines a ++ (frameL docs ++ tailL x) := by
  induction docs with
  | nil =>
    intro i a x _ hx
    rcases hx with rfl | ⟨x', rfl⟩
    · simp [streamGo, frameL, tailL]
    · simp [streamGo, frameL, tailL, lines_append_nl]
  | cons d rest ih =>
    intro i a x hi hx
    have hi' : (i != 0) = true := by simp [hi]
    simp only [streamGo, hi', if_true]
    have e : a ++ (['\n'] ++ ("---\n".toList ++ (d ++ streamGo (i + 1) rest)) ++ x)
        = a ++ '\n' :: ("---".toList ++ '\n' :: (d ++ (streamGo (i + 1) rest ++ x))) := by
      simp [s_start_nl, s_start]
    rw [e, lines_append_nl, lines_append_nl, ih (i + 1) d x (by omega) hx]
    simp [frameL, lines]

theorem lines_yamlStream_cons (d : List Char) (rest : List (List Char)) (x : List Char)
    (hx : x = [] ∨ ∃ x', x = '\n' :: x') :
    lines (streamGo 0 (d :: rest) ++ x) = frameL (d :: rest) ++ tailL x := by
  have e : streamGo 0 (d :: rest) ++ x = "---".toList ++ '\n' :: (d ++ (streamGo 1 rest ++ x)) := by
    simp [streamGo, s_start_nl, s_start]
  rw [e, lines_append_nl, lines_streamGo rest 1 d x (by decide) hx]
  simp [frameL, lines]

theorem start_isStart : isStart "---".toList = true := by decide
theorem start_len : ("---".toList).length = 3 := by decide

/-- content lines are collected one by one -/
theorem splitDocs_content (L : List (List Char)) : ∀ (acc R : List (List Char)),
    (∀ l, l ∈ L → isStart l = false ∧ isEnd l = false) → (R = [] → L.getLast? ≠ some []) →
    splitDocs (some acc) (L ++ R) = splitDocs (some (L.reverse ++ acc)) R := by
  induction L with
  | nil => intro acc R _ _; simp
  | cons l L ih =>
    intro acc R hm hlast
    have hl := hm l (by simp)
    have hne : (l.isEmpty && (L ++ R).isEmpty) = false := by
      by_cases h1 : l = []
      · by_cases h2 : L ++ R = []
        · have hL : L = [] := (List.append_eq_nil_iff.mp h2).1
          have hR : R = [] := (List.append_eq_nil_iff.mp h2).2
          exact absurd (by simp [hL, h1]) (hlast hR)
        · simp [h2]
      · simp [h1]
    simp only [List.cons_append, splitDocs, hne, hl.1, hl.2]
    rw [ih (l :: acc) R (fun l' h' => hm l' (by simp [h'])) (fun hR => by
      have := hlast hR
      cases L with
      | nil => simp
      | cons a L' => simpa [List.getLast?_cons_cons] using this)]
    simp

def tails : List (List (List Char)) := [[], [[]], ["...".toList], ["...".toList, []]]

theorem splitDocs_tail (acc : List (List Char)) (t : List (List Char)) (ht : t ∈ tails) :
    splitDocs (some acc) t = some [acc.reverse] := by
  simp only [tails, List.mem_cons, List.mem_nil_iff, or_false] at ht
  rcases ht with rfl | rfl | rfl | rfl
  · simp [splitDocs]
  · simp [splitDocs]
  · have h1 : isStart ['.', '.', '.'] = false := by decide
    have h2 : isEnd ['.', '.', '.'] = true := by decide
    simp [splitDocs, h1, h2]
  · have h1 : isStart ['.', '.', '.'] = false := by decide
    have h2 : isEnd ['.', '.', '.'] = true := by decide
    have h4 : isStart [] = false := by decide
    simp [splitDocs, h1, h2, h4]

theorem splitDocs_frame (ds : List (List Char)) (t : List (List Char)) (ht : t ∈ tails)
    (hg : ∀ d, d ∈ ds → GoodDoc d) : ∀ acc,
    splitDocs (some acc) (frameL ds ++ t) = some (acc.reverse :: ds.map lines) := by
  induction ds with
  | nil => intro acc; simpa [frameL] using splitDocs_tail acc t ht
  | cons d ds ih =>
    intro acc
    have hd := hg d (by simp)
    have h3 : ("---".toList).isEmpty = false := by decide
    have e : frameL (d :: ds) ++ t = "---".toList :: (lines d ++ (frameL ds ++ t)) := by
      simp [frameL]
    rw [e]
    simp only [splitDocs, h3, Bool.false_and, start_isStart, start_len, if_true]
    rw [splitDocs_content (lines d) [] (frameL ds ++ t) hd.1 (fun _ => hd.2),
      ih (fun d' h' => hg d' (by simp [h']))]
    simp

theorem splitDocs_top (d : List Char) (ds : List (List Char)) (t : List (List Char)) (ht : t ∈ tails)
    (hg : ∀ d', d' ∈ d :: ds → GoodDoc d') :
    splitDocs none (frameL (d :: ds) ++ t) = some ((d :: ds).map lines) := by
  have hd := hg d (by simp)
  have e : frameL (d :: ds) ++ t = "---".toList :: (lines d ++ (frameL ds ++ t)) := by
    simp [frameL]
  rw [e]
  simp only [splitDocs, start_isStart, start_len, if_true]
  rw [splitDocs_content (lines d) [] (frameL ds ++ t) hd.1 (fun _ => hd.2),
    splitDocs_frame ds t ht (fun d' h' => hg d' (by simp [h']))]
  simp


theorem tailL_mem (cde nl : Bool) :
    tailL ((if cde then "\n...".toList else []) ++ (if nl then ['\n'] else [])) ∈ tails := by
  cases cde <;> cases nl <;> decide

theorem tail_shape (cde nl : Bool) :
    let x := (if cde then "\n...".toList else []) ++ (if nl then ['\n'] else [])
    x = [] ∨ ∃ x', x = '\n' :: x' := by
  cases cde <;> cases nl <;> simp <;> decide

end JrsVerif.ManifProofs
