/- C03 (round 3): consequences of `run_good` for the definitional interpreter.
   * `force` is idempotent: once a cell has produced a value (or an error) every later `force` of it,
     from every later store, repeats that answer and changes nothing;
   * a thunk that is never forced is unobservable: unused `local` bindings and unread array elements
     can be replaced by anything;
   * a call that supplies a parameter never looks at that parameter's default. -/
import JrsVerif.Proofs.EvalNeedRun

namespace JrsVerif.EvalNeed
open JrsVerif.Eval

/-! ### the two halves of `run_good`, in plain form -/

/-- running any task only moves the store forward -/
theorem run_ext (n : Nat) (task : Eval.Task) (s : St) : Ext s (exec (run n task) s).2 :=
  (run_good (fun _ => False) n task).ext s

/-- a run that leaves the cells of `U` unevaluated cannot observe their contents -/
theorem run_sim (U : Ref → Prop) (n : Nat) (task : Eval.Task) (s s' : St) (h : Sim U s s')
    (hu : UL U (exec (run n task) s).2) :
    (exec (run n task) s').1 = (exec (run n task) s).1
      ∧ Sim U (exec (run n task) s).2 (exec (run n task) s').2 :=
  (run_good U n task).sim s s' h hu

/-! ### force is idempotent -/

theorem exec_force (n : Nat) (r : Ref) (s : St) :
    exec (run (n+1) (.force r)) s =
      match cellAt s r with
      | .done v => (.ok (.val v), s)
      | .failed e => (.error (.err e), s)
      | .pending => (.error (.err ⟨"infrec", "infinite recursion detected"⟩), s)
      | .waiting c e => exec (memo r (run n (.eval c e))) s
      | .app f args => exec (memo r (run n (.call f args []))) s := by
  rw [force_eq, exec_bind, exec_get]
  simp only []
  have hc : s.cells.getD r .pending = cellAt s r := rfl
  rw [hc]
  cases cellAt s r <;> rfl

theorem cellAt_lt {s : St} {r : Ref} (h : cellAt s r ≠ .pending) : r < s.cells.size := by
  apply Classical.byContradiction
  intro hn
  exact h (by simp [cellAt, Array.getD_eq_getD_getElem?, Array.getElem?_eq_none (Nat.le_of_not_lt hn)])

/-- a successful `force` leaves the value in the cell -/
theorem force_ok_done (n : Nat) (r : Ref) (s t : St) (v : Val)
    (h : exec (run (n+1) (.force r)) s = (.ok (.val v), t)) : cellAt t r = .done v ∧ r < t.cells.size := by
  rw [exec_force] at h
  have memo_case : ∀ m : M Out, Good (fun _ => False) m → lazyCell (cellAt s r) = true →
      exec (memo r m) s = (.ok (.val v), t) → cellAt t r = .done v ∧ r < t.cells.size := by
    intro m hm hl hx
    rw [exec_memo] at hx
    have hlt := lazy_lt hl
    have h1 := (Good.bind hm Good.expectVal).ext (setC s r .pending)
    cases h2 : exec (m >>= expectVal) (setC s r .pending) with
    | mk res s2 =>
      rw [h2] at hx h1
      have hlt2 : r < s2.cells.size := Nat.lt_of_lt_of_le (by rw [setC_size]; exact hlt) h1.size
      cases res with
      | ok v' =>
        simp only [memoRes, Prod.mk.injEq, Except.ok.injEq, Out.val.injEq] at hx
        obtain ⟨e1, e2⟩ := hx
        subst e1; subst e2
        exact ⟨cellAt_setC_eq _ _ _ hlt2, by rw [setC_size]; exact hlt2⟩
      | error st => cases st <;> simp [memoRes] at hx
  cases hc : cellAt s r with
  | done v' =>
    rw [hc] at h
    simp only [Prod.mk.injEq, Except.ok.injEq, Out.val.injEq] at h
    obtain ⟨e1, e2⟩ := h
    subst e1; subst e2
    exact ⟨hc, cellAt_lt (by rw [hc]; intro hh; cases hh)⟩
  | failed e => rw [hc] at h; simp at h
  | pending => rw [hc] at h; simp at h
  | waiting c e => rw [hc] at h; exact memo_case _ (run_good _ n _) (by rw [hc]; rfl) h
  | app f args => rw [hc] at h; exact memo_case _ (run_good _ n _) (by rw [hc]; rfl) h

/-- C03 "evaluated at most once", interpreter level: after `force r` has returned `v`, every later
    `force r` — with any fuel ≥ 1, from any store reached later by any sequence of tasks — returns `v`
    again without changing the store (hence without emitting a trace and without running the body) -/
theorem force_idempotent (n : Nat) (r : Ref) (s t : St) (v : Val)
    (h : exec (run (n+1) (.force r)) s = (.ok (.val v), t)) :
    ∀ u, Ext t u → ∀ m, exec (run (m+1) (.force r)) u = (.ok (.val v), u) := by
  intro u hu m
  obtain ⟨hd, hlt⟩ := force_ok_done n r s t v h
  have : cellAt u r = .done v := by rw [hu.keep r hlt (by rw [hd]; rfl), hd]
  rw [exec_force, this]

/-- the stores reached by running further tasks are later stores -/
theorem Ext.run_chain (t : St) : ∀ (tasks : List (Nat × Eval.Task)),
    Ext t (tasks.foldl (fun u p => (exec (run p.1 p.2) u).2) t) := by
  intro tasks
  induction tasks generalizing t with
  | nil => exact Ext.refl t
  | cons p ps ih =>
    simp only [List.foldl_cons]
    exact (run_ext p.1 p.2 t).trans (ih _)

/-- `force r`; any tasks whatsoever; `force r` again: the second read repeats the first value
    and is a no-op on store and trace -/
theorem force_twice (n m : Nat) (r : Ref) (s t : St) (v : Val) (tasks : List (Nat × Eval.Task))
    (h : exec (run (n+1) (.force r)) s = (.ok (.val v), t)) :
    let u := tasks.foldl (fun u p => (exec (run p.1 p.2) u).2) t
    exec (run (m+1) (.force r)) u = (.ok (.val v), u) :=
  force_idempotent n r s t v h _ (Ext.run_chain t tasks) m

/-- the same for a `force` that failed with an error: the error is repeated, the body is not re-run -/
theorem force_error_sticky (n : Nat) (r : Ref) (s t : St) (e : Err) (hlt : r < s.cells.size)
    (h : exec (run (n+1) (.force r)) s = (.error (.err e), t)) :
    ∀ u, Ext t u → ∀ m, ∃ e', exec (run (m+1) (.force r)) u = (.error (.err e'), u) := by
  intro u hu m
  have hnl : lazyCell (cellAt t r) = false ∧ (∀ v, cellAt t r ≠ .done v) ∧ r < t.cells.size := by
    rw [exec_force] at h
    have memo_case : ∀ mm : M Out, Good (fun _ => False) mm → lazyCell (cellAt s r) = true →
        exec (memo r mm) s = (.error (.err e), t) →
        lazyCell (cellAt t r) = false ∧ (∀ v, cellAt t r ≠ .done v) ∧ r < t.cells.size := by
      intro mm hm hl hx
      rw [exec_memo] at hx
      have h1 := (Good.bind hm Good.expectVal).ext (setC s r .pending)
      cases h2 : exec (mm >>= expectVal) (setC s r .pending) with
      | mk res s2 =>
        rw [h2] at hx h1
        have hlt2 : r < s2.cells.size := Nat.lt_of_lt_of_le (by rw [setC_size]; exact hlt) h1.size
        cases res with
        | ok v' => simp [memoRes] at hx
        | error st =>
          cases st with
          | undecided w => simp [memoRes] at hx
          | err er =>
            simp only [memoRes, Prod.mk.injEq] at hx
            obtain ⟨_, e2⟩ := hx
            subst e2
            rw [cellAt_setC_eq _ _ _ hlt2]
            exact ⟨rfl, (fun v hv => by cases hv), by rw [setC_size]; exact hlt2⟩
    cases hc : cellAt s r with
    | done v' => rw [hc] at h; simp at h
    | failed e' =>
      rw [hc] at h
      simp only [Prod.mk.injEq] at h
      obtain ⟨_, e2⟩ := h
      subst e2
      rw [hc]; exact ⟨rfl, (fun v hv => by cases hv), hlt⟩
    | pending =>
      rw [hc] at h
      simp only [Prod.mk.injEq] at h
      obtain ⟨_, e2⟩ := h
      subst e2
      rw [hc]; exact ⟨rfl, (fun v hv => by cases hv), hlt⟩
    | waiting c e' => rw [hc] at h; exact memo_case _ (run_good _ n _) (by rw [hc]; rfl) h
    | app f args => rw [hc] at h; exact memo_case _ (run_good _ n _) (by rw [hc]; rfl) h
  obtain ⟨h1, h2, h3⟩ := hnl
  have hk := hu.keep r h3 h1
  rw [exec_force, hk]
  cases hc : cellAt t r with
  | done v => exact absurd hc (h2 v)
  | failed e' => exact ⟨e', rfl⟩
  | pending => exact ⟨_, rfl⟩
  | waiting c e' => rw [hc] at h1; cases h1
  | app f args => rw [hc] at h1; cases h1


/-! ### allocating a block of cells -/

def allocAll : St → List Cell → St
  | s, [] => s
  | s, c :: cs => allocAll { s with cells := s.cells.push c } cs

theorem allocAll_size (s : St) (cs : List Cell) : (allocAll s cs).cells.size = s.cells.size + cs.length := by
  induction cs generalizing s with
  | nil => rfl
  | cons c cs ih => simp only [allocAll, ih, Array.size_push, List.length_cons]; omega

theorem allocAll_other (s : St) (cs : List Cell) :
    (allocAll s cs).objs = s.objs ∧ (allocAll s cs).cache = s.cache ∧ (allocAll s cs).layerEnvs = s.layerEnvs
      ∧ (allocAll s cs).asserted = s.asserted ∧ (allocAll s cs).asserting = s.asserting
      ∧ (allocAll s cs).trace = s.trace := by
  induction cs generalizing s with
  | nil => exact ⟨rfl, rfl, rfl, rfl, rfl, rfl⟩
  | cons c cs ih => exact ih _

theorem cellAt_oob (s : St) (r : Nat) (h : s.cells.size ≤ r) : cellAt s r = .pending := by
  simp [cellAt, Array.getD_eq_getD_getElem?, Array.getElem?_eq_none h]

theorem cellAt_allocAll (s : St) (cs : List Cell) (r : Nat) :
    cellAt (allocAll s cs) r =
      if r < s.cells.size then cellAt s r else (cs[r - s.cells.size]?).getD .pending := by
  induction cs generalizing s with
  | nil =>
    simp only [allocAll]
    split
    · rfl
    · rename_i h; simp [cellAt_oob s r (Nat.le_of_not_lt h)]
  | cons c cs ih =>
    simp only [allocAll]
    rw [ih]
    simp only [Array.size_push]
    by_cases h1 : r < s.cells.size
    · have h2 : r < s.cells.size + 1 := by omega
      simp only [h1, h2, ↓reduceIte]
      exact getD_push_lt _ _ _ _ h1
    · by_cases h2 : r = s.cells.size
      · subst h2
        simp only [Nat.lt_irrefl, Nat.lt_succ_self, ↓reduceIte, Nat.sub_self, List.getElem?_cons_zero,
          Option.getD_some]
        exact getD_push_eq _ _ _
      · have h3 : ¬ r < s.cells.size + 1 := by omega
        have h4 : r - s.cells.size = (r - (s.cells.size + 1)) + 1 := by omega
        simp only [h1, h3, ↓reduceIte]
        rw [h4, List.getElem?_cons_succ]

/-- the cells of a freshly allocated block at which two candidate blocks differ -/
def diffU (base : Nat) (A A' : List Cell) : Nat → Prop :=
  fun r => ∃ i : Nat, r = base + i ∧ i < A.length ∧ A[i]? ≠ A'[i]?

theorem sim_allocAll (s : St) (A A' : List Cell) (hlen : A.length = A'.length)
    (hlz : ∀ c ∈ A', lazyCell c = true) :
    Sim (diffU s.cells.size A A') (allocAll s A) (allocAll s A') := by
  obtain ⟨o1, o2, o3, o4, o5, o6⟩ := allocAll_other s A
  obtain ⟨p1, p2, p3, p4, p5, p6⟩ := allocAll_other s A'
  refine ⟨by rw [allocAll_size, allocAll_size, hlen], ?_, ?_, ?_, by rw [o1, p1], by rw [o2, p2],
    by rw [o3, p3], by rw [o4, p4], by rw [o5, p5], by rw [o6, p6]⟩
  · intro (r : Nat) hr
    rw [cellAt_allocAll, cellAt_allocAll]
    by_cases h1 : r < s.cells.size
    · simp only [h1, ↓reduceIte]
    · simp only [h1, ↓reduceIte]
      by_cases h2 : r - s.cells.size < A.length
      · have : A[r - s.cells.size]? = A'[r - s.cells.size]? := by
          apply Classical.byContradiction
          intro hne
          exact hr ⟨r - s.cells.size, by omega, h2, hne⟩
        rw [this]
      · rw [List.getElem?_eq_none (by omega), List.getElem?_eq_none (by omega)]
  · rintro r ⟨i, rfl, hi, _⟩
    rw [allocAll_size]; exact Nat.add_lt_add_left hi _
  · rintro r ⟨i, rfl, hi, _⟩
    rw [cellAt_allocAll]
    have h1 : ¬ s.cells.size + i < s.cells.size := by omega
    simp only [h1, ↓reduceIte, Nat.add_sub_cancel_left]
    have hi' : i < A'.length := by omega
    rw [List.getElem?_eq_getElem hi']
    exact hlz _ (List.getElem_mem hi')

/-! ### `local` -/

def bindName : Bind → String
  | .val n _ => n
  | .fn n _ _ => n

/-- the thunk a binding is turned into -/
def bindCell (c' : Ctx) : Bind → Cell
  | .val _ e => .waiting c' e
  | .fn _ ps e => .waiting c' (.func ps e)

/-- the context in which the bound names are visible -/
def bindCtx (c : Ctx) (names : List String) (base : Nat) (t : Option (ObjId × Nat)) (d : Option ObjId) : Ctx :=
  { env := (names.zip (List.range names.length |>.map (· + base))).reverse ++ c.env, this := t, dollar := d }

def bindLoopBody (c' : Ctx) (b : Bind) (_ : PUnit) : M (ForInStep PUnit) :=
  match b with
  | .val _ e => do let _ ← alloc (.waiting c' e); pure (ForInStep.yield PUnit.unit)
  | .fn _ ps e => do let _ ← alloc (.waiting c' (.func ps e)); pure (ForInStep.yield PUnit.unit)

theorem exec_bindLoop (c' : Ctx) (binds : List Bind) (s : St) :
    exec (forIn binds PUnit.unit (bindLoopBody c')) s
      = (.ok PUnit.unit, allocAll s (binds.map (bindCell c'))) := by
  induction binds generalizing s with
  | nil => rfl
  | cons b bs ih =>
    simp only [List.forIn_cons, List.map_cons, allocAll]
    rw [exec_bind]
    cases b with
    | val nm e =>
      simp only [bindLoopBody, exec_bind, exec_alloc, exec_pure, bindCell]
      exact ih _
    | fn nm ps e =>
      simp only [bindLoopBody, exec_bind, exec_alloc, exec_pure, bindCell]
      exact ih _

theorem bindLocals_eq (c : Ctx) (binds : List Bind) (t : Option (ObjId × Nat)) (d : Option ObjId) :
    bindLocals c binds t d = (get >>= fun s =>
      forIn binds PUnit.unit (bindLoopBody (bindCtx c (binds.map bindName) s.cells.size t d)) >>= fun _ =>
      pure (bindCtx c (binds.map bindName) s.cells.size t d)) := rfl

theorem exec_bindLocals (c : Ctx) (binds : List Bind) (t : Option (ObjId × Nat)) (d : Option ObjId) (s : St) :
    exec (bindLocals c binds t d) s =
      (.ok (bindCtx c (binds.map bindName) s.cells.size t d),
       allocAll s (binds.map (bindCell (bindCtx c (binds.map bindName) s.cells.size t d)))) := by
  rw [bindLocals_eq, exec_bind, exec_get]
  simp only []
  rw [exec_bind, exec_bindLoop]
  rfl


theorem Sim.refl_of_UL {U : Ref → Prop} {s : St} (h : UL U s) : Sim U s s :=
  ⟨rfl, fun _ _ => rfl, fun r hr => lazy_lt (h r hr), h, rfl, rfl, rfl, rfl, rfl, rfl⟩

theorem eval_local_eq (n : Nat) (c : Ctx) (binds : List Bind) (body : Expr) :
    run (n+1) (.eval c (.localE binds body)) =
      if ((binds.map bindName).eraseDups.length != (binds.map bindName).length) = true then
        fail "other" "duplicate local"
      else
        bindLocals c binds c.this c.dollar >>= fun c' =>
          (run n (.eval c' body) >>= expectVal) >>= fun v => pure (.val v) := by
  conv => lhs; unfold run
  rfl

/-- C03 ★ `unused_binding`.  Two `local` groups that bind the same names: if the bindings at which
    they differ are still unevaluated when the first program finishes, the second program has the
    same outcome (value / error / undecided), the same trace, and the same store up to the contents
    of those never-forced cells. -/
theorem unused_binding (n : Nat) (c : Ctx) (binds binds' : List Bind) (body : Expr) (s : St)
    (hn : binds.map bindName = binds'.map bindName) :
    let c' := bindCtx c (binds.map bindName) s.cells.size c.this c.dollar
    let U := diffU s.cells.size (binds.map (bindCell c')) (binds'.map (bindCell c'))
    UL U (exec (run (n+1) (.eval c (.localE binds body))) s).2 →
      (exec (run (n+1) (.eval c (.localE binds' body))) s).1
          = (exec (run (n+1) (.eval c (.localE binds body))) s).1
        ∧ Sim U (exec (run (n+1) (.eval c (.localE binds body))) s).2
                (exec (run (n+1) (.eval c (.localE binds' body))) s).2 := by
  intro c' U hu
  rw [eval_local_eq] at hu ⊢
  rw [eval_local_eq, ← hn]
  split
  · rename_i hd
    simp only [hd, ↓reduceIte] at hu
    exact ⟨rfl, Sim.refl_of_UL hu⟩
  · rename_i hd
    simp only [hd, Bool.false_eq_true, ↓reduceIte] at hu
    rw [exec_bind, exec_bindLocals] at hu ⊢
    rw [exec_bind, exec_bindLocals, ← hn]
    simp only [] at hu ⊢
    have hK : Good U ((run n (.eval c' body) >>= expectVal) >>= fun v => (pure (.val v) : M Out)) :=
      Good.bind (Good.bind (run_good U n _) Good.expectVal) (fun _ => Good.pure _)
    have hlen : (binds.map (bindCell c')).length = (binds'.map (bindCell c')).length := by
      have := congrArg List.length hn
      simpa using this
    have hsim := sim_allocAll s (binds.map (bindCell c')) (binds'.map (bindCell c')) hlen (by
      intro x hx
      obtain ⟨b, _, rfl⟩ := List.mem_map.mp hx
      cases b <;> rfl)
    exact hK.sim _ _ hsim hu

/-- the single-binding form: `local x = e; body` whose cell is never forced behaves the same with
    any other right-hand side -/
theorem unused_local (n : Nat) (c : Ctx) (x : String) (e e' body : Expr) (s t : St) (out : Except Stop Out)
    (h : exec (run (n+1) (.eval c (.localE [.val x e] body))) s = (out, t))
    (hl : lazyCell (cellAt t s.cells.size) = true) :
    ∃ t', exec (run (n+1) (.eval c (.localE [.val x e'] body))) s = (out, t')
      ∧ t'.trace = t.trace ∧ t'.objs = t.objs ∧ t'.cache = t.cache ∧ t'.cells.size = t.cells.size
      ∧ ∀ r, r ≠ s.cells.size → cellAt t' r = cellAt t r := by
  have key := unused_binding n c [.val x e] [.val x e'] body s rfl
  simp only [] at key
  have hU : ∀ r, diffU s.cells.size
      ([Bind.val x e].map (bindCell (bindCtx c ([Bind.val x e].map bindName) s.cells.size c.this c.dollar)))
      ([Bind.val x e'].map (bindCell (bindCtx c ([Bind.val x e].map bindName) s.cells.size c.this c.dollar))) r
        → r = s.cells.size := by
    rintro r ⟨i, rfl, hi, _⟩
    simp only [List.map_cons, List.map_nil, List.length_cons, List.length_nil] at hi
    have : i = 0 := by omega
    subst this; rfl
  rw [h] at key
  obtain ⟨k1, k2⟩ := key (by intro r hr; rw [hU r hr]; exact hl)
  refine ⟨(exec (run (n+1) (.eval c (.localE [.val x e'] body))) s).2, ?_, k2.trace, k2.objs, k2.cache,
    k2.size, fun r hr => k2.same r (fun hd => hr (hU r hd))⟩
  exact Prod.ext k1 rfl

/-! ### array literals -/

def arrLoopBody (c : Ctx) (x : Expr) (acc : List Ref) : M (ForInStep (List Ref)) := do
  let r ← alloc (.waiting c x)
  pure (ForInStep.yield (acc ++ [r]))

theorem eval_arr_eq (n : Nat) (c : Ctx) (es : List Expr) :
    run (n+1) (.eval c (.arr es)) =
      forIn es [] (arrLoopBody c) >>= fun refs => pure (.val (.arr refs)) := by
  conv => lhs; unfold run
  rfl

theorem exec_arrLoop (c : Ctx) (es : List Expr) (acc : List Ref) (s : St) :
    exec (forIn es acc (arrLoopBody c)) s
      = (.ok (acc ++ List.range' s.cells.size es.length), allocAll s (es.map (.waiting c))) := by
  induction es generalizing acc s with
  | nil => simp only [List.forIn_nil, List.length_nil, List.range'_zero, List.append_nil, List.map_nil, allocAll]; rfl
  | cons x xs ih =>
    simp only [List.forIn_cons, List.map_cons, allocAll, arrLoopBody]
    rw [exec_bind, exec_bind, exec_alloc]
    simp only [exec_pure]
    have := ih (acc ++ [s.cells.size]) { s with cells := s.cells.push (.waiting c x) }
    rw [this]
    simp [List.range'_succ, List.append_assoc]

/-- an array literal allocates one thunk per element and evaluates none of them -/
theorem exec_eval_arr (n : Nat) (c : Ctx) (es : List Expr) (s : St) :
    exec (run (n+1) (.eval c (.arr es))) s
      = (.ok (.val (.arr (List.range' s.cells.size es.length))), allocAll s (es.map (.waiting c))) := by
  rw [eval_arr_eq, exec_bind, exec_arrLoop]
  rfl

/-- C03 ★ `unread_element`.  Two array literals of the same length evaluate to the same array value
    over `Sim`-related stores, and whatever is run afterwards (any task, any fuel) cannot tell them
    apart as long as the elements at which they differ are still unevaluated when it finishes. -/
theorem unread_element (n : Nat) (c : Ctx) (es es' : List Expr) (s : St) (hlen : es.length = es'.length) :
    let U := diffU s.cells.size (es.map (.waiting c)) (es'.map (.waiting c))
    let t := (exec (run (n+1) (.eval c (.arr es))) s).2
    let t' := (exec (run (n+1) (.eval c (.arr es'))) s).2
    (exec (run (n+1) (.eval c (.arr es'))) s).1 = (exec (run (n+1) (.eval c (.arr es))) s).1
      ∧ Sim U t t'
      ∧ ∀ m task, UL U (exec (run m task) t).2 →
          (exec (run m task) t').1 = (exec (run m task) t).1
            ∧ Sim U (exec (run m task) t).2 (exec (run m task) t').2 := by
  intro U t t'
  have hs : Sim U t t' := by
    show Sim U (exec (run (n+1) (.eval c (.arr es))) s).2 (exec (run (n+1) (.eval c (.arr es'))) s).2
    rw [exec_eval_arr, exec_eval_arr]
    exact sim_allocAll s _ _ (by simpa using hlen) (by
      intro x hx
      obtain ⟨b, _, rfl⟩ := List.mem_map.mp hx
      rfl)
  refine ⟨by rw [exec_eval_arr, exec_eval_arr, hlen], hs, fun m task hu => run_sim U m task t t' hs hu⟩

/-! ### defaults -/

theorem call_params_irrelevant (n : Nat) (fc : Ctx) (ps ps' : List Param) (body : Expr) (pos : List Ref)
    (named : List (String × Ref)) (h : bindArgs ps pos named = bindArgs ps' pos named) :
    run (n+1) (.call (.func fc ps body) pos named) = run (n+1) (.call (.func fc ps' body) pos named) := by
  conv => lhs; unfold run
  conv => rhs; unfold run
  simp only [h]


theorem hasName_append' (a b : List (String × Src)) (n : String) :
    hasName (a ++ b) n = (hasName a n || hasName b n) := by simp [hasName, List.any_append]

theorem addNamed_mono (names : List String) (named : List (String × Ref)) :
    ∀ (acc0 acc : List (String × Src)), addNamed names acc0 named = .ok acc →
      (∀ m, hasName acc0 m = true → hasName acc m = true) ∧ (∀ m ∈ named.map (·.1), hasName acc m = true) := by
  induction named with
  | nil =>
    intro acc0 acc h
    simp only [addNamed, Except.ok.injEq] at h
    subst h
    exact ⟨fun _ h => h, fun _ hm => by cases hm⟩
  | cons x rest ih =>
    obtain ⟨nm, r⟩ := x
    intro acc0 acc h
    simp only [addNamed] at h
    split at h
    · cases h
    · split at h
      · cases h
      · obtain ⟨i1, i2⟩ := ih _ _ h
        refine ⟨fun m hm => i1 m (by rw [hasName_append', hm]; rfl), ?_⟩
        intro m hm
        simp only [List.map_cons, List.mem_cons] at hm
        rcases hm with rfl | hm
        · exact i1 _ (by rw [hasName_append']; simp [hasName])
        · exact i2 m hm

theorem fillDefaults_congr : ∀ (ps ps' : List Param) (acc : List (String × Src)),
    ps.length = ps'.length →
    (∀ (i : Nat) (p p' : Param), ps[i]? = some p → ps'[i]? = some p' →
        paramName p = paramName p' ∧ (paramDflt p = paramDflt p' ∨ hasName acc (paramName p) = true)) →
    fillDefaults acc ps = fillDefaults acc ps' := by
  intro ps
  induction ps with
  | nil => intro ps' acc hl _; cases ps' with | nil => rfl | cons _ _ => cases hl
  | cons p rest ih =>
    intro ps' acc hl h
    cases ps' with
    | nil => cases hl
    | cons p' rest' =>
      obtain ⟨hn, hd⟩ := h 0 p p' rfl rfl
      have hrest : ∀ (acc' : List (String × Src)), (∀ m, hasName acc m = true → hasName acc' m = true) →
          fillDefaults acc' rest = fillDefaults acc' rest' := by
        intro acc' hm
        apply ih rest' acc' (by simpa using hl)
        intro i q q' hq hq'
        obtain ⟨a, b⟩ := h (i+1) q q' (by simpa using hq) (by simpa using hq')
        exact ⟨a, b.imp id (hm _)⟩
      simp only [fillDefaults, ← hn]
      by_cases hb : hasName acc (paramName p) = true
      · simp only [hb, ↓reduceIte]; exact hrest acc (fun _ h => h)
      · simp only [hb, Bool.false_eq_true, ↓reduceIte]
        have hd' : paramDflt p = paramDflt p' := hd.resolve_right hb
        rw [← hd']
        cases paramDflt p with
        | none => rfl
        | some d => exact hrest _ (fun m hm => by rw [hasName_append', hm]; rfl)

theorem hasName_posB (names : List String) (pos : List Ref) (i : Nat) (nm : String)
    (hn : names[i]? = some nm) (hi : i < pos.length) :
    hasName ((names.zip pos).map (fun p => (p.1, Src.arg p.2))) nm = true := by
  simp only [hasName, List.any_eq_true]
  have hlt : i < names.length := by
    cases hh : names[i]? with
    | none => rw [hh] at hn; cases hn
    | some _ => exact (List.getElem?_eq_some_iff.mp hh).1
  refine ⟨(nm, Src.arg pos[i]), ?_, by simp⟩
  apply List.mem_map.mpr
  refine ⟨(nm, pos[i]), ?_, rfl⟩
  have : (names.zip pos)[i]? = some (nm, pos[i]) := by
    simp [List.getElem?_zip_eq_some, hn, hi]
  exact List.mem_of_getElem? this

/-- the result of argument binding does not depend on the default of a parameter that receives an
    argument (positionally or by name) -/
theorem bindArgs_default_irrelevant (ps ps' : List Param) (pos : List Ref) (named : List (String × Ref))
    (hlen : ps.length = ps'.length)
    (h : ∀ (i : Nat) (p p' : Param), ps[i]? = some p → ps'[i]? = some p' →
        paramName p = paramName p' ∧
          (paramDflt p = paramDflt p' ∨ i < pos.length ∨ paramName p ∈ named.map (·.1))) :
    bindArgs ps pos named = bindArgs ps' pos named := by
  have hnames : ps.map paramName = ps'.map paramName := by
    apply List.ext_getElem?
    intro i
    simp only [List.getElem?_map]
    cases hp : ps[i]? with
    | none =>
      have : ps'[i]? = none := by
        rw [List.getElem?_eq_none_iff] at hp ⊢; omega
      rw [this]
    | some p =>
      have hlt := (List.getElem?_eq_some_iff.mp hp).1
      have hp' : ps'[i]? = some ps'[i] := List.getElem?_eq_getElem (by omega)
      rw [hp']
      simp only [Option.map_some, (h i p _ hp hp').1]
  unfold bindArgs
  rw [← hlen, ← hnames]
  split
  · rfl
  · simp only []
    cases ha : addNamed (ps.map paramName) (((ps.map paramName).zip pos).map (fun p => (p.1, Src.arg p.2))) named with
    | error e => rfl
    | ok acc =>
      simp only []
      obtain ⟨m1, m2⟩ := addNamed_mono _ _ _ _ ha
      apply fillDefaults_congr ps ps' acc hlen
      intro i p p' hp hp'
      obtain ⟨a, b⟩ := h i p p' hp hp'
      refine ⟨a, ?_⟩
      rcases b with b | b | b
      · exact Or.inl b
      · exact Or.inr (m1 _ (hasName_posB _ pos i _ (by simp [hp]) b))
      · exact Or.inr (m2 _ b)

/-- C03 ★ `overridden_default`.  A call that supplies an argument for a parameter never looks at
    that parameter's default: replacing the defaults of all supplied parameters by anything gives
    the same computation (same outcome, same store, same trace, for every store and fuel). -/
theorem overridden_default (n : Nat) (fc : Ctx) (ps ps' : List Param) (body : Expr) (pos : List Ref)
    (named : List (String × Ref)) (hlen : ps.length = ps'.length)
    (h : ∀ (i : Nat) (p p' : Param), ps[i]? = some p → ps'[i]? = some p' →
        paramName p = paramName p' ∧
          (paramDflt p = paramDflt p' ∨ i < pos.length ∨ paramName p ∈ named.map (·.1))) :
    run (n+1) (.call (.func fc ps body) pos named) = run (n+1) (.call (.func fc ps' body) pos named) :=
  call_params_irrelevant n fc ps ps' body pos named (bindArgs_default_irrelevant ps ps' pos named hlen h)


/-! ### the default of a supplied parameter, at expression level -/

/-- a loop whose body always yields (or throws) and maintains `I k acc`, `k` = elements consumed -/
theorem exec_forIn_inv {α β} (f : α → β → M (ForInStep β)) (I : Nat → β → Prop)
    (h : ∀ a b s k, I k b → ∀ r t, exec (f a b) s = (.ok r, t) → ∃ b', r = .yield b' ∧ I (k+1) b') :
    ∀ (l : List α) (init : β) (s : St) (k : Nat), I k init →
      ∀ b t, exec (forIn l init f) s = (.ok b, t) → I (k + l.length) b := by
  intro l
  induction l with
  | nil =>
    intro init s k hi b t hx
    simp only [List.forIn_nil, exec_pure, Prod.mk.injEq, Except.ok.injEq] at hx
    rw [← hx.1]; exact hi
  | cons a l ih =>
    intro init s k hi b t hx
    simp only [List.forIn_cons] at hx
    rw [exec_bind] at hx
    cases h1 : exec (f a init) s with
    | mk r s1 =>
      rw [h1] at hx
      cases r with
      | error e => simp at hx
      | ok st =>
        obtain ⟨b', rfl, hi'⟩ := h a init s k hi _ _ h1
        simp only [] at hx
        have := ih b' s1 (k+1) hi' b t hx
        simpa [Nat.add_assoc, Nat.add_comm 1] using this

theorem M_ext {α} (m m' : M α) (h : ∀ s, exec m s = exec m' s) : m = m' := funext h

theorem eval_func_eq (n : Nat) (c : Ctx) (ps : List Param) (body : Expr) :
    run (n+1) (.eval c (.func ps body)) = pure (.val (.func c ps body)) := by
  conv => lhs; unfold run

def posLoopBody (n : Nat) (c : Ctx) (ts : Bool) (a : Expr) (acc : List Ref) : M (ForInStep (List Ref)) :=
  if ts = true then do
    let v ← (run n (.eval c a) >>= expectVal)
    let r ← alloc (.done v)
    pure (ForInStep.yield (acc ++ [r]))
  else do
    let r ← alloc (.waiting c a)
    pure (ForInStep.yield (acc ++ [r]))

def namedLoopBody (n : Nat) (c : Ctx) (ts : Bool) (x : String × Expr) (acc : List (String × Ref)) :
    M (ForInStep (List (String × Ref))) :=
  if ts = true then do
    let v ← (run n (.eval c x.2) >>= expectVal)
    let r ← alloc (.done v)
    pure (ForInStep.yield (acc ++ [(x.1, r)]))
  else do
    let r ← alloc (.waiting c x.2)
    pure (ForInStep.yield (acc ++ [(x.1, r)]))

theorem eval_apply_eq (n : Nat) (c : Ctx) (f : Expr) (pos : List Expr) (named : List (String × Expr)) (ts : Bool) :
    run (n+1) (.eval c (.apply f pos named ts)) =
      (run n (.eval c f) >>= expectVal) >>= fun fv =>
      forIn pos [] (posLoopBody n c ts) >>= fun prefs =>
      forIn named [] (namedLoopBody n c ts) >>= fun nrefs =>
      run n (.call fv prefs nrefs) := by
  conv => lhs; unfold run
  rfl


theorem posLoop_length (n : Nat) (c : Ctx) (ts : Bool) (pos : List Expr) (s t : St) (prefs : List Ref)
    (h : exec (forIn pos [] (posLoopBody n c ts)) s = (.ok prefs, t)) : prefs.length = pos.length := by
  have := exec_forIn_inv (posLoopBody n c ts) (fun k (acc : List Ref) => acc.length = k) (by
    intro a b s k hk r t hx
    unfold posLoopBody at hx
    split at hx
    · rw [exec_bind] at hx
      cases h1 : exec (run n (.eval c a) >>= expectVal) s with
      | mk r1 s1 =>
        rw [h1] at hx
        cases r1 with
        | error e => simp at hx
        | ok v =>
          simp only [exec_bind, exec_alloc, exec_pure, Prod.mk.injEq, Except.ok.injEq] at hx
          exact ⟨_, hx.1.symm, by simp [hk]⟩
    · simp only [exec_bind, exec_alloc, exec_pure, Prod.mk.injEq, Except.ok.injEq] at hx
      exact ⟨_, hx.1.symm, by simp [hk]⟩) pos [] s 0 rfl prefs t h
  simpa using this

theorem namedLoop_names (n : Nat) (c : Ctx) (ts : Bool) (named : List (String × Expr)) :
    ∀ (acc : List (String × Ref)) (s t : St) (nrefs : List (String × Ref)),
      exec (forIn named acc (namedLoopBody n c ts)) s = (.ok nrefs, t) →
      nrefs.map (·.1) = acc.map (·.1) ++ named.map (·.1) := by
  induction named with
  | nil =>
    intro acc s t nrefs h
    simp only [List.forIn_nil, exec_pure, Prod.mk.injEq, Except.ok.injEq] at h
    simp [← h.1]
  | cons x xs ih =>
    intro acc s t nrefs h
    simp only [List.forIn_cons] at h
    rw [exec_bind] at h
    have step : ∀ r s1, exec (namedLoopBody n c ts x acc) s = (.ok r, s1) → ∃ ref, r = .yield (acc ++ [(x.1, ref)]) := by
      intro r s1 hx
      unfold namedLoopBody at hx
      split at hx
      · rw [exec_bind] at hx
        cases h1 : exec (run n (.eval c x.2) >>= expectVal) s with
        | mk r1 s2 =>
          rw [h1] at hx
          cases r1 with
          | error e => simp at hx
          | ok v =>
            simp only [exec_bind, exec_alloc, exec_pure, Prod.mk.injEq, Except.ok.injEq] at hx
            exact ⟨_, hx.1.symm⟩
      · simp only [exec_bind, exec_alloc, exec_pure, Prod.mk.injEq, Except.ok.injEq] at hx
        exact ⟨_, hx.1.symm⟩
    cases h1 : exec (namedLoopBody n c ts x acc) s with
    | mk r s1 =>
      rw [h1] at h
      cases r with
      | error e => simp at h
      | ok st =>
        obtain ⟨ref, rfl⟩ := step _ _ h1
        simp only [] at h
        have := ih _ _ _ _ h
        simpa [List.append_assoc] using this

/-- C03 ★ `overridden_default`, expression level: in `(function(ps) body)(args)` — lazy or
    tailstrict — the default of every parameter that receives an argument is irrelevant -/
theorem overridden_default_expr (n : Nat) (c : Ctx) (ps ps' : List Param) (body : Expr)
    (pos : List Expr) (named : List (String × Expr)) (ts : Bool) (hlen : ps.length = ps'.length)
    (h : ∀ (i : Nat) (p p' : Param), ps[i]? = some p → ps'[i]? = some p' →
        paramName p = paramName p' ∧
          (paramDflt p = paramDflt p' ∨ i < pos.length ∨ paramName p ∈ named.map (·.1))) :
    run (n+2) (.eval c (.apply (.func ps body) pos named ts))
      = run (n+2) (.eval c (.apply (.func ps' body) pos named ts)) := by
  rw [eval_apply_eq, eval_apply_eq, eval_func_eq, eval_func_eq]
  apply M_ext
  intro s
  simp only [pure_bind]
  show exec ((expectVal (.val (.func c ps body))) >>= _) s = exec ((expectVal (.val (.func c ps' body))) >>= _) s
  simp only [expectVal, pure_bind]
  rw [exec_bind, exec_bind]
  cases h1 : exec (forIn pos [] (posLoopBody (n+1) c ts)) s with
  | mk r1 s1 =>
    cases r1 with
    | error e => rfl
    | ok prefs =>
      simp only []
      rw [exec_bind, exec_bind]
      cases h2 : exec (forIn named [] (namedLoopBody (n+1) c ts)) s1 with
      | mk r2 s2 =>
        cases r2 with
        | error e => rfl
        | ok nrefs =>
          simp only []
          have e1 := posLoop_length _ _ _ _ _ _ _ h1
          have e2 := namedLoop_names _ _ _ _ _ _ _ _ h2
          simp only [List.map_nil, List.nil_append] at e2
          rw [overridden_default n c ps ps' body prefs nrefs hlen (by
            intro i p p' hp hp'
            have := h i p p' hp hp'
            rw [e1, e2]; exact this)]


end JrsVerif.EvalNeed
