/- C12 helper lemmas, float part 2: the float conversions of the model equal the EXACT reference
   (`FormatSpec.fixDigits` / `sciDigits`: the decimal expansion of the double, correctly rounded
   half-even, in integer arithmetic) for every finite double, under the one assumption that Rust's
   float formatting — to which the repaired code delegates digit generation — returns that exact
   expansion (`RustFmtExact`). -/
import JrsVerif.Proofs.FormatRound

set_option linter.unusedSimpArgs false
set_option linter.unusedVariables false
set_option exponentiation.threshold 4000

namespace JrsVerif.Format
open JrsVerif.Generated
open JrsVerif.FormatSpec (digitsF digits zeros spaces stripZeros isDigitChar decVal roundHalfEven fixedUnits
  fixDigits lowExpF exp10 sciUnits sciDigits plainText intText rustFixed rustSci)

/-! ## the assumption about Rust's float formatting -/

/-- every finite double: |v| · 2^1074 < 2^2098, i.e. |v| < 2^1024 -/
def MAG_BOUND : Nat := 2 ^ 2098

/-- ASSUMPTION (core::fmt::float / flt2dec, not modelled): for every precision the code can ask
    for, `format!("{:.*}", q, |v|)` is the plain decimal notation and `format!("{:.*e}", q, |v|)`
    the scientific notation (`d.ddde-7`, exponent without `+` or padding) of the EXACT decimal
    expansion of the double, correctly rounded (ties to even) to `q` places / `q + 1` significant
    digits.  The correspondence run compares Rust's texts with `rustFixed` / `rustSci` on
    boundary-heavy doubles (op `fmt.digits`). -/
def RustFmtExact (n : Num) : Prop :=
  ∀ q, q ≤ 308 → n.rfix q = rustFixed n.mag q ∧ n.rsci q = rustSci n.mag q

/-- a number the formatter can be handed: a finite double on which Rust's formatting is exact -/
def OracleOK (n : Num) : Prop := n.mag < MAG_BOUND ∧ RustFmtExact n

/-! ## bounds on the exact digits -/

theorem roundHalfEven_le (n d : Nat) : roundHalfEven n d ≤ n / d + 1 := by
  unfold roundHalfEven
  simp only []
  split
  · omega
  · split
    · omega
    · split <;> omega

theorem pow10_pos (q : Nat) : 0 < 10 ^ q := Nat.pow_pos (by omega)

/-- the reference's rounding is a nearest integer — the result is at most half a unit away from
    `n / d` on either side — and an exact tie goes to the even neighbour -/
theorem roundHalfEven_nearest (n d : Nat) (hd : 0 < d) :
    2 * (roundHalfEven n d * d - n) ≤ d ∧ 2 * (n - roundHalfEven n d * d) ≤ d ∧
      (2 * (n % d) = d → roundHalfEven n d % 2 = 0) := by
  have h := Nat.div_add_mod n d
  have hm := Nat.mod_lt n hd
  unfold roundHalfEven
  simp only []
  generalize n / d = q at *
  generalize n % d = m at *
  have e1 : q * d = d * q := Nat.mul_comm _ _
  have e2 : (q + 1) * d = d * q + d := by rw [Nat.add_mul, Nat.one_mul, e1]
  split
  · rw [e1]; omega
  · split
    · rw [e2]; omega
    · split
      · rw [e1]; omega
      · rw [e2]; omega

theorem fixDigits_ok (mag q : Nat) (h : mag < MAG_BOUND) : DigOK q (fixDigits mag q) := by
  refine ⟨?_, Nat.mod_lt _ (pow10_pos q)⟩
  unfold fixDigits fixedUnits
  simp only []
  have h1 := roundHalfEven_le (mag * 10 ^ q) U
  have h2 : mag * 10 ^ q / U ≤ mag * 10 ^ q := Nat.div_le_self _ _
  have h3 : roundHalfEven (mag * 10 ^ q) U / 10 ^ q ≤ mag + 1 := by
    apply Nat.div_le_of_le_mul
    have := pow10_pos q
    rw [Nat.mul_add, Nat.mul_one, Nat.mul_comm (10 ^ q) mag]
    omega
  have h4 : mag + 1 < 2 ^ 4000 := by
    unfold MAG_BOUND at h
    have : (2 : Nat) ^ 2098 < 2 ^ 3999 := Nat.pow_lt_pow_right (by omega) (by omega)
    have : (2 : Nat) ^ 4000 = 2 * 2 ^ 3999 := by rw [← Nat.pow_succ']
    omega
  omega

theorem sciDigits_ok (mag q : Nat) : DigOK q (sciDigits mag q).2 := by
  unfold sciDigits
  simp only []
  split
  · exact ⟨Nat.lt_of_lt_of_le (by omega : 1 < 2 ^ 1) (Nat.pow_le_pow_right (by omega) (by omega)), pow10_pos q⟩
  · rename_i hu
    refine ⟨?_, Nat.mod_lt _ (pow10_pos q)⟩
    have : sciUnits mag q (exp10 mag) / 10 ^ q < 10 := by
      apply Nat.div_lt_of_lt_mul
      rw [Nat.pow_succ, Nat.mul_comm] at hu
      omega
    exact Nat.lt_trans this
      (Nat.lt_of_lt_of_le (by omega : 10 < 2 ^ 4) (Nat.pow_le_pow_right (by omega) (by omega)))

theorem lowExpF_le (fuel j mag : Nat) : lowExpF fuel j mag ≤ j + fuel := by
  induction fuel generalizing j with
  | zero => simp [lowExpF]
  | succ f ih =>
    simp only [lowExpF]
    split
    · omega
    · have := ih (j + 1); omega

theorem exp10_bound (mag : Nat) (h : mag < MAG_BOUND) : -401 ≤ exp10 mag ∧ exp10 mag ≤ 1024 := by
  unfold exp10
  split
  · omega
  · split
    · rename_i h0 hU
      have hw : mag / U < DBL_BOUND := by
        apply Nat.div_lt_of_lt_mul
        unfold MAG_BOUND at h
        unfold U DBL_BOUND
        rw [← Nat.pow_add]
        exact h
      have := (specDigits_length 10 (mag / U) false (by omega) hw).2
      simp only [specDigits, List.length_map] at this
      omega
    · have := lowExpF_le 400 1 mag
      omega

theorem sciDigits_exp_bound (mag q : Nat) (h : mag < MAG_BOUND) :
    -401 ≤ (sciDigits mag q).1 ∧ (sciDigits mag q).1 ≤ 1025 := by
  have := exp10_bound mag h
  unfold sciDigits
  simp only []
  split <;> simp only [] <;> omega

/-! ## the reference's scientific notation is normalised -/

theorem digitsF_bracket :
    ∀ fuel n, n ≤ fuel → 0 < n →
      10 ^ ((digitsF fuel 10 n).length - 1) ≤ n ∧ n < 10 ^ (digitsF fuel 10 n).length := by
  intro fuel
  induction fuel with
  | zero => intro n hn h0; omega
  | succ fuel ih =>
    intro n hn h0
    simp only [digitsF]
    by_cases hlt : n < 10
    · rw [if_pos hlt]
      simp only [List.length_singleton, Nat.sub_self, Nat.pow_zero, Nat.pow_one]
      omega
    · have hd : n / 10 < n := Nat.div_lt_self h0 (by omega)
      have hp : 0 < n / 10 := Nat.div_pos (by omega) (by omega)
      obtain ⟨h1, h2⟩ := ih (n / 10) (by omega) hp
      rw [if_neg hlt]
      simp only [List.length_append, List.length_singleton, Nat.add_sub_cancel]
      generalize (digitsF fuel 10 (n / 10)).length = L at h1 h2
      have hL : 1 ≤ L := by
        cases L with
        | zero => simp at h2; omega
        | succ k => omega
      have e : 10 ^ L = 10 ^ (L - 1) * 10 := by
        rw [← Nat.pow_succ]; congr 1; omega
      have hm := Nat.div_add_mod n 10
      have hr := Nat.mod_lt n (by omega : 0 < 10)
      constructor
      · rw [e]; omega
      · rw [Nat.pow_succ]; omega

theorem lowExpF_spec (mag : Nat) :
    ∀ fuel j, 1 ≤ j → mag * 10 ^ (j - 1) < U → U ≤ mag * 10 ^ (j + fuel - 1) →
      1 ≤ lowExpF fuel j mag ∧ U ≤ mag * 10 ^ (lowExpF fuel j mag) ∧
        mag * 10 ^ (lowExpF fuel j mag - 1) < U := by
  intro fuel
  induction fuel with
  | zero => intro j hj h1 h2; simp only [Nat.add_zero] at h2; omega
  | succ fuel ih =>
    intro j hj h1 h2
    simp only [lowExpF]
    by_cases hge : mag * 10 ^ j ≥ U
    · rw [if_pos hge]; exact ⟨hj, hge, h1⟩
    · rw [if_neg hge]
      exact ih (j + 1) (by omega) (by simpa using Nat.lt_of_not_ge hge)
        (by have : j + 1 + fuel - 1 = j + (fuel + 1) - 1 := by omega
            rw [this]; exact h2)

theorem U_le_pow10_400 : U ≤ 10 ^ 400 := by
  have h1 : (2 : Nat) ^ 1074 ≤ 2 ^ 1200 := Nat.pow_le_pow_right (by omega) (by omega)
  have h2 : (2 : Nat) ^ 1200 = (2 ^ 3) ^ 400 := by rw [← Nat.pow_mul]
  have h3 : ((2 : Nat) ^ 3) ^ 400 ≤ 10 ^ 400 := Nat.pow_le_pow_left (by decide) 400
  unfold U; omega

theorem roundHalfEven_ge (n d k : Nat) (hd : 0 < d) (h : k * d ≤ n) : k ≤ roundHalfEven n d := by
  have hq : k ≤ n / d := (Nat.le_div_iff_mul_le hd).2 h
  unfold roundHalfEven
  simp only []
  split
  · exact hq
  · split
    · omega
    · split <;> omega

theorem roundHalfEven_le' (n d k : Nat) (hd : 0 < d) (h : n ≤ k * d) : roundHalfEven n d ≤ k := by
  have hm := Nat.div_add_mod n d
  have hr := Nat.mod_lt n hd
  have hq : n / d ≤ k := by
    have := Nat.div_le_div_right (c := d) h
    rwa [Nat.mul_div_cancel _ hd] at this
  unfold roundHalfEven
  simp only []
  by_cases hlt : n / d < k
  · split
    · omega
    · split
      · omega
      · split <;> omega
  · have he : n / d = k := by omega
    -- then n % d = 0
    have h0 : n % d = 0 := by
      rw [he] at hm
      have : d * k = k * d := Nat.mul_comm _ _
      omega
    simp only [h0, Nat.mul_zero, hd, if_true]
    omega

theorem sciUnits_nonneg (mag p k : Nat) :
    sciUnits mag p (k : Int) =
      if k ≤ p then roundHalfEven (mag * 10 ^ (p - k)) U else roundHalfEven mag (U * 10 ^ (k - p)) := by
  unfold sciUnits
  by_cases h : k ≤ p
  · have h' : (k : Int) ≤ (p : Int) := by omega
    have e : ((p : Int) - (k : Int)).toNat = p - k := by omega
    simp only [h, h', if_true, e]
  · have h' : ¬ ((k : Int) ≤ (p : Int)) := by omega
    have e : ((k : Int) - (p : Int)).toNat = k - p := by omega
    simp only [h, h', if_false, e]

theorem sciUnits_neg (mag p j : Nat) :
    sciUnits mag p (-(j : Int)) = roundHalfEven (mag * 10 ^ (p + j)) U := by
  unfold sciUnits
  have h' : -(j : Int) ≤ (p : Int) := by omega
  have e : ((p : Int) - -(j : Int)).toNat = p + j := by omega
  simp only [h', if_true, e]

theorem U_pos : 0 < U := Nat.pow_pos (by omega)

/-- the units of the mantissa lie between 10^p and 10^(p+1): the decimal exponent of the
    reference is the right one -/
theorem sciUnits_bracket (mag p : Nat) (h0 : 0 < mag) (h : mag < MAG_BOUND) :
    10 ^ p ≤ sciUnits mag p (exp10 mag) ∧ sciUnits mag p (exp10 mag) ≤ 10 ^ (p + 1) := by
  unfold exp10
  have hne : mag ≠ 0 := by omega
  simp only [hne, if_false]
  by_cases hU : mag ≥ U
  · simp only [hU, if_true]
    have hw : 0 < mag / U := Nat.div_pos hU U_pos
    obtain ⟨b1, b2⟩ := digitsF_bracket (mag / U) (mag / U) (Nat.le_refl _) hw
    have hL : 1 ≤ (digits 10 (mag / U)).length := by
      cases hh : digits 10 (mag / U) with
      | nil => exact absurd hh (digits_ne_nil 10 _)
      | cons a l => simp
    change 10 ^ ((digits 10 (mag / U)).length - 1) ≤ mag / U at b1
    change mag / U < 10 ^ (digits 10 (mag / U)).length at b2
    generalize (digits 10 (mag / U)).length = L at *
    obtain ⟨k, rfl⟩ : ∃ k, L = k + 1 := ⟨L - 1, by omega⟩
    simp only [Nat.add_sub_cancel] at b1 ⊢
    -- 10^k * U ≤ mag < 10^(k+1) * U
    have c1 : 10 ^ k * U ≤ mag := Nat.le_trans (Nat.mul_le_mul_right U b1) (Nat.div_mul_le_self mag U)
    have c2 : mag < 10 ^ (k + 1) * U := by
      have := Nat.lt_mul_div_succ mag U_pos
      have h3 : mag / U + 1 ≤ 10 ^ (k + 1) := b2
      calc mag < U * (mag / U + 1) := this
        _ ≤ U * 10 ^ (k + 1) := Nat.mul_le_mul_left U h3
        _ = 10 ^ (k + 1) * U := Nat.mul_comm _ _
    rw [sciUnits_nonneg]
    by_cases hk : k ≤ p
    · simp only [hk, if_true]
      obtain ⟨t, rfl⟩ : ∃ t, p = k + t := ⟨p - k, by omega⟩
      simp only [Nat.add_sub_cancel_left]
      constructor
      · apply roundHalfEven_ge _ _ _ U_pos
        calc 10 ^ (k + t) * U = (10 ^ k * U) * 10 ^ t := by rw [Nat.pow_add, Nat.mul_right_comm]
          _ ≤ mag * 10 ^ t := Nat.mul_le_mul_right _ c1
      · apply roundHalfEven_le' _ _ _ U_pos
        calc mag * 10 ^ t ≤ (10 ^ (k + 1) * U) * 10 ^ t := Nat.mul_le_mul_right _ (Nat.le_of_lt c2)
          _ = 10 ^ (k + t + 1) * U := by
            rw [Nat.mul_right_comm, ← Nat.pow_add]; congr 2; omega
    · simp only [hk, if_false]
      obtain ⟨t, rfl⟩ : ∃ t, k = p + t := ⟨k - p, by omega⟩
      simp only [Nat.add_sub_cancel_left]
      have hd : 0 < U * 10 ^ t := Nat.mul_pos U_pos (pow10_pos t)
      constructor
      · apply roundHalfEven_ge _ _ _ hd
        calc 10 ^ p * (U * 10 ^ t) = 10 ^ (p + t) * U := by
              rw [Nat.pow_add, Nat.mul_comm U, ← Nat.mul_assoc]
          _ ≤ mag := c1
      · apply roundHalfEven_le' _ _ _ hd
        calc mag ≤ 10 ^ (p + t + 1) * U := Nat.le_of_lt c2
          _ = 10 ^ (p + 1) * (U * 10 ^ t) := by
              have : p + t + 1 = (p + 1) + t := by omega
              rw [this, Nat.pow_add, Nat.mul_comm U, ← Nat.mul_assoc]
  · simp only [hU, if_false]
    have hlt : mag < U := Nat.lt_of_not_ge hU
    have hfind : U ≤ mag * 10 ^ (1 + 400 - 1) := by
      have : U ≤ 1 * 10 ^ 400 := by simpa using U_le_pow10_400
      exact Nat.le_trans this (Nat.mul_le_mul_right _ h0)
    obtain ⟨j1, j2, j3⟩ := lowExpF_spec mag 400 1 (Nat.le_refl _) (by simpa using hlt) hfind
    generalize lowExpF 400 1 mag = j at *
    rw [sciUnits_neg]
    constructor
    · apply roundHalfEven_ge _ _ _ U_pos
      calc 10 ^ p * U ≤ 10 ^ p * (mag * 10 ^ j) := Nat.mul_le_mul_left _ j2
        _ = mag * 10 ^ (p + j) := by rw [Nat.pow_add, Nat.mul_left_comm]
    · apply roundHalfEven_le' _ _ _ U_pos
      obtain ⟨i, rfl⟩ : ∃ i, j = i + 1 := ⟨j - 1, by omega⟩
      simp only [Nat.add_sub_cancel] at j3
      calc mag * 10 ^ (p + (i + 1)) = (mag * 10 ^ i) * 10 ^ (p + 1) := by
            have : p + (i + 1) = i + (p + 1) := by omega
            rw [this, Nat.pow_add, Nat.mul_assoc]
        _ ≤ U * 10 ^ (p + 1) := Nat.mul_le_mul_right _ (Nat.le_of_lt j3)
        _ = 10 ^ (p + 1) * U := Nat.mul_comm _ _

/-- the mantissa of the reference's scientific notation has exactly one, non-zero, leading digit -/
theorem sciDigits_leading (mag p : Nat) (h0 : 0 < mag) (h : mag < MAG_BOUND) :
    1 ≤ (sciDigits mag p).2.whole ∧ (sciDigits mag p).2.whole ≤ 9 := by
  obtain ⟨b1, b2⟩ := sciUnits_bracket mag p h0 h
  unfold sciDigits
  simp only []
  split
  · simp
  · rename_i hu
    simp only []
    have hp := pow10_pos p
    constructor
    · exact (Nat.le_div_iff_mul_le hp).2 (by simpa using b1)
    · have : sciUnits mag p (exp10 mag) / 10 ^ p < 10 := by
        apply Nat.div_lt_of_lt_mul
        rw [Nat.pow_succ, Nat.mul_comm] at hu
        omega
      omega

/-! ## `str::parse::<i32>` of the exponent text -/

theorem optFold_digits (cs : List Char) (h : ∀ x ∈ cs, isDigitChar x = true) (acc : Nat) :
    cs.foldl digitStep (some acc) = some (decFrom acc cs) := by
  induction cs generalizing acc with
  | nil => rfl
  | cons c cs ih =>
    have hc : isDigitChar c = true := h c (by simp)
    simp only [List.foldl_cons, digitStep, digitVal_spec, hc, if_true]
    rw [ih (fun x hx => h x (by simp [hx]))]
    rfl

theorem decimalValue_dec (n : Nat) : decimalValue? (dec n) = some n := by
  unfold decimalValue?
  obtain ⟨c, r, e, _⟩ := dec_head n
  have hne : (dec n).isEmpty = false := by rw [e]; rfl
  simp only [hne, Bool.false_eq_true, if_false]
  rw [optFold_digits (dec n) (dec_all_digits n) 0, ← decVal_eq, decVal_dec]

theorem splitSign_nosign (c : Char) (r : List Char) (h1 : c ≠ '-') (h2 : c ≠ '+') :
    splitSign (c :: r) = (false, c :: r) := by
  unfold splitSign
  split
  · rename_i heq; injection heq with h _; exact absurd h h1
  · rename_i heq; injection heq with h _; exact absurd h h2
  · rfl

/-- the exponent text of Rust's `{:e}` parses back to the exponent -/
theorem parseI32_intText (x : Int) (h1 : -2147483648 ≤ x) (h2 : x ≤ 2147483647) :
    parseI32 (intText x) = x := by
  unfold intText
  rw [decText_eq]
  by_cases hx : x < 0
  · have hs : splitSign (['-'] ++ dec x.natAbs) = (true, dec x.natAbs) := rfl
    simp only [hx, if_true, parseI32, hs, decimalValue_dec]
    have e : -(x.natAbs : Int) = x := by omega
    rw [e]
    have : ¬ ((decide (x < -2147483648) || decide (x > 2147483647)) = true) := by
      simp only [Bool.or_eq_true, decide_eq_true_eq]; omega
    simp only [this, if_false, Bool.false_eq_true]
  · obtain ⟨c, r, e, hc1, hc2, _⟩ := dec_head x.natAbs
    have hs : splitSign ([] ++ dec x.natAbs) = (false, dec x.natAbs) := by
      rw [List.nil_append, e]; exact splitSign_nosign c r hc1 hc2
    simp only [hx, if_false, parseI32, hs, decimalValue_dec, Bool.false_eq_true]
    have e : (x.natAbs : Int) = x := by omega
    rw [e]
    have : ¬ ((decide (x < -2147483648) || decide (x > 2147483647)) = true) := by
      simp only [Bool.or_eq_true, decide_eq_true_eq]; omega
    simp only [this, if_false, Bool.false_eq_true]

/-- `float_sci_digits`: under the assumption, the mantissa text and the exponent of the exact
    scientific notation -/
theorem floatSciDigits_exact (n : Num) (q : Nat) (hq : q ≤ 308) (ho : OracleOK n) :
    floatSciDigits n q = (plainText q (sciDigits n.mag q).2, (sciDigits n.mag q).1) := by
  obtain ⟨hm, hr⟩ := ho
  have hb := sciDigits_exp_bound n.mag q hm
  unfold floatSciDigits
  simp only [(hr q hq).2, rustSci]
  rw [splitOnce_append _ _ _ (plainText_no_e _ _)]
  simp only [Option.getD_some]
  rw [parseI32_intText _ (by omega) (by omega)]

/-! ## e/E/f/F/g/G: model = exact reference -/

theorem exp_natAbs_bound (x : Int) (h1 : -401 ≤ x) (h2 : x ≤ 1025) : x.natAbs < DBL_BOUND := by
  have : x.natAbs < 2 ^ 11 := by omega
  exact Nat.lt_of_lt_of_le this (Nat.pow_le_pow_right (by omega) (by omega))

/-- e/E/f/F/g/G: model = exact reference for every flag set, width, precision and every finite
    double on which Rust's float formatting is exact -/
theorem formatCode_float (n : Num) (disp : List Char) (c : Code) (w : Nat) (p : Option Nat)
    (hc : c.conv = .sci ∨ c.conv = .flt ∨ c.conv = .shorter) (ho : OracleOK n) :
    formatCode (.num n disp) c w p = FormatSpec.conv c w p (.num n disp) := by
  have hm := ho.1
  have hr := ho.2
  rw [formatCode_unfold]
  unfold formatBody FormatSpec.conv
  delta FMT_DEFAULT_FPPREC FMT_MAX_FPPREC FMT_G_LOW_EXP FormatSpec.maxFloatPrec
  simp only [Val.asNum, FormatSpec.needNum]
  by_cases hbig : p.getD 6 > 308
  · rcases hc with h | h | h <;>
      simp [h, hbig, Except.map, bind, Except.bind, throw, throwThe, MonadExceptOf.throw]
  · have hle : p.getD 6 ≤ 308 := by omega
    rcases hc with h | h | h
    · -- %e
      simp only [h, hbig, decide_false, Bool.false_and, Bool.false_eq_true, if_false, bind, Except.bind,
        pure, Except.pure, renderFloatSci, floatSciDigits_exact n _ hle ho]
      have hb := sciDigits_exp_bound n.mag (p.getD 6) hm
      generalize hsd : sciDigits n.mag (p.getD 6) = sd at hb
      obtain ⟨x, d⟩ := sd
      have hd : DigOK (p.getD 6) d := by have := sciDigits_ok n.mag (p.getD 6); rw [hsd] at this; exact this
      simp only [] at hb ⊢
      rw [float_core_sci c.flags w n.neg x d _ c.flags.alt c.caps hle hd (exp_natAbs_bound x hb.1 hb.2)]
    · -- %f
      simp only [h, hbig, decide_false, Bool.false_and, Bool.false_eq_true, if_false, bind, Except.bind,
        pure, Except.pure, renderFloat, (hr _ hle).1, rustFixed]
      rw [float_core_fixed c.flags w n.neg _ _ c.flags.alt hle (fixDigits_ok n.mag _ hm)]
    · -- %g
      have hm1 : max (p.getD 6) 1 - 1 ≤ 308 := by omega
      simp only [h, hbig, decide_false, Bool.false_and, Bool.false_eq_true, if_false, bind, Except.bind,
        pure, Except.pure, floatSciDigits_exact n _ hm1 ho]
      have hb := sciDigits_exp_bound n.mag (max (p.getD 6) 1 - 1) hm
      generalize hsd : sciDigits n.mag (max (p.getD 6) 1 - 1) = sd at hb
      obtain ⟨x, d⟩ := sd
      have hd : DigOK (max (p.getD 6) 1 - 1) d := by
        have := sciDigits_ok n.mag (max (p.getD 6) 1 - 1); rw [hsd] at this; exact this
      simp only [] at hb ⊢
      by_cases hform : (decide (x < -((4 : Nat) : Int)) || decide (x ≥ ((max (p.getD 6) 1 : Nat) : Int))) = true
      · have hform' : (decide (x < -4) || decide (x ≥ ((max (p.getD 6) 1 : Nat) : Int))) = true := hform
        simp only [hform, hform', if_true]
        have := g_core_sci c.flags w n.neg x d _ c.flags.alt c.caps hm1 hd (exp_natAbs_bound x hb.1 hb.2)
        cases hrs : renderSciDigits n.neg (plainText (max (p.getD 6) 1 - 1) d) x 0 (max (p.getD 6) 1 - 1)
            c.flags.blank c.flags.sign c.flags.alt c.flags.alt c.caps with
        | error e => rw [hrs] at this; cases this
        | ok t =>
          rw [hrs] at this
          simp only [Except.map, Except.ok.injEq] at this
          simp only [Except.map, this]
      · simp only [Bool.not_eq_true] at hform
        have hform' : (decide (x < -4) || decide (x ≥ ((max (p.getD 6) 1 : Nat) : Int))) = false := hform
        simp only [hform, hform', Bool.false_eq_true, if_false]
        simp only [Bool.or_eq_false_iff, decide_eq_false_iff_not] at hform
        obtain ⟨hlo, hhi⟩ := hform
        -- `u16::try_from(exponent).map_or(1, |e| e + 1)` is max 1 (x + 1); no `u16` overflow
        have hdb : (if (decide (0 ≤ x) && decide (x ≤ ((U16_MAX : Nat) : Int))) = true then x.toNat + 1 else 1)
            = max 1 (x.toNat + 1) := by
          unfold U16_MAX
          by_cases h0 : 0 ≤ x
          · have : x ≤ ((65535 : Nat) : Int) := by omega
            simp [h0, this]; omega
          · have : x.toNat = 0 := by omega
            simp [h0, this]
        have hno1 : ¬ (max 1 (x.toNat + 1) > U16_MAX) := by unfold U16_MAX; omega
        have hno2 : ¬ (max 1 (x.toNat + 1) > max (p.getD 6) 1) := by omega
        simp only [hdb, hno1, hno2, if_false, renderFloat, throw, throwThe, MonadExceptOf.throw]
        have hm2 : max (p.getD 6) 1 - max 1 (x.toNat + 1) ≤ 308 := by omega
        simp only [(hr _ hm2).1, rustFixed]
        have := g_core_fixed c.flags w n.neg (fixDigits n.mag (max (p.getD 6) 1 - max 1 (x.toNat + 1))) _
          c.flags.alt hm2 (fixDigits_ok n.mag _ hm)
        cases hrs : renderFloatDigits n.neg
            (plainText (max (p.getD 6) 1 - max 1 (x.toNat + 1))
              (fixDigits n.mag (max (p.getD 6) 1 - max 1 (x.toNat + 1)))) 0
            (max (p.getD 6) 1 - max 1 (x.toNat + 1)) c.flags.blank c.flags.sign c.flags.alt c.flags.alt with
        | error e => rw [hrs] at this; cases this
        | ok t =>
          rw [hrs] at this
          simp only [Except.map, Except.ok.injEq] at this
          simp only [Except.map, this]

end JrsVerif.Format
