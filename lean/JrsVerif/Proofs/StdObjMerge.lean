/- C13 helper lemmas: std.mergePatch -/
import JrsVerif.Proofs.StdObjEq

namespace JrsVerif.StdObj

/-- what the loop body of `builtin_merge_patch` computes for a visible patch field `k` of value
    thunk `v` -/
def outcomeOf (tf : FL) (tn : List String) (k : String) (v : V) : Outcome :=
  match v with
  | .err => Outcome.fail
  | .null => Outcome.delete
  | _ =>
    match (if tn.contains k then force (getLazy tf k) else some V.null) with
    | none => Outcome.fail
    | some tv =>
      match Model.mergePatch tv v with
      | none => Outcome.fail
      | some r => Outcome.set r

theorem lookup_mpOuts (tf : FL) (tn : List String) (pf : FL) (k : String) :
    (Model.mpOuts tf tn pf).lookup k = (pf.find? k).map (fun p => outcomeOf tf tn k p.2) := by
  induction pf using FL.ind with
  | nil => rfl
  | cons n h v rest ih =>
    simp only [Model.mpOuts, FL.find?]
    by_cases hn : n = k
    · subst hn; simp only [lookup_cons_eq, ↓reduceIte, Option.map_some]
      cases v <;> rfl
    · simp [lookup_cons_ne _ _ hn, hn, ih]

/-- the reference value of field `k` when the patch has it: `mergePatch(t[k] or null, patch[k])` -/
def specVal (to : FL) (k : String) (v : V) : Option V :=
  match (if has to k then force (getLazy to k) else some V.null) with
  | none => none
  | some tv => Spec.mergePatch tv v

theorem lookup_mpVals (to pf : FL) (k : String) :
    (Spec.mpVals to pf).lookup k = (pf.find? k).map (fun p => specVal to k p.2) := by
  induction pf using FL.ind with
  | nil => rfl
  | cons n h v rest ih =>
    simp only [Spec.mpVals, FL.find?]
    by_cases hn : n = k
    · subst hn; simp only [lookup_cons_eq, ↓reduceIte, Option.map_some]; rfl
    · simp [lookup_cons_ne _ _ hn, hn, ih]

theorem has_eq_contains (o : FL) (k : String) : (fieldsEx o false).contains k = has o k := by
  rw [contains_fieldsEx]; rfl


/-! ### the loop against the comprehension -/

def isNullKey (pf : FL) (k : String) : Bool := has pf k && isNull (getLazy pf k)
def isErrKey (pf : FL) (k : String) : Bool := has pf k && isErr (getLazy pf k)

/-- value of key `k` in the comprehension of the reference definition -/
def specKeyVal (to pf : FL) (k : String) : Option V :=
  if !has pf k then some (getLazy to k) else ((Spec.mpVals to pf).lookup k).join

def specLoop (to pf : FL) (ks : List String) : Option FL :=
  if ks.any (isErrKey pf) then none
  else sequence ((ks.filter (fun k => !isNullKey pf k)).map (fun k => (k, specKeyVal to pf k)))

theorem specLoop_nil (to pf : FL) : specLoop to pf [] = some .nil := by
  simp [specLoop, sequence]

theorem specLoop_cons_err (to pf : FL) (k : String) (ks : List String) (h : isErrKey pf k = true) :
    specLoop to pf (k :: ks) = none := by
  simp [specLoop, h]

theorem specLoop_cons_skip (to pf : FL) (k : String) (ks : List String)
    (h1 : isErrKey pf k = false) (h2 : isNullKey pf k = true) :
    specLoop to pf (k :: ks) = specLoop to pf ks := by
  simp [specLoop, h1, h2]

theorem specLoop_cons_val (to pf : FL) (k : String) (ks : List String)
    (h1 : isErrKey pf k = false) (h2 : isNullKey pf k = false) :
    specLoop to pf (k :: ks) =
      match specKeyVal to pf k with
      | none => none
      | some v => (specLoop to pf ks).map (.cons k false v) := by
  simp only [specLoop, List.any_cons, h1, Bool.false_or, List.filter_cons, h2, Bool.not_false,
    ↓reduceIte, List.map_cons]
  cases hv : specKeyVal to pf k with
  | none => simp [sequence]
  | some v =>
    simp only [sequence]
    split <;> simp

theorem mpLoop_eq_specLoop (tf pf : FL)
    (IH : ∀ k hid v, pf.find? k = some (hid, v) → ∀ t, Model.mergePatch t v = Spec.mergePatch t v)
    (ks : List String) :
    mpLoop tf (fieldsEx pf false) (Model.mpOuts tf (fieldsEx tf false) pf) ks = specLoop tf pf ks := by
  induction ks with
  | nil => simp [mpLoop, specLoop_nil]
  | cons k ks ih =>
    simp only [mpLoop, has_eq_contains]
    cases hk : has pf k with
    | false =>
      simp only [Bool.false_eq_true, ↓reduceIte]
      rw [specLoop_cons_val _ _ _ _ (by simp [isErrKey, hk]) (by simp [isNullKey, hk])]
      simp [specKeyVal, hk, ih]
    | true =>
      obtain ⟨v, hv⟩ := find?_of_has hk
      have hg : getLazy pf k = v := getLazy_of_find? hv
      have hspec : specKeyVal tf pf k = specVal tf k v := by
        simp [specKeyVal, hk, lookup_mpVals, hv]
      simp only [↓reduceIte, lookup_mpOuts, hv, Option.map_some]
      have hrec := IH k false v hv
      -- the generic case: `v` is neither failing nor null
      have generic : v ≠ .err → v ≠ .null →
          (match outcomeOf tf (fieldsEx tf false) k v with
            | Outcome.fail => none
            | Outcome.delete => mpLoop tf (fieldsEx pf false) (Model.mpOuts tf (fieldsEx tf false) pf) ks
            | Outcome.set r => (mpLoop tf (fieldsEx pf false) (Model.mpOuts tf (fieldsEx tf false) pf) ks).map (.cons k false r))
          = specLoop tf pf (k :: ks) := by
        intro hne hnn
        have h1 : isErrKey pf k = false := by
          simp only [isErrKey, hk, hg, Bool.true_and]; cases v <;> simp_all [isErr]
        have h2 : isNullKey pf k = false := by
          simp only [isNullKey, hk, hg, Bool.true_and]; cases v <;> simp_all [isNull]
        rw [specLoop_cons_val _ _ _ _ h1 h2, hspec]
        have ho : outcomeOf tf (fieldsEx tf false) k v =
            (match specVal tf k v with | none => Outcome.fail | some r => Outcome.set r) := by
          unfold specVal
          have : outcomeOf tf (fieldsEx tf false) k v =
              (match (if (fieldsEx tf false).contains k then force (getLazy tf k) else some V.null) with
               | none => Outcome.fail
               | some tv => match Model.mergePatch tv v with
                 | none => Outcome.fail
                 | some r => Outcome.set r) := by
            cases v <;> first | rfl | (exact absurd rfl hne) | (exact absurd rfl hnn)
          rw [this, has_eq_contains]
          cases (if has tf k = true then force (getLazy tf k) else some V.null) with
          | none => rfl
          | some tv => simp only [hrec tv]
        rw [ho]
        cases specVal tf k v with
        | none => rfl
        | some r => simp [ih]
      by_cases hne : v = .err
      · subst hne
        rw [specLoop_cons_err _ _ _ _ (by simp [isErrKey, hk, hg, isErr])]
        rfl
      · by_cases hnn : v = .null
        · subst hnn
          rw [specLoop_cons_skip _ _ _ _ (by simp [isErrKey, hk, hg, isErr]) (by simp [isNullKey, hk, hg, isNull])]
          simpa [outcomeOf] using ih
        · have := generic hne hnn
          generalize outcomeOf tf (fieldsEx tf false) k v = oc at this ⊢
          cases oc <;> exact this


theorem contains_filter (l : List String) (q : String → Bool) (k : String) :
    (l.filter q).contains k = (l.contains k && q k) := by
  rw [Bool.eq_iff_iff]
  simp [List.mem_filter]

theorem mem_unionS {a b : List String} {k : String} : k ∈ unionS a b ↔ k ∈ a ∨ k ∈ b := by
  simp [unionS, mem_sortU]

theorem any_err_union (tf pf : FL) :
    (fieldsEx pf false).any (fun k => isErr (getLazy pf k)) =
      (unionS (fieldsEx tf false) (fieldsEx pf false)).any (isErrKey pf) := by
  rw [Bool.eq_iff_iff, List.any_eq_true, List.any_eq_true]
  constructor
  · rintro ⟨k, hk, he⟩
    refine ⟨k, mem_unionS.mpr (Or.inr hk), ?_⟩
    have : has pf k = true := by simpa [hasEx] using mem_fieldsEx.mp hk
    simp [isErrKey, this, he]
  · rintro ⟨k, _, he⟩
    simp only [isErrKey, Bool.and_eq_true] at he
    exact ⟨k, mem_fieldsEx.mpr (by simpa [hasEx] using he.1), he.2⟩

theorem spec_obj_eq (t : V) (pf : FL) :
    Spec.mergePatch t (.obj pf) =
      (specLoop (targetFields t) pf
        (unionS (fieldsEx (targetFields t) false) (fieldsEx pf false))).map V.obj := by
  simp only [Spec.mergePatch, specLoop]
  rw [any_err_union (targetFields t) pf]
  have hf : (sortU (fieldsEx (targetFields t) false ++ fieldsEx pf false)).filter
        (fun k => !((fieldsEx pf false).filter (fun k => isNull (getLazy pf k))).contains k) =
      (unionS (fieldsEx (targetFields t) false) (fieldsEx pf false)).filter
        (fun k => !isNullKey pf k) := by
    apply List.filter_congr
    intro k _
    rw [contains_filter, has_eq_contains]
    rfl
  rw [hf]
  split
  · rfl
  · rfl

mutual
theorem mergePatch_spec_V : ∀ (p t : V), Model.mergePatch t p = Spec.mergePatch t p
  | .obj pf, t => by
    rw [spec_obj_eq]
    simp only [Model.mergePatch]
    rw [mpLoop_eq_specLoop _ _ (fun k hid v hf t => mergePatch_spec_FL pf k hid v hf t)]
  | .err, t => by simp [Model.mergePatch, Spec.mergePatch]
  | .null, t => by simp [Model.mergePatch, Spec.mergePatch]
  | .bool _, t => by simp [Model.mergePatch, Spec.mergePatch]
  | .num _, t => by simp [Model.mergePatch, Spec.mergePatch]
  | .str _, t => by simp [Model.mergePatch, Spec.mergePatch]
  | .arr _, t => by simp [Model.mergePatch, Spec.mergePatch]
  | .func _, t => by simp [Model.mergePatch, Spec.mergePatch]
theorem mergePatch_spec_FL : ∀ (pf : FL) (k : String) (hid : Bool) (v : V),
    pf.find? k = some (hid, v) → ∀ t, Model.mergePatch t v = Spec.mergePatch t v
  | .nil, k, hid, v, hf, t => by simp [FL.find?] at hf
  | .cons n h' v' rest, k, hid, v, hf, t => by
    simp only [FL.find?] at hf
    split at hf
    · simp at hf; obtain ⟨_, rfl⟩ := hf
      exact mergePatch_spec_V v' t
    · exact mergePatch_spec_FL rest k hid v hf t
end


/-! ### reading the result -/

/-- the visible view of an object: what `objectHas`/`o[k]` show -/
def visView (o : FL) (k : String) : Option V := if has o k then some (getLazy o k) else none

theorem sequence_find {l : List (String × Option V)} {r : FL} (h : sequence l = some r) (k : String) :
    r.find? k = ((l.lookup k).join).map (fun v => (false, v)) := by
  induction l generalizing r with
  | nil => simp [sequence] at h; subst h; rfl
  | cons e l ih =>
    obtain ⟨k0, ov⟩ := e
    cases ov with
    | none => simp [sequence] at h
    | some v0 =>
      simp only [sequence] at h
      cases hs : sequence l with
      | none => simp [hs] at h
      | some r' =>
        simp [hs] at h; subst h
        by_cases hk : k0 = k
        · subst hk; simp [FL.find?]
        · simp [FL.find?, hk, lookup_cons_ne _ _ hk, ih hs]

theorem lookup_map_key {β : Type} (ks : List String) (f : String → β) (k : String) :
    (ks.map (fun k => (k, f k))).lookup k = if k ∈ ks then some (f k) else none := by
  induction ks with
  | nil => rfl
  | cons x xs ih =>
    by_cases hx : x = k
    · subst hx; simp
    · have : ¬ k = x := fun e => hx e.symm
      simp [lookup_cons_ne _ _ hx, ih, this]

theorem sequence_names {l : List (String × Option V)} {r : FL} (h : sequence l = some r) :
    r.names = l.map Prod.fst := by
  induction l generalizing r with
  | nil => simp [sequence] at h; subst h; rfl
  | cons e l ih =>
    obtain ⟨k0, ov⟩ := e
    cases ov with
    | none => simp [sequence] at h
    | some v0 =>
      simp only [sequence] at h
      cases hs : sequence l with
      | none => simp [hs] at h
      | some r' => simp [hs] at h; subst h; simp [FL.names, ih hs]

theorem specLoop_find {to pf : FL} {ks : List String} {r : FL} (h : specLoop to pf ks = some r)
    (k : String) :
    r.find? k = if k ∈ ks ∧ isNullKey pf k = false then (specKeyVal to pf k).map (fun v => (false, v))
      else none := by
  unfold specLoop at h
  split at h
  · simp at h
  · rw [sequence_find h, lookup_map_key]
    simp only [List.mem_filter, Bool.not_eq_true']
    split <;> simp

theorem specLoop_congr (to to' pf pf' : FL) (ks : List String)
    (h1 : ∀ k ∈ ks, isErrKey pf k = isErrKey pf' k) (h2 : ∀ k ∈ ks, isNullKey pf k = isNullKey pf' k)
    (h3 : ∀ k ∈ ks, specKeyVal to pf k = specKeyVal to' pf' k) :
    specLoop to pf ks = specLoop to' pf' ks := by
  induction ks with
  | nil => simp [specLoop_nil]
  | cons k ks ih =>
    have ih' := ih (fun x hx => h1 x (List.mem_cons_of_mem _ hx))
      (fun x hx => h2 x (List.mem_cons_of_mem _ hx)) (fun x hx => h3 x (List.mem_cons_of_mem _ hx))
    have e1 := h1 k (by simp)
    have e2 := h2 k (by simp)
    have e3 := h3 k (by simp)
    cases he : isErrKey pf k with
    | true => rw [specLoop_cons_err _ _ _ _ he, specLoop_cons_err _ _ _ _ (e1 ▸ he)]
    | false =>
      cases hn : isNullKey pf k with
      | true =>
        rw [specLoop_cons_skip _ _ _ _ he hn, specLoop_cons_skip _ _ _ _ (e1 ▸ he) (e2 ▸ hn), ih']
      | false =>
        rw [specLoop_cons_val _ _ _ _ he hn, specLoop_cons_val _ _ _ _ (e1 ▸ he) (e2 ▸ hn), e3, ih']

theorem visView_has {o o' : FL} (h : ∀ k, visView o k = visView o' k) (k : String) :
    has o k = has o' k := by
  have := h k
  unfold visView at this
  cases h1 : has o k <;> cases h2 : has o' k <;> simp_all

theorem visView_get {o o' : FL} (h : ∀ k, visView o k = visView o' k) {k : String}
    (hk : has o k = true) : getLazy o k = getLazy o' k := by
  have := h k
  have hk' : has o' k = true := by rw [← visView_has h k]; exact hk
  simpa [visView, hk, hk'] using this

theorem visView_fields {o o' : FL} (h : ∀ k, visView o k = visView o' k) :
    fieldsEx o false = fieldsEx o' false := by
  apply asc_unique (fieldsEx_asc _ _) (fieldsEx_asc _ _)
  intro k
  rw [mem_fieldsEx, mem_fieldsEx]
  simp [hasEx, visView_has h k]

theorem specKeyVal_eq (to pf : FL) (k : String) :
    specKeyVal to pf k =
      if has pf k then specVal to k (getLazy pf k) else some (getLazy to k) := by
  unfold specKeyVal
  cases hk : has pf k with
  | false => simp
  | true =>
    obtain ⟨v, hv⟩ := find?_of_has hk
    simp [lookup_mpVals, hv, getLazy_of_find? hv]


/-- `mergePatch(t[k] if t has k visibly else null, v)` with the target field forced first -/
def mergedField (tf : FL) (k : String) (v : V) : Option V :=
  match (if has tf k then force (getLazy tf k) else some V.null) with
  | none => none
  | some tv => Model.mergePatch tv v

theorem specVal_eq_mergedField (tf : FL) (k : String) (v : V) : specVal tf k v = mergedField tf k v := by
  unfold specVal mergedField
  split
  · rfl
  · rw [mergePatch_spec_V]

theorem model_obj_eq (t : V) (pf : FL) :
    Model.mergePatch t (.obj pf) =
      (specLoop (targetFields t) pf
        (unionS (fieldsEx (targetFields t) false) (fieldsEx pf false))).map V.obj := by
  rw [mergePatch_spec_V, spec_obj_eq]

theorem mergePatch_visible_only_aux (tf tf' pf pf' : FL) (ht : ∀ k, visView tf k = visView tf' k)
    (hp : ∀ k, visView pf k = visView pf' k) :
    Model.mergePatch (.obj tf) (.obj pf) = Model.mergePatch (.obj tf') (.obj pf') := by
  rw [model_obj_eq, model_obj_eq]
  simp only [targetFields]
  rw [visView_fields ht, visView_fields hp]
  congr 1
  have hE : ∀ k, isErrKey pf k = isErrKey pf' k := by
    intro k
    unfold isErrKey
    cases hk : has pf k with
    | false => simp [← visView_has hp k, hk]
    | true => simp [← visView_has hp k, hk, visView_get hp hk]
  have hN : ∀ k, isNullKey pf k = isNullKey pf' k := by
    intro k
    unfold isNullKey
    cases hk : has pf k with
    | false => simp [← visView_has hp k, hk]
    | true => simp [← visView_has hp k, hk, visView_get hp hk]
  apply specLoop_congr _ _ _ _ _ (fun k _ => hE k) (fun k _ => hN k)
  intro k hk
  rw [specKeyVal_eq, specKeyVal_eq, ← visView_has hp k]
  cases hpk : has pf k with
  | true =>
    simp only [↓reduceIte]
    rw [← visView_get hp hpk]
    unfold specVal
    rw [← visView_has ht k]
    cases htk : has tf k with
    | false => rfl
    | true => simp only [↓reduceIte]; rw [visView_get ht htk]
  | false =>
    simp only [Bool.false_eq_true, ↓reduceIte]
    have : has tf' k = true := by
      rcases mem_unionS.mp hk with h | h
      · simpa [hasEx] using mem_fieldsEx.mp h
      · have : has pf' k = true := by simpa [hasEx] using mem_fieldsEx.mp h
        rw [← visView_has hp k, hpk] at this; simp at this
    have htk : has tf k = true := by rw [visView_has ht k]; exact this
    rw [visView_get ht htk]

theorem mergePatch_find (t : V) (pf r : FL) (h : Model.mergePatch t (.obj pf) = some (.obj r))
    (k : String) :
    r.find? k =
      if has pf k then
        (if isNull (getLazy pf k) then none
         else (mergedField (targetFields t) k (getLazy pf k)).map (fun v => (false, v)))
      else if has (targetFields t) k then some (false, getLazy (targetFields t) k)
      else none := by
  rw [model_obj_eq] at h
  cases hs : specLoop (targetFields t) pf
      (unionS (fieldsEx (targetFields t) false) (fieldsEx pf false)) with
  | none => simp [hs] at h
  | some r' =>
    simp [hs] at h; subst h
    rw [specLoop_find hs k, specKeyVal_eq]
    have hm : k ∈ unionS (fieldsEx (targetFields t) false) (fieldsEx pf false) ↔
        (has (targetFields t) k = true ∨ has pf k = true) := by
      rw [mem_unionS, mem_fieldsEx, mem_fieldsEx]; simp [hasEx]
    simp only [hm, isNullKey]
    cases hp : has pf k <;> cases ht : has (targetFields t) k <;>
      cases hn : isNull (getLazy pf k) <;> simp [specVal_eq_mergedField]

theorem mergePatch_names (t : V) (pf r : FL) (h : Model.mergePatch t (.obj pf) = some (.obj r)) :
    Asc r.names := by
  rw [model_obj_eq] at h
  cases hs : specLoop (targetFields t) pf
      (unionS (fieldsEx (targetFields t) false) (fieldsEx pf false)) with
  | none => simp [hs] at h
  | some r' =>
    simp [hs] at h; subst h
    unfold specLoop at hs
    split at hs
    · simp at hs
    · rw [sequence_names hs]
      simp only [List.map_map]
      have : (Prod.fst ∘ fun k => (k, specKeyVal (targetFields t) pf k)) = id := rfl
      rw [this, List.map_id]
      exact (sortU_asc _).filter _

end JrsVerif.StdObj
