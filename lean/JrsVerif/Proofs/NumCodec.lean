/- C09 — the bit-level codec of the number model is faithful (core Lean only).

   `Model/Num.lean` represents a finite double by sign and magnitude in units of `2^-1074` (`D`).
   The driver decodes the harness' IEEE bit patterns with `decode` and answers with `encode`.
   These lemmas show that this representation loses nothing: every finite 64-bit pattern is
   recovered exactly by `encode ∘ decode`, so `decode` is injective on finite patterns (two
   different doubles are never one model value) and `encode` is exactly "is representable". -/
import JrsVerif.Proofs.Num

set_option exponentiation.threshold 4096

namespace JrsVerif.Num

/-- the three IEEE fields of a 64-bit pattern recompose it -/
theorem bits_split (b : Nat) (hb : b < 2 ^ 64) :
    b = (b / 2 ^ 63) * 2 ^ 63 + ((b / 2 ^ 52) % 2048) * 2 ^ 52 + b % 2 ^ 52 ∧ b / 2 ^ 63 < 2 := by
  omega

theorem sign_bits (b : Nat) (hb : b < 2 ^ 64) :
    (if (b / 2 ^ 63) % 2 = 1 then 2 ^ 63 else 0) = (b / 2 ^ 63) * 2 ^ 63 := by
  have h : b / 2 ^ 63 < 2 := by omega
  split <;> omega

/-- magnitude of a normal double: `(2^52 + f) · 2^(e-1)` has its top bit at `52 + (e-1)` -/
theorem log2_normal (f k : Nat) (hf : f < 2 ^ 52) : Nat.log2 ((2 ^ 52 + f) * 2 ^ k) = 52 + k := by
  have hk : 0 < 2 ^ k := Nat.two_pow_pos k
  have hne : (2 ^ 52 + f) * 2 ^ k ≠ 0 := by
    have : 0 < (2 ^ 52 + f) * 2 ^ k := Nat.mul_pos (by omega) hk
    omega
  rw [Nat.log2_eq_iff hne]
  constructor
  · rw [Nat.pow_add]
    exact Nat.mul_le_mul_right _ (by omega)
  · have : 2 ^ (52 + k + 1) = 2 ^ 53 * 2 ^ k := by
      rw [show 52 + k + 1 = 53 + k by omega, Nat.pow_add]
    rw [this]
    exact Nat.mul_lt_mul_of_pos_right (by omega) hk

/-- **round trip on bits**: every finite 64-bit pattern decodes to a model value that encodes back
    to exactly that pattern (sign of zero, subnormals and the largest finite double included) -/
theorem encode_decode (b : Nat) (hb : b < 2 ^ 64) (d : D) (h : decode b = some d) :
    encode d = some b := by
  obtain ⟨hsplit, hs⟩ := bits_split b hb
  have hsign := sign_bits b hb
  have hf : b % 2 ^ 52 < 2 ^ 52 := Nat.mod_lt _ (by decide)
  unfold decode at h
  simp only at h
  split at h
  · exact absurd h (by simp)
  · rename_i he
    injection h with h
    subst h
    by_cases h0 : (b / 2 ^ 52) % 2048 = 0
    · -- zero or subnormal
      simp only [h0, if_true]
      unfold encode
      simp only [hf, if_true, decide_eq_true_eq, hsign]
      congr 1; omega
    · -- normal
      simp only [h0, if_false]
      have hk : 0 < 2 ^ ((b / 2 ^ 52) % 2048 - 1) := Nat.two_pow_pos _
      have hbig : ¬ (2 ^ 52 + b % 2 ^ 52) * 2 ^ ((b / 2 ^ 52) % 2048 - 1) < 2 ^ 52 := by
        have : 2 ^ 52 * 1 ≤ (2 ^ 52 + b % 2 ^ 52) * 2 ^ ((b / 2 ^ 52) % 2048 - 1) :=
          Nat.mul_le_mul (by omega) hk
        omega
      unfold encode
      simp only [hbig, if_false, log2_normal _ _ hf, Nat.add_sub_cancel_left,
        Nat.mul_mod_left, ne_eq, not_true_eq_false, Nat.mul_div_cancel _ hk]
      have e1 : (b / 2 ^ 52) % 2048 - 1 + 1 = (b / 2 ^ 52) % 2048 := by omega
      have e2 : ¬ (b / 2 ^ 52) % 2048 ≥ 2047 := by omega
      simp only [e1, e2, if_false, decide_eq_true_eq, hsign]
      congr 1; omega

/-- `decode` is injective on finite 64-bit patterns: the model never identifies two doubles
    (in particular `+0` and `-0` stay distinct values with the same `val`) -/
theorem decode_injective (b₁ b₂ : Nat) (h₁ : b₁ < 2 ^ 64) (h₂ : b₂ < 2 ^ 64) (d : D)
    (e₁ : decode b₁ = some d) (e₂ : decode b₂ = some d) : b₁ = b₂ := by
  have a := encode_decode b₁ h₁ d e₁
  have b := encode_decode b₂ h₂ d e₂
  rw [a] at b
  exact Option.some.inj b

/-- only finite patterns decode -/
theorem finite_of_decode (b : Nat) (d : D) (h : decode b = some d) :
    isFiniteBits b = true := by
  unfold decode at h
  simp only at h
  split at h
  · exact absurd h (by simp)
  · rename_i he
    unfold isFiniteBits
    simpa using he


/-- a decoded magnitude is zero exactly for the two zero patterns -/
theorem mag_zero_iff (b : Nat) (hb : b < 2 ^ 64) (d : D) (h : decode b = some d) :
    d.mag = 0 ↔ isZeroBits b = true := by
  obtain ⟨hsplit, hs⟩ := bits_split b hb
  unfold decode at h
  simp only at h
  split at h
  · exact absurd h (by simp)
  · injection h with h
    subst h
    unfold isZeroBits
    simp only [beq_iff_eq]
    by_cases h0 : (b / 2 ^ 52) % 2048 = 0
    · simp only [h0, if_true]; omega
    · simp only [h0, if_false]
      have hk : 0 < 2 ^ ((b / 2 ^ 52) % 2048 - 1) := Nat.two_pow_pos _
      have : 0 < (2 ^ 52 + b % 2 ^ 52) * 2 ^ ((b / 2 ^ 52) % 2048 - 1) :=
        Nat.mul_pos (by omega) hk
      constructor
      · intro h; omega
      · intro h; omega

/-- **numeric equality on bits**: `==` on two finite doubles holds exactly when they are the same
    bit pattern or both are zeros (`+0 == -0`); no other two doubles compare equal -/
theorem opEq_iff_bits (b₁ b₂ : Nat) (h₁ : b₁ < 2 ^ 64) (h₂ : b₂ < 2 ^ 64) (d₁ d₂ : D)
    (e₁ : decode b₁ = some d₁) (e₂ : decode b₂ = some d₂) :
    opEq d₁ d₂ = true ↔ (b₁ = b₂ ∨ (isZeroBits b₁ = true ∧ isZeroBits b₂ = true)) := by
  rw [opEq_iff, ← mag_zero_iff b₁ h₁ d₁ e₁, ← mag_zero_iff b₂ h₂ d₂ e₂]
  constructor
  · intro hv
    by_cases hz : d₁.mag = 0
    · right
      refine ⟨hz, ?_⟩
      unfold D.val at hv; rw [hz] at hv
      split at hv <;> split at hv <;> omega
    · left
      have hd : d₁ = d₂ := by
        cases d₁ with | mk n₁ m₁ => cases d₂ with | mk n₂ m₂ =>
        simp only [D.val] at hv hz
        cases n₁ <;> cases n₂ <;> simp at hv <;> first | (congr 1 <;> omega) | omega
      subst hd
      exact decode_injective b₁ b₂ h₁ h₂ d₁ e₁ e₂
  · rintro (rfl | ⟨z₁, z₂⟩)
    · rw [e₁] at e₂; injection e₂ with e₂; rw [e₂]
    · unfold D.val; rw [z₁, z₂]; split <;> split <;> rfl

/-- non-vacuity: `1.0`, `-0.0`, the smallest subnormal and the largest finite double round-trip -/
example : (decode 0x3ff0000000000000).bind encode = some 0x3ff0000000000000 := by decide +kernel
example : (decode 0x8000000000000000).bind encode = some 0x8000000000000000 := by decide +kernel
example : (decode 1).bind encode = some 1 := by decide +kernel

end JrsVerif.Num
