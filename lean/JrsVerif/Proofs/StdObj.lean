/- C13 helper lemmas: sorted name lists, the object interface, per-entry outcome lookups. -/
import JrsVerif.Model.StdObj

namespace JrsVerif.StdObj

@[elab_as_elim] theorem FL.ind {P : FL → Prop} (nil : P .nil)
    (cons : ∀ n h v rest, P rest → P (.cons n h v rest)) : ∀ o, P o
  | .nil => nil
  | .cons n h v rest => cons n h v rest (FL.ind nil cons rest)

@[elab_as_elim] theorem VL.ind {P : VL → Prop} (nil : P .nil)
    (cons : ∀ v vs, P vs → P (.cons v vs)) : ∀ o, P o
  | .nil => nil
  | .cons v vs => cons v vs (VL.ind nil cons vs)

/-- strictly ascending -/
abbrev Asc (l : List String) : Prop := l.Pairwise (· < ·)

theorem str_trichotomy {a b : String} (h1 : ¬ a < b) (h2 : ¬ b < a) : a = b :=
  String.le_antisymm (String.not_lt.mp h2) (String.not_lt.mp h1)

/-! ### insertU / sortU -/

theorem mem_insertU {k x : String} {l : List String} : x ∈ insertU k l ↔ x = k ∨ x ∈ l := by
  induction l with
  | nil => simp [insertU]
  | cons y ys ih =>
    simp only [insertU]
    split
    · simp
    · split
      · subst_vars; simp
      · simp [ih]; constructor
        · rintro (h | h | h) <;> simp [h]
        · rintro (h | h | h) <;> simp [h]

theorem insertU_asc {k : String} {l : List String} (h : Asc l) : Asc (insertU k l) := by
  induction l with
  | nil => simp [insertU, Asc]
  | cons y ys ih =>
    simp only [insertU]
    have hy := List.pairwise_cons.mp h
    split
    · rename_i hk
      refine List.pairwise_cons.mpr ⟨?_, h⟩
      intro z hz
      rcases List.mem_cons.mp hz with rfl | hz
      · exact hk
      · exact String.lt_trans hk (hy.1 z hz)
    · split
      · exact h
      · rename_i h1 h2
        refine List.pairwise_cons.mpr ⟨?_, ih hy.2⟩
        intro z hz
        rcases mem_insertU.mp hz with rfl | hz
        · by_cases hlt : y < z
          · exact hlt
          · exact absurd (str_trichotomy h1 hlt) h2
        · exact hy.1 z hz


theorem sortU_cons (y : String) (ys : List String) : sortU (y :: ys) = insertU y (sortU ys) := rfl

theorem mem_sortU {x : String} {l : List String} : x ∈ sortU l ↔ x ∈ l := by
  induction l with
  | nil => simp [sortU]
  | cons y ys ih => rw [sortU_cons, mem_insertU, ih]; simp

theorem sortU_asc (l : List String) : Asc (sortU l) := by
  induction l with
  | nil => simp [sortU, Asc]
  | cons y ys ih => rw [sortU_cons]; exact insertU_asc ih

/-- a strictly ascending list is determined by its members -/
theorem asc_unique {a b : List String} (ha : Asc a) (hb : Asc b) (h : ∀ x, x ∈ a ↔ x ∈ b) :
    a = b := by
  induction a generalizing b with
  | nil =>
    cases b with
    | nil => rfl
    | cons y ys => exact absurd ((h y).mpr (by simp)) (by simp)
  | cons x xs ih =>
    cases b with
    | nil => exact absurd ((h x).mp (by simp)) (by simp)
    | cons y ys =>
      have hx := List.pairwise_cons.mp ha
      have hy := List.pairwise_cons.mp hb
      have hxy : x = y := by
        rcases List.mem_cons.mp ((h x).mp (by simp)) with e | hx'
        · exact e
        · rcases List.mem_cons.mp ((h y).mpr (by simp)) with e | hy'
          · exact e.symm
          · exact absurd (hx.1 y hy') (String.lt_asymm (hy.1 x hx'))
      subst hxy
      congr 1
      apply ih hx.2 hy.2
      intro z
      constructor
      · intro hz
        rcases List.mem_cons.mp ((h z).mp (List.mem_cons_of_mem _ hz)) with e | hz'
        · subst e; exact absurd (hx.1 z hz) (String.lt_irrefl z)
        · exact hz'
      · intro hz
        rcases List.mem_cons.mp ((h z).mpr (List.mem_cons_of_mem _ hz)) with e | hz'
        · subst e; exact absurd (hy.1 z hz) (String.lt_irrefl z)
        · exact hz'

/-! ### the object interface -/

theorem find?_some_mem_names {o : FL} {k : String} {p : Bool × V} (h : o.find? k = some p) :
    k ∈ o.names := by
  induction o using FL.ind with
  | nil => simp [FL.find?] at h
  | cons n hd v rest ih =>
    simp only [FL.find?] at h
    split at h
    · subst_vars; simp [FL.names]
    · simp [FL.names, ih h]

theorem hasEx_mem_names {o : FL} {k : String} {hid : Bool} (h : hasEx o k hid = true) :
    k ∈ o.names := by
  unfold hasEx hasAll has at h
  cases hf : o.find? k with
  | none => simp [hf] at h
  | some p => exact find?_some_mem_names hf

theorem mem_fieldsEx {o : FL} {hid : Bool} {k : String} :
    k ∈ fieldsEx o hid ↔ hasEx o k hid = true := by
  unfold fieldsEx
  rw [mem_sortU, List.mem_filter]
  constructor
  · exact fun h => h.2
  · exact fun h => ⟨hasEx_mem_names h, h⟩

theorem fieldsEx_asc (o : FL) (hid : Bool) : Asc (fieldsEx o hid) := sortU_asc _

theorem has_imp_hasAll {o : FL} {k : String} (h : has o k = true) : hasAll o k = true := by
  unfold has at h; unfold hasAll
  cases hf : o.find? k with
  | none => simp [hf] at h
  | some p => simp

theorem contains_fieldsEx {o : FL} {hid : Bool} {k : String} :
    (fieldsEx o hid).contains k = hasEx o k hid := by
  cases hh : hasEx o k hid with
  | true => exact List.contains_iff_mem.mpr (mem_fieldsEx.mpr hh)
  | false =>
    cases hc : (fieldsEx o hid).contains k with
    | false => rfl
    | true => rw [← hh]; exact (mem_fieldsEx.mp (List.contains_iff_mem.mp hc)).symm

theorem find?_erase_self (o : FL) (k : String) : (o.erase k).find? k = none := by
  induction o using FL.ind with
  | nil => rfl
  | cons n h v rest ih =>
    simp only [FL.erase]
    split
    · exact ih
    · rename_i hne; simp [FL.find?, hne, ih]

theorem find?_erase_ne (o : FL) {k k' : String} (hne : k' ≠ k) :
    (o.erase k).find? k' = o.find? k' := by
  induction o using FL.ind with
  | nil => rfl
  | cons n h v rest ih =>
    simp only [FL.erase]
    split
    · rename_i he; subst he
      have : ¬ n = k' := fun e => hne e.symm
      simp [FL.find?, this, ih]
    · simp only [FL.find?]; split
      · rfl
      · exact ih

theorem toList_ofList (l : List V) : (VL.ofList l).toList = l := by
  induction l with
  | nil => rfl
  | cons x xs ih => simp [VL.ofList, VL.toList, ih]

theorem length_eq_toList (xs : VL) : xs.length = xs.toList.length := by
  induction xs using VL.ind with
  | nil => rfl
  | cons x xs ih => simp [VL.length, VL.toList, ih]

end JrsVerif.StdObj
