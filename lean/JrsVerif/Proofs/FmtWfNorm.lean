/- C19 (round 3): the sugar normal form preserves the shape grammar (`norm_preserves_wellformed`). -/
import JrsVerif.Model.FmtWfS
import JrsVerif.Proofs.Fmt

namespace JrsVerif.Fmt

theorem normList_length : ∀ ts : List Tree, (normList ts).length = ts.length
  | [] => by simp only [normList]
  | t :: ts => by simp only [normList, List.length_cons, normList_length ts]

/-- the two rewrites map a tree of a category to a tree of the same category -/
theorem wfS_sugarHead (s : Srt) (t : Tree) (h : wfS s t = true) : wfS s (sugarHead t) = true := by
  rcases sugarHead_cases t with ⟨n, ps, body, rfl, e⟩ | ⟨nm, vis, ps, body, rfl, e⟩ | e
  · rw [e]
    cases s <;> simp_all [wfS, wfKids, prod, prodExpr]
  · rw [e]
    cases s <;> simp_all [wfS, wfKids, prod, prodExpr]
  · rw [e]; exact h

mutual
theorem wfS_norm : ∀ (t : Tree) (s : Srt), wfS s t = true → wfS s (norm t) = true
  | .atom a, s, h => by simpa only [norm] using h
  | .node l ks, s, h => by
    simp only [norm]
    apply wfS_sugarHead
    simp only [wfS, normList_length] at h ⊢
    cases hp : prod s l ks.length with
    | none => rw [hp] at h; exact absurd h (by simp)
    | some ss => rw [hp] at h; exact wfKids_normList ks ss h
theorem wfKids_normList : ∀ (ts : List Tree) (ss : List Srt),
    wfKids ss ts = true → wfKids ss (normList ts) = true
  | [], ss, h => by simpa only [normList] using h
  | t :: ts, [], h => by simp [wfKids] at h
  | t :: ts, s :: ss, h => by
    simp only [normList, wfKids, Bool.and_eq_true] at h ⊢
    exact ⟨wfS_norm t s h.1, wfKids_normList ts ss h.2⟩
end

end JrsVerif.Fmt
