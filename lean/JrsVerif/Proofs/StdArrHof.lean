/- C10 (round 3): the loops of arrays.rs / math.rs / sort.rs::array_top1 refine their reference
   definitions. -/
import JrsVerif.Model.StdArrHof
import JrsVerif.Proofs.StdArr

namespace JrsVerif.StdArr

section GenericHof
variable {α β κ : Type}

/-! ### evalAll -/

@[simp] theorem evalAll_map_some (vs : List α) : evalAll (vs.map some) = some vs := by
  induction vs with
  | nil => rfl
  | cons x r ih => simp [evalAll, ih]

theorem evalAll_eq_some {xs : List (Option α)} {vs : List α} (h : evalAll xs = some vs) :
    xs = vs.map some := by
  induction xs generalizing vs with
  | nil => simp [evalAll] at h; subst h; rfl
  | cons e r ih =>
    cases e with
    | none => simp [evalAll] at h
    | some x =>
      simp only [evalAll, Option.map_eq_some_iff] at h
      obtain ⟨w, hw, rfl⟩ := h
      simp [ih hw]

theorem evalAll_eq_none {xs : List (Option α)} (h : evalAll xs = none) : none ∈ xs := by
  induction xs with
  | nil => simp [evalAll] at h
  | cons e r ih =>
    cases e with
    | none => simp
    | some x =>
      simp only [evalAll, Option.map_eq_none_iff] at h
      simp [ih h]

theorem evalAll_of_mem_none {xs : List (Option α)} (h : none ∈ xs) : evalAll xs = none := by
  cases hx : evalAll xs with
  | none => rfl
  | some vs =>
    rw [evalAll_eq_some hx] at h
    simp at h

theorem evalAll_reverse (xs : List (Option α)) : evalAll xs.reverse = (evalAll xs).map List.reverse := by
  cases hx : evalAll xs with
  | none =>
    have := evalAll_eq_none hx
    simp [evalAll_of_mem_none (xs := xs.reverse) (by simpa using this)]
  | some vs =>
    have h2 : (List.map some vs).reverse = List.map some vs.reverse := by simp
    rw [evalAll_eq_some hx, h2, evalAll_map_some]; rfl

theorem evalAll_map_of_forall {γ : Type} (g : γ → Option α) (h : γ → α) (l : List γ)
    (hg : ∀ x ∈ l, g x = some (h x)) : evalAll (l.map g) = some (l.map h) := by
  induction l with
  | nil => rfl
  | cons x r ih =>
    have hx := hg x (by simp)
    have hr := ih (fun y hy => hg y (by simp [hy]))
    simp [evalAll, hx, hr]

/-! ### folds -/

theorem foldlLoop_eq (f : β → α → Option β) (acc : β) (xs : List (Option α)) :
    foldlLoop f acc xs = (evalAll xs).bind (foldlSpec f acc) := by
  induction xs generalizing acc with
  | nil => rfl
  | cons e r ih =>
    cases e with
    | none => rfl
    | some x =>
      simp only [foldlLoop, evalAll]
      cases hf : f acc x with
      | none => cases evalAll r <;> simp [foldlSpec, hf]
      | some a => dsimp only; rw [ih]; cases evalAll r <;> simp [foldlSpec, hf]

theorem foldrGo_eq_foldlLoop (f : α → β → Option β) (acc : β) (xs : List (Option α)) :
    foldrGo f acc xs = foldlLoop (fun b a => f a b) acc xs := by
  induction xs generalizing acc with
  | nil => rfl
  | cons e r ih =>
    cases e with
    | none => rfl
    | some x =>
      simp only [foldrGo, foldlLoop]
      cases f x acc with
      | none => rfl
      | some a => exact ih a

theorem foldlSpec_append (g : β → α → Option β) (acc : β) (a b : List α) :
    foldlSpec g acc (a ++ b) = (foldlSpec g acc a).bind (fun m => foldlSpec g m b) := by
  induction a generalizing acc with
  | nil => simp [foldlSpec]
  | cons x r ih =>
    simp only [List.cons_append, foldlSpec]
    cases g acc x with
    | none => rfl
    | some m => simpa using ih m

theorem foldlSpec_reverse (f : α → β → Option β) (init : β) (vs : List α) :
    foldlSpec (fun b a => f a b) init vs.reverse = foldrSpec f init vs := by
  induction vs with
  | nil => rfl
  | cons x r ih =>
    rw [List.reverse_cons, foldlSpec_append, ih]
    simp only [foldrSpec]
    cases foldrSpec f init r with
    | none => rfl
    | some m => cases h : f x m <;> simp [foldlSpec, h]

theorem foldrLoop_eq (f : α → β → Option β) (init : β) (xs : List (Option α)) :
    foldrLoop f init xs = (evalAll xs).bind (foldrSpec f init) := by
  unfold foldrLoop
  rw [foldrGo_eq_foldlLoop, foldlLoop_eq, evalAll_reverse]
  cases evalAll xs with
  | none => rfl
  | some vs => simpa using foldlSpec_reverse f init vs

/-! ### any / all / member -/

theorem anyLoop_eq (t : α → Option Bool) (xs : List (Option α)) : anyLoop t xs = anySpec t xs := by
  induction xs with
  | nil => rfl
  | cons e r ih =>
    cases e with
    | none => simp [anyLoop, anySpec, verdict]
    | some v =>
      simp only [anyLoop]
      cases hv : t v with
      | none => simp [anySpec, verdict, hv]
      | some b =>
        cases b with
        | true => simp [anySpec, verdict, hv]
        | false =>
          rw [ih]
          simp [anySpec, verdict, hv]

theorem allLoop_eq (t : α → Option Bool) (xs : List (Option α)) : allLoop t xs = allSpec t xs := by
  induction xs with
  | nil => rfl
  | cons e r ih =>
    cases e with
    | none => simp [allLoop, allSpec, verdict]
    | some v =>
      simp only [allLoop]
      cases hv : t v with
      | none => simp [allSpec, verdict, hv]
      | some b =>
        cases b with
        | false => simp [allSpec, verdict, hv]
        | true =>
          rw [ih]
          simp [allSpec, verdict, hv]

theorem memberLoop_eq_anyLoop (eq : α → α → Option Bool) (x : α) (xs : List (Option α)) :
    memberLoop eq x xs = anyLoop (fun y => eq y x) xs := by
  induction xs with
  | nil => rfl
  | cons e r ih =>
    cases e with
    | none => rfl
    | some v =>
      simp only [memberLoop, anyLoop]
      cases h : eq v x with
      | none => rfl
      | some b => cases b <;> simp [ih]

/-- elements after the deciding one are never looked at -/
theorem anyLoop_decided (t : α → Option Bool) (pre rest : List (Option α)) (d : Option α)
    (hpre : ∀ e ∈ pre, verdict t e = some false) (hd : verdict t d ≠ some false) :
    anyLoop t (pre ++ d :: rest) = if verdict t d = some true then some true else none := by
  induction pre with
  | nil =>
    cases d with
    | none => simp [anyLoop, verdict]
    | some v =>
      simp only [List.nil_append, anyLoop]
      cases hv : t v with
      | none => simp [verdict, hv]
      | some b =>
        cases b with
        | true => simp [verdict, hv]
        | false => simp [verdict, hv] at hd
  | cons e r ih =>
    have he := hpre e (by simp)
    cases e with
    | none => simp [verdict] at he
    | some v =>
      simp only [verdict, Option.bind_some] at he
      simp only [List.cons_append, anyLoop, he]
      exact ih (fun y hy => hpre y (by simp [hy]))

theorem allLoop_decided (t : α → Option Bool) (pre rest : List (Option α)) (d : Option α)
    (hpre : ∀ e ∈ pre, verdict t e = some true) (hd : verdict t d ≠ some true) :
    allLoop t (pre ++ d :: rest) = if verdict t d = some false then some false else none := by
  induction pre with
  | nil =>
    cases d with
    | none => simp [allLoop, verdict]
    | some v =>
      simp only [List.nil_append, allLoop]
      cases hv : t v with
      | none => simp [verdict, hv]
      | some b =>
        cases b with
        | false => simp [verdict, hv]
        | true => simp [verdict, hv] at hd
  | cons e r ih =>
    have he := hpre e (by simp)
    cases e with
    | none => simp [verdict] at he
    | some v =>
      simp only [verdict, Option.bind_some] at he
      simp only [List.cons_append, allLoop, he]
      exact ih (fun y hy => hpre y (by simp [hy]))

theorem anyLoop_false_iff (t : α → Option Bool) (xs : List (Option α)) :
    anyLoop t xs = some false ↔ ∀ e ∈ xs, verdict t e = some false := by
  induction xs with
  | nil => simp [anyLoop]
  | cons e r ih =>
    cases e with
    | none => simp [anyLoop, verdict]
    | some v =>
      simp only [anyLoop]
      cases hv : t v with
      | none => simp [verdict, hv]
      | some b => cases b <;> simp [verdict, hv, ih]

theorem allLoop_true_iff (t : α → Option Bool) (xs : List (Option α)) :
    allLoop t xs = some true ↔ ∀ e ∈ xs, verdict t e = some true := by
  induction xs with
  | nil => simp [allLoop]
  | cons e r ih =>
    cases e with
    | none => simp [allLoop, verdict]
    | some v =>
      simp only [allLoop]
      cases hv : t v with
      | none => simp [verdict, hv]
      | some b => cases b <;> simp [verdict, hv, ih]

/-! ### find / count -/

theorem idxTrue_cons (b : Bool) (bs : List Bool) (i : Nat) :
    idxTrue (b :: bs) i = (if b then [i] else []) ++ idxTrue bs (i + 1) := by
  cases b <;> simp [idxTrue, List.zipIdx_cons]

theorem findLoop_eq (t : α → Option Bool) (i : Nat) (out : List Nat) (xs : List (Option α)) :
    findLoop t i out xs = (verdicts t xs).map (fun bs => out ++ idxTrue bs i) := by
  induction xs generalizing i out with
  | nil => simp [findLoop, verdicts, evalAll, idxTrue]
  | cons e r ih =>
    cases e with
    | none => simp [findLoop, verdicts, evalAll]
    | some y =>
      simp only [findLoop]
      cases hy : t y with
      | none =>
        simp only [verdicts, evalAll]
        cases evalAll r <;> simp [evalAll, hy]
      | some b =>
        dsimp only
        rw [ih]
        simp only [verdicts, evalAll]
        cases evalAll r with
        | none => simp
        | some vs =>
          simp only [Option.map_some, Option.bind_some, List.map_cons, evalAll, hy]
          cases evalAll (vs.map t) with
          | none => simp
          | some bs => cases b <;> simp [idxTrue_cons]

theorem countLoop_eq (t : α → Option Bool) (n : Nat) (xs : List (Option α)) :
    countLoop t n xs = (verdicts t xs).map (fun bs => n + bs.count true) := by
  induction xs generalizing n with
  | nil => simp [countLoop, verdicts, evalAll]
  | cons e r ih =>
    cases e with
    | none => simp [countLoop, verdicts, evalAll]
    | some y =>
      simp only [countLoop]
      cases hy : t y with
      | none =>
        simp only [verdicts, evalAll]
        cases evalAll r <;> simp [evalAll, hy]
      | some b =>
        dsimp only
        rw [ih]
        simp only [verdicts, evalAll]
        cases evalAll r with
        | none => simp
        | some vs =>
          simp only [Option.map_some, Option.bind_some, List.map_cons, evalAll, hy]
          cases evalAll (vs.map t) with
          | none => simp
          | some bs => cases b <;> simp <;> omega

/-! ### filter -/

theorem filterLazy_eq (p : Option α → Option Bool) (out xs : List (Option α)) :
    filterLazy p out xs = (filterSpec p xs).map (out ++ ·) := by
  induction xs generalizing out with
  | nil => simp [filterLazy, filterSpec]
  | cons e r ih =>
    simp only [filterLazy, filterSpec]
    cases hp : p e with
    | none => simp
    | some b =>
      dsimp only
      rw [ih]
      cases filterSpec p r with
      | none => cases b <;> simp
      | some ys => cases b <;> simp

theorem filterEager_none (p : Option α → Option Bool) (out : List α) (xs : List (Option α))
    (h : filterEager p out xs = none) : filterSpec p xs = none := by
  induction xs generalizing out with
  | nil => simp [filterEager] at h
  | cons e r ih =>
    cases e with
    | none => simp [filterEager] at h
    | some x =>
      simp only [filterEager] at h
      simp only [filterSpec]
      cases hp : p (some x) with
      | none => simp
      | some b =>
        rw [hp] at h
        rw [ih _ h]
        cases b <;> simp

theorem filterEager_done (p : Option α → Option Bool) (out o : List α) (xs : List (Option α))
    (h : filterEager p out xs = some (some o)) :
    (filterSpec p xs).map (out.map some ++ ·) = some (o.map some) := by
  induction xs generalizing out with
  | nil => simp [filterEager] at h; subst h; simp [filterSpec]
  | cons e r ih =>
    cases e with
    | none => simp [filterEager] at h
    | some x =>
      simp only [filterEager] at h
      simp only [filterSpec]
      cases hp : p (some x) with
      | none => rw [hp] at h; simp at h
      | some b =>
        rw [hp] at h
        have := ih _ h
        cases hs : filterSpec p r with
        | none => rw [hs] at this; simp at this
        | some ys =>
          rw [hs] at this
          cases b <;> simpa using this

theorem filterM_eq (p : Option α → Option Bool) (xs : List (Option α)) :
    filterM p xs = filterSpec p xs := by
  unfold filterM
  cases h : filterEager p [] xs with
  | none => simp [filterEager_none p [] xs h]
  | some o =>
    cases o with
    | none => simpa using filterLazy_eq p [] xs
    | some out =>
      have := filterEager_done p [] out xs h
      cases hs : filterSpec p xs with
      | none => rw [hs] at this; simp at this
      | some ys => rw [hs] at this; simpa using this.symm

theorem mapIdxLoop_eq (f : Nat → Option α → Option β) (i : Nat) (xs : List (Option α))
    (h : i + xs.length ≤ 2 ^ 32) :
    mapIdxLoop f i xs = (xs.zipIdx i).map (fun p => f p.2 p.1) := by
  induction xs generalizing i with
  | nil => rfl
  | cons e r ih =>
    simp only [List.length_cons] at h
    simp only [mapIdxLoop, List.zipIdx_cons, List.map_cons]
    rw [ih (i + 1) (by omega), Nat.mod_eq_of_lt (by omega)]

/-! ### flatMap -/

theorem flatMapLoop_eq (f : α → Option (Option (List β))) (out : List β) (xs : List (Option α)) :
    flatMapLoop f out xs = (flatMapSpec f xs).map (out ++ ·) := by
  induction xs generalizing out with
  | nil => simp [flatMapLoop, flatMapSpec, evalAll]
  | cons e r ih =>
    cases e with
    | none => simp [flatMapLoop, flatMapSpec, evalAll]
    | some x =>
      simp only [flatMapLoop, flatMapSpec, evalAll]
      cases hf : f x with
      | none => cases evalAll r <;> simp [evalAll, hf]
      | some o =>
        cases o with
        | none =>
          dsimp only
          rw [ih]
          simp only [flatMapSpec]
          cases evalAll r with
          | none => simp
          | some vs =>
            simp only [Option.bind_some, Option.map_some, List.map_cons, evalAll, hf]
            cases evalAll (vs.map f) <;> simp
        | some ys =>
          dsimp only
          rw [ih]
          simp only [flatMapSpec]
          cases evalAll r with
          | none => simp
          | some vs =>
            simp only [Option.bind_some, Option.map_some, List.map_cons, evalAll, hf]
            cases evalAll (vs.map f) <;> simp

end GenericHof

end JrsVerif.StdArr
