/- C10 (round 3): the loops of arrays.rs / math.rs / sort.rs::array_top1 refine their reference
   definitions. -/
import JrsVerif.Model.StdArrHof
import JrsVerif.Proofs.StdArr

namespace JrsVerif.StdArr

section GenericHof
variable {α β κ : Type}

/-! ### evalAll -/

@[simp] theorem evalAll_map_some (vs : List α) : evalAll (vs.map some) = some vs := by
  induction vs with
  | nil => rfl
  | cons x r ih => simp [evalAll, ih]

theorem evalAll_eq_some {xs : List (Option α)} {vs : List α} (h : evalAll xs = some vs) :
    xs = vs.map some := by
  induction xs generalizing vs with
  | nil => simp [evalAll] at h; subst h; rfl
  | cons e r ih =>
    cases e with
    | none => simp [evalAll] at h
    | some x =>
      simp only [evalAll, Option.map_eq_some_iff] at h
      obtain ⟨w, hw, rfl⟩ := h
      simp [ih hw]

theorem evalAll_eq_none {xs : List (Option α)} (h : evalAll xs = none) : none ∈ xs := by
  induction xs with
  | nil => simp [evalAll] at h
  | cons e r ih =>
    cases e with
    | none => simp
    | some x =>
      simp only [evalAll, Option.map_eq_none_iff] at h
      simp [ih h]

theorem evalAll_of_mem_none {xs : List (Option α)} (h : none ∈ xs) : evalAll xs = none := by
  cases hx : evalAll xs with
  | none => rfl
  | some vs =>
    rw [evalAll_eq_some hx] at h
    simp at h

theorem evalAll_reverse (xs : List (Option α)) : evalAll xs.reverse = (evalAll xs).map List.reverse := by
  cases hx : evalAll xs with
  | none =>
    have := evalAll_eq_none hx
    simp [evalAll_of_mem_none (xs := xs.reverse) (by simpa using this)]
  | some vs =>
    have h2 : (List.map some vs).reverse = List.map some vs.reverse := by simp
    rw [evalAll_eq_some hx, h2, evalAll_map_some]; rfl

theorem evalAll_map_of_forall {γ : Type} (g : γ → Option α) (h : γ → α) (l : List γ)
    (hg : ∀ x ∈ l, g x = some (h x)) : evalAll (l.map g) = some (l.map h) := by
  induction l with
  | nil => rfl
  | cons x r ih =>
    have hx := hg x (by simp)
    have hr := ih (fun y hy => hg y (by simp [hy]))
    simp [evalAll, hx, hr]

theorem evalAll_map_bind {γ : Type} (f : α → Option γ) (xs : List (Option α)) :
    evalAll (xs.map (fun e => e.bind f)) = (evalAll xs).bind (fun vs => evalAll (vs.map f)) := by
  induction xs with
  | nil => rfl
  | cons e r ih =>
    cases e with
    | none => rfl
    | some x =>
      simp only [List.map_cons, Option.bind_some, evalAll]
      cases hf : f x with
      | none => cases evalAll r <;> simp [evalAll, hf]
      | some y =>
        simp only [evalAll, ih]
        cases evalAll r <;> simp [evalAll, hf]

/-! ### folds -/

theorem foldl_foldStep_none (f : Option β → Option α → Option β) (xs : List (Option α)) :
    xs.foldl (foldStep f) none = none := by
  induction xs with
  | nil => rfl
  | cons e r ih => rw [List.foldl_cons]; exact ih

theorem foldlLoop_eq (f : Option β → Option α → Option β) (acc : Option β) (xs : List (Option α)) :
    foldlLoop f acc xs = foldlSpec f acc xs := by
  unfold foldlSpec
  induction xs generalizing acc with
  | nil => rfl
  | cons e r ih =>
    rw [List.foldl_cons]
    have hs : foldStep f (some acc) e = (f acc e).map some := rfl
    rw [hs]
    simp only [foldlLoop]
    cases hf : f acc e with
    | none => simp [foldl_foldStep_none]
    | some a => simpa using ih (some a)

theorem foldrGo_eq_foldlLoop (f : Option α → Option β → Option β) (acc : Option β) (xs : List (Option α)) :
    foldrGo f acc xs = foldlLoop (fun b a => f a b) acc xs := by
  induction xs generalizing acc with
  | nil => rfl
  | cons e r ih =>
    simp only [foldrGo, foldlLoop]
    cases f e acc with
    | none => rfl
    | some a => exact ih (some a)

theorem foldrLoop_eq (f : Option α → Option β → Option β) (init : Option β) (xs : List (Option α)) :
    foldrLoop f init xs = foldrSpec f init xs := by
  unfold foldrLoop foldrSpec
  rw [foldrGo_eq_foldlLoop, foldlLoop_eq]
  unfold foldlSpec
  rw [List.foldl_reverse]

/-- a strict callback: the loop is the round-3 statement "every element is evaluated, then the
    plain left fold" -/
theorem foldlLoop_strict (g : β → α → Option β) (init : β) (xs : List (Option α)) :
    foldlLoop (strict2 g) (some init) xs = (evalAll xs).bind (foldlStrict g init) := by
  induction xs generalizing init with
  | nil => rfl
  | cons e r ih =>
    cases e with
    | none => rfl
    | some x =>
      simp only [foldlLoop, strict2, Option.bind_some, evalAll]
      cases hf : g init x with
      | none => cases evalAll r <;> simp [foldlStrict, hf]
      | some a => dsimp only; rw [ih]; cases evalAll r <;> simp [foldlStrict, hf]

theorem foldlStrict_append (g : β → α → Option β) (acc : β) (a b : List α) :
    foldlStrict g acc (a ++ b) = (foldlStrict g acc a).bind (fun m => foldlStrict g m b) := by
  induction a generalizing acc with
  | nil => simp [foldlStrict]
  | cons x r ih =>
    simp only [List.cons_append, foldlStrict]
    cases g acc x with
    | none => rfl
    | some m => simpa using ih m

theorem foldlStrict_reverse (f : α → β → Option β) (init : β) (vs : List α) :
    foldlStrict (fun b a => f a b) init vs.reverse = foldrStrict f init vs := by
  induction vs with
  | nil => rfl
  | cons x r ih =>
    rw [List.reverse_cons, foldlStrict_append, ih]
    simp only [foldrStrict]
    cases foldrStrict f init r with
    | none => rfl
    | some m => cases h : f x m <;> simp [foldlStrict, h]

theorem foldrLoop_strict (g : α → β → Option β) (init : β) (xs : List (Option α)) :
    foldrLoop (strict2r g) (some init) xs = (evalAll xs).bind (foldrStrict g init) := by
  unfold foldrLoop
  rw [foldrGo_eq_foldlLoop]
  have hflip : (fun (b : Option β) (a : Option α) => strict2r g a b) = strict2 (fun b a => g a b) := rfl
  rw [hflip, foldlLoop_strict, evalAll_reverse]
  cases evalAll xs with
  | none => rfl
  | some vs => simpa using foldlStrict_reverse g init vs

/-! ### any / all / member -/

theorem anyLoop_eq (t : α → Option Bool) (xs : List (Option α)) : anyLoop t xs = anySpec t xs := by
  induction xs with
  | nil => rfl
  | cons e r ih =>
    cases e with
    | none => simp [anyLoop, anySpec, verdict]
    | some v =>
      simp only [anyLoop]
      cases hv : t v with
      | none => simp [anySpec, verdict, hv]
      | some b =>
        cases b with
        | true => simp [anySpec, verdict, hv]
        | false =>
          rw [ih]
          simp [anySpec, verdict, hv]

theorem allLoop_eq (t : α → Option Bool) (xs : List (Option α)) : allLoop t xs = allSpec t xs := by
  induction xs with
  | nil => rfl
  | cons e r ih =>
    cases e with
    | none => simp [allLoop, allSpec, verdict]
    | some v =>
      simp only [allLoop]
      cases hv : t v with
      | none => simp [allSpec, verdict, hv]
      | some b =>
        cases b with
        | false => simp [allSpec, verdict, hv]
        | true =>
          rw [ih]
          simp [allSpec, verdict, hv]

theorem memberLoop_eq_anyLoop (eq : α → α → Option Bool) (x : α) (xs : List (Option α)) :
    memberLoop eq x xs = anyLoop (fun y => eq y x) xs := by
  induction xs with
  | nil => rfl
  | cons e r ih =>
    cases e with
    | none => rfl
    | some v =>
      simp only [memberLoop, anyLoop]
      cases h : eq v x with
      | none => rfl
      | some b => cases b <;> simp [ih]

/-- elements after the deciding one are never looked at -/
theorem anyLoop_decided (t : α → Option Bool) (pre rest : List (Option α)) (d : Option α)
    (hpre : ∀ e ∈ pre, verdict t e = some false) (hd : verdict t d ≠ some false) :
    anyLoop t (pre ++ d :: rest) = if verdict t d = some true then some true else none := by
  induction pre with
  | nil =>
    cases d with
    | none => simp [anyLoop, verdict]
    | some v =>
      simp only [List.nil_append, anyLoop]
      cases hv : t v with
      | none => simp [verdict, hv]
      | some b =>
        cases b with
        | true => simp [verdict, hv]
        | false => simp [verdict, hv] at hd
  | cons e r ih =>
    have he := hpre e (by simp)
    cases e with
    | none => simp [verdict] at he
    | some v =>
      simp only [verdict, Option.bind_some] at he
      simp only [List.cons_append, anyLoop, he]
      exact ih (fun y hy => hpre y (by simp [hy]))

theorem allLoop_decided (t : α → Option Bool) (pre rest : List (Option α)) (d : Option α)
    (hpre : ∀ e ∈ pre, verdict t e = some true) (hd : verdict t d ≠ some true) :
    allLoop t (pre ++ d :: rest) = if verdict t d = some false then some false else none := by
  induction pre with
  | nil =>
    cases d with
    | none => simp [allLoop, verdict]
    | some v =>
      simp only [List.nil_append, allLoop]
      cases hv : t v with
      | none => simp [verdict, hv]
      | some b =>
        cases b with
        | false => simp [verdict, hv]
        | true => simp [verdict, hv] at hd
  | cons e r ih =>
    have he := hpre e (by simp)
    cases e with
    | none => simp [verdict] at he
    | some v =>
      simp only [verdict, Option.bind_some] at he
      simp only [List.cons_append, allLoop, he]
      exact ih (fun y hy => hpre y (by simp [hy]))

theorem anyLoop_false_iff (t : α → Option Bool) (xs : List (Option α)) :
    anyLoop t xs = some false ↔ ∀ e ∈ xs, verdict t e = some false := by
  induction xs with
  | nil => simp [anyLoop]
  | cons e r ih =>
    cases e with
    | none => simp [anyLoop, verdict]
    | some v =>
      simp only [anyLoop]
      cases hv : t v with
      | none => simp [verdict, hv]
      | some b => cases b <;> simp [verdict, hv, ih]

theorem allLoop_true_iff (t : α → Option Bool) (xs : List (Option α)) :
    allLoop t xs = some true ↔ ∀ e ∈ xs, verdict t e = some true := by
  induction xs with
  | nil => simp [allLoop]
  | cons e r ih =>
    cases e with
    | none => simp [allLoop, verdict]
    | some v =>
      simp only [allLoop]
      cases hv : t v with
      | none => simp [verdict, hv]
      | some b => cases b <;> simp [verdict, hv, ih]

/-! ### find / count -/

theorem idxTrue_cons (b : Bool) (bs : List Bool) (i : Nat) :
    idxTrue (b :: bs) i = (if b then [i] else []) ++ idxTrue bs (i + 1) := by
  cases b <;> simp [idxTrue, List.zipIdx_cons]

theorem findLoop_eq (t : α → Option Bool) (i : Nat) (out : List Nat) (xs : List (Option α)) :
    findLoop t i out xs = (verdicts t xs).map (fun bs => out ++ idxTrue bs i) := by
  induction xs generalizing i out with
  | nil => simp [findLoop, verdicts, evalAll, idxTrue]
  | cons e r ih =>
    cases e with
    | none => simp [findLoop, verdicts, evalAll]
    | some y =>
      simp only [findLoop]
      cases hy : t y with
      | none =>
        simp only [verdicts, evalAll]
        cases evalAll r <;> simp [evalAll, hy]
      | some b =>
        dsimp only
        rw [ih]
        simp only [verdicts, evalAll]
        cases evalAll r with
        | none => simp
        | some vs =>
          simp only [Option.map_some, Option.bind_some, List.map_cons, evalAll, hy]
          cases evalAll (vs.map t) with
          | none => simp
          | some bs => cases b <;> simp [idxTrue_cons]

theorem countLoop_eq (t : α → Option Bool) (n : Nat) (xs : List (Option α)) :
    countLoop t n xs = (verdicts t xs).map (fun bs => n + bs.count true) := by
  induction xs generalizing n with
  | nil => simp [countLoop, verdicts, evalAll]
  | cons e r ih =>
    cases e with
    | none => simp [countLoop, verdicts, evalAll]
    | some y =>
      simp only [countLoop]
      cases hy : t y with
      | none =>
        simp only [verdicts, evalAll]
        cases evalAll r <;> simp [evalAll, hy]
      | some b =>
        dsimp only
        rw [ih]
        simp only [verdicts, evalAll]
        cases evalAll r with
        | none => simp
        | some vs =>
          simp only [Option.map_some, Option.bind_some, List.map_cons, evalAll, hy]
          cases evalAll (vs.map t) with
          | none => simp
          | some bs => cases b <;> simp <;> omega

/-! ### filter -/

theorem filterLazy_eq (p : Option α → Option Bool) (out xs : List (Option α)) :
    filterLazy p out xs = (filterSpec p xs).map (out ++ ·) := by
  induction xs generalizing out with
  | nil => simp [filterLazy, filterSpec]
  | cons e r ih =>
    simp only [filterLazy, filterSpec]
    cases hp : p e with
    | none => simp
    | some b =>
      dsimp only
      rw [ih]
      cases filterSpec p r with
      | none => cases b <;> simp
      | some ys => cases b <;> simp

theorem filterCheap_eq (p : Option α → Option Bool) (out vs : List α) :
    (filterCheap p out vs).map (fun o => o.map some) =
      (filterSpec p (vs.map some)).map (out.map some ++ ·) := by
  induction vs generalizing out with
  | nil => simp [filterCheap, filterSpec]
  | cons x r ih =>
    simp only [filterCheap, List.map_cons, filterSpec]
    cases hp : p (some x) with
    | none => simp
    | some b =>
      dsimp only
      rw [ih]
      cases filterSpec p (r.map some) with
      | none => cases b <;> simp
      | some ys => cases b <;> simp

theorem filterM_eq (p : Option α → Option Bool) (cheap : Bool) (xs : List (Option α)) :
    filterM p cheap xs = filterSpec p xs := by
  unfold filterM
  have hlazy : filterLazy p [] xs = filterSpec p xs := by simpa using filterLazy_eq p [] xs
  cases cheap with
  | false => simpa using hlazy
  | true =>
    simp only [if_true]
    cases hx : evalAll xs with
    | none => simpa using hlazy
    | some vs =>
      dsimp only
      rw [filterCheap_eq, evalAll_eq_some hx]
      cases filterSpec p (vs.map some) <;> simp

theorem mapIdxLoop_eq (f : Nat → Option α → Option β) (i : Nat) (xs : List (Option α))
    (h : i + xs.length ≤ 2 ^ 32) :
    mapIdxLoop f i xs = (xs.zipIdx i).map (fun p => f p.2 p.1) := by
  induction xs generalizing i with
  | nil => rfl
  | cons e r ih =>
    simp only [List.length_cons] at h
    simp only [mapIdxLoop, List.zipIdx_cons, List.map_cons]
    rw [ih (i + 1) (by omega), Nat.mod_eq_of_lt (by omega)]

/-! ### flatMap -/

theorem flatMapLoop_eq (f : Option α → Option (Option (List β))) (out : List β) (xs : List (Option α)) :
    flatMapLoop f out xs = (flatMapSpec f xs).map (out ++ ·) := by
  induction xs generalizing out with
  | nil => simp [flatMapLoop, flatMapSpec, evalAll]
  | cons e r ih =>
    simp only [flatMapLoop, flatMapSpec, List.map_cons]
    cases hf : f e with
    | none => simp [evalAll]
    | some o =>
      cases o with
      | none =>
        dsimp only
        rw [ih]
        simp only [flatMapSpec, evalAll]
        cases evalAll (r.map f) <;> simp
      | some ys =>
        dsimp only
        rw [ih]
        simp only [flatMapSpec, evalAll]
        cases evalAll (r.map f) <;> simp

theorem flatMapSpec_strict (f : α → Option (Option (List β))) (xs : List (Option α)) :
    flatMapSpec (fun e => e.bind f) xs = flatMapStrict f xs := by
  unfold flatMapSpec flatMapStrict
  rw [evalAll_map_bind]
  cases evalAll xs <;> rfl

end GenericHof

end JrsVerif.StdArr
