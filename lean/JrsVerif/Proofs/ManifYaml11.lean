/- C14 — `bare_safe` against the YAML 1.1 implicit resolvers.

   `Model/Manif.lean`      bareSafe       the if / else-if chain of jrsonnet's `bare_safe`
   `Model/ManifYaml11.lean` isBool … isValue, resolvesToString, plainSyntaxOk   the reference

   For every alternative of every resolver expression: a string it matches is sent to `false` by
   one of `bare_safe`'s branches.  Alternatives that force a `:` `+` `~` `<` `=` or a blank fall
   to the first branch (character outside the safe class); the word alternatives are finite tables;
   for the others every character lies in the class of the branch and the counts of `-`, `e`/`E`
   and `.` are bounded by the shape of the expression.

   main result            bareSafe_sound
   type-repository extras bareSafe_unsound_floatRepo (counterexample `1.2.3`), bareSafe_floatRepo_gap,
                          bareSafe_sound_repo -/
import JrsVerif.Model.Manif
import JrsVerif.Model.ManifSpec
import JrsVerif.Model.ManifYaml11
import JrsVerif.Proofs.Manif

namespace JrsVerif.ManifYaml11Proofs
open JrsVerif.Manif JrsVerif.ManifSpec JrsVerif.Generated.Manif JrsVerif.ManifProofs JrsVerif.ManifYaml11

/-! ### counting -/

theorem count_nil (c : Char) : count [] c = 0 := rfl
theorem count_cons (x : Char) (l : List Char) (c : Char) :
    count (x :: l) c = (if x = c then 1 else 0) + count l c := by
  by_cases h : x = c <;> simp [count, h] <;> omega
theorem count_append (a b : List Char) (c : Char) : count (a ++ b) c = count a c + count b c := by
  simp [count, List.filter_append]
theorem count_zero (p : Char → Bool) (l : List Char) (c : Char) (hl : l.all p = true) (hc : p c = false) :
    count l c = 0 := by
  simp only [count, List.length_eq_zero_iff, List.filter_eq_nil_iff]
  intro x hx
  have := (List.all_eq_true.mp hl) x hx
  simp
  rintro rfl
  simp [hc] at this

/-- `count_char_u(k, 'e')` -/
def countE (l : List Char) : Nat := (l.filter (fun v => v == 'e' || v == 'E')).length
theorem countU_e (l : List Char) : countU l 'e' = countE l := rfl
theorem countE_cons (x : Char) (l : List Char) :
    countE (x :: l) = (if x = 'e' ∨ x = 'E' then 1 else 0) + countE l := by
  by_cases h : x = 'e' ∨ x = 'E'
  · rcases h with h | h <;> simp [countE, h] <;> omega
  · have h' := h
    simp only [not_or] at h'
    simp [countE, h'.1, h'.2]
theorem countE_append (a b : List Char) : countE (a ++ b) = countE a + countE b := by
  simp [countE, List.filter_append]
theorem countE_zero (p : Char → Bool) (l : List Char) (hl : l.all p = true) (h1 : p 'e' = false) (h2 : p 'E' = false) :
    countE l = 0 := by
  simp only [countE, List.length_eq_zero_iff, List.filter_eq_nil_iff]
  intro x hx
  have := (List.all_eq_true.mp hl) x hx
  simp
  constructor <;> rintro rfl <;> simp_all

theorem all_imp {p q : Char → Bool} (hpq : ∀ c, p c = true → q c = true) (l : List Char) (h : l.all p = true) :
    l.all q = true := by
  simp only [List.all_eq_true] at h ⊢
  exact fun c hc => hpq c (h c hc)

/-! ### `utf8Len` on ASCII -/

theorem utf8Len_ascii (l : List Char) (h : ∀ c ∈ l, c.toNat < 128) : utf8Len l = l.length := by
  induction l with
  | nil => rfl
  | cons x xs ih =>
    have hx := h x (by simp)
    have := ih (fun c hc => h c (by simp [hc]))
    simp [utf8Len] at this ⊢
    simp [hx, this]
    omega

theorem sw1 (r : List Char) : startsWith ('0' :: 'b' :: r) ['0', 'b'] = true := by rfl
theorem sw2 (r : List Char) : startsWith ('-' :: '0' :: 'b' :: r) ['-', '0', 'b'] = true := by rfl
theorem sw3 (r : List Char) : startsWith ('0' :: 'x' :: r) ['0', 'x'] = true := by rfl
theorem sw4 (r : List Char) : startsWith ('-' :: '0' :: 'x' :: r) ['-', '0', 'x'] = true := by rfl

/-! ### the branches of `bare_safe`, one lemma each -/

theorem bs_outside (s : List Char) (c : Char) (hc : c ∈ s) (hu : inRanges YAML_CLASS_SAFE c = false) :
    bareSafe s = false := by
  have : s.all (inRanges YAML_CLASS_SAFE) = false := by
    rw [List.all_eq_false]
    exact ⟨c, hc, by simp [hu]⟩
  unfold bareSafe
  simp [this]

theorem bs_date (s : List Char) (h1 : s.all (inRanges YAML_CLASS_DATE) = true) (h2 : count s '-' = 2) :
    bareSafe s = false := by
  unfold bareSafe
  simp [h1, h2]

theorem bs_int (s : List Char) (h1 : s.all (inRanges YAML_CLASS_INT) = true) (h2 : count s '-' < 2) :
    bareSafe s = false := by
  unfold bareSafe
  simp [h1, h2]

theorem bin_ascii (c : Char) (h : inRanges YAML_CLASS_BIN c = true) : c.toNat < 128 := by
  simp [inRanges, YAML_CLASS_BIN] at h
  omega

theorem hex_ascii (c : Char) (h : inRanges YAML_CLASS_HEX c = true) : c.toNat < 128 := by
  simp [inRanges, YAML_CLASS_HEX] at h
  omega

theorem bs_bin (s : List Char) (h1 : s.all (inRanges YAML_CLASS_BIN) = true)
    (h2 : startsWith s ['0', 'b'] = true ∨ startsWith s ['-', '0', 'b'] = true) (h3 : 2 < s.length) :
    bareSafe s = false := by
  have hl : utf8Len s = s.length :=
    utf8Len_ascii s (fun c hc => bin_ascii c ((List.all_eq_true.mp h1) c hc))
  unfold bareSafe
  rcases h2 with h2 | h2 <;> simp [h1, h2, hl, h3]

theorem bs_float (s : List Char) (h1 : s.all (inRanges YAML_CLASS_FLOAT) = true)
    (h2 : countE s < 2) (h3 : count s '-' < 3) (h4 : count s '.' ≤ 1) : bareSafe s = false := by
  unfold bareSafe
  simp [h1, countU_e, h2, h3, h4]

theorem bs_hex (s : List Char) (h1 : s.all (inRanges YAML_CLASS_HEX) = true) (h2 : 3 ≤ s.length)
    (h3 : count s '-' < 2)
    (h4 : startsWith s ['-', '0', 'x'] = true ∨ startsWith s ['0', 'x'] = true) : bareSafe s = false := by
  have hl : utf8Len s = s.length :=
    utf8Len_ascii s (fun c hc => hex_ascii c ((List.all_eq_true.mp h1) c hc))
  unfold bareSafe
  rcases h4 with h4 | h4 <;> simp [h1, h2, hl, h3, h4]

/-! ### the reference's character classes inside `bare_safe`'s -/

theorem digit_date (c : Char) (h : isDigit c = true) : inRanges YAML_CLASS_DATE c = true := by
  simp [isDigit] at h
  simp [inRanges, YAML_CLASS_DATE]; omega

theorem digitU_int (c : Char) (h : isDigitU c = true) : inRanges YAML_CLASS_INT c = true := by
  simp [isDigitU, isDigit] at h
  rcases h with h | rfl
  · simp [inRanges, YAML_CLASS_INT]; omega
  · decide

theorem octU_digitU (c : Char) (h : isOctU c = true) : isDigitU c = true := by
  simp [isOctU] at h
  rcases h with h | rfl
  · simp [isDigitU, isDigit]; omega
  · decide

theorem d19_digitU (c : Char) (h : is19 c = true) : isDigitU c = true := by
  simp [is19] at h
  simp [isDigitU, isDigit]; omega

theorem digit_digitU (c : Char) (h : isDigit c = true) : isDigitU c = true := by
  simp [isDigitU, h]

theorem binU_bin (c : Char) (h : isBinU c = true) : inRanges YAML_CLASS_BIN c = true := by
  simp [isBinU] at h
  rcases h with (rfl | rfl) | rfl <;> decide

theorem hexU_hex (c : Char) (h : isHexU c = true) : inRanges YAML_CLASS_HEX c = true := by
  simp [isHexU, isDigit] at h
  rcases h with ((h | h) | h) | rfl
  · simp [inRanges, YAML_CLASS_HEX]; omega
  · simp [inRanges, YAML_CLASS_HEX]; omega
  · simp [inRanges, YAML_CLASS_HEX]; omega
  · decide

theorem int_float (c : Char) (h : inRanges YAML_CLASS_INT c = true) : inRanges YAML_CLASS_FLOAT c = true := by
  simp [inRanges, YAML_CLASS_INT] at h
  simp [inRanges, YAML_CLASS_FLOAT]; omega

theorem digitU_float (c : Char) (h : isDigitU c = true) : inRanges YAML_CLASS_FLOAT c = true :=
  int_float c (digitU_int c h)

/-! ### `[-+]?` -/

theorem stripSign_spec (s : List Char) :
    ∃ t, stripSign s = t ∧ (s = t ∨ s = '-' :: t ∨ s = '+' :: t) := by
  cases s with
  | nil => exact ⟨[], rfl, Or.inl rfl⟩
  | cons c r =>
    by_cases h1 : c = '-'
    · subst h1; exact ⟨r, by simp [stripSign], Or.inr (Or.inl rfl)⟩
    · by_cases h2 : c = '+'
      · subst h2; exact ⟨r, by simp [stripSign], Or.inr (Or.inr rfl)⟩
      · exact ⟨c :: r, by simp [stripSign, h1, h2], Or.inl rfl⟩

theorem plus_outside (t : List Char) : bareSafe ('+' :: t) = false :=
  bs_outside _ '+' (by simp) (by decide)

/-! ### int -/

theorem intBin_rej (s : List Char) (h : isIntBin s = true) : bareSafe s = false := by
  obtain ⟨t, ht, hs⟩ := stripSign_spec s
  unfold isIntBin at h; rw [ht] at h
  split at h
  · rename_i z b d ds
    simp only [Bool.and_eq_true, beq_iff_eq] at h
    obtain ⟨⟨⟨rfl, rfl⟩, hd⟩, hds⟩ := h
    have hall : ('0' :: 'b' :: d :: ds).all (inRanges YAML_CLASS_BIN) = true := by
      have := all_imp binU_bin ds hds
      simp only [List.all_cons, this, binU_bin d hd]; decide
    rcases hs with rfl | rfl | rfl
    · exact bs_bin _ hall (Or.inl (sw1 _)) (by simp)
    · exact bs_bin _ (by rw [List.all_cons, hall]; decide) (Or.inr (sw2 _)) (by simp)
    · exact plus_outside _
  · simp at h

/-- `t` is a non-empty run of `[0-9_]` behind an optional sign -/
theorem signed_digitU_rej (s t : List Char) (hs : s = t ∨ s = '-' :: t ∨ s = '+' :: t)
    (ht : t.all isDigitU = true) : bareSafe s = false := by
  have hall := all_imp digitU_int t ht
  have hc := count_zero isDigitU t '-' ht (by decide)
  rcases hs with rfl | rfl | rfl
  · exact bs_int _ hall (by omega)
  · exact bs_int _ (by rw [List.all_cons, hall]; decide) (by rw [count_cons, hc]; decide)
  · exact plus_outside _

theorem intOct_rej (s : List Char) (h : isIntOct s = true) : bareSafe s = false := by
  obtain ⟨t, ht, hs⟩ := stripSign_spec s
  unfold isIntOct at h; rw [ht] at h
  split at h
  · rename_i z d ds
    simp only [Bool.and_eq_true, beq_iff_eq] at h
    obtain ⟨⟨rfl, hd⟩, hds⟩ := h
    refine signed_digitU_rej s _ hs ?_
    have := all_imp octU_digitU ds hds
    simp only [List.all_cons, this, octU_digitU d hd]; decide
  · simp at h

theorem intDec_rej (s : List Char) (h : isIntDec s = true) : bareSafe s = false := by
  obtain ⟨t, ht, hs⟩ := stripSign_spec s
  unfold isIntDec at h; rw [ht] at h
  split at h
  · simp at h
  · rename_i d ds
    refine signed_digitU_rej s _ hs ?_
    simp only [Bool.or_eq_true, Bool.and_eq_true, beq_iff_eq, List.isEmpty_iff] at h
    rcases h with ⟨rfl, rfl⟩ | ⟨hd, hds⟩
    · decide
    · simp only [List.all_cons, hds, d19_digitU d hd]; decide

theorem intHex_rej (s : List Char) (h : isIntHex s = true) : bareSafe s = false := by
  obtain ⟨t, ht, hs⟩ := stripSign_spec s
  unfold isIntHex at h; rw [ht] at h
  split at h
  · rename_i z x d ds
    simp only [Bool.and_eq_true, beq_iff_eq] at h
    obtain ⟨⟨⟨rfl, rfl⟩, hd⟩, hds⟩ := h
    have hall : ('0' :: 'x' :: d :: ds).all (inRanges YAML_CLASS_HEX) = true := by
      have := all_imp hexU_hex ds hds
      simp only [List.all_cons, this, hexU_hex d hd]; decide
    have hc : count ('0' :: 'x' :: d :: ds) '-' = 0 := by
      have h0 : (d :: ds).all isHexU = true := by simp only [List.all_cons, hd, hds]; decide
      have := count_zero isHexU (d :: ds) '-' h0 (by decide)
      rw [count_cons, count_cons, this]; decide
    rcases hs with rfl | rfl | rfl
    · exact bs_hex _ hall (by simp) (by omega) (Or.inr (sw3 _))
    · exact bs_hex _ (by rw [List.all_cons, hall]; decide) (by simp) (by rw [count_cons, hc]; decide)
        (Or.inl (sw4 _))
    · exact plus_outside _
  · simp at h

theorem colon_outside (s : List Char) (h : ':' ∈ s) : bareSafe s = false :=
  bs_outside s ':' h (by decide)

theorem splitOn_not_mem (c : Char) (l : List Char) (h : c ∉ l) : ManifYaml11.splitOn c l = [l] := by
  induction l with
  | nil => rfl
  | cons x xs ih =>
    have hx : (x == c) = false := by
      simp only [beq_eq_false_iff_ne, ne_eq]
      rintro rfl; exact h (by simp)
    have := ih (fun hm => h (by simp [hm]))
    simp [ManifYaml11.splitOn, hx, this]

/-- `(:[0-5]?[0-9])+` needs a colon -/
theorem sexBody_colon (first : Char → Bool) (t : List Char) (h : isSexBody first t = true) : ':' ∈ t := by
  apply Classical.byContradiction
  intro hn
  unfold isSexBody at h
  rw [splitOn_not_mem ':' t hn] at h
  simp at h

theorem mem_of_signed (c : Char) (s t : List Char) (hs : s = t ∨ s = '-' :: t ∨ s = '+' :: t) (h : c ∈ t) :
    c ∈ s := by
  rcases hs with rfl | rfl | rfl <;> simp [h]

theorem intSex_rej (s : List Char) (h : isIntSex s = true) : bareSafe s = false := by
  obtain ⟨t, ht, hs⟩ := stripSign_spec s
  unfold isIntSex at h; rw [ht] at h
  exact colon_outside s (mem_of_signed ':' s t hs (sexBody_colon _ t h))

theorem isInt_rej (s : List Char) (h : isInt s = true) : bareSafe s = false := by
  simp only [isInt, Bool.or_eq_true] at h
  rcases h with (((h | h) | h) | h) | h
  · exact intBin_rej s h
  · exact intOct_rej s h
  · exact intDec_rej s h
  · exact intHex_rej s h
  · exact intSex_rej s h

/-! ### float -/

/-- what the `e` / `-` / `.` branch of `bare_safe` looks at: class and three counts -/
structure Bd (l : List Char) (e m d : Nat) : Prop where
  cls : l.all (inRanges YAML_CLASS_FLOAT) = true
  he : countE l ≤ e
  hm : count l '-' ≤ m
  hd : count l '.' ≤ d

theorem Bd.append {a b : List Char} {e1 m1 d1 e2 m2 d2 : Nat} (ha : Bd a e1 m1 d1) (hb : Bd b e2 m2 d2) :
    Bd (a ++ b) (e1 + e2) (m1 + m2) (d1 + d2) where
  cls := by rw [List.all_append, ha.cls, hb.cls]; rfl
  he := by rw [countE_append]; exact Nat.add_le_add ha.he hb.he
  hm := by rw [count_append]; exact Nat.add_le_add ha.hm hb.hm
  hd := by rw [count_append]; exact Nat.add_le_add ha.hd hb.hd

theorem Bd.mono {l : List Char} {e m d e' m' d' : Nat} (h : Bd l e m d) (h1 : e ≤ e') (h2 : m ≤ m') (h3 : d ≤ d') :
    Bd l e' m' d' :=
  ⟨h.cls, Nat.le_trans h.he h1, Nat.le_trans h.hm h2, Nat.le_trans h.hd h3⟩

theorem Bd.digitU {l : List Char} (h : l.all isDigitU = true) : Bd l 0 0 0 where
  cls := all_imp digitU_float l h
  he := by rw [countE_zero isDigitU l h (by decide) (by decide)]; exact Nat.le_refl _
  hm := by rw [count_zero isDigitU l '-' h (by decide)]; exact Nat.le_refl _
  hd := by rw [count_zero isDigitU l '.' h (by decide)]; exact Nat.le_refl _

theorem Bd.dot : Bd ['.'] 0 0 1 := ⟨by decide, by decide, by decide, by decide⟩
theorem Bd.minus : Bd ['-'] 0 1 0 := ⟨by decide, by decide, by decide, by decide⟩
theorem Bd.e : Bd ['e'] 1 0 0 := ⟨by decide, by decide, by decide, by decide⟩
theorem Bd.E : Bd ['E'] 1 0 0 := ⟨by decide, by decide, by decide, by decide⟩

theorem Bd.rej {s : List Char} {e m d : Nat} (h : Bd s e m d) (he : e < 2) (hm : m < 3) (hd : d ≤ 1) :
    bareSafe s = false :=
  bs_float s h.cls (Nat.lt_of_le_of_lt h.he he) (Nat.lt_of_le_of_lt h.hm hm) (Nat.le_trans h.hd hd)

/-- `([eE][-+][0-9]+)?` either has a `+` or is `e-digits` -/
theorem expOpt_facts (ex : List Char) (h : isExpOpt ex = true) : '+' ∈ ex ∨ Bd ex 1 1 0 := by
  unfold isExpOpt at h
  split at h
  · exact Or.inr ((Bd.digitU (l := []) rfl).mono (by omega) (by omega) (by omega))
  · rename_i e sg d ds
    simp only [Bool.and_eq_true, Bool.or_eq_true, beq_iff_eq] at h
    obtain ⟨⟨⟨he, hsg⟩, hd⟩, hds⟩ := h
    rcases hsg with rfl | rfl
    · right
      have hdig : (d :: ds).all isDigitU = true := by
        have := all_imp digit_digitU ds hds
        simp only [List.all_cons, this, digit_digitU d hd]; decide
      have hE : Bd [e] 1 0 0 := by rcases he with rfl | rfl; exact Bd.e; exact Bd.E
      exact (hE.append (Bd.minus.append (Bd.digitU hdig))).mono (by omega) (by omega) (by omega)
    · left; simp
  · simp at h

theorem Bd.signed_rej (s t : List Char) (hs : s = t ∨ s = '-' :: t ∨ s = '+' :: t) (h : Bd t 1 1 1) :
    bareSafe s = false := by
  rcases hs with rfl | rfl | rfl
  · exact h.rej (by omega) (by omega) (by omega)
  · exact (Bd.minus.append h).rej (by omega) (by omega) (by omega)
  · exact plus_outside _

theorem floatDec_rej (s : List Char) (h : isFloatDec s = true) : bareSafe s = false := by
  obtain ⟨t, ht, hs⟩ := stripSign_spec s
  simp only [isFloatDec, ht, Bool.and_eq_true] at h
  obtain ⟨_, h⟩ := h
  split at h
  · simp at h
  · rename_i c r heq
    simp only [Bool.and_eq_true, beq_iff_eq] at h
    obtain ⟨rfl, hex⟩ := h
    have e1 : t = t.takeWhile isDigitU ++ '.' :: (r.takeWhile isDigitU ++ r.dropWhile isDigitU) := by
      rw [List.takeWhile_append_dropWhile, ← heq, List.takeWhile_append_dropWhile]
    rcases expOpt_facts _ hex with hp | hb
    · have h1 : '+' ∈ t.dropWhile isDigitU := by
        rw [heq]; exact List.mem_cons_of_mem _ ((List.dropWhile_sublist _).subset hp)
      exact bs_outside s '+' (mem_of_signed '+' s t hs ((List.dropWhile_sublist _).subset h1)) (by decide)
    · refine Bd.signed_rej s t hs ?_
      rw [e1]
      exact ((Bd.digitU List.all_takeWhile).append
        (Bd.dot.append ((Bd.digitU List.all_takeWhile).append hb))).mono (by omega) (by omega) (by omega)

theorem floatDot_rej (s : List Char) (h : isFloatDot s = true) : bareSafe s = false := by
  unfold isFloatDot at h
  split at h
  · simp at h
  · rename_i c r
    simp only [Bool.and_eq_true, beq_iff_eq] at h
    obtain ⟨⟨rfl, _⟩, hex⟩ := h
    have e1 : '.' :: r = '.' :: (r.takeWhile isDigitU ++ r.dropWhile isDigitU) := by
      rw [List.takeWhile_append_dropWhile]
    rcases expOpt_facts _ hex with hp | hb
    · exact bs_outside _ '+' (List.mem_cons_of_mem _ ((List.dropWhile_sublist _).subset hp)) (by decide)
    · rw [e1]
      exact (Bd.dot.append ((Bd.digitU List.all_takeWhile).append hb)).rej (by omega) (by omega) (by omega)

theorem floatSex_rej (s : List Char) (h : isFloatSex s = true) : bareSafe s = false := by
  obtain ⟨t, ht, hs⟩ := stripSign_spec s
  simp only [isFloatSex, ht, Bool.and_eq_true] at h
  have hc := sexBody_colon _ _ h.1
  exact colon_outside s (mem_of_signed ':' s t hs ((List.takeWhile_sublist _).subset hc))

theorem words_rej : ∀ w, w ∈ boolRepoWords ++ nullWords ++ infWords ++ nanWords ++ ["<<".toList, "=".toList] →
    bareSafe w = false := by decide

theorem mem_words_rej (s : List Char) (ws : List (List Char)) (h : ws.contains s = true)
    (hsub : ∀ w, w ∈ ws → w ∈ boolRepoWords ++ nullWords ++ infWords ++ nanWords ++ ["<<".toList, "=".toList]) :
    bareSafe s = false :=
  words_rej s (hsub s (List.contains_iff_mem.mp h))

theorem isBoolRepo_rej (s : List Char) (h : isBoolRepo s = true) : bareSafe s = false :=
  mem_words_rej s _ h (fun w hw => by simp [hw])

theorem isBool_rej (s : List Char) (h : isBool s = true) : bareSafe s = false :=
  mem_words_rej s _ h (fun w hw => by simp [boolRepoWords, hw])

theorem isNull_rej (s : List Char) (h : isNull s = true) : bareSafe s = false :=
  mem_words_rej s _ h (fun w hw => by simp [hw])

theorem floatInf_rej (s : List Char) (h : isFloatInf s = true) : bareSafe s = false :=
  mem_words_rej s _ h (fun w hw => by simp [hw])

theorem floatNan_rej (s : List Char) (h : isFloatNan s = true) : bareSafe s = false :=
  mem_words_rej s _ h (fun w hw => by simp [hw])

theorem isMerge_rej (s : List Char) (h : isMerge s = true) : bareSafe s = false := by
  simp only [isMerge, beq_iff_eq] at h
  subst h; decide

theorem isValue_rej (s : List Char) (h : isValue s = true) : bareSafe s = false := by
  simp only [isValue, beq_iff_eq] at h
  subst h; decide

theorem isFloat_rej (s : List Char) (h : isFloat s = true) : bareSafe s = false := by
  simp only [isFloat, Bool.or_eq_true] at h
  rcases h with (((h | h) | h) | h) | h
  · exact floatDec_rej s h
  · exact floatDot_rej s h
  · exact floatSex_rej s h
  · exact floatInf_rej s h
  · exact floatNan_rej s h

/-! ### timestamp -/

theorem tsDate_rej (s : List Char) (h : isTimestampDate s = true) : bareSafe s = false := by
  unfold isTimestampDate at h
  split at h
  · rename_i y1 y2 y3 y4 m1 a b m2 c d
    simp only [Bool.and_eq_true, beq_iff_eq] at h
    obtain ⟨⟨⟨⟨⟨⟨⟨⟨⟨h1, h2⟩, h3⟩, h4⟩, rfl⟩, h5⟩, h6⟩, rfl⟩, h7⟩, h8⟩ := h
    have hm : ∀ x, isDigit x = true → (if x = '-' then 1 else 0) = 0 := by
      intro x hx
      have : x ≠ '-' := by rintro rfl; simp [isDigit] at hx
      simp [this]
    refine bs_date _ ?_ ?_
    · simp only [List.all_cons, List.all_nil, digit_date _ h1, digit_date _ h2, digit_date _ h3,
        digit_date _ h4, digit_date _ h5, digit_date _ h6, digit_date _ h7, digit_date _ h8]
      decide
    · simp only [count_cons, count_nil, hm _ h1, hm _ h2, hm _ h3, hm _ h4, hm _ h5, hm _ h6, hm _ h7,
        hm _ h8]
      decide
  · simp at h

/-- a consumer only ever returns characters of its input -/
def Shrinks (f : Eat) : Prop := ∀ s r, f s = some r → r ⊆ s

theorem shrinks_eatDigits (lo hi : Nat) : Shrinks (eatDigits lo hi) := by
  intro s r h
  simp only [eatDigits] at h
  split at h
  · cases h; exact (List.dropWhile_sublist _).subset
  · cases h

theorem shrinks_eatChar (p : Char → Bool) : Shrinks (eatChar p) := by
  intro s r h
  cases s with
  | nil => simp [eatChar] at h
  | cons c t =>
    simp only [eatChar] at h
    split at h
    · cases h; exact List.subset_cons_self _ _
    · cases h

theorem shrinks_eatSep : Shrinks eatSep := by
  intro s r h
  cases s with
  | nil => simp [eatSep] at h
  | cons c t =>
    simp only [eatSep] at h
    split at h
    · cases h; exact List.subset_cons_self _ _
    · split at h
      · cases h
        exact List.Subset.trans (List.dropWhile_sublist _).subset (List.subset_cons_self _ _)
      · cases h

theorem shrinks_andThen (f g : Eat) (hf : Shrinks f) (hg : Shrinks g) : Shrinks (andThen f g) := by
  intro s r h
  simp only [andThen, Option.bind_eq_some_iff] at h
  obtain ⟨m, h1, h2⟩ := h
  exact List.Subset.trans (hg m r h2) (hf s m h1)

theorem shrinks_eatDateHour : Shrinks eatDateHour := by
  unfold eatDateHour
  repeat (first | apply shrinks_andThen | apply shrinks_eatDigits | apply shrinks_eatChar | apply shrinks_eatSep)

theorem tsFull_colon (s : List Char) (h : isTimestampFull s = true) : ':' ∈ s := by
  unfold isTimestampFull at h
  split at h
  · simp at h
  · rename_i r heq
    apply shrinks_eatDateHour s r heq
    unfold isTimeRest at h
    split at h
    · simp only [Bool.and_eq_true, beq_iff_eq] at h
      obtain ⟨⟨⟨⟨⟨⟨rfl, _⟩, _⟩, _⟩, _⟩, _⟩, _⟩ := h
      simp
    · simp at h

theorem isTimestamp_rej (s : List Char) (h : isTimestamp s = true) : bareSafe s = false := by
  simp only [isTimestamp, Bool.or_eq_true] at h
  rcases h with h | h
  · exact tsDate_rej s h
  · exact colon_outside s (tsFull_colon s h)

/-! ### the result -/

/-- contrapositive form used below -/
theorem false_of_rej {p : List Char → Bool} (hp : ∀ s, p s = true → bareSafe s = false)
    (s : List Char) (h : bareSafe s = true) : p s = false := by
  cases hx : p s with
  | false => rfl
  | true => rw [hp s hx] at h; exact Bool.noConfusion h

theorem safe_class_of_bareSafe (s : List Char) (h : bareSafe s = true) :
    s.all (inRanges YAML_CLASS_SAFE) = true := by
  unfold bareSafe at h
  by_cases hc : s.all (inRanges YAML_CLASS_SAFE) = true
  · exact hc
  · simp [hc] at h

theorem plainSyntaxOk_of_bareSafe (s : List Char) (h : bareSafe s = true) : plainSyntaxOk s = true := by
  have hne : ∀ w : List Char, bareSafe w = false → s ≠ w := by
    rintro w hw rfl; rw [hw] at h; exact Bool.noConfusion h
  have h0 := hne [] (by decide)
  have h1 := hne "-".toList (by decide)
  have h2 := hne "---".toList (by decide)
  have h3 := hne "...".toList (by decide)
  have hall : s.all yamlPlainSafeChar = true := all_imp yaml_safe_class s (safe_class_of_bareSafe s h)
  simp only [plainSyntaxOk, Bool.and_eq_true, hall, bne_iff_ne, ne_eq, Bool.not_eq_true',
    List.isEmpty_eq_false_iff]
  exact ⟨⟨⟨⟨h0, trivial⟩, h1⟩, h2⟩, h3⟩

/-- **Everything `bare_safe` leaves unquoted is loaded back as the same string by a YAML 1.1
    processor with PyYAML's implicit resolvers**: it matches none of the bool / float / int /
    merge / null / timestamp / value expressions, and it is lexically a plain scalar. -/
theorem bareSafe_sound (s : List Char) (h : JrsVerif.Manif.bareSafe s = true) :
    JrsVerif.ManifYaml11.resolvesToString s = true ∧ JrsVerif.ManifYaml11.plainSyntaxOk s = true := by
  refine ⟨?_, plainSyntaxOk_of_bareSafe s h⟩
  simp only [resolvesToString, false_of_rej isBool_rej s h, false_of_rej isFloat_rej s h,
    false_of_rej isInt_rej s h, false_of_rej isMerge_rej s h, false_of_rej isNull_rej s h,
    false_of_rej isTimestamp_rej s h, false_of_rej isValue_rej s h]
  rfl

/-! ### the type-repository variants (yaml.org/type/bool.html, float.html)

`y|Y|n|N` are rejected (`isBoolRepo_rej`).  The repository's base-10 float expression
`[-+]?([0-9][0-9_]*)?\.[0-9.]*([eE][-+][0-9]+)?` allows any number of dots after the first; `bare_safe`
only looks for "at most one dot", so strings such as `1.2.3` are left bare although that expression
matches them.  (PyYAML, libyaml-based loaders and the YAML 1.2 core schema all load `1.2.3` as a
string; the finding concerns the letter of yaml.org/type/float.html only.) -/

theorem bareSafe_unsound_floatRepo :
    bareSafe "1.2.3".toList = true ∧ isFloatRepo "1.2.3".toList = true := by decide

theorem bareSafe_unsound_floatRepo_dots :
    bareSafe "..".toList = true ∧ isFloatRepo "..".toList = true := by decide

theorem bareSafe_unsound_floatRepo_version :
    bareSafe "-1.2.3.4e-5".toList = true ∧ isFloatRepo "-1.2.3.4e-5".toList = true := by decide

theorem digitDot_float (c : Char) (h : isDigitDot c = true) : inRanges YAML_CLASS_FLOAT c = true := by
  simp [isDigitDot, isDigit] at h
  rcases h with h | rfl
  · simp [inRanges, YAML_CLASS_FLOAT]; omega
  · decide

theorem Bd.digitDot {l : List Char} (h : l.all isDigitDot = true) : Bd l 0 0 (count l '.') where
  cls := all_imp digitDot_float l h
  he := by rw [countE_zero isDigitDot l h (by decide) (by decide)]; exact Nat.le_refl _
  hm := by rw [count_zero isDigitDot l '-' h (by decide)]; exact Nat.le_refl _
  hd := Nat.le_refl _

/-- with at most one dot the repository's base-10 expression is covered as well -/
theorem floatDecRepo_rej (s : List Char) (h : isFloatDecRepo s = true) (hdots : count s '.' ≤ 1) :
    bareSafe s = false := by
  obtain ⟨t, ht, hs⟩ := stripSign_spec s
  simp only [isFloatDecRepo, ht, Bool.and_eq_true] at h
  obtain ⟨_, h⟩ := h
  split at h
  · simp at h
  · rename_i c r heq
    simp only [Bool.and_eq_true, beq_iff_eq] at h
    obtain ⟨rfl, hex⟩ := h
    have e1 : t = t.takeWhile isDigitU ++ '.' :: (r.takeWhile isDigitDot ++ r.dropWhile isDigitDot) := by
      rw [List.takeWhile_append_dropWhile, ← heq, List.takeWhile_append_dropWhile]
    rcases expOpt_facts _ hex with hp | hb
    · have h1 : '+' ∈ t.dropWhile isDigitU := by
        rw [heq]; exact List.mem_cons_of_mem _ ((List.dropWhile_sublist _).subset hp)
      exact bs_outside s '+' (mem_of_signed '+' s t hs ((List.dropWhile_sublist _).subset h1)) (by decide)
    · have hbt := (Bd.digitU (List.all_takeWhile (p := isDigitU) (l := t))).append
        (Bd.dot.append ((Bd.digitDot (List.all_takeWhile (p := isDigitDot) (l := r))).append hb))
      have e1' : t.takeWhile isDigitU ++ (['.'] ++ (r.takeWhile isDigitDot ++ r.dropWhile isDigitDot)) = t :=
        e1.symm
      rw [e1'] at hbt
      rcases hs with rfl | rfl | rfl
      · exact bs_float _ hbt.cls (by have := hbt.he; omega) (by have := hbt.hm; omega) hdots
      · have hb2 : Bd ('-' :: t) _ _ _ := Bd.minus.append hbt
        exact bs_float _ hb2.cls (by have := hb2.he; omega) (by have := hb2.hm; omega) hdots
      · exact plus_outside _

theorem isFloatRepo_rej (s : List Char) (h : isFloatRepo s = true) (hdots : count s '.' ≤ 1) :
    bareSafe s = false := by
  simp only [isFloatRepo, Bool.or_eq_true] at h
  rcases h with ((h | h) | h) | h
  · exact floatDecRepo_rej s h hdots
  · exact floatSex_rej s h
  · exact floatInf_rej s h
  · exact floatNan_rej s h

/-- the gap, exactly: what `bare_safe` leaves bare and the repository's float expression matches
    has two or more dots -/
theorem bareSafe_floatRepo_gap (s : List Char) (h : bareSafe s = true) (hf : isFloatRepo s = true) :
    2 ≤ count s '.' := by
  apply Classical.byContradiction
  intro hn
  rw [isFloatRepo_rej s hf (by omega)] at h
  exact Bool.noConfusion h

/-- the statement for the type-repository expressions, with the exclusion made explicit -/
theorem bareSafe_sound_repo (s : List Char) (h : bareSafe s = true) (hdots : count s '.' ≤ 1) :
    resolvesToStringRepo s = true ∧ plainSyntaxOk s = true := by
  refine ⟨?_, plainSyntaxOk_of_bareSafe s h⟩
  have hf : isFloatRepo s = false := by
    cases hx : isFloatRepo s with
    | false => rfl
    | true => rw [isFloatRepo_rej s hx hdots] at h; exact Bool.noConfusion h
  simp only [resolvesToStringRepo, false_of_rej isBoolRepo_rej s h, hf,
    false_of_rej isInt_rej s h, false_of_rej isMerge_rej s h, false_of_rej isNull_rej s h,
    false_of_rej isTimestamp_rej s h, false_of_rej isValue_rej s h]
  rfl

/-! ### the theorem is not vacuous, and the reference is not trivially permissive -/

example : bareSafe "a-b.c/d_9".toList = true := by decide
example : bareSafe "1e3".toList = false ∧ resolvesToString "1e3".toList = true := by decide
example : bareSafe "0o17".toList = true ∧ resolvesToString "0o17".toList = true := by decide
example : bareSafe "2001-1-1".toList = false ∧ resolvesToString "2001-1-1".toList = true := by decide

end JrsVerif.ManifYaml11Proofs
