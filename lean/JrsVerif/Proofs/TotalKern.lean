/- C04 round 3: lemmas about the kernels of Model/TotalKern.lean -/
import JrsVerif.Model.TotalKern
import JrsVerif.Proofs.Num

namespace JrsVerif.TotalKern
open JrsVerif.Total

/-! ## duplicate_name -/

theorem seenName_iff (seen : List Param) (n : String) :
    seenName seen n = true ↔ n ∈ seen.filterMap (·.name) := by
  unfold seenName
  simp only [List.any_eq_true, List.mem_filterMap, decide_eq_true_eq]

theorem duplicateNameGo_none (rest seen : List Param) :
    duplicateNameGo seen rest = none ↔
      (rest.filterMap (·.name)).Nodup ∧
        ∀ n ∈ rest.filterMap (·.name), n ∉ seen.filterMap (·.name) := by
  induction rest generalizing seen with
  | nil => simp [duplicateNameGo]
  | cons p rest ih =>
    unfold duplicateNameGo
    cases hp : p.name with
    | none =>
      simp only [List.filterMap_cons, hp]
      rw [ih]
      simp [List.filterMap_append, hp]
    | some n =>
      simp only [List.filterMap_cons, hp]
      by_cases hs : seenName seen n = true
      · have hm := (seenName_iff seen n).mp hs
        simp only [hs, if_true, reduceCtorEq, false_iff, not_and]
        intro _ h
        exact h n (List.mem_cons_self) hm
      · have hm : n ∉ seen.filterMap (·.name) := fun h => hs ((seenName_iff seen n).mpr h)
        simp only [hs, Bool.false_eq_true, if_false]
        have e : (seen ++ [p]).filterMap (·.name) = seen.filterMap (·.name) ++ [n] := by
          simp [List.filterMap_append, hp]
        rw [ih, e]
        constructor
        · rintro ⟨hnd, h⟩
          refine ⟨List.nodup_cons.mpr ⟨fun hmem => ?_, hnd⟩, ?_⟩
          · exact h n hmem (List.mem_append.mpr (Or.inr (List.mem_singleton.mpr rfl)))
          · intro m hm'
            rcases List.mem_cons.mp hm' with rfl | hm'
            · exact hm
            · exact fun hs' => h m hm' (List.mem_append.mpr (Or.inl hs'))
        · rintro ⟨hnd, h⟩
          have hnd' := List.nodup_cons.mp hnd
          refine ⟨hnd'.2, fun m hm' hs' => ?_⟩
          rcases List.mem_append.mp hs' with hs' | hs'
          · exact h m (List.mem_cons.mpr (Or.inr hm')) hs'
          · have : m = n := List.mem_singleton.mp hs'
            subst this
            exact hnd'.1 hm'

/-- the check of the parsers is exactly "parameter names are pairwise different" -/
theorem duplicateName_none_iff (ps : List Param) : duplicateName ps = none ↔ NodupNames ps := by
  unfold duplicateName NodupNames
  rw [duplicateNameGo_none]
  simp

/-- the reported name really occurs twice -/
theorem duplicateNameGo_some (rest seen : List Param) (n : String)
    (h : duplicateNameGo seen rest = some n) :
    n ∈ rest.filterMap (·.name) ∧
      (n ∈ seen.filterMap (·.name) ∨ ¬ (rest.filterMap (·.name)).Nodup) := by
  induction rest generalizing seen with
  | nil => simp [duplicateNameGo] at h
  | cons p rest ih =>
    unfold duplicateNameGo at h
    cases hp : p.name with
    | none =>
      simp only [hp] at h
      have := ih _ h
      simp only [List.filterMap_cons, hp]
      refine ⟨this.1, ?_⟩
      rcases this.2 with h2 | h2
      · simp only [List.filterMap_append, List.filterMap_cons, hp, List.filterMap_nil,
          List.append_nil] at h2
        exact Or.inl h2
      · exact Or.inr h2
    | some m =>
      simp only [hp] at h
      simp only [List.filterMap_cons, hp, List.mem_cons, List.nodup_cons, not_and]
      by_cases hs : seenName seen m = true
      · simp only [hs, if_true, Option.some.injEq] at h
        subst h
        exact ⟨Or.inl rfl, Or.inl ((seenName_iff seen m).mp hs)⟩
      · simp only [hs, Bool.false_eq_true, if_false] at h
        have := ih _ h
        refine ⟨Or.inr this.1, ?_⟩
        rcases this.2 with h2 | h2
        · simp only [List.filterMap_append, List.filterMap_cons, hp, List.filterMap_nil,
            List.mem_append, List.mem_singleton] at h2
          rcases h2 with h2 | rfl
          · exact Or.inl h2
          · exact Or.inr (fun hn => absurd this.1 hn)
        · exact Or.inr (fun _ => h2)

/-! ## pending markers -/

/-- after the repair at most two nested entries of one key are let through, whatever the
    asserting flags are; the third is `InfiniteRecursionDetected` -/
theorem admitted_le_one (m : Mark) (flags : List Bool) : admitted enter m flags ≤ 1 := by
  cases flags with
  | nil => simp [admitted]
  | cons a rest =>
    cases rest with
    | nil => cases m <;> simp [admitted, enter]
    | cons b rest => cases m <;> simp [admitted, enter]

theorem admittedOrig_all (n : Nat) :
    admitted enterOrig .vacant (List.replicate (n + 1) true) = n + 1 := by
  have h : ∀ k, admitted enterOrig .pending (List.replicate k true) = k := by
    intro k
    induction k with
    | zero => rfl
    | succ k ih => simp [List.replicate_succ, admitted, enterOrig, ih]; omega
  simp [List.replicate_succ, admitted, enterOrig, h]; omega

/-! ## `<<` -/
open JrsVerif.Num

theorem shlCore_eq (base e : Int) (he : 0 ≤ e) :
    shlCore base e =
      some (if (Int.tmod e (Generated.SHIFT_MOD : Int)).toNat ≥ 1 ∧
              (base ≥ 2 ^ (63 - (Int.tmod e (Generated.SHIFT_MOD : Int)).toNat) ∨
               base < -(2 ^ (63 - (Int.tmod e (Generated.SHIFT_MOD : Int)).toNat)))
            then .error .overflow
            else .ok (wrapI64 (base * 2 ^ (Int.tmod e (Generated.SHIFT_MOD : Int)).toNat))) := by
  have hmod : Int.tmod e ((64 : Nat) : Int) = ((e.toNat % 64 : Nat) : Int) := by
    rw [Int.tmod_eq_emod_of_nonneg he]; omega
  have hlt : e.toNat % 64 < 64 := Nat.mod_lt _ (by decide)
  unfold shlCore
  simp only [Generated.SHIFT_MOD, hmod, Int.toNat_natCast]
  generalize e.toNat % 64 = n at hlt
  have hu : asU32 (n : Int) = n := by
    unfold asU32
    have : ((n : Int) % 2 ^ 32) = n := Int.emod_eq_of_lt (by omega) (by omega)
    rw [this]; simp
  simp only [hu]
  by_cases hn : n ≥ 1
  · have hn' : ((n : Int) ≥ 1) := by omega
    have hs : u32sub 63 n = some (63 - n) := by simp [u32sub]; omega
    have hk : 63 - n < 64 := by omega
    have hpowN : (2 : Nat) ^ (63 - n) ≤ 2 ^ 62 := Nat.pow_le_pow_right (by decide) (by omega)
    have hpow_le : (2 : Int) ^ (63 - n) ≤ 2 ^ 62 := by exact_mod_cast hpowN
    have hpow_pos : (0 : Int) < 2 ^ (63 - n) := Int.pow_pos (by decide)
    have hw : wrapI64 (2 ^ (63 - n)) = 2 ^ (63 - n) :=
      wrapI64_of_fits _ (by omega) (by omega)
    have h1 : shl1 (63 - n) = some (2 ^ (63 - n)) := by simp [shl1, hk, hw]
    have hneg : negI64 (2 ^ (63 - n)) = some (-(2 ^ (63 - n))) := by
      unfold negI64
      have : (2 : Int) ^ (63 - n) ≠ -(2 ^ 63) := by
        intro h
        rw [h] at hpow_pos
        exact absurd hpow_pos (by decide)
      rw [if_neg this]
    have hm64 : n % 64 = n := Nat.mod_eq_of_lt hlt
    simp only [hn', if_true, hs, h1, hneg, hm64]
    by_cases hge : base ≥ 2 ^ (63 - n)
    · simp [hge, hn]
    · by_cases hl : base < -(2 ^ (63 - n))
      · simp [hge, hl, hn]
      · simp [hge, hl]
  · have hn0 : n = 0 := by omega
    subst hn0
    simp

theorem shlK_eq (a b : D) : shlK a b = some (shlOp a b) := by
  unfold shlK shlOp
  by_cases hb : isNegative b = true
  · simp [hb]
  · simp only [hb, Bool.false_eq_true, if_false]
    cases ha : truncBitwise a with
    | error err => simp [bind, Except.bind]
    | ok base =>
      cases hn : truncBitwise b with
      | error err => simp [bind, Except.bind]
      | ok e =>
        have hb' : ¬ b.val < 0 := by simpa [isNegative] using hb
        have he := intOf_nonneg b e hb' (by rw [← truncBitwise_eq_spec]; exact hn)
        simp only [bind, Except.bind, pure, Except.pure]
        rw [shlCore_eq base e he]

/-! ## findSubstr -/
open JrsVerif.Str

theorem findGoK_eq (sb pb : List Nat) (maxPos : Nat) (hfit : maxPos + pb.length ≤ sb.length)
    (hw : sb.length < USIZE) (cs : List Nat) (i ch : Nat) :
    findGoK sb pb maxPos cs i ch = some (Model.findGo sb pb maxPos cs i ch) := by
  induction cs generalizing i ch with
  | nil => simp [findGoK, Model.findGo]
  | cons c cs ih =>
    unfold findGoK Model.findGo
    by_cases hi : i ≤ maxPos
    · have hadd : uadd i pb.length = some (i + pb.length) := by
        have : i + pb.length < USIZE := by omega
        simp [uadd, this]
      have hsl : sliceB sb i (i + pb.length) = some ((sb.drop i).take pb.length) := by
        have : i ≤ i + pb.length ∧ i + pb.length ≤ sb.length := by omega
        simp [sliceB, this]
      simp only [hi, if_true, hadd, hsl, ih]
    · simp [hi]

theorem findSubstrK_eq (pat s : List Nat) (hw : (enc s).length < USIZE) :
    findSubstrK pat s = some (Model.findSubstr pat s) := by
  unfold findSubstrK Model.findSubstr
  simp only
  split
  · rfl
  · rename_i hc
    have hle : (enc pat).length ≤ (enc s).length := by
      simp only [Bool.or_eq_true, decide_eq_true_eq, not_or] at hc
      exact Nat.le_of_not_gt hc.2
    simp only [usub, hle, if_true]
    exact findGoK_eq _ _ _ (by omega) hw s 0 0

/-! ## print_code_location -/
open JrsVerif.Loc

theorem printCodeLocationK_eq (s e : CodeLocation) (h : 1 ≤ s.column) :
    printCodeLocationK s e = some (printCodeLocation s e) := by
  unfold printCodeLocationK printCodeLocation
  split
  · split
    · rfl
    · simp [usub, h]
  · rfl

end JrsVerif.TotalKern
