/- C06 helper lemmas: the shift/or accumulators of unescape.rs equal positional hexadecimal
   values, surrogate-pair bit arithmetic equals the UTF-16 formula, and the decoder equals the
   reference definition for every string (strong induction on the length). -/
import JrsVerif.Model.Unescape
namespace JrsVerif.Unescape
open JrsVerif.Generated JrsVerif.Spec

theorem hexVal_lt {c v : Nat} (h : hexVal c = some v) : v < 16 := by
  unfold hexVal at h
  split at h
  · cases h; omega
  · split at h
    · cases h; omega
    · split at h
      · cases h; omega
      · cases h

theorem or_eq_add (a v : Nat) (h : v < 16) : (a <<< 4) ||| v = a * 16 + v := by
  rw [← Nat.shiftLeft_add_eq_or_of_lt (by simpa using h)]
  simp [Nat.shiftLeft_eq]

theorem fold_step (acc v M : Nat) (hv : v < 16) (hM : acc * 16 + 16 ≤ M) (_h : 0 < M) :
    ((acc <<< 4) ||| v) % M = acc * 16 + v := by
  rw [or_eq_add acc v hv, Nat.mod_eq_of_lt (by omega)]

theorem simple_eq (e : Nat) :
    lookup e simpleEscapes = (if unescSelf.contains e then some e else lookup e unescLetters) := by
  simp only [simpleEscapes, unescSelf, unescLetters, lookup, List.contains, List.elem]
  repeat' split
  all_goals first | rfl | (simp_all) | omega


theorem hex4_eq (cs : List Nat) : hex4 cs = hexNum 4 cs := by
  unfold hex4
  split
  · rename_i a b c d rest
    simp only [hexNum]
    split
    · rename_i va vb vc vd ha hb hc hd
      have := hexVal_lt ha; have := hexVal_lt hb; have := hexVal_lt hc; have := hexVal_lt hd
      simp only [ha, hb, hc, hd, List.foldl, unescUShift]
      rw [Nat.zero_shiftLeft, Nat.zero_or, Nat.mod_eq_of_lt (by omega : va < 65536)]
      rw [fold_step va vb 65536 (by omega) (by omega) (by omega)]
      rw [fold_step (va * 16 + vb) vc 65536 (by omega) (by omega) (by omega)]
      rw [fold_step ((va * 16 + vb) * 16 + vc) vd 65536 (by omega) (by omega) (by omega)]
      simp only [Option.some.injEq]; omega
    · rename_i h
      cases ha : hexVal a <;> cases hb : hexVal b <;> cases hc : hexVal c <;> cases hd : hexVal d <;> simp_all
      all_goals exact h _ _ _ _ rfl rfl rfl rfl
  · rename_i h
    match cs, h with
    | [], _ => simp [hexNum]
    | [a], _ => cases ha : hexVal a <;> simp [hexNum, ha]
    | [a, b], _ => cases ha : hexVal a <;> cases hb : hexVal b <;> simp [hexNum, ha, hb]
    | [a, b, c], _ => cases ha : hexVal a <;> cases hb : hexVal b <;> cases hc : hexVal c <;> simp [hexNum, ha, hb, hc]
    | a :: b :: c :: d :: r, h => exact absurd rfl (h a b c d r)

theorem hex2_eq (cs : List Nat) : hex2 cs = hexNum 2 cs := by
  unfold hex2
  split
  · rename_i a b rest
    simp only [hexNum]
    split
    · rename_i va vb ha hb
      have := hexVal_lt ha; have := hexVal_lt hb
      simp only [ha, hb, List.foldl, unescXShift]
      rw [Nat.zero_shiftLeft, Nat.zero_or, Nat.mod_eq_of_lt (by omega : va < 4294967296)]
      rw [fold_step va vb 4294967296 (by omega) (by omega) (by omega)]
      simp only [Option.some.injEq]; omega
    · rename_i h
      cases ha : hexVal a <;> cases hb : hexVal b <;> simp_all
      all_goals exact h _ _ rfl rfl
  · rename_i h
    match cs, h with
    | [], _ => simp [hexNum]
    | [a], _ => cases ha : hexVal a <;> simp [hexNum, ha]
    | a :: b :: r, h => exact absurd rfl (h a b r)

theorem hexNum4_lt {cs : List Nat} {v : Nat} (h : hexNum 4 cs = some v) : v < 65536 := by
  match cs with
  | a :: b :: c :: d :: r =>
    simp only [hexNum] at h
    cases ha : hexVal a <;> cases hb : hexVal b <;> cases hc : hexVal c <;> cases hd : hexVal d <;> simp [ha, hb, hc, hd] at h
    have := hexVal_lt ha; have := hexVal_lt hb; have := hexVal_lt hc; have := hexVal_lt hd
    omega
  | [] => simp [hexNum] at h
  | [a] => cases ha : hexVal a <;> simp [hexNum, ha] at h
  | [a, b] => cases ha : hexVal a <;> cases hb : hexVal b <;> simp [hexNum, ha, hb] at h
  | [a, b, c] => cases ha : hexVal a <;> cases hb : hexVal b <;> cases hc : hexVal c <;> simp [hexNum, ha, hb, hc] at h

theorem hexNum2_lt {cs : List Nat} {v : Nat} (h : hexNum 2 cs = some v) : v < 256 := by
  match cs with
  | a :: b :: r =>
    simp only [hexNum] at h
    cases ha : hexVal a <;> cases hb : hexVal b <;> simp [ha, hb] at h
    have := hexVal_lt ha; have := hexVal_lt hb
    omega
  | [] => simp [hexNum] at h
  | [a] => cases ha : hexVal a <;> simp [hexNum, ha] at h

theorem scalar_of_lt {n : Nat} (h1 : ¬ (0xDC00 ≤ n ∧ n ≤ 0xDFFF)) (h2 : ¬ (0xD800 ≤ n ∧ n ≤ 0xDBFF)) (h3 : n < 65536) :
    isScalar n = true := by
  simp only [isScalar, Bool.or_eq_true, Bool.and_eq_true, decide_eq_true_eq]
  omega

theorem pair_eq (n1 n2 : Nat) (h1 : 0xD800 ≤ n1 ∧ n1 ≤ 0xDBFF) (h2 : 0xDC00 ≤ n2 ∧ n2 ≤ 0xDFFF) :
    (((n1 - 0xD800) <<< 10) ||| (n2 - 0xDC00)) + 0x10000 = 0x10000 + (n1 - 0xD800) * 0x400 + (n2 - 0xDC00) := by
  rw [← Nat.shiftLeft_add_eq_or_of_lt (by omega : n2 - 0xDC00 < 2 ^ 10), Nat.shiftLeft_eq]
  omega

theorem unescape_eq_decode_aux : ∀ n (s : List Nat), s.length = n → unescape s = decode s := by
  intro n
  induction n using Nat.strongRecOn with
  | _ n ih =>
  intro s hs
  have IH : ∀ t : List Nat, t.length < n → unescape t = decode t := fun t ht => ih _ ht t rfl
  match s, hs with
  | [], _ => rw [unescape.eq_def, decode.eq_def]
  | c :: rest, hs =>
    simp only [List.length_cons] at hs
    rw [unescape.eq_def, decode.eq_def]
    by_cases hc : c = 92
    · subst hc
      simp only [ne_eq, not_true_eq_false, if_false]
      match rest, hs with
      | [], _ => simp [escape]
      | e :: rest, hs =>
        simp only [List.length_cons] at hs
        simp only [escape, simple_eq]
        by_cases h1 : unescSelf.contains e = true
        · simp only [h1, if_true]
          rw [IH rest (by omega)]
          simp
        · simp only [h1]
          cases hl : lookup e unescLetters with
          | some v =>
            simp only [Bool.false_eq_true, if_false]
            rw [IH rest (by omega)]
            simp
          | none =>
            simp only [Bool.false_eq_true, if_false]
            by_cases hu : e = 117
            · subst hu
              simp only [if_true, hex4_eq]
              cases h4 : hexNum 4 rest with
              | none => simp
              | some n1 =>
                have hn1 := hexNum4_lt h4
                simp only []
                by_cases hlo : 0xDC00 ≤ n1 ∧ n1 ≤ 0xDFFF
                · have : ¬ (0xD800 ≤ n1 ∧ n1 < 0xDC00) := by omega
                  have h' : 0xDC00 ≤ n1 ∧ n1 < 0xE000 := by omega
                  simp [hlo, this, h']
                · by_cases hhi : 0xD800 ≤ n1 ∧ n1 ≤ 0xDBFF
                  · have h' : 0xD800 ≤ n1 ∧ n1 < 0xDC00 := by omega
                    simp only [hlo, if_false, hhi, if_true, h']
                    cases hd : List.drop 4 rest with
                    | nil => simp
                    | cons x xs =>
                      by_cases hx : x = 92
                      · subst hx
                        cases xs with
                        | nil => simp
                        | cons y rest2 =>
                          by_cases hy : y = 117
                          · subst hy
                            simp only []
                            cases h42 : hexNum 4 rest2 with
                            | none => simp
                            | some n2 =>
                              simp only []
                              by_cases hl2 : 0xDC00 ≤ n2 ∧ n2 ≤ 0xDFFF
                              · have hl2' : 0xDC00 ≤ n2 ∧ n2 < 0xE000 := by omega
                                have hsc : isScalar (0x10000 + (n1 - 0xD800) * 0x400 + (n2 - 0xDC00)) = true := by
                                  simp only [isScalar, Bool.or_eq_true, Bool.and_eq_true, decide_eq_true_eq]
                                  omega
                                simp only [hl2, hl2', if_true, pair_eq n1 n2 hhi hl2, hsc]
                                rw [IH (rest.drop 10) (by simp only [List.length_drop]; omega)]
                                simp
                              · have hl2' : ¬ (0xDC00 ≤ n2 ∧ n2 < 0xE000) := by omega
                                simp [hl2, hl2']
                          · simp [hy]
                      · simp [hx]
                  · have h' : ¬ (0xD800 ≤ n1 ∧ n1 < 0xDC00) := by omega
                    have h'' : ¬ (0xDC00 ≤ n1 ∧ n1 < 0xE000) := by omega
                    simp only [hlo, hhi, h', h'', if_false, scalar_of_lt hlo hhi hn1, if_true]
                    rw [IH (rest.drop 4) (by simp only [List.length_drop]; omega)]
                    simp
            · simp only [hu, if_false]
              by_cases hx : e = 120
              · subst hx
                simp only [if_true, hex2_eq]
                cases h2 : hexNum 2 rest with
                | none => simp
                | some v =>
                  have hv := hexNum2_lt h2
                  have hsc : isScalar v = true := by
                    simp only [isScalar, Bool.or_eq_true, Bool.and_eq_true, decide_eq_true_eq]; omega
                  simp only [hsc, if_true]
                  rw [IH (rest.drop 2) (by simp only [List.length_drop]; omega)]
                  simp
              · simp [hx]
    · simp only [ne_eq, hc, not_false_eq_true, if_true]
      rw [IH rest (by omega)]

theorem unescape_eq_decode (s : List Nat) : unescape s = decode s := unescape_eq_decode_aux _ s rfl
end JrsVerif.Unescape
