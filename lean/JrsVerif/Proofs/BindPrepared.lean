/-
  C01 — the PREPARED binder (`function/prepared.rs::prepare_call`, the path of top-level-argument
  calls and of callbacks from builtins; model `JrsVerif.Total.prepareCall`, shared with C04) is a
  refinement of the interpreted binder (`function/parse.rs::parse_function_call`; model
  `JrsVerif.Bind.parseCall`): read through `absR` (parameter indices ↦ parameter names) the two give
  the same answer on every call — the same error, the same `unreachable!()` site, the same
  assignment of sources to parameters.  Hence every C01 binding theorem holds for both call paths.
-/
import JrsVerif.Model.Bind
import JrsVerif.Model.Total
import JrsVerif.Proofs.Bind

namespace JrsVerif.BindPrepared
open JrsVerif.Bind

/-- a list of named parameters as `prepare_call` sees it -/
def toT (ps : List Param) : List Total.Param := ps.map (fun p => ⟨some p.1, p.2⟩)

/-- the name of the parameter with index `i` -/
def nameAt (ps : List Param) (i : Nat) : String := ((ps[i]?).map (·.1)).getD ""

/-- the environment a prepared call describes: positionals, `(param, named input)` pairs,
    default ids -/
def envOf (ps : List Param) (npos : Nat) (ops : List (Nat × Nat)) (dfl : List Nat) : List (String × Src) :=
  bindPos ps npos 0 ++ ops.map (fun o => (nameAt ps o.1, Src.named o.2))
    ++ dfl.map (fun i => (nameAt ps i, Src.dflt))

def absErr : Total.BErr → BErr
  | .tooMany => .tooMany
  | .unknown n => .unknown n
  | .twice n => .twice n
  | .unbound n => .unbound (n.getD "")

/-- a prepared-call answer read as an interpreted-call answer -/
def absR (ps : List Param) (npos : Nat) : Total.PR → R
  | .ok ops dfl => .ok (envOf ps npos ops dfl)
  | .err e => .err (absErr e)
  | .panic _ => .unreachable

/-! ### positions -/

theorem position_toT (ps : List Param) (n : String) :
    Total.position (toT ps) n = indexOf? (names ps) n := by
  induction ps with
  | nil => rfl
  | cons p r ih =>
    simp only [toT, List.map_cons, Total.position, names, indexOf?]
    by_cases h : p.1 = n
    · simp [h]
    · have h' : ¬ (some p.1 = some n) := by simpa using h
      simp only [h', ↓reduceIte, beq_iff_eq, h]
      have := ih
      simp only [toT, names] at this
      rw [this]

theorem indexOf?_get (l : List String) (n : String) (i : Nat) (h : indexOf? l n = some i) :
    l[i]? = some n := by
  induction l generalizing i with
  | nil => simp [indexOf?] at h
  | cons m r ih =>
    simp only [indexOf?] at h
    by_cases e : (m == n) = true
    · simp only [e, ↓reduceIte, Option.some.injEq] at h
      subst h
      simp at e; simp [e]
    · simp only [e, Bool.false_eq_true, ↓reduceIte, Option.map_eq_some_iff] at h
      obtain ⟨k, hk, rfl⟩ := h
      simpa using ih k hk

theorem nameAt_of_get (ps : List Param) (i : Nat) (p : Param) (h : ps[i]? = some p) :
    nameAt ps i = p.1 := by simp [nameAt, h]

theorem names_get (ps : List Param) (i : Nat) : (names ps)[i]? = (ps[i]?).map (·.1) := by
  simp [names]

theorem nameAt_position (ps : List Param) (n : String) (i : Nat)
    (h : Total.position (toT ps) n = some i) : nameAt ps i = n := by
  rw [position_toT] at h
  have := indexOf?_get _ _ _ h
  rw [names_get] at this
  simp [nameAt, this]

/-- two indices with the same name are the same index -/
theorem idx_inj (ps : List Param) (hnd : (names ps).Nodup) (i j : Nat) (p q : Param)
    (hi : ps[i]? = some p) (hj : ps[j]? = some q) (e : p.1 = q.1) : i = j := by
  have h1 : (names ps)[i]? = some p.1 := by simp [names_get, hi]
  have h2 : (names ps)[j]? = some p.1 := by simp [names_get, hj, e]
  have hi' : i < (names ps).length := by
    rcases Nat.lt_or_ge i (names ps).length with h | h
    · exact h
    · rw [List.getElem?_eq_none h] at h1; cases h1
  have hj' : j < (names ps).length := by
    rcases Nat.lt_or_ge j (names ps).length with h | h
    · exact h
    · rw [List.getElem?_eq_none h] at h2; cases h2
  have e1 : (names ps)[i] = p.1 := by
    rw [List.getElem?_eq_getElem hi'] at h1; simpa using h1
  have e2 : (names ps)[j] = p.1 := by
    rw [List.getElem?_eq_getElem hj'] at h2; simpa using h2
  exact (List.getElem_inj (h₀ := hi') (h₁ := hj') hnd).mp (e1.trans e2.symm)

/-! ### the named loops -/

/-- the index set of `prepare_call` and the name environment of `parse_function_call` describe
    the same set of bound parameters -/
def Rel (ps : List Param) (I : List Nat) (E : List (String × Src)) : Prop :=
  ∀ i p, ps[i]? = some p → I.contains i = has E p.1

/-- `(param, named input)` pairs of the named arguments from input id `j` on -/
def opsOf (ps : List Param) : List String → Nat → List (Nat × Nat)
  | [], _ => []
  | n :: r, j => ((indexOf? (names ps) n).getD 0, j) :: opsOf ps r (j + 1)

theorem opsOf_env (ps : List Param) (named : List String) (j : Nat)
    (hs : ∀ n ∈ named, n ∈ names ps) :
    (opsOf ps named j).map (fun o => (nameAt ps o.1, Src.named o.2)) = namedEnv named j := by
  induction named generalizing j with
  | nil => rfl
  | cons n r ih =>
    simp only [opsOf, List.map_cons, namedEnv]
    have hn : n ∈ names ps := hs n (by simp)
    have hc : (names ps).contains n = true := by simpa using hn
    rw [← indexOf?_isSome] at hc
    obtain ⟨i, hi⟩ := Option.isSome_iff_exists.mp hc
    have : nameAt ps i = n := nameAt_position ps n i (by rw [position_toT]; exact hi)
    rw [hi]; simp only [Option.getD_some, this]
    rw [ih (j + 1) (fun m hm => hs m (List.mem_cons_of_mem _ hm))]

theorem namedLoop_sim (ps : List Param) (hnd : (names ps).Nodup) :
    ∀ (named : List String) (I : List Nat) (ops : List (Nat × Nat)) (E : List (String × Src)) (j : Nat),
      Rel ps I E →
      match bindNamed ps E named j with
      | .error e => ∃ e', Total.namedLoop (toT ps) I ops named j = .error e' ∧ absErr e' = e
      | .ok E' => ∃ I', Total.namedLoop (toT ps) I ops named j = .ok (I', ops ++ opsOf ps named j)
                    ∧ Rel ps I' E'
  | [], I, ops, E, j, hr => by
    simp only [bindNamed, Total.namedLoop, opsOf, List.append_nil]
    exact ⟨I, rfl, hr⟩
  | n :: rest, I, ops, E, j, hr => by
    simp only [bindNamed, Total.namedLoop]
    by_cases h1 : (names ps).contains n = true
    · simp only [h1, Bool.not_true, Bool.false_eq_true, ↓reduceIte]
      have hc := h1
      rw [← indexOf?_isSome] at hc
      obtain ⟨idx, hidx⟩ := Option.isSome_iff_exists.mp hc
      have hpos : Total.position (toT ps) n = some idx := by rw [position_toT]; exact hidx
      have hget := indexOf?_get _ _ _ hidx
      rw [names_get] at hget
      obtain ⟨p, hp, hpn⟩ := Option.map_eq_some_iff.mp hget
      simp only [hpos]
      have hrel := hr idx p hp
      rw [hpn] at hrel
      by_cases h2 : has E n = true
      · simp only [h2, ↓reduceIte]
        rw [h2] at hrel
        simp only [hrel, ↓reduceIte]
        exact ⟨_, rfl, rfl⟩
      · have h2' : has E n = false := by simpa using h2
        rw [h2'] at hrel
        simp only [h2', Bool.false_eq_true, ↓reduceIte, hrel]
        have hr' : Rel ps (idx :: I) (E ++ [(n, Src.named j)]) := by
          intro i q hq
          rw [has_append, ← hr i q hq]
          have hs : has [(n, Src.named j)] q.1 = (n == q.1) := by simp [has]
          rw [hs, List.contains_cons]
          have : (i == idx) = (n == q.1) := by
            by_cases e : q.1 = n
            · have := idx_inj ps hnd i idx q p hq hp (by rw [e, hpn])
              subst this; simp [e]
            · have hne : i ≠ idx := by
                intro hi; subst hi
                rw [hp] at hq; cases hq; exact e hpn
              have e' : ¬ n = q.1 := fun h => e h.symm
              rw [beq_eq_false_iff_ne.mpr hne, beq_eq_false_iff_ne.mpr e']
          rw [this, Bool.or_comm]
        have ih := namedLoop_sim ps hnd rest (idx :: I) (ops ++ [(idx, j)]) (E ++ [(n, Src.named j)]) (j + 1) hr'
        have hops : ops ++ opsOf ps (n :: rest) j = ops ++ [(idx, j)] ++ opsOf ps rest (j + 1) := by
          simp [opsOf, hidx]
        rw [hops]
        exact ih
    · have h1' : (names ps).contains n = false := by simpa using h1
      simp only [h1', Bool.not_false, ↓reduceIte]
      have hn : indexOf? (names ps) n = none := by
        have := indexOf?_isSome (names ps) n
        rw [h1'] at this
        exact Option.not_isSome_iff_eq_none.mp (by simp [this])
      have hpos : Total.position (toT ps) n = none := by rw [position_toT]; exact hn
      simp only [hpos]
      exact ⟨_, rfl, rfl⟩

/-! ### defaults -/

theorem defaults_sim (ps : List Param) (I : List Nat) (E : List (String × Src)) (hr : Rel ps I E) :
    ∀ (qs : List Param) (k : Nat), (∀ m p, qs[m]? = some p → ps[k + m]? = some p) →
      (Total.defaultsLoop I (toT qs) k).map (fun i => (nameAt ps i, Src.dflt)) = bindDefaults E qs
  | [], _, _ => rfl
  | q :: r, k, hq => by
    have h0 : ps[k]? = some q := by simpa using hq 0 q (by simp)
    have hrel := hr k q h0
    have ih := defaults_sim ps I E hr r (k + 1) (by
      intro m p hm
      have := hq (m + 1) p (by simpa using hm)
      rw [← this]; congr 1; omega)
    simp only [toT, List.map_cons, Total.defaultsLoop, bindDefaults, Option.isSome_some, Bool.true_and]
    rw [hrel]
    by_cases hc : (q.2 && !has E q.1) = true
    · simp only [hc, ↓reduceIte, List.map_cons, nameAt_of_get ps k q h0]
      simp only [toT] at ih
      rw [ih]
    · simp only [hc, Bool.false_eq_true, ↓reduceIte]
      simp only [toT] at ih
      rw [ih]

theorem bindDefaults_append (E : List (String × Src)) (a b : List Param) :
    bindDefaults E (a ++ b) = bindDefaults E a ++ bindDefaults E b := by
  induction a with
  | nil => rfl
  | cons p r ih =>
    simp only [List.cons_append, bindDefaults]
    split <;> simp [ih]

theorem bindDefaults_all_bound (E : List (String × Src)) (a : List Param)
    (h : ∀ p ∈ a, has E p.1 = true) : bindDefaults E a = [] := by
  induction a with
  | nil => rfl
  | cons p r ih =>
    simp only [bindDefaults]
    have := h p (by simp)
    simp only [this, Bool.not_true, Bool.and_false, Bool.false_eq_true, ↓reduceIte]
    exact ih (fun q hq => h q (List.mem_cons_of_mem _ hq))

/-! ### the unbound-parameter search -/

theorem firstUnbound_sim (named : List String) (qs : List Param) :
    Total.firstUnbound named (toT qs) = (firstUnbound named qs).map some := by
  induction qs with
  | nil => rfl
  | cons q r ih =>
    simp only [toT, List.map_cons, Total.firstUnbound, firstUnbound]
    split
    · simp only [toT] at ih; exact ih
    · rfl

/-! ### positional part -/

theorem rel_bindPos (ps : List Param) (hnd : (names ps).Nodup) (npos : Nat) (hle : npos ≤ ps.length) :
    Rel ps (List.range npos) (bindPos ps npos 0) := by
  intro i p hp
  have hb : has (bindPos ps npos 0) p.1 = decide (p.1 ∈ (names ps).take npos) := by
    have := has_iff (bindPos ps npos 0) p.1
    rw [bindPos_names ps npos 0] at this
    cases h : has (bindPos ps npos 0) p.1
    · rw [h] at this
      have : ¬ p.1 ∈ (names ps).take npos := by simpa using this
      simp [this]
    · rw [h] at this
      have : p.1 ∈ (names ps).take npos := by simpa using this
      simp [this]
  rw [hb]
  by_cases hi : i < npos
  · have : p.1 ∈ (names ps).take npos := mem_take_names_of_lt ps npos i p hp hi
    simp [hi, this]
  · have : p.1 ∉ (names ps).take npos := not_mem_take_of_ge ps hnd npos i p hp (by omega)
    simp [hi, this]

/-! ### the two binders agree -/

/-- **The prepared binder refines the interpreted binder.**  For every parameter list with
    pairwise different names and every call whose argument count fits `usize`, `prepare_call`
    (read through `absR`) and `parse_function_call` give the same answer. -/
theorem prepareCall_refines_parseCall (ps : List Param) (hnd : (names ps).Nodup) (npos : Nat)
    (named : List String) (hfit : npos + named.length < Total.USIZE) :
    absR ps npos (Total.prepareCall (toT ps) npos named) = parseCall ps npos named := by
  have hlen : (toT ps).length = ps.length := by simp [toT]
  simp only [Total.prepareCall, parseCall, hlen]
  by_cases hgt : npos > ps.length
  · simp [hgt, absR, absErr]
  · simp only [hgt, ↓reduceIte]
    have hle : npos ≤ ps.length := by omega
    simp only [Total.uadd, hfit, ↓reduceIte, Total.prepareTail, hlen]
    have sim := namedLoop_sim ps hnd named (List.range npos) [] (bindPos ps npos 0) 0
      (rel_bindPos ps hnd npos hle)
    cases hb : bindNamed ps (bindPos ps npos 0) named 0 with
    | error e =>
      rw [hb] at sim
      obtain ⟨e', h1, h2⟩ := sim
      simp only [h1, absR, h2]
    | ok passed =>
      rw [hb] at sim
      obtain ⟨I', h1, hr⟩ := sim
      simp only [h1, List.nil_append]
      have hwf := (named_wf_iff ps npos named passed).mp hb
      have hpassed : passed = bindPos ps npos 0 ++ namedEnv named 0 := hwf.2
      have hopsenv := opsOf_env ps named 0 hwf.1.sub
      by_cases hlt : npos + named.length < ps.length
      · have hlt' : named.length + npos < ps.length := by omega
        simp only [hlt, hlt', ↓reduceIte]
        -- the defaults
        have hdrop : ∀ m p, (ps.drop npos)[m]? = some p → ps[npos + m]? = some p := by
          intro m p h; simpa [List.getElem?_drop] using h
        have hd := defaults_sim ps I' passed hr (ps.drop npos) npos hdrop
        have hsplit : bindDefaults passed ps = bindDefaults passed (ps.drop npos) := by
          conv => lhs; rw [← List.take_append_drop npos ps, bindDefaults_append]
          rw [bindDefaults_all_bound, List.nil_append]
          intro p hp
          rw [hpassed, has_append]
          have : has (bindPos ps npos 0) p.1 = true := by
            rw [has_iff, bindPos_names ps npos 0]
            simp only [names, ← List.map_take]
            exact List.mem_map_of_mem (f := (·.1)) hp
          simp [this]
        have hdl : (Total.defaultsLoop I' (List.drop npos (toT ps)) npos).length
            = (bindDefaults passed ps).length := by
          have : List.drop npos (toT ps) = toT (ps.drop npos) := by simp [toT, List.map_drop]
          rw [this, hsplit, ← hd, List.length_map]
        have hdrop' : List.drop npos (toT ps) = toT (ps.drop npos) := by simp [toT, List.map_drop]
        by_cases hcount : (Total.defaultsLoop I' (List.drop npos (toT ps)) npos).length
            = ps.length - (npos + named.length)
        · have hc2 : ¬ (named.length + (bindDefaults passed ps).length + npos != ps.length) = true := by
            rw [← hdl, hcount]; simp; omega
          simp only [hcount, bne_self_eq_false, Bool.false_eq_true, ↓reduceIte, hc2, absR, envOf]
          rw [hopsenv, hdrop', hd, ← hsplit, hpassed]
        · have hc2 : (named.length + (bindDefaults passed ps).length + npos != ps.length) = true := by
            rw [← hdl]; simp; omega
          have hc1 : ((Total.defaultsLoop I' (List.drop npos (toT ps)) npos).length
              != ps.length - (npos + named.length)) = true := by simpa using hcount
          simp only [hc1, ↓reduceIte, hc2, hdrop', firstUnbound_sim]
          rw [hdrop'] at hcount
          cases firstUnbound named (ps.drop npos) with
          | none => simp [absR, hcount]
          | some n => simp [absR, absErr, hcount]
      · have hlt' : ¬ named.length + npos < ps.length := by omega
        simp only [hlt, hlt', ↓reduceIte, absR, envOf, List.map_nil, List.append_nil]
        rw [hopsenv, hpassed]

end JrsVerif.BindPrepared
