/- C11 (round 3) helper lemmas: UTF-8 self-synchronisation, the byte-offset searchers against
   code-point occurrences, split / rsplit / replace / ends_with / count / escapers on bytes. -/
import JrsVerif.Proofs.Str
import JrsVerif.Model.StrBytes

namespace JrsVerif.Str
open Model (nextMatch nextMatchBack splitnF rsplitnF replaceF)

/-! ### UTF-8 is self-synchronising -/

/-- every encoded code point is one non-continuation byte followed by continuation bytes -/
theorem enc1_shape (c : Nat) :
    ∃ b0 cs, enc1 c = b0 :: cs ∧ isCont b0 = false ∧ ∀ x ∈ cs, isCont x = true := by
  unfold enc1
  split
  · exact ⟨c, [], rfl, by simp [isCont]; omega, by simp⟩
  · split
    · refine ⟨_, _, rfl, by simp [isCont], ?_⟩
      intro x hx; simp at hx; subst hx; simp [isCont]; omega
    · split
      · refine ⟨_, _, rfl, by simp [isCont] <;> omega, ?_⟩
        intro x hx; simp at hx; rcases hx with rfl | rfl <;> (simp [isCont]; omega)
      · refine ⟨_, _, rfl, by simp [isCont] <;> omega, ?_⟩
        intro x hx; simp at hx; rcases hx with rfl | rfl | rfl <;> (simp [isCont]; omega)

theorem enc_head {sep : List Nat} (h : sep ≠ []) : ∃ b r, enc sep = b :: r ∧ isCont b = false := by
  cases sep with
  | nil => exact absurd rfl h
  | cons c s =>
    obtain ⟨b0, cs, he, hb, _⟩ := enc1_shape c
    exact ⟨b0, cs ++ enc s, by simp [enc, he], hb⟩

theorem enc_ne_nil {sep : List Nat} (h : sep ≠ []) : enc sep ≠ [] := fun e => h (enc_eq_nil.mp e)

theorem isPrefixOf_cont {pat t : List Nat} {h b : Nat} {r : List Nat} (hp : pat = h :: r)
    (hh : isCont h = false) (hb : isCont b = true) : pat.isPrefixOf (b :: t) = false := by
  subst hp
  have : h ≠ b := fun e => by subst e; rw [hh] at hb; cases hb
  simp [List.isPrefixOf, this]

/-- a non-continuation byte inside an encoded string starts a code point -/
theorem conts_prefix (cs : List Nat) (hcs : ∀ x ∈ cs, isCont x = true) (X P R : List Nat) (h : Nat)
    (he : cs ++ X = P ++ h :: R) (hh : isCont h = false) : ∃ P', P = cs ++ P' ∧ X = P' ++ h :: R := by
  induction cs generalizing P with
  | nil => exact ⟨P, rfl, by simpa using he⟩
  | cons x cs ih =>
    cases P with
    | nil =>
      simp only [List.cons_append, List.nil_append, List.cons.injEq] at he
      have := hcs x (by simp)
      rw [he.1, hh] at this; cases this
    | cons y P =>
      simp only [List.cons_append, List.cons.injEq] at he
      obtain ⟨P', e1, e2⟩ := ih (fun z hz => hcs z (by simp [hz])) P he.2
      exact ⟨P', by simp [he.1, e1], e2⟩

theorem enc_split_boundary (a : List Nat) : ∀ (P R : List Nat) (h : Nat),
    enc a = P ++ h :: R → isCont h = false → ∃ p q, a = p ++ q ∧ enc p = P ∧ enc q = h :: R := by
  induction a with
  | nil => intro P R h he; simp [enc] at he
  | cons c t ih =>
    intro P R h he hh
    cases P with
    | nil => exact ⟨[], c :: t, rfl, rfl, by simpa using he⟩
    | cons b P =>
      obtain ⟨b0, cs, hc, _, hcs⟩ := enc1_shape c
      simp only [enc, hc, List.cons_append, List.cons.injEq] at he
      obtain ⟨P', e1, e2⟩ := conts_prefix cs hcs (enc t) P R h he.2 hh
      obtain ⟨p, q, e3, e4, e5⟩ := ih P' R h e2 hh
      refine ⟨c :: p, q, by simp [e3], ?_, e5⟩
      simp [enc, hc, e4, e1, he.1]

theorem enc_suffix_iff (b a : List Nat) : enc b <:+ enc a ↔ b <:+ a := by
  constructor
  · rintro ⟨P, hP⟩
    by_cases hb : b = []
    · subst hb; exact List.nil_suffix
    · obtain ⟨h, r, he, hh⟩ := enc_head hb
      rw [he] at hP
      obtain ⟨p, q, e1, _, e3⟩ := enc_split_boundary a P r h hP.symm hh
      rw [← he] at e3
      have := enc_injective e3
      subst this
      exact ⟨p, e1.symm⟩
  · rintro ⟨k, rfl⟩
    rw [enc_append]; exact List.suffix_append _ _

/-! ### searchers: byte offsets against code-point offsets -/

theorem nextMatch_skip (pat : List Nat) (b : Nat) (t : List Nat) (h : pat.isPrefixOf (b :: t) = false) :
    nextMatch pat (b :: t) = (nextMatch pat t).map (fun pq => (b :: pq.1, pq.2)) := by
  simp only [nextMatch, h, Bool.false_eq_true, if_false]
  cases nextMatch pat t with
  | none => rfl
  | some pq => rfl

theorem nextMatch_hit (pat : List Nat) (b : Nat) (t : List Nat) (h : pat.isPrefixOf (b :: t) = true) :
    nextMatch pat (b :: t) = some ([], (b :: t).drop pat.length) := by
  simp only [nextMatch, h, if_true]

theorem nextMatch_skip_conts {pat : List Nat} {h : Nat} {r : List Nat} (hp : pat = h :: r)
    (hh : isCont h = false) (cs rest : List Nat) (hcs : ∀ x ∈ cs, isCont x = true) :
    nextMatch pat (cs ++ rest) = (nextMatch pat rest).map (fun pq => (cs ++ pq.1, pq.2)) := by
  induction cs with
  | nil => simp only [List.nil_append]; cases nextMatch pat rest <;> rfl
  | cons x cs ih =>
    rw [List.cons_append, nextMatch_skip _ _ _ (isPrefixOf_cont hp hh (hcs x (by simp))),
      ih (fun z hz => hcs z (by simp [hz]))]
    cases nextMatch pat rest <;> simp

theorem enc_isPrefixOf (sep s : List Nat) : (enc sep).isPrefixOf (enc s) = sep.isPrefixOf s := by
  rw [Bool.eq_iff_iff, List.isPrefixOf_iff_prefix, List.isPrefixOf_iff_prefix]
  exact enc_prefix_iff sep s

theorem enc_drop_of_prefix {sep s : List Nat} (h : sep <+: s) :
    (enc s).drop (enc sep).length = enc (s.drop sep.length) := by
  obtain ⟨k, rfl⟩ := h
  rw [enc_append]; simp

theorem enc_cons_shape (c : Nat) (t : List Nat) :
    ∃ b0 cs, enc (c :: t) = b0 :: (cs ++ enc t) ∧ enc1 c = b0 :: cs ∧ ∀ x ∈ cs, isCont x = true := by
  obtain ⟨b0, cs, hc, _, hcs⟩ := enc1_shape c
  exact ⟨b0, cs, by simp [enc, hc], hc, hcs⟩

/-- the leftmost occurrence over ALL byte offsets is the leftmost code-point occurrence -/
theorem nextMatch_enc (sep s : List Nat) (hsep : sep ≠ []) :
    nextMatch (enc sep) (enc s) = (nextMatch sep s).map (fun pq => (enc pq.1, enc pq.2)) := by
  obtain ⟨h, r, hp, hh⟩ := enc_head hsep
  induction s with
  | nil => simp [enc, nextMatch]
  | cons c t ih =>
    obtain ⟨b0, cs, hE, hc, hcs⟩ := enc_cons_shape c t
    have hpb := enc_isPrefixOf sep (c :: t)
    by_cases hpre : sep.isPrefixOf (c :: t) = true
    · rw [nextMatch_hit sep c t hpre]
      rw [hpre, hE] at hpb
      rw [hE, nextMatch_hit _ _ _ hpb, ← hE,
        enc_drop_of_prefix (List.isPrefixOf_iff_prefix.mp hpre)]
      simp [enc]
    · have hpre' : sep.isPrefixOf (c :: t) = false := Bool.eq_false_iff.mpr hpre
      rw [nextMatch_skip sep c t hpre']
      rw [hpre', hE] at hpb
      rw [hE, nextMatch_skip _ _ _ hpb, nextMatch_skip_conts hp hh cs (enc t) hcs, ih]
      cases nextMatch sep t with
      | none => rfl
      | some pq => simp [enc, hc]

theorem nextMatchBack_append_some (pat pre rest p q : List Nat)
    (h : nextMatchBack pat rest = some (p, q)) : nextMatchBack pat (pre ++ rest) = some (pre ++ p, q) := by
  induction pre with
  | nil => simpa using h
  | cons x pre ih => simp [nextMatchBack, ih]

theorem nextMatchBack_conts_none {pat : List Nat} {h : Nat} {r : List Nat} (hp : pat = h :: r)
    (hh : isCont h = false) (cs rest : List Nat) (hcs : ∀ x ∈ cs, isCont x = true)
    (hn : nextMatchBack pat rest = none) : nextMatchBack pat (cs ++ rest) = none := by
  induction cs with
  | nil => simpa using hn
  | cons x cs ih =>
    simp [nextMatchBack, ih (fun z hz => hcs z (by simp [hz])),
      isPrefixOf_cont hp hh (hcs x (by simp))]

/-- the rightmost occurrence over all byte offsets is the rightmost code-point occurrence -/
theorem nextMatchBack_enc (sep s : List Nat) (hsep : sep ≠ []) :
    nextMatchBack (enc sep) (enc s) = (nextMatchBack sep s).map (fun pq => (enc pq.1, enc pq.2)) := by
  obtain ⟨h, r, hp, hh⟩ := enc_head hsep
  induction s with
  | nil => simp [enc, nextMatchBack]
  | cons c t ih =>
    obtain ⟨b0, cs, hE, hc, hcs⟩ := enc_cons_shape c t
    have hpb := enc_isPrefixOf sep (c :: t)
    cases hb : nextMatchBack sep t with
    | some pq =>
      rw [hb] at ih
      have := nextMatchBack_append_some (enc sep) (enc1 c) (enc t) _ _ ih
      simp only [enc, this, nextMatchBack, hb, Option.map_some]
    | none =>
      rw [hb] at ih
      have hn := nextMatchBack_conts_none hp hh cs (enc t) hcs ih
      rw [hE]
      simp only [nextMatchBack, hn, hb]
      rw [← hE, hpb]
      by_cases hpre : sep.isPrefixOf (c :: t) = true
      · simp only [hpre, if_true, Option.map_some]
        rw [enc_drop_of_prefix (List.isPrefixOf_iff_prefix.mp hpre)]
        simp [enc]
      · simp [hpre]

theorem nextMatch_eq {pat : List Nat} : ∀ {s p q : List Nat}, nextMatch pat s = some (p, q) →
    s = p ++ pat ++ q := by
  intro s
  induction s with
  | nil => intro p q h; simp [nextMatch] at h
  | cons b t ih =>
    intro p q h
    by_cases hpre : pat.isPrefixOf (b :: t) = true
    · rw [nextMatch_hit _ _ _ hpre] at h
      simp only [Option.some.injEq, Prod.mk.injEq] at h
      obtain ⟨rfl, rfl⟩ := h
      obtain ⟨k, hk⟩ := List.isPrefixOf_iff_prefix.mp hpre
      rw [← hk]; simp
    · have hpre' : pat.isPrefixOf (b :: t) = false := Bool.eq_false_iff.mpr hpre
      rw [nextMatch_skip _ _ _ hpre'] at h
      cases hn : nextMatch pat t with
      | none => rw [hn] at h; simp at h
      | some pq =>
        rw [hn] at h
        simp only [Option.map_some, Option.some.injEq, Prod.mk.injEq] at h
        obtain ⟨rfl, rfl⟩ := h
        have := ih (p := pq.1) (q := pq.2) hn
        simp [← this]

theorem nextMatch_lt {pat s p q : List Nat} (hp : pat ≠ []) (h : nextMatch pat s = some (p, q)) :
    q.length < s.length := by
  have := congrArg List.length (nextMatch_eq h)
  have : 0 < pat.length := List.length_pos_iff.mpr hp
  simp only [List.length_append] at *
  omega

/-! ### split: the `SplitN` loop is the reference scan -/

theorem splitGo_lim0 (sep s cur : List Nat) : Spec.splitGo sep (some 0) s cur = [cur.reverse ++ s] := by
  cases s with
  | nil => rw [Spec.splitGo]; simp
  | cons c t => rw [Spec.splitGo]; simp

theorem splitGo_step (sep : List Nat) (hsep : sep ≠ []) (lim : Option Nat) (hl : lim ≠ some 0)
    (s cur : List Nat) :
    Spec.splitGo sep lim s cur =
      match nextMatch sep s with
      | none => [cur.reverse ++ s]
      | some (p, q) => (cur.reverse ++ p) :: Spec.splitGo sep (lim.map (· - 1)) q [] := by
  have hl' : (lim == some 0) = false := by simpa using hl
  induction s generalizing cur with
  | nil => rw [Spec.splitGo]; simp [nextMatch]
  | cons c t ih =>
    rw [Spec.splitGo]
    simp only [hl', Bool.false_eq_true, if_false]
    by_cases hpre : sep.isPrefixOf (c :: t) = true
    · rw [nextMatch_hit _ _ _ hpre]
      simp only [hpre, if_true]
      cases sep with
      | nil => exact absurd rfl hsep
      | cons d sep' => simp
    · have hpre' : sep.isPrefixOf (c :: t) = false := Bool.eq_false_iff.mpr hpre
      rw [nextMatch_skip _ _ _ hpre', ih (c :: cur)]
      simp only [hpre', Bool.false_eq_true, if_false]
      cases nextMatch sep t with
      | none => simp
      | some pq => simp

theorem splitnF_eq_splitGo (pat : List Nat) (hp : pat ≠ []) (f : Nat) :
    ∀ (lim : Option Nat) (s : List Nat), s.length < f →
      splitnF pat f (lim.map (· + 1)) s = Spec.splitGo pat lim s [] := by
  induction f with
  | zero => intro lim s h; omega
  | succ f ih =>
    intro lim s hf
    cases lim with
    | none =>
      simp only [splitnF, Option.map_none]
      rw [splitGo_step pat hp none (by simp) s []]
      cases hn : nextMatch pat s with
      | none => simp
      | some pq =>
        have := nextMatch_lt hp (p := pq.1) (q := pq.2) hn
        have e := ih none pq.2 (by omega)
        simp only [Option.map_none] at e
        simp [e]
    | some n =>
      cases n with
      | zero => simp [splitnF, splitGo_lim0]
      | succ m =>
        simp only [splitnF, Option.map_some]
        rw [splitGo_step pat hp (some (m + 1)) (by simp) s []]
        cases hn : nextMatch pat s with
        | none => simp
        | some pq =>
          have := nextMatch_lt hp (p := pq.1) (q := pq.2) hn
          have e := ih (some m) pq.2 (by omega)
          simp only [Option.map_some] at e
          simp [e]

theorem splitGo_enc (sep : List Nat) (hsep : sep ≠ []) (n : Nat) :
    ∀ (lim : Option Nat) (s : List Nat), s.length < n →
      Spec.splitGo (enc sep) lim (enc s) [] = (Spec.splitGo sep lim s []).map enc := by
  induction n with
  | zero => intro lim s h; omega
  | succ n ih =>
    intro lim s hs
    by_cases hl : lim = some 0
    · subst hl; simp [splitGo_lim0]
    · rw [splitGo_step (enc sep) (enc_ne_nil hsep) lim hl, splitGo_step sep hsep lim hl,
        nextMatch_enc sep s hsep]
      cases hn : nextMatch sep s with
      | none => simp
      | some pq =>
        have := nextMatch_lt hsep (p := pq.1) (q := pq.2) hn
        simp [ih (lim.map (· - 1)) pq.2 (by omega)]

theorem splitLimitBytes_eq (s sep : List Nat) (lim : Option Nat) (hsep : sep ≠ []) :
    Model.splitLimitBytes s sep lim = (Spec.splitLimit s sep lim).map enc := by
  unfold Model.splitLimitBytes Spec.splitLimit
  rw [splitnF_eq_splitGo _ (enc_ne_nil hsep) _ _ _ (by omega), splitGo_enc sep hsep _ _ _ (Nat.lt_succ_self _)]

/-! ### replace -/

theorem replaceF_eq (pat to : List Nat) (hp : pat ≠ []) (f : Nat) : ∀ s : List Nat, s.length < f →
    replaceF pat to f s = List.intercalate to (Spec.splitGo pat none s []) := by
  induction f with
  | zero => intro s h; omega
  | succ f ih =>
    intro s hf
    simp only [replaceF]
    rw [splitGo_step pat hp none (by simp) s []]
    cases hn : nextMatch pat s with
    | none => simp [List.intercalate]
    | some pq =>
      have := nextMatch_lt hp (p := pq.1) (q := pq.2) hn
      simp only [List.reverse_nil, List.nil_append, Option.map_none]
      rw [intercalate_cons_ne _ _ _ (splitGo_ne_nil _ _ _ _), ih pq.2 (by omega)]

theorem enc_intercalate (t : List Nat) (l : List (List Nat)) :
    enc (List.intercalate t l) = List.intercalate (enc t) (l.map enc) := by
  induction l with
  | nil => simp [List.intercalate, enc]
  | cons a r ih =>
    cases r with
    | nil => simp [List.intercalate]
    | cons b r =>
      rw [intercalate_cons_ne t a (b :: r) (by simp), List.map_cons,
        intercalate_cons_ne (enc t) (enc a) ((b :: r).map enc) (by simp), enc_append, enc_append, ih]

theorem strReplaceBytes_eq (s from_ to : List Nat) (h : from_ ≠ []) :
    Model.strReplaceBytes s from_ to = some (enc (Spec.strReplace s from_ to)) := by
  unfold Model.strReplaceBytes Spec.strReplace Spec.splitLimit
  have : from_.isEmpty = false := by simpa using h
  simp only [this, Bool.false_eq_true, if_false]
  rw [replaceF_eq _ _ (enc_ne_nil h) _ _ (Nat.lt_succ_self _),
    splitGo_enc from_ h _ _ _ (Nat.lt_succ_self _), enc_intercalate]

/-- the split-free reading of replace: scan, substitute at an occurrence and jump over it -/
theorem intercalate_splitGo_scan (pat to : List Nat) (s cur : List Nat) :
    List.intercalate to (Spec.splitGo pat none s cur) = cur.reverse ++ Spec.replaceScan pat to s := by
  generalize hl : (none : Option Nat) = lim
  fun_induction Spec.splitGo pat lim s cur with
  | case1 lim cur => rw [Spec.replaceScan]; simp [List.intercalate]
  | case2 lim cur c t h => subst hl; simp at h
  | case3 lim cur c t h hp ih =>
    subst hl
    rw [intercalate_cons_ne _ _ _ (splitGo_ne_nil _ _ _ _), ih (by simp), Spec.replaceScan]
    simp [hp]
  | case4 lim cur c t h hp ih =>
    rw [ih hl, Spec.replaceScan]
    simp [hp]

theorem replaceScan_single (c : Nat) (to s : List Nat) :
    Spec.replaceScan [c] to s = s.flatMap (fun x => if x == c then to else [x]) := by
  induction s with
  | nil => rw [Spec.replaceScan]; simp
  | cons x t ih =>
    rw [Spec.replaceScan]
    by_cases hx : c = x
    · subst hx; simp [List.isPrefixOf, ih]
    · have : ¬ x = c := fun e => hx e.symm
      simp [List.isPrefixOf, hx, this, ih]

/-! ### ends_with, count, is_empty -/

theorem endsWith_eq (a b : List Nat) : Model.endsWith a b = Spec.endsWith a b := by
  unfold Model.endsWith Spec.endsWith
  rw [Bool.eq_iff_iff, List.isSuffixOf_iff_suffix, ← enc_suffix_iff]
  simp only [Bool.and_eq_true, decide_eq_true_eq, beq_iff_eq]
  constructor
  · rintro ⟨_, h2⟩
    rw [List.suffix_iff_eq_drop]; exact h2.symm
  · intro h
    exact ⟨h.length_le, (List.suffix_iff_eq_drop.mp h).symm⟩

theorem countP_conts (cs : List Nat) (hcs : ∀ x ∈ cs, isCont x = true) :
    cs.countP (fun b => !isCont b) = 0 := by
  rw [List.countP_eq_zero]
  intro x hx; simp [hcs x hx]

theorem lengthBytes_eq (s : List Nat) : Model.lengthBytes s = s.length := by
  unfold Model.lengthBytes
  induction s with
  | nil => simp [enc]
  | cons c t ih =>
    obtain ⟨b0, cs, hc, hb, hcs⟩ := enc1_shape c
    simp only [enc, hc, List.cons_append, List.countP_cons, List.countP_append, hb,
      countP_conts cs hcs, ih, List.length_cons]
    simp

theorem isEmptyBytes_eq (s : List Nat) : Model.isEmptyBytes s = s.isEmpty := by
  unfold Model.isEmptyBytes
  cases s with
  | nil => simp [enc]
  | cons c t =>
    have := enc1_length_pos c
    simp only [enc, List.length_append, List.isEmpty_cons, beq_eq_false_iff_ne, ne_eq]
    omega

/-! ### escapers: byte-wise substitution of ASCII bytes is code-point-wise substitution -/

theorem enc1_high {c : Nat} (h : 128 ≤ c) : ∀ b ∈ enc1 c, 128 ≤ b := by
  unfold enc1
  have : ¬ c < 128 := by omega
  simp only [this, if_false]
  repeat' split
  all_goals (intro b hb; simp at hb; omega)

theorem enc1_low {c : Nat} (h : c < 128) : enc1 c = [c] := by simp [enc1, h]

theorem flatMap_enc (fb fc : Nat → List Nat) (hlo : ∀ c, c < 128 → fb c = enc (fc c))
    (hhiB : ∀ b, 128 ≤ b → fb b = [b]) (hhiC : ∀ c, 128 ≤ c → fc c = [c]) (s : List Nat) :
    (enc s).flatMap fb = enc (s.flatMap fc) := by
  induction s with
  | nil => simp [enc]
  | cons c t ih =>
    simp only [enc, List.flatMap_append, List.flatMap_cons, enc_append, ih]
    congr 1
    by_cases hc : c < 128
    · simp [enc1_low hc, hlo c hc]
    · have hc' : 128 ≤ c := by omega
      rw [hhiC c hc']
      simp only [enc, List.append_nil]
      have : ∀ l : List Nat, (∀ b ∈ l, 128 ≤ b) → l.flatMap fb = l := by
        intro l hl
        induction l with
        | nil => rfl
        | cons x l ihl =>
          simp only [List.flatMap_cons, hhiB x (hl x (by simp)), ihl (fun b hb => hl b (by simp [hb]))]
          rfl
      exact this _ (enc1_high hc')

end JrsVerif.Str
