/- C17 — helper lemmas for the multi-file trace model (`Model/LocTrace.lean`). -/
import JrsVerif.Proofs.Loc
import JrsVerif.Model.LocTrace

namespace JrsVerif.Loc
open Spec

/-- a frame whose span is `[|pre₁|, |pre₂|)` in its own text: the two locations handed to
    `print_code_location` are the reference locations of the two ends -/
theorem frameLoc_eq_spec (pre₁ post₁ pre₂ post₂ : List Char) (h : pre₁ ++ post₁ = pre₂ ++ post₂) :
    frameLoc (pre₁ ++ post₁) (byteLen pre₁) (byteLen pre₂) =
      printCodeLocation (Spec.locate pre₁ post₁) (Spec.locate pre₂ post₂) := by
  have hv : Boundaries (pre₁ ++ post₁) [byteLen pre₁, byteLen pre₂] := by
    intro o ho; simp at ho
    rcases ho with rfl | rfl
    · exact ⟨pre₁, post₁, rfl, by simp⟩
    · exact ⟨pre₂, post₂, h, by simp⟩
  have h1 := locFn_eq_spec pre₁ post₁ _ hv 0 (by simp)
  have h2 := locFn_eq_spec pre₂ post₂ [byteLen pre₁, byteLen pre₂] (h ▸ hv) 1 (by simp)
  rw [← h] at h2
  simp [frameLoc, h1, h2]

theorem locFn_single (pre post : List Char) : locFn (pre ++ post) [byteLen pre] 0 = Spec.locate pre post := by
  have hv : Boundaries (pre ++ post) [byteLen pre] := by
    intro o ho; simp at ho; subst ho; exact ⟨pre, post, rfl, by simp⟩
  exact locFn_eq_spec pre post [byteLen pre] hv 0 (by simp)

theorem utf8Size_pos (c : Char) : 0 < c.utf8Size := by
  have := Char.utf8Size_pos c; omega

theorem byteLen_pos_of_ne_nil (cs : List Char) (h : cs ≠ []) : 0 < byteLen cs := by
  cases cs with
  | nil => exact absurd rfl h
  | cons c cs => have := utf8Size_pos c; simp [byteLen]; omega

theorem line_snoc (pre : List Char) (c : Char) (hc : c ≠ '\n') : Spec.line (pre ++ [c]) = Spec.line pre := by
  simp [Spec.line, List.count_append, hc]

theorem column_snoc (pre : List Char) (c : Char) (hc : c ≠ '\n') :
    Spec.column (pre ++ [c]) = Spec.column pre + 1 := by
  simp [Spec.column, linePrefix_snoc pre c hc]

end JrsVerif.Loc
