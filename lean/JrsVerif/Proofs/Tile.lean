/- C17 — ranges that tile `[a, n)` cut the input into pieces whose concatenation is the input. -/
import JrsVerif.Model.Tile

namespace JrsVerif.Tile

theorem tiles_concat_from {α : Type} (xs : List α) :
    ∀ (rs : List (Nat × Nat)) (a : Nat), tilesB a xs.length rs = true →
      (rs.map (slice xs)).flatten = xs.drop a := by
  intro rs
  induction rs with
  | nil =>
    intro a h
    simp [tilesB] at h
    simp [h]
  | cons r rs ih =>
    intro a h
    obtain ⟨s, e⟩ := r
    simp [tilesB] at h
    obtain ⟨⟨⟨rfl, hse⟩, hen⟩, hrest⟩ := h
    simp only [List.map_cons, List.flatten_cons, ih e hrest, slice]
    have : xs.drop e = (xs.drop s).drop (e - s) := by
      rw [List.drop_drop]; congr 1; omega
    rw [this, List.take_append_drop]

end JrsVerif.Tile
