/- C15 — helper lemmas: option plumbing, rendering, double-NUL framing. -/
import JrsVerif.Model.Cli

namespace JrsVerif.Cli

/-! ## plumbing -/

theorem lookup_insert (m : VarMap) (k n : String) (v : Setting) :
    lookup (insert m k v) n = if k = n then some v else lookup m n := by
  simp [insert, lookup]

theorem lookup_foldl (kind : ArgKind) (l : List VarOpt) (m : VarMap) (n : String) :
    lookup (l.foldl (fun m o => insert m o.name (kind, o.payload)) m) n
      = ((l.reverse.find? (fun o => o.name = n)).map (fun o => (kind, o.payload))).or (lookup m n) := by
  induction l generalizing m with
  | nil => simp
  | cons o l ih =>
    simp only [List.foldl_cons, List.reverse_cons, List.find?_append]
    rw [ih, lookup_insert]
    cases h : l.reverse.find? (fun o => decide (o.name = n)) with
    | some x => simp
    | none =>
      by_cases hn : o.name = n
      · simp [hn]
      · simp [hn]

theorem lookup_insertAll (fl : Flavour) (opts : List VarOpt) (m : VarMap) (n : String) :
    lookup (insertAll (kindOf fl) fl opts m) n = (lastOf fl opts n).or (lookup m n) := by
  unfold insertAll lastOf
  exact lookup_foldl _ _ _ _

theorem lookup_plumbVars (opts : List VarOpt) (n : String) :
    lookup (plumbVars opts) n = specLookup opts n := by
  unfold plumbVars specLookup
  have h1 := lookup_insertAll .codeFile opts
  have h2 := lookup_insertAll .code opts
  have h3 := lookup_insertAll .strFile opts
  have h4 := lookup_insertAll .str opts
  simp only [kindOf] at h1 h2 h3 h4
  rw [h1, h2, h3, h4]
  simp [lookup]

theorem find?_reverse_unique {α : Type} (p : α → Bool) (l : List α) (o : α) (hm : o ∈ l) (hp : p o = true)
    (huniq : ∀ o' ∈ l, p o' = true → o' = o) : l.reverse.find? p = some o := by
  have hex : ∃ x, l.reverse.find? p = some x := by
    cases h : l.reverse.find? p with
    | some x => exact ⟨x, rfl⟩
    | none =>
      rw [List.find?_eq_none] at h
      have := h o (List.mem_reverse.mpr hm)
      simp [hp] at this
  obtain ⟨x, hx⟩ := hex
  have hxm : x ∈ l := List.mem_reverse.mp (List.mem_of_find?_eq_some hx)
  have hxp : p x = true := List.find?_some hx
  rw [hx, huniq x hxm hxp]

theorem lastOf_other (fl : Flavour) (opts : List VarOpt) (o : VarOpt) (hfl : o.fl ≠ fl)
    (huniq : ∀ o' ∈ opts, o'.name = o.name → o' = o) : lastOf fl opts o.name = none := by
  unfold lastOf
  have : (opts.filter (fun o => o.fl = fl)).reverse.find? (fun x => x.name = o.name) = none := by
    rw [List.find?_eq_none]
    intro x hx
    have hx' := List.mem_reverse.mp hx
    rw [List.mem_filter] at hx'
    intro hname
    have hname' : x.name = o.name := by simpa using hname
    have := huniq x hx'.1 hname'
    subst this
    have : x.fl = fl := by simpa using hx'.2
    exact hfl this
  rw [this]; rfl

theorem lastOf_self (opts : List VarOpt) (o : VarOpt) (hm : o ∈ opts)
    (huniq : ∀ o' ∈ opts, o'.name = o.name → o' = o) :
    lastOf o.fl opts o.name = some (kindOf o.fl, o.payload) := by
  unfold lastOf
  have : (opts.filter (fun x => x.fl = o.fl)).reverse.find? (fun x => x.name = o.name) = some o := by
    apply find?_reverse_unique
    · rw [List.mem_filter]; exact ⟨hm, by simp⟩
    · simp
    · intro o' ho' hp
      rw [List.mem_filter] at ho'
      exact huniq o' ho'.1 (by simpa using hp)
  rw [this]; rfl

/-! ## rendering -/

theorem renderFields_exit (dir : String) (nl : Bool) (fs : List (String × FieldRes)) (r : Rendered)
    (h0 : r.exit = 0) (hs : r.stderr = false) :
    ((renderFields dir nl fs r).exit = 0 ↔ fs.all (fun f => f.2.isOk) = true) ∧
    ((renderFields dir nl fs r).stderr = true ↔ fs.all (fun f => f.2.isOk) = false) := by
  induction fs generalizing r with
  | nil => simp [renderFields, h0, hs]
  | cons f rest ih =>
    obtain ⟨name, res⟩ := f
    cases res with
    | evalErr => simp [renderFields, FieldRes.isOk]
    | manErr => simp [renderFields, FieldRes.isOk]
    | ok t =>
      simp only [renderFields, List.all_cons, FieldRes.isOk, Bool.true_and]
      exact ih _ h0 hs

/-! ## framing -/

theorem segs_append (s : Bytes) (cur rest : Bytes) (h : ∀ b ∈ s, b ≠ 0) :
    segs (s ++ 0 :: rest) cur = (cur.reverse ++ s) :: segs rest [] := by
  induction s generalizing cur with
  | nil => simp [segs]
  | cons b s ih =>
    have hb : b ≠ 0 := h b (List.mem_cons_self ..)
    obtain ⟨b', rfl⟩ : ∃ b', b = b' + 1 := ⟨b - 1, by omega⟩
    simp only [List.cons_append, segs]
    rw [ih _ (fun x hx => h x (List.mem_cons_of_mem _ hx))]
    simp

def flat (r : List (Bytes × Bytes)) : Bytes := r.flatMap (fun kv => kv.1 ++ 0 :: (kv.2 ++ [0]))

theorem multiGo_false (r : List (Bytes × Bytes)) (tail : Bytes) :
    multiGo false r ++ 0 :: tail = 0 :: (flat r ++ tail) := by
  induction r with
  | nil => simp [multiGo, flat]
  | cons kv r ih =>
    obtain ⟨k, v⟩ := kv
    simp only [multiGo, flat, List.flatMap_cons, Bool.false_eq_true, if_false] at ih ⊢
    simp only [List.append_assoc, List.cons_append, List.nil_append]
    rw [ih]

theorem multiToRaw_cons (kv : Bytes × Bytes) (r : List (Bytes × Bytes)) :
    multiToRaw (kv :: r) = flat (kv :: r) ++ [0] := by
  obtain ⟨k, v⟩ := kv
  unfold multiToRaw
  simp only [multiGo, if_true, List.nil_append, flat, List.flatMap_cons, List.append_assoc]
  have := multiGo_false r [0]
  simp only [flat] at this
  simp only [List.cons_append, List.nil_append]
  rw [this]
  simp

theorem pairUp_nil_cons (X : List Bytes) : pairUp ([] :: X) = [] := by
  cases X with
  | nil => rfl
  | cons v rest => simp [pairUp]

theorem decode_flat (r : List (Bytes × Bytes)) (extra : Bytes)
    (h : ∀ kv ∈ r, (∀ b ∈ kv.1, b ≠ 0) ∧ (∀ b ∈ kv.2, b ≠ 0) ∧ kv.1 ≠ []) :
    decodeMulti (flat r ++ 0 :: extra) = r := by
  unfold decodeMulti
  induction r with
  | nil => simp [flat, segs, pairUp_nil_cons]
  | cons kv r ih =>
    obtain ⟨k, v⟩ := kv
    obtain ⟨hk, hv, hne⟩ := h (k, v) (List.mem_cons_self ..)
    simp only [flat, List.flatMap_cons, List.append_assoc, List.cons_append] at ih ⊢
    rw [segs_append k [] _ hk]
    simp only [List.reverse_nil, List.nil_append]
    rw [segs_append v [] _ hv]
    simp only [List.reverse_nil, List.nil_append, pairUp, hne, if_false]
    congr 1
    exact ih (fun kv hkv => h kv (List.mem_cons_of_mem _ hkv))

def flatS (r : List Bytes) : Bytes := r.flatMap (fun v => v ++ [0])

theorem streamGo_false (r : List Bytes) (tail : Bytes) :
    streamGo false r ++ 0 :: tail = 0 :: (flatS r ++ tail) := by
  induction r with
  | nil => simp [streamGo, flatS]
  | cons v r ih =>
    simp only [streamGo, flatS, List.flatMap_cons, Bool.false_eq_true, if_false] at ih ⊢
    simp only [List.append_assoc, List.cons_append, List.nil_append]
    rw [ih]

theorem streamToRaw_cons (v : Bytes) (r : List Bytes) :
    streamToRaw (v :: r) = flatS (v :: r) ++ [0] := by
  unfold streamToRaw
  simp only [streamGo, if_true, List.nil_append, flatS, List.flatMap_cons, List.append_assoc]
  have := streamGo_false r [0]
  simp only [flatS] at this
  simp only [List.cons_append, List.nil_append]
  rw [this]

theorem decode_flatS (r : List Bytes) (extra : Bytes)
    (h : ∀ v ∈ r, (∀ b ∈ v, b ≠ 0) ∧ v ≠ []) :
    decodeStream (flatS r ++ 0 :: extra) = r := by
  unfold decodeStream
  induction r with
  | nil => simp [flatS, segs, untilEmpty]
  | cons v r ih =>
    obtain ⟨hv, hne⟩ := h v (List.mem_cons_self ..)
    simp only [flatS, List.flatMap_cons, List.append_assoc, List.cons_append, List.nil_append] at ih ⊢
    rw [segs_append v [] _ hv]
    simp only [List.reverse_nil, List.nil_append, untilEmpty, hne, if_false]
    congr 1
    exact ih (fun x hx => h x (List.mem_cons_of_mem _ hx))

end JrsVerif.Cli
