/- Helper lemmas for C08: each smart constructor of `Model.Arr` preserves
   "this view has exactly the length and elements of that list". -/
import JrsVerif.Model.Arr

namespace JrsVerif.Arr

/-- view `v` is observationally the list `xs` -/
def Good (v : View) (xs : List Int) : Prop :=
  len v = xs.length ∧ ∀ i, get v i = specGet xs i

theorem specGet_lt {xs : List Int} {i : Nat} (h : i < xs.length) : specGet xs i = .val xs[i] := by
  simp [specGet, h]

theorem specGet_ge {xs : List Int} {i : Nat} (h : xs.length ≤ i) : specGet xs i = .oob := by
  simp [specGet, h]

theorem good_vec (xs : List Int) : Good (.vec xs) xs := by
  constructor
  · rfl
  · intro i; simp [get, specGet]

/-! #### everyNth -/

theorem everyNth_getElem? (st : Nat) (hst : 0 < st) (l : List Int) :
    ∀ (k i : Nat), (everyNth st k l)[i]? = l[k + i * st]? := by
  induction l with
  | nil => intro k i; cases k <;> simp [everyNth]
  | cons x r ih =>
    intro k i
    cases k with
    | zero =>
      cases i with
      | zero => simp [everyNth]
      | succ i =>
        simp only [everyNth, List.getElem?_cons_succ]
        rw [ih]
        have : 0 + (i + 1) * st = (st - 1 + i * st) + 1 := by
          rw [Nat.add_mul]; omega
        rw [this, List.getElem?_cons_succ]
    | succ k =>
      simp only [everyNth]
      rw [ih]
      have : k + 1 + i * st = (k + i * st) + 1 := by omega
      rw [this, List.getElem?_cons_succ]

theorem everyNth_length (st : Nat) (hst : 0 < st) (l : List Int) :
    ∀ k, (everyNth st k l).length = (l.length - k + st - 1) / st := by
  induction l with
  | nil =>
    intro k
    cases k <;> simp [everyNth] <;> (symm; apply Nat.div_eq_of_lt; omega)
  | cons x r ih =>
    intro k
    cases k with
    | zero =>
      simp only [everyNth, List.length_cons, ih]
      by_cases h : r.length ≥ st - 1
      · have e : r.length + 1 - 0 + st - 1 = (r.length - (st - 1) + st - 1) + st := by omega
        rw [e, Nat.add_div_right _ hst]
      · have h1 : r.length - (st - 1) + st - 1 = st - 1 := by omega
        have h2 : (st - 1) / st = 0 := Nat.div_eq_of_lt (by omega)
        rw [h1, h2]
        have e : r.length + 1 - 0 + st - 1 = r.length + st := by omega
        rw [e, Nat.add_div_right _ hst]
        have : r.length / st = 0 := Nat.div_eq_of_lt (by omega)
        omega
    | succ k =>
      simp only [everyNth, List.length_cons, ih]
      congr 1; omega

/-! #### slice -/

theorem getIdx_eq_normIdx (p : Option Int) (n d : Nat) : getIdx p n d = normIdx p n d := by
  cases p with
  | none => rfl
  | some v =>
    simp only [getIdx, normIdx]
    split
    · omega
    · rfl

theorem getIdx_le (p : Option Int) (n d : Nat) (hd : d ≤ n) : getIdx p n d ≤ n := by
  cases p with
  | none => exact hd
  | some v =>
    simp only [getIdx]
    split
    · omega
    · exact Nat.min_le_right _ _

theorem good_empty : Good emptyView [] := by
  constructor
  · simp [emptyView, len, rangeLen]
  · intro i; simp [emptyView, get, specGet]; omega

theorem good_slice {v : View} {xs : List Int} (h : Good v xs) (s e : Option Int)
    (step : Option Nat) (hst : ∀ k, step = some k → 0 < k) :
    Good (mkSlice v s e step) (sliceSpec xs s e step) := by
  obtain ⟨hl, hg⟩ := h
  have hst' : 0 < step.getD 1 := by
    cases step with
    | none => simp
    | some k => simpa using hst k rfl
  simp only [mkSlice, sliceSpec, getIdx_eq_normIdx, hl]
  generalize hf : normIdx s xs.length 0 = f
  generalize ht : normIdx e xs.length xs.length = t
  generalize step.getD 1 = st at hst'
  have htn : t ≤ xs.length := by
    rw [← ht, ← getIdx_eq_normIdx]; exact getIdx_le _ _ _ (Nat.le_refl _)
  have hlen : ((xs.take t).drop f).length = t - f := by
    simp [List.length_drop, List.length_take, Nat.min_eq_left htn]
  by_cases hfe : f ≥ t
  · simp only [hfe, ↓reduceIte]
    have : (List.take t xs).drop f = [] := by
      apply List.eq_nil_of_length_eq_zero; rw [hlen]; omega
    rw [this]; simpa [everyNth] using good_empty
  · simp only [hfe, ↓reduceIte]
    constructor
    · simp only [len]
      rw [everyNth_length st hst', hlen]; simp
    · intro i
      simp only [get]
      by_cases hi : i ≥ (t - f + st - 1) / st
      · simp only [hi, ↓reduceIte]
        rw [specGet_ge]; rw [everyNth_length st hst', hlen]; simpa using hi
      · simp only [hi, ↓reduceIte]
        rw [hg]
        simp only [specGet]
        rw [everyNth_getElem? st hst']
        have hlt : i * st < t - f := by
          have h1 : i < (t - f + st - 1) / st := Nat.lt_of_not_ge hi
          have h2 : (i + 1) * st ≤ t - f + st - 1 := by
            have := (Nat.le_div_iff_mul_le hst').mp h1
            exact this
          rw [Nat.add_mul] at h2; omega
        have hidx : f + st * i < t := by rw [Nat.mul_comm]; omega
        simp only [Nat.zero_add, List.getElem?_drop, List.getElem?_take]
        have e1 : f + i * st = f + st * i := by rw [Nat.mul_comm]
        rw [e1]
        simp [hidx]

/-! #### materialize -/

theorem mapM_range_aux (xs : List Int) (f : Nat → Option Int) :
    ∀ (pre : List Int), (∀ i, i < xs.length → f (pre.length + i) = some xs[i]!) →
      ((List.range' pre.length xs.length).mapM f) = some xs := by
  induction xs with
  | nil => intro pre _; simp
  | cons x r ih =>
    intro pre h
    have h0 := h 0 (by simp)
    simp at h0
    have := ih (pre ++ [x]) (by
      intro i hi
      have := h (i + 1) (by simp; omega)
      simp at this ⊢
      rw [← this]; congr 1; omega)
    simp [List.range'_succ, List.mapM_cons, h0] at this ⊢
    rw [this]; rfl

theorem materialize_good {v : View} {xs : List Int} (h : Good v xs) : materialize v = some xs := by
  obtain ⟨hl, hg⟩ := h
  unfold materialize
  rw [hl, List.range_eq_range']
  apply mapM_range_aux xs _ []
  intro i hi
  simp only [List.length_nil, Nat.zero_add, hg, specGet_lt hi]
  simp [hi]

/-! #### extended -/

theorem good_ext {a b : View} {xs ys : List Int} (ha : Good a xs) (hb : Good b ys) :
    Good (mkExt a b) (xs ++ ys) := by
  unfold mkExt
  have hla := ha.1; have hlb := hb.1
  split
  · have : xs = [] := List.eq_nil_of_length_eq_zero (by omega)
    simpa [this] using hb
  · split
    · have : ys = [] := List.eq_nil_of_length_eq_zero (by omega)
      simpa [this] using ha
    · split
      · constructor
        · simp [len, hla, hlb]
        · intro i
          simp only [get]
          by_cases hi : len a > i
          · simp only [hi, ↓reduceIte, ha.2]
            simp only [specGet]
            rw [List.getElem?_append_left (by omega)]
          · simp only [hi, ↓reduceIte, hb.2]
            simp only [specGet]
            rw [List.getElem?_append_right (by omega), hla]
      · rw [materialize_good ha, materialize_good hb]
        exact good_vec _

/-! #### reverse -/

theorem good_rev {v : View} {xs : List Int} (h : Good v xs) : Good (mkRev v) xs.reverse := by
  obtain ⟨hl, hg⟩ := h
  constructor
  · simp [mkRev, len, hl]
  · intro i
    simp only [mkRev, get, hl]
    by_cases hi : i ≥ xs.length
    · simp only [hi, ↓reduceIte]; rw [specGet_ge]; simpa using hi
    · simp only [hi, ↓reduceIte, hg, specGet]
      rw [List.getElem?_reverse (by omega)]
      have : xs.length - i - 1 = xs.length - 1 - i := by omega
      rw [this]

/-! #### repeat -/

theorem repSpec_length (xs : List Int) (n : Nat) : (repSpec xs n).length = xs.length * n := by
  induction n with
  | zero => simp [repSpec]
  | succ n ih => simp [repSpec, ih, Nat.mul_succ, Nat.add_comm]

theorem repSpec_getElem? (xs : List Int) (hx : 0 < xs.length) (n : Nat) :
    ∀ i, i < xs.length * n → (repSpec xs n)[i]? = xs[i % xs.length]? := by
  induction n with
  | zero => intro i hi; simp at hi
  | succ n ih =>
    intro i hi
    simp only [repSpec]
    by_cases h : i < xs.length
    · rw [List.getElem?_append_left h, Nat.mod_eq_of_lt h]
    · rw [List.getElem?_append_right (by omega)]
      rw [Nat.mul_succ] at hi
      rw [ih (i - xs.length) (by omega)]
      congr 1
      exact (Nat.mod_eq_sub_mod (by omega)).symm

theorem good_rep {v : View} {xs : List Int} (h : Good v xs) (n : Nat) :
    Good (mkRep v n) (repSpec xs n) := by
  obtain ⟨hl, hg⟩ := h
  constructor
  · simp [mkRep, len, hl, repSpec_length]
  · intro i
    simp only [mkRep, get, hl]
    by_cases hi : i ≥ xs.length * n
    · simp only [hi, ↓reduceIte]; rw [specGet_ge]; rw [repSpec_length]; exact hi
    · simp only [hi, ↓reduceIte]
      have hpos : 0 < xs.length := by
        rcases Nat.eq_zero_or_pos xs.length with h0 | h0
        · rw [h0] at hi; simp at hi
        · exact h0
      have : xs.length ≠ 0 := by omega
      simp only [this, ↓reduceIte, hg, specGet]
      rw [repSpec_getElem? xs hpos n i (by omega)]

/-! #### range -/

theorem good_range (a b : Int) (ha : -(2 ^ 31 : Int) ≤ a ∧ a < 2 ^ 31)
    (hb : -(2 ^ 31 : Int) ≤ b ∧ b < 2 ^ 31) : Good (mkRange a b) (rangeSpec a b) := by
  unfold mkRange rangeSpec
  split
  · have : (b - a + 1).toNat = 0 := by omega
    rw [this]; simpa using good_empty
  · constructor
    · simp only [len, rangeLen, List.length_map, List.length_range]
      rw [Int.emod_eq_of_lt (by omega) (by omega)]
    · intro i
      simp only [get, specGet]
      by_cases hi : a + (i : Int) ≤ b
      · simp only [hi, ↓reduceIte]
        have : i < (b - a + 1).toNat := by omega
        simp [this]
      · simp only [hi, ↓reduceIte]
        have : ¬ i < (b - a + 1).toNat := by omega
        simp [this]

/-! #### map -/

theorem mapIdxSpec_length (wi : Bool) (xs : List Int) : ∀ k, (mapIdxSpec wi k xs).length = xs.length := by
  induction xs with
  | nil => intro k; rfl
  | cons x r ih => intro k; simp [mapIdxSpec, ih]

theorem mapIdxSpec_getElem? (wi : Bool) (xs : List Int) :
    ∀ k i, (mapIdxSpec wi k xs)[i]? = (xs[i]?).map (mapF wi (k + i)) := by
  induction xs with
  | nil => intro k i; simp [mapIdxSpec]
  | cons x r ih =>
    intro k i
    cases i with
    | zero => simp [mapIdxSpec]
    | succ i =>
      simp only [mapIdxSpec, List.getElem?_cons_succ, ih]
      congr 2; omega

theorem good_map {v : View} {xs : List Int} (h : Good v xs) (wi : Bool) :
    Good (mkMap v wi) (mapIdxSpec wi 0 xs) := by
  obtain ⟨hl, hg⟩ := h
  constructor
  · simp [mkMap, len, hl, mapIdxSpec_length]
  · intro i
    simp only [mkMap, get, hl]
    by_cases hi : i ≥ xs.length
    · simp only [hi, ↓reduceIte]; rw [specGet_ge]; rw [mapIdxSpec_length]; exact hi
    · simp only [hi, ↓reduceIte, hg]
      have hi' : i < xs.length := by omega
      simp only [specGet, mapIdxSpec_getElem?, Nat.zero_add]
      simp [hi']

/-! #### filter -/

theorem good_filter {v : View} {xs : List Int} (h : Good v xs) :
    Good (mkFilter v) (xs.filter filtP) := by
  unfold mkFilter
  rw [materialize_good h]
  exact good_vec _

end JrsVerif.Arr
