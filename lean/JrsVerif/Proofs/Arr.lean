/- Helper lemmas for C08: each smart constructor of `Model.Arr` preserves
   "this view has exactly the length and elements of that list". -/
import JrsVerif.Model.Arr

namespace JrsVerif.Arr

/-- view `v` is observationally the list `xs` -/
def Good (v : View) (xs : List Int) : Prop :=
  len v = xs.length ∧ (∀ i, get v i = specGet xs i) ∧ (∀ i, getLazy v i = specGet xs i) ∧
    (isCheap v = true → ∀ i, getCheap v i = specGet xs i)

theorem specGet_lt {xs : List Int} {i : Nat} (h : i < xs.length) : specGet xs i = .val xs[i] := by
  simp [specGet, h]

theorem specGet_ge {xs : List Int} {i : Nat} (h : xs.length ≤ i) : specGet xs i = .oob := by
  simp [specGet, h]

theorem good_vec (xs : List Int) (c : Bool) : Good (.vec xs c) xs := by
  refine ⟨rfl, ?_, ?_, ?_⟩
  · intro i; simp [get, specGet]
  · intro i; simp [getLazy, specGet]
  · intro hc i; simp only [isCheap] at hc; subst hc; simp [getCheap, specGet]

/-! #### everyNth -/

theorem everyNth_getElem? (st : Nat) (hst : 0 < st) (l : List Int) :
    ∀ (k i : Nat), (everyNth st k l)[i]? = l[k + i * st]? := by
  induction l with
  | nil => intro k i; cases k <;> simp [everyNth]
  | cons x r ih =>
    intro k i
    cases k with
    | zero =>
      cases i with
      | zero => simp [everyNth]
      | succ i =>
        simp only [everyNth, List.getElem?_cons_succ]
        rw [ih]
        have : 0 + (i + 1) * st = (st - 1 + i * st) + 1 := by
          rw [Nat.add_mul]; omega
        rw [this, List.getElem?_cons_succ]
    | succ k =>
      simp only [everyNth]
      rw [ih]
      have : k + 1 + i * st = (k + i * st) + 1 := by omega
      rw [this, List.getElem?_cons_succ]

theorem everyNth_length (st : Nat) (hst : 0 < st) (l : List Int) :
    ∀ k, (everyNth st k l).length = (l.length - k + st - 1) / st := by
  induction l with
  | nil =>
    intro k
    cases k <;> simp [everyNth] <;> (symm; apply Nat.div_eq_of_lt; omega)
  | cons x r ih =>
    intro k
    cases k with
    | zero =>
      simp only [everyNth, List.length_cons, ih]
      by_cases h : r.length ≥ st - 1
      · have e : r.length + 1 - 0 + st - 1 = (r.length - (st - 1) + st - 1) + st := by omega
        rw [e, Nat.add_div_right _ hst]
      · have h1 : r.length - (st - 1) + st - 1 = st - 1 := by omega
        have h2 : (st - 1) / st = 0 := Nat.div_eq_of_lt (by omega)
        rw [h1, h2]
        have e : r.length + 1 - 0 + st - 1 = r.length + st := by omega
        rw [e, Nat.add_div_right _ hst]
        have : r.length / st = 0 := Nat.div_eq_of_lt (by omega)
        omega
    | succ k =>
      simp only [everyNth, List.length_cons, ih]
      congr 1; omega

/-! #### slice -/

theorem getIdx_eq_normIdx (p : Option Int) (n d : Nat) : getIdx p n d = normIdx p n d := by
  cases p with
  | none => rfl
  | some v =>
    simp only [getIdx, normIdx]
    split
    · omega
    · rfl

theorem getIdx_le (p : Option Int) (n d : Nat) (hd : d ≤ n) : getIdx p n d ≤ n := by
  cases p with
  | none => exact hd
  | some v =>
    simp only [getIdx]
    split
    · omega
    · exact Nat.min_le_right _ _

theorem good_empty : Good emptyView [] := by
  refine ⟨?_, ?_, ?_, ?_⟩
  · simp [emptyView, len, rangeLen]
  · intro i; simp [emptyView, get, specGet]; omega
  · intro i; simp [emptyView, getLazy, specGet]; omega
  · intro _ i; simp [emptyView, getCheap, specGet]; omega

/-- the index translation of `SliceArray` (bound check against its own length, then
    `from + step * i`) over ANY accessor `g` of the inner array that agrees with the list -/
theorem slice_idx {xs : List Int} {g : Nat → R} (hg : ∀ j, g j = specGet xs j) (f t st : Nat)
    (hst : 0 < st) (htn : t ≤ xs.length) (i : Nat) :
    (if i ≥ (t - f + st - 1) / st then R.oob else g (f + st * i)) =
      specGet (everyNth st 0 ((xs.take t).drop f)) i := by
  have hlen : ((xs.take t).drop f).length = t - f := by
    simp [List.length_drop, List.length_take, Nat.min_eq_left htn]
  by_cases hi : i ≥ (t - f + st - 1) / st
  · simp only [hi, ↓reduceIte]
    rw [specGet_ge]; rw [everyNth_length st hst, hlen]; simpa using hi
  · simp only [hi, ↓reduceIte]
    rw [hg]
    simp only [specGet]
    rw [everyNth_getElem? st hst]
    have hlt : i * st < t - f := by
      have h1 : i < (t - f + st - 1) / st := Nat.lt_of_not_ge hi
      have h2 : (i + 1) * st ≤ t - f + st - 1 := by
        have := (Nat.le_div_iff_mul_le hst).mp h1
        exact this
      rw [Nat.add_mul] at h2; omega
    have hidx : f + st * i < t := by rw [Nat.mul_comm]; omega
    simp only [Nat.zero_add, List.getElem?_drop, List.getElem?_take]
    have e1 : f + i * st = f + st * i := by rw [Nat.mul_comm]
    rw [e1]
    simp [hidx]

theorem good_slice {v : View} {xs : List Int} (h : Good v xs) (s e : Option Int)
    (step : Option Nat) (hst : ∀ k, step = some k → 0 < k) :
    Good (mkSlice v s e step) (sliceSpec xs s e step) := by
  obtain ⟨hl, hg, hgl, hgc⟩ := h
  have hst' : 0 < step.getD 1 := by
    cases step with
    | none => simp
    | some k => simpa using hst k rfl
  simp only [mkSlice, sliceSpec, getIdx_eq_normIdx, hl]
  generalize hf : normIdx s xs.length 0 = f
  generalize ht : normIdx e xs.length xs.length = t
  generalize step.getD 1 = st at hst'
  have htn : t ≤ xs.length := by
    rw [← ht, ← getIdx_eq_normIdx]; exact getIdx_le _ _ _ (Nat.le_refl _)
  have hlen : ((xs.take t).drop f).length = t - f := by
    simp [List.length_drop, List.length_take, Nat.min_eq_left htn]
  by_cases hfe : f ≥ t
  · simp only [hfe, ↓reduceIte]
    have : (List.take t xs).drop f = [] := by
      apply List.eq_nil_of_length_eq_zero; rw [hlen]; omega
    rw [this]; simpa [everyNth] using good_empty
  · simp only [hfe, ↓reduceIte]
    refine ⟨?_, ?_, ?_, ?_⟩
    · simp only [len]
      rw [everyNth_length st hst', hlen]; simp
    · intro i; simp only [get]; exact slice_idx hg f t st hst' htn i
    · intro i; simp only [getLazy]; exact slice_idx hgl f t st hst' htn i
    · intro hc i; simp only [isCheap] at hc
      simp only [getCheap]; exact slice_idx (hgc hc) f t st hst' htn i

/-! #### collecting iterators (`iter`, `iter_lazy`, `iter_cheap`) -/

theorem mapM_range_aux (xs : List Int) (f : Nat → Option Int) :
    ∀ (pre : List Int), (∀ i, i < xs.length → f (pre.length + i) = some xs[i]!) →
      ((List.range' pre.length xs.length).mapM f) = some xs := by
  induction xs with
  | nil => intro pre _; simp
  | cons x r ih =>
    intro pre h
    have h0 := h 0 (by simp)
    simp at h0
    have := ih (pre ++ [x]) (by
      intro i hi
      have := h (i + 1) (by simp; omega)
      simp at this ⊢
      rw [← this]; congr 1; omega)
    simp [List.range'_succ, List.mapM_cons, h0] at this ⊢
    rw [this]; rfl


theorem collect_good {xs : List Int} {g : Nat → R} (hg : ∀ i, g i = specGet xs i) :
    collect g xs.length = some xs := by
  unfold collect
  rw [List.range_eq_range']
  apply mapM_range_aux xs _ []
  intro i hi
  simp only [List.length_nil, Nat.zero_add, hg, specGet_lt hi]
  simp [hi]

theorem materialize_good {v : View} {xs : List Int} (h : Good v xs) : materialize v = some xs := by
  unfold materialize; rw [h.1]; exact collect_good h.2.1

theorem materializeLazy_good {v : View} {xs : List Int} (h : Good v xs) :
    materializeLazy v = some xs := by
  unfold materializeLazy; rw [h.1]; exact collect_good h.2.2.1

theorem iterCheap_good {v : View} {xs : List Int} (h : Good v xs) :
    iterCheap v = if isCheap v then some (some xs) else none := by
  unfold iterCheap
  split
  · rename_i hc; rw [h.1, collect_good (h.2.2.2 hc)]
  · rfl

/-! #### extended -/

/-- the split of `ExtendedArray` over any pair of accessors agreeing with the two lists -/
theorem ext_idx {xs ys : List Int} {ga gb : Nat → R} (ha : ∀ j, ga j = specGet xs j)
    (hb : ∀ j, gb j = specGet ys j) (i : Nat) :
    (if xs.length > i then ga i else gb (i - xs.length)) = specGet (xs ++ ys) i := by
  by_cases hi : xs.length > i
  · simp only [hi, ↓reduceIte, ha, specGet]
    rw [List.getElem?_append_left (by omega)]
  · simp only [hi, ↓reduceIte, hb, specGet]
    rw [List.getElem?_append_right (by omega)]

theorem good_ext {a b : View} {xs ys : List Int} (ha : Good a xs) (hb : Good b ys) :
    Good (mkExt a b) (xs ++ ys) := by
  unfold mkExt
  have hla := ha.1; have hlb := hb.1
  split
  · have : xs = [] := List.eq_nil_of_length_eq_zero (by omega)
    simpa [this] using hb
  · split
    · have : ys = [] := List.eq_nil_of_length_eq_zero (by omega)
      simpa [this] using ha
    · split
      · -- above the threshold: linked ExtendedArray
        refine ⟨?_, ?_, ?_, ?_⟩
        · simp [len, hla, hlb]
        · intro i; simp only [get, hla]; exact ext_idx ha.2.1 hb.2.1 i
        · intro i; simp only [getLazy, hla]; exact ext_idx ha.2.2.1 hb.2.2.1 i
        · intro hc i
          simp only [isCheap, Bool.and_eq_true] at hc
          simp only [getCheap, hla]; exact ext_idx (ha.2.2.2 hc.1) (hb.2.2.2 hc.2) i
      · -- copy: through iter_cheap when both are cheap, through iter_lazy otherwise
        rw [iterCheap_good ha, iterCheap_good hb, materializeLazy_good ha, materializeLazy_good hb]
        cases isCheap a <;> cases isCheap b <;> exact good_vec _ _

/-! #### reverse -/

theorem rev_idx {xs : List Int} {g : Nat → R} (hg : ∀ j, g j = specGet xs j) (i : Nat) :
    (if i ≥ xs.length then R.oob else g (xs.length - i - 1)) = specGet xs.reverse i := by
  by_cases hi : i ≥ xs.length
  · simp only [hi, ↓reduceIte]; rw [specGet_ge]; simpa using hi
  · simp only [hi, ↓reduceIte, hg, specGet]
    rw [List.getElem?_reverse (by omega)]
    have : xs.length - i - 1 = xs.length - 1 - i := by omega
    rw [this]

theorem good_rev {v : View} {xs : List Int} (h : Good v xs) : Good (mkRev v) xs.reverse := by
  obtain ⟨hl, hg, hgl, hgc⟩ := h
  refine ⟨?_, ?_, ?_, ?_⟩
  · simp [mkRev, len, hl]
  · intro i; simp only [mkRev, get, hl]; exact rev_idx hg i
  · intro i; simp only [mkRev, getLazy, hl]; exact rev_idx hgl i
  · intro hc i; simp only [mkRev, isCheap] at hc
    simp only [mkRev, getCheap, hl]; exact rev_idx (hgc hc) i

/-! #### repeat -/

theorem repSpec_length (xs : List Int) (n : Nat) : (repSpec xs n).length = xs.length * n := by
  induction n with
  | zero => simp [repSpec]
  | succ n ih => simp [repSpec, ih, Nat.mul_succ, Nat.add_comm]

theorem repSpec_getElem? (xs : List Int) (hx : 0 < xs.length) (n : Nat) :
    ∀ i, i < xs.length * n → (repSpec xs n)[i]? = xs[i % xs.length]? := by
  induction n with
  | zero => intro i hi; simp at hi
  | succ n ih =>
    intro i hi
    simp only [repSpec]
    by_cases h : i < xs.length
    · rw [List.getElem?_append_left h, Nat.mod_eq_of_lt h]
    · rw [List.getElem?_append_right (by omega)]
      rw [Nat.mul_succ] at hi
      rw [ih (i - xs.length) (by omega)]
      congr 1
      exact (Nat.mod_eq_sub_mod (by omega)).symm

theorem rep_idx {xs : List Int} {g : Nat → R} (hg : ∀ j, g j = specGet xs j) (n i : Nat) :
    (if i ≥ xs.length * n then R.oob else if xs.length = 0 then R.panic else g (i % xs.length)) =
      specGet (repSpec xs n) i := by
  by_cases hi : i ≥ xs.length * n
  · simp only [hi, ↓reduceIte]; rw [specGet_ge]; rw [repSpec_length]; exact hi
  · simp only [hi, ↓reduceIte]
    have hpos : 0 < xs.length := by
      rcases Nat.eq_zero_or_pos xs.length with h0 | h0
      · rw [h0] at hi; simp at hi
      · exact h0
    have : xs.length ≠ 0 := by omega
    simp only [this, ↓reduceIte, hg, specGet]
    rw [repSpec_getElem? xs hpos n i (by omega)]

theorem good_rep {v : View} {xs : List Int} (h : Good v xs) (n : Nat) :
    Good (mkRep v n) (repSpec xs n) := by
  obtain ⟨hl, hg, hgl, hgc⟩ := h
  refine ⟨?_, ?_, ?_, ?_⟩
  · simp [mkRep, len, hl, repSpec_length]
  · intro i; simp only [mkRep, get, hl]; exact rep_idx hg n i
  · intro i; simp only [mkRep, getLazy, hl]; exact rep_idx hgl n i
  · intro hc i; simp only [mkRep, isCheap] at hc
    simp only [mkRep, getCheap, hl]; exact rep_idx (hgc hc) n i

/-! #### range -/

theorem range_idx (a b : Int) (i : Nat) :
    (if a + (i : Int) ≤ b then R.val (a + i) else R.oob) = specGet (rangeSpec a b) i := by
  simp only [rangeSpec, specGet]
  by_cases hi : a + (i : Int) ≤ b
  · simp only [hi, ↓reduceIte]
    have : i < (b - a + 1).toNat := by omega
    simp [this]
  · simp only [hi, ↓reduceIte]
    have : ¬ i < (b - a + 1).toNat := by omega
    simp [this]

/-- `RangeArray` on its domain (`i32` ends, `start ≤ end + 1`) is the list `start..=end` -/
theorem good_range_dom (a b : Int) (ha : I32 a) (hb : I32 b) (hab : a ≤ b + 1) :
    Good (.range a b) (rangeSpec a b) := by
  obtain ⟨ha1, ha2⟩ := ha; obtain ⟨hb1, hb2⟩ := hb
  refine ⟨?_, ?_, ?_, ?_⟩
  · simp only [len, rangeLen, rangeSpec, List.length_map, List.length_range]
    rw [Int.emod_eq_of_lt (by omega) (by omega)]
  · intro i; simp only [get]; exact range_idx a b i
  · intro i; simp only [getLazy]; exact range_idx a b i
  · intro _ i; simp only [getCheap]; exact range_idx a b i

theorem good_range (a b : Int) (ha : -(2 ^ 31 : Int) ≤ a ∧ a < 2 ^ 31)
    (hb : -(2 ^ 31 : Int) ≤ b ∧ b < 2 ^ 31) : Good (mkRange a b) (rangeSpec a b) := by
  unfold mkRange
  split
  · have : (b - a + 1).toNat = 0 := by omega
    simp only [rangeSpec, this]; simpa using good_empty
  · exact good_range_dom a b ha hb (by omega)

/-! #### map -/

theorem mapIdxSpec_length (wi : Bool) (xs : List Int) : ∀ k, (mapIdxSpec wi k xs).length = xs.length := by
  induction xs with
  | nil => intro k; rfl
  | cons x r ih => intro k; simp [mapIdxSpec, ih]

theorem mapIdxSpec_getElem? (wi : Bool) (xs : List Int) :
    ∀ k i, (mapIdxSpec wi k xs)[i]? = (xs[i]?).map (mapF wi (k + i)) := by
  induction xs with
  | nil => intro k i; simp [mapIdxSpec]
  | cons x r ih =>
    intro k i
    cases i with
    | zero => simp [mapIdxSpec]
    | succ i =>
      simp only [mapIdxSpec, List.getElem?_cons_succ, ih]
      congr 2; omega

theorem good_map {v : View} {xs : List Int} (h : Good v xs) (wi : Bool) :
    Good (mkMap v wi) (mapIdxSpec wi 0 xs) := by
  obtain ⟨hl, _, hgl, _⟩ := h
  have key : ∀ i, (if i ≥ xs.length then R.oob else mapApply wi i (getLazy v i)) =
      specGet (mapIdxSpec wi 0 xs) i := by
    intro i
    by_cases hi : i ≥ xs.length
    · simp only [hi, ↓reduceIte]; rw [specGet_ge]; rw [mapIdxSpec_length]; exact hi
    · simp only [hi, ↓reduceIte, hgl]
      have hi' : i < xs.length := by omega
      simp only [specGet, mapIdxSpec_getElem?, Nat.zero_add]
      simp [hi', mapApply]
  refine ⟨?_, ?_, ?_, ?_⟩
  · simp [mkMap, len, hl, mapIdxSpec_length]
  · intro i; simp only [mkMap, get, hl]; exact key i
  · intro i
    simp only [mkMap, getLazy, hl]
    rw [key i]
    by_cases hi : i ≥ xs.length
    · simp only [hi, ↓reduceIte]; rw [specGet_ge]; rw [mapIdxSpec_length]; exact hi
    · simp only [hi, ↓reduceIte]
      have hi' : i < (mapIdxSpec wi 0 xs).length := by rw [mapIdxSpec_length]; omega
      rw [specGet_lt hi']; rfl
  · intro hc; simp [mkMap, isCheap] at hc

/-! #### filter -/

theorem good_filter {v : View} {xs : List Int} (h : Good v xs) :
    Good (mkFilter v) (xs.filter filtP) := by
  unfold mkFilter
  rw [iterCheap_good h, materializeLazy_good h]
  cases isCheap v <;> exact good_vec _ _

/-! #### makeArray -/

theorem newExclusive_pos (n : Nat) (hn : 0 < n) : newExclusive 0 n = .range 0 ((n : Int) - 1) := by
  unfold newExclusive
  have : ¬ ((n : Int) - 1 < -(2 ^ 31 : Int)) := by omega
  simp only [this, ↓reduceIte]

theorem mapIdx_range (n : Nat) (hn : 0 < n) :
    mapIdxSpec false 0 (rangeSpec 0 ((n : Int) - 1)) = makeArraySpec n none := by
  apply List.ext_getElem?
  intro i
  rw [mapIdxSpec_getElem?]
  have e : ((n : Int) - 1 - 0 + 1).toNat = n := by omega
  simp only [rangeSpec, makeArraySpec, e, List.getElem?_map, List.getElem?_range]
  by_cases hi : i < n
  · simp [hi, mapF]
  · simp [hi]

theorem good_makeArray (n : Nat) (hn : n < 2 ^ 31) (triv : Option Int) :
    ∃ v, mkMakeArray n triv = some v ∧ Good v (makeArraySpec n triv) := by
  unfold mkMakeArray
  have h1 : ¬ ((n : Int) < 0 ∨ (n : Int) > 2 ^ 31 - 1) := by omega
  simp only [h1, ↓reduceIte]
  by_cases h0 : (n : Int) = 0
  · simp only [h0, ↓reduceIte]
    have : n = 0 := by omega
    subst this
    refine ⟨_, rfl, ?_⟩
    cases triv <;> simpa [makeArraySpec] using good_empty
  · simp only [h0, ↓reduceIte]
    have hpos : 0 < n := by omega
    cases triv with
    | none =>
      refine ⟨_, rfl, ?_⟩
      rw [newExclusive_pos n hpos, ← mapIdx_range n hpos]
      exact good_map (good_range_dom 0 ((n : Int) - 1) (by unfold I32; omega) (by unfold I32; omega)
        (by omega)) false
    | some c =>
      refine ⟨_, rfl, ?_⟩
      simpa [makeArraySpec] using good_vec (List.replicate n c) true

/-! #### the domain of `RangeArray::len` and its callers -/

/-- C08 (3): with `i32` ends, the wrapping `RangeArray::len` is the true length of `start..=end`
    exactly when `start ≤ end + 1` -/
theorem rangeLen_exact_iff (s e : Int) (hs : I32 s) (he : I32 e) :
    rangeLen s e = (rangeSpec s e).length ↔ s ≤ e + 1 := by
  obtain ⟨hs1, hs2⟩ := hs; obtain ⟨he1, he2⟩ := he
  simp only [rangeLen, rangeSpec, List.length_map, List.length_range]
  constructor
  · intro h
    by_cases hc : s ≤ e + 1
    · exact hc
    · exfalso
      have h0 : (e - s + 1).toNat = 0 := by omega
      rw [h0] at h
      have : (e - s + 1) % (2 ^ 64 : Int) = e - s + 1 + 2 ^ 64 := by
        rw [← Int.add_emod_right]
        exact Int.emod_eq_of_lt (by omega) (by omega)
      rw [this] at h; omega
  · intro h
    rw [Int.emod_eq_of_lt (by omega) (by omega)]

theorem rangeDom_empty : RangeDom emptyView := by
  simp only [emptyView, RangeDom, I32]; omega

theorem rangeDom_mkRange (a b : Int) (ha : I32 a) (hb : I32 b) : RangeDom (mkRange a b) := by
  unfold mkRange; split
  · exact rangeDom_empty
  · exact ⟨ha, hb, by omega⟩

theorem rangeDom_mkSlice {v : View} (h : RangeDom v) (s e : Option Int) (st : Option Nat) :
    RangeDom (mkSlice v s e st) := by
  simp only [mkSlice]; split
  · exact rangeDom_empty
  · exact h

theorem rangeDom_mkExt {a b : View} (ha : RangeDom a) (hb : RangeDom b) : RangeDom (mkExt a b) := by
  unfold mkExt
  split
  · exact hb
  · split
    · exact ha
    · split
      · exact ⟨ha, hb⟩
      · split
        · split <;> trivial
        · split <;> trivial

theorem rangeDom_mkFilter (v : View) : RangeDom (mkFilter v) := by
  unfold mkFilter; split <;> split <;> trivial

theorem rangeDom_makeArray (n : Nat) (hn : n < 2 ^ 31) (triv : Option Int) (v : View)
    (h : mkMakeArray n triv = some v) : RangeDom v := by
  unfold mkMakeArray at h
  have h1 : ¬ ((n : Int) < 0 ∨ (n : Int) > 2 ^ 31 - 1) := by omega
  simp only [h1, ↓reduceIte] at h
  by_cases h0 : (n : Int) = 0
  · simp only [h0, ↓reduceIte, Option.some.injEq] at h; subst h; exact rangeDom_empty
  · simp only [h0, ↓reduceIte] at h
    cases triv with
    | none =>
      simp only [Option.some.injEq] at h; subst h
      rw [newExclusive_pos n (by omega)]
      simp only [mkMap, RangeDom, I32]; omega
    | some c => simp only [Option.some.injEq] at h; subst h; trivial

end JrsVerif.Arr
