/- C11 (round 3) helper lemmas: lossy UTF-8 decoding (`String::from_utf8_lossy`). -/
import JrsVerif.Proofs.Str

namespace JrsVerif.Str

theorem decLossyF_nil (f : Nat) : decLossyF f [] = [] := by cases f <;> rfl

theorem badLen_pos (b : Nat) (t : List Nat) : 1 ≤ badLen (b :: t) := by
  simp only [badLen]
  repeat' split
  all_goals omega

theorem dec1_shorter {bs : List Nat} {c : Nat} {r : List Nat} (h : dec1 bs = some (c, r)) :
    r.length < bs.length := by
  obtain ⟨e, _⟩ := dec1_sound h
  have := enc1_length_pos c
  rw [e, List.length_append]; omega

/-- enough fuel is enough fuel -/
theorem decLossyF_fuel (n : Nat) : ∀ (f f' : Nat) (bs : List Nat), bs.length ≤ n → bs.length ≤ f →
    bs.length ≤ f' → decLossyF f bs = decLossyF f' bs := by
  induction n with
  | zero =>
    intro f f' bs h _ _
    have : bs = [] := List.length_eq_zero_iff.mp (by omega)
    subst this; rw [decLossyF_nil, decLossyF_nil]
  | succ n ih =>
    intro f f' bs hn hf hf'
    cases bs with
    | nil => rw [decLossyF_nil, decLossyF_nil]
    | cons b t =>
      cases f with
      | zero => simp at hf
      | succ f =>
        cases f' with
        | zero => simp at hf'
        | succ f' =>
          simp only [decLossyF]
          simp only [List.length_cons] at hn hf hf'
          split
          · rename_i c r hd
            have := dec1_shorter hd
            simp only [List.length_cons] at this
            rw [ih f f' r (by omega) (by omega) (by omega)]
          · have := badLen_pos b t
            have hl : ((b :: t).drop (badLen (b :: t))).length ≤ t.length := by
              simp only [List.length_drop, List.length_cons]; omega
            rw [ih f f' _ (by omega) (by omega) (by omega)]

theorem decLossy_cons_valid (c : Nat) (hc : isScalar c = true) (rest : List Nat) :
    decLossy (enc1 c ++ rest) = c :: decLossy rest := by
  unfold decLossy
  obtain ⟨b, t, hbt⟩ : ∃ b t, enc1 c ++ rest = b :: t := by
    cases h : enc1 c ++ rest with
    | nil => simp [enc1_ne_nil] at h
    | cons b t => exact ⟨b, t, rfl⟩
  rw [hbt]
  simp only [List.length_cons, decLossyF]
  rw [← hbt, dec1_enc1 c hc]
  simp only
  have hl : rest.length ≤ t.length := by
    have := congrArg List.length hbt
    have := enc1_length_pos c
    simp only [List.length_append, List.length_cons] at *
    omega
  rw [decLossyF_fuel t.length _ rest.length rest hl hl (Nat.le_refl _)]

theorem decLossy_append_valid (s : List Nat) (hs : AllScalar s) (rest : List Nat) :
    decLossy (enc s ++ rest) = s ++ decLossy rest := by
  induction s with
  | nil => simp [enc]
  | cons c s ih =>
    simp only [enc, List.append_assoc, List.cons_append]
    rw [decLossy_cons_valid c (hs c (by simp)), ih (fun d hd => hs d (by simp [hd]))]

theorem decLossy_cons_invalid (b : Nat) (t : List Nat) (h : dec1 (b :: t) = none) :
    decLossy (b :: t) = 0xFFFD :: decLossy ((b :: t).drop (badLen (b :: t))) := by
  unfold decLossy
  simp only [List.length_cons, decLossyF, h]
  have := badLen_pos b t
  have hl : ((b :: t).drop (badLen (b :: t))).length ≤ t.length := by
    simp only [List.length_drop, List.length_cons]; omega
  rw [decLossyF_fuel t.length _ _ _ hl hl (Nat.le_refl _)]

theorem decLossyF_marks (f : Nat) : ∀ bs : List Nat, bs.length ≤ f → decF f bs = none →
    0xFFFD ∈ decLossyF f bs := by
  induction f with
  | zero =>
    intro bs hl h
    have : bs = [] := List.length_eq_zero_iff.mp (by omega)
    subst this; simp [decF] at h
  | succ f ih =>
    intro bs hl h
    cases bs with
    | nil => simp [decF] at h
    | cons b t =>
      simp only [decF] at h
      simp only [decLossyF]
      split at h
      · rename_i hd; simp [hd]
      · rename_i c r hd
        have hr := dec1_shorter hd
        simp only [List.length_cons] at hr hl
        have hn : decF f r = none := by
          cases hx : decF f r with
          | none => rfl
          | some x => rw [hx] at h; simp at h
        simp only [hd]
        exact List.mem_cons_of_mem _ (ih r (by omega) hn)

end JrsVerif.Str
